(* C01 / C07, closures -- part 3: the simulation.  Every call goes through `call_sim`: ANY closure related to a VFun
   (whatever created it, wherever it has been stored or passed) does what call_clos does, the injection growing by the
   cells the callee allocates, related cells holding related values afterwards (`modify` writes through). *)
From Coq Require Import List Arith ZArith Lia Bool.
Import ListNotations.
From MS Require Import Base.Str Vm.Model Lang.Syntax Lang.Eval Compile.Compile Compile.ExprBase Compile.ExprSim.
From MS Require Import Compile.StmtMach Compile.StmtRel Compile.StmtFrag Compile.StmtSim Compile.StmtFun.
From MS Require Import Compile.ClosFrag Compile.ClosRel Compile.ClosEval.
From MS Require Vm.ClosureLemmas.
Open Scope nat_scope.

Ltac atp H := first [exact H | match type of H with
  | nth_error _ ?p = _ => match goal with |- nth_error _ ?q = _ => replace q with p by lia; exact H end
  | code_at _ ?p _ => match goal with |- code_at _ ?q _ => replace q with p by lia; exact H end end].

Section Sim.
Variable path : str.
Variable prog : program.

Local Notation vrel := (ClosRel.vrel path prog).
Local Notation heap_ok := (ClosRel.heap_ok path prog).
Local Notation clos_ok := (ClosRel.clos_ok path prog).
Local Notation installed := (ClosRel.installed prog).

Fixpoint vrels (b : cinj) (ks : list kind) (vs : list rvalue) (ws : list value) : Prop :=
  match ks, vs, ws with
  | [], [], [] => True
  | k :: ks, v :: vs, w :: ws => vrel b k v w /\ vrels b ks vs ws
  | _, _, _ => False
  end.
Lemma vrels_mono : forall b b' ks vs ws, cinj_le b b' -> vrels b ks vs ws -> vrels b' ks vs ws.
Proof.
  intros b b' ks. induction ks as [|k ks IH]; intros [|v vs] [|w ws] Hle H; cbn [vrels] in *; try contradiction; [exact Logic.I|].
  destruct H as [H1 H2]. split; [eapply vrel_mono; eassumption|now apply IH].
Qed.
Lemma vrels_length : forall b ks vs ws, vrels b ks vs ws -> length vs = length ks /\ length ws = length ks.
Proof.
  intros b ks. induction ks as [|k ks IH]; intros [|v vs] [|w ws] H; cbn [vrels] in *; try contradiction; [split; reflexivity|].
  destruct (IH _ _ (proj2 H)). cbn [length]. split; congruence.
Qed.

Definition lens (s s' : rstate) (g g' : gstate) : Prop :=
  length (store s) <= length (store s') /\ length (cells g) <= length (cells g').
Lemma lens_refl : forall s g, lens s s g g.
Proof. intros. split; lia. Qed.
Lemma lens_trans : forall s s1 s2 g g1 g2, lens s s1 g g1 -> lens s1 s2 g1 g2 -> lens s s2 g g2.
Proof. intros s s1 s2 g g1 g2 [A1 A2] [B1 B2]. split; lia. Qed.

(* what the callee (run_fn on the code of the literal) does for a call the reference semantics makes with `fuel` *)
Definition call_sim (fuel : nat) : Prop :=
  forall b s g1 pk r ps body cenv loc cb vs ws,
    heap_ok b s g1 -> out g1 = rout s -> frames_nd (frames g1) ->
    clos_ok b pk r ps body cenv loc cb -> vrels b pk vs ws ->
    match call_clos_ fuel (RClos ps body cenv) vs s with
    | EVal v s' => exists fuel' g2 b' w,
          run_fn fuel' prog loc ws cb g1 = RDone (Some w) g2 /\ bext b b' s g1 /\ heap_ok b' s' g2 /\ vrel b' r v w /\
          frames g2 = frames g1 /\ out g2 = rout s' /\ keep b g1 g2 /\ lens s s' g1 g2
    | ENoVal s' => r = KN /\ exists fuel' g2 b',
          run_fn fuel' prog loc ws cb g1 = RDone None g2 /\ bext b b' s g1 /\ heap_ok b' s' g2 /\
          frames g2 = frames g1 /\ out g2 = rout s' /\ keep b g1 g2 /\ lens s s' g1 g2
    | EFail fl s' => fail_post fl (exists fuel' e g2,
          run_fn fuel' prog loc ws cb g1 = RFail e g2 /\ err_rel_s fl e /\ out g2 = rout s')
    | EFuel => True
    end.

(* ================================================================ one activation *)
Section Act.
Variable name : str.
Variable code : list instr.
Variable cb : option (list (str * N)).
Variable CD : kctx.
Variable base : list frame.
Variable SF : sfk.
Variable c0 : nat.
Hypothesis Hsmall : small (c0 + 2 * length code + 8).
Variable FU : nat.
Hypothesis Hcall : forall fuel', fuel' < FU -> call_sim fuel'.

(* the names the VM binds only if the reference semantics does: all of them for statements (HPall below); all but the counter
   while the upper bound of a `from` loop with a named counter is evaluated *)
Variable P : str -> Prop.
Hypothesis HPcd : forall x, assoc x CD <> None -> P x.

Local Notation ClA := (Cl path prog P cb CD base name SF).

(* expression code leaves the user names and the registers below d alone *)
Definition fkeep (d : nat) (g g' : gstate) : Prop :=
  forall y, ~ own_reg d y -> find_in_function y (frames g') = find_in_function y (frames g) /\
                             assoc y (top_vars (frames g')) = assoc y (top_vars (frames g)).
Lemma fkeep_refl : forall d g, fkeep d g g.
Proof. intros d g y _. split; reflexivity. Qed.
Lemma fkeep_trans : forall d g1 g2 g3, fkeep d g1 g2 -> fkeep d g2 g3 -> fkeep d g1 g3.
Proof. intros d g1 g2 g3 H1 H2 y Hy. destruct (H1 y Hy) as [A1 B1], (H2 y Hy) as [A2 B2]. split; congruence. Qed.
Lemma fkeep_same : forall d g g', frames g' = frames g -> fkeep d g g'.
Proof. intros d g g' E y _. now rewrite E. Qed.
Lemma fkeep_mono : forall d d' g g', d <= d' -> fkeep d' g g' -> fkeep d g g'.
Proof. intros d d' g g' Hle H y Hy. apply H. intros Ho. apply Hy. eapply own_reg_mono; eassumption. Qed.

Lemma keep_trans : forall b b1 s g g1 g2, keep b g g1 -> bext b b1 s g -> keep b1 g1 g2 -> keep b g g2.
Proof.
  intros b b1 s g g1 g2 H1 [_ He] H2 c' w Hc Hn. apply H2; [now apply H1|].
  intros c k Hb. destruct (He _ _ _ Hb) as [Hb0|[_ Hlen]]; [exact (Hn c k Hb0)|].
  assert (N.to_nat c' < length (cells g)) by (apply nth_error_Some; unfold cell_get in Hc; congruence). lia.
Qed.
Lemma keep_cells_app : forall b g g' extra, cells g' = cells g ++ extra -> keep b g g'.
Proof.
  intros b g g' extra E c' w Hc _. unfold cell_get in *. rewrite E. rewrite nth_error_app1; [exact Hc|]. apply nth_error_Some. congruence.
Qed.

Definition rest (b : cinj) (d : nat) (s s' : rstate) (a : act) (g : gstate) (a' : act) (g' : gstate) : Prop :=
  tl (frames g') = tl (frames g) /\ act_same a a' /\ a_ss a' = a_ss a /\ keep b g g' /\ fkeep d g g' /\ lens s s' g g'.

(* the result of an expression of kind k *)
Definition eres_ok (b : cinj) (B : kctx) (env : fenv) (s : rstate) (d fin : nat) (a : act) (g : gstate) (k : kind) (r : eres) : Prop :=
  match r with
  | EVal v s' => exists a' g' b' w, xrun prog name code a g a' g' /\ a_ip a' = fin /\ a_ops a' = [w] /\
        bext b b' s g /\ ClA b' B env s' g' /\ vrel b' k v w /\ rest b d s s' a g a' g'
  | ENoVal s' => k = KN /\ exists a' g' b', xrun prog name code a g a' g' /\ a_ip a' = fin /\ a_ops a' = [] /\
        bext b b' s g /\ ClA b' B env s' g' /\ rest b d s s' a g a' g'
  | EFail f s' => fail_post f (exists e0 g', xfail prog name code a g e0 g' /\ err_rel_s f e0 /\ out g' = rout s')
  | EFuel => True
  end.

(* ---------------------------------------------------------------- the relation and pure expression code *)
Lemma Cl_ext : forall b B env s g g' d lo hi, ClA b B env s g -> ExprSim.ext d lo hi g g' -> frames_nd (frames g') ->
  ClA b B env s g'.
Proof.
  intros b B env s g g' d lo hi [H1 H2 H3 H4 H5 H6 H7 H8 H9 H10] He Hnd'.
  destruct (ext_cells _ _ _ _ _ He) as [extra Ec].
  pose proof (ext_labs _ _ _ _ _ He) as Hl. pose proof (ext_tail _ _ _ _ _ He) as Ht.
  pose proof (ext_find _ _ _ _ _ He) as Hf. pose proof (ext_out _ _ _ _ _ He) as Hout.
  destruct g as [cs fs o tr], g' as [cs' fs' o' tr']. cbn [cells frames out] in *. subst cs' o'.
  destruct fs as [|f fs]; [destruct (Rfr2_ne _ _ _ _ H2); congruence|].
  destruct fs' as [|f' fs']; [discriminate|].
  cbn [map tl] in Hl, Ht. subst fs'. injection Hl as Hl.
  assert (Hfind : forall x, uname0 x -> find_in_function x (f' :: fs) = find_in_function x (f :: fs)).
  { intros x Hx. apply Hf. apply own_reg_not_src. exact (proj1 Hx). }
  constructor; cbn [cells frames out]; try assumption.
  - destruct H1 as [A1 A2]. split; [|exact A2]. intros c c' k Hb. destruct (A1 _ _ _ Hb) as (v & w & E1 & E2 & E3).
    exists v, w. split; [exact E1|]. split; [|exact E3]. unfold cell_get in *. cbn [cells] in *.
    rewrite nth_error_app1; [exact E2|]. apply nth_error_Some. congruence.
  - eapply Rfr2_top; eassumption.
  - intros x k E. destruct (H3 x k E) as (Hx & c & c' & A1 & A2 & A3). split; [exact Hx|]. exists c, c'.
    split; [exact A1|]. split; [|exact A3]. cbn [frames] in *. rewrite (Hfind x Hx). exact A2.
  - destruct (locals env) as [|sc l]; [destruct (Rfr2_ne _ _ _ _ H2); congruence|exact H6].
  - rewrite <- H9. apply cf_top. exact Hl.
Qed.

Lemma Cl_trc : forall b B env s g nm a i, ClA b B env s g -> ClA b B env s (trc nm a g i).
Proof. intros b B env s g nm a i H. eapply Cl_same; [exact H|reflexivity|reflexivity|reflexivity]. Qed.

(* the captured DATA variables as a scope of the reference semantics: the environment a pure expression needs *)
Definition capsc (env : fenv) : scope :=
  map (fun p => (fst p, match lookup_scopes (fst p) (captured env) with Some c => c | None => 0%N end)) CD.
Definition envp (env : fenv) : fenv := {| locals := map strip_sc (locals env); captured := [capsc env]; cur := cur env |}.

Lemma assoc_capsc : forall env x, assoc x (capsc env) =
  match assoc x CD with Some _ => Some (match lookup_scopes x (captured env) with Some c => c | None => 0%N end) | None => None end.
Proof.
  intros env x. unfold capsc. clear HPcd. induction CD as [|[y ky] t IH]; [reflexivity|]. cbn [map fst assoc].
  destruct (str_eqb y x) eqn:E; [apply str_eqb_iff in E; subst y; reflexivity|exact IH].
Qed.

(* where the reference semantics finds a variable of the expression; its value *)
Lemma var_cell : forall b B env s g x k, ClA b B env s g -> bound2 B env -> kvar B CD x = Some k ->
  uname0 x /\ exists c c' v w, lookup_scopes x (locals env ++ captured env) = Some c /\
     lookup_scopes x (map strip_sc (locals env) ++ [capsc env]) = Some c /\
     (forall a, a_cb a = cb -> lookup_var a g x = Some c') /\ b c c' k /\ sget s c = Some v /\ cell_get g c' = Some w /\ vrel b k v w.
Proof.
  intros b B env s g x k H Hb Hk. unfold kvar in Hk. destruct (assoc x B) as [k1|] eqn:EB.
  - inversion Hk; subst k1. destruct (cl_B _ _ _ _ _ _ _ _ _ _ _ _ _ H x k EB) as (Hx & c & c' & A1 & A2 & A3). split; [exact Hx|].
    destruct (proj1 (cl_heap _ _ _ _ _ _ _ _ _ _ _ _ _ H) _ _ _ A3) as (v & w & E1 & E2 & E3).
    exists c, c', v, w. split; [now apply lookup_app_some|]. split; [apply lookup_app_some; rewrite (lookup_strip x _ (proj2 (proj2 Hx))); exact A1|].
    split; [intros a _; unfold lookup_var; now rewrite A2|]. auto.
  - destruct (cl_cap _ _ _ _ _ _ _ _ _ _ _ _ _ H x k Hk) as (Hx & c & c' & A1 & A2 & A3). split; [exact Hx|].
    destruct (proj1 (cl_heap _ _ _ _ _ _ _ _ _ _ _ _ _ H) _ _ _ A3) as (v & w & E1 & E2 & E3).
    assert (Hn : lookup_scopes x (locals env) = None).
    { destruct (lookup_scopes x (locals env)) eqn:E; [|reflexivity]. exfalso.
      assert (Hin : In x (map fst B)) by (apply (bound2_in _ _ _ Hb (proj2 (proj2 Hx))); congruence).
      clear -EB Hin. induction B as [|[y ky] t IH]; [destruct Hin|]. cbn [assoc map fst In] in *.
      destruct (str_eqb y x) eqn:E; [discriminate|]. destruct Hin as [->|Hin]; [now rewrite str_eqb_refl in E|auto]. }
    assert (Hf : find_in_function x (frames g) = None).
    { pose proof (Rfr2_look _ _ _ _ (cl_fr _ _ _ _ _ _ _ _ _ _ _ _ _ H) x Hx) as Hl. rewrite Hn in Hl.
      destruct (find_in_function x (frames g)); [exfalso; apply Hl; apply HPcd; congruence|reflexivity]. }
    exists c, c', v, w. split; [rewrite lookup_app_split, Hn; exact A1|]. split.
    { rewrite lookup_app_split, (lookup_strip x _ (proj2 (proj2 Hx))), Hn. cbn [lookup_scopes]. rewrite assoc_capsc, Hk, A1. reflexivity. }
    split; [intros a Ha; unfold lookup_var, load_cb; rewrite Hf, Ha; exact A2|]. auto.
Qed.

Lemma Cl_Renv : forall b B env s a g, ClA b B env s g -> bound2 B env -> a_cb a = cb -> Renv (envp env) s a g.
Proof.
  intros b B env s a g H Hb Hacb x c v Hsx Hl Hg Hfo. cbn [envp locals captured] in Hl.
  assert (Hxh : x <> hid).
  { intros ->. rewrite lookup_app_split, lookup_strip_hid in Hl. cbn [lookup_scopes] in Hl. rewrite assoc_capsc in Hl.
    destruct (assoc hid CD) as [k|] eqn:Ek; [|discriminate]. destruct (cl_cap _ _ _ _ _ _ _ _ _ _ _ _ _ H hid k Ek) as (Hx & _). exact (proj2 (proj2 Hx) eq_refl). }
  rewrite lookup_app_split, (lookup_strip x _ Hxh) in Hl. destruct (lookup_scopes x (locals env)) as [c1|] eqn:E1.
  - inversion Hl; subst c1.
    assert (Hx : uname0 x) by (apply (proj2 Hb); apply (bound2_in _ _ _ Hb Hxh); congruence).
    pose proof (Rfr2_look _ _ _ _ (cl_fr _ _ _ _ _ _ _ _ _ _ _ _ _ H) x Hx) as Hk. rewrite E1 in Hk.
    destruct (find_in_function x (frames g)) as [c'|] eqn:E2; [|contradiction]. destruct Hk as [k Hk].
    destruct (proj1 (cl_heap _ _ _ _ _ _ _ _ _ _ _ _ _ H) _ _ _ Hk) as (v0 & w & A1 & A2 & A3). rewrite Hg in A1. inversion A1; subst v0.
    exists c'. split; [unfold lookup_var; now rewrite E2|]. destruct k as [|pk r|].
    + destruct A3 as [_ ->]. exact A2.
    + destruct A3 as (ps & body & cenv & loc & cb0 & -> & _). destruct Hfo.
    + destruct A3 as [_ ->]. exact A2.
  - cbn [lookup_scopes] in Hl. rewrite assoc_capsc in Hl. destruct (assoc x CD) as [k|] eqn:Ek; [|discriminate].
    destruct (cl_cap _ _ _ _ _ _ _ _ _ _ _ _ _ H x k Ek) as (Hx & c2 & c' & A1 & A2 & A3). rewrite A1 in Hl. inversion Hl; subst c2.
    pose proof (Rfr2_look _ _ _ _ (cl_fr _ _ _ _ _ _ _ _ _ _ _ _ _ H) x Hx) as Hk. rewrite E1 in Hk.
    destruct (find_in_function x (frames g)) as [cz|] eqn:E2; [exfalso; apply Hk; apply HPcd; congruence|].
    destruct (proj1 (cl_heap _ _ _ _ _ _ _ _ _ _ _ _ _ H) _ _ _ A3) as (v0 & w & B1 & B2 & B3). rewrite Hg in B1. inversion B1; subst v0.
    exists c'. split; [unfold lookup_var, load_cb; rewrite E2, Hacb; exact A2|]. destruct k as [|pk r|].
    + destruct B3 as [_ ->]. exact B2.
    + destruct B3 as (ps & body & cenv & loc & cb0 & -> & _). destruct Hfo.
    + destruct B3 as [_ ->]. exact B2.
Qed.

Lemma ok_dexpr_parts : forall B e, ok_dexpr B CD e = true ->
  pure e = true /\ lits_ok e = true /\ forall x, In x (used_e e) -> src_name x /\ kvar B CD x = Some KD.
Proof.
  intros B e H. unfold ok_dexpr in H. rewrite !andb_true_iff in H. destruct H as [[Hp Hl] Hu]. split; [exact Hp|]. split; [exact Hl|].
  intros x Hx. rewrite forallb_forall in Hu. specialize (Hu x Hx). apply andb_true_iff in Hu as [H1 H2].
  split; [exact (proj1 (src_nameb_ok x H1))|]. unfold is_KD in H2. destruct (kvar B CD x) as [[|? ?|]|]; try discriminate. reflexivity.
Qed.

(* a call-free expression over data variables: ExprSim.sim_pure *)
Lemma dexpr_run : forall b B e d fuel k a g env s,
  ok_dexpr B CD e = true -> bound2 B env -> d <= c0 + length code + 2 ->
  code_at code k (pcode d e) -> k + length (pcode d e) < length code ->
  a_ip a = k -> a_ops a = [] -> a_cb a = cb -> ClA b B env s g ->
  match eval fuel env e s with
  | EVal v s' => s' = s /\ first_order v /\
                 exists g', xrun prog name code a g (upd a (k + length (pcode d e)) [inj v]) g' /\ ClA b B env s g' /\
                            ExprSim.ext d k (k + length (pcode d e)) g g'
  | EFail f s' => s' = s /\ exists e0 g', xfail prog name code a g e0 g' /\ err_rel f e0 /\ out g' = rout s
  | EFuel => True
  | ENoVal _ => False
  end.
Proof.
  intros b B e d fuel k a g env s Hok Hb Hd Hc Hend Hip Hops Hacb HR.
  destruct (ok_dexpr_parts B e Hok) as (Hp & Hl & Hu).
  set (env0 := envp env).
  assert (Hvc : forall x, In x (used_e e) -> exists c v, lookup_scopes x (locals env ++ captured env) = Some c /\
                  lookup_scopes x (map strip_sc (locals env) ++ [capsc env]) = Some c /\ sget s c = Some v /\ first_order v).
  { intros x Hx. destruct (Hu x Hx) as [_ Hk]. destruct (var_cell b B env s g x KD HR Hb Hk) as (_ & c & c' & v & w & A1 & A2 & _ & _ & A3 & _ & A4).
    exists c, v. destruct A4 as [A4 _]. auto. }
  assert (Hv : forall x, In x (used_e e) -> var_ok env0 s x).
  { intros x Hx. destruct (Hvc x Hx) as (c & v & _ & E2 & E3 & Hfo). split; [exact (proj1 (Hu x Hx))|]. exists c, v. cbn [env0 envp locals captured]. auto. }
  assert (Hag : forall x, In x (used_e e) -> agree env0 s env s x).
  { intros x Hx. destruct (Hvc x Hx) as (c & v & E1 & E2 & E3 & _). exists c, c, v. cbn [env0 envp locals captured]. auto. }
  destruct (eval_pure_congr e Hp fuel env0 s env s Hag) as [Hst0 Ecg]. rewrite Ecg.
  assert (Hsm : small (d + length (pcode d e) + 3)) by (eapply small_le; [|exact Hsmall]; lia).
  assert (Hfr : frames g <> []) by exact (proj2 (Rfr2_ne _ _ _ _ (cl_fr _ _ _ _ _ _ _ _ _ _ _ _ _ HR))).
  pose proof (sim_pure name code e Hp d fuel k a g env0 s Hl Hv Hsm Hc Hend Hip Hops Hfr (Cl_Renv b B env s a g HR Hb Hacb)) as H.
  destruct (eval fuel env0 e s) as [v s1|s1|f s1|]; cbn [sim_post res_to] in H |- *; [|contradiction| |exact Logic.I].
  - destruct H as (-> & Hfo & g' & R). split; [reflexivity|]. split; [exact Hfo|]. exists g'. split.
    + eapply run_ok_xrun. exact R.
    + split; [eapply Cl_ext; [exact HR|exact (proj2 R)|]|exact (proj2 R)].
      eapply xreach_nd; [apply reaches_xreach_running; exact (proj1 R)|exact (cl_nd _ _ _ _ _ _ _ _ _ _ _ _ _ HR)].
  - destruct H as (-> & e0 & g' & R & Hr & He). split; [reflexivity|]. exists e0, g'. split; [|split].
    + now apply reaches_xfail.
    + exact Hr.
    + rewrite (ext_out _ _ _ _ _ He). exact (cl_out _ _ _ _ _ _ _ _ _ _ _ _ _ HR).
Qed.

(* ================================================================ progress of the activation *)
Definition mid (b0 : cinj) (d : nat) (s0 : rstate) (a0 : act) (g0 : gstate) (b : cinj) (s : rstate) (a : act) (g : gstate) : Prop :=
  xrun prog name code a0 g0 a g /\ bext b0 b s0 g0 /\ rest b0 d s0 s a0 g0 a g.

Lemma mid_refl : forall b d s a g, mid b d s a g b s a g.
Proof.
  unfold mid, rest. intros. split; [apply xrun_refl|]. split; [apply bext_refl|].
  split; [reflexivity|]. split; [apply act_same_refl|]. split; [reflexivity|]. split; [apply keep_refl|]. split; [apply fkeep_refl|apply lens_refl].
Qed.
Lemma mid_trans : forall b0 d s0 a0 g0 b1 s1 a1 g1 b2 s2 a2 g2,
  mid b0 d s0 a0 g0 b1 s1 a1 g1 -> mid b1 d s1 a1 g1 b2 s2 a2 g2 -> mid b0 d s0 a0 g0 b2 s2 a2 g2.
Proof.
  unfold mid, rest. intros b0 d s0 a0 g0 b1 s1 a1 g1 b2 s2 a2 g2 (R1 & E1 & T1 & A1 & S1 & K1 & F1 & L1) (R2 & E2 & T2 & A2 & S2 & K2 & F2 & L2).
  split; [eapply xrun_trans; eassumption|]. split; [eapply bext_trans; [exact E1|exact E2|exact (proj1 L1)|exact (proj2 L1)]|].
  split; [congruence|]. split; [eapply act_same_trans; eassumption|]. split; [congruence|].
  split; [eapply keep_trans; eassumption|]. split; [eapply fkeep_trans; eassumption|eapply lens_trans; eassumption].
Qed.
Lemma mid_mono : forall b0 d d' s0 a0 g0 b s a g, d <= d' -> mid b0 d' s0 a0 g0 b s a g -> mid b0 d s0 a0 g0 b s a g.
Proof.
  unfold mid, rest. intros b0 d d' s0 a0 g0 b s a g Hle (R & E & T & A & S & K & F & L). split; [exact R|]. split; [exact E|].
  split; [exact T|]. split; [exact A|]. split; [exact S|]. split; [exact K|]. split; [|exact L].
  intros y Hy. apply F. intros Ho. apply Hy. eapply own_reg_mono; eassumption.
Qed.
(* a machine step that keeps the frames and the cells *)
Lemma mid_same : forall b d s a g a' g', xrun prog name code a g a' g' -> frames g' = frames g -> cells g' = cells g ->
  act_same a a' -> a_ss a' = a_ss a -> mid b d s a g b s a' g'.
Proof.
  unfold mid, rest. intros b d s a g a' g' R Hf Hc Ha Hs. split; [exact R|]. split; [apply bext_refl|].
  split; [now rewrite Hf|]. split; [exact Ha|]. split; [exact Hs|].
  split; [apply (keep_cells_app _ _ _ []); now rewrite app_nil_r|]. split; [apply fkeep_same; exact Hf|].
  split; [lia|rewrite Hc; lia].
Qed.
Lemma mid_fail : forall b0 d s0 a0 g0 b s a g e g', mid b0 d s0 a0 g0 b s a g -> xfail prog name code a g e g' ->
  xfail prog name code a0 g0 e g'.
Proof. unfold mid. intros b0 d s0 a0 g0 b s a g e g' (R & _) Hf. eapply xrun_fail; eassumption. Qed.

(* the result of an expression, phrased with mid *)
Lemma eres_val : forall b B env s d fin a g k v s' a' g' b' w,
  mid b d s a g b' s' a' g' -> a_ip a' = fin -> a_ops a' = [w] -> ClA b' B env s' g' -> vrel b' k v w ->
  eres_ok b B env s d fin a g k (EVal v s').
Proof.
  unfold mid. intros b B env s d fin a g k v s' a' g' b' w (R & E & Hr) Hip Hops HC Hv. cbn [eres_ok]. exists a', g', b', w. auto 8.
Qed.
Lemma eres_val_inv : forall b B env s d fin a g k v s', eres_ok b B env s d fin a g k (EVal v s') ->
  exists a' g' b' w, mid b d s a g b' s' a' g' /\ a_ip a' = fin /\ a_ops a' = [w] /\ ClA b' B env s' g' /\ vrel b' k v w.
Proof.
  intros b B env s d fin a g k v s' H. cbn [eres_ok] in H. destruct H as (a' & g' & b' & w & R & Hip & Hops & E & HC & Hv & Hr).
  exists a', g', b', w. unfold mid. auto 8.
Qed.

(* register #d holds w, in a cell outside the relation *)
Definition rvk (b : cinj) (g : gstate) (d : nat) (w : value) : Prop :=
  exists cj, find_in_function (reg d) (frames g) = Some cj /\ cell_get g cj = Some w /\ forall c k, ~ b c cj k.

Lemma not_own_reg_lt : forall d r, r < d -> small r -> ~ own_reg d (reg r).
Proof. intros d r Hr Hs (k & K1 & K2 & K3). apply reg_inj in K3; [lia|exact Hs|exact K2]. Qed.

Lemma rvk_keep : forall b0 d s0 a0 g0 b s a g r w, mid b0 d s0 a0 g0 b s a g -> rvk b0 g0 r w -> r < d -> small r ->
  rvk b g r w.
Proof.
  unfold mid, rest. intros b0 d s0 a0 g0 b s a g r w (_ & [_ He] & _ & _ & _ & K & F & _) (cj & F1 & F2 & F3) Hr Hs.
  exists cj. split; [rewrite (proj1 (F _ (not_own_reg_lt d r Hr Hs))); exact F1|]. split; [exact (K _ _ F2 F3)|].
  intros c k Hb. destruct (He _ _ _ Hb) as [Hb0|[_ Hlen]]; [exact (F3 c k Hb0)|].
  assert (N.to_nat cj < length (cells g0)) by (apply nth_error_Some; unfold cell_get in F2; congruence). lia.
Qed.

(* store_fast #d : park the value on the stack in register d *)
Lemma park2 : forall b B env s a1 g1 k1 d w, nth_error code k1 = Some (mkI OP_STORE_FAST [reg d]) ->
  a_ip a1 = k1 -> a_ops a1 = [w] -> ClA b B env s g1 -> small d ->
  exists g2, mid b d s a1 g1 b s (upd a1 (S k1) []) g2 /\ ClA b B env s g2 /\ rvk b g2 d w.
Proof.
  intros b B env s a1 g1 k1 d w Hi Hip Hops HC Hsd. subst k1.
  set (i1 := mkI OP_STORE_FAST [reg d]) in *.
  destruct (Cl_bind_reg path prog P cb CD base name SF b B env s (trc name a1 g1 i1) (reg d) w (Cl_trc _ _ _ _ _ _ _ _ HC) (reg_not_uname0 d))
    as (f & fs & Ef & Hb). cbv zeta in Hb. destruct Hb as [Hb HC2].
  match type of HC2 with Cl _ _ _ _ _ _ _ _ _ _ _ _ ?G => set (g2 := G) in * end.
  assert (Hv : N.to_nat (N.of_nat (length (cells (trc name a1 g1 i1)))) < length (cells g1) -> False) by (rewrite Nnat.Nat2N.id; cbn [trc add_trace cells]; lia).
  exists g2. split; [|split; [exact HC2|]].
  - split.
    + eapply (xstep_next prog name code a1 g1 i1 _ (a_ip a1) (set_ops a1 [])); [reflexivity|exact Hi|apply dec_store_fast|].
      apply (exec_store_fast (reg d) a1 _ w g2); [exact Hops|exact Hb].
    + split; [apply bext_refl|]. split; [cbn [g2 frames tl]; change (frames g1) with (frames (trc name a1 g1 i1)); now rewrite Ef|].
      split; [repeat split|]. split; [reflexivity|]. split; [apply (keep_cells_app _ _ _ [w]); reflexivity|].
      split; [|split; [lia|cbn [g2 cells trc add_trace]; rewrite app_length; lia]].
      intros y Hy. cbn [g2 frames]. change (frames g1) with (frames (trc name a1 g1 i1)). rewrite Ef.
      cbn [find_in_function top_vars vars lab]. rewrite assoc_set_other; [split; reflexivity|].
      intros ->. apply Hy. exists d. split; [lia|]. split; [exact Hsd|reflexivity].
  - exists (N.of_nat (length (cells (trc name a1 g1 i1)))). split; [cbn [g2 frames find_in_function vars]; now rewrite assoc_set_same|].
    split; [unfold cell_get; cbn [g2 cells]; rewrite Nnat.Nat2N.id, nth_error_app2, Nat.sub_diag by lia; reflexivity|].
    intros c k Hb0. destruct (heap_valid path prog _ _ _ _ _ _ (cl_heap _ _ _ _ _ _ _ _ _ _ _ _ _ HC) Hb0) as [_ Hc']. exact (Hv Hc').
Qed.

(* load_fast #d : push the parked value *)
Lemma unpark2 : forall b d0 s a g kk d w, nth_error code kk = Some (mkI OP_LOAD_FAST [reg d]) -> a_ip a = kk -> rvk b g d w ->
  mid b d0 s a g b s (upd a (S kk) (a_ops a ++ [w])) (trc name a g (mkI OP_LOAD_FAST [reg d])).
Proof.
  intros b d0 s a g kk d w Hi Hip (cj & F1 & F2 & _). subst kk.
  apply mid_same; try reflexivity; [|repeat split].
  eapply (xstep_next prog name code a g _ _ (a_ip a) (set_ops a (a_ops a ++ [w]))); [reflexivity|exact Hi|apply dec_load_fast|].
  exact (exec_load_fast (reg d) a (trc name a g (mkI OP_LOAD_FAST [reg d])) cj w F1 F2).
Qed.

(* ================================================================ expressions *)
Definition espec (e : expr) : Prop :=
  forall b B d lr k0 fuel kp a g env s kd,
    fuel <= FU -> kexpr SF B CD e = Some kd -> bound2 B env ->
    installed (snd (ec path d lr k0 e)) ->
    d + length (fst (ec path d lr k0 e)) <= c0 + length code + 2 ->
    code_at code kp (fst (ec path d lr k0 e)) -> kp + length (fst (ec path d lr k0 e)) < length code ->
    a_ip a = kp -> a_cb a = cb -> a_ops a = [] -> ClA b B env s g ->
    eres_ok b B env s d (kp + length (fst (ec path d lr k0 e))) a g kd (eval fuel env e s).

(* call-free, over data variables *)
Lemma espec_data : forall e b B d lr k0 fuel kp a g env s,
  ok_dexpr B CD e = true -> bound2 B env -> d + length (fst (ec path d lr k0 e)) <= c0 + length code + 2 ->
  code_at code kp (fst (ec path d lr k0 e)) -> kp + length (fst (ec path d lr k0 e)) < length code ->
  a_ip a = kp -> a_cb a = cb -> a_ops a = [] -> ClA b B env s g ->
  eres_ok b B env s d (kp + length (fst (ec path d lr k0 e))) a g KD (eval fuel env e s).
Proof.
  intros e b B d lr k0 fuel kp a g env s Hok Hb Hd Hc Hend Hip Hcb Hops HC.
  rewrite (ec_pure path e (ok_dexpr_pure _ _ _ Hok)) in *. cbn [fst] in *.
  pose proof (dexpr_run b B e d fuel kp a g env s Hok Hb ltac:(lia) Hc Hend Hip Hops Hcb HC) as H.
  destruct (eval fuel env e s) as [v s1|s1|f s1|]; [|contradiction| |exact Logic.I].
  - destruct H as (-> & Hfo & g' & R & HC' & He).
    apply (eres_val b B env s d _ a g KD v s (upd a (kp + length (pcode d e)) [inj v]) g' b (inj v));
      [|reflexivity|reflexivity|exact HC'|split; [exact Hfo|reflexivity]].
    split; [exact R|]. split; [apply bext_refl|]. split; [exact (ext_tail _ _ _ _ _ He)|]. split; [repeat split|]. split; [reflexivity|].
    destruct (ext_cells _ _ _ _ _ He) as [extra Ec].
    split; [eapply keep_cells_app; exact Ec|]. split; [intros y Hy; split; [exact (ext_find _ _ _ _ _ He y Hy)|exact (ext_top _ _ _ _ _ He y Hy)]|]. split; [lia|rewrite Ec, app_length; lia].
  - destruct H as (-> & e0 & g' & Hf & Hr & Ho). cbn [eres_ok]. apply fail_post_intro. exists e0, g'.
    split; [exact Hf|]. split; [now apply err_rel_s_of|exact Ho].
Qed.

Lemma capture_ok : forall a g ns, (forall n, In n ns -> lookup_var a g n <> None) -> exists m, capture a g ns = Some m.
Proof.
  intros a g. induction ns as [|n ns IH]; intros H; [exists []; reflexivity|]. cbn [capture].
  destruct (lookup_var a g n) as [c|] eqn:E; [|exfalso; exact (H n (or_introl eq_refl) E)].
  destruct (IH (fun m Hm => H m (or_intror Hm))) as [m Em]. rewrite Em. eexists. reflexivity.
Qed.

Lemma capctx_spec : forall B ns G, capctx B CD ns = Some G -> map fst G = ns /\ forall x k, In (x, k) G -> kvar B CD x = Some k.
Proof.
  intros B. induction ns as [|n ns IH]; intros G H; cbn [capctx] in H.
  - inversion H. split; [reflexivity|intros x k []].
  - destruct (kvar B CD n) as [k1|] eqn:E1; [|discriminate]. destruct (capctx B CD ns) as [G1|]; [|discriminate].
    inversion H; subst G. destruct (IH G1 eq_refl) as [A1 A2]. split; [cbn [map fst]; now rewrite A1|].
    intros x k [Hin|Hin]; [inversion Hin; subst; exact E1|exact (A2 x k Hin)].
Qed.

Lemma nodupb_sound2 : forall l, nodupb l = true -> NoDup l.
Proof.
  induction l as [|x t IH]; intros H; [constructor|]. cbn in H. apply andb_true_iff in H as [Hx Ht].
  constructor; [|now apply IH]. intros Hin. apply In_mem_str in Hin. rewrite Hin in Hx. discriminate.
Qed.

Lemma kfn_sound : forall B ps body G pk r, kfn B CD ps body = Some (G, pk, r) ->
  kfn_ok G ps body pk r /\ forall x k, In (x, k) G -> kvar B CD x = Some k.
Proof.
  intros B ps body G pk r H. unfold kfn in H.
  destruct (capctx B CD (free_vars ps body)) as [G0|] eqn:EG; [|discriminate].
  set (pk0 := map (pkind body) ps) in *. set (B0 := rev (combine ps pk0)) in *.
  destruct (kblock (Some (pk0, KD)) false B0 G0 body) as [[B1 rets0]|] eqn:Eb0; [|discriminate].
  set (r0 := rkind body rets0) in *.
  assert (Hx : exists B' rets, kblock (Some (pk0, r0)) false B0 G0 body = Some (B', rets) /\
                 (if nodupb ps && forallb src_nameb ps && forallb (ret_ok r0) rets then Some (G0, pk0, r0) else None) = Some (G, pk, r)).
  { destruct (kind_eqb r0 KD) eqn:Er.
    - apply kind_eqb_eq in Er. rewrite Er in *. exists B1, rets0. split; [exact Eb0|exact H].
    - destruct (kblock (Some (pk0, r0)) false B0 G0 body) as [[B2 rets]|] eqn:Eb; [|discriminate]. exists B2, rets. split; [reflexivity|exact H]. }
  destruct Hx as (B' & rets & Eb & Hc).
  destruct (nodupb ps && forallb src_nameb ps && forallb (ret_ok r0) rets) eqn:Ec; [|discriminate].
  inversion Hc; subst G0 pk r. rewrite !andb_true_iff in Ec. destruct Ec as [[Hn Hs] Hr].
  destruct (capctx_spec B _ _ EG) as [A1 A2]. split; [|exact A2].
  split; [reflexivity|]. split; [now apply nodupb_sound2|]. split; [exact Hs|]. split; [exact A1|].
  split; [unfold r0, rkind; destruct (last_ret body); [now right|now left]|].
  exists B', rets. split; [exact Eb|]. intros k Hk. rewrite forallb_forall in Hr. specialize (Hr k Hk). unfold ret_ok in Hr.
  apply orb_true_iff in Hr as [Hr|Hr]; [left; symmetry; now apply kind_eqb_eq|right].
  apply andb_true_iff in Hr as [H1 H2]. apply kind_eqb_eq in H1. apply kind_eqb_eq in H2. auto.
Qed.

(* ---------------------------------------------------------------- a variable of any kind: load *)
Lemma espec_var : forall x b B d fuel kp a g env s k,
  kvar B CD x = Some k -> bound2 B env -> code_at code kp [mkI OP_LOAD [x]] -> kp + 1 < length code ->
  a_ip a = kp -> a_cb a = cb -> a_ops a = [] -> ClA b B env s g ->
  eres_ok b B env s d (kp + 1) a g k (eval fuel env (EVar x) s).
Proof.
  intros x b B d fuel kp a g env s k Hk Hb Hc Hend Hip Hcb Hops HC. subst kp.
  destruct fuel as [|fuel]; [exact Logic.I|]. rewrite eval_EVar.
  destruct (var_cell b B env s g x k HC Hb Hk) as (Hx & c & c' & v & w & E1 & _ & E3 & Hbc & E4 & E5 & Hv).
  rewrite E1, E4. apply code_at_cons in Hc as [Hi _].
  set (i1 := mkI OP_LOAD [x]) in *.
  apply (eres_val b B env s d _ a g k v s (upd a (S (a_ip a)) [w]) (trc name a g i1) b w);
    [|cbn [upd set_ip a_ip]; lia|reflexivity|apply Cl_trc; exact HC|exact Hv].
  apply mid_same; try reflexivity; [|repeat split].
  eapply (xstep_next prog name code a g i1 _ (a_ip a) (set_ops a [w])); [reflexivity|exact Hi|apply dec_load|].
  pose proof (exec_load x a (trc name a g i1) c' w (E3 a Hcb) E5) as Hx1. rewrite Hops in Hx1. exact Hx1.
Qed.

(* ---------------------------------------------------------------- a function literal: make_function *)
Lemma exec_make_function : forall loc ns a g m, capture a g ns = Some m ->
  exec_d (DMakeFunction loc ns) a g = SNext (set_ops a (a_ops a ++ [VFun loc (match ns with [] => None | _ => Some m end)])) g.
Proof. intros loc ns a g m H. unfold exec_d. destruct ns as [|n ns]; [reflexivity|]. now rewrite H. Qed.

Lemma espec_fn : forall ps body b B d lr k0 fuel kp a g env s kd,
  kexpr SF B CD (EFn ps body) = Some kd -> bound2 B env ->
  installed (snd (ec path d lr k0 (EFn ps body))) ->
  code_at code kp (fst (ec path d lr k0 (EFn ps body))) -> kp + length (fst (ec path d lr k0 (EFn ps body))) < length code ->
  a_ip a = kp -> a_cb a = cb -> a_ops a = [] -> ClA b B env s g ->
  eres_ok b B env s d (kp + length (fst (ec path d lr k0 (EFn ps body)))) a g kd (eval fuel env (EFn ps body) s).
Proof.
  intros ps body b B d lr k0 fuel kp a g env s kd Hk Hb Hinst Hc Hend Hip Hcb Hops HC. subst kp.
  destruct fuel as [|fuel]; [exact Logic.I|].
  change (eval (S fuel) env (EFn ps body) s) with (EVal (RClos ps body (locals env ++ captured env)) s).
  rewrite kexpr_eq in Hk. destruct (ok_dexpr B CD (EFn ps body)) eqn:Ho; [apply ok_dexpr_pure in Ho; discriminate|].
  destruct (kfn B CD ps body) as [[[G pk] r]|] eqn:Ef; [|discriminate]. inversion Hk; subst kd.
  destruct (kfn_sound B ps body G pk r Ef) as [Hkf HG].
  pose proof Hinst as Hinst0.
  rewrite ec_EFn in Hc, Hend, Hinst |- *. cbv zeta in *. cbn [fst snd length] in *.
  set (fb := snd (bc path (S d) lr None k0 body)) in *. set (loc := fn_name path (k0 + length fb)) in *.
  apply code_at_cons in Hc as [Hi _].
  set (caps := free_vars ps body) in *.
  set (i1 := mkI OP_MAKE_FUNCTION (loc :: caps)) in *.
  set (g1 := trc name a g i1).
  assert (Hcaps : forall n, In n caps -> exists kx c c', In (n, kx) G /\ lookup_scopes n (locals env ++ captured env) = Some c /\
                    lookup_var a g1 n = Some c' /\ b c c' kx /\ uname0 n).
  { intros n Hn. destruct Hkf as (_ & _ & _ & EG & _). fold caps in EG. rewrite <- EG in Hn.
    apply in_map_iff in Hn as ([n' kx] & En & Hin). cbn [fst] in En. subst n'.
    destruct (var_cell b B env s g1 n kx (Cl_trc _ _ _ _ _ _ _ _ HC) Hb (HG n kx Hin)) as (Hun & c & c' & v & w & E1 & _ & E3 & Hbc & _).
    exists kx, c, c'. split; [exact Hin|]. split; [exact E1|]. split; [exact (E3 a Hcb)|]. split; [exact Hbc|exact Hun]. }
  destruct (capture_ok a g1 caps) as [m Em].
  { intros n Hn. destruct (Hcaps n Hn) as (kx & c & c' & _ & _ & E & _). congruence. }
  set (cbv := match caps with [] => None | _ => Some m end).
  apply (eres_val b B env s d _ a g (KF pk r) _ s (upd a (S (a_ip a)) [VFun loc cbv]) g1 b (VFun loc cbv));
    [|cbn [upd set_ip a_ip]; lia|reflexivity|apply Cl_trc; exact HC|].
  - apply mid_same; try reflexivity; [|repeat split].
    eapply (xstep_next prog name code a g i1 _ (a_ip a) (set_ops a [VFun loc cbv])); [reflexivity|exact Hi|apply dec_make_function|].
    fold g1. rewrite (exec_make_function loc caps a g1 m Em), Hops. reflexivity.
  - cbn [ClosRel.vrel]. exists ps, body, (locals env ++ captured env), loc, cbv. split; [reflexivity|]. split; [reflexivity|].
    exists G, d, lr, k0. split; [exact Hkf|]. split; [reflexivity|]. split; [exact Hinst0|].
    intros x kx Hin. assert (Hxc : In x caps).
    { destruct Hkf as (_ & _ & _ & EG & _). fold caps in EG. rewrite <- EG. apply in_map_iff. exists (x, kx). auto. }
    destruct (Hcaps x Hxc) as (kx' & c & c' & Hin' & E1 & E2 & Hbc & Hun).
    assert (kx' = kx).
    { pose proof (HG x kx Hin) as H1. pose proof (HG x kx' Hin') as H2. congruence. }
    subst kx'. split; [exact Hun|]. exists c, c'. split; [exact E1|]. split; [|exact Hbc].
    unfold cbv, cbget. destruct caps as [|n0 ns0] eqn:Ec; [destruct Hxc|]. rewrite <- Ec in *.
    rewrite (ClosureLemmas.capture_shares a g1 caps m Em x Hxc). exact E2.
Qed.

(* ---------------------------------------------------------------- the arguments of a call *)
Definition ares_ok (b : cinj) (B : kctx) (env : fenv) (s : rstate) (j fin : nat) (a : act) (g : gstate) (ks : list kind)
           (acc : list rvalue) (r : (list rvalue * rstate) + eres) : Prop :=
  match r with
  | inl (vs, s') => exists vs' ws a' g' b', vs = rev acc ++ vs' /\ mid b j s a g b' s' a' g' /\ a_ip a' = fin /\ a_ops a' = [] /\
        ClA b' B env s' g' /\ vrels b' ks vs' ws /\ (forall i w, nth_error ws i = Some w -> rvk b' g' (j + i) w)
  | inr (EFail f s') => fail_post f (exists e0 g', xfail prog name code a g e0 g' /\ err_rel_s f e0 /\ out g' = rout s')
  | inr EFuel => True
  | inr _ => False
  end.

Lemma eargs_cons : forall lr j k a l, eargs path lr j k (a :: l) =
  let '(ca, fa) := ec path j lr k a in
  let '(ci, cl, fl) := eargs path lr (S j) (k + length fa) l in
  (ca ++ [mkI OP_STORE_FAST [reg j]] ++ ci, mkI OP_LOAD_FAST [reg j] :: cl, fa ++ fl).
Proof. reflexivity. Qed.
Lemma eargs_loads : forall lr l j k, snd (fst (eargs path lr j k l)) = argloads j l.
Proof.
  intros lr. induction l as [|a l IH]; intros j k; [reflexivity|]. rewrite eargs_cons.
  destruct (ec path j lr k a) as [ca fa]. specialize (IH (S j) (k + length fa)).
  destruct (eargs path lr (S j) (k + length fa) l) as [[ci cl] fl]. cbn [fst snd] in *. cbn [argloads]. now rewrite IH.
Qed.

Lemma args_sim : forall l, Forall espec l -> forall b B j lr k0 fuel kp a g env s ks acc,
  fuel <= FU -> kargs SF B CD l = Some ks -> bound2 B env -> installed (snd (eargs path lr j k0 l)) ->
  j + length (fst (fst (eargs path lr j k0 l))) <= c0 + length code + 2 ->
  code_at code kp (fst (fst (eargs path lr j k0 l))) -> kp + length (fst (fst (eargs path lr j k0 l))) < length code ->
  a_ip a = kp -> a_cb a = cb -> a_ops a = [] -> ClA b B env s g ->
  ares_ok b B env s j (kp + length (fst (fst (eargs path lr j k0 l)))) a g ks acc (evals_ fuel env l s acc).
Proof.
  induction l as [|e l IH]; intros HF b B j lr k0 fuel kp a g env s ks acc Hfu Hk Hb Hinst Hj Hc Hend Hip Hcb Hops HC.
  - cbn [kargs] in Hk. inversion Hk; subst ks. cbn [evals_ eargs fst snd length ares_ok]. exists [], [], a, g, b.
    rewrite app_nil_r, Nat.add_0_r. split; [reflexivity|]. split; [apply mid_refl|]. split; [exact Hip|]. split; [exact Hops|].
    split; [exact HC|]. split; [exact Logic.I|]. intros i w Hi. destruct i; discriminate.
  - pose proof (Forall_inv HF) as He0. pose proof (Forall_inv_tail HF) as Hl0.
    cbn [kargs] in Hk. destruct (kexpr SF B CD e) as [kd|] eqn:Ee; [|discriminate].
    destruct (kargs SF B CD l) as [ks'|] eqn:El; [|discriminate]. inversion Hk; subst ks.
    rewrite eargs_cons in *. destruct (ec path j lr k0 e) as [ca fa] eqn:Eec.
    destruct (eargs path lr (S j) (k0 + length fa) l) as [[ci cl] fl] eqn:Eea. cbn [fst snd] in *.
    rewrite !app_length in *. cbn [length] in *.
    apply (installed_app prog) in Hinst as [Hi1 Hi2].
    apply code_at_app in Hc as [Hce Hc]. apply code_at_cons in Hc as [Hi Hcl].
    assert (Hsj : small j) by (eapply small_le; [|exact Hsmall]; lia).
    pose proof (He0 b B j lr k0 fuel kp a g env s kd Hfu Ee Hb) as He. rewrite Eec in He. cbn [fst snd] in He.
    specialize (He Hi1 ltac:(lia) Hce ltac:(lia) Hip Hcb Hops HC).
    cbn [evals_].
    destruct (eval fuel env e s) as [v s1|s1|f s1|]; cbn [ares_ok]; [|exact Logic.I|exact He|exact Logic.I].
    apply eres_val_inv in He. destruct He as (a1 & g1 & b1 & w & M1 & Hip1 & Hops1 & HC1 & Hv1).
    destruct (park2 b1 B env s1 a1 g1 (kp + length ca) j w Hi Hip1 Hops1 HC1 Hsj) as (g2 & M2 & HC2 & Hrv2).
    set (a2 := upd a1 (S (kp + length ca)) []) in *.
    assert (Hcb2 : a_cb a2 = cb).
    { unfold mid, rest in M1. destruct M1 as (_ & _ & _ & (_ & _ & A3) & _). cbn [a2 upd set_ip set_ops a_cb]. congruence. }
    pose proof (IH Hl0 b1 B (S j) lr (k0 + length fa) fuel (S (kp + length ca)) a2 g2 env s1 ks' (v :: acc) Hfu El Hb) as H2.
    rewrite Eea in H2. cbn [fst snd] in H2.
    specialize (H2 Hi2 ltac:(lia) Hcl ltac:(lia) eq_refl Hcb2 eq_refl HC2).
    destruct (evals_ fuel env l s1 (v :: acc)) as [[vs s2]|r]; cbn [ares_ok] in H2 |- *.
    + destruct H2 as (vs' & ws & a3 & g3 & b2 & -> & M3 & Hip3 & Hops3 & HC3 & Hvs & Hreg).
      exists (v :: vs'), (w :: ws), a3, g3, b2. split; [cbn [rev]; now rewrite <- app_assoc|].
      split; [eapply mid_trans; [exact M1|]; eapply mid_trans; [exact M2|]; eapply mid_mono; [|exact M3]; lia|].
      split; [rewrite Hip3; lia|]. split; [exact Hops3|]. split; [exact HC3|]. split.
      * cbn [vrels]. split; [|exact Hvs]. eapply vrel_mono; [|exact Hv1]. exact (proj1 (proj1 (proj2 M3))).
      * intros i w0 Hi0. destruct i as [|i]; cbn [nth_error] in Hi0.
        -- inversion Hi0; subst w0. rewrite Nat.add_0_r. eapply rvk_keep; [exact M3|exact Hrv2|lia|exact Hsj].
        -- replace (j + S i) with (S j + i) by lia. now apply Hreg.
    + destruct r as [? ?|?|f s2|]; try exact H2.
      eapply fail_post_map; [|exact H2]. intros (e0 & g' & Hf & Hr). exists e0, g'.
      split; [eapply mid_fail; [exact M1|]; eapply mid_fail; [exact M2|exact Hf]|exact Hr].
Qed.

(* reload the arguments in order *)
Lemma loads_sim : forall (l : list expr) ws j pos b d0 s a g,
  length l = length ws -> (forall i w, nth_error ws i = Some w -> rvk b g (j + i) w) ->
  code_at code pos (argloads j l) -> a_ip a = pos ->
  exists g', mid b d0 s a g b s (upd a (pos + length l) (a_ops a ++ ws)) g' /\ frames g' = frames g /\ cells g' = cells g /\
             out g' = out g.
Proof.
  induction l as [|e l IH]; intros ws j pos b d0 s a g Hlen Hrv Hc Hip; subst pos.
  - destruct ws; [|discriminate]. exists g. rewrite Nat.add_0_r, app_nil_r, act_eta. split; [apply mid_refl|auto].
  - destruct ws as [|w ws]; [discriminate|]. cbn [length] in Hlen. cbn [argloads] in Hc. apply code_at_cons in Hc as [Hi Hc].
    pose proof (Hrv 0 w eq_refl) as Hr0. rewrite Nat.add_0_r in Hr0.
    pose proof (unpark2 b d0 s a g (a_ip a) j w Hi eq_refl Hr0) as M1.
    set (a1 := upd a (S (a_ip a)) (a_ops a ++ [w])) in *. set (g1 := trc name a g (mkI OP_LOAD_FAST [reg j])) in *.
    destruct (IH ws (S j) (S (a_ip a)) b d0 s a1 g1 ltac:(lia)) as (g2 & M2 & Hf2 & Hc2 & Ho2).
    + intros i w0 Hi0. replace (S j + i) with (j + S i) by lia. destruct (Hrv (S i) w0 Hi0) as (cj & F1 & F2 & F3).
      exists cj. auto.
    + exact Hc.
    + reflexivity.
    + exists g2. cbn [length]. replace (a_ip a + S (length l)) with (S (a_ip a) + length l) by lia.
      replace (a_ops a ++ w :: ws) with (a_ops a1 ++ ws) by (cbn [a1 upd set_ops set_ip a_ops]; now rewrite <- app_assoc).
      split; [eapply mid_trans; [exact M1|exact M2]|]. auto.
Qed.

(* ---------------------------------------------------------------- a binary operator whose operands contain calls *)
Lemma espec_bin : forall o ea eb, espec ea -> espec eb -> espec (EBin o ea eb).
Proof.
  intros o ea eb IHa IHb b B d lr k0 fuel kp a g env s kd Hfu Hk Hb Hinst Hd Hc Hend Hip Hcb Hops HC.
  rewrite kexpr_eq in Hk. destruct (ok_dexpr B CD (EBin o ea eb)) eqn:Ho.
  { inversion Hk; subst kd. exact (espec_data _ b B d lr k0 fuel kp a g env s Ho Hb Hd Hc Hend Hip Hcb Hops HC). }
  destruct (kexpr SF B CD ea) as [[|? ?|]|] eqn:Ea; try discriminate.
  destruct (kexpr SF B CD eb) as [[|? ?|]|] eqn:Eb; try discriminate. inversion Hk; subst kd.
  destruct fuel as [|fuel]; [exact Logic.I|]. rewrite eval_EBin.
  rewrite ec_EBin in *. destruct (ec path (S d) lr k0 ea) as [ca fa] eqn:Eca.
  destruct (ec path (S d) lr (k0 + length fa) eb) as [cb2 fb] eqn:Ecb. cbn [fst snd] in *.
  rewrite !app_length in *. cbn [length] in *.
  apply (installed_app prog) in Hinst as [Hin1 Hin2].
  apply code_at_app in Hc as [Hca Hc]. apply code_at_cons in Hc as [Hi1 Hc].
  apply code_at_app in Hc as [Hcb2 Hc]. apply code_at_cons in Hc as [Hi2 Hc]. apply code_at_cons in Hc as [Hi3 Hc].
  apply code_at_cons in Hc as [Hi4 _].
  set (la := length ca) in *. set (lb := length cb2) in *.
  assert (Hsd : small d) by (eapply small_le; [|exact Hsmall]; lia).
  pose proof (IHa b B (S d) lr k0 fuel kp a g env s KD ltac:(lia) Ea Hb) as He. rewrite Eca in He. cbn [fst snd] in He.
  specialize (He Hin1 ltac:(fold la; lia) Hca ltac:(fold la; lia) Hip Hcb Hops HC). fold la in He.
  destruct (eval fuel env ea s) as [va s1|s1|f s1|]; cbn [eres_ok]; [|exact Logic.I|exact He|exact Logic.I].
  apply eres_val_inv in He. destruct He as (a1 & g1 & b1 & wa & M1 & Hip1 & Hops1 & HC1 & [Hfoa ->]).
  destruct (park2 b1 B env s1 a1 g1 (kp + la) d (inj va) Hi1 Hip1 Hops1 HC1 Hsd) as (g2 & M2 & HC2 & Hrv2).
  set (a2 := upd a1 (S (kp + la)) []) in *.
  assert (Hcb2' : a_cb a2 = cb).
  { unfold mid, rest in M1. destruct M1 as (_ & _ & _ & (_ & _ & A3) & _). cbn [a2 upd set_ip set_ops a_cb]. congruence. }
  pose proof (IHb b1 B (S d) lr (k0 + length fa) fuel (S (kp + la)) a2 g2 env s1 KD ltac:(lia) Eb Hb) as Hbr.
  rewrite Ecb in Hbr. cbn [fst snd] in Hbr.
  specialize (Hbr Hin2 ltac:(fold lb; lia) ltac:(atp Hcb2) ltac:(fold lb; lia) eq_refl Hcb2' eq_refl HC2). fold lb in Hbr.
  destruct (eval fuel env eb s1) as [vb s2|s2|f s2|]; cbn [eres_ok] in Hbr |- *; [|exact Logic.I| |exact Logic.I].
  2:{ eapply fail_post_map; [|exact Hbr]. intros (e0 & g' & Hf & Hr). exists e0, g'.
      split; [eapply mid_fail; [exact M1|]; eapply mid_fail; [exact M2|exact Hf]|exact Hr]. }
  apply eres_val_inv in Hbr. destruct Hbr as (a3 & g3 & b2 & wb & M3 & Hip3 & Hops3 & HC3 & [Hfob ->]).
  assert (Hrv3 : rvk b2 g3 d (inj va)) by (eapply rvk_keep; [exact M3|exact Hrv2|lia|exact Hsd]).
  pose proof (unpark2 b2 d s2 a3 g3 (S (kp + la) + lb) d (inj va) ltac:(atp Hi2) Hip3 Hrv3) as M4.
  rewrite Hops3 in M4. cbn [app] in M4.
  set (a4 := upd a3 (S (S (kp + la) + lb)) [inj vb; inj va]) in *.
  set (g4 := trc name a3 g3 (mkI OP_LOAD_FAST [reg d])) in *.
  set (a5 := upd a4 (S (S (S (kp + la) + lb))) [inj va; inj vb]).
  set (g5 := trc name a4 g4 (mkI OP_FAST_REV2 [])).
  assert (M5 : mid b2 d s2 a4 g4 b2 s2 a5 g5).
  { apply mid_same; try reflexivity; [|repeat split].
    eapply (xstep_next prog name code a4 g4 _ _ (a_ip a4) (set_ops a4 [inj va; inj vb])); [reflexivity| |apply dec_rev2|].
    - cbn [a4 upd set_ip a_ip]. atp Hi3.
    - exact (exec_rev2 a4 g5 (inj vb) (inj va) eq_refl). }
  assert (M05 : mid b d s a g b2 s2 a5 g5).
  { eapply mid_trans; [eapply mid_mono; [|exact M1]; lia|]. eapply mid_trans; [exact M2|].
    eapply mid_trans; [eapply mid_mono; [|exact M3]; lia|]. eapply mid_trans; [exact M4|exact M5]. }
  pose proof (binop_run prog name code o va vb s2 a5 g5 (a_ip a5)
                ltac:(cbn [a5 a4 upd set_ip a_ip]; atp Hi4)
                eq_refl eq_refl) as Hop.
  destruct (binop_sem o va vb s2) as [v s3|s3|f s3|]; cbn [eres_ok]; [|contradiction| |contradiction].
  - destruct Hop as (-> & Hfov & Rop).
    apply (eres_val b B env s d _ a g KD v s2 (upd a5 (S (a_ip a5)) [inj v]) (trc name a5 g5 (op_instr o)) b2 (inj v));
      [|cbn [a5 a4 upd set_ip a_ip]; lia|reflexivity|do 3 apply Cl_trc; exact HC3|split; [exact Hfov|reflexivity]].
    eapply mid_trans; [exact M05|]. apply mid_same; try reflexivity; [exact Rop|repeat split].
  - destruct Hop as (-> & e0 & Hf & Hrel). apply fail_post_intro. exists e0, (trc name a5 g5 (op_instr o)).
    split; [eapply mid_fail; [exact M05|exact Hf]|]. split; [now apply err_rel_s_of|exact (cl_out _ _ _ _ _ _ _ _ _ _ _ _ _ HC3)].
Qed.

(* ---------------------------------------------------------------- a call through a variable *)
Lemma espec_call : forall g0 l, Forall espec l -> espec (ECall (EVar g0) l).
Proof.
  intros g0 l IHl b B d lr k0 fuel kp a g env s kd Hfu Hk Hb Hinst Hd Hc Hend Hip Hcb Hops HC.
  rewrite kexpr_eq in Hk. destruct (ok_dexpr B CD (ECall (EVar g0) l)) eqn:Ho; [apply ok_dexpr_pure in Ho; discriminate|].
  destruct (src_nameb g0) eqn:Hsn; [|discriminate].
  destruct (kvar B CD g0) as [[|pk r|]|] eqn:Eg; try discriminate.
  destruct (kargs SF B CD l) as [ks|] eqn:El; [|discriminate].
  destruct (kinds_eqb ks pk) eqn:Eks; [|discriminate]. apply kinds_eqb_eq in Eks. subst ks. inversion Hk; subst kd.
  destruct fuel as [|fuel]; [exact Logic.I|]. rewrite eval_ECall.
  rewrite ec_ECall in *. destruct (eargs path lr (S (S d)) k0 l) as [[ci cl] fl] eqn:Eea. cbn [fst snd] in *.
  pose proof (eargs_loads lr l (S (S d)) k0) as Ecl. rewrite Eea in Ecl. cbn [fst snd] in Ecl. subst cl.
  rewrite !app_length in *. cbn [length] in *.
  set (la := length ci) in *. set (na := length (argloads (S (S d)) l)) in *.
  assert (Hna : na = length l) by (unfold na; clear; generalize (S (S d)); induction l; intros n; cbn [argloads length]; [reflexivity|now rewrite IHl]).
  apply code_at_cons in Hc as [Hi1 Hc]. apply code_at_cons in Hc as [Hi2 Hc].
  apply code_at_app in Hc as [Hca Hc]. apply code_at_app in Hc as [Hcl Hc]. fold la in Hcl, Hc.
  apply code_at_cons in Hc as [Hi3 Hc]. apply code_at_cons in Hc as [Hi4 _]. fold na in Hi3, Hi4.
  assert (Hsd1 : small (S d)) by (eapply small_le; [|exact Hsmall]; lia).
  (* the callee value *)
  pose proof (espec_var g0 b B (S d) fuel kp a g env s (KF pk r) Eg Hb
                ltac:(intros j0 i0 Hj; destruct j0 as [|[|]]; cbn in Hj; try discriminate; inversion Hj; subst i0; rewrite Nat.add_0_r; exact Hi1)
                ltac:(lia) Hip Hcb Hops HC) as Hf.
  destruct (eval fuel env (EVar g0) s) as [vf s1|s1|f s1|]; cbn [eres_ok]; [|exact Logic.I|exact Hf|exact Logic.I].
  apply eres_val_inv in Hf. destruct Hf as (a1 & g1 & b1 & wf & M1 & Hip1 & Hops1 & HC1 & Hvf).
  destruct Hvf as (ps & body & cenv & loc & cbf & -> & -> & Hclos).
  destruct (park2 b1 B env s1 a1 g1 (kp + 1) (S d) (VFun loc cbf) ltac:(atp Hi2) Hip1 Hops1 HC1 Hsd1)
    as (g2 & M2 & HC2 & Hrf2).
  set (a2 := upd a1 (S (kp + 1)) []) in *.
  assert (Hcb2 : a_cb a2 = cb).
  { unfold mid, rest in M1. destruct M1 as (_ & _ & _ & (_ & _ & A3) & _). cbn [a2 upd set_ip set_ops a_cb]. congruence. }
  (* the arguments *)
  pose proof (args_sim l IHl b1 B (S (S d)) lr k0 fuel (S (kp + 1)) a2 g2 env s1 pk [] ltac:(lia) El Hb) as Hargs.
  rewrite Eea in Hargs. cbn [fst snd] in Hargs. fold la in Hargs.
  specialize (Hargs Hinst ltac:(lia) ltac:(atp Hca) ltac:(lia) eq_refl Hcb2 eq_refl HC2).
  destruct (evals_ fuel env l s1 []) as [[vs s2]|r0]; cbn [ares_ok] in Hargs.
  2:{ destruct r0 as [? ?|?|fl0 s2|]; try contradiction; cbn [eres_ok]; [|exact Logic.I].
      eapply fail_post_map; [|exact Hargs]. intros (e0 & g' & Hf & Hr). exists e0, g'.
      split; [eapply mid_fail; [exact M1|]; eapply mid_fail; [exact M2|exact Hf]|exact Hr]. }
  destruct Hargs as (vs' & ws & a3 & g3 & b2 & Evs & M3 & Hip3 & Hops3 & HC3 & Hvs & Hreg).
  cbn [rev app] in Evs. subst vs'.
  destruct (vrels_length _ _ _ _ Hvs) as [Hlv Hlw].
  assert (Hlk : length l = length pk).
  { clear -El. revert pk El. induction l as [|e l IH]; intros pk El; cbn [kargs] in El; [inversion El; reflexivity|].
    destruct (kexpr SF B CD e); [|discriminate]. destruct (kargs SF B CD l) as [ks|]; [|discriminate]. inversion El. cbn [length]. now rewrite (IH ks). }
  (* reload the arguments, then the callee *)
  destruct (loads_sim l ws (S (S d)) (S (kp + 1) + la) b2 (S (S d)) s2 a3 g3 ltac:(congruence) Hreg
              ltac:(atp Hcl) Hip3) as (g4 & M4 & Hf4 & Hc4 & Ho4).
  rewrite Hops3 in M4. cbn [app] in M4.
  set (a4 := upd a3 (S (kp + 1) + la + length l) ws) in *.
  assert (Hrf4 : rvk b2 g4 (S d) (VFun loc cbf)).
  { eapply rvk_keep; [exact M4|eapply rvk_keep; [exact M3|exact Hrf2|lia|exact Hsd1]|lia|exact Hsd1]. }
  pose proof (unpark2 b2 d s2 a4 g4 (S (kp + 1) + la + length l) (S d) (VFun loc cbf)
                ltac:(atp Hi3) eq_refl Hrf4) as M5.
  cbn [a4 upd set_ops a_ops] in M5. fold a4 in M5.
  set (i3 := mkI OP_LOAD_FAST [reg (S d)]) in *.
  set (g5 := trc name a4 g4 i3) in *.
  set (a5 := upd a4 (S (S (kp + 1) + la + length l)) (ws ++ [VFun loc cbf])) in *.
  assert (M05 : mid b d s a g b2 s2 a5 g5).
  { eapply mid_trans; [eapply mid_mono; [|exact M1]; lia|]. eapply mid_trans; [eapply mid_mono; [|exact M2]; lia|].
    eapply mid_trans; [eapply mid_mono; [|exact M3]; lia|]. eapply mid_trans; [eapply mid_mono; [|exact M4]; lia|exact M5]. }
  assert (HC5 : ClA b2 B env s2 g5).
  { apply Cl_trc. eapply Cl_same; [exact HC3|exact Hc4|exact Hf4|exact Ho4]. }
  set (i4 := mkI OP_CALL []) in *.
  set (g5t := trc name a5 g5 i4).
  assert (HC5t : ClA b2 B env s2 g5t) by (apply Cl_trc; exact HC5).
  assert (Hi4' : nth_error code (a_ip a5) = Some i4).
  { cbn [a5 upd set_ip a_ip]. atp Hi4. }
  pose proof (exec_call a5 g5t ws loc cbf eq_refl) as Hx.
  assert (Hfin : S (a_ip a5) = kp + S (S (la + (na + 2)))) by (cbn [a5 upd set_ip a_ip]; lia).
  assert (Hle12 : cinj_le b1 b2) by (unfold mid in M3; exact (proj1 (proj1 (proj2 M3)))).
  (* the callee *)
  pose proof (Hcall fuel ltac:(lia) b2 s2 g5t pk r ps body cenv loc cbf vs ws
                (cl_heap _ _ _ _ _ _ _ _ _ _ _ _ _ HC5t) (cl_out _ _ _ _ _ _ _ _ _ _ _ _ _ HC5t) (cl_nd _ _ _ _ _ _ _ _ _ _ _ _ _ HC5t)
                (clos_ok_mono path prog _ _ _ _ _ _ _ _ _ Hle12 Hclos) Hvs) as Hcal.
  assert (Hact5 : act_same a5 (set_ops a5 []) /\ a_ss (set_ops a5 []) = a_ss a5) by (repeat split).
  destruct (call_clos_ fuel (RClos ps body cenv) vs s2) as [v s3|s3|flr s3|]; cbn [eres_ok]; [| | |exact Logic.I].
  - destruct Hcal as (fuel' & g6 & b3 & w & Hrun & He3 & Hh3 & Hv3 & Hf6 & Ho6 & Hk6 & Hl6).
    apply (eres_val b B env s d _ a g r v s3 (next_act (set_ops a5 []) (Some w)) g6 b3 w);
      [|unfold next_act; cbn [set_ip a_ip set_ops]; exact Hfin|reflexivity|
       eapply Cl_after; [exact HC5t|exact (proj1 He3)|exact Hh3|exact Hf6|exact Ho6]|exact Hv3].
    eapply mid_trans; [exact M05|]. unfold mid, rest.
    split; [eapply xr_call; [exact Hi4'|apply dec_call|exact Hx|exact Hrun|apply xr_refl]|].
    split; [exact He3|]. split; [now rewrite Hf6|]. split; [repeat split|]. split; [reflexivity|].
    split; [exact Hk6|]. split; [apply fkeep_same; exact Hf6|exact Hl6].
  - destruct Hcal as (Hrn & fuel' & g6 & b3 & Hrun & He3 & Hh3 & Hf6 & Ho6 & Hk6 & Hl6).
    split; [exact Hrn|]. exists (next_act (set_ops a5 []) None), g6, b3.
    assert (M6 : mid b2 d s2 a5 g5 b3 s3 (next_act (set_ops a5 []) None) g6).
    { unfold mid, rest.
      split; [eapply xr_call; [exact Hi4'|apply dec_call|exact Hx|exact Hrun|apply xr_refl]|].
      split; [exact He3|]. split; [now rewrite Hf6|]. split; [repeat split|]. split; [reflexivity|].
      split; [exact Hk6|]. split; [apply fkeep_same; exact Hf6|exact Hl6]. }
    pose proof (mid_trans _ _ _ _ _ _ _ _ _ _ _ _ _ M05 M6) as M. unfold mid in M. destruct M as (R & E & Hr).
    split; [exact R|]. split; [unfold next_act; cbn [set_ip a_ip set_ops]; exact Hfin|]. split; [reflexivity|].
    split; [exact E|]. split; [eapply Cl_after; [exact HC5t|exact (proj1 He3)|exact Hh3|exact Hf6|exact Ho6]|exact Hr].
  - eapply fail_post_map; [|exact Hcal]. intros (fuel' & e0 & g6 & Hrun & Hr & Ho6). exists e0, g6.
    split; [|split; assumption]. unfold mid in M05. exists a5, g5. split; [exact (proj1 M05)|]. right.
    exists i4, (DCall None), loc, cbf, ws, (set_ops a5 []), g5t, fuel'. auto using dec_call.
Qed.

(* ---------------------------------------------------------------- && , || , ! with operands that contain calls *)
(* store_skip that does not skip: park the boolean in register d *)
Lemma park_skip2 : forall b B env s a1 g1 k1 d (p : bool) n (bv : bool),
  nth_error code k1 = Some (mkI OP_STORE_SKIP [reg d; if p then s_one else s_zero; sN n]) -> small n ->
  (if p then bv else negb bv) = false ->
  a_ip a1 = k1 -> a_ops a1 = [VBool bv] -> ClA b B env s g1 -> small d ->
  exists g2, mid b d s a1 g1 b s (upd a1 (S k1) []) g2 /\ ClA b B env s g2 /\ rvk b g2 d (VBool bv).
Proof.
  intros b B env s a1 g1 k1 d p n bv Hi Hsn Hpb Hip Hops HC Hsd. subst k1.
  set (i1 := mkI OP_STORE_SKIP [reg d; if p then s_one else s_zero; sN n]) in *.
  set (w := VBool bv) in *.
  destruct (Cl_bind_reg path prog P cb CD base name SF b B env s (trc name a1 g1 i1) (reg d) w (Cl_trc _ _ _ _ _ _ _ _ HC) (reg_not_uname0 d))
    as (f & fs & Ef & Hb). cbv zeta in Hb. destruct Hb as [Hb HC2].
  match type of HC2 with Cl _ _ _ _ _ _ _ _ _ _ _ _ ?G => set (g2 := G) in * end.
  assert (Hv : N.to_nat (N.of_nat (length (cells (trc name a1 g1 i1)))) < length (cells g1) -> False) by (rewrite Nnat.Nat2N.id; cbn [trc add_trace cells]; lia).
  exists g2. split; [|split; [exact HC2|]].
  - split.
    + eapply (xstep_next prog name code a1 g1 i1 _ (a_ip a1) (set_ops a1 [])); [reflexivity|exact Hi|apply dec_store_skip; exact Hsn|].
      rewrite (exec_store_skip (reg d) p (Z.of_nat n) a1 _ w Hops). unfold w at 1. rewrite Hpb. fold w. rewrite Hb. reflexivity.
    + split; [apply bext_refl|]. split; [cbn [g2 frames tl]; change (frames g1) with (frames (trc name a1 g1 i1)); now rewrite Ef|].
      split; [repeat split|]. split; [reflexivity|]. split; [apply (keep_cells_app _ _ _ [w]); reflexivity|].
      split; [|split; [lia|cbn [g2 cells trc add_trace]; rewrite app_length; lia]].
      intros y Hy. cbn [g2 frames]. change (frames g1) with (frames (trc name a1 g1 i1)). rewrite Ef.
      cbn [find_in_function top_vars vars lab]. rewrite assoc_set_other; [split; reflexivity|].
      intros ->. apply Hy. exists d. split; [lia|]. split; [exact Hsd|reflexivity].
  - exists (N.of_nat (length (cells (trc name a1 g1 i1)))). split; [cbn [g2 frames find_in_function vars]; now rewrite assoc_set_same|].
    split; [unfold cell_get; cbn [g2 cells]; rewrite Nnat.Nat2N.id, nth_error_app2, Nat.sub_diag by lia; reflexivity|].
    intros c k Hb0. destruct (heap_valid path prog _ _ _ _ _ _ (cl_heap _ _ _ _ _ _ _ _ _ _ _ _ _ HC) Hb0) as [_ Hc']. exact (Hv Hc').
Qed.

(* an operand of kind "data" never yields "no value" *)
Lemma eres_noval_KD : forall b B env s d fin a g s', eres_ok b B env s d fin a g KD (ENoVal s') -> False.
Proof. intros b B env s d fin a g s' [H _]. discriminate H. Qed.

(* the expression starts after the machine has made some progress *)
Lemma eres_seq : forall b B env s d fin a g b1 s1 a1 g1 d' k r,
  mid b d s a g b1 s1 a1 g1 -> d <= d' -> eres_ok b1 B env s1 d' fin a1 g1 k r -> eres_ok b B env s d fin a g k r.
Proof.
  intros b B env s d fin a g b1 s1 a1 g1 d' k r M Hle H. destruct r as [v s2|s2|f s2|]; cbn [eres_ok] in *; [| | |exact Logic.I].
  - destruct H as (a' & g' & b' & w & R & Hip & Hops & E & HC & Hv & Hr).
    assert (M2 : mid b1 d s1 a1 g1 b' s2 a' g') by (eapply mid_mono; [exact Hle|]; unfold mid; auto).
    pose proof (mid_trans _ _ _ _ _ _ _ _ _ _ _ _ _ M M2) as M3. unfold mid in M3. destruct M3 as (R3 & E3 & Hr3).
    exists a', g', b', w. auto 8.
  - destruct H as (Hk & a' & g' & b' & R & Hip & Hops & E & HC & Hr). split; [exact Hk|].
    assert (M2 : mid b1 d s1 a1 g1 b' s2 a' g') by (eapply mid_mono; [exact Hle|]; unfold mid; auto).
    pose proof (mid_trans _ _ _ _ _ _ _ _ _ _ _ _ _ M M2) as M3. unfold mid in M3. destruct M3 as (R3 & E3 & Hr3).
    exists a', g', b'. auto 8.
  - eapply fail_post_map; [|exact H]. intros (e0 & g' & Hf & Hr). exists e0, g'. split; [eapply mid_fail; eassumption|exact Hr].
Qed.

(* and / or : the two share everything but the constant *)
Lemma espec_logic : forall (p : bool) ea eb, espec ea -> espec eb -> espec (if p then EOr ea eb else EAnd ea eb).
Proof.
  intros p ea eb IHa IHb b B d lr k0 fuel kp a g env s kd Hfu Hk Hb Hinst Hd Hc Hend Hip Hcb Hops HC.
  set (e := if p then EOr ea eb else EAnd ea eb) in *.
  assert (Hkk : kexpr SF B CD e = if ok_dexpr B CD e then Some KD else
                 match kexpr SF B CD ea, kexpr SF B CD eb with Some KD, Some KD => Some KD | _, _ => None end)
    by (rewrite kexpr_eq; unfold e; destruct p; reflexivity).
  rewrite Hkk in Hk. clear Hkk. destruct (ok_dexpr B CD e) eqn:Ho.
  { inversion Hk; subst kd. exact (espec_data _ b B d lr k0 fuel kp a g env s Ho Hb Hd Hc Hend Hip Hcb Hops HC). }
  destruct (kexpr SF B CD ea) as [[|? ?|]|] eqn:Ea; try discriminate.
  destruct (kexpr SF B CD eb) as [[|? ?|]|] eqn:Eb; try discriminate. inversion Hk; subst kd.
  destruct fuel as [|fuel]; [exact Logic.I|].
  assert (Hcode : ec path d lr k0 e =
     let '(ca, fa) := ec path (S d) lr k0 ea in
     let '(cb2, fb) := ec path (S d) lr (k0 + length fa) eb in
     (ca ++ [mkI OP_STORE_SKIP [reg d; if p then s_one else s_zero; sN (length cb2 + 3)]] ++ cb2
         ++ [mkI OP_LOAD_FAST [reg d]; mkI OP_BIN_OP [if p then op_or else op_and]], fa ++ fb))
    by (unfold e; destruct p; [apply ec_EOr|apply ec_EAnd]).
  assert (Eev : eval (S fuel) env e s =
                match eval fuel env ea s with
                | EVal (RBool bv) s1 =>
                  if (if p then bv else negb bv) then EVal (RBool bv) s1
                  else match eval fuel env eb s1 with
                       | EVal (RBool vb) s2 => EVal (RBool vb) s2
                       | EVal _ s2 | ENoVal s2 => EFail (FType 6) s2 | r => r end
                | EVal _ s1 | ENoVal s1 => EFail (FType 6) s1 | r => r end).
  { unfold e. destruct p; [rewrite eval_EOr|rewrite eval_EAnd]; destruct (eval fuel env ea s) as [[?|[|]|?| |? ? ?] s1|s1|f s1|]; reflexivity. }
  rewrite Eev. clear Eev. rewrite Hcode in Hinst, Hd, Hc, Hend |- *. clear Hcode Ho. clearbody e. clear e.
  destruct (ec path (S d) lr k0 ea) as [ca fa] eqn:Eca.
  destruct (ec path (S d) lr (k0 + length fa) eb) as [cb2 fb] eqn:Ecb. cbn [fst snd] in *.
  rewrite !app_length in *. cbn [length] in *.
  apply (installed_app prog) in Hinst as [Hin1 Hin2].
  apply code_at_app in Hc as [Hca Hc]. apply code_at_cons in Hc as [Hi1 Hc].
  apply code_at_app in Hc as [Hcb2 Hc]. apply code_at_cons in Hc as [Hi2 Hc]. apply code_at_cons in Hc as [Hi3 _].
  set (la := length ca) in *. set (lb := length cb2) in *.
  assert (Hsd : small d) by (eapply small_le; [|exact Hsmall]; lia).
  assert (Hsk : small (lb + 3)) by (eapply small_le; [|exact Hsmall]; lia).
  pose proof (IHa b B (S d) lr k0 fuel kp a g env s KD ltac:(lia) Ea Hb) as He. rewrite Eca in He. cbn [fst snd] in He.
  specialize (He Hin1 ltac:(fold la; lia) Hca ltac:(fold la; lia) Hip Hcb Hops HC). fold la in He.
  destruct (eval fuel env ea s) as [va s1|s1|f s1|]; [|exfalso; exact (eres_noval_KD _ _ _ _ _ _ _ _ _ He)|exact He|exact Logic.I].
  apply eres_val_inv in He. destruct He as (a1 & g1 & b1 & wa & M1 & Hip1 & Hops1 & HC1 & [Hfoa ->]).
  set (i1 := mkI OP_STORE_SKIP [reg d; if p then s_one else s_zero; sN (lb + 3)]) in *.
  pose proof (dec_store_skip (reg d) p (lb + 3) Hsk) as Hd1.
  pose proof (exec_store_skip (reg d) p (Z.of_nat (lb + 3)) a1 (trc name a1 g1 i1) (inj va) Hops1) as He1.
  assert (Hfail6 : (forall bv, inj va <> VBool bv) ->
            fail_post (FType 6) (exists e0 g', xfail prog name code a g e0 g' /\ err_rel_s (FType 6) e0 /\ out g' = rout s1)).
  { intros Hv. apply fail_post_intro. exists E_not_bool, (trc name a1 g1 i1).
    split; [|split; [cbn; auto|exact (cl_out _ _ _ _ _ _ _ _ _ _ _ _ _ HC1)]].
    eapply mid_fail; [exact M1|]. eapply xstep_fail; [exact Hip1|exact Hi1|exact Hd1|].
    rewrite He1. destruct (inj va); try reflexivity. exfalso. exact (Hv b0 eq_refl). }
  destruct va as [z|bv|t| |p0 bd ev]; cbn [eres_ok]; try (apply Hfail6; intros b0; discriminate).
  cbn [inj] in He1, Hops1.
  destruct (if p then bv else negb bv) eqn:Epb.
  { (* the left operand decides: jump over the right operand *)
    apply (eres_val b B env s d _ a g KD (RBool bv) s1 (set_ip a1 (kp + (la + (1 + (lb + 2))))) (trc name a1 g1 i1) b1 (VBool bv));
      [|reflexivity|exact Hops1|apply Cl_trc; exact HC1|split; [exact Hfoa|reflexivity]].
    eapply mid_trans; [eapply mid_mono; [|exact M1]; lia|]. apply mid_same; try reflexivity; [|repeat split].
    eapply (xstep_goto prog name code a1 g1 i1 _ (kp + la) _ a1); [exact Hip1|exact Hi1|exact Hd1|exact He1|].
    rewrite Hip1. rewrite goto_fwd by lia. f_equal. lia. }
  (* the left operand does not decide: park it, evaluate the right operand *)
  destruct (park_skip2 b1 B env s1 a1 g1 (kp + la) d p (lb + 3) bv Hi1 Hsk Epb Hip1 Hops1 HC1 Hsd) as (g2 & M2 & HC2 & Hrv2).
  set (a2 := upd a1 (S (kp + la)) []) in *.
  assert (Hcb2' : a_cb a2 = cb).
  { unfold mid, rest in M1. destruct M1 as (_ & _ & _ & (_ & _ & A3) & _). cbn [a2 upd set_ip set_ops a_cb]. congruence. }
  pose proof (IHb b1 B (S d) lr (k0 + length fa) fuel (S (kp + la)) a2 g2 env s1 KD ltac:(lia) Eb Hb) as Hbr.
  rewrite Ecb in Hbr. cbn [fst snd] in Hbr.
  specialize (Hbr Hin2 ltac:(fold lb; lia) ltac:(atp Hcb2) ltac:(fold lb; lia) eq_refl Hcb2' eq_refl HC2). fold lb in Hbr.
  destruct (eval fuel env eb s1) as [vb s2|s2|f s2|]; [|exfalso; exact (eres_noval_KD _ _ _ _ _ _ _ _ _ Hbr)| |exact Logic.I].
  2:{ cbn [eres_ok] in Hbr |- *. eapply fail_post_map; [|exact Hbr]. intros (e0 & g' & Hf & Hr). exists e0, g'.
      split; [eapply mid_fail; [exact M1|]; eapply mid_fail; [exact M2|exact Hf]|exact Hr]. }
  apply eres_val_inv in Hbr. destruct Hbr as (a3 & g3 & b2 & wb & M3 & Hip3 & Hops3 & HC3 & [Hfob ->]).
  assert (Hrv3 : rvk b2 g3 d (VBool bv)) by (eapply rvk_keep; [exact M3|exact Hrv2|lia|exact Hsd]).
  pose proof (unpark2 b2 d s2 a3 g3 (S (kp + la) + lb) d (VBool bv) ltac:(atp Hi2) Hip3 Hrv3) as M4.
  rewrite Hops3 in M4. cbn [app] in M4.
  set (a4 := upd a3 (S (S (kp + la) + lb)) [inj vb; VBool bv]) in *.
  set (g4 := trc name a3 g3 (mkI OP_LOAD_FAST [reg d])) in *.
  set (i3 := mkI OP_BIN_OP [if p then op_or else op_and]) in *.
  pose proof (exec_bin_op (if p then op_or else op_and) a4 (trc name a4 g4 i3) (inj vb) (VBool bv) eq_refl) as Hx.
  assert (M04 : mid b d s a g b2 s2 a4 g4).
  { eapply mid_trans; [eapply mid_mono; [|exact M1]; lia|]. eapply mid_trans; [exact M2|].
    eapply mid_trans; [eapply mid_mono; [|exact M3]; lia|exact M4]. }
  assert (Hi3' : nth_error code (a_ip a4) = Some i3) by (cbn [a4 upd set_ip a_ip]; atp Hi3).
  assert (Hbsem : forall vv, inj vb = vv -> (forall b0, vv <> VBool b0) ->
            exists e0, bin_op_sem (if p then op_or else op_and) vv (VBool bv) = OE e0 /\ err_rel (FType 6) e0).
  { intros vv <- Hv. destruct p; destruct vb as [?|b0|?| |? ? ?]; cbn; try (eexists; split; [reflexivity|cbn; auto]); exfalso; exact (Hv b0 eq_refl). }
  assert (Hfail6b : (forall b0, inj vb <> VBool b0) ->
            fail_post (FType 6) (exists e0 g', xfail prog name code a g e0 g' /\ err_rel_s (FType 6) e0 /\ out g' = rout s2)).
  { intros Hv. destruct (Hbsem _ eq_refl Hv) as (e0 & Hbo & Hrel). rewrite Hbo in Hx.
    apply fail_post_intro. exists e0, (trc name a4 g4 i3). split; [|split; [now apply err_rel_s_of|exact (cl_out _ _ _ _ _ _ _ _ _ _ _ _ _ HC3)]].
    eapply mid_fail; [exact M04|]. eapply xstep_fail; [reflexivity|exact Hi3'|apply dec_bin_op|exact Hx]. }
  destruct vb as [z|b2v|t| |p0 bd ev]; cbn [eres_ok]; try (apply Hfail6b; intros b0; discriminate).
  cbn [inj] in Hx.
  assert (Hov : bin_op_sem (if p then op_or else op_and) (VBool b2v) (VBool bv) = OV (VBool b2v)).
  { destruct p, bv, b2v; try discriminate Epb; reflexivity. }
  rewrite Hov in Hx.
  apply (eres_val b B env s d _ a g KD (RBool b2v) s2 (upd a4 (S (a_ip a4)) [VBool b2v]) (trc name a4 g4 i3) b2 (VBool b2v));
    [|cbn [a4 upd set_ip a_ip]; lia|reflexivity|do 2 apply Cl_trc; exact HC3|split; [exact Hfob|reflexivity]].
  eapply mid_trans; [exact M04|]. apply mid_same; try reflexivity; [|repeat split].
  eapply (xstep_next prog name code a4 g4 i3 _ (a_ip a4) (set_ops a4 [VBool b2v])); [reflexivity|exact Hi3'|apply dec_bin_op|exact Hx].
Qed.

Lemma espec_not : forall ea, espec ea -> espec (ENot ea).
Proof.
  intros ea IHa b B d lr k0 fuel kp a g env s kd Hfu Hk Hb Hinst Hd Hc Hend Hip Hcb Hops HC.
  rewrite kexpr_eq in Hk. destruct (ok_dexpr B CD (ENot ea)) eqn:Ho.
  { inversion Hk; subst kd. exact (espec_data _ b B d lr k0 fuel kp a g env s Ho Hb Hd Hc Hend Hip Hcb Hops HC). }
  destruct (kexpr SF B CD ea) as [[|? ?|]|] eqn:Ea; try discriminate. inversion Hk; subst kd.
  destruct fuel as [|fuel]; [exact Logic.I|]. rewrite eval_ENot.
  rewrite ec_ENot in *. destruct (ec path (S d) lr k0 ea) as [ca fa] eqn:Eca. cbn [fst snd] in *.
  rewrite !app_length in *. cbn [length] in *.
  apply code_at_app in Hc as [Hca Hc]. apply code_at_cons in Hc as [Hi1 _].
  set (la := length ca) in *.
  pose proof (IHa b B (S d) lr k0 fuel kp a g env s KD ltac:(lia) Ea Hb) as He. rewrite Eca in He. cbn [fst snd] in He.
  specialize (He Hinst ltac:(fold la; lia) Hca ltac:(fold la; lia) Hip Hcb Hops HC). fold la in He.
  destruct (eval fuel env ea s) as [va s1|s1|f s1|]; [|exfalso; exact (eres_noval_KD _ _ _ _ _ _ _ _ _ He)|exact He|exact Logic.I].
  apply eres_val_inv in He. destruct He as (a1 & g1 & b1 & wa & M1 & Hip1 & Hops1 & HC1 & [Hfoa ->]).
  set (i1 := mkI OP_NOT []) in *.
  pose proof (exec_not a1 (trc name a1 g1 i1) (inj va) Hops1) as Hx.
  assert (Hfail : (forall bv, inj va <> VBool bv) ->
            fail_post (FType 7) (exists e0 g', xfail prog name code a g e0 g' /\ err_rel_s (FType 7) e0 /\ out g' = rout s1)).
  { intros Hv. apply fail_post_intro. exists E_not_bool, (trc name a1 g1 i1).
    split; [|split; [cbn; auto|exact (cl_out _ _ _ _ _ _ _ _ _ _ _ _ _ HC1)]].
    eapply mid_fail; [exact M1|]. eapply xstep_fail; [exact Hip1|exact Hi1|apply dec_not|].
    rewrite Hx. destruct (inj va); try reflexivity. exfalso. exact (Hv b0 eq_refl). }
  destruct va as [z|bv|t| |p0 bd ev]; cbn [eres_ok]; try (apply Hfail; intros b0; discriminate).
  cbn [inj] in Hx.
  apply (eres_val b B env s d _ a g KD (RBool (negb bv)) s1 (upd a1 (S (a_ip a1)) [VBool (negb bv)]) (trc name a1 g1 i1) b1 (VBool (negb bv)));
    [|cbn [upd set_ip a_ip]; lia|reflexivity|apply Cl_trc; exact HC1|split; [exact Logic.I|reflexivity]].
  eapply mid_trans; [eapply mid_mono; [|exact M1]; lia|]. apply mid_same; try reflexivity; [|repeat split].
  eapply (xstep_next prog name code a1 g1 i1 _ (a_ip a1) (set_ops a1 [VBool (negb bv)])); [reflexivity|rewrite Hip1; exact Hi1|apply dec_not|exact Hx].
Qed.

(* ---------------------------------------------------------------- -a, the operand contains a call *)
Lemma espec_neg : forall ea, espec ea -> espec (ENeg ea).
Proof.
  intros ea IHa b B d lr k0 fuel kp a g env s kd Hfu Hk Hb Hinst Hd Hc Hend Hip Hcb Hops HC.
  rewrite kexpr_eq in Hk. destruct (ok_dexpr B CD (ENeg ea)) eqn:Ho.
  { inversion Hk; subst kd. exact (espec_data _ b B d lr k0 fuel kp a g env s Ho Hb Hd Hc Hend Hip Hcb Hops HC). }
  destruct (kexpr SF B CD ea) as [[|? ?|]|] eqn:Ea; try discriminate. inversion Hk; subst kd.
  destruct fuel as [|fuel]; [exact Logic.I|]. rewrite eval_ENeg.
  rewrite ec_ENeg in *. destruct (ec path (S d) lr k0 ea) as [ca fa] eqn:Eca. cbn [fst snd] in *.
  rewrite !app_length in *. cbn [length] in *.
  apply code_at_app in Hc as [Hca Hc]. apply code_at_cons in Hc as [Hi1 _].
  set (la := length ca) in *.
  pose proof (IHa b B (S d) lr k0 fuel kp a g env s KD ltac:(lia) Ea Hb) as He. rewrite Eca in He. cbn [fst snd] in He.
  specialize (He Hinst ltac:(fold la; lia) Hca ltac:(fold la; lia) Hip Hcb Hops HC). fold la in He.
  destruct (eval fuel env ea s) as [va s1|s1|f s1|]; [|exfalso; exact (eres_noval_KD _ _ _ _ _ _ _ _ _ He)|exact He|exact Logic.I].
  apply eres_val_inv in He. destruct He as (a1 & g1 & b1 & wa & M1 & Hip1 & Hops1 & HC1 & [Hfoa ->]).
  set (i1 := mkI OP_NEG []) in *.
  pose proof (exec_neg a1 (trc name a1 g1 i1) (inj va) Hops1) as Hx.
  assert (Hfail : (forall z, inj va <> VInt z) ->
            fail_post (FType 7) (exists e0 g', xfail prog name code a g e0 g' /\ err_rel_s (FType 7) e0 /\ out g' = rout s1)).
  { intros Hv. apply fail_post_intro. exists E_invalid_op, (trc name a1 g1 i1).
    split; [|split; [cbn; auto|exact (cl_out _ _ _ _ _ _ _ _ _ _ _ _ _ HC1)]].
    eapply mid_fail; [exact M1|]. eapply xstep_fail; [exact Hip1|exact Hi1|apply dec_neg|].
    rewrite Hx. destruct (inj va); try reflexivity. exfalso. exact (Hv z eq_refl). }
  destruct va as [z|bv|t| |p0 bd ev]; cbn [eres_ok]; try (apply Hfail; intros z0; discriminate).
  cbn [inj] in Hx. unfold arith_res. destruct (i32_ok (- z)) eqn:Eok.
  - apply (eres_val b B env s d _ a g KD (RInt (- z)) s1 (upd a1 (S (a_ip a1)) [VInt (- z)]) (trc name a1 g1 i1) b1 (VInt (- z)));
      [|cbn [upd set_ip a_ip]; lia|reflexivity|apply Cl_trc; exact HC1|split; [exact Logic.I|reflexivity]].
    eapply mid_trans; [eapply mid_mono; [|exact M1]; lia|]. apply mid_same; try reflexivity; [|repeat split].
    eapply (xstep_next prog name code a1 g1 i1 _ (a_ip a1) (set_ops a1 [VInt (- z)])); [reflexivity|rewrite Hip1; exact Hi1|apply dec_neg|exact Hx].
  - cbn [eres_ok]. apply fail_post_intro. exists (E_overflow OP_NEG), (trc name a1 g1 i1).
    split; [|split; [cbn; auto|exact (cl_out _ _ _ _ _ _ _ _ _ _ _ _ _ HC1)]].
    eapply mid_fail; [exact M1|]. eapply xstep_fail; [exact Hip1|exact Hi1|apply dec_neg|exact Hx].
Qed.

(* ---------------------------------------------------------------- (a) or b , get a : optionals whose operands contain calls *)
Lemma inj_nil : forall v, first_order v -> inj v = VNil -> v = RNil.
Proof. intros [z|bv|t| |p0 bd ev] Hfo H; try discriminate; try reflexivity; destruct Hfo. Qed.

Lemma espec_nilor : forall ea eb, espec ea -> espec eb -> espec (ENilOr ea eb).
Proof.
  intros ea eb IHa IHb b B d lr k0 fuel kp a g env s kd Hfu Hk Hb Hinst Hd Hc Hend Hip Hcb Hops HC.
  rewrite kexpr_eq in Hk. destruct (ok_dexpr B CD (ENilOr ea eb)) eqn:Ho.
  { inversion Hk; subst kd. exact (espec_data _ b B d lr k0 fuel kp a g env s Ho Hb Hd Hc Hend Hip Hcb Hops HC). }
  destruct (kexpr SF B CD ea) as [[|? ?|]|] eqn:Ea; try discriminate.
  destruct (kexpr SF B CD eb) as [[|? ?|]|] eqn:Eb; try discriminate. inversion Hk; subst kd.
  destruct fuel as [|fuel]; [exact Logic.I|]. rewrite eval_ENilOr.
  rewrite ec_ENilOr in *. destruct (ec path (S d) lr k0 ea) as [ca fa] eqn:Eca.
  destruct (ec path (S d) lr (k0 + length fa) eb) as [cb2 fb] eqn:Ecb. cbn [fst snd] in *.
  rewrite !app_length in *. cbn [length] in *.
  apply (installed_app prog) in Hinst as [Hin1 Hin2].
  apply code_at_app in Hc as [Hca Hc]. apply code_at_cons in Hc as [Hi1 Hcb2].
  set (la := length ca) in *. set (lb := length cb2) in *.
  assert (Hsk : small (lb + 1)) by (eapply small_le; [|exact Hsmall]; lia).
  pose proof (IHa b B (S d) lr k0 fuel kp a g env s KD ltac:(lia) Ea Hb) as He. rewrite Eca in He. cbn [fst snd] in He.
  specialize (He Hin1 ltac:(fold la; lia) Hca ltac:(fold la; lia) Hip Hcb Hops HC). fold la in He.
  destruct (eval fuel env ea s) as [va s1|s1|f s1|] eqn:Eea; [|exfalso; exact (eres_noval_KD _ _ _ _ _ _ _ _ _ He)|exact He|exact Logic.I].
  apply eres_val_inv in He. destruct He as (a1 & g1 & b1 & wa & M1 & Hip1 & Hops1 & HC1 & [Hfoa ->]).
  set (i1 := mkI OP_JMP_NOT_NIL [sN (lb + 1)]) in *.
  pose proof (dec_jmp_not_nil (lb + 1) Hsk) as Hd1.
  pose proof (exec_jmp_not_nil (Z.of_nat (lb + 1)) a1 (trc name a1 g1 i1) (inj va) Hops1) as Hx.
  assert (Hnn : va <> RNil -> eres_ok b B env s d (kp + (la + (1 + lb))) a g KD (EVal va s1)).
  { intros Hne.
    assert (Hx' : exec_d (DJmpNotNil (Z.of_nat (lb + 1))) a1 (trc name a1 g1 i1) = SGoto (Z.of_nat (lb + 1)) a1 (trc name a1 g1 i1)).
    { rewrite Hx. destruct (inj va) eqn:Ei; try reflexivity. exfalso. apply Hne. now apply inj_nil. }
    apply (eres_val b B env s d _ a g KD va s1 (set_ip a1 (kp + (la + (1 + lb)))) (trc name a1 g1 i1) b1 (inj va));
      [|reflexivity|exact Hops1|apply Cl_trc; exact HC1|split; [exact Hfoa|reflexivity]].
    eapply mid_trans; [eapply mid_mono; [|exact M1]; lia|]. apply mid_same; try reflexivity; [|repeat split].
    eapply (xstep_goto prog name code a1 g1 i1 _ (kp + la) _ a1); [exact Hip1|exact Hi1|exact Hd1|exact Hx'|].
    rewrite Hip1. rewrite goto_fwd by lia. f_equal. lia. }
  destruct va as [z|bv|t| |p0 bd ev]; try (apply Hnn; discriminate).
  (* nil: pop it, evaluate the fallback *)
  cbn [inj] in Hx.
  set (a2 := upd a1 (S (kp + la)) []).
  set (g2 := trc name a1 g1 i1).
  assert (M2 : mid b1 d s1 a1 g1 b1 s1 a2 g2).
  { apply mid_same; try reflexivity; [|repeat split].
    unfold a2, upd. rewrite <- Hip1.
    eapply (xstep_next prog name code a1 g1 i1 _ (a_ip a1) (set_ops a1 [])); [reflexivity|rewrite Hip1; exact Hi1|exact Hd1|exact Hx]. }
  assert (Hcb2' : a_cb a2 = cb).
  { unfold mid, rest in M1. destruct M1 as (_ & _ & _ & (_ & _ & A3) & _). cbn [a2 upd set_ip set_ops a_cb]. congruence. }
  pose proof (IHb b1 B (S d) lr (k0 + length fa) fuel (S (kp + la)) a2 g2 env s1 KD ltac:(lia) Eb Hb) as Hbr.
  rewrite Ecb in Hbr. cbn [fst snd] in Hbr.
  specialize (Hbr Hin2 ltac:(fold lb; lia) ltac:(atp Hcb2) ltac:(fold lb; lia) eq_refl Hcb2' eq_refl (Cl_trc _ _ _ _ _ _ _ _ HC1)). fold lb in Hbr.
  replace (kp + (la + (1 + lb))) with (S (kp + la) + lb) by lia.
  eapply (eres_seq b B env s d _ a g b1 s1 a2 g2 (S d)); [|lia|exact Hbr].
  eapply mid_trans; [eapply mid_mono; [|exact M1]; lia|exact M2].
Qed.

Lemma espec_get : forall ea sp, espec ea -> espec (EGet ea sp).
Proof.
  intros ea sp IHa b B d lr k0 fuel kp a g env s kd Hfu Hk Hb Hinst Hd Hc Hend Hip Hcb Hops HC.
  rewrite kexpr_eq in Hk. destruct (ok_dexpr B CD (EGet ea sp)) eqn:Ho.
  { inversion Hk; subst kd. exact (espec_data _ b B d lr k0 fuel kp a g env s Ho Hb Hd Hc Hend Hip Hcb Hops HC). }
  destruct (kexpr SF B CD ea) as [[|? ?|]|] eqn:Ea; try discriminate. inversion Hk; subst kd.
  destruct fuel as [|fuel]; [exact Logic.I|]. rewrite eval_EGet.
  rewrite ec_EGet in *. destruct (ec path (S d) lr k0 ea) as [ca fa] eqn:Eca. cbn [fst snd] in *.
  rewrite !app_length in *. cbn [length] in *.
  apply code_at_app in Hc as [Hca Hc]. apply code_at_cons in Hc as [Hi1 _].
  set (la := length ca) in *.
  pose proof (IHa b B (S d) lr k0 fuel kp a g env s KD ltac:(lia) Ea Hb) as He. rewrite Eca in He. cbn [fst snd] in He.
  specialize (He Hinst ltac:(fold la; lia) Hca ltac:(fold la; lia) Hip Hcb Hops HC). fold la in He.
  destruct (eval fuel env ea s) as [va s1|s1|f s1|]; [|exfalso; exact (eres_noval_KD _ _ _ _ _ _ _ _ _ He)|exact He|exact Logic.I].
  apply eres_val_inv in He. destruct He as (a1 & g1 & b1 & wa & M1 & Hip1 & Hops1 & HC1 & [Hfoa ->]).
  set (i1 := mkI OP_UNWRAP [sp]) in *.
  pose proof (exec_unwrap sp a1 (trc name a1 g1 i1) (inj va) Hops1) as Hx.
  assert (Hnn : va <> RNil -> eres_ok b B env s d (kp + (la + 1)) a g KD (EVal va s1)).
  { intros Hne.
    assert (Hx' : exec_d (DUnwrap sp) a1 (trc name a1 g1 i1) = SNext a1 (trc name a1 g1 i1)).
    { rewrite Hx. destruct va as [z|bv|t| |p0 bd ev]; first [reflexivity|exfalso; now apply Hne|destruct Hfoa]. }
    apply (eres_val b B env s d _ a g KD va s1 (set_ip a1 (S (a_ip a1))) (trc name a1 g1 i1) b1 (inj va));
      [|cbn [set_ip a_ip]; lia|exact Hops1|apply Cl_trc; exact HC1|split; [exact Hfoa|reflexivity]].
    eapply mid_trans; [eapply mid_mono; [|exact M1]; lia|]. apply mid_same; try reflexivity; [|repeat split].
    eapply (xstep_next prog name code a1 g1 i1 _ (a_ip a1) a1); [reflexivity|rewrite Hip1; exact Hi1|apply dec_unwrap|exact Hx']. }
  destruct va as [z|bv|t| |p0 bd ev]; try (apply Hnn; discriminate).
  cbn [inj] in Hx. cbn [eres_ok]. apply fail_post_intro. exists (E_unwrap_nil sp), (trc name a1 g1 i1).
  split; [|split; [reflexivity|exact (cl_out _ _ _ _ _ _ _ _ _ _ _ _ _ HC1)]].
  eapply mid_fail; [exact M1|]. eapply xstep_fail; [exact Hip1|exact Hi1|apply dec_unwrap|exact Hx].
Qed.

(* ---------------------------------------------------------------- self(args) *)
Lemma kself_inv : forall B l kd,
  match SF with
  | Some (pk, r) => match kargs SF B CD l with Some ks => if kinds_eqb ks pk then Some r else None | None => None end
  | None => None end = Some kd ->
  exists pk, SF = Some (pk, kd) /\ kargs SF B CD l = Some pk.
Proof.
  intros B l kd. generalize (kargs SF B CD l). intros o. case SF; [intros [pk r]|discriminate].
  destruct o as [ks|]; [|discriminate]. destruct (kinds_eqb ks pk) eqn:E; [|discriminate].
  intros H. inversion H; subst r. apply kinds_eqb_eq in E. subst ks. exists pk. auto.
Qed.

Lemma espec_self : forall l, Forall espec l -> espec (ESelf l).
Proof.
  intros l IHl b B d lr k0 fuel kp a g env s kd Hfu Hk Hb Hinst Hd Hc Hend Hip Hcb Hops HC.
  rewrite kexpr_eq in Hk. destruct (ok_dexpr B CD (ESelf l)) eqn:Ho; [apply ok_dexpr_pure in Ho; discriminate|].
  destruct (kself_inv B l kd Hk) as (pk & ESF & El). clear Hk.
  destruct fuel as [|fuel]; [exact Logic.I|]. rewrite eval_ESelf.
  rewrite ec_ESelf in *. destruct (eargs path lr (S d) k0 l) as [[ci cl] fl] eqn:Eea. cbn [fst snd] in *.
  pose proof (eargs_loads lr l (S d) k0) as Ecl. rewrite Eea in Ecl. cbn [fst snd] in Ecl. subst cl.
  rewrite !app_length in *. cbn [length] in *.
  set (la := length ci) in *. set (na := length (argloads (S d) l)) in *.
  assert (Hna : na = length l) by (unfold na; clear; generalize (S d); induction l; intros n; cbn [argloads length]; [reflexivity|now rewrite IHl]).
  apply code_at_app in Hc as [Hca Hc]. apply code_at_app in Hc as [Hcl Hc]. fold la in Hcl, Hc.
  apply code_at_cons in Hc as [Hi4 _]. fold na in Hi4.
  (* the arguments *)
  pose proof (args_sim l IHl b B (S d) lr k0 fuel kp a g env s pk [] ltac:(lia) El Hb) as Hargs.
  rewrite Eea in Hargs. cbn [fst snd] in Hargs. fold la in Hargs.
  specialize (Hargs Hinst ltac:(lia) Hca ltac:(lia) Hip Hcb Hops HC).
  destruct (evals_ fuel env l s []) as [[vs s2]|r0]; cbn [ares_ok] in Hargs.
  2:{ destruct r0 as [? ?|?|fl0 s2|]; try contradiction; cbn [eres_ok]; [exact Hargs|exact Logic.I]. }
  destruct Hargs as (vs' & ws & a3 & g3 & b2 & Evs & M3 & Hip3 & Hops3 & HC3 & Hvs & Hreg).
  cbn [rev app] in Evs. subst vs'.
  destruct (vrels_length _ _ _ _ Hvs) as [Hlv Hlw].
  assert (Hlk : length l = length pk).
  { clear -El. revert pk El. induction l as [|e l IH]; intros pk El; cbn [kargs] in El; [inversion El; reflexivity|].
    destruct (kexpr SF B CD e); [|discriminate]. destruct (kargs SF B CD l) as [ks|]; [|discriminate]. inversion El. cbn [length]. now rewrite (IH ks). }
  (* the executing function value *)
  pose proof (cl_cur _ _ _ _ _ _ _ _ _ _ _ _ _ HC3) as Hcur. unfold cur_ok in Hcur. rewrite ESF in Hcur.
  destruct Hcur as (ps & body & cenv & Ecur & Hclos). rewrite Ecur.
  (* reload the arguments *)
  destruct (loads_sim l ws (S d) (kp + la) b2 (S d) s2 a3 g3 ltac:(congruence) Hreg ltac:(atp Hcl) Hip3) as (g4 & M4 & Hf4 & Hc4 & Ho4).
  rewrite Hops3 in M4. cbn [app] in M4.
  set (a4 := upd a3 (kp + la + length l) ws) in *.
  assert (M04 : mid b d s a g b2 s2 a4 g4).
  { eapply mid_trans; [eapply mid_mono; [|exact M3]; lia|]. eapply mid_mono; [|exact M4]. lia. }
  assert (HC4 : ClA b2 B env s2 g4) by (eapply Cl_same; [exact HC3|exact Hc4|exact Hf4|exact Ho4]).
  set (i4 := mkI OP_CALL_SELF []) in *.
  set (g4t := trc name a4 g4 i4).
  assert (HC4t : ClA b2 B env s2 g4t) by (apply Cl_trc; exact HC4).
  assert (Hi4' : nth_error code (a_ip a4) = Some i4) by (cbn [a4 upd set_ip a_ip]; atp Hi4).
  assert (Hcb4 : a_cb a4 = cb).
  { unfold mid, rest in M3. destruct M3 as (_ & _ & _ & (_ & _ & A3) & _). cbn [a4 upd set_ip set_ops a_cb]. congruence. }
  assert (Hx : exec_d DCallSelf a4 g4t = SCall name cb ws (set_ops a4 []) g4t).
  { unfold exec_d. rewrite (cl_cf _ _ _ _ _ _ _ _ _ _ _ _ _ HC4t). cbn [a4 upd set_ip set_ops a_ops]. now rewrite <- Hcb4. }
  assert (Hfin : S (a_ip a4) = kp + (la + (na + 1))) by (cbn [a4 upd set_ip a_ip]; lia).
  (* the callee *)
  pose proof (Hcall fuel ltac:(lia) b2 s2 g4t pk kd ps body cenv name cb vs ws
                (cl_heap _ _ _ _ _ _ _ _ _ _ _ _ _ HC4t) (cl_out _ _ _ _ _ _ _ _ _ _ _ _ _ HC4t) (cl_nd _ _ _ _ _ _ _ _ _ _ _ _ _ HC4t)
                Hclos Hvs) as Hcal.
  destruct (call_clos_ fuel (RClos ps body cenv) vs s2) as [v s3|s3|flr s3|]; cbn [eres_ok]; [| | |exact Logic.I].
  - destruct Hcal as (fuel' & g6 & b3 & w & Hrun & He3 & Hh3 & Hv3 & Hf6 & Ho6 & Hk6 & Hl6).
    apply (eres_val b B env s d _ a g kd v s3 (next_act (set_ops a4 []) (Some w)) g6 b3 w);
      [|unfold next_act; cbn [set_ip a_ip set_ops]; exact Hfin|reflexivity|
       eapply Cl_after; [exact HC4t|exact (proj1 He3)|exact Hh3|exact Hf6|exact Ho6]|exact Hv3].
    eapply mid_trans; [exact M04|]. unfold mid, rest.
    split; [eapply xr_call; [exact Hi4'|reflexivity|exact Hx|exact Hrun|apply xr_refl]|].
    split; [exact He3|]. split; [now rewrite Hf6|]. split; [repeat split|]. split; [reflexivity|].
    split; [exact Hk6|]. split; [apply fkeep_same; exact Hf6|exact Hl6].
  - destruct Hcal as (Hrn & fuel' & g6 & b3 & Hrun & He3 & Hh3 & Hf6 & Ho6 & Hk6 & Hl6).
    split; [exact Hrn|]. exists (next_act (set_ops a4 []) None), g6, b3.
    assert (M6 : mid b2 d s2 a4 g4 b3 s3 (next_act (set_ops a4 []) None) g6).
    { unfold mid, rest.
      split; [eapply xr_call; [exact Hi4'|reflexivity|exact Hx|exact Hrun|apply xr_refl]|].
      split; [exact He3|]. split; [now rewrite Hf6|]. split; [repeat split|]. split; [reflexivity|].
      split; [exact Hk6|]. split; [apply fkeep_same; exact Hf6|exact Hl6]. }
    pose proof (mid_trans _ _ _ _ _ _ _ _ _ _ _ _ _ M04 M6) as M. unfold mid in M. destruct M as (R & E & Hr).
    split; [exact R|]. split; [unfold next_act; cbn [set_ip a_ip set_ops]; exact Hfin|]. split; [reflexivity|].
    split; [exact E|]. split; [eapply Cl_after; [exact HC4t|exact (proj1 He3)|exact Hh3|exact Hf6|exact Ho6]|exact Hr].
  - eapply fail_post_map; [|exact Hcal]. intros (fuel' & e0 & g6 & Hrun & Hr & Ho6). exists e0, g6.
    split; [|split; assumption]. unfold mid in M04. exists a4, g4. split; [exact (proj1 M04)|]. right.
    exists i4, DCallSelf, name, cb, ws, (set_ops a4 []), g4t, fuel'. auto.
Qed.

Theorem espec_all : forall e, espec e.
Proof.
  apply (expr_ind' espec (fun _ => True)); try (intros; exact Logic.I).
  all: try (unfold espec; intros;
            match goal with Hk : kexpr SF ?B0 CD ?e0 = Some ?kd |- _ =>
              rewrite kexpr_eq in Hk; destruct (ok_dexpr B0 CD e0) eqn:Ho;
              [injection Hk as <-; eapply espec_data; eassumption|discriminate] end).
  - (* EVar *)
    intros x b B d lr k0 fuel kp a g env s kd Hfu Hk Hb Hinst Hd Hc Hend Hip Hcb Hops HC.
    rewrite kexpr_eq in Hk. destruct (ok_dexpr B CD (EVar x)) eqn:Ho.
    { inversion Hk; subst kd. exact (espec_data _ b B d lr k0 fuel kp a g env s Ho Hb Hd Hc Hend Hip Hcb Hops HC). }
    destruct (src_nameb x); [|discriminate].
    exact (espec_var x b B d fuel kp a g env s kd Hk Hb Hc Hend Hip Hcb Hops HC).
  - exact espec_bin.
  - intros ea eb IHa IHb. exact (espec_logic false ea eb IHa IHb).
  - intros ea eb IHa IHb. exact (espec_logic true ea eb IHa IHb).
  - exact espec_not.
  - exact espec_neg.
  - (* ECall *)
    intros f l _ IHl. destruct f as [| | | |g0| | | | | | | | | |];
      try (intros bb BB dd lrr kk0 fuell kpp aa gg envv ss kdd Hfu Hk; rewrite kexpr_eq in Hk;
           match type of Hk with (if ok_dexpr ?B0 ?C0 ?e0 then _ else _) = _ => destruct (ok_dexpr B0 C0 e0) eqn:Ho end;
           [apply ok_dexpr_pure in Ho; discriminate|cbv beta iota in Hk; discriminate]).
    exact (espec_call g0 l IHl).
  - exact espec_self.
  - (* EFn *)
    intros ps body _ b B d lr k0 fuel kp a g env s kd Hfu Hk Hb Hinst Hd Hc Hend Hip Hcb Hops HC.
    exact (espec_fn ps body b B d lr k0 fuel kp a g env s kd Hk Hb Hinst Hc Hend Hip Hcb Hops HC).
  - exact espec_nilor.
  - intros ea sp IHa. exact (espec_get ea sp IHa).
Qed.

(* ---------------------------------------------------------------- a call-free expression over data variables (locals of B, captured
   ones that no local shadows), evaluated by the
   reference semantics in another environment that finds the same cells for them (the step of a from loop: the VM is
   still inside the frame of the body, the reference semantics has left its scope) *)
Definition lsc (env : fenv) (B : kctx) : scope :=
  map (fun p => (fst p, match lookup_scopes (fst p) (locals env) with Some c => c | None => 0%N end)) B.
Lemma assoc_lsc : forall env B x, assoc x (lsc env B) =
  match assoc x B with Some _ => Some (match lookup_scopes x (locals env) with Some c => c | None => 0%N end) | None => None end.
Proof.
  intros env B x. unfold lsc. induction B as [|[y ky] t IH]; [reflexivity|]. cbn [map fst assoc].
  destruct (str_eqb y x) eqn:E; [apply str_eqb_iff in E; subst y; reflexivity|exact IH].
Qed.

Lemma ok_dexpr_uname : forall B e x, ok_dexpr B CD e = true -> In x (used_e e) -> uname0 x.
Proof.
  intros B e x H Hx. unfold ok_dexpr in H. rewrite !andb_true_iff in H. destruct H as [_ Hu]. rewrite forallb_forall in Hu.
  specialize (Hu x Hx). apply andb_true_iff in Hu as [Hs _]. exact (src_nameb_ok x Hs).
Qed.
Lemma step_free_ok : forall B body e x, step_free B body e = true -> In x (used_e e) -> assoc x B = None -> ~ In x (asgl body).
Proof.
  intros B body e x H Hx EB. unfold step_free in H. rewrite forallb_forall in H. specialize (H x Hx). apply orb_true_iff in H as [H|H].
  - apply mem_str_In in H. exfalso. exact (In_keys_assoc _ B x H EB).
  - intros Hi. apply In_mem_str in Hi. rewrite Hi in H. discriminate.
Qed.
(* the captured data variables no local of env shadows *)
Definition cfree (env : fenv) : scope :=
  filter (fun p => match lookup_scopes (fst p) (locals env) with None => true | Some _ => false end) (capsc env).
Lemma assoc_filter_key : forall (f : str -> bool) (l : scope) x, assoc x (filter (fun p => f (fst p)) l) = if f x then assoc x l else None.
Proof.
  intros f l x. induction l as [|[y cy] t IH]; [now destruct (f x)|]. cbn [filter fst]. destruct (f y) eqn:Ey; cbn [assoc].
  - destruct (str_eqb y x) eqn:E; [apply str_eqb_iff in E; subst y; now rewrite Ey|exact IH].
  - rewrite IH. destruct (str_eqb y x) eqn:E; [apply str_eqb_iff in E; subst y; now rewrite Ey|reflexivity].
Qed.
Lemma assoc_cfree : forall env x, assoc x (cfree env) =
  match lookup_scopes x (locals env) with None => assoc x (capsc env) | Some _ => None end.
Proof.
  intros env x. unfold cfree.
  rewrite (assoc_filter_key (fun y => match lookup_scopes y (locals env) with None => true | Some _ => false end)).
  now destruct (lookup_scopes x (locals env)).
Qed.

Lemma lexpr_run : forall b B e d fuel k a g env envE s,
  ok_dexpr B CD e = true ->
  (forall x c, assoc x B <> None -> lookup_scopes x (locals env) = Some c -> lookup_scopes x (locals envE ++ captured envE) = Some c) ->
  (forall x, In x (used_e e) -> assoc x B = None -> lookup_scopes x (locals env) = None /\ lookup_scopes x (locals envE) = None) ->
  captured envE = captured env ->
  d <= c0 + length code + 2 ->
  code_at code k (pcode d e) -> k + length (pcode d e) < length code ->
  a_ip a = k -> a_ops a = [] -> a_cb a = cb -> ClA b B env s g ->
  match eval fuel envE e s with
  | EVal v s' => s' = s /\ first_order v /\
                 exists g', xrun prog name code a g (upd a (k + length (pcode d e)) [inj v]) g' /\ ClA b B env s g' /\
                            ExprSim.ext d k (k + length (pcode d e)) g g'
  | EFail f s' => s' = s /\ exists e0 g', xfail prog name code a g e0 g' /\ err_rel f e0 /\ out g' = rout s
  | EFuel => True
  | ENoVal _ => False
  end.
Proof.
  intros b B e d fuel k a g env envE s Hok HE HN Hcap Hd Hc Hend Hip Hops Hacb HR.
  destruct (ok_dexpr_parts B e Hok) as (Hp & Hl & Hu).
  set (env0 := {| locals := [lsc env B]; captured := [cfree env]; cur := cur env |}).
  assert (Hvc : forall x, In x (used_e e) -> exists c v, lookup_scopes x (locals env0 ++ captured env0) = Some c /\ sget s c = Some v /\ first_order v /\
                  lookup_scopes x (locals envE ++ captured envE) = Some c).
  { intros x Hx. destruct (Hu x Hx) as [Hsx Hk]. unfold kvar in Hk. cbn [env0 locals captured app lookup_scopes]. rewrite assoc_lsc.
    destruct (assoc x B) as [kx|] eqn:EB.
    - inversion Hk; subst kx.
      destruct (cl_B _ _ _ _ _ _ _ _ _ _ _ _ _ HR x KD EB) as (_ & c & c' & A1 & A2 & A3).
      destruct (proj1 (cl_heap _ _ _ _ _ _ _ _ _ _ _ _ _ HR) _ _ _ A3) as (v & w & E1 & E2 & [Hfo ->]).
      exists c, v. rewrite A1. split; [reflexivity|]. split; [exact E1|]. split; [exact Hfo|]. apply (HE x c); [congruence|exact A1].
    - destruct (HN x Hx EB) as [N1 N2].
      destruct (cl_cap _ _ _ _ _ _ _ _ _ _ _ _ _ HR x KD Hk) as (_ & c & c' & A1 & A2 & A3).
      destruct (proj1 (cl_heap _ _ _ _ _ _ _ _ _ _ _ _ _ HR) _ _ _ A3) as (v & w & E1 & E2 & [Hfo ->]).
      exists c, v. rewrite assoc_cfree, N1, assoc_capsc, Hk, A1. split; [reflexivity|]. split; [exact E1|]. split; [exact Hfo|].
      rewrite lookup_app_split, N2, Hcap. exact A1. }
  assert (Hv : forall x, In x (used_e e) -> var_ok env0 s x).
  { intros x Hx. destruct (Hvc x Hx) as (c & v & E1 & E2 & Hfo & _). split; [exact (proj1 (Hu x Hx))|]. exists c, v. auto. }
  assert (Hag : forall x, In x (used_e e) -> agree env0 s envE s x).
  { intros x Hx. destruct (Hvc x Hx) as (c & v & E1 & E2 & _ & E4). exists c, c, v. auto. }
  destruct (eval_pure_congr e Hp fuel env0 s envE s Hag) as [Hst0 Ecg]. rewrite Ecg.
  assert (Hsm : small (d + length (pcode d e) + 3)) by (eapply small_le; [|exact Hsmall]; lia).
  assert (Hfr : frames g <> []) by exact (proj2 (Rfr2_ne _ _ _ _ (cl_fr _ _ _ _ _ _ _ _ _ _ _ _ _ HR))).
  assert (HRenv : Renv env0 s a g).
  { intros x c v Hsx Hlk Hg Hfo. cbn [env0 locals captured app lookup_scopes] in Hlk. rewrite assoc_lsc in Hlk.
    destruct (assoc x B) as [kx|] eqn:EB.
    - destruct (cl_B _ _ _ _ _ _ _ _ _ _ _ _ _ HR x kx EB) as (_ & c1 & c' & A1 & A2 & A3). rewrite A1 in Hlk. inversion Hlk; subst c1.
      destruct (proj1 (cl_heap _ _ _ _ _ _ _ _ _ _ _ _ _ HR) _ _ _ A3) as (v0 & w & E1 & E2 & E3). rewrite Hg in E1. inversion E1; subst v0.
      exists c'. split; [unfold lookup_var; now rewrite A2|]. destruct kx as [|pk r|].
      + destruct E3 as [_ ->]. exact E2.
      + destruct E3 as (ps & body & cenv & loc & cb0 & -> & _). destruct Hfo.
      + destruct E3 as [_ ->]. exact E2.
    - rewrite assoc_cfree in Hlk. destruct (lookup_scopes x (locals env)) as [c1|] eqn:E1l; [discriminate|].
      rewrite assoc_capsc in Hlk. destruct (assoc x CD) as [kx|] eqn:Ek; [|discriminate].
      destruct (cl_cap _ _ _ _ _ _ _ _ _ _ _ _ _ HR x kx Ek) as (Hx & c2 & c' & A1 & A2 & A3). rewrite A1 in Hlk. inversion Hlk; subst c2.
      pose proof (Rfr2_look _ _ _ _ (cl_fr _ _ _ _ _ _ _ _ _ _ _ _ _ HR) x Hx) as Hlk2. rewrite E1l in Hlk2.
      destruct (find_in_function x (frames g)) as [cz|] eqn:E2; [exfalso; apply Hlk2; apply HPcd; congruence|].
      destruct (proj1 (cl_heap _ _ _ _ _ _ _ _ _ _ _ _ _ HR) _ _ _ A3) as (v0 & w & B1 & B2 & B3). rewrite Hg in B1. inversion B1; subst v0.
      exists c'. split; [unfold lookup_var, load_cb; rewrite E2, Hacb; exact A2|]. destruct kx as [|pk r|].
      + destruct B3 as [_ ->]. exact B2.
      + destruct B3 as (ps & body & cenv & loc & cb0 & -> & _). destruct Hfo.
      + destruct B3 as [_ ->]. exact B2. }
  pose proof (sim_pure name code e Hp d fuel k a g env0 s Hl Hv Hsm Hc Hend Hip Hops Hfr HRenv) as H.
  destruct (eval fuel env0 e s) as [v s1|s1|f s1|]; cbn [sim_post res_to] in H |- *; [|contradiction| |exact Logic.I].
  - destruct H as (-> & Hfo & g' & R). split; [reflexivity|]. split; [exact Hfo|]. exists g'. split.
    + eapply run_ok_xrun. exact R.
    + split; [eapply Cl_ext; [exact HR|exact (proj2 R)|]|exact (proj2 R)].
      eapply xreach_nd; [apply reaches_xreach_running; exact (proj1 R)|exact (cl_nd _ _ _ _ _ _ _ _ _ _ _ _ _ HR)].
  - destruct H as (-> & e0 & g' & R & Hr & He). split; [reflexivity|]. exists e0, g'. split; [|split].
    + now apply reaches_xfail.
    + exact Hr.
    + rewrite (ext_out _ _ _ _ _ He). exact (cl_out _ _ _ _ _ _ _ _ _ _ _ _ _ HR).
Qed.

(* ================================================================ statements *)
(* between statements the VM binds a name only if the reference semantics does *)
Hypothesis HPall : forall x, P x.
(* the upper bound of a `from` loop with a named counter x: the VM has bound x already, the reference semantics has not (the bound does
   not mention x: x is left out of the captured context CD'); this is espec_all for the relation that leaves x out (ghost_all) *)
Definition ghost_spec : Prop :=
  forall CD' x eb, assoc x CD' = None -> uname0 x ->
  forall b B d lr k0 fuel kp a g env s,
    fuel <= FU -> kexpr SF B CD' eb = Some KD -> bound2 B env ->
    installed (snd (ec path d lr k0 eb)) ->
    d + length (fst (ec path d lr k0 eb)) <= c0 + length code + 2 ->
    code_at code kp (fst (ec path d lr k0 eb)) -> kp + length (fst (ec path d lr k0 eb)) < length code ->
    a_ip a = kp -> a_cb a = cb -> a_ops a = [] -> Cl path prog (fun y => y <> x) cb CD' base name SF b B env s g ->
    match eval fuel env eb s with
    | EVal v s' => exists a' g' b' w, xrun prog name code a g a' g' /\ a_ip a' = kp + length (fst (ec path d lr k0 eb)) /\ a_ops a' = [w] /\
          bext b b' s g /\ Cl path prog (fun y => y <> x) cb CD' base name SF b' B env s' g' /\ vrel b' KD v w /\ rest b d s s' a g a' g'
    | ENoVal s' => False
    | EFail f s' => fail_post f (exists e0 g', xfail prog name code a g e0 g' /\ err_rel_s f e0 /\ out g' = rout s')
    | EFuel => True
    end.
Hypothesis Hghost : ghost_spec.
Definition smid (b0 : cinj) (s0 : rstate) (a0 : act) (g0 : gstate) (b : cinj) (s : rstate) (a : act) (g : gstate) : Prop :=
  xrun prog name code a0 g0 a g /\ bext b0 b s0 g0 /\ tl (frames g) = tl (frames g0) /\ act_same a0 a /\ a_ss a0 <= a_ss a /\
  keep b0 g0 g /\ lens s0 s g0 g.
Lemma smid_of_mid : forall b0 d s0 a0 g0 b s a g, mid b0 d s0 a0 g0 b s a g -> smid b0 s0 a0 g0 b s a g.
Proof. unfold mid, rest, smid. intros b0 d s0 a0 g0 b s a g (R & E & T & A & S & K & F & L). rewrite S. auto 8. Qed.
Lemma smid_refl : forall b s a g, smid b s a g b s a g.
Proof. intros. eapply smid_of_mid. apply (mid_refl b 0). Qed.
Lemma smid_trans : forall b0 s0 a0 g0 b1 s1 a1 g1 b2 s2 a2 g2,
  smid b0 s0 a0 g0 b1 s1 a1 g1 -> smid b1 s1 a1 g1 b2 s2 a2 g2 -> smid b0 s0 a0 g0 b2 s2 a2 g2.
Proof.
  unfold smid. intros b0 s0 a0 g0 b1 s1 a1 g1 b2 s2 a2 g2 (R1 & E1 & T1 & A1 & S1 & K1 & L1) (R2 & E2 & T2 & A2 & S2 & K2 & L2).
  split; [eapply xrun_trans; eassumption|]. split; [eapply bext_trans; [exact E1|exact E2|exact (proj1 L1)|exact (proj2 L1)]|].
  split; [congruence|]. split; [eapply act_same_trans; eassumption|]. split; [lia|].
  split; [eapply keep_trans; eassumption|eapply lens_trans; eassumption].
Qed.
Lemma smid_fail : forall b0 s0 a0 g0 b s a g e g', smid b0 s0 a0 g0 b s a g -> xfail prog name code a g e g' ->
  xfail prog name code a0 g0 e g'.
Proof. unfold smid. intros b0 s0 a0 g0 b s a g e g' (R & _) Hf. eapply xrun_fail; eassumption. Qed.
Lemma smid_same : forall b s a g a' g', xrun prog name code a g a' g' -> frames g' = frames g -> cells g' = cells g ->
  act_same a a' -> a_ss a' = a_ss a -> smid b s a g b s a' g'.
Proof. intros. eapply smid_of_mid. apply (mid_same b 0); assumption. Qed.

(* progress up to a jump out of nested blocks (break / continue): the block frames are gone *)
Definition jmid (b0 : cinj) (s0 : rstate) (a0 : act) (g0 : gstate) (b : cinj) (s : rstate) (a : act) (g : gstate) : Prop :=
  xrun prog name code a0 g0 a g /\ bext b0 b s0 g0 /\ act_same a0 a /\ a_ss a0 <= a_ss a /\ keep b0 g0 g /\ lens s0 s g0 g.
Lemma jmid_of_smid : forall b0 s0 a0 g0 b s a g, smid b0 s0 a0 g0 b s a g -> jmid b0 s0 a0 g0 b s a g.
Proof. unfold smid, jmid. intros b0 s0 a0 g0 b s a g (R & E & T & A & S & K & L). auto 8. Qed.
Lemma jmid_trans : forall b0 s0 a0 g0 b1 s1 a1 g1 b2 s2 a2 g2,
  jmid b0 s0 a0 g0 b1 s1 a1 g1 -> jmid b1 s1 a1 g1 b2 s2 a2 g2 -> jmid b0 s0 a0 g0 b2 s2 a2 g2.
Proof.
  unfold jmid. intros b0 s0 a0 g0 b1 s1 a1 g1 b2 s2 a2 g2 (R1 & E1 & A1 & S1 & K1 & L1) (R2 & E2 & A2 & S2 & K2 & L2).
  split; [eapply xrun_trans; eassumption|]. split; [eapply bext_trans; [exact E1|exact E2|exact (proj1 L1)|exact (proj2 L1)]|].
  split; [eapply act_same_trans; eassumption|]. split; [lia|].
  split; [eapply keep_trans; eassumption|eapply lens_trans; eassumption].
Qed.
Lemma jmid_fail : forall b0 s0 a0 g0 b s a g e g', jmid b0 s0 a0 g0 b s a g -> xfail prog name code a g e g' ->
  xfail prog name code a0 g0 e g'.
Proof. unfold jmid. intros b0 s0 a0 g0 b s a g e g' (R & _) Hf. eapply xrun_fail; eassumption. Qed.

Lemma keep_cell_set : forall (b : cinj) g c c' k w, b c c' k -> keep b g (cell_set g c' w).
Proof.
  intros b g c c' k w Hb d w0 Hd Hn. unfold cell_get, cell_set in *. cbn [cells].
  rewrite nth_error_set_nth_other; [exact Hd|]. intros E. apply N2Nat.inj in E. subst d. exact (Hn c k Hb).
Qed.

Lemma skipn_tl : forall A m (l : list A), skipn (S m) l = skipn m (tl l).
Proof. intros A m [|x l]; [now destruct m|reflexivity]. Qed.
Lemma skipn_tl_eq : forall A m (l l' : list A), 1 <= m -> tl l = tl l' -> skipn m l = skipn m l'.
Proof. intros A [|m] l l' Hm E; [lia|]. now rewrite !skipn_tl, E. Qed.

(* inside a loop: sl = Some m, m = block frames to pop on `break` (m-1 on `continue`); the targets lie ahead *)
Definition lcok (il : bool) (sl : option nat) (bt ct : nat) (env : fenv) (hi : nat) : Prop :=
  (il = true -> sl <> None) /\
  forall m, sl = Some m -> 1 <= m /\ m < length (locals env) /\ hi <= ct /\ ct <= bt /\ bt < length code /\ m + hi <= length code.
Lemma lcok_mono : forall il sl bt ct env env' hi hi', lcok il sl bt ct env hi -> hi' <= hi ->
  length (locals env') = length (locals env) -> lcok il sl bt ct env' hi'.
Proof.
  intros il sl bt ct env env' hi hi' [H1 H2] Hle El. split; [exact H1|]. intros m Hm. destruct (H2 m Hm) as (A1 & A2 & A3 & A4 & A5 & A6).
  rewrite El. repeat split; lia.
Qed.
Lemma lcok_block : forall il sl bt ct env hi hi', lcok il sl bt ct env hi -> S hi' <= hi ->
  lcok il (option_map S sl) bt ct (push_scope env) hi'.
Proof.
  intros il sl bt ct env hi hi' [H1 H2] Hle. split.
  - intros Hil. specialize (H1 Hil). destruct sl; [discriminate|congruence].
  - intros m' Hm'. destruct sl as [m|]; [|discriminate]. cbn [option_map] in Hm'. inversion Hm'; subst m'.
    destruct (H2 m eq_refl) as (A1 & A2 & A3 & A4 & A5 & A6). cbn [push_scope locals length]. repeat split; lia.
Qed.

(* the loop registers L#1 .. L#(lr + 2 * nesting) have names the decimal codec tells apart *)
Definition lrok (lr kp : nat) : Prop := small (lr + 2 * (length code - kp) + 4).
Lemma lrok_mono : forall lr kp lr' kp', lrok lr kp -> lr' + 2 * (length code - kp') <= lr + 2 * (length code - kp) -> lrok lr' kp'.
Proof. unfold lrok. intros lr kp lr' kp' H Hle. eapply small_le; [|exact H]. lia. Qed.

Definition spost (b : cinj) (B' : kctx) (rets : list kind) (lr : nat) (sl : option nat) (bt ct fin : nat) (env : fenv) (s : rstate)
           (a : act) (g : gstate) (r : sres_) : Prop :=
  match r with
  | SOk sig env' s' =>
    same_tl env env' /\
    match sig with
    | SigNormal => bound2 B' env' /\
        exists a' g' b', smid b s a g b' s' a' g' /\ a_ip a' = fin /\ a_ops a' = [] /\ ClA b' B' env' s' g' /\
          lkeep lr (frames g) (frames g')
    | SigBreak => exists m a' g' b', sl = Some m /\ 1 <= m /\
        jmid b s a g b' s' a' g' /\ a_ip a' = bt /\ a_ops a' = [] /\ ClA b' [] (popn m env') s' g' /\
        frames g' = skipn m (frames g)
    | SigContinue => exists m a' g' b', sl = Some m /\ 1 <= m /\
        jmid b s a g b' s' a' g' /\ a_ip a' = ct /\ a_ops a' = [] /\ ClA b' [] (popn (m - 1) env') s' g' /\
        tl (frames g') = skipn m (frames g) /\ lkeep lr (skipn (m - 1) (frames g)) (frames g')
    | SigReturn (Some v) => exists a' g' b' w k,
        xrun prog name code a g a' g' /\ nth_error code (a_ip a') = Some (mkI OP_RET []) /\ a_ops a' = [w] /\
        bext b b' s g /\ heap_ok b' s' g' /\ vrel b' k v w /\ In k rets /\ out g' = rout s' /\
        drop_to_function (frames g') = base /\ keep b g g' /\ lens s s' g g'
    | SigReturn None => exists a' g' b',
        xrun prog name code a g a' g' /\ nth_error code (a_ip a') = Some (mkI OP_RET []) /\ a_ops a' = [] /\
        bext b b' s g /\ heap_ok b' s' g' /\ In KN rets /\ out g' = rout s' /\
        drop_to_function (frames g') = base /\ keep b g g' /\ lens s s' g g'
    end
  | SFailed f s' => fail_post f (exists e g', xfail prog name code a g e g' /\ err_rel_s f e /\ out g' = rout s')
  | SFuel => True
  end.

Definition sspec (st : stmt) : Prop :=
  forall b B lr il sl bt ct k0 fuel kp a g env s B' rets,
    fuel <= FU -> kstmt SF il B CD st = Some (B', rets) -> bound2 B env -> installed (snd (sc path c0 lr sl k0 st)) ->
    items_at code bt ct kp (fst (sc path c0 lr sl k0 st)) -> endok code (kp + length (fst (sc path c0 lr sl k0 st))) (isret st) ->
    lcok il sl bt ct env (kp + length (fst (sc path c0 lr sl k0 st))) -> lrok lr kp ->
    a_ip a = kp -> a_cb a = cb -> a_ops a = [] -> length (locals env) <= S (a_ss a) -> ClA b B env s g ->
    spost b B' rets lr sl bt ct (kp + length (fst (sc path c0 lr sl k0 st))) env s a g (Eval.exec fuel env st s).
Definition bspec (l : list stmt) : Prop :=
  forall b B lr il sl bt ct k0 fuel kp a g env s B' rets,
    fuel <= FU -> kblock SF il B CD l = Some (B', rets) -> bound2 B env -> installed (snd (bc path c0 lr sl k0 l)) ->
    items_at code bt ct kp (fst (bc path c0 lr sl k0 l)) -> endok code (kp + length (fst (bc path c0 lr sl k0 l))) (endsret l) ->
    lcok il sl bt ct env (kp + length (fst (bc path c0 lr sl k0 l))) -> lrok lr kp ->
    a_ip a = kp -> a_cb a = cb -> a_ops a = [] -> length (locals env) <= S (a_ss a) -> ClA b B env s g ->
    spost b B' rets lr sl bt ct (kp + length (fst (bc path c0 lr sl k0 l))) env s a g (exec_block fuel env l s).

(* the loop registers: expression code and the binding of a user name leave them alone *)
Lemma lk_mid : forall lr b d s a g b1 s1 a1 g1, mid b d s a g b1 s1 a1 g1 -> lkeep lr (frames g) (frames g1).
Proof.
  unfold mid, rest. intros lr b d s a g b1 s1 a1 g1 (_ & _ & _ & _ & _ & _ & F & _) j _. refine (proj1 (F _ _)).
  intros (k & _ & _ & E). exact (lregn_not_reg _ _ E).
Qed.
Lemma lk_bind : forall lr f fs x c, (forall j, x <> lregn j) -> lkeep lr (f :: fs) ({| lab := lab f; vars := assoc_set x c (vars f) |} :: fs).
Proof. intros lr f fs x c Hx j _. cbn [find_in_function vars lab]. rewrite assoc_set_other; [reflexivity|]. intros E. exact (Hx j (eq_sym E)). Qed.
Lemma uname0_not_lregn : forall x j, uname0 x -> x <> lregn j.
Proof. intros x j Hx ->. exact (lregn_not_uname0 j Hx). Qed.
Lemma lkeep_skipn : forall lr m l l', tl l' = tl l -> lkeep lr l l' -> lkeep lr (skipn m l) (skipn m l').
Proof. intros lr [|m] l l' Ht Hk; [exact Hk|]. apply lkeep_eq. now rewrite !skipn_tl, Ht. Qed.

Lemma spost_fail_e : forall b B' rets lr sl bt ct fin env s a g f s' e0 g',
  xfail prog name code a g e0 g' -> err_rel_s f e0 -> out g' = rout s' -> spost b B' rets lr sl bt ct fin env s a g (SFailed f s').
Proof. intros. cbn [spost]. apply fail_post_intro. eauto. Qed.

(* the statement starts after the machine has made some progress *)
Lemma spost_seq : forall b B' rets lr sl bt ct fin env s a g b1 env1 s1 a1 g1 r,
  smid b s a g b1 s1 a1 g1 -> lkeep lr (frames g) (frames g1) -> same_tl env env1 ->
  spost b1 B' rets lr sl bt ct fin env1 s1 a1 g1 r -> spost b B' rets lr sl bt ct fin env s a g r.
Proof.
  intros b B' rets lr sl bt ct fin env s a g b1 env1 s1 a1 g1 r M LK Hd H.
  assert (HT : tl (frames g1) = tl (frames g)) by (unfold smid in M; exact (proj1 (proj2 (proj2 M)))).
  destruct r as [sig env' s'|f s'|]; cbn [spost] in *; [| |exact Logic.I].
  - destruct H as [Hd' H]. split; [eapply same_tl_trans; eassumption|].
    destruct sig as [| | |[v|]].
    + destruct H as (HB & a' & g' & b' & M' & Hip & Hops & HC & LK'). split; [exact HB|]. exists a', g', b'.
      split; [eapply smid_trans; eassumption|]. split; [exact Hip|]. split; [exact Hops|]. split; [exact HC|eapply lkeep_trans; eassumption].
    + destruct H as (m & a' & g' & b' & Hsl & Hm & J & Hip & Hops & HC & Hf). exists m, a', g', b'.
      split; [exact Hsl|]. split; [exact Hm|]. split; [eapply jmid_trans; [apply jmid_of_smid; exact M|exact J]|].
      split; [exact Hip|]. split; [exact Hops|]. split; [exact HC|]. rewrite Hf. apply skipn_tl_eq; [exact Hm|exact HT].
    + destruct H as (m & a' & g' & b' & Hsl & Hm & J & Hip & Hops & HC & Hf & LK'). exists m, a', g', b'.
      split; [exact Hsl|]. split; [exact Hm|]. split; [eapply jmid_trans; [apply jmid_of_smid; exact M|exact J]|].
      split; [exact Hip|]. split; [exact Hops|]. split; [exact HC|]. split; [rewrite Hf; apply skipn_tl_eq; [exact Hm|exact HT]|].
      eapply lkeep_trans; [apply lkeep_skipn; [exact HT|exact LK]|exact LK'].
    + destruct H as (a' & g' & b' & w & k & R & Hi & Hops & E & Hh & Hv & Hk & Ho & Hdr & K & L).
      unfold smid in M. destruct M as (R1 & E1 & T1 & A1 & S1 & K1 & L1).
      exists a', g', b', w, k. split; [eapply xrun_trans; eassumption|]. split; [exact Hi|]. split; [exact Hops|].
      split; [eapply bext_trans; [exact E1|exact E|exact (proj1 L1)|exact (proj2 L1)]|]. split; [exact Hh|]. split; [exact Hv|].
      split; [exact Hk|]. split; [exact Ho|]. split; [exact Hdr|]. split; [eapply keep_trans; eassumption|eapply lens_trans; eassumption].
    + destruct H as (a' & g' & b' & R & Hi & Hops & E & Hh & Hk & Ho & Hdr & K & L).
      unfold smid in M. destruct M as (R1 & E1 & T1 & A1 & S1 & K1 & L1).
      exists a', g', b'. split; [eapply xrun_trans; eassumption|]. split; [exact Hi|]. split; [exact Hops|].
      split; [eapply bext_trans; [exact E1|exact E|exact (proj1 L1)|exact (proj2 L1)]|]. split; [exact Hh|].
      split; [exact Hk|]. split; [exact Ho|]. split; [exact Hdr|]. split; [eapply keep_trans; eassumption|eapply lens_trans; eassumption].
  - eapply fail_post_map; [|exact H]. intros (e & g' & Hf & Hr). exists e, g'. split; [eapply smid_fail; eassumption|exact Hr].
Qed.

(* a result that is not a normal completion does not depend on the context afterwards / on the end of the code *)
Lemma spost_rets : forall b B' rets rets' lr sl bt ct fin env s a g r, (forall k, In k rets -> In k rets') ->
  (forall env' s', r <> SOk SigNormal env' s') -> spost b B' rets lr sl bt ct fin env s a g r ->
  forall B'' fin', spost b B'' rets' lr sl bt ct fin' env s a g r.
Proof.
  intros b B' rets rets' lr sl bt ct fin env s a g r Hin Hn H B'' fin'. destruct r as [sig env' s'|f s'|]; cbn [spost] in *; [|exact H|exact Logic.I].
  destruct H as [Hd H]. split; [exact Hd|]. destruct sig as [| | |[v|]].
  - exfalso. exact (Hn env' s' eq_refl).
  - exact H.
  - exact H.
  - destruct H as (a' & g' & b' & w & k & R & Hi & Hops & E & Hh & Hv & Hk & Hrest). exists a', g', b', w, k. auto 12.
  - destruct H as (a' & g' & b' & R & Hi & Hops & E & Hh & Hk & Hrest). exists a', g', b'. auto 12.
Qed.

(* ---------------------------------------------------------------- x = e *)
Lemma assign_sim : forall x e, sspec (SAssign x e).
Proof.
  intros x e b B lr il sl bt ct k0 fuel kp a g env s B' rets Hfu Hk Hb Hinst Hc Hend Hlc Hlrk Hip Hcb Hops Hss HC.
  destruct Hend as [Hend|[Hend _]]; [|discriminate Hend].
  cbn [kstmt] in Hk. destruct (src_nameb x) eqn:Hsx; [|discriminate].
  destruct (kexpr SF B CD e) as [k|] eqn:Ee; [|discriminate].
  destruct fuel as [|fuel]; [exact Logic.I|]. rewrite exec_SAssign.
  rewrite sc_Assign in *. destruct (ec path c0 lr k0 e) as [ce fe] eqn:Eec. cbn [fst snd] in *.
  rewrite app_length, map_length in *. cbn [length] in *.
  apply items_at_app in Hc as [Hce Hi]. apply items_at_CI in Hce. rewrite map_length in Hi. apply items_at_cons in Hi as [Hi _]. cbn [item_instr I] in Hi.
  pose proof (espec_all e b B c0 lr k0 fuel kp a g env s k ltac:(lia) Ee Hb) as He. rewrite Eec in He. cbn [fst snd] in He.
  specialize (He Hinst ltac:(lia) Hce ltac:(lia) Hip Hcb Hops HC).
  destruct (eval fuel env e s) as [v s1|s1|f s1|]; cbn [eres_ok spost] in He |- *; [|exact Logic.I|exact He|exact Logic.I].
  apply eres_val_inv in He. destruct He as (a1 & g1 & b1 & w & M1 & Hip1 & Hops1 & HC1 & Hv1).
  pose proof (smid_of_mid _ _ _ _ _ _ _ _ _ M1) as SM1.
  pose proof (src_nameb_ok x Hsx) as Hx.
  set (i1 := mkI OP_STORE [x]) in *.
  set (g1t := trc name a1 g1 i1).
  pose proof (Cl_trc b1 B env s1 g1 name a1 i1 HC1) as HC1t. fold g1t in HC1t.
  set (a2 := set_ip (set_ops a1 []) (S (a_ip a1))).
  assert (Hstep : forall g2, store_var g1t x w = Some g2 -> xrun prog name code a1 g1 a2 g2).
  { intros g2 Hst. eapply (xstep_next prog name code a1 g1 i1 _ (a_ip a1) (set_ops a1 [])); [reflexivity|rewrite Hip1; exact Hi|apply dec_store|].
    apply (exec_store x a1 g1t w g2); [exact Hops1|exact Hst]. }
  destruct (assoc x B) as [k'|] eqn:EB.
  - (* an existing variable *)
    destruct (kind_eqb k k') eqn:Ek; [|discriminate]. apply kind_eqb_eq in Ek. subst k'. inversion Hk; subst B' rets.
    destruct (cl_B _ _ _ _ _ _ _ _ _ _ _ _ _ HC1t x k EB) as (_ & c & c' & A1 & A2 & A3).
    unfold assign. rewrite A1.
    assert (Hst : store_var g1t x w = Some (cell_set g1t c' w)) by (unfold store_var; now rewrite A2).
    split; [apply same_tl_refl; exact (Cl_ne _ _ _ _ _ _ _ _ _ _ _ _ _ HC)|]. split; [exact Hb|].
    exists a2, (cell_set g1t c' w), b1. split; [|split; [cbn [a2 set_ip a_ip]; lia|split; [reflexivity|split; [|exact (lk_mid lr _ _ _ _ _ _ _ _ _ M1)]]]].
    + eapply smid_trans; [exact SM1|]. unfold smid. split; [exact (Hstep _ Hst)|]. split; [apply bext_refl|].
      split; [reflexivity|]. split; [repeat split|]. split; [reflexivity|].
      split; [change (keep b1 g1t (cell_set g1t c' w)); eapply keep_cell_set; exact A3|].
      split; [cbn [sset store]; rewrite set_nth_length; lia|cbn [cell_set cells g1t trc add_trace]; rewrite set_nth_length; lia].
    + eapply Cl_update; eassumption.
  - (* a new variable *)
    inversion Hk; subst B' rets.
    assert (Hn : lookup_scopes x (locals env) = None).
    { destruct (lookup_scopes x (locals env)) eqn:E; [|reflexivity]. exfalso.
      assert (Hin : In x (map fst B)) by (apply (bound2_in _ _ _ Hb (proj2 (proj2 Hx))); congruence).
      clear -EB Hin. induction B as [|[y ky] t IH]; [destruct Hin|]. cbn [assoc map fst In] in *.
      destruct (str_eqb y x) eqn:E; [discriminate|]. destruct Hin as [->|Hin]; [now rewrite str_eqb_refl in E|auto]. }
    assert (Hf : find_in_function x (frames g1t) = None).
    { pose proof (Rfr2_look _ _ _ _ (cl_fr _ _ _ _ _ _ _ _ _ _ _ _ _ HC1t) x Hx) as Hl. rewrite Hn in Hl.
      destruct (find_in_function x (frames g1t)); [exact (False_ind _ (Hl (HPall x)))|reflexivity]. }
    destruct (locals env) as [|sc l] eqn:El; [exact (False_ind _ (Cl_ne _ _ _ _ _ _ _ _ _ _ _ _ _ HC El))|].
    destruct (frames g1t) as [|f fs] eqn:Ef; [exact (False_ind _ (proj2 (Rfr2_ne _ _ _ _ (cl_fr _ _ _ _ _ _ _ _ _ _ _ _ _ HC1t)) Ef))|].
    destruct (Cl_declare path prog P cb CD base name SF b1 B env s1 g1t x k v w sc l f fs HC1t Hx Hv1 El Ef ltac:(rewrite El; exact Hn) EB (trace g1t))
      as [HC2 He2]. cbv zeta in HC2, He2.
    match type of HC2 with Cl _ _ _ _ _ _ _ _ _ _ ?E ?S ?G => set (env' := E) in *; set (s' := S) in *; set (g2 := G) in * end.
    assert (Eas : assign env s1 x v = (env', s')).
    { unfold assign. rewrite El, Hn. unfold declare, alloc. rewrite El. reflexivity. }
    rewrite Eas.
    assert (Hst : store_var g1t x w = Some g2).
    { unfold store_var. rewrite Ef, Hf. unfold bind_local. rewrite Ef. reflexivity. }
    split; [split; [cbn [env' locals tl]; rewrite El; reflexivity|cbn [env' locals]; discriminate]|]. split.
    { eapply (bound2_declare B env x k _ sc l env' Hb El); [reflexivity|exact Hx]. }
    exists a2, g2, (add_pair b1 (N.of_nat (length (store s1))) (N.of_nat (length (cells g1t))) k).
    split; [|split; [cbn [a2 set_ip a_ip]; lia|split; [reflexivity|split; [exact HC2|]]]].
    2:{ eapply lkeep_trans; [exact (lk_mid lr _ _ _ _ _ _ _ _ _ M1)|]. change (frames g1) with (frames g1t). rewrite Ef. cbn [g2 frames].
        apply lk_bind. intros j. apply uname0_not_lregn. exact Hx. }
    eapply smid_trans; [exact SM1|]. unfold smid. split; [exact (Hstep _ Hst)|]. split; [exact He2|].
    split; [cbn [g2 frames tl]; change (frames g1) with (frames g1t); now rewrite Ef|]. split; [repeat split|]. split; [reflexivity|].
    split; [apply (keep_cells_app _ _ _ [w]); reflexivity|].
    split; [cbn [s' store]; rewrite app_length; lia|cbn [g2 cells g1t trc add_trace]; rewrite app_length; lia].
Qed.

(* ---------------------------------------------------------------- modify x = e : a write through the captured cell *)
Lemma exec_SModify : forall fuel env x e s, Eval.exec (S fuel) env (SModify x e) s =
  match eval fuel env e s with
  | EVal v s => match lookup_scopes x (captured env) with
                | Some c => SOk SigNormal env (sset s c v) | None => SFailed (FUnbound x) s end
  | ENoVal s => SFailed (FType 3) s | EFail f s => SFailed f s | EFuel => SFuel end.
Proof. reflexivity. Qed.
Lemma dec_store_object : forall x, decode (mkI OP_STORE_OBJECT [x]) = DOk (DStoreObject x).
Proof. reflexivity. Qed.

Lemma modify_sim : forall x e, sspec (SModify x e).
Proof.
  intros x e b B lr il sl bt ct k0 fuel kp a g env s B' rets Hfu Hk Hb Hinst Hc Hend Hlc Hlrk Hip Hcb Hops Hss HC.
  destruct Hend as [Hend|[Hend _]]; [|discriminate Hend].
  cbn [kstmt] in Hk. destruct (assoc x CD) as [k'|] eqn:EC; [|discriminate].
  destruct (kexpr SF B CD e) as [k|] eqn:Ee; [|discriminate].
  destruct (src_nameb x && kind_eqb k k') eqn:Ec; [|discriminate]. apply andb_true_iff in Ec as [_ Ek].
  apply kind_eqb_eq in Ek. subst k'. inversion Hk; subst B' rets.
  destruct fuel as [|fuel]; [exact Logic.I|]. rewrite exec_SModify.
  rewrite sc_Modify in *. destruct (ec path c0 lr k0 e) as [ce fe] eqn:Eec. cbn [fst snd] in *.
  rewrite app_length, map_length in *. cbn [length] in *.
  apply items_at_app in Hc as [Hce Hi]. apply items_at_CI in Hce. rewrite map_length in Hi. apply items_at_cons in Hi as [Hi _]. cbn [item_instr I] in Hi.
  pose proof (espec_all e b B c0 lr k0 fuel kp a g env s k ltac:(lia) Ee Hb) as He. rewrite Eec in He. cbn [fst snd] in He.
  specialize (He Hinst ltac:(lia) Hce ltac:(lia) Hip Hcb Hops HC).
  destruct (eval fuel env e s) as [v s1|s1|f s1|]; cbn [eres_ok spost] in He |- *; [|exact Logic.I|exact He|exact Logic.I].
  apply eres_val_inv in He. destruct He as (a1 & g1 & b1 & w & M1 & Hip1 & Hops1 & HC1 & Hv1).
  pose proof (smid_of_mid _ _ _ _ _ _ _ _ _ M1) as SM1.
  set (i1 := mkI OP_STORE_OBJECT [x]) in *.
  set (g1t := trc name a1 g1 i1).
  pose proof (Cl_trc b1 B env s1 g1 name a1 i1 HC1) as HC1t. fold g1t in HC1t.
  destruct (cl_cap _ _ _ _ _ _ _ _ _ _ _ _ _ HC1t x k EC) as (_ & c & c' & A1 & A2 & A3). rewrite A1.
  set (a2 := set_ip (set_ops a1 []) (S (a_ip a1))).
  assert (Hcb1 : a_cb a1 = cb).
  { unfold smid in SM1. destruct SM1 as (_ & _ & _ & (_ & _ & A) & _). congruence. }
  split; [apply same_tl_refl; exact (Cl_ne _ _ _ _ _ _ _ _ _ _ _ _ _ HC)|]. split; [exact Hb|].
  exists a2, (cell_set g1t c' w), b1. split; [|split; [cbn [a2 set_ip a_ip]; lia|split; [reflexivity|split; [eapply Cl_update; eassumption|exact (lk_mid lr _ _ _ _ _ _ _ _ _ M1)]]]].
  eapply smid_trans; [exact SM1|]. unfold smid. split.
  - eapply (xstep_next prog name code a1 g1 i1 _ (a_ip a1) (set_ops a1 [])); [reflexivity|rewrite Hip1; exact Hi|apply dec_store_object|].
    unfold exec_d. rewrite Hops1. unfold load_cb. rewrite Hcb1. unfold cbget in A2. rewrite A2. reflexivity.
  - split; [apply bext_refl|]. split; [reflexivity|]. split; [repeat split|]. split; [reflexivity|].
    split; [change (keep b1 g1t (cell_set g1t c' w)); eapply keep_cell_set; exact A3|].
    split; [cbn [sset store]; rewrite set_nth_length; lia|cbn [cell_set cells g1t trc add_trace]; rewrite set_nth_length; lia].
Qed.

(* ---------------------------------------------------------------- print e *)
Lemma print_sim : forall e, sspec (SPrint e).
Proof.
  intros e b B lr il sl bt ct k0 fuel kp a g env s B' rets Hfu Hk Hb Hinst Hc Hend Hlc Hlrk Hip Hcb Hops Hss HC.
  destruct Hend as [Hend|[Hend _]]; [|discriminate Hend].
  cbn [kstmt] in Hk. destruct (kexpr SF B CD e) as [[|? ?|]|] eqn:Ee; try discriminate. cbn [is_KD] in Hk. inversion Hk; subst B' rets.
  destruct fuel as [|fuel]; [exact Logic.I|]. rewrite exec_SPrint.
  rewrite sc_Print in *. destruct (ec path c0 lr k0 e) as [ce fe] eqn:Eec. cbn [fst snd] in *.
  rewrite app_length, map_length in *. cbn [length] in *.
  apply items_at_app in Hc as [Hce Hi]. apply items_at_CI in Hce. rewrite map_length in Hi. apply items_at_cons in Hi as [Hi1 Hi]. apply items_at_cons in Hi as [Hi2 _]. cbn [item_instr I] in Hi1, Hi2.
  pose proof (espec_all e b B c0 lr k0 fuel kp a g env s KD ltac:(lia) Ee Hb) as He. rewrite Eec in He. cbn [fst snd] in He.
  specialize (He Hinst ltac:(lia) Hce ltac:(lia) Hip Hcb Hops HC).
  destruct (eval fuel env e s) as [v s1|s1|f s1|]; cbn [eres_ok spost] in He |- *; [|exact Logic.I|exact He|exact Logic.I].
  apply eres_val_inv in He. destruct He as (a1 & g1 & b1 & w & M1 & Hip1 & Hops1 & HC1 & [Hfo ->]).
  pose proof (smid_of_mid _ _ _ _ _ _ _ _ _ M1) as SM1.
  destruct (show_inj v Hfo) as (l & Hrs & Hsh). rewrite Hrs.
  set (g2 := emit_line (trc name a1 g1 (mkI OP_PRINTN [s_star])) l).
  set (a2 := set_ip a1 (S (a_ip a1))).
  cbn [spost]. split; [apply same_tl_refl; exact (Cl_ne _ _ _ _ _ _ _ _ _ _ _ _ _ HC)|]. split; [exact Hb|].
  exists (set_ip (set_ops a2 []) (S (a_ip a2))), (trc name a2 g2 (mkI OP_VOID [])), b1.
  split; [|split; [cbn [set_ip a_ip a2]; lia|split; [reflexivity|split; [apply Cl_trc; apply Cl_print; apply Cl_trc; exact HC1|exact (lk_mid lr _ _ _ _ _ _ _ _ _ M1)]]]].
  eapply smid_trans; [exact SM1|]. unfold smid. split.
  - eapply xrun_trans.
    + eapply (xstep_next prog name code a1 g1 _ _ (a_ip a1) a1); [reflexivity|rewrite Hip1; exact Hi1|apply dec_printn|].
      apply (exec_print a1 _ (inj v) l); [exact Hops1|exact Hsh].
    + eapply (xstep_next prog name code a2 g2 _ _ (a_ip a2) (set_ops a2 [])); [reflexivity| |apply dec_void|apply exec_void].
      cbn [a2 set_ip a_ip]. rewrite Hip1. atp Hi2.
  - split; [apply bext_refl|]. split; [reflexivity|]. split; [repeat split|]. split; [reflexivity|].
    split; [apply (keep_cells_app _ _ _ []); now rewrite app_nil_r|]. split; [cbn [sprint store]; lia|cbn; lia].
Qed.

(* ---------------------------------------------------------------- an expression statement *)
Lemma expr_sim : forall e, sspec (SExpr e).
Proof.
  intros e b B lr il sl bt ct k0 fuel kp a g env s B' rets Hfu Hk Hb Hinst Hc Hend Hlc Hlrk Hip Hcb Hops Hss HC.
  destruct Hend as [Hend|[Hend _]]; [|discriminate Hend].
  cbn [kstmt] in Hk. destruct (kexpr SF B CD e) as [k|] eqn:Ee; [|discriminate]. inversion Hk; subst B' rets.
  destruct fuel as [|fuel]; [exact Logic.I|]. rewrite exec_SExpr.
  rewrite sc_Expr in *. destruct (ec path c0 lr k0 e) as [ce fe] eqn:Eec. cbn [fst snd] in *.
  rewrite app_length, map_length in *. cbn [length] in *.
  apply items_at_app in Hc as [Hce Hi]. apply items_at_CI in Hce. rewrite map_length in Hi. apply items_at_cons in Hi as [Hi1 _]. cbn [item_instr I] in Hi1.
  pose proof (espec_all e b B c0 lr k0 fuel kp a g env s k ltac:(lia) Ee Hb) as He. rewrite Eec in He. cbn [fst snd] in He.
  specialize (He Hinst ltac:(lia) Hce ltac:(lia) Hip Hcb Hops HC).
  assert (Hdone : forall s1 a1 g1 b1, smid b s a g b1 s1 a1 g1 -> lkeep lr (frames g) (frames g1) -> a_ip a1 = kp + length ce -> ClA b1 B env s1 g1 ->
            spost b B [] lr sl bt ct (kp + (length ce + 1)) env s a g (SOk SigNormal env s1)).
  { intros s1 a1 g1 b1 SM1 LK1 Hip1 HC1.
    cbn [spost]. split; [apply same_tl_refl; exact (Cl_ne _ _ _ _ _ _ _ _ _ _ _ _ _ HC)|]. split; [exact Hb|].
    exists (set_ip (set_ops a1 []) (S (a_ip a1))), (trc name a1 g1 (mkI OP_VOID [])), b1.
    split; [|split; [cbn [set_ip a_ip]; lia|split; [reflexivity|split; [apply Cl_trc; exact HC1|exact LK1]]]].
    eapply smid_trans; [exact SM1|]. apply smid_same; try reflexivity; [|repeat split].
    eapply (xstep_next prog name code a1 g1 _ _ (a_ip a1) (set_ops a1 [])); [reflexivity|rewrite Hip1; exact Hi1|apply dec_void|apply exec_void]. }
  destruct (eval fuel env e s) as [v s1|s1|f s1|]; cbn [eres_ok] in He; [| |exact He|exact Logic.I].
  - apply eres_val_inv in He. destruct He as (a1 & g1 & b1 & w & M1 & Hip1 & Hops1 & HC1 & Hv1).
    exact (Hdone s1 a1 g1 b1 (smid_of_mid _ _ _ _ _ _ _ _ _ M1) (lk_mid lr _ _ _ _ _ _ _ _ _ M1) Hip1 HC1).
  - destruct He as (_ & a1 & g1 & b1 & R & Hip1 & Hops1 & E & HC1 & Hr).
    assert (M1 : mid b c0 s a g b1 s1 a1 g1) by (unfold mid; auto).
    exact (Hdone s1 a1 g1 b1 (smid_of_mid _ _ _ _ _ _ _ _ _ M1) (lk_mid lr _ _ _ _ _ _ _ _ _ M1) Hip1 HC1).
Qed.

(* ---------------------------------------------------------------- return e *)
Lemma return_sim : forall e, sspec (SReturn (Some e)).
Proof.
  intros e b B lr il sl bt ct k0 fuel kp a g env s B' rets Hfu Hk Hb Hinst Hc Hend Hlc Hlrk Hip Hcb Hops Hss HC.
  cbn [kstmt] in Hk. destruct (kexpr SF B CD e) as [k|] eqn:Ee; [|discriminate]. inversion Hk; subst B' rets.
  destruct fuel as [|fuel]; [exact Logic.I|]. rewrite exec_SReturn.
  rewrite sc_Return in *. destruct (ec path c0 lr k0 e) as [ce fe] eqn:Eec. cbn [fst snd] in *.
  rewrite app_length, map_length in *. cbn [length] in *.
  apply items_at_app in Hc as [Hce Hi]. apply items_at_CI in Hce. rewrite map_length in Hi. apply items_at_cons in Hi as [Hi1 _]. cbn [item_instr I] in Hi1.
  assert (Hlen : kp + length ce < length code).
  { destruct Hend as [H|[_ H]]; [lia|]. assert (nth_error code (kp + length ce) <> None) by congruence. apply nth_error_Some in H0. exact H0. }
  pose proof (espec_all e b B c0 lr k0 fuel kp a g env s k ltac:(lia) Ee Hb) as He. rewrite Eec in He. cbn [fst snd] in He.
  specialize (He Hinst ltac:(destruct Hend as [H|[_ H]]; lia) Hce Hlen Hip Hcb Hops HC).
  destruct (eval fuel env e s) as [v s1|s1|f s1|]; cbn [eres_ok spost] in He |- *; [|exact Logic.I|exact He|exact Logic.I].
  apply eres_val_inv in He. destruct He as (a1 & g1 & b1 & w & M1 & Hip1 & Hops1 & HC1 & Hv1).
  unfold mid, rest in M1. destruct M1 as (R1 & E1 & T1 & A1 & S1 & K1 & F1 & L1).
  split; [apply same_tl_refl; exact (Cl_ne _ _ _ _ _ _ _ _ _ _ _ _ _ HC)|].
  exists a1, g1, b1, w, k. split; [exact R1|]. split; [rewrite Hip1; exact Hi1|]. split; [exact Hops1|]. split; [exact E1|].
  split; [exact (cl_heap _ _ _ _ _ _ _ _ _ _ _ _ _ HC1)|]. split; [exact Hv1|]. split; [now left|].
  split; [exact (cl_out _ _ _ _ _ _ _ _ _ _ _ _ _ HC1)|].
  split; [rewrite (Rfr2_drop _ _ _ _ (cl_fr _ _ _ _ _ _ _ _ _ _ _ _ _ HC1)); exact (cl_base _ _ _ _ _ _ _ _ _ _ _ _ _ HC1)|]. split; [exact K1|exact L1].
Qed.

(* ---------------------------------------------------------------- assert e *)
Lemma assert_sim : forall e sp, sspec (SAssert e sp).
Proof.
  intros e sp b B lr il sl bt ct k0 fuel kp a g env s B' rets Hfu Hk Hb Hinst Hc Hend Hlc Hlrk Hip Hcb Hops Hss HC.
  destruct Hend as [Hend|[Hend _]]; [|discriminate Hend].
  cbn [kstmt] in Hk. destruct (kexpr SF B CD e) as [[|? ?|]|] eqn:Ee; try discriminate. cbn [is_KD] in Hk. inversion Hk; subst B' rets.
  destruct fuel as [|fuel]; [exact Logic.I|]. rewrite exec_SAssert.
  rewrite sc_Assert in *. destruct (ec path c0 lr k0 e) as [ce fe] eqn:Eec. cbn [fst snd] in *.
  rewrite app_length, map_length in *. cbn [length] in *.
  apply items_at_app in Hc as [Hce Hi]. apply items_at_CI in Hce. rewrite map_length in Hi. apply items_at_cons in Hi as [Hi1 _]. cbn [item_instr I] in Hi1.
  pose proof (espec_all e b B c0 lr k0 fuel kp a g env s KD ltac:(lia) Ee Hb) as He. rewrite Eec in He. cbn [fst snd] in He.
  specialize (He Hinst ltac:(lia) Hce ltac:(lia) Hip Hcb Hops HC).
  destruct (eval fuel env e s) as [v s1|s1|f s1|]; cbn [eres_ok spost] in He |- *; [|exact Logic.I|exact He|exact Logic.I].
  apply eres_val_inv in He. destruct He as (a1 & g1 & b1 & w & M1 & Hip1 & Hops1 & HC1 & [Hfo ->]).
  pose proof (smid_of_mid _ _ _ _ _ _ _ _ _ M1) as SM1.
  set (i1 := mkI OP_ASSERT [sp]) in *.
  pose proof (exec_assert sp a1 (trc name a1 g1 i1) (inj v) Hops1) as Hx.
  assert (Hfail : forall f e0, exec_d (DAssert (Some sp)) a1 (trc name a1 g1 i1) = SFail e0 -> err_rel_s f e0 ->
            spost b B [] lr sl bt ct (kp + (length ce + 1)) env s a g (SFailed f s1)).
  { intros f e0 Hex Hrel. apply (spost_fail_e b B [] lr sl bt ct _ env s a g f s1 e0 (trc name a1 g1 i1)); [|exact Hrel|exact (cl_out _ _ _ _ _ _ _ _ _ _ _ _ _ HC1)].
    eapply smid_fail; [exact SM1|]. eapply xstep_fail; [exact Hip1|exact Hi1|apply dec_assert|exact Hex]. }
  destruct v as [z|[|]|t| |p bd ev]; cbn [inj val_equals] in Hx; try contradiction.
  - eapply Hfail; [exact Hx|]. cbn. auto.
  - cbn [spost]. split; [apply same_tl_refl; exact (Cl_ne _ _ _ _ _ _ _ _ _ _ _ _ _ HC)|]. split; [exact Hb|].
    exists (set_ip (set_ops a1 []) (S (a_ip a1))), (trc name a1 g1 i1), b1.
    split; [|split; [cbn [set_ip a_ip]; lia|split; [reflexivity|split; [apply Cl_trc; exact HC1|exact (lk_mid lr _ _ _ _ _ _ _ _ _ M1)]]]].
    eapply smid_trans; [exact SM1|]. apply smid_same; try reflexivity; [|repeat split].
    eapply (xstep_next prog name code a1 g1 i1 _ (a_ip a1) (set_ops a1 [])); [reflexivity|rewrite Hip1; exact Hi1|apply dec_assert|exact Hx].
  - eapply Hfail; [exact Hx|]. reflexivity.
  - eapply Hfail; [exact Hx|]. cbn. auto.
  - eapply Hfail; [exact Hx|]. cbn. right. eexists. reflexivity.
Qed.

(* ---------------------------------------------------------------- x op= e : a local or a captured variable (through its cell) *)
Lemma opassign_sim : forall x o e, sspec (SOpAssign x o e).
Proof.
  intros x o e b B lr il sl bt ct k0 fuel kp a g env s B' rets Hfu Hk Hb Hinst Hc Hend Hlc Hlrk Hip Hcb Hops Hss HC.
  destruct Hend as [Hend|[Hend _]]; [|discriminate Hend].
  cbn [kstmt] in Hk.
  destruct (arith5 o && src_nameb x && is_KD (kvar B CD x) && is_KD (kexpr SF B CD e)) eqn:Hcnd; [|discriminate].
  rewrite !andb_true_iff in Hcnd. destruct Hcnd as [[[Ho Hsx] Hkx] Hke]. inversion Hk; subst B' rets.
  destruct (kvar B CD x) as [[|? ?|]|] eqn:Ex; try discriminate Hkx.
  destruct (kexpr SF B CD e) as [[|? ?|]|] eqn:Ee; try discriminate Hke.
  destruct fuel as [|fuel]; [exact Logic.I|]. rewrite exec_SOpAssign.
  rewrite sc_OpAssign in *. destruct (ec path (S c0) lr k0 e) as [ce fe] eqn:Eec. cbn [fst snd] in *.
  rewrite app_length, map_length in *. cbn [length] in *.
  apply items_at_app in Hc as [Hce Hi]. apply items_at_CI in Hce. rewrite map_length in Hi.
  apply items_at_cons in Hi as [Hi1 Hi]. apply items_at_cons in Hi as [Hi2 _]. cbn [item_instr I] in Hi1, Hi2.
  pose proof (espec_all e b B (S c0) lr k0 fuel kp a g env s KD ltac:(lia) Ee Hb) as He. rewrite Eec in He. cbn [fst snd] in He.
  specialize (He Hinst ltac:(lia) Hce ltac:(lia) Hip Hcb Hops HC).
  destruct (eval fuel env e s) as [v s1|s1|f s1|]; cbn [eres_ok spost] in He |- *; [|exact Logic.I|exact He|exact Logic.I].
  apply eres_val_inv in He. destruct He as (a1 & g1 & b1 & w & M1 & Hip1 & Hops1 & HC1 & [Hfo ->]).
  pose proof (smid_of_mid _ _ _ _ _ _ _ _ _ M1) as SM1.
  assert (Hcb1 : a_cb a1 = cb) by (unfold smid in SM1; destruct SM1 as (_ & _ & _ & (_ & _ & A) & _); congruence).
  set (i1 := mkI OP_BIN_OP_ASSIGN [binop_sym o ++ [61%N]; x]) in *.
  set (g1t := trc name a1 g1 i1).
  pose proof (Cl_trc b1 B env s1 g1 name a1 i1 HC1) as HC1t. fold g1t in HC1t.
  destruct (var_cell b1 B env s1 g1t x KD HC1t Hb Ex) as (Hx & c & c' & cur_ & wc & A1 & _ & A3 & Hbc & A4 & A5 & [Hfc ->]).
  rewrite A1, A4.
  pose proof (exec_bin_op_assign (binop_sym o ++ [61%N]) x a1 g1t c' (inj v) (inj cur_) (A3 a1 Hcb1) Hops1 A5) as Hx1.
  rewrite (op_base_arith5 o Ho) in Hx1.
  pose proof (binop_agree o cur_ v s1 (arith5_arith_op o Ho)) as Hag.
  pose proof (arith5_not_bool o cur_ v s1) as Hnb.
  destruct (binop_sem o cur_ v s1) as [r s2|s2|f s2|]; try contradiction.
  - destruct Hag as (-> & Hfr & Hbo). rewrite Hbo in Hx1. specialize (Hnb r s1 Ho eq_refl).
    assert (Hx2 : exec_d (DBinOpAssign (binop_sym o ++ [61%N]) x) a1 g1t = SNext (set_ops a1 [inj r]) (cell_set g1t c' (inj r))).
    { rewrite Hx1. destruct (inj r); try reflexivity. contradiction. }
    set (g2 := cell_set g1t c' (inj r)).
    set (a2 := set_ip (set_ops a1 [inj r]) (S (a_ip a1))).
    cbn [spost]. split; [apply same_tl_refl; exact (Cl_ne _ _ _ _ _ _ _ _ _ _ _ _ _ HC)|]. split; [exact Hb|].
    exists (set_ip (set_ops a2 []) (S (a_ip a2))), (trc name a2 g2 (mkI OP_VOID [])), b1.
    split; [|split; [cbn [a2 set_ip a_ip]; lia|split; [reflexivity|split; [|exact (lk_mid lr _ _ _ _ _ _ _ _ _ M1)]]]].
    + eapply smid_trans; [exact SM1|]. unfold smid. split.
      * eapply xrun_trans.
        -- eapply (xstep_next prog name code a1 g1 i1 _ (a_ip a1) (set_ops a1 [inj r])); [reflexivity|rewrite Hip1; exact Hi1|apply dec_bin_op_assign|exact Hx2].
        -- eapply (xstep_next prog name code a2 g2 _ _ (a_ip a2) (set_ops a2 [])); [reflexivity| |apply dec_void|apply exec_void].
           cbn [a2 set_ip a_ip]. rewrite Hip1. atp Hi2.
      * split; [apply bext_refl|]. split; [reflexivity|]. split; [repeat split|]. split; [reflexivity|].
        split; [change (keep b1 g1t (cell_set g1t c' (inj r))); eapply keep_cell_set; exact Hbc|].
        split; [cbn [sset store]; rewrite set_nth_length; lia|cbn [g2 cell_set cells g1t trc add_trace]; rewrite set_nth_length; lia].
    + apply Cl_trc. apply (Cl_update path prog P cb CD base name SF b1 B env s1 g1t c c' KD r (inj r) HC1t Hbc). split; [exact Hfr|reflexivity].
  - destruct Hag as (-> & e0 & Hbo & Hrel). rewrite Hbo in Hx1.
    apply (spost_fail_e b B [] lr sl bt ct _ env s a g f s1 e0 g1t); [|now apply err_rel_s_of|exact (cl_out _ _ _ _ _ _ _ _ _ _ _ _ _ HC1)].
    eapply smid_fail; [exact SM1|]. eapply xstep_fail; [exact Hip1|exact Hi1|apply dec_bin_op_assign|exact Hx1].
Qed.

(* ---------------------------------------------------------------- break / continue (resolved placeholders) *)
Lemma break_sim : sspec SBreak.
Proof.
  intros b B lr il sl bt ct k0 fuel kp a g env s B' rets Hfu Hk Hb Hinst Hc Hend Hlc Hlrk Hip Hcb Hops Hss HC.
  destruct Hend as [Hend|[Hend _]]; [|discriminate Hend].
  cbn [kstmt] in Hk. destruct il; [|discriminate]. inversion Hk; subst B' rets.
  destruct Hlc as [Hsl Hlc]. specialize (Hsl eq_refl). destruct sl as [m|]; [|congruence].
  destruct (Hlc m eq_refl) as (Hm1 & Hm2 & Hct & Hbt & Hlen & Hmc).
  destruct fuel as [|fuel]; [exact Logic.I|].
  cbn [sc fst snd length sln] in *. apply items_at_cons in Hc as [Hi _]. cbn [item_instr] in Hi.
  change (Eval.exec (S fuel) env SBreak s) with (SOk SigBreak env s).
  set (i1 := mkI OP_JMP_POP [sN (bt - kp); sN m]) in *.
  destruct (Cl_popn path prog P cb CD base name SF m b B env s (trc name a g i1) (Cl_trc _ _ _ _ _ _ _ _ HC) Hm2) as (g2 & Hpop & HC2 & Hfr2 & Hc2 & Ho2).
  cbn [spost]. split; [apply same_tl_refl; exact (Cl_ne _ _ _ _ _ _ _ _ _ _ _ _ _ HC)|].
  exists m, (set_ip a bt), g2, b. split; [reflexivity|]. split; [exact Hm1|].
  split; [|split; [reflexivity|split; [exact Hops|split; [exact HC2|exact Hfr2]]]].
  unfold jmid. split.
  - eapply (xstep_gotopop prog name code a g i1 _ kp _ m a); [exact Hip|exact Hi| |apply exec_jmp_pop| |exact Hpop].
    + apply dec_jmp_pop2; eapply small_le; [|exact Hsmall| |exact Hsmall]; lia.
    + rewrite Hip. rewrite goto_fwd by lia. f_equal. lia.
  - split; [apply bext_refl|]. split; [repeat split|]. split; [cbn [set_ip a_ss]; lia|].
    split; [apply (keep_cells_app _ _ _ []); rewrite app_nil_r; exact Hc2|]. split; [lia|rewrite Hc2; cbn; lia].
Qed.

Lemma continue_sim : sspec SContinue.
Proof.
  intros b B lr il sl bt ct k0 fuel kp a g env s B' rets Hfu Hk Hb Hinst Hc Hend Hlc Hlrk Hip Hcb Hops Hss HC.
  destruct Hend as [Hend|[Hend _]]; [|discriminate Hend].
  cbn [kstmt] in Hk. destruct il; [|discriminate]. inversion Hk; subst B' rets.
  destruct Hlc as [Hsl Hlc]. specialize (Hsl eq_refl). destruct sl as [m|]; [|congruence].
  destruct (Hlc m eq_refl) as (Hm1 & Hm2 & Hct & Hbt & Hlen & Hmc).
  destruct fuel as [|fuel]; [exact Logic.I|].
  cbn [sc fst snd length sln] in *. apply items_at_cons in Hc as [Hi _]. cbn [item_instr] in Hi.
  change (Eval.exec (S fuel) env SContinue s) with (SOk SigContinue env s).
  set (i1 := mkI OP_JMP_POP [sN (ct - kp); sN (m - 1)]) in *.
  destruct (Cl_popn path prog P cb CD base name SF (m - 1) b B env s (trc name a g i1) (Cl_trc _ _ _ _ _ _ _ _ HC) ltac:(lia)) as (g2 & Hpop & HC2 & Hfr2 & Hc2 & Ho2).
  cbn [spost]. split; [apply same_tl_refl; exact (Cl_ne _ _ _ _ _ _ _ _ _ _ _ _ _ HC)|].
  exists m, (set_ip a ct), g2, b. split; [reflexivity|]. split; [exact Hm1|].
  split; [|split; [reflexivity|split; [exact Hops|split; [exact HC2|]]]].
  - unfold jmid. split.
    + eapply (xstep_gotopop prog name code a g i1 _ kp _ (m - 1) a); [exact Hip|exact Hi| |apply exec_jmp_pop| |exact Hpop].
      * apply dec_jmp_pop2; eapply small_le; [|exact Hsmall| |exact Hsmall]; lia.
      * rewrite Hip. rewrite goto_fwd by lia. f_equal. lia.
    + split; [apply bext_refl|]. split; [repeat split|]. split; [cbn [set_ip a_ss]; lia|].
      split; [apply (keep_cells_app _ _ _ []); rewrite app_nil_r; exact Hc2|]. split; [lia|rewrite Hc2; cbn; lia].
  - split; [rewrite Hfr2; cbn [trc add_trace frames]; rewrite tl_skipn; f_equal; lia|].
    apply lkeep_eq. rewrite Hfr2. reflexivity.
Qed.

(* ---------------------------------------------------------------- return (no value) *)
Lemma return_none_sim : sspec (SReturn None).
Proof.
  intros b B lr il sl bt ct k0 fuel kp a g env s B' rets Hfu Hk Hb Hinst Hc Hend Hlc Hlrk Hip Hcb Hops Hss HC.
  cbn [kstmt] in Hk. inversion Hk; subst B' rets.
  destruct fuel as [|fuel]; [exact Logic.I|].
  cbn [sc fst snd length] in *. apply items_at_cons in Hc as [Hi _]. cbn [item_instr I] in Hi.
  change (Eval.exec (S fuel) env (SReturn None) s) with (SOk (SigReturn None) env s).
  cbn [spost]. split; [apply same_tl_refl; exact (Cl_ne _ _ _ _ _ _ _ _ _ _ _ _ _ HC)|].
  exists a, g, b. split; [apply xrun_refl|]. split; [rewrite Hip; exact Hi|]. split; [exact Hops|]. split; [apply bext_refl|].
  split; [exact (cl_heap _ _ _ _ _ _ _ _ _ _ _ _ _ HC)|]. split; [now left|].
  split; [exact (cl_out _ _ _ _ _ _ _ _ _ _ _ _ _ HC)|].
  split; [rewrite (Rfr2_drop _ _ _ _ (cl_fr _ _ _ _ _ _ _ _ _ _ _ _ _ HC)); exact (cl_base _ _ _ _ _ _ _ _ _ _ _ _ _ HC)|]. split; [apply keep_refl|apply lens_refl].
Qed.

(* ---------------------------------------------------------------- sequencing *)
Lemma sc_pos : forall st il B B' rets lr sl k0, kstmt SF il B CD st = Some (B', rets) -> 1 <= length (fst (sc path c0 lr sl k0 st)).
Proof.
  intros st il B B' rets lr sl k0 H. destruct st; try discriminate.
  - rewrite sc_Assign. destruct (ec path c0 lr k0 e). cbn [fst]. rewrite app_length. cbn. lia.
  - rewrite sc_Modify. destruct (ec path c0 lr k0 e). cbn [fst]. rewrite app_length. cbn. lia.
  - rewrite sc_OpAssign. destruct (ec path (S c0) lr k0 e). cbn [fst]. rewrite app_length. cbn. lia.
  - rewrite sc_Print. destruct (ec path c0 lr k0 e). cbn [fst]. rewrite app_length. cbn. lia.
  - rewrite sc_Assert. destruct (ec path c0 lr k0 e). cbn [fst]. rewrite app_length. cbn. lia.
  - rewrite sc_Expr. destruct (ec path c0 lr k0 e). cbn [fst]. rewrite app_length. cbn. lia.
  - rewrite sc_SIf. destruct (ec path c0 lr k0 c). destruct (bc path c0 lr (option_map S sl) (k0 + length f) body). cbn [fst]. rewrite !app_length. cbn. lia.
  - rewrite sc_SIfElse. destruct (ec path c0 lr k0 c). destruct (bc path c0 lr (option_map S sl) (k0 + length f) body).
    destruct (bc path c0 lr (option_map S sl) (k0 + length f + length f0) els). cbn [fst]. rewrite !app_length. cbn. lia.
  - rewrite sc_SIfElif. destruct (ec path c0 lr k0 c). destruct (bc path c0 lr (option_map S sl) (k0 + length f) body).
    destruct (sc path c0 lr (option_map S sl) (k0 + length f + length f0) st). cbn [fst]. rewrite !app_length. cbn. lia.
  - rewrite sc_SWhile. destruct (ec path c0 lr k0 c). destruct (bc path c0 lr (Some 1) (k0 + length f) body). cbn [fst]. rewrite !app_length. cbn. lia.
  - rewrite sc_SFrom. cbv zeta. destruct (ec path c0 (from_lr1 lr name0) k0 a). destruct (ec path c0 (from_lr1 lr name0) (k0 + length f) b).
    destruct (bc path c0 (S (S (from_lr1 lr name0))) (Some 1) (k0 + length f + length f0) body).
    destruct (stepc path c0 (S (S (from_lr1 lr name0))) (k0 + length f + length f0 + length f1) step). cbn [fst]. rewrite !app_length. cbn. lia.
  - cbn. lia.
  - cbn. lia.
  - destruct e as [e|]; [|cbn; lia]. rewrite sc_Return. destruct (ec path c0 lr k0 e). cbn [fst]. rewrite app_length. cbn. lia.
Qed.

Lemma bc_cons : forall lr sl k0 st l, bc path c0 lr sl k0 (st :: l) =
  let '(cs, fs) := sc path c0 lr sl k0 st in let '(cl, fl) := bc path c0 lr sl (k0 + length fs) l in (cs ++ cl, fs ++ fl).
Proof. reflexivity. Qed.

Lemma bspec_of : forall l, Forall sspec l -> bspec l.
Proof.
  induction l as [|st l IH]; intros HF b B lr il sl bt ct k0 fuel kp a g env s B' rets Hfu Hk Hb Hinst Hc Hend Hlc Hlrk Hip Hcb Hops Hss HC.
  - destruct fuel as [|fuel]; [exact Logic.I|]. rewrite exec_block_nil. cbn [kblock] in Hk. inversion Hk; subst B' rets.
    cbn [bc fst length spost]. split; [apply same_tl_refl; exact (Cl_ne _ _ _ _ _ _ _ _ _ _ _ _ _ HC)|]. split; [exact Hb|].
    exists a, g, b. split; [apply smid_refl|]. split; [lia|]. split; [exact Hops|]. split; [exact HC|apply lkeep_refl].
  - pose proof (Forall_inv HF) as Hst. pose proof (Forall_inv_tail HF) as Hl. specialize (IH Hl).
    destruct fuel as [|fuel]; [exact Logic.I|]. rewrite exec_block_cons.
    cbn [kblock] in Hk. destruct (kstmt SF il B CD st) as [[B1 r1]|] eqn:Es; [|discriminate].
    destruct (kblock SF il B1 CD l) as [[B3 r2]|] eqn:El; [|discriminate]. inversion Hk; subst B' rets.
    rewrite bc_cons in *. destruct (sc path c0 lr sl k0 st) as [cs fs] eqn:Esc. destruct (bc path c0 lr sl (k0 + length fs) l) as [cl fl] eqn:Ebc.
    cbn [fst snd] in *. rewrite app_length in *.
    apply (installed_app prog) in Hinst as [Hin1 Hin2]. apply items_at_app in Hc as [Hc1 Hc2].
    assert (Hle : kp + length cs + length cl <= length code) by (destruct Hend as [H|[_ H]]; lia).
    assert (Hend1 : endok code (kp + length cs) (isret st)).
    { destruct l as [|st2 l2].
      - cbn [bc] in Ebc. inversion Ebc; subst cl fl. cbn [length endsret] in Hend. rewrite Nat.add_0_r in Hend. exact Hend.
      - left. cbn [kblock] in El. destruct (kstmt SF il B1 CD st2) as [[B2 rr]|] eqn:Es2; [|discriminate].
        pose proof (sc_pos st2 il B1 B2 rr lr sl (k0 + length fs) Es2) as Hp. rewrite bc_cons in Ebc.
        destruct (sc path c0 lr sl (k0 + length fs) st2) as [cs2 fs2]. destruct (bc path c0 lr sl (k0 + length fs + length fs2) l2) as [cl2 fl2].
        inversion Ebc; subst cl fl. cbn [fst] in Hp. rewrite app_length in Hle. lia. }
    assert (Hend2 : endok code (kp + length cs + length cl) (endsret l)).
    { destruct l as [|st2 l2].
      - cbn [bc] in Ebc. inversion Ebc; subst cl fl. cbn [length endsret] in *.
        destruct (Nat.eq_dec (kp + length cs + 0) (length code)); [right; auto|left; lia].
      - rewrite Nat.add_assoc in Hend. exact Hend. }
    pose proof (Hst b B lr il sl bt ct k0 fuel kp a g env s B1 r1 ltac:(lia) Es Hb) as H1. rewrite Esc in H1. cbn [fst snd] in H1.
    specialize (H1 Hin1 Hc1 Hend1 ltac:(eapply lcok_mono; [exact Hlc|lia|reflexivity]) Hlrk Hip Hcb Hops Hss HC).
    destruct (Eval.exec fuel env st s) as [sig env1 s1|f s1|]; [|exact H1|exact Logic.I].
    destruct sig as [| | |rv];
      try (eapply (spost_rets b B1 r1 (r1 ++ r2)); [intros k Hk0; apply in_or_app; now left|intros; discriminate|exact H1]).
    cbn [spost] in H1. destruct H1 as (Hd & HB1 & a1 & g1 & b1 & SM1 & Hip1 & Hops1 & HC1 & LK1).
    assert (Hcb1 : a_cb a1 = cb) by (unfold smid in SM1; destruct SM1 as (_ & _ & _ & (_ & _ & A) & _); congruence).
    pose proof (same_tl_length _ _ (Cl_ne _ _ _ _ _ _ _ _ _ _ _ _ _ HC) Hd) as Hlen1.
    assert (Hss1 : length (locals env1) <= S (a_ss a1)).
    { unfold smid in SM1. destruct SM1 as (_ & _ & _ & _ & S1 & _). rewrite Hlen1. lia. }
    pose proof (IH b1 B1 lr il sl bt ct (k0 + length fs) fuel (kp + length cs) a1 g1 env1 s1 B3 r2 ltac:(lia) El HB1) as H2.
    rewrite Ebc in H2. cbn [fst snd] in H2.
    specialize (H2 Hin2 Hc2 Hend2 ltac:(eapply lcok_mono; [exact Hlc|lia|exact Hlen1]) ltac:(eapply lrok_mono; [exact Hlrk|lia]) Hip1 Hcb1 Hops1 Hss1 HC1).
    rewrite Nat.add_assoc.
    eapply spost_seq; [exact SM1|exact LK1|exact Hd|].
    destruct (exec_block fuel env1 l s1) as [sig2 env2 s2|f2 s2|]; [|exact H2|exact Logic.I].
    destruct sig2 as [| | |rv2]; [exact H2| | |];
      (eapply (spost_rets b1 B3 r2 (r1 ++ r2)); [intros k Hk0; apply in_or_app; now right|intros; discriminate|exact H2]).
Qed.

(* ---------------------------------------------------------------- blocks *)
(* the names declared by a statement are new: the kinds of the existing ones are unchanged *)
Lemma kstmt_ext : forall st il B B' rets, kstmt SF il B CD st = Some (B', rets) -> forall x k, assoc x B = Some k -> assoc x B' = Some k.
Proof.
  intros st il B B' rets H x k Hx. destruct st; try discriminate.
  - cbn [kstmt] in H. destruct (src_nameb x0); [|discriminate]. destruct (kexpr SF B CD e) as [k1|]; [|discriminate].
    destruct (assoc x0 B) as [k'|] eqn:E0.
    + destruct (kind_eqb k1 k'); inversion H; subst; exact Hx.
    + inversion H; subst. cbn [assoc]. destruct (str_eqb x0 x) eqn:E; [apply str_eqb_iff in E; subst; congruence|exact Hx].
  - cbn [kstmt] in H. destruct (assoc x0 CD); [|discriminate]. destruct (kexpr SF B CD e); [|discriminate].
    destruct (src_nameb x0 && kind_eqb k1 k0); inversion H; subst; exact Hx.
  - cbn [kstmt] in H. destruct (arith5 o && src_nameb x0 && is_KD (kvar B CD x0) && is_KD (kexpr SF B CD e)); inversion H; subst; exact Hx.
  - cbn [kstmt] in H. destruct (is_KD (kexpr SF B CD e)); inversion H; subst; exact Hx.
  - cbn [kstmt] in H. destruct (is_KD (kexpr SF B CD e)); inversion H; subst; exact Hx.
  - cbn [kstmt] in H. destruct (kexpr SF B CD e); inversion H; subst; exact Hx.
  - rewrite kstmt_SIf in H. destruct (is_KD (kexpr SF B CD c)); [|discriminate]. destruct (kblock SF il B CD body) as [[? ?]|]; inversion H; subst; exact Hx.
  - rewrite kstmt_SIfElse in H. destruct (is_KD (kexpr SF B CD c)); [|discriminate]. destruct (kblock SF il B CD body) as [[? ?]|]; [|discriminate].
    destruct (kblock SF il B CD els) as [[? ?]|]; inversion H; subst; exact Hx.
  - rewrite kstmt_SIfElif in H. destruct (is_KD (kexpr SF B CD c)); [|discriminate]. destruct (kblock SF il B CD body) as [[? ?]|]; [|discriminate].
    destruct (kstmt SF il B CD st) as [[? ?]|]; inversion H; subst; exact Hx.
  - rewrite kstmt_SWhile in H. destruct (is_KD (kexpr SF B CD c)); [|discriminate]. destruct (kblock SF true B CD body) as [[? ?]|]; inversion H; subst; exact Hx.
  - rewrite kstmt_SFrom in H. destruct name0 as [y|]; destruct collide; try discriminate;
      match type of H with (if ?c then _ else _) = _ => destruct c; [|discriminate] end;
      match type of H with match ?k with _ => _ end = _ => destruct k as [[? ?]|]; inversion H; subst; exact Hx end.
  - cbn [kstmt] in H. destruct il; inversion H; subst; exact Hx.
  - cbn [kstmt] in H. destruct il; inversion H; subst; exact Hx.
  - destruct e as [e|]; cbn [kstmt] in H; [destruct (kexpr SF B CD e)|]; inversion H; subst; exact Hx.
Qed.
Lemma kblock_ext : forall l il B B' rets, kblock SF il B CD l = Some (B', rets) -> forall x k, assoc x B = Some k -> assoc x B' = Some k.
Proof.
  induction l as [|st l IH]; intros il B B' rets H x k Hx; cbn [kblock] in H; [inversion H; subst; exact Hx|].
  destruct (kstmt SF il B CD st) as [[B1 r1]|] eqn:Es; [|discriminate]. destruct (kblock SF il B1 CD l) as [[B3 r2]|] eqn:El; [|discriminate].
  inversion H; subst. eapply IH; [exact El|]. eapply kstmt_ext; eassumption.
Qed.

Lemma assoc_in_keys : forall (B : kctx) x k, assoc x B = Some k -> In x (map fst B).
Proof.
  induction B as [|[y ky] t IH]; intros x k H; [discriminate|]. cbn [assoc map fst In] in *.
  destruct (str_eqb y x) eqn:E; [left; now apply str_eqb_iff|right; eapply IH; exact H].
Qed.

Lemma popn_0 : forall env, popn 0 env = env.
Proof. intros [l c u]. reflexivity. Qed.
Lemma popn_1 : forall env, popn 1 env = pop_scope env.
Proof. intros [[|sc l] c u]; reflexivity. Qed.
Lemma popn_S : forall m env, popn (S m) env = popn m (pop_scope env).
Proof. intros m [[|sc l] c u]; unfold popn, pop_scope; cbn [locals captured cur tl skipn]; [now destruct m|reflexivity]. Qed.

(* the cells of the names of a context, after the injection has grown *)
Lemma Cl_names : forall b b' B env s g, ClA b B env s g -> cinj_le b b' ->
  forall x k, assoc x B = Some k -> uname0 x /\ exists c c', lookup_scopes x (locals env) = Some c /\ b' c c' k.
Proof.
  intros b b' B env s g HC Hle x k E. destruct (cl_B _ _ _ _ _ _ _ _ _ _ _ _ _ HC x k E) as (Hx & c & c' & A1 & _ & A3).
  split; [exact Hx|]. exists c, c'. split; [exact A1|exact (Hle _ _ _ A3)].
Qed.
(* the context of the enclosing scopes, seen from inside a block *)
Lemma Cl_B_lift : forall b B env2 s g l, ClA b [] env2 s g -> tl (locals env2) = l -> locals env2 <> [] ->
  (forall x k, assoc x B = Some k -> uname0 x /\ exists c c', lookup_scopes x l = Some c /\ b c c' k) -> ClA b B env2 s g.
Proof.
  intros b B env2 s g l HC Htl Hne HB. apply (Cl_B_of path prog P cb CD base name SF b B env2 s g HC).
  intros x k E. destruct (HB x k E) as (Hx & c & c' & A1 & A2). split; [exact Hx|]. exists c, c'. split; [|exact A2].
  destruct (locals env2) as [|sc2 l2] eqn:El2; [congruence|]. cbn [tl] in Htl. subst l2.
  apply NS_lookup_tl; [rewrite <- El2; exact (cl_ns _ _ _ _ _ _ _ _ _ _ _ _ _ HC)|exact (proj2 (proj2 Hx))|exact A1].
Qed.

(* the result of a block that runs in its own frame (if / else bodies), relative to the state after the push *)
Definition bpost (b : cinj) (B : kctx) (rets : list kind) (lr : nat) (sl : option nat) (bt ct fin : nat) (env : fenv) (s : rstate) (g0 : gstate)
           (ap : act) (gp : gstate) (r : sres_) : Prop :=
  match r with
  | SOk sig env' s' =>
    same_tl env env' /\
    match sig with
    | SigNormal => bound2 B env' /\
        exists a' g' b', xrun prog name code ap gp a' g' /\ bext b b' s gp /\ frames g' = frames g0 /\ act_same ap a' /\
          a_ss ap <= S (a_ss a') /\ keep b gp g' /\ lens s s' gp g' /\ a_ip a' = fin /\ a_ops a' = [] /\ ClA b' B env' s' g'
    | SigBreak => exists m a' g' b', sl = Some m /\ 1 <= m /\
        xrun prog name code ap gp a' g' /\ bext b b' s gp /\ act_same ap a' /\ a_ss ap <= S (a_ss a') /\ keep b gp g' /\ lens s s' gp g' /\
        a_ip a' = bt /\ a_ops a' = [] /\ ClA b' [] (popn m env') s' g' /\ frames g' = skipn m (frames g0)
    | SigContinue => exists m a' g' b', sl = Some m /\ 1 <= m /\
        xrun prog name code ap gp a' g' /\ bext b b' s gp /\ act_same ap a' /\ a_ss ap <= S (a_ss a') /\ keep b gp g' /\ lens s s' gp g' /\
        a_ip a' = ct /\ a_ops a' = [] /\ ClA b' [] (popn (m - 1) env') s' g' /\ tl (frames g') = skipn m (frames g0) /\
        lkeep lr (skipn (m - 1) (frames g0)) (frames g')
    | SigReturn (Some v) => exists a' g' b' w k,
        xrun prog name code ap gp a' g' /\ nth_error code (a_ip a') = Some (mkI OP_RET []) /\ a_ops a' = [w] /\
        bext b b' s gp /\ heap_ok b' s' g' /\ vrel b' k v w /\ In k rets /\ out g' = rout s' /\
        drop_to_function (frames g') = base /\ keep b gp g' /\ lens s s' gp g'
    | SigReturn None => exists a' g' b',
        xrun prog name code ap gp a' g' /\ nth_error code (a_ip a') = Some (mkI OP_RET []) /\ a_ops a' = [] /\
        bext b b' s gp /\ heap_ok b' s' g' /\ In KN rets /\ out g' = rout s' /\
        drop_to_function (frames g') = base /\ keep b gp g' /\ lens s s' gp g'
    end
  | SFailed f s' => fail_post f (exists e g', xfail prog name code ap gp e g' /\ err_rel_s f e /\ out g' = rout s')
  | SFuel => True
  end.

Lemma bound2_eq : forall B env env', bound2 B env -> locals env' = locals env -> bound2 B env'.
Proof. intros B env env' [H1 H2] E. split; [intros x; rewrite E; apply H1|exact H2]. Qed.

Lemma in_block_sim : forall body, bspec body -> forall b B lr il sl bt ct k0 fuel kb a g env s lb B' rets,
  fuel <= FU -> kblock SF il B CD body = Some (B', rets) -> bound2 B env -> installed (snd (bc path c0 lr (option_map S sl) k0 body)) ->
  items_at code bt ct kb (fst (bc path c0 lr (option_map S sl) k0 body) ++ [I OP_DONE []]) ->
  kb + length (fst (bc path c0 lr (option_map S sl) k0 body)) + 1 < length code ->
  lcok il sl bt ct env (kb + length (fst (bc path c0 lr (option_map S sl) k0 body)) + 1) -> lrok lr kb ->
  a_ip a = kb -> a_cb a = cb -> a_ops a = [] -> length (locals env) <= S (a_ss a) -> ClA b B env s g -> special lb = true ->
  bpost b B rets lr sl bt ct (kb + length (fst (bc path c0 lr (option_map S sl) k0 body)) + 1) env s g (set_ss a (S (a_ss a))) (push_frame g lb)
        (in_block_ fuel body env s).
Proof.
  intros body Hbody b B lr il sl bt ct k0 fuel kb a g env s lb B' rets Hfu Hk Hb Hinst Hc Hend Hlc Hlrk Hip Hcb Hops Hss HC Hlb.
  set (len := length (fst (bc path c0 lr (option_map S sl) k0 body))) in *.
  apply items_at_app in Hc as [Hcb0 Hid]. apply items_at_cons in Hid as [Hid _]. cbn [item_instr I] in Hid. fold len in Hid.
  set (ap := set_ss a (S (a_ss a))). set (gp := push_frame g lb).
  assert (HC0 : ClA b B (push_scope env) s gp) by (apply Cl_push; assumption).
  assert (Hb0 : bound2 B (push_scope env)) by (apply bound2_push; exact Hb).
  pose proof (Hbody b B lr il (option_map S sl) bt ct k0 fuel kb ap gp (push_scope env) s B' rets Hfu Hk Hb0 Hinst Hcb0 ltac:(left; fold len; lia)
                ltac:(eapply lcok_block; [exact Hlc|fold len; lia]) Hlrk
                Hip Hcb Hops ltac:(cbn [push_scope locals length ap set_ss a_ss]; lia) HC0) as H.
  fold len in H. unfold in_block_.
  destruct (exec_block fuel (push_scope env) body s) as [sig env2 s2|f s2|]; [|exact H|exact Logic.I].
  cbn [spost bpost] in H |- *. destruct H as [Hd H].
  destruct Hd as [Htl Hne2]. cbn [push_scope locals tl] in Htl.
  assert (Hd' : same_tl env (pop_scope env2)).
  { split; cbn [pop_scope locals]; rewrite Htl; [reflexivity|exact (Cl_ne _ _ _ _ _ _ _ _ _ _ _ _ _ HC)]. }
  split; [exact Hd'|].
  destruct sig as [| | |[v|]]; [| | |exact H|exact H].
  - destruct H as (HB2 & a2 & g2 & b2 & SM2 & Hip2 & Hops2 & HC2 & _).
    unfold smid in SM2. destruct SM2 as (R2 & E2 & T2 & A2 & S2 & K2 & L2).
    set (i1 := mkI OP_DONE []) in *.
    set (g2t := trc name a2 g2 i1).
    pose proof (Cl_trc b2 B' env2 s2 g2 name a2 i1 HC2) as HC2t. fold g2t in HC2t.
    destruct (locals env2) as [|sc2 l2] eqn:El2; [congruence|]. cbn [tl] in Htl. subst l2.
    destruct (frames g2t) as [|f2 fs2] eqn:Ef2; [exact (False_ind _ (proj2 (Rfr2_ne _ _ _ _ (cl_fr _ _ _ _ _ _ _ _ _ _ _ _ _ HC2t)) Ef2))|].
    assert (Efs : fs2 = frames g).
    { assert (Ht : tl (frames g2t) = frames g) by (change (frames g2t) with (frames g2); rewrite T2; reflexivity). rewrite Ef2 in Ht. exact Ht. }
    subst fs2.
    assert (HC3 : ClA b2 B (pop_scope env2) s2 (with_frames g2t (frames g))).
    { apply (Cl_pop path prog P cb CD base name SF b2 B' B env2 s2 g2t sc2 (locals env) f2 (frames g) HC2t El2 (Cl_ne _ _ _ _ _ _ _ _ _ _ _ _ _ HC) Ef2).
      intros x k Hx. split; [eapply kblock_ext; eassumption|]. apply (bound2_look _ _ _ Hb). eapply assoc_in_keys; exact Hx. }
    split; [eapply bound2_eq; [exact Hb|cbn [pop_scope locals]; rewrite El2; reflexivity]|].
    cbn [ap set_ss a_ss] in S2. destruct (a_ss a2) as [|ss2] eqn:Ess2; [lia|].
    exists (set_ip (set_ss a2 ss2) (S (a_ip a2))), (with_frames g2t (frames g)), b2.
    split; [|split; [exact E2|split; [reflexivity|split; [destruct A2 as (X1 & X2 & X3); repeat split; assumption|
            split; [cbn [ap set_ip set_ss a_ss]; lia|split; [exact K2|split; [exact L2|split; [cbn [set_ip a_ip]; lia|split; [exact Hops2|exact HC3]]]]]]]]].
    eapply xrun_trans; [exact R2|].
    eapply (xstep_popscope prog name code a2 g2 i1 _ (kb + len) a2 _ ss2); [exact Hip2|exact Hid|apply dec_done|apply exec_done|exact Ess2|].
    unfold pop_frame. fold g2t. rewrite Ef2. reflexivity.
  - (* break *)
    destruct H as (m' & a2 & g2 & b2 & Hsl & Hm' & J & Hip2 & Hops2 & HC2 & Hf2).
    destruct sl as [m|]; [|discriminate]. cbn [option_map] in Hsl. inversion Hsl; subst m'.
    destruct Hlc as [_ Hlc]. destruct (Hlc m eq_refl) as (Hm1 & _).
    unfold jmid in J. destruct J as (R2 & E2 & A2 & S2 & K2 & L2).
    exists m, a2, g2, b2. split; [reflexivity|]. split; [exact Hm1|]. split; [exact R2|]. split; [exact E2|]. split; [exact A2|].
    split; [lia|]. split; [exact K2|]. split; [exact L2|]. split; [exact Hip2|]. split; [exact Hops2|].
    split; [rewrite <- popn_S; exact HC2|]. rewrite Hf2. reflexivity.
  - (* continue *)
    destruct H as (m' & a2 & g2 & b2 & Hsl & Hm' & J & Hip2 & Hops2 & HC2 & Hf2 & LK2).
    destruct sl as [m|]; [|discriminate]. cbn [option_map] in Hsl. inversion Hsl; subst m'.
    destruct Hlc as [_ Hlc]. destruct (Hlc m eq_refl) as (Hm1 & _).
    unfold jmid in J. destruct J as (R2 & E2 & A2 & S2 & K2 & L2).
    exists m, a2, g2, b2. split; [reflexivity|]. split; [exact Hm1|]. split; [exact R2|]. split; [exact E2|]. split; [exact A2|].
    split; [lia|]. split; [exact K2|]. split; [exact L2|]. split; [exact Hip2|]. split; [exact Hops2|].
    replace (S m - 1) with m in HC2, LK2 by lia. destruct m as [|m0]; [lia|]. replace (S m0 - 1) with m0 by lia.
    split; [rewrite <- popn_S; exact HC2|]. split; [rewrite Hf2; reflexivity|exact LK2].
Qed.

(* from the block (in its frame) back to the statement; after a normal completion at ffin the machine runs on to fin
   (the `jmp` over an else branch) *)
Lemma spost_of_bpost : forall b B rr rets lr sl bt ct ffin fin env s a g b1 s1 a1 g1 g0 ap gp r,
  (forall k, In k rr -> In k rets) ->
  smid b s a g b1 s1 a1 g1 -> lkeep lr (frames g) (frames g1) -> xrun prog name code a1 g1 ap gp -> frames g0 = frames g1 ->
  a_ss ap = S (a_ss a1) -> act_same a1 ap -> cells gp = cells g1 ->
  (forall a2 g2, a_ip a2 = ffin -> a_ops a2 = [] -> exists a3 g3, xrun prog name code a2 g2 a3 g3 /\ a_ip a3 = fin /\ a_ops a3 = [] /\
       frames g3 = frames g2 /\ cells g3 = cells g2 /\ out g3 = out g2 /\ act_same a2 a3 /\ a_ss a3 = a_ss a2) ->
  bpost b1 B rr lr sl bt ct ffin env s1 g0 ap gp r -> spost b B rets lr sl bt ct fin env s a g r.
Proof.
  intros b B rr rets lr sl bt ct ffin fin env s a g b1 s1 a1 g1 g0 ap gp r Hrr SM1 LK1 Rp Ef0 Hssp Hap Ecp Htail Hblk.
  assert (Hbx : forall b2, bext b1 b2 s1 gp -> bext b1 b2 s1 g1) by (intros b2 E; unfold bext in *; rewrite <- Ecp; exact E).
  assert (Hkx : forall g2, keep b1 gp g2 -> keep b1 g1 g2) by (intros g2 K c' w0 Hc'; apply K; unfold cell_get in *; rewrite Ecp; exact Hc').
  assert (Hlx : forall s2 g2, lens s1 s2 gp g2 -> lens s1 s2 g1 g2) by (intros s2 g2 L; unfold lens in *; rewrite <- Ecp; exact L).
  assert (Hjm : forall b2 s2 a2 g2, xrun prog name code ap gp a2 g2 -> bext b1 b2 s1 gp -> act_same ap a2 -> a_ss ap <= S (a_ss a2) ->
            keep b1 gp g2 -> lens s1 s2 gp g2 -> jmid b s a g b2 s2 a2 g2).
  { intros b2 s2 a2 g2 R2 E2 A2 S2 K2 L2. eapply jmid_trans; [apply jmid_of_smid; exact SM1|]. unfold jmid.
    split; [eapply xrun_trans; [exact Rp|exact R2]|]. split; [exact (Hbx _ E2)|].
    split; [eapply act_same_trans; [exact Hap|exact A2]|]. split; [lia|]. split; [exact (Hkx _ K2)|exact (Hlx _ _ L2)]. }
  assert (HT1 : tl (frames g1) = tl (frames g)) by (unfold smid in SM1; exact (proj1 (proj2 (proj2 SM1)))).
  destruct r as [sig env2 s2|f s2|]; cbn [bpost spost] in Hblk |- *; [| |exact Logic.I].
  - destruct Hblk as [Hd H]. split; [exact Hd|]. destruct sig as [| | |[v|]].
    + destruct H as (HB2 & a2 & g2 & b2 & R2 & E2 & F2 & A2 & S2 & K2 & L2 & Hip2 & Hops2 & HC2). split; [exact HB2|].
      destruct (Htail a2 g2 Hip2 Hops2) as (a3 & g3 & R3 & Hip3 & Hops3 & F3 & C3 & O3 & A3 & S3).
      exists a3, g3, b2. split; [|split; [exact Hip3|split; [exact Hops3|split; [eapply Cl_same; [exact HC2|exact C3|exact F3|exact O3]|rewrite F3, F2, Ef0; exact LK1]]]].
      eapply smid_trans; [exact SM1|]. unfold smid.
      split; [eapply xrun_trans; [exact Rp|]; eapply xrun_trans; [exact R2|exact R3]|]. split; [exact (Hbx _ E2)|].
      split; [rewrite F3, F2, Ef0; reflexivity|].
      split; [destruct A2 as (X1 & X2 & X3); destruct A3 as (Y1 & Y2 & Y3); destruct Hap as (Z1 & Z2 & Z3); repeat split; congruence|].
      split; [rewrite S3; lia|].
      split; [intros c' w0 Hc' Hn0; unfold cell_get; rewrite C3; exact (Hkx _ K2 c' w0 Hc' Hn0)|].
      destruct (Hlx _ _ L2) as [L2a L2b]. split; [exact L2a|rewrite C3; exact L2b].
    + destruct H as (m & a2 & g2 & b2 & Hsl & Hm & R2 & E2 & A2 & S2 & K2 & L2 & Hip2 & Hops2 & HC2 & Hf2).
      exists m, a2, g2, b2. split; [exact Hsl|]. split; [exact Hm|]. split; [exact (Hjm _ _ _ _ R2 E2 A2 S2 K2 L2)|].
      split; [exact Hip2|]. split; [exact Hops2|]. split; [exact HC2|]. rewrite Hf2, Ef0. apply skipn_tl_eq; [exact Hm|exact HT1].
    + destruct H as (m & a2 & g2 & b2 & Hsl & Hm & R2 & E2 & A2 & S2 & K2 & L2 & Hip2 & Hops2 & HC2 & Hf2 & LK2).
      exists m, a2, g2, b2. split; [exact Hsl|]. split; [exact Hm|]. split; [exact (Hjm _ _ _ _ R2 E2 A2 S2 K2 L2)|].
      split; [exact Hip2|]. split; [exact Hops2|]. split; [exact HC2|]. split; [rewrite Hf2, Ef0; apply skipn_tl_eq; [exact Hm|exact HT1]|].
      rewrite Ef0 in LK2. eapply lkeep_trans; [apply lkeep_skipn; [exact HT1|exact LK1]|exact LK2].
    + destruct H as (a2 & g2 & b2 & w & k & R2 & Hi2' & Hops2 & E2 & Hh2 & Hv2 & Hk2 & Ho2 & Hdr2 & K2 & L2).
      unfold smid in SM1. destruct SM1 as (R1 & E1 & T1 & A1 & S1 & K1 & L1).
      exists a2, g2, b2, w, k. split; [eapply xrun_trans; [exact R1|]; eapply xrun_trans; [exact Rp|exact R2]|].
      split; [exact Hi2'|]. split; [exact Hops2|].
      split; [eapply bext_trans; [exact E1|exact (Hbx _ E2)|exact (proj1 L1)|exact (proj2 L1)]|]. split; [exact Hh2|]. split; [exact Hv2|].
      split; [exact (Hrr _ Hk2)|]. split; [exact Ho2|]. split; [exact Hdr2|]. split; [eapply keep_trans; [exact K1|exact E1|exact (Hkx _ K2)]|eapply lens_trans; [exact L1|exact (Hlx _ _ L2)]].
    + destruct H as (a2 & g2 & b2 & R2 & Hi2' & Hops2 & E2 & Hh2 & Hk2 & Ho2 & Hdr2 & K2 & L2).
      unfold smid in SM1. destruct SM1 as (R1 & E1 & T1 & A1 & S1 & K1 & L1).
      exists a2, g2, b2. split; [eapply xrun_trans; [exact R1|]; eapply xrun_trans; [exact Rp|exact R2]|].
      split; [exact Hi2'|]. split; [exact Hops2|].
      split; [eapply bext_trans; [exact E1|exact (Hbx _ E2)|exact (proj1 L1)|exact (proj2 L1)]|]. split; [exact Hh2|].
      split; [exact (Hrr _ Hk2)|]. split; [exact Ho2|]. split; [exact Hdr2|]. split; [eapply keep_trans; [exact K1|exact E1|exact (Hkx _ K2)]|eapply lens_trans; [exact L1|exact (Hlx _ _ L2)]].
  - eapply fail_post_map; [|exact Hblk]. intros (e0 & g' & Hf & Hr). exists e0, g'.
    split; [eapply smid_fail; [exact SM1|]; eapply xrun_fail; [exact Rp|exact Hf]|exact Hr].
Qed.
Lemma no_tail : forall fin a2 g2, a_ip a2 = fin -> a_ops a2 = [] -> exists a3 g3, xrun prog name code a2 g2 a3 g3 /\ a_ip a3 = fin /\ a_ops a3 = [] /\
       frames g3 = frames g2 /\ cells g3 = cells g2 /\ out g3 = out g2 /\ act_same a2 a3 /\ a_ss a3 = a_ss a2.
Proof. intros fin a2 g2 Hip Hops. exists a2, g2. split; [apply xrun_refl|]. split; [exact Hip|]. split; [exact Hops|]. repeat split. Qed.

Ltac atpi H := first [exact H | match type of H with
  | items_at _ _ _ ?p _ => match goal with |- items_at _ _ _ ?q _ => replace q with p by lia; exact H end end].

(* ---------------------------------------------------------------- if *)
Lemma if_sim : forall cnd body, bspec body -> sspec (SIf cnd body).
Proof.
  intros cnd body Hbody b B lr il sl bt ct k0 fuel kp a g env s B' rets Hfu Hk Hb Hinst Hc Hend Hlc Hlrk Hip Hcb Hops Hss HC.
  destruct Hend as [Hend|[Hend _]]; [|discriminate Hend].
  rewrite kstmt_SIf in Hk. destruct (kexpr SF B CD cnd) as [[|? ?|]|] eqn:Ec; try discriminate. cbn [is_KD] in Hk.
  destruct (kblock SF il B CD body) as [[B1 rb]|] eqn:Eb; [|discriminate]. inversion Hk; subst B' rets.
  destruct fuel as [|fuel]; [exact Logic.I|]. rewrite exec_SIf.
  rewrite sc_SIf in *. destruct (ec path c0 lr k0 cnd) as [cc fc] eqn:Eec.
  destruct (bc path c0 lr (option_map S sl) (k0 + length fc) body) as [cb0 fb] eqn:Ebc. cbn [fst snd] in *. cbv zeta in *.
  rewrite !app_length, ?map_length in *. cbn [length] in *.
  apply (installed_app prog) in Hinst as [Hin1 Hin2].
  apply items_at_app in Hc as [Hce Hi]. apply items_at_CI in Hce. rewrite map_length in Hi.
  apply items_at_cons in Hi as [Hi1 Hib]. cbn [item_instr I] in Hi1.
  pose proof (espec_all cnd b B c0 lr k0 fuel kp a g env s KD ltac:(lia) Ec Hb) as He. rewrite Eec in He. cbn [fst snd] in He.
  specialize (He Hin1 ltac:(lia) Hce ltac:(lia) Hip Hcb Hops HC).
  destruct (eval fuel env cnd s) as [v s1|s1|f s1|]; cbn [eres_ok spost] in He |- *; [|exact Logic.I|exact He|exact Logic.I].
  apply eres_val_inv in He. destruct He as (a1 & g1 & b1 & w & M1 & Hip1 & Hops1 & HC1 & [Hfo ->]).
  pose proof (smid_of_mid _ _ _ _ _ _ _ _ _ M1) as SM1.
  set (k1 := kp + length cc) in *.
  set (off := length cb0 + 1 + 1) in *.
  set (i1 := mkI OP_IF_STMT [sN off]) in *.
  assert (Hdec : decode i1 = DOk (DIf (Z.of_nat off))) by (apply dec_if; eapply small_le; [|exact Hsmall]; unfold off; lia).
  set (g1t := trc name a1 g1 i1).
  pose proof (Cl_trc b1 B env s1 g1 name a1 i1 HC1) as HC1t. fold g1t in HC1t.
  assert (Hcb1 : a_cb a1 = cb) by (unfold smid in SM1; destruct SM1 as (_ & _ & _ & (_ & _ & A) & _); congruence).
  assert (Hss1 : a_ss a1 = a_ss a) by (unfold mid, rest in M1; destruct M1 as (_ & _ & _ & _ & S1 & _); exact S1).
  assert (Hnb : (forall b0, v <> RBool b0) -> spost b B rb lr sl bt ct (kp + (length cc + (1 + (length cb0 + 1)))) env s a g (SFailed (FType 12) s1)).
  { intros Hv. apply (spost_fail_e b B rb lr sl bt ct _ env s a g (FType 12) s1 E_not_bool g1t); [|cbn; auto|exact (cl_out _ _ _ _ _ _ _ _ _ _ _ _ _ HC1)].
    eapply smid_fail; [exact SM1|]. eapply xstep_fail; [exact Hip1|exact Hi1|exact Hdec|].
    apply (exec_if_nb _ a1 g1t (inj v)); [exact Hops1|now apply not_bool_inj]. }
  destruct v as [z|bv|t| |p bd ev]; try (apply Hnb; intros b0; discriminate).
  pose proof (exec_if (Z.of_nat off) a1 g1t bv Hops1) as Hx.
  destruct bv.
  - (* true: push <if>, run the body, done *)
    set (a1' := set_ip (set_ops a1 []) (S (a_ip a1))).
    assert (Rp : xrun prog name code a1 g1 (set_ss a1' (S (a_ss a1'))) (push_frame g1t LIf)).
    { eapply (xstep_push prog name code a1 g1 i1 _ k1 LIf (set_ops a1 [])); [exact Hip1|exact Hi1|exact Hdec|exact Hx]. }
    pose proof (in_block_sim body Hbody b1 B lr il sl bt ct (k0 + length fc) fuel (S k1) a1' g1t env s1 LIf B1 rb ltac:(lia) Eb Hb) as Hblk.
    rewrite Ebc in Hblk. cbn [fst snd] in Hblk.
    specialize (Hblk Hin2 ltac:(atpi Hib) ltac:(unfold k1; lia) ltac:(eapply lcok_mono; [exact Hlc|unfold k1; lia|reflexivity])
                     ltac:(eapply lrok_mono; [exact Hlrk|unfold k1; lia]) ltac:(cbn [a1' set_ip a_ip]; lia) Hcb1 eq_refl
                     ltac:(cbn [a1' set_ip set_ops a_ss]; rewrite Hss1; exact Hss) HC1t eq_refl).
    assert (Efin : S k1 + length cb0 + 1 = kp + (length cc + (1 + (length cb0 + 1)))) by (unfold k1; lia).
    rewrite Efin in Hblk.
    exact (spost_of_bpost b B rb rb lr sl bt ct _ _ env s a g b1 s1 a1 g1 g1t _ _ _ (fun k H => H) SM1 (lk_mid lr _ _ _ _ _ _ _ _ _ M1) Rp eq_refl eq_refl ltac:(repeat split) eq_refl (no_tail _) Hblk).
  - (* false: jump over the body *)
    split; [apply same_tl_refl; exact (Cl_ne _ _ _ _ _ _ _ _ _ _ _ _ _ HC)|]. split; [exact Hb|].
    exists (set_ip (set_ops a1 []) (a_ip (set_ops a1 []) + off)), g1t, b1.
    split; [|split; [cbn [set_ip set_ops a_ip]; rewrite Hip1; unfold k1, off; lia|split; [reflexivity|split; [exact HC1t|exact (lk_mid lr _ _ _ _ _ _ _ _ _ M1)]]]].
    eapply smid_trans; [exact SM1|]. apply smid_same; try reflexivity; [|repeat split].
    eapply (xstep_goto prog name code a1 g1 i1 _ k1 _ (set_ops a1 [])); [exact Hip1|exact Hi1|exact Hdec|exact Hx|].
    apply goto_fwd. cbn [set_ops a_ip]. rewrite Hip1. unfold off, k1. lia.
Qed.

(* ---------------------------------------------------------------- if / else *)
Lemma ifelse_sim : forall cnd body els, bspec body -> bspec els -> sspec (SIfElse cnd body els).
Proof.
  intros cnd body els Hbody Hels b B lr il sl bt ct k0 fuel kp a g env s B' rets Hfu Hk Hb Hinst Hc Hend Hlc Hlrk Hip Hcb Hops Hss HC.
  destruct Hend as [Hend|[Hend _]]; [|discriminate Hend].
  rewrite kstmt_SIfElse in Hk. destruct (kexpr SF B CD cnd) as [[|? ?|]|] eqn:Ec; try discriminate. cbn [is_KD] in Hk.
  destruct (kblock SF il B CD body) as [[B1 rb]|] eqn:Eb; [|discriminate].
  destruct (kblock SF il B CD els) as [[B2 re]|] eqn:Ee; [|discriminate]. inversion Hk; subst B' rets.
  destruct fuel as [|fuel]; [exact Logic.I|]. rewrite exec_SIfElse.
  rewrite sc_SIfElse in *. destruct (ec path c0 lr k0 cnd) as [cc fc] eqn:Eec.
  destruct (bc path c0 lr (option_map S sl) (k0 + length fc) body) as [cb0 fb] eqn:Ebc.
  destruct (bc path c0 lr (option_map S sl) (k0 + length fc + length fb) els) as [ce0 fe] eqn:Ebe. cbn [fst snd] in *. cbv zeta in *.
  rewrite !app_length, ?map_length in *. cbn [length] in *. rewrite !app_length in *. cbn [length] in *.
  apply (installed_app prog) in Hinst as [Hin1 Hin2]. apply (installed_app prog) in Hin2 as [Hin2 Hin3].
  apply items_at_app in Hc as [Hce Hi]. apply items_at_CI in Hce. rewrite map_length in Hi.
  apply items_at_cons in Hi as [Hi1 Hi]. cbn [item_instr I] in Hi1.
  apply items_at_app in Hi as [Hib Hi]. rewrite app_length in Hi. cbn [length] in Hi.
  apply items_at_cons in Hi as [Hi2 Hi]. apply items_at_cons in Hi as [Hi3 Hie]. cbn [item_instr I] in Hi2, Hi3.
  pose proof (espec_all cnd b B c0 lr k0 fuel kp a g env s KD ltac:(lia) Ec Hb) as He. rewrite Eec in He. cbn [fst snd] in He.
  specialize (He Hin1 ltac:(lia) Hce ltac:(lia) Hip Hcb Hops HC).
  destruct (eval fuel env cnd s) as [v s1|s1|f s1|]; cbn [eres_ok spost] in He |- *; [|exact Logic.I|exact He|exact Logic.I].
  apply eres_val_inv in He. destruct He as (a1 & g1 & b1 & w & M1 & Hip1 & Hops1 & HC1 & [Hfo ->]).
  pose proof (smid_of_mid _ _ _ _ _ _ _ _ _ M1) as SM1.
  set (k1 := kp + length cc) in *.
  set (kj := S k1 + (length cb0 + 1)) in *.
  set (ke := S kj) in *.
  set (fin := kp + (length cc + (1 + (length cb0 + 1 + (1 + S (length ce0 + 1)))))) in *.
  assert (Hfin : fin = S ke + length ce0 + 1) by (unfold fin, ke, kj, k1; lia).
  set (off := length cb0 + 1 + 2) in *.
  set (offj := S (length ce0 + 1) + 1) in *.
  set (i1 := mkI OP_IF_STMT [sN off]) in *.
  assert (Hdec : decode i1 = DOk (DIf (Z.of_nat off))) by (apply dec_if; eapply small_le; [|exact Hsmall]; unfold off, fin in *; lia).
  set (g1t := trc name a1 g1 i1).
  pose proof (Cl_trc b1 B env s1 g1 name a1 i1 HC1) as HC1t. fold g1t in HC1t.
  assert (Hcb1 : a_cb a1 = cb) by (unfold smid in SM1; destruct SM1 as (_ & _ & _ & (_ & _ & A) & _); congruence).
  assert (Hss1 : a_ss a1 = a_ss a) by (unfold mid, rest in M1; destruct M1 as (_ & _ & _ & _ & S1 & _); exact S1).
  assert (Hnb : (forall b0, v <> RBool b0) -> spost b B (rb ++ re) lr sl bt ct fin env s a g (SFailed (FType 12) s1)).
  { intros Hv. apply (spost_fail_e b B (rb ++ re) lr sl bt ct _ env s a g (FType 12) s1 E_not_bool g1t); [|cbn; auto|exact (cl_out _ _ _ _ _ _ _ _ _ _ _ _ _ HC1)].
    eapply smid_fail; [exact SM1|]. eapply xstep_fail; [exact Hip1|exact Hi1|exact Hdec|].
    apply (exec_if_nb _ a1 g1t (inj v)); [exact Hops1|now apply not_bool_inj]. }
  destruct v as [z|bv|t| |p bd ev]; try (apply Hnb; intros b0; discriminate).
  pose proof (exec_if (Z.of_nat off) a1 g1t bv Hops1) as Hx.
  destruct bv.
  - (* true: push <if>, run the body, done, jump over the else branch *)
    set (a1' := set_ip (set_ops a1 []) (S (a_ip a1))).
    assert (Rp : xrun prog name code a1 g1 (set_ss a1' (S (a_ss a1'))) (push_frame g1t LIf)).
    { eapply (xstep_push prog name code a1 g1 i1 _ k1 LIf (set_ops a1 [])); [exact Hip1|exact Hi1|exact Hdec|exact Hx]. }
    pose proof (in_block_sim body Hbody b1 B lr il sl bt ct (k0 + length fc) fuel (S k1) a1' g1t env s1 LIf B1 rb ltac:(lia) Eb Hb) as Hblk.
    rewrite Ebc in Hblk. cbn [fst snd] in Hblk.
    specialize (Hblk Hin2 ltac:(atpi Hib) ltac:(unfold fin, k1 in *; lia) ltac:(eapply lcok_mono; [exact Hlc|unfold fin, k1; lia|reflexivity])
                     ltac:(eapply lrok_mono; [exact Hlrk|unfold k1; lia]) ltac:(cbn [a1' set_ip a_ip]; lia) Hcb1 eq_refl
                     ltac:(cbn [a1' set_ip set_ops a_ss]; rewrite Hss1; exact Hss) HC1t eq_refl).
    apply (spost_of_bpost b B rb (rb ++ re) lr sl bt ct (S k1 + length cb0 + 1) fin env s a g b1 s1 a1 g1 g1t _ _ _
             ltac:(intros k Hk0; apply in_or_app; now left) SM1 (lk_mid lr _ _ _ _ _ _ _ _ _ M1) Rp eq_refl eq_refl ltac:(repeat split) eq_refl); [|exact Hblk].
    intros a2 g2 Hip2 Hops2.
    set (ij := mkI OP_JMP [sN offj]) in *.
    exists (set_ip a2 (kj + offj)), (trc name a2 g2 ij).
    split; [|split; [cbn [set_ip a_ip]; unfold fin, kj, offj, k1; lia|split; [exact Hops2|repeat split]]].
    eapply (xstep_goto prog name code a2 g2 ij _ kj _ a2); [rewrite Hip2; unfold kj; lia|atp Hi2| |apply exec_jmp|].
    + apply dec_jmp. eapply small_le; [|exact Hsmall]. unfold offj, fin in *. lia.
    + rewrite Hip2. replace (S k1 + length cb0 + 1) with kj by (unfold kj; lia). apply goto_fwd. unfold offj, fin, kj, k1 in *. lia.
  - (* false: jump to else_stmt, push <else>, the else block, done *)
    set (a2 := set_ip (set_ops a1 []) ke).
    set (ie := mkI OP_ELSE_STMT []) in *.
    set (g2t := trc name a2 g1t ie).
    set (a2' := set_ip a2 (S ke)).
    assert (Rg : xrun prog name code a1 g1 a2 g1t).
    { eapply (xstep_goto prog name code a1 g1 i1 _ k1 _ (set_ops a1 [])); [exact Hip1|exact Hi1|exact Hdec|exact Hx|].
      cbn [set_ops a_ip]. rewrite Hip1. rewrite goto_fwd by (unfold off, fin, k1 in *; lia). f_equal. unfold off, ke, kj. lia. }
    assert (Rp : xrun prog name code a1 g1 (set_ss a2' (S (a_ss a2'))) (push_frame g2t LElse)).
    { eapply xrun_trans; [exact Rg|].
      eapply (xstep_push prog name code a2 g1t ie _ ke LElse a2); [reflexivity|atp Hi3|apply dec_else|apply exec_else]. }
    pose proof (in_block_sim els Hels b1 B lr il sl bt ct (k0 + length fc + length fb) fuel (S ke) a2' g2t env s1 LElse B2 re ltac:(lia) Ee Hb) as Hblk.
    rewrite Ebe in Hblk. cbn [fst snd] in Hblk.
    specialize (Hblk Hin3 ltac:(atpi Hie) ltac:(unfold fin, ke, kj, k1 in *; lia) ltac:(eapply lcok_mono; [exact Hlc|unfold fin, ke, kj, k1; lia|reflexivity])
                     ltac:(eapply lrok_mono; [exact Hlrk|unfold ke, kj, k1; lia]) eq_refl Hcb1 eq_refl
                     ltac:(cbn [a2' a2 set_ip set_ops a_ss]; rewrite Hss1; exact Hss) ltac:(apply Cl_trc; exact HC1t) eq_refl).
    rewrite <- Hfin in Hblk.
    exact (spost_of_bpost b B re (rb ++ re) lr sl bt ct _ _ env s a g b1 s1 a1 g1 g2t _ _ _
             ltac:(intros k Hk0; apply in_or_app; now right) SM1 (lk_mid lr _ _ _ _ _ _ _ _ _ M1) Rp eq_refl eq_refl ltac:(repeat split) eq_refl (no_tail _) Hblk).
Qed.

(* ---------------------------------------------------------------- else if = else { the next statement } *)
Lemma sc_elif_else : forall c lr sl k cnd body nxt,
  sc path c lr sl k (SIfElif cnd body nxt) = sc path c lr sl k (SIfElse cnd body [nxt]).
Proof.
  intros. rewrite sc_SIfElif, sc_SIfElse. destruct (ec path c lr k cnd) as [cc fc].
  destruct (bc path c lr (option_map S sl) (k + length fc) body) as [cb0 fb]. cbn [bc].
  destruct (sc path c lr (option_map S sl) (k + length fc + length fb) nxt) as [ce0 fe]. now rewrite !app_nil_r.
Qed.
Lemma ifelif_sim : forall cnd body nxt, bspec body -> sspec nxt -> sspec (SIfElif cnd body nxt).
Proof.
  intros cnd body nxt Hbody Hn.
  assert (Hels : bspec [nxt]) by (apply bspec_of; constructor; [exact Hn|constructor]).
  pose proof (ifelse_sim cnd body [nxt] Hbody Hels) as H.
  intros b B lr il sl bt ct k0 fuel kp a g env s B' rets Hfu Hk Hb Hinst Hc Hend Hlc Hlrk Hip Hcb Hops Hss HC.
  assert (Ee : Eval.exec fuel env (SIfElif cnd body nxt) s = Eval.exec fuel env (SIfElse cnd body [nxt]) s).
  { destruct fuel; [reflexivity|]. rewrite exec_SIfElif, exec_SIfElse. reflexivity. }
  rewrite Ee. rewrite sc_elif_else in *. apply (H b B lr il sl bt ct k0 fuel kp a g env s B' rets Hfu); try assumption.
  rewrite kstmt_SIfElif in Hk. rewrite kstmt_SIfElse. destruct (is_KD (kexpr SF B CD cnd)); [|discriminate].
  destruct (kblock SF il B CD body) as [[B1 r1]|]; [|discriminate]. cbn [kblock].
  destruct (kstmt SF il B CD nxt) as [[B2 r2]|]; [|discriminate]. now rewrite app_nil_r.
Qed.

(* ---------------------------------------------------------------- loops *)
Lemma exec_while_nb : forall off a g v, a_ops a = [v] -> (forall b, v <> VBool b) -> exec_d (DWhile off) a g = SFail E_not_bool.
Proof. intros off a g v H Hn. unfold exec_d. rewrite H. destruct v; try reflexivity. destruct (Hn b eq_refl). Qed.

(* the back edge of a loop: jmp_pop pops the body's frame and jumps back *)
Lemma back_edge2 : forall kj n k a2 g2, nth_error code kj = Some (mkI OP_JMP_POP [neg_off n]) -> n <= length code -> kj < length code ->
  kj = k + n -> a_ip a2 = kj -> frames g2 <> [] ->
  xrun prog name code a2 g2 (set_ip a2 k) (with_frames (trc name a2 g2 (mkI OP_JMP_POP [neg_off n])) (tl (frames g2))).
Proof.
  intros kj n k a2 g2 Hi Hn Hkj Hk Hip Hne.
  set (i1 := mkI OP_JMP_POP [neg_off n]) in *.
  eapply (xstep_gotopop prog name code a2 g2 i1 _ kj _ 1 a2); [exact Hip|exact Hi| |apply exec_jmp_pop| |].
  - apply dec_jmp_pop_back. eapply small_le; [|exact Hsmall]. lia.
  - rewrite Hip. rewrite goto_back by lia. f_equal. lia.
  - cbn [pop_frames]. unfold pop_frame. cbn [trc add_trace frames]. destruct (frames g2); [congruence|reflexivity].
Qed.

(* the end of a loop body (normal end or `continue`, still inside the body's frame): pop it; the loop's context again *)
Lemma Cl_body_end : forall b2 B env env2 s2 g2, ClA b2 [] env2 s2 g2 -> tl (locals env2) = locals env -> locals env <> [] -> locals env2 <> [] ->
  bound2 B env -> (forall x k, assoc x B = Some k -> uname0 x /\ exists c c', lookup_scopes x (locals env) = Some c /\ b2 c c' k) ->
  ClA b2 B env2 s2 g2 /\ ClA b2 B (pop_scope env2) s2 (with_frames g2 (tl (frames g2))).
Proof.
  intros b2 B env env2 s2 g2 HC2 Htl Hne Hne2 Hb HB.
  assert (HCB : ClA b2 B env2 s2 g2) by (eapply Cl_B_lift; [exact HC2|exact Htl|exact Hne2|exact HB]).
  split; [exact HCB|].
  destruct (locals env2) as [|sc2 l2] eqn:El2; [congruence|]. cbn [tl] in Htl. subst l2.
  destruct (frames g2) as [|f2 fs2] eqn:Ef2; [exact (False_ind _ (proj2 (Rfr2_ne _ _ _ _ (cl_fr _ _ _ _ _ _ _ _ _ _ _ _ _ HC2)) Ef2))|].
  cbn [tl]. apply (Cl_pop path prog P cb CD base name SF b2 B B env2 s2 g2 sc2 (locals env) f2 fs2 HCB El2 Hne Ef2).
  intros x k Hx. split; [exact Hx|]. apply (bound2_look _ _ _ Hb). eapply assoc_in_keys; exact Hx.
Qed.

(* ---------------------------------------------------------------- while *)
Lemma while_sim : forall cnd body, bspec body -> sspec (SWhile cnd body).
Proof.
  intros cnd body Hbody b B lr il sl bt ct k0 fuel kp a g env s B' rets Hfu Hk Hb Hinst Hc Hend Hlc Hlrk Hip Hcb Hops Hss HC.
  destruct Hend as [Hend|[Hend _]]; [|discriminate Hend].
  rewrite kstmt_SWhile in Hk. destruct (kexpr SF B CD cnd) as [[|? ?|]|] eqn:Ec; try discriminate. cbn [is_KD] in Hk.
  destruct (kblock SF true B CD body) as [[B1 rb]|] eqn:Eb; [|discriminate]. inversion Hk; subst B' rets.
  rewrite sc_SWhile in *. destruct (ec path c0 lr k0 cnd) as [cc fc] eqn:Eec.
  destruct (bc path c0 lr (Some 1) (k0 + length fc) body) as [cb0 fb] eqn:Ebc. cbn [fst snd] in *. cbv zeta in *.
  rewrite !app_length, resolve_length, !app_length, map_length in *. cbn [length] in *.
  apply (installed_app prog) in Hinst as [Hin1 Hin2].
  apply items_at_app in Hc as [Hce Hi]. apply items_at_CI in Hce. rewrite map_length in Hi.
  apply items_at_cons in Hi as [Hi1 Hi]. cbn [item_instr I] in Hi1.
  apply items_at_resolve in Hi. apply items_at_app in Hi as [Hib Hj].
  apply items_at_cons in Hj as [Hj _]. cbn [item_instr I] in Hj.
  set (kw := kp + length cc) in *. set (kb := S kw) in *. set (kj := kb + length cb0) in *. set (fin := S kj).
  assert (Efin : kp + (length cc + (1 + (length cb0 + 1))) = fin) by (unfold fin, kj, kb, kw; lia). rewrite Efin in *.
  replace (kb + (length cb0 + 1)) with fin in Hib by (unfold fin, kj; lia).
  replace (fin - 1) with kj in Hib by (unfold fin; lia).
  set (off := length cb0 + 1 + 1) in *.
  set (i1 := mkI OP_WHILE_LOOP [sN off]) in *.
  assert (Hdec : decode i1 = DOk (DWhile (Z.of_nat off))) by (apply dec_while; eapply small_le; [|exact Hsmall]; unfold off, fin, kj, kb, kw in *; lia).
  assert (Hj' : nth_error code kj = Some (mkI OP_JMP_POP [neg_off (1 + length cb0 + length cc)])) by (exact Hj).
  revert Hfu b s a g env Hb Hlc Hip Hcb Hops Hss HC.
  induction fuel as [|n IH]; intros Hfu b s a g env Hb Hlc Hip Hcb Hops Hss HC; [exact Logic.I|].
  rewrite exec_SWhile.
  pose proof (espec_all cnd b B c0 lr k0 n kp a g env s KD ltac:(lia) Ec Hb) as He. rewrite Eec in He. cbn [fst snd] in He.
  specialize (He Hin1 ltac:(unfold fin, kj, kb, kw in *; lia) Hce ltac:(unfold fin, kj, kb, kw in *; lia) Hip Hcb Hops HC). fold kw in He.
  destruct (eval n env cnd s) as [v s1|s1|f s1|]; cbn [eres_ok spost] in He |- *; [|exact Logic.I|exact He|exact Logic.I].
  apply eres_val_inv in He. destruct He as (a1 & g1 & b1 & w & M1 & Hip1 & Hops1 & HC1 & [Hfo ->]).
  pose proof (smid_of_mid _ _ _ _ _ _ _ _ _ M1) as SM1.
  set (g1t := trc name a1 g1 i1).
  pose proof (Cl_trc b1 B env s1 g1 name a1 i1 HC1) as HC1t. fold g1t in HC1t.
  assert (Hcb1 : a_cb a1 = cb) by (unfold smid in SM1; destruct SM1 as (_ & _ & _ & (_ & _ & A) & _); congruence).
  assert (Hss1 : a_ss a1 = a_ss a) by (unfold mid, rest in M1; destruct M1 as (_ & _ & _ & _ & S1 & _); exact S1).
  assert (Hnb : (forall b0, v <> RBool b0) -> spost b B rb lr sl bt ct fin env s a g (SFailed (FType 12) s1)).
  { intros Hv. apply (spost_fail_e b B rb lr sl bt ct _ env s a g (FType 12) s1 E_not_bool g1t); [|cbn; auto|exact (cl_out _ _ _ _ _ _ _ _ _ _ _ _ _ HC1)].
    eapply smid_fail; [exact SM1|]. eapply xstep_fail; [exact Hip1|exact Hi1|exact Hdec|].
    apply (exec_while_nb _ a1 g1t (inj v)); [exact Hops1|now apply not_bool_inj]. }
  destruct v as [z|bv|t| |p bd ev]; try (apply Hnb; intros b0; discriminate).
  pose proof (exec_while (Z.of_nat off) a1 g1t bv Hops1) as Hx.
  destruct bv.
  2:{ (* false: leave *)
    split; [apply same_tl_refl; exact (Cl_ne _ _ _ _ _ _ _ _ _ _ _ _ _ HC)|]. split; [exact Hb|].
    exists (set_ip (set_ops a1 []) (a_ip (set_ops a1 []) + off)), g1t, b1.
    split; [|split; [cbn [set_ip set_ops a_ip]; rewrite Hip1; unfold fin, kj, kb, off; lia|split; [reflexivity|split; [exact HC1t|exact (lk_mid lr _ _ _ _ _ _ _ _ _ M1)]]]].
    eapply smid_trans; [exact SM1|]. apply smid_same; try reflexivity; [|repeat split].
    eapply (xstep_goto prog name code a1 g1 i1 _ kw _ (set_ops a1 [])); [exact Hip1|exact Hi1|exact Hdec|exact Hx|].
    apply goto_fwd. cbn [set_ops a_ip]. rewrite Hip1. unfold off, fin, kj, kb in *. lia. }
  (* true: push <while>, run the body *)
  set (a1' := set_ip (set_ops a1 []) (S (a_ip a1))).
  set (ap := set_ss a1' (S (a_ss a1'))). set (gp := push_frame g1t LWhile).
  assert (Rp : xrun prog name code a1 g1 ap gp).
  { eapply (xstep_push prog name code a1 g1 i1 _ kw LWhile (set_ops a1 [])); [exact Hip1|exact Hi1|exact Hdec|exact Hx]. }
  pose proof (Cl_ne _ _ _ _ _ _ _ _ _ _ _ _ _ HC) as Hne.
  assert (Hl1 : 1 <= length (locals env)) by (destruct (locals env); [congruence|cbn [length]; lia]).
  assert (HC0 : ClA b1 B (push_scope env) s1 gp) by (apply Cl_push; [exact HC1t|reflexivity]).
  assert (Hb0 : bound2 B (push_scope env)) by (apply bound2_push; exact Hb).
  pose proof (Hbody b1 B lr true (Some 1) fin kj (k0 + length fc) n kb ap gp (push_scope env) s1 B1 rb ltac:(lia) Eb Hb0) as Hbd.
  rewrite Ebc in Hbd. cbn [fst snd] in Hbd.
  specialize (Hbd Hin2 Hib ltac:(left; unfold fin, kj in *; lia)
                  ltac:(split; [discriminate|intros m Hm; inversion Hm; subst m; cbn [push_scope locals length]; unfold fin, kj in *; repeat split; lia])
                  ltac:(eapply lrok_mono; [exact Hlrk|unfold kb, kw; lia]) ltac:(cbn [ap a1' set_ss set_ip a_ip]; unfold kb; lia) Hcb1 eq_refl
                  ltac:(cbn [push_scope locals length ap a1' set_ss set_ip set_ops a_ss]; rewrite Hss1; lia) HC0).
  fold kj in Hbd. unfold in_block_.
  assert (Hnames : forall b2, cinj_le b1 b2 -> forall x k, assoc x B = Some k -> uname0 x /\ exists c c', lookup_scopes x (locals env) = Some c /\ b2 c c' k)
    by (intros b2 Hle; exact (Cl_names b1 b2 B env s1 g1t HC1t Hle)).
  assert (Hjm : forall b2 s2 a2 g2, jmid b1 s1 ap gp b2 s2 a2 g2 -> jmid b s a g b2 s2 a2 g2 /\ a_cb a2 = cb /\ a_ss a <= a_ss a2 /\ cinj_le b1 b2).
  { intros b2 s2 a2 g2 J. assert (J1 : jmid b1 s1 a1 g1 b1 s1 ap gp).
    { unfold jmid. split; [exact Rp|]. split; [apply bext_refl|]. split; [repeat split|]. split; [cbn [ap a1' set_ss set_ip set_ops a_ss]; lia|].
      split; [apply (keep_cells_app _ _ _ []); now rewrite app_nil_r|]. split; [lia|cbn; lia]. }
    pose proof (jmid_trans _ _ _ _ _ _ _ _ _ _ _ _ J1 J) as J2. pose proof (jmid_trans _ _ _ _ _ _ _ _ _ _ _ _ (jmid_of_smid _ _ _ _ _ _ _ _ SM1) J2) as J3.
    split; [exact J3|]. unfold jmid in J3, J. destruct J3 as (_ & _ & (_ & _ & A3) & S3 & _). split; [congruence|]. split; [exact S3|].
    exact (proj1 (proj1 (proj2 J))). }
  (* the end of the body: the back edge, the next iteration *)
  assert (Hnext : forall b2 s2 a2 g2 env2, jmid b1 s1 ap gp b2 s2 a2 g2 -> a_ip a2 = kj -> a_ops a2 = [] -> ClA b2 [] env2 s2 g2 ->
            tl (frames g2) = frames g1t -> tl (locals env2) = locals env -> locals env2 <> [] ->
            spost b B rb lr sl bt ct fin env s a g (Eval.exec n (pop_scope env2) (SWhile cnd body) s2)).
  { intros b2 s2 a2 g2 env2 J Hip2 Hops2 HC2 T2 Htl2 Hne2.
    destruct (Hjm _ _ _ _ J) as (J3 & Hcb2 & Hss2 & Hle2).
    set (ij := mkI OP_JMP_POP [neg_off (1 + length cb0 + length cc)]) in *.
    set (g3 := with_frames (trc name a2 g2 ij) (tl (frames g2))).
    assert (R3 : xrun prog name code a2 g2 (set_ip a2 kp) g3).
    { apply (back_edge2 kj (1 + length cb0 + length cc) kp a2 g2 Hj'); [unfold fin, kj, kb, kw in *; lia|unfold fin in *; lia|
        unfold kj, kb, kw; lia|exact Hip2|exact (proj2 (Rfr2_ne _ _ _ _ (cl_fr _ _ _ _ _ _ _ _ _ _ _ _ _ HC2)))]. }
    destruct (Cl_body_end b2 B env env2 s2 (trc name a2 g2 ij) (Cl_trc _ _ _ _ _ _ _ _ HC2) Htl2 Hne Hne2 Hb (Hnames b2 Hle2)) as [_ HC3].
    change (with_frames (trc name a2 g2 ij) (tl (frames (trc name a2 g2 ij)))) with g3 in HC3.
    assert (SM3 : smid b s a g b2 s2 (set_ip a2 kp) g3).
    { unfold jmid in J3. destruct J3 as (R0 & E0 & A0 & S0 & K0 & L0). unfold smid.
      split; [eapply xrun_trans; [exact R0|exact R3]|]. split; [exact E0|].
      split; [cbn [g3 with_frames frames]; rewrite T2; unfold smid in SM1; exact (proj1 (proj2 (proj2 SM1)))|].
      split; [destruct A0 as (X1 & X2 & X3); repeat split; assumption|]. split; [cbn [set_ip a_ss]; exact S0|]. split; [exact K0|exact L0]. }
    assert (Hd2 : same_tl env (pop_scope env2)) by (split; cbn [pop_scope locals]; rewrite Htl2; [reflexivity|exact Hne]).
    assert (Hb3 : bound2 B (pop_scope env2)) by (eapply bound2_eq; [exact Hb|cbn [pop_scope locals]; exact Htl2]).
    eapply spost_seq; [exact SM3| |exact Hd2|].
    { cbn [g3 with_frames frames]. rewrite T2. exact (lk_mid lr _ _ _ _ _ _ _ _ _ M1). }
    apply IH; [lia|exact Hb3| |reflexivity|exact Hcb2|exact Hops2| |exact HC3].
    - eapply lcok_mono; [exact Hlc|lia|cbn [pop_scope locals]; now rewrite Htl2].
    - cbn [set_ip a_ss pop_scope locals]. rewrite Htl2. lia. }
  destruct (exec_block n (push_scope env) body s1) as [sig env2 s2|f s2|]; cbn [spost] in Hbd |- *; [| |exact Logic.I].
  2:{ eapply fail_post_map; [|exact Hbd]. intros (e0 & g' & Hf & Hr). exists e0, g'.
      split; [eapply smid_fail; [exact SM1|]; eapply xrun_fail; [exact Rp|exact Hf]|exact Hr]. }
  destruct Hbd as ([Htl2 Hne2] & H). cbn [push_scope locals tl] in Htl2.
  assert (Hd2 : same_tl env (pop_scope env2)) by (split; cbn [pop_scope locals]; rewrite Htl2; [reflexivity|exact Hne]).
  destruct sig as [| | |[v|]].
  - (* the body ends normally *)
    destruct H as (_ & a2 & g2 & b2 & SM2 & Hip2 & Hops2 & HC2 & _).
    apply (Hnext b2 s2 a2 g2 env2 (jmid_of_smid _ _ _ _ _ _ _ _ SM2) Hip2 Hops2 (Cl_weaken _ _ _ _ _ _ _ _ _ _ _ _ _ HC2)); [|exact Htl2|exact Hne2].
    unfold smid in SM2. exact (proj1 (proj2 (proj2 SM2))).
  - (* break: the loop is left *)
    destruct H as (m & a2 & g2 & b2 & Hsl & _ & J & Hip2 & Hops2 & HC2 & Hf2). inversion Hsl; subst m.
    destruct (Hjm _ _ _ _ J) as (J3 & Hcb2 & Hss2 & Hle2).
    rewrite popn_1 in HC2. cbn [gp push_frame with_frames frames skipn] in Hf2.
    split; [exact Hd2|]. split; [eapply bound2_eq; [exact Hb|cbn [pop_scope locals]; exact Htl2]|].
    exists a2, g2, b2. split; [|split; [exact Hip2|split; [exact Hops2|split; [|rewrite Hf2; exact (lk_mid lr _ _ _ _ _ _ _ _ _ M1)]]]].
    + unfold jmid in J3. destruct J3 as (R0 & E0 & A0 & S0 & K0 & L0). unfold smid.
      split; [exact R0|]. split; [exact E0|]. split; [rewrite Hf2; unfold smid in SM1; exact (proj1 (proj2 (proj2 SM1)))|]. auto.
    + apply (Cl_B_of path prog P cb CD base name SF b2 B (pop_scope env2) s2 g2 HC2). intros x k E.
      destruct (Hnames b2 Hle2 x k E) as (Hux & c & c' & A1 & A2). split; [exact Hux|]. exists c, c'. split; [|exact A2].
      cbn [pop_scope locals]. rewrite Htl2. exact A1.
  - (* continue *)
    destruct H as (m & a2 & g2 & b2 & Hsl & _ & J & Hip2 & Hops2 & HC2 & Hf2 & _). inversion Hsl; subst m.
    cbn [Nat.sub] in HC2. rewrite popn_0 in HC2. cbn [gp push_frame with_frames frames skipn] in Hf2.
    exact (Hnext b2 s2 a2 g2 env2 J Hip2 Hops2 HC2 Hf2 Htl2 Hne2).
  - (* return v *)
    destruct H as (a2 & g2 & b2 & w & k & R2 & Hi2 & Hops2 & E2 & Hh2 & Hv2 & Hk2 & Ho2 & Hdr2 & K2 & L2).
    split; [exact Hd2|].
    unfold smid in SM1. destruct SM1 as (R1 & E1 & T1 & A1 & S1 & K1 & L1).
    exists a2, g2, b2, w, k. split; [eapply xrun_trans; [exact R1|]; eapply xrun_trans; [exact Rp|exact R2]|].
    split; [exact Hi2|]. split; [exact Hops2|].
    split; [eapply bext_trans; [exact E1|exact E2|exact (proj1 L1)|exact (proj2 L1)]|]. split; [exact Hh2|]. split; [exact Hv2|].
    split; [exact Hk2|]. split; [exact Ho2|]. split; [exact Hdr2|]. split; [eapply keep_trans; [exact K1|exact E1|exact K2]|eapply lens_trans; [exact L1|exact L2]].
  - (* return *)
    destruct H as (a2 & g2 & b2 & R2 & Hi2 & Hops2 & E2 & Hh2 & Hk2 & Ho2 & Hdr2 & K2 & L2).
    split; [exact Hd2|].
    unfold smid in SM1. destruct SM1 as (R1 & E1 & T1 & A1 & S1 & K1 & L1).
    exists a2, g2, b2. split; [eapply xrun_trans; [exact R1|]; eapply xrun_trans; [exact Rp|exact R2]|].
    split; [exact Hi2|]. split; [exact Hops2|].
    split; [eapply bext_trans; [exact E1|exact E2|exact (proj1 L1)|exact (proj2 L1)]|]. split; [exact Hh2|].
    split; [exact Hk2|]. split; [exact Ho2|]. split; [exact Hdr2|]. split; [eapply keep_trans; [exact K1|exact E1|exact K2]|eapply lens_trans; [exact L1|exact L2]].
Qed.

(* ================================================================ from loops *)
Lemma kvar_cons_other : forall B x y, y <> x -> kvar ((x, KD) :: B) CD y = kvar B CD y.
Proof. intros B x y Hne. unfold kvar. cbn [assoc]. rewrite str_eqb_neq by congruence. reflexivity. Qed.
Lemma ok_dexpr_weaken : forall B x e, ok_dexpr B CD e = true -> ~ In x (used_e e) -> ok_dexpr ((x, KD) :: B) CD e = true.
Proof.
  intros B x e H Hx. unfold ok_dexpr in *. rewrite !andb_true_iff in *. destruct H as [[Hp Hl] Hu]. split; [split; assumption|].
  rewrite forallb_forall in *. intros y Hy. specialize (Hu y Hy). rewrite kvar_cons_other; [exact Hu|]. intros ->. exact (Hx Hy).
Qed.

(* load_fast x; load_fast endr; bin_op < *)
Lemma cond_run2 : forall kc x endr (incl : bool) aL gL c0' ce i hi,
  nth_error code kc = Some (mkI OP_LOAD_FAST [x]) -> nth_error code (S kc) = Some (mkI OP_LOAD_FAST [endr]) ->
  nth_error code (S (S kc)) = Some (mkI OP_BIN_OP [if incl then op_le else op_lt]) ->
  a_ip aL = kc -> find_in_function x (frames gL) = Some c0' -> cell_get gL c0' = Some (VInt i) ->
  find_in_function endr (frames gL) = Some ce -> cell_get gL ce = Some (VInt hi) ->
  exists g', xrun prog name code aL gL (upd aL (S (S (S kc))) [VBool (if incl then (i <=? hi)%Z else (i <? hi)%Z)]) g' /\
             frames g' = frames gL /\ cells g' = cells gL /\ out g' = out gL.
Proof.
  intros kc x endr incl aL gL c0' ce i hi H1 H2 H3 Hip Fx Cx Fe Ce. subst kc.
  set (i1 := mkI OP_LOAD_FAST [x]) in *. set (i2 := mkI OP_LOAD_FAST [endr]) in *.
  set (i3 := mkI OP_BIN_OP [if incl then op_le else op_lt]) in *.
  set (o := a_ops aL).
  set (g1 := trc name aL gL i1).
  set (kc := a_ip aL) in *.
  set (a1 := set_ip (set_ops aL (o ++ [VInt i])) (S kc)).
  set (g2 := trc name a1 g1 i2).
  set (a2 := set_ip (set_ops a1 ((o ++ [VInt i]) ++ [VInt hi])) (S (S kc))).
  set (g3 := trc name a2 g2 i3).
  exists g3. split; [|split; [reflexivity|split; reflexivity]].
  eapply xrun_trans; [|eapply xrun_trans].
  - eapply (xstep_next prog name code aL gL i1 _ (a_ip aL) (set_ops aL (o ++ [VInt i]))); [reflexivity|exact H1|apply dec_load_fast|].
    exact (exec_load_fast x aL g1 c0' (VInt i) Fx Cx).
  - eapply (xstep_next prog name code a1 g1 i2 _ (S kc) (set_ops a1 ((o ++ [VInt i]) ++ [VInt hi]))); [reflexivity|exact H2|apply dec_load_fast|].
    exact (exec_load_fast endr a1 g2 ce (VInt hi) Fe Ce).
  - eapply (xstep_next prog name code a2 g2 i3 _ (S (S kc)) (set_ops a2 [VBool (if incl then (i <=? hi)%Z else (i <? hi)%Z)]));
      [reflexivity|exact H3|apply dec_bin_op|].
    rewrite (exec_bin_op_gen _ a2 g3 o (VInt i) (VInt hi)) by (cbn [a2 set_ip set_ops a_ops]; now rewrite <- app_assoc).
    rewrite cmp_sem. reflexivity.
Qed.

Section Loop.
Variable body : list stmt.
Hypothesis Hbody : bspec body.
Variables (incl : bool) (step : option expr) (cname idn endr : str) (collide : bool).
Variables (lr lr1 : nat) (il : bool) (sl : option nat) (bt ct : nat).
Variables (B BL B1 : kctx) (rb : list kind).
Variables (kc lbd ls k0b fin : nat) (cbody : list citem) (fbd : fbl) (cs : list instr).
Variable fuel : nat.
Hypothesis Hfu : fuel <= FU.
Variables (hi : Z) (cx c'x ce : N) (F2 : frame) (R : list frame) (lL lE : list scope).
Variable uenv : fenv -> fenv.
Hypothesis Eb : kblock SF true BL CD body = Some (B1, rb).
Hypothesis Est : match step with Some e => ok_dexpr BL CD e = true /\ step_free BL body e = true /\ cs = pcode c0 e | None => cs = [mkI OP_MAKE_INT [s_one]] end.
Hypothesis Ebc : bc path c0 (S lr1) (Some 1) k0b body = (cbody, fbd).
Hypothesis Hinb : installed fbd.
Hypothesis Hlr : lr <= lr1.
Hypothesis Hlbd : length cbody = lbd.
Hypothesis Hls : length cs = ls.
Let kw := S (S (S kc)).
Let kb := S kw.
Let ks := kb + lbd.
Let kst := ks + ls.
Let kj := S kst.
Let kd := S kj.
Hypothesis Hc1 : nth_error code kc = Some (mkI OP_LOAD_FAST [idn]).
Hypothesis Hc2 : nth_error code (S kc) = Some (mkI OP_LOAD_FAST [endr]).
Hypothesis Hc3 : nth_error code (S (S kc)) = Some (mkI OP_BIN_OP [if incl then op_le else op_lt]).
Hypothesis Hw : nth_error code kw = Some (mkI OP_WHILE_LOOP [sN (lbd + ls + 3)]).
Hypothesis Hib : items_at code kd ks kb cbody.
Hypothesis Hcs : code_at code ks cs.
Hypothesis Hst : nth_error code kst = Some (mkI OP_BIN_OP_ASSIGN [[43%N; 61%N]; idn]).
Hypothesis Hj : nth_error code kj = Some (mkI OP_JMP_POP [neg_off (lbd + ls + 5)]).
Hypothesis Hlrk1 : lrok (S lr1) kb.
Hypothesis Hkd : kd <= fin.
Hypothesis Hfin : fin < length code.
Hypothesis Hlook : lookup_scopes cname lL = Some cx.
Hypothesis HfxF2 : find_in_function idn (F2 :: R) = Some c'x.
Hypothesis HaeF2 : assoc endr (vars F2) = Some ce.
Hypothesis HlL : lL <> [].
Hypothesis HlE : lE <> [] /\ tl lE = tl lL.
Hypothesis HbLL : forall envX, locals envX = lL -> bound2 BL envX.
Hypothesis HbE : forall envX, locals envX = lE -> bound2 B envX.
Hypothesis Hidn : forall bB env2 s2 g2', ClA bB BL env2 s2 g2' -> tl (locals env2) = lL -> locals env2 <> [] -> tl (frames g2') = F2 :: R ->
  lkeep (S lr1) ({| lab := LWhile; vars := [] |} :: F2 :: R) (frames g2') -> bB cx c'x KD -> find_in_function idn (frames g2') = Some c'x.
Hypothesis Huenv : forall e, (if collide then e else undeclare e cname) = uenv e.
Hypothesis Hue : forall envX, locals envX = lL -> locals (uenv envX) = lE.
Hypothesis Hidn_nr : forall k, idn <> reg k.
Hypothesis Hexit : forall a5 g5 env5 s5 b5, locals env5 = lL -> ClA b5 BL env5 s5 g5 -> frames g5 = F2 :: R -> a_ip a5 = kd -> a_ops a5 = [] ->
  exists a6 g6, xrun prog name code a5 g5 a6 g6 /\ a_ip a6 = fin /\ a_ops a6 = [] /\ act_same a5 a6 /\ a_ss a6 = a_ss a5 /\ cells g6 = cells g5 /\
    tl (frames g6) = R /\ lkeep lr (F2 :: R) (frames g6) /\ ClA b5 B (uenv env5) s5 g6 /\ locals (uenv env5) = lE.

Lemma from_loop : forall n aL gL envL sL bL, locals envL = lL -> ClA bL BL envL sL gL -> frames gL = F2 :: R ->
  a_ip aL = kc -> a_cb aL = cb -> length lL <= S (a_ss aL) -> bL cx c'x KD ->
  cell_get gL ce = Some (VInt hi) -> (forall c k, ~ bL c ce k) ->
  spost bL B rb lr sl bt ct fin envL sL aL gL (from_iter fuel incl hi step cname collide body n envL sL).
Proof.
  assert (Hsame : forall envL envX, locals envL = lL -> locals envX = lE -> same_tl envL envX).
  { intros envL envX EL EX. destruct HlE as [H1 H2]. split; [rewrite EX, EL; exact H2|rewrite EX; exact H1]. }
  assert (Hdecw : decode (mkI OP_WHILE_LOOP [sN (lbd + ls + 3)]) = DOk (DWhile (Z.of_nat (lbd + ls + 3)))).
  { apply dec_while. eapply small_le; [|exact Hsmall]. unfold kd, kj, kst, ks, kb, kw in *. lia. }
  induction n as [|n IH]; intros aL gL envL sL bL ElL HCL EfL HipL HcbL HssL HbxL HceL HcnL; [exact Logic.I|].
  rewrite from_iter_S. rewrite ElL, Hlook.
  destruct (proj1 (cl_heap _ _ _ _ _ _ _ _ _ _ _ _ _ HCL) _ _ _ HbxL) as (vx & wx & Esx & Ecx & [Hfox ->]). rewrite Esx.
  destruct vx as [i|?|?| |? ? ?]; try exact Logic.I. cbn [inj] in Ecx.
  assert (FxL : find_in_function idn (frames gL) = Some c'x) by (rewrite EfL; exact HfxF2).
  assert (FeL : find_in_function endr (frames gL) = Some ce) by (rewrite EfL; cbn [find_in_function]; now rewrite HaeF2).
  destruct (cond_run2 kc idn endr incl aL gL c'x ce i hi Hc1 Hc2 Hc3 HipL FxL Ecx FeL HceL) as (gc & Rc & Efc & Ecc & Eoc).
  set (bb := if incl then (i <=? hi)%Z else (i <? hi)%Z) in *.
  set (ac := upd aL kw [VBool bb]) in *.
  set (i_w := mkI OP_WHILE_LOOP [sN (lbd + ls + 3)]) in *.
  set (gct := trc name ac gc i_w).
  assert (HCct : ClA bL BL envL sL gct) by (apply Cl_trc; eapply Cl_same; [exact HCL|exact Ecc|exact Efc|exact Eoc]).
  pose proof (exec_while_gen (Z.of_nat (lbd + ls + 3)) ac gct [] bb eq_refl) as Hxw.
  assert (SMc : smid bL sL aL gL bL sL ac gc) by (apply smid_same; [exact Rc|exact Efc|exact Ecc|repeat split|reflexivity]).
  assert (Efct : frames gct = F2 :: R) by (change (frames gct) with (frames gc); now rewrite Efc, EfL).
  (* ---- leaving the loop at kd *)
  assert (Hleave : forall bK sK aK gK envK, jmid bL sL ac gc bK sK aK gK -> a_ip aK = kd -> a_ops aK = [] -> ClA bK BL envK sK gK ->
            locals envK = lL -> frames gK = F2 :: R ->
            spost bL B rb lr sl bt ct fin envL sL aL gL (SOk SigNormal (uenv envK) sK)).
  { intros bK sK aK gK envK J HipK HopsK HCK ElK EfK.
    destruct (Hexit aK gK envK sK bK ElK HCK EfK HipK HopsK) as (a6 & g6 & R6 & Hip6 & Hops6 & A6 & S6 & Ec6 & T6 & LK6 & HC6 & El6).
    cbn [spost]. split; [exact (Hsame _ _ ElL El6)|]. split; [exact (HbE _ El6)|].
    exists a6, g6, bK. split; [|split; [exact Hip6|split; [exact Hops6|split; [exact HC6|rewrite EfL; exact LK6]]]].
    eapply smid_trans; [exact SMc|]. unfold jmid in J. destruct J as (RB & EB & AB & SB & KB & LB). unfold smid.
    split; [eapply xrun_trans; [exact RB|exact R6]|]. split; [exact EB|]. split; [rewrite T6, Efc, EfL; reflexivity|].
    split; [eapply act_same_trans; [exact AB|exact A6]|]. split; [rewrite S6; exact SB|].
    split; [intros c' w0 Hc' Hn0; unfold cell_get; rewrite Ec6; exact (KB c' w0 Hc' Hn0)|].
    destruct LB as [L1 L2]. split; [exact L1|rewrite Ec6; exact L2]. }
  destruct bb.
  2:{ (* the counter has passed the end: leave *)
    set (a5 := set_ip (set_ops ac []) (kw + (lbd + ls + 3))).
    assert (R5 : xrun prog name code ac gc a5 gct).
    { eapply (xstep_goto prog name code ac gc i_w _ kw _ (set_ops ac [])); [reflexivity|exact Hw|exact Hdecw|exact Hxw|].
      apply goto_fwd. cbn [set_ops a_ip ac upd set_ip]. unfold kd, kj, kst, ks, kb in *. lia. }
    rewrite Huenv. apply (Hleave bL sL a5 gct envL); [|cbn [a5 set_ip a_ip]; unfold kd, kj, kst, ks, kb; lia|reflexivity|exact HCct|exact ElL|exact Efct].
    unfold jmid. split; [exact R5|]. split; [apply bext_refl|]. split; [repeat split|]. split; [cbn [a5 ac upd set_ip set_ops a_ss]; lia|].
    split; [apply (keep_cells_app _ _ _ []); now rewrite app_nil_r|]. split; [lia|cbn; lia]. }
  (* one more iteration: push <while>, run the body *)
  set (a0' := set_ip (set_ops ac []) (S (a_ip ac))).
  set (ap := set_ss a0' (S (a_ss a0'))). set (gp := push_frame gct LWhile).
  assert (Rp : xrun prog name code ac gc ap gp).
  { eapply (xstep_push prog name code ac gc i_w _ kw LWhile (set_ops ac [])); [reflexivity|exact Hw|exact Hdecw|exact Hxw]. }
  pose proof (HbLL envL ElL) as HbL.
  assert (HneL : locals envL <> []) by (rewrite ElL; exact HlL).
  assert (Hl1 : 1 <= length lL) by (destruct lL; [congruence|cbn [length]; lia]).
  assert (HC0 : ClA bL BL (push_scope envL) sL gp) by (apply Cl_push; [exact HCct|reflexivity]).
  pose proof (Hbody bL BL (S lr1) true (Some 1) kd ks k0b fuel kb ap gp (push_scope envL) sL B1 rb Hfu Eb (bound2_push _ _ HbL)) as Hbd.
  rewrite Ebc in Hbd. cbn [fst snd] in Hbd. rewrite Hlbd in Hbd.
  specialize (Hbd Hinb Hib ltac:(left; unfold kd, kj, kst, ks in *; lia)
                  ltac:(split; [discriminate|intros m Hm; inversion Hm; subst m; cbn [push_scope locals length]; rewrite ElL;
                                unfold kd, kj, kst, ks in *; repeat split; lia])
                  Hlrk1 eq_refl ltac:(cbn [ap a0' ac set_ss upd set_ip set_ops a_cb]; exact HcbL) eq_refl
                  ltac:(cbn [push_scope locals length ap a0' ac set_ss upd set_ip set_ops a_ss]; rewrite ElL; apply le_n_S; exact HssL) HC0).
  fold ks in Hbd. unfold in_block_.
  assert (Ecp : cells gp = cells gL) by (cbn [gp push_frame with_frames cells gct trc add_trace]; exact Ecc).
  assert (Efp : frames gp = {| lab := LWhile; vars := [] |} :: F2 :: R) by (cbn [gp push_frame with_frames frames]; now rewrite Efct).
  assert (Hnames2 : forall bB, cinj_le bL bB -> forall y k, assoc y BL = Some k -> uname0 y /\ exists c c', lookup_scopes y (locals envL) = Some c /\ bB c c' k)
    by (intros bB Hle; exact (Cl_names bL bB BL envL sL gct HCct Hle)).
  assert (J0 : jmid bL sL ac gc bL sL ap gp).
  { unfold jmid. split; [exact Rp|]. split; [apply bext_refl|]. split; [repeat split|]. split; [cbn [ap a0' ac set_ss upd set_ip set_ops a_ss]; lia|].
    split; [apply (keep_cells_app _ _ _ []); now rewrite app_nil_r|]. split; [lia|cbn; lia]. }
  assert (HlLn : forall x, uname0 x -> assoc x BL = None -> lookup_scopes x lL = None).
  { intros x Hux EB0. destruct (lookup_scopes x lL) as [cz|] eqn:Ez; [|reflexivity]. exfalso.
    apply (In_keys_assoc _ BL x); [|exact EB0]. apply (bound2_in BL envL x HbL (proj2 (proj2 Hux))). rewrite ElL, Ez. discriminate. }
  assert (Hkeep : forall sig env2 s2, exec_block fuel (push_scope envL) body sL = SOk sig env2 s2 ->
            forall x, In x (match step with Some se => used_e se | None => [] end) -> assoc x BL = None -> lookup_scopes x (locals env2) = None).
  { intros sig env2 s2 Eex x Hx EB0. destruct step as [se|]; [|destruct Hx]. destruct Est as (Hose & Hfree & _).
    pose proof (ok_dexpr_uname _ _ _ Hose Hx) as Hux.
    assert (Hn0 : lookup_scopes x (locals (push_scope envL)) = None) by (cbn [push_scope locals lookup_scopes assoc]; rewrite ElL; exact (HlLn x Hux EB0)).
    assert (HPre : Pre x (push_scope envL) (asgl body)).
    { right. split; [split; [exact Hn0|discriminate]|exact (step_free_ok _ _ _ _ Hfree Hx EB0)]. }
    destruct (exec_K x (proj2 (proj2 Hux)) fuel) as [_ HKb].
    pose proof (HKb (push_scope envL) body sL sig env2 s2 Eex HPre) as KK.
    rewrite (K_look x (push_scope envL) env2 KK). exact Hn0. }
  (* ---- the end of the body (normal, or `continue`): the step, the back edge, the next iteration *)
  assert (Hstep : forall bB s2 a2' g2' env2, jmid bL sL ap gp bB s2 a2' g2' -> a_ip a2' = ks -> a_ops a2' = [] -> ClA bB [] env2 s2 g2' ->
            tl (frames g2') = frames gct -> lkeep (S lr1) (frames gp) (frames g2') -> tl (locals env2) = lL -> locals env2 <> [] ->
            (forall x, In x (match step with Some se => used_e se | None => [] end) -> assoc x BL = None -> lookup_scopes x (locals env2) = None) ->
            spost bL B rb lr sl bt ct fin envL sL aL gL
              (let bump := fun (sv : rvalue) (s : rstate) =>
                 match sget s cx, sv with
                 | Some (RInt i'), RInt d => if i32_ok (i' + d)%Z then from_iter fuel incl hi step cname collide body n (pop_scope env2) (sset s cx (RInt (i' + d)%Z))
                                             else SFailed FOverflow s
                 | _, _ => SFailed (FType 13) s end in
               match step with
               | None => bump (RInt 1) s2
               | Some se => match eval fuel (pop_scope env2) se s2 with
                            | EVal sv s => bump sv s | ENoVal s => SFailed (FType 3) s
                            | EFail f s => SFailed f s | EFuel => SFuel end
               end)).
  { intros bB s2 a2' g2' env2 J HipB HopsB HC2w TB LKB Htl2 Hne2 Hfr2.
    pose proof (jmid_trans _ _ _ _ _ _ _ _ _ _ _ _ (jmid_of_smid _ _ _ _ _ _ _ _ SMc) (jmid_trans _ _ _ _ _ _ _ _ _ _ _ _ J0 J)) as J1.
    unfold jmid in J1. destruct J1 as (RB & EB & AB & SB & KB & LB).
    assert (Epop : locals (pop_scope env2) = lL) by exact Htl2.
    assert (HleB : cinj_le bL bB) by exact (proj1 EB).
    destruct (Cl_body_end bB BL envL env2 s2 g2' HC2w ltac:(rewrite ElL; exact Htl2) HneL Hne2 HbL (Hnames2 bB HleB)) as [HCB _].
    assert (HbxB : bB cx c'x KD) by (exact (HleB _ _ _ HbxL)).
    assert (Fx2 : find_in_function idn (frames g2') = Some c'x).
    { apply (Hidn bB env2 s2 g2' HCB Htl2 Hne2); [rewrite TB; exact Efct|rewrite <- Efp; exact LKB|exact HbxB]. }
    assert (HcbB : a_cb a2' = cb) by (destruct AB as (_ & _ & X3); congruence).
    (* ---- after the step value d is on the stack: += , the back edge, the next iteration *)
    assert (Hbump : forall d aM gM, xrun prog name code a2' g2' aM gM -> a_ip aM = kst -> a_ops aM = [VInt d] -> ClA bB BL env2 s2 gM ->
              tl (frames gM) = tl (frames g2') -> find_in_function idn (frames gM) = Some c'x -> (exists extra, cells gM = cells g2' ++ extra) ->
              act_same a2' aM -> a_ss aM = a_ss a2' ->
              spost bL B rb lr sl bt ct fin envL sL aL gL
                (match sget s2 cx with
                 | Some (RInt i') => if i32_ok (i' + d)%Z then from_iter fuel incl hi step cname collide body n (pop_scope env2) (sset s2 cx (RInt (i' + d)%Z))
                                     else SFailed FOverflow s2
                 | _ => SFailed (FType 13) s2 end)).
    { intros d aM gM RM HipM HopsM HCM TM FxM [extra EcM] AM SM.
      destruct (proj1 (cl_heap _ _ _ _ _ _ _ _ _ _ _ _ _ HCM) _ _ _ HbxB) as (vx2 & wx2 & Esx2 & Ecx2 & [Hfox2 ->]). rewrite Esx2.
      destruct vx2 as [i'|?|?| |? ? ?]; try exact Logic.I. cbn [inj] in Ecx2.
      set (i_a := mkI OP_BIN_OP_ASSIGN [[43%N; 61%N]; idn]) in *.
      set (gMt := trc name aM gM i_a).
      assert (HcbM : a_cb aM = cb) by (destruct AM as (_ & _ & X3); congruence).
      assert (Hlv : lookup_var aM gMt idn = Some c'x) by (unfold lookup_var; change (frames gMt) with (frames gM); now rewrite FxM).
      pose proof (exec_bin_op_assign [43%N; 61%N] idn aM gMt c'x (VInt d) (VInt i') Hlv HopsM Ecx2) as Hxa.
      change (op_base [43%N; 61%N]) with op_plus in Hxa.
      change (bin_op_sem op_plus (VInt i') (VInt d)) with (arith OP_BIN_OP (i' + d)%Z) in Hxa. unfold arith in Hxa.
      assert (R0M : xrun prog name code aL gL aM gM) by (eapply xrun_trans; [exact RB|exact RM]).
      destruct (i32_ok (i' + d)%Z).
      2:{ cbn [spost fail_post]. exists (E_overflow OP_BIN_OP), gMt.
          split; [|split; [left; reflexivity|exact (cl_out _ _ _ _ _ _ _ _ _ _ _ _ _ HCM)]].
          eapply xrun_fail; [exact R0M|]. eapply xstep_fail; [exact HipM|exact Hst|apply dec_bin_op_assign|exact Hxa]. }
      set (sS := sset s2 cx (RInt (i' + d)%Z)).
      set (aS := set_ip (set_ops aM [VInt (i' + d)%Z]) (S (a_ip aM))).
      assert (HipS : a_ip aS = kj) by (cbn [aS set_ip a_ip]; now rewrite HipM).
      set (gS := cell_set gMt c'x (VInt (i' + d)%Z)).
      assert (RS : xrun prog name code aM gM aS gS).
      { eapply (xstep_next prog name code aM gM i_a _ (a_ip aM) (set_ops aM [VInt (i' + d)%Z])); [reflexivity|rewrite HipM; exact Hst|apply dec_bin_op_assign|exact Hxa]. }
      assert (HCS : ClA bB BL env2 sS gS).
      { apply (Cl_update path prog P cb CD base name SF bB BL env2 s2 gMt cx c'x KD (RInt (i' + d)%Z) (VInt (i' + d)%Z)); [apply Cl_trc; exact HCM|exact HbxB|].
        split; [exact Logic.I|reflexivity]. }
      set (ij := mkI OP_JMP_POP [neg_off (lbd + ls + 5)]) in *.
      set (gN := with_frames (trc name aS gS ij) (tl (frames gS))).
      assert (RN : xrun prog name code aS gS (set_ip aS kc) gN).
      { apply (back_edge2 kj (lbd + ls + 5) kc aS gS Hj); [unfold kd, kj, kst, ks, kb, kw in *; lia|unfold kd in *; lia|
          unfold kj, kst, ks, kb, kw; lia|exact HipS|exact (proj2 (Rfr2_ne _ _ _ _ (cl_fr _ _ _ _ _ _ _ _ _ _ _ _ _ HCS)))]. }
      assert (HCN : ClA bB BL (pop_scope env2) sS gN).
      { destruct (Cl_body_end bB BL envL env2 sS (trc name aS gS ij) (Cl_weaken _ _ _ _ _ _ _ _ _ _ _ _ _ (Cl_trc _ _ _ _ _ _ _ _ HCS))
                    ltac:(rewrite ElL; exact Htl2) HneL Hne2 HbL (Hnames2 bB HleB)) as [_ H0]. exact H0. }
      assert (EfN : frames gN = F2 :: R).
      { cbn [gN with_frames frames]. change (frames gS) with (frames gM). rewrite TM, TB. exact Efct. }
      assert (Hcne : ce <> c'x) by (intros E; apply (HcnL cx KD); rewrite E; exact HbxL).
      assert (EcS : cells gN = set_nth (N.to_nat c'x) (VInt (i' + d)%Z) (cells g2' ++ extra)).
      { cbn [gN with_frames cells trc add_trace gS cell_set gMt]. now rewrite EcM. }
      assert (SMN : smid bL sL aL gL bB sS (set_ip aS kc) gN).
      { unfold smid. split; [eapply xrun_trans; [exact R0M|]; eapply xrun_trans; [exact RS|exact RN]|].
        split; [exact EB|]. split; [rewrite EfN, EfL; reflexivity|].
        split; [eapply act_same_trans; [exact AB|]; destruct AM as (X1 & X2 & X3); repeat split; assumption|].
        split; [cbn [set_ip aS set_ops a_ss]; rewrite SM; exact SB|].
        split.
        - intros c' w0 Hc' Hn0. pose proof (KB c' w0 Hc' Hn0) as H2. unfold cell_get in *. rewrite EcS.
          rewrite nth_error_set_nth_other; [rewrite nth_error_app1; [exact H2|apply nth_error_Some; congruence]|].
          intros E. apply N2Nat.inj in E. subst c'. exact (Hn0 cx KD HbxL).
        - destruct LB as [L1 L2]. split; [cbn [sS sset store]; rewrite set_nth_length; exact L1|].
          rewrite EcS, set_nth_length, app_length. lia. }
      assert (HceN : cell_get gN ce = Some (VInt hi)).
      { pose proof (KB ce _ HceL HcnL) as H2. unfold cell_get in *. rewrite EcS.
        rewrite nth_error_set_nth_other; [rewrite nth_error_app1; [exact H2|apply nth_error_Some; congruence]|].
        intros E. apply N2Nat.inj in E. exact (Hcne (eq_sym E)). }
      assert (HcnN : forall c k, ~ bB c ce k).
      { intros c k Hbc. destruct (proj2 EB c ce k Hbc) as [H0|[_ H2]]; [exact (HcnL c k H0)|].
        assert (N.to_nat ce < length (cells gL)) by (apply nth_error_Some; unfold cell_get in HceL; congruence). lia. }
      eapply spost_seq; [exact SMN|rewrite EfN, EfL; apply lkeep_refl|split; [rewrite Epop, ElL; reflexivity|rewrite Epop; exact HlL]|].
      apply IH; [exact Epop|exact HCN|exact EfN|reflexivity|cbn [set_ip aS set_ops a_cb]; exact HcbM| |exact HbxB|exact HceN|exact HcnN].
      cbn [set_ip aS set_ops a_ss]. rewrite SM. lia. }
    cbv zeta. destruct step as [se|].
    - (* a step expression: call-free, over locals of the loop's context; the reference semantics is outside the body's scope *)
      destruct Est as (Hose & Hfree & Ecs). subst cs.
      assert (HE : forall x c, assoc x BL <> None -> lookup_scopes x (locals env2) = Some c ->
                lookup_scopes x (locals (pop_scope env2) ++ captured (pop_scope env2)) = Some c).
      { intros x c HxB Hlk. apply lookup_app_some. cbn [pop_scope locals]. rewrite Htl2.
        destruct (assoc x BL) as [kx|] eqn:EB0; [|congruence].
        destruct (Hnames2 bB HleB x kx EB0) as (Hux & c1 & c1' & A1 & _). rewrite ElL in A1.
        destruct (locals env2) as [|sc2 l2] eqn:E2l; [congruence|]. cbn [tl] in Htl2. subst l2.
        pose proof (NS_lookup_tl sc2 lL x c1 ltac:(rewrite <- E2l; exact (cl_ns _ _ _ _ _ _ _ _ _ _ _ _ _ HCB)) (proj2 (proj2 Hux)) A1) as H2.
        rewrite H2 in Hlk. inversion Hlk; subst c. exact A1. }
      assert (HN : forall x, In x (used_e se) -> assoc x BL = None ->
                lookup_scopes x (locals env2) = None /\ lookup_scopes x (locals (pop_scope env2)) = None).
      { intros x Hx EB0. split; [exact (Hfr2 x Hx EB0)|]. rewrite Epop. exact (HlLn x (ok_dexpr_uname _ _ _ Hose Hx) EB0). }
      pose proof (lexpr_run bB BL se c0 fuel ks a2' g2' env2 (pop_scope env2) s2 Hose HE HN eq_refl ltac:(lia) Hcs
                    ltac:(rewrite Hls; unfold kd, kj, kst in *; lia) HipB HopsB HcbB HCB) as Hse.
      rewrite Hls in Hse. fold kst in Hse.
      destruct (eval fuel (pop_scope env2) se s2) as [sv s3|s3|f s3|]; [|contradiction| |exact Logic.I].
      + destruct Hse as (-> & Hfos & gM & RM & HCM & HeM).
        destruct sv as [d|?|?| |? ? ?]; try (destruct (sget s2 cx) as [[?|?|?| |? ? ?]|]; exact Logic.I).
        apply (Hbump d (upd a2' kst [inj (RInt d)]) gM RM eq_refl eq_refl HCM (ext_tail _ _ _ _ _ HeM)); [|exact (ext_cells _ _ _ _ _ HeM)|repeat split|reflexivity].
        rewrite (ext_find _ _ _ _ _ HeM); [exact Fx2|]. intros (k & _ & _ & E). exact (Hidn_nr k E).
      + destruct Hse as (-> & e0 & g' & Hf & Hr & Ho). cbn [spost]. apply fail_post_intro. exists e0, g'.
        split; [eapply xrun_fail; [exact RB|exact Hf]|]. split; [now apply err_rel_s_of|exact Ho].
    - (* step 1 *)
      subst cs. cbn [length] in Hls. subst ls.
      set (i_m := mkI OP_MAKE_INT [s_one]) in *.
      set (aM := set_ip (set_ops a2' [VInt 1]) (S (a_ip a2'))). set (gM := trc name a2' g2' i_m).
      assert (RM : xrun prog name code a2' g2' aM gM).
      { eapply (xstep_next prog name code a2' g2' i_m _ (a_ip a2') (set_ops a2' [VInt 1])); [reflexivity| |exact (dec_make_int 1 eq_refl)|].
        - rewrite HipB. specialize (Hcs 0 i_m eq_refl). now rewrite Nat.add_0_r in Hcs.
        - rewrite exec_make_int, HopsB. reflexivity. }
      apply (Hbump 1%Z aM gM RM ltac:(cbn [aM set_ip a_ip]; rewrite HipB; unfold kst; lia) eq_refl (Cl_trc _ _ _ _ _ _ _ _ HCB) eq_refl Fx2
               ltac:(exists []; now rewrite app_nil_r) ltac:(repeat split) eq_refl). }
  destruct (exec_block fuel (push_scope envL) body sL) as [sig env2 s2|f s2|] eqn:Eex; cbn [spost] in Hbd |- *; [| |exact Logic.I].
  first [pose proof (Hkeep _ _ _ Eex) as Hfr2|pose proof (Hkeep _ _ _ eq_refl) as Hfr2]. clear Hkeep.
  2:{ eapply fail_post_map; [|exact Hbd]. intros (e0 & g' & Hf & Hr). exists e0, g'.
      split; [eapply smid_fail; [exact SMc|]; eapply xrun_fail; [exact Rp|exact Hf]|exact Hr]. }
  destruct Hbd as ([Htl2 Hne2] & H). cbn [push_scope locals tl] in Htl2. rewrite ElL in Htl2.
  assert (Epop : locals (pop_scope env2) = lL) by exact Htl2.
  assert (Hbxt : forall bB, bext bL bB sL gp -> bext bL bB sL gL).
  { intros bB [E1 E2]. split; [exact E1|]. intros c c' k1' Hbc. destruct (E2 c c' k1' Hbc) as [H0|[H1 H2]]; [now left|right; rewrite <- Ecp; auto]. }
  destruct sig as [| | |[v|]].
  - (* the body ends normally *)
    destruct H as (_ & a2' & g2' & bB & SMB & HipB & HopsB & HCB0 & LKB).
    apply (Hstep bB s2 a2' g2' env2 (jmid_of_smid _ _ _ _ _ _ _ _ SMB) HipB HopsB (Cl_weaken _ _ _ _ _ _ _ _ _ _ _ _ _ HCB0)); [|exact LKB|exact Htl2|exact Hne2|exact Hfr2].
    unfold smid in SMB. exact (proj1 (proj2 (proj2 SMB))).
  - (* break: leave the loop *)
    destruct H as (m & aK & gK & bK & HslK & _ & J & HipK & HopsK & HCK & HfK). inversion HslK; subst m.
    rewrite popn_1 in HCK. cbn [gp push_frame with_frames frames skipn] in HfK.
    assert (HCKB : ClA bK BL (pop_scope env2) s2 gK).
    { apply (Cl_B_of path prog P cb CD base name SF bK BL (pop_scope env2) s2 gK HCK). intros y k E.
      destruct (Hnames2 bK (proj1 (proj1 (proj2 J))) y k E) as (Hy & c & c' & A1 & A2). split; [exact Hy|]. exists c, c'. split; [|exact A2].
      rewrite Epop, <- ElL. exact A1. }
    rewrite Huenv. apply (Hleave bK s2 aK gK (pop_scope env2) (jmid_trans _ _ _ _ _ _ _ _ _ _ _ _ J0 J) HipK HopsK HCKB Epop). rewrite HfK. exact Efct.
  - (* continue: on to the step *)
    destruct H as (m & aK & gK & bK & HslK & _ & J & HipK & HopsK & HCK & HfK & LKK). inversion HslK; subst m.
    cbn [Nat.sub] in HCK, LKK. rewrite popn_0 in HCK. cbn [gp push_frame with_frames frames skipn] in HfK. cbn [skipn] in LKK.
    exact (Hstep bK s2 aK gK env2 J HipK HopsK HCK HfK LKK Htl2 Hne2 Hfr2).
  - (* return from inside the loop *)
    destruct H as (a' & g' & b' & w & k & RB & HiB & HopsB & EB & HhB & HvB & HkB & HoB & HdrB & KB & LB).
    rewrite Huenv. split; [exact (Hsame _ _ ElL (Hue _ Epop))|].
    exists a', g', b', w, k. split; [eapply xrun_trans; [exact Rc|]; eapply xrun_trans; [exact Rp|exact RB]|].
    split; [exact HiB|]. split; [exact HopsB|]. split; [exact (Hbxt _ EB)|].
    split; [exact HhB|]. split; [exact HvB|]. split; [exact HkB|]. split; [exact HoB|]. split; [exact HdrB|]. split.
    + intros c' w0 Hc' Hn0. apply KB; [unfold cell_get in *; rewrite Ecp; exact Hc'|exact Hn0].
    + destruct LB as [L1 L2]. split; [exact L1|rewrite <- Ecp; exact L2].
  - destruct H as (a' & g' & b' & RB & HiB & HopsB & EB & HhB & HkB & HoB & HdrB & KB & LB).
    rewrite Huenv. split; [exact (Hsame _ _ ElL (Hue _ Epop))|].
    exists a', g', b'. split; [eapply xrun_trans; [exact Rc|]; eapply xrun_trans; [exact Rp|exact RB]|].
    split; [exact HiB|]. split; [exact HopsB|]. split; [exact (Hbxt _ EB)|].
    split; [exact HhB|]. split; [exact HkB|]. split; [exact HoB|]. split; [exact HdrB|]. split.
    + intros c' w0 Hc' Hn0. apply KB; [unfold cell_get in *; rewrite Ecp; exact Hc'|exact Hn0].
    + destruct LB as [L1 L2]. split; [exact L1|rewrite <- Ecp; exact L2].
Qed.
End Loop.
(* store_fast y for a name that is not a user name (a loop register): a cell of the VM's own *)
Lemma store_fast_reg : forall b B env s a1 g1 k1 y w, nth_error code k1 = Some (mkI OP_STORE_FAST [y]) ->
  a_ip a1 = k1 -> a_ops a1 = [w] -> ClA b B env s g1 -> ~ uname0 y ->
  exists f fs g2, frames g1 = f :: fs /\
    xrun prog name code a1 g1 (upd a1 (S k1) []) g2 /\ ClA b B env s g2 /\
    frames g2 = {| lab := lab f; vars := assoc_set y (N.of_nat (length (cells g1))) (vars f) |} :: fs /\
    cells g2 = cells g1 ++ [w] /\ out g2 = out g1 /\ (forall c k, ~ b c (N.of_nat (length (cells g1))) k).
Proof.
  intros b B env s a1 g1 k1 y w Hi Hip Hops HC Hy. subst k1.
  set (i1 := mkI OP_STORE_FAST [y]) in *.
  destruct (Cl_bind_reg path prog P cb CD base name SF b B env s (trc name a1 g1 i1) y w (Cl_trc _ _ _ _ _ _ _ _ HC) Hy)
    as (f & fs & Ef & Hb). cbv zeta in Hb. destruct Hb as [Hb HC2].
  match type of HC2 with Cl _ _ _ _ _ _ _ _ _ _ _ _ ?G => set (g2 := G) in * end.
  exists f, fs, g2. split; [exact Ef|]. split; [|split; [exact HC2|split; [reflexivity|split; [reflexivity|split; [reflexivity|]]]]].
  - eapply (xstep_next prog name code a1 g1 i1 _ (a_ip a1) (set_ops a1 [])); [reflexivity|exact Hi|apply dec_store_fast|].
    apply (exec_store_fast y a1 _ w g2); [exact Hops|exact Hb].
  - intros c k Hb0. destruct (heap_valid path prog _ _ _ _ _ _ (cl_heap _ _ _ _ _ _ _ _ _ _ _ _ _ HC) Hb0) as [_ Hc'].
    rewrite Nnat.Nat2N.id in Hc'. lia.
Qed.

Lemma bound2_same : forall B env env', bound2 B env -> (forall x, x <> hid -> lookup_scopes x (locals env') = lookup_scopes x (locals env)) -> bound2 B env'.
Proof. intros B env env' [H1 H2] E. split; [intros x Hx; rewrite (E x Hx); exact (H1 x Hx)|exact H2]. Qed.

Lemma items_at_eq : forall bt ct k bt' ct' k' its, items_at code bt ct k its -> bt = bt' -> ct = ct' -> k = k' -> items_at code bt' ct' k' its.
Proof. intros bt ct k bt' ct' k' its H -> -> ->. exact H. Qed.

Lemma lk_bind2 : forall lr f fs x c, (forall j, j <= lr -> x <> lregn j) -> lkeep lr (f :: fs) ({| lab := lab f; vars := assoc_set x c (vars f) |} :: fs).
Proof. intros lr f fs x c Hx j Hj. cbn [find_in_function vars lab]. rewrite assoc_set_other; [reflexivity|]. intros E. exact (Hx j Hj (eq_sym E)). Qed.
(* a machine step that binds a name of the VM's own in the top frame *)
Lemma smid_bind : forall b s a1 g1 a2 g2 f fs y c w, xrun prog name code a1 g1 a2 g2 -> frames g1 = f :: fs ->
  frames g2 = {| lab := lab f; vars := assoc_set y c (vars f) |} :: fs -> cells g2 = cells g1 ++ [w] ->
  act_same a1 a2 -> a_ss a2 = a_ss a1 -> smid b s a1 g1 b s a2 g2.
Proof.
  intros b s a1 g1 a2 g2 f fs y c w R E1 E2 Ec A S. unfold smid. split; [exact R|]. split; [apply bext_refl|].
  split; [now rewrite E1, E2|]. split; [exact A|]. split; [lia|]. split; [apply (keep_cells_app _ _ _ [w]); exact Ec|].
  split; [lia|rewrite Ec, app_length; lia].
Qed.
Lemma stepc_inv : forall lr k step cs fs B body, stepc path c0 lr k step = (cs, fs) -> kstep SF B CD body step = true ->
  fs = [] /\ match step with Some e => ok_dexpr B CD e = true /\ step_free B body e = true /\ cs = pcode c0 e | None => cs = [mkI OP_MAKE_INT [s_one]] end.
Proof.
  intros lr k [e|] cs fs B body H Hk; cbn [stepc kstep] in *.
  - apply andb_true_iff in Hk as [Hk Hf]. rewrite (ec_pure path e (ok_dexpr_pure _ _ _ Hk)) in H. inversion H; subst. auto.
  - inversion H; subst. auto.
Qed.

Lemma dec_delete3 : forall x y z, decode (mkI OP_DELETE_NAME_SCOPED [x; y; z]) = DOk (DDelete [x; y; z]).
Proof. reflexivity. Qed.
Lemma exec_delete3 : forall x y z a g f fs cx cy cz, frames g = f :: fs -> x <> y -> x <> z -> y <> z ->
  assoc x (vars f) = Some cx -> assoc y (vars f) = Some cy -> assoc z (vars f) = Some cz ->
  exec_d (DDelete [x; y; z]) a g =
  SNext a (with_frames g ({| lab := lab f; vars := assoc_del z (assoc_del y (assoc_del x (vars f))) |} :: fs)).
Proof.
  intros x y z a g f fs cx cy cz Hf Hxy Hxz Hyz Hx Hy Hz. unfold exec_d. rewrite Hf. cbn [delete_names]. rewrite Hx.
  rewrite assoc_del_other by congruence. rewrite Hy. rewrite !assoc_del_other by congruence. rewrite Hz. reflexivity.
Qed.
Lemma from_sim : forall ea eb incl step nm collide body, bspec body -> sspec (SFrom ea eb incl step nm collide body).
Proof.
  intros ea eb incl step nm collide body Hbody b B lr il sl bt ct k0 fuel kp a g env s B' rets Hfu Hk Hb Hinst Hc Hend Hlc Hlrk Hip Hcb Hops Hss HC.
  destruct Hend as [Hend|[Hend _]]; [|discriminate Hend].
  destruct (kstmt_SFrom_parts SF il B CD ea eb incl step nm collide body _ Hk) as (Ea & Ebk & _).
  destruct fuel as [|fuel]; [exact Logic.I|]. rewrite exec_SFrom.
  rewrite sc_SFrom in *. cbv zeta in *.
  set (idn := from_idn lr nm) in *. set (lr1 := from_lr1 lr nm) in *. set (startr := lregn (S lr1)) in *. set (endr := lregn (S (S lr1))) in *.
  assert (Hlr1 : lr <= lr1) by (unfold lr1; destruct nm; cbn [from_lr1]; lia).
  destruct (ec path c0 lr1 k0 ea) as [ca fa] eqn:Eca.
  destruct (ec path c0 lr1 (k0 + length fa) eb) as [cb_ fb] eqn:Ecb.
  destruct (bc path c0 (S (S lr1)) (Some 1) (k0 + length fa + length fb) body) as [cbody fbd] eqn:Ebc.
  destruct (stepc path c0 (S (S lr1)) (k0 + length fa + length fb + length fbd) step) as [cs fs] eqn:Esc.
  cbn [fst snd] in *.
  apply (installed_app prog) in Hinst as [Hina Hinst]. apply (installed_app prog) in Hinst as [Hinb Hinst]. apply (installed_app prog) in Hinst as [Hinbd Hins].
  set (la := length ca) in *. set (lb := length cb_) in *. set (lbd := length cbody) in *. set (ls := length cs) in *.
  set (nd := if collide then 0 else 1).
  match type of Hend with kp + length ?L < _ =>
    assert (Hlen : length L = la + 1 + lb + 3 + 3 + 1 + (lbd + (ls + 1) + 1) + nd)
      by (rewrite !app_length, resolve_length, !app_length, !map_length; unfold nd; destruct collide; cbn [length]; fold la lb lbd ls; lia)
  end.
  rewrite Hlen in *. clear Hlen.
  apply items_at_app in Hc as [Hca Hc]. apply items_at_CI in Hca. rewrite map_length in Hc. fold la in Hc.
  apply items_at_cons in Hc as [Hi1 Hc]. cbn [item_instr I] in Hi1.
  apply items_at_app in Hc as [Hcb2 Hc]. apply items_at_CI in Hcb2. rewrite map_length in Hc. fold lb in Hc.
  apply items_at_cons in Hc as [Hi3 Hc]. cbn [item_instr I] in Hi3.
  apply items_at_cons in Hc as [Hi4 Hc]. cbn [item_instr I] in Hi4.
  apply items_at_cons in Hc as [Hi5 Hc]. cbn [item_instr I] in Hi5.
  apply items_at_cons in Hc as [Hc1 Hc]. apply items_at_cons in Hc as [Hc2 Hc]. apply items_at_cons in Hc as [Hc3 Hc].
  cbn [item_instr I] in Hc1, Hc2, Hc3.
  apply items_at_cons in Hc as [Hw Hc]. cbn [item_instr I] in Hw. apply items_at_app in Hc as [Hfull Hdel].
  rewrite resolve_length in Hdel. apply items_at_resolve_gen in Hfull.
  apply items_at_app in Hfull as [Hfull0 Hj]. apply items_at_app in Hfull0 as [Hib Hstp]. fold lbd in Hstp.
  apply items_at_app in Hstp as [Hcs Hstp]. apply items_at_CI in Hcs. rewrite map_length in Hstp. fold ls in Hstp.
  apply items_at_cons in Hstp as [Hst _]. cbn [item_instr I] in Hst.
  apply items_at_cons in Hj as [Hj _]. cbn [item_instr I] in Hj.
  rewrite ?app_length, ?map_length in Hw. rewrite ?app_length, ?map_length in Hj. rewrite ?app_length, ?map_length in Hdel. rewrite ?app_length, ?map_length in Hib.
  rewrite ?app_length, ?map_length in Hcs. rewrite ?app_length, ?map_length in Hst.
  cbn [length] in Hw, Hj, Hdel, Hib, Hcs, Hst. fold lbd ls in Hw, Hj, Hdel, Hib, Hcs, Hst.
  set (k1 := kp + la) in *. set (k3 := S k1 + lb) in *. set (kc := S (S (S k3))) in *.
  set (kw := S (S (S kc))). set (kb := S kw). set (ks := kb + lbd). set (kst := ks + ls). set (kj := S kst). set (kd := S kj). set (fin := kd + nd).
  assert (Hfin : kp + (la + 1 + lb + 3 + 3 + 1 + (lbd + (ls + 1) + 1) + nd) = fin) by (unfold fin, kd, kj, kst, ks, kb, kw, kc, k3, k1; lia).
  rewrite Hfin in *.
  assert (Hw' : nth_error code kw = Some (mkI OP_WHILE_LOOP [sN (lbd + ls + 3)])).
  { replace (lbd + ls + 3) with (lbd + (ls + 1) + 1 + 1) by lia. atp Hw. }
  assert (Hib' : items_at code kd ks kb cbody).
  { apply (items_at_eq _ _ _ _ _ _ _ Hib); unfold kd, kj, kst, ks, kb, kw, kc; lia. }
  assert (Hcs' : code_at code ks cs) by (atp Hcs).
  assert (Hst' : nth_error code kst = Some (mkI OP_BIN_OP_ASSIGN [[43%N; 61%N]; idn])) by (atp Hst).
  assert (Hj' : nth_error code kj = Some (mkI OP_JMP_POP [neg_off (lbd + ls + 5)])).
  { replace (lbd + ls + 5) with (1 + 3 + (lbd + (ls + 1))) by lia. atp Hj. }
  assert (Hc2' : nth_error code (S kc) = Some (mkI OP_LOAD_FAST [endr])) by (atp Hc2).
  assert (Hc3' : nth_error code (S (S kc)) = Some (mkI OP_BIN_OP [if incl then op_le else op_lt])) by (atp Hc3).
  assert (Hsml : forall j, j <= S (S lr1) -> small j).
  { intros j Hjs. unfold lrok in Hlrk. eapply small_le; [|exact Hlrk]. unfold lr1 in Hjs. destruct nm; cbn [from_lr1] in Hjs; lia. }
  assert (Hsx0 : forall x0, nm = Some x0 -> uname0 x0).
  { intros x0 ->. rewrite kstmt_SFrom in Hk. destruct collide;
      match type of Hk with (if ?c then _ else _) = _ => destruct c eqn:Hc0; [|discriminate] end;
      rewrite !andb_true_iff in Hc0; destruct Hc0 as [[[[_ _] Hs0] _] _]; exact (src_nameb_ok _ Hs0). }
  assert (Hse : startr <> endr) by (intros E; apply lregn_inj in E; [lia|apply Hsml; lia|apply Hsml; lia]).
  assert (Hie : idn <> endr).
  { unfold idn, endr, lr1. destruct nm as [x0|]; cbn [from_idn from_lr1].
    - intros E. apply (lregn_not_uname0 (S (S lr))). rewrite <- E. exact (Hsx0 x0 eq_refl).
    - intros E. apply lregn_inj in E; [lia|apply Hsml; unfold lr1; cbn; lia|apply Hsml; unfold lr1; cbn; lia]. }
  assert (His : idn <> startr).
  { unfold idn, startr, lr1. destruct nm as [x0|]; cbn [from_idn from_lr1].
    - intros E. apply (lregn_not_uname0 (S lr)). rewrite <- E. exact (Hsx0 x0 eq_refl).
    - intros E. apply lregn_inj in E; [lia|apply Hsml; unfold lr1; cbn; lia|apply Hsml; unfold lr1; cbn; lia]. }
  assert (Hlkj : forall j, j <= lr -> lregn j <> endr /\ lregn j <> startr /\ (nm = None -> lregn j <> idn)).
  { intros j Hjs. split; [|split].
    - intros E. apply lregn_inj in E; [lia|apply Hsml; lia|apply Hsml; lia].
    - intros E. apply lregn_inj in E; [lia|apply Hsml; lia|apply Hsml; lia].
    - intros ->. unfold idn. cbn [from_idn]. intros E. apply lregn_inj in E; [lia|apply Hsml; unfold lr1; cbn; lia|apply Hsml; unfold lr1; cbn; lia]. }
  (* ---- the lower bound *)
  pose proof (espec_all ea b B c0 lr1 k0 fuel kp a g env s KD ltac:(lia) Ea Hb) as He. rewrite Eca in He. cbn [fst snd] in He. fold la in He.
  specialize (He Hina ltac:(unfold fin, kd, kj, kst, ks, kb, kw, kc, k3, k1 in *; lia) Hca ltac:(unfold fin, kd, kj, kst, ks, kb, kw, kc, k3, k1 in *; lia) Hip Hcb Hops HC).
  fold k1 in He.
  destruct (eval fuel env ea s) as [va s1|s1|f s1|]; cbn [eres_ok spost] in He |- *; [|exact Logic.I|exact He|exact Logic.I].
  apply eres_val_inv in He. destruct He as (a1 & g1 & b1 & wa & M1 & Hip1 & Hops1 & HC1 & [Hfoa ->]).
  pose proof (smid_of_mid _ _ _ _ _ _ _ _ _ M1) as SM1.
  pose proof (lk_mid lr _ _ _ _ _ _ _ _ _ M1) as LK1.
  assert (Hcb1 : a_cb a1 = cb) by (unfold smid in SM1; destruct SM1 as (_ & _ & _ & (_ & _ & A) & _); congruence).
  assert (Hss1 : a_ss a1 = a_ss a) by (unfold mid, rest in M1; destruct M1 as (_ & _ & _ & _ & S1 & _); exact S1).
  pose proof (Cl_ne _ _ _ _ _ _ _ _ _ _ _ _ _ HC) as Hne.
  destruct (locals env) as [|sc0 l'] eqn:El; [congruence|].
  (* ---- store_fast L#start: the lower bound waits in a register while the upper bound is evaluated *)
  destruct (store_fast_reg b1 B env s1 a1 g1 k1 startr (inj va) Hi1 Hip1 Hops1 HC1 (lregn_not_uname0 _)) as (f1 & R & g2 & Ef1 & R2 & HC2 & Ef2 & Ec2 & Eo2 & Hn2).
  set (c's := N.of_nat (length (cells g1))) in *. set (a2 := upd a1 (S k1) []) in *.
  assert (SM2 : smid b1 s1 a1 g1 b1 s1 a2 g2) by (eapply smid_bind; [exact R2|exact Ef1|exact Ef2|exact Ec2|repeat split|reflexivity]).
  (* ---- the upper bound: no counter exists yet, on either side *)
  pose proof (espec_all eb b1 B c0 lr1 (k0 + length fa) fuel (S k1) a2 g2 env s1 KD ltac:(lia) Ebk Hb) as Heb. rewrite Ecb in Heb. cbn [fst snd] in Heb. fold lb in Heb.
  specialize (Heb Hinb ltac:(unfold fin, kd, kj, kst, ks, kb, kw, kc, k3 in *; lia) Hcb2 ltac:(unfold fin, kd, kj, kst, ks, kb, kw, kc, k3 in *; lia)
                  eq_refl ltac:(cbn [a2 upd set_ip set_ops a_cb]; exact Hcb1) eq_refl HC2).
  fold k3 in Heb.
  destruct (eval fuel env eb s1) as [vb s2|s2|f s2|]; cbn [eres_ok spost] in Heb |- *; [|exact Logic.I| |exact Logic.I].
  2:{ eapply fail_post_map; [|exact Heb]. intros (e0 & g' & Hf & Hr). exists e0, g'.
      split; [eapply smid_fail; [exact SM1|]; eapply smid_fail; [exact SM2|exact Hf]|exact Hr]. }
  apply eres_val_inv in Heb. destruct Heb as (a3 & g3 & b2 & wb & M3 & Hip3 & Hops3 & HC3 & [Hfob ->]).
  destruct va as [i0|?|?| |? ? ?]; try exact Logic.I.
  destruct vb as [hi|?|?| |? ? ?]; try exact Logic.I. cbn [inj] in *.
  pose proof (smid_of_mid _ _ _ _ _ _ _ _ _ M3) as SM3. pose proof (lk_mid lr _ _ _ _ _ _ _ _ _ M3) as LK3.
  unfold mid, rest in M3. destruct M3 as (R3 & E3 & T3 & A3 & S3 & K3 & F3 & L3).
  assert (Hcs2 : cell_get g2 c's = Some (VInt i0)).
  { unfold cell_get, c's. rewrite Ec2, Nnat.Nat2N.id, nth_error_app2, Nat.sub_diag by lia. reflexivity. }
  assert (Hcs3 : cell_get g3 c's = Some (VInt i0)) by exact (K3 _ _ Hcs2 Hn2).
  destruct (frames g3) as [|f3 R3'] eqn:Ef3; [exact (False_ind _ (proj2 (Rfr2_ne _ _ _ _ (cl_fr _ _ _ _ _ _ _ _ _ _ _ _ _ HC3)) Ef3))|].
  assert (ER : R3' = R) by (rewrite Ef2 in T3; exact T3). subst R3'.
  assert (Hnrs : ~ own_reg c0 startr) by (intros (k & _ & _ & E); exact (lregn_not_reg _ _ E)).
  assert (Hax3 : assoc startr (vars f3) = Some c's).
  { pose proof (proj2 (F3 startr Hnrs)) as H. rewrite Ef3, Ef2 in H. cbn [top_vars vars] in H. rewrite H. apply assoc_set_same. }
  (* ---- store_fast L#end *)
  destruct (store_fast_reg b2 B env s2 a3 g3 k3 endr (VInt hi) Hi3 Hip3 Hops3 HC3 (lregn_not_uname0 _)) as (f3' & R' & g4 & Ef3' & R4 & HC4 & Ef4 & Ec4 & Eo4 & Hn4).
  rewrite Ef3 in Ef3'. inversion Ef3'; subst f3' R'. clear Ef3'.
  set (ce := N.of_nat (length (cells g3))) in *. set (a4 := upd a3 (S k3) []) in *.
  set (F4 := {| lab := lab f3; vars := assoc_set endr ce (vars f3) |}) in *.
  assert (SM4 : smid b2 s2 a3 g3 b2 s2 a4 g4) by (eapply smid_bind; [exact R4|exact Ef3|exact Ef4|exact Ec4|repeat split|reflexivity]).
  assert (HaeF4 : assoc endr (vars F4) = Some ce) by (unfold F4; cbn [vars]; apply assoc_set_same).
  assert (HasF4 : assoc startr (vars F4) = Some c's) by (unfold F4; cbn [vars]; rewrite assoc_set_other by exact Hse; exact Hax3).
  assert (Hlt3 : N.to_nat c's < length (cells g3)) by (apply nth_error_Some; unfold cell_get in Hcs3; congruence).
  assert (Hcs4 : cell_get g4 c's = Some (VInt i0)).
  { unfold cell_get in *. rewrite Ec4, nth_error_app1 by exact Hlt3. exact Hcs3. }
  assert (Hce4 : cell_get g4 ce = Some (VInt hi)).
  { unfold cell_get, ce. rewrite Ec4, Nnat.Nat2N.id, nth_error_app2, Nat.sub_diag by lia. reflexivity. }
  (* ---- load_fast L#start: the first value of the counter *)
  set (i_l := mkI OP_LOAD_FAST [startr]) in *.
  set (g5 := trc name a4 g4 i_l).
  set (a5 := set_ip (set_ops a4 [VInt i0]) (S (a_ip a4))).
  assert (R5 : xrun prog name code a4 g4 a5 g5).
  { eapply (xstep_next prog name code a4 g4 i_l _ (a_ip a4) (set_ops a4 [VInt i0])); [reflexivity|cbn [a4 upd set_ip a_ip]; exact Hi4|apply dec_load_fast|].
    exact (exec_load_fast startr a4 g5 c's (VInt i0) ltac:(change (frames g5) with (frames g4); rewrite Ef4; cbn [find_in_function]; now rewrite HasF4) Hcs4). }
  assert (HC5 : ClA b2 B env s2 g5) by (apply Cl_trc; exact HC4).
  assert (Ef5 : frames g5 = F4 :: R) by exact Ef4.
  assert (Hip5 : a_ip a5 = S (S k3)) by reflexivity.
  assert (Hops5 : a_ops a5 = [VInt i0]) by reflexivity.
  assert (Hcb5 : a_cb a5 = cb).
  { cbn [a5 a4 upd set_ip set_ops a_cb]. destruct A3 as (_ & _ & X3). cbn [a2 upd set_ip set_ops a_cb] in X3. congruence. }
  assert (Hss5 : a_ss a5 = a_ss a) by (cbn [a5 a4 upd set_ip set_ops a_ss]; rewrite S3; cbn [a2 upd set_ip set_ops a_ss]; exact Hss1).
  assert (SM5 : smid b s a g b2 s2 a5 g5).
  { eapply smid_trans; [exact SM1|]. eapply smid_trans; [exact SM2|]. eapply smid_trans; [exact SM3|]. eapply smid_trans; [exact SM4|].
    apply smid_same; [exact R5|reflexivity|reflexivity|repeat split|reflexivity]. }
  assert (LK5 : lkeep lr (frames g) (frames g5)).
  { apply (lkeep_trans lr (frames g) (frames g1) (frames g5)); [exact LK1|].
    apply (lkeep_trans lr (frames g1) (frames g2) (frames g5)).
    { rewrite Ef1, Ef2. apply lk_bind2. intros j Hjj E. exact (proj1 (proj2 (Hlkj j Hjj)) (eq_sym E)). }
    apply (lkeep_trans lr (frames g2) (f3 :: R) (frames g5)); [exact LK3|].
    rewrite Ef5. apply lk_bind2. intros j Hjj E. exact (proj1 (Hlkj j Hjj) (eq_sym E)). }
  assert (Hce5 : cell_get g5 ce = Some (VInt hi)) by exact Hce4.
  cbv zeta.
  rewrite kstmt_SFrom in Hk.
  destruct nm as [x|]; destruct collide; try discriminate.
  3:{ (* ---------------- a hidden counter: L#(lr+1) on the VM, the name `hid` in the reference semantics *)
    match type of Hk with (if ?c then _ else _) = _ => destruct c eqn:Hcnd; [|discriminate] end.
    rewrite !andb_true_iff in Hcnd. destruct Hcnd as [_ Hks].
    destruct (kblock SF true B CD body) as [[B1 rb]|] eqn:Eb; [|discriminate]. inversion Hk; subst B' rets.
    destruct (stepc_inv _ _ _ _ _ B body Esc Hks) as [-> Est].
    cbn [nd] in *. unfold nd in *. apply items_at_cons in Hdel as [Hdel _]. cbn [item_instr I] in Hdel.
    (* store_fast L#(lr+1): the counter, a cell of the VM *)
    destruct (store_fast_reg b2 B env s2 a5 g5 (S (S k3)) idn (VInt i0) Hi5 Hip5 Hops5 HC5 (lregn_not_uname0 _)) as (f5' & R' & g6 & Ef5' & R6 & HC6 & Ef6 & Ec6 & Eo6 & Hn6).
    rewrite Ef5 in Ef5'. inversion Ef5'; subst f5' R'. clear Ef5'.
    set (c'x := N.of_nat (length (cells g5))) in *. set (a6 := upd a5 (S (S (S k3))) []) in *.
    set (F6 := {| lab := lab F4; vars := assoc_set idn c'x (vars F4) |}) in *.
    assert (SM6 : smid b2 s2 a5 g5 b2 s2 a6 g6) by (eapply smid_bind; [exact R6|exact Ef5|exact Ef6|exact Ec6|repeat split|reflexivity]).
    assert (HaxF2 : assoc idn (vars F6) = Some c'x) by (unfold F6; cbn [vars]; apply assoc_set_same).
    assert (HaeF2 : assoc endr (vars F6) = Some ce) by (unfold F6; cbn [vars]; rewrite assoc_set_other by (intros E; exact (Hie (eq_sym E))); exact HaeF4).
    assert (HasF2 : assoc startr (vars F6) = Some c's) by (unfold F6; cbn [vars]; rewrite assoc_set_other by (intros E; exact (His (eq_sym E))); exact HasF4).
    assert (HndF2 : keys_nd (vars F6)).
    { pose proof (cl_nd _ _ _ _ _ _ _ _ _ _ _ _ _ HC6) as Hnd. rewrite Ef6 in Hnd. inversion Hnd; assumption. }
    assert (Hlt5 : N.to_nat ce < length (cells g5)) by (apply nth_error_Some; unfold cell_get in Hce5; congruence).
    assert (Hcx6 : cell_get g6 c'x = Some (inj (RInt i0))).
    { unfold cell_get, c'x. rewrite Ec6, Nnat.Nat2N.id, nth_error_app2, Nat.sub_diag by lia. reflexivity. }
    assert (Hce6 : cell_get g6 ce = Some (VInt hi)).
    { unfold cell_get in *. rewrite Ec6, nth_error_app1 by exact Hlt5. exact Hce5. }
    (* the reference semantics declares the hidden counter now: the two cells are paired *)
    pose proof (Cl_declare_hid path prog P cb CD base name SF b2 B env s2 g6 (RInt i0) c'x sc0 l' HC6 El Logic.I Hcx6 Hn6) as HC7. cbv zeta in HC7.
    set (cx := N.of_nat (length (store s2))) in *. set (b3 := add_pair b2 cx c'x KD) in *.
    set (lL := assoc_set hid cx sc0 :: l') in *.
    match type of HC7 with Cl _ _ _ _ _ _ _ _ _ _ ?E ?S _ => set (envH := E) in *; set (sH := S) in * end.
    assert (Edec : declare env s2 hid (RInt i0) = (envH, sH)) by (unfold declare, alloc; rewrite El; reflexivity).
    change [0%N] with hid. rewrite Edec.
    set (lE := assoc_del hid (assoc_set hid cx sc0) :: l').
    assert (SM06 : smid b s a g b2 s2 a6 g6) by (eapply smid_trans; [exact SM5|exact SM6]).
    assert (SMH : smid b s a g b3 sH a6 g6).
    { unfold smid in SM06 |- *. destruct SM06 as (R0 & [Ele Efr] & T0 & A0 & S0 & K0 & [L0a L0b]).
      split; [exact R0|]. split.
      { split; [intros c c' k Hbc; left; exact (Ele _ _ _ Hbc)|].
        intros c c' k [Hbc|(-> & -> & ->)]; [exact (Efr _ _ _ Hbc)|right]. unfold cx, c'x. rewrite !Nnat.Nat2N.id. split; [exact L0a|].
        unfold smid in SM5. destruct SM5 as (_ & _ & _ & _ & _ & _ & [_ X]). exact X. }
      split; [exact T0|]. split; [exact A0|]. split; [exact S0|]. split; [exact K0|].
      split; [cbn [sH store]; rewrite app_length; lia|exact L0b]. }
    assert (LKH : lkeep lr (frames g) (frames g6)).
    { apply (lkeep_trans lr (frames g) (frames g5) (frames g6)); [exact LK5|].
      rewrite Ef5, Ef6. apply lk_bind2. intros j Hjj E. exact (proj2 (proj2 (Hlkj j Hjj)) eq_refl (eq_sym E)). }
    assert (Hlook_any : forall sc y, y <> hid -> assoc y (assoc_set hid cx sc) = assoc y sc) by (intros sc y Hy; now rewrite assoc_set_other by exact Hy).
    apply (spost_seq b B rb lr sl bt ct fin env s a g b3 envH sH a6 g6 _ SMH LKH); [split; [cbn [envH locals tl]; rewrite El; reflexivity|cbn [envH locals]; discriminate]|].
    eapply (from_loop body Hbody incl step hid idn endr false lr (S lr1) sl bt ct B B B1 rb kc lbd ls (k0 + length fa + length fb) fin cbody fbd cs fuel
              ltac:(lia) hi cx c'x ce F6 R lL lE (fun e => undeclare e hid)).
    - exact Eb.
    - exact Est.
    - exact Ebc.
    - exact Hinbd.
    - unfold lr1. cbn [from_lr1]. lia.
    - reflexivity.
    - reflexivity.
    - exact Hc1.
    - exact Hc2'.
    - exact Hc3'.
    - exact Hw'.
    - exact Hib'.
    - exact Hcs'.
    - exact Hst'.
    - exact Hj'.
    - eapply lrok_mono; [exact Hlrk|]. unfold lr1; cbn [from_lr1]. unfold fin, kd, kj, kst, ks, kb, kw, kc, k3, k1 in *. lia.
    - unfold fin. lia.
    - exact Hend.
    - cbn [lL lookup_scopes]. now rewrite assoc_set_same.
    - cbn [find_in_function]. now rewrite HaxF2.
    - exact HaeF2.
    - discriminate.
    - split; [discriminate|reflexivity].
    - intros envX EX. apply (bound2_same B env envX Hb). intros y Hy. rewrite EX, El. cbn [lL lookup_scopes]. now rewrite assoc_set_other by exact Hy.
    - intros envX EX. apply (bound2_same B env envX Hb). intros y Hy. rewrite EX, El. cbn [lE lookup_scopes].
      rewrite assoc_del_other by exact Hy. now rewrite assoc_set_other by exact Hy.
    - intros bB env2 sX g2' _ _ _ _ LK _. change idn with (lregn (S lr)). rewrite (LK (S lr) ltac:(unfold lr1; cbn [from_lr1]; lia)).
      cbn [find_in_function assoc vars lab special]. change (lregn (S lr)) with idn. now rewrite HaxF2.
    - reflexivity.
    - intros envX EX. unfold undeclare. rewrite EX. reflexivity.
    - intros k E. exact (lregn_not_reg _ _ E).
    - (* leaving the loop: the three registers and the hidden name go *)
      intros a7 g7 env7 s7 b7 El7 HC7' Ef7 Hip7 Hops7. change (a_ip a7 = kd) in Hip7.
      set (vs := assoc_del endr (assoc_del startr (assoc_del idn (vars F6)))).
      set (i_d := mkI OP_DELETE_NAME_SCOPED [idn; startr; endr]) in *.
      set (g7t := trc name a7 g7 i_d).
      exists (set_ip a7 (S kd)), (with_frames g7t ({| lab := lab F6; vars := vs |} :: R)).
      assert (Hvs : forall y, y <> idn -> y <> startr -> y <> endr -> assoc y vs = assoc y (vars F6)) by (intros y H1 H2 H3; unfold vs; now rewrite !assoc_del_other by assumption).
      split.
      { rewrite <- Hip7. eapply (xstep_next prog name code a7 g7 i_d _ (a_ip a7) a7); [reflexivity|rewrite Hip7; atp Hdel|apply dec_delete3|].
        exact (exec_delete3 idn startr endr a7 g7t F6 R c'x c's ce Ef7 His Hie Hse HaxF2 HasF2 HaeF2). }
      split; [cbn [set_ip a_ip]; unfold fin; lia|]. split; [exact Hops7|]. split; [repeat split|]. split; [reflexivity|]. split; [reflexivity|].
      split; [reflexivity|]. split.
      { intros j Hjj. cbn [with_frames frames find_in_function vars lab]. rewrite Hvs; [reflexivity| |exact (proj1 (proj2 (Hlkj j Hjj)))|exact (proj1 (Hlkj j Hjj))].
        exact (proj2 (proj2 (Hlkj j Hjj)) eq_refl). }
      split.
      { apply (Cl_undeclare_hid path prog P cb CD base name SF b7 B env7 s7 g7t (assoc_set hid cx sc0) l' F6 R vs (Cl_trc _ _ _ _ _ _ _ _ HC7') El7 Ef7).
        - intros y Hy. apply Hvs; intros ->; exact (lregn_not_uname0 _ Hy).
        - unfold vs. apply keys_nd_assoc_del. apply keys_nd_assoc_del. apply keys_nd_assoc_del. exact HndF2. }
      unfold undeclare. rewrite El7. reflexivity.
    - reflexivity.
    - exact HC7.
    - exact Ef6.
    - reflexivity.
    - cbn [a6 upd set_ip set_ops a_cb]. exact Hcb5.
    - cbn [a6 upd set_ip set_ops a_ss lL length]. rewrite Hss5. cbn [length] in Hss. exact Hss.
    - right. auto.
    - exact Hce6.
    - intros c k [Hbc|(_ & E & _)]; [exact (Hn4 c k Hbc)|]. unfold c'x in E. rewrite E, Nnat.Nat2N.id in Hlt5. lia. }
  1:{ (* ---------------- the counter is an existing local variable: assigned after both bounds, kept after the loop *)
    match type of Hk with (if ?c then _ else _) = _ => destruct c eqn:Hcnd; [|discriminate] end.
    rewrite !andb_true_iff in Hcnd. destruct Hcnd as [[[[_ _] Hsx] HxB] Hks].
    apply is_KD_eq in HxB.
    destruct (kblock SF true B CD body) as [[B1 rb]|] eqn:Eb; [|discriminate]. inversion Hk; subst B' rets.
    destruct (stepc_inv _ _ _ _ _ B body Esc Hks) as [-> Est].
    pose proof (src_nameb_ok x Hsx) as Hx.
    unfold nd in *.
    (* store x : the existing cell is written *)
    set (i_sx := mkI OP_STORE [x]) in *.
    set (g5t := trc name a5 g5 i_sx).
    pose proof (Cl_trc b2 B env s2 g5 name a5 i_sx HC5) as HC5t. fold g5t in HC5t.
    destruct (cl_B _ _ _ _ _ _ _ _ _ _ _ _ _ HC5t x KD HxB) as (_ & cx & c'x & Q1 & Q2 & Q3).
    assert (Hst0 : store_var g5t x (VInt i0) = Some (cell_set g5t c'x (VInt i0))) by (unfold store_var; now rewrite Q2).
    set (a6 := set_ip (set_ops a5 []) (S (a_ip a5))).
    set (g6 := cell_set g5t c'x (VInt i0)).
    set (sD := sset s2 cx (RInt i0)).
    assert (R6 : xrun prog name code a5 g5 a6 g6).
    { eapply (xstep_next prog name code a5 g5 i_sx _ (a_ip a5) (set_ops a5 [])); [reflexivity|rewrite Hip5; exact Hi5|apply dec_store|].
      apply (exec_store x a5 g5t (VInt i0) g6); [exact Hops5|exact Hst0]. }
    assert (HC6 : ClA b2 B env sD g6) by (apply (Cl_update path prog P cb CD base name SF b2 B env s2 g5t cx c'x KD (RInt i0) (VInt i0) HC5t Q3); split; [exact Logic.I|reflexivity]).
    assert (SM6 : smid b2 s2 a5 g5 b2 sD a6 g6).
    { unfold smid. split; [exact R6|]. split; [apply bext_refl|]. split; [reflexivity|]. split; [repeat split|]. split; [reflexivity|].
      split; [change (keep b2 g5t (cell_set g5t c'x (VInt i0))); eapply keep_cell_set; exact Q3|].
      split; [cbn [sD sset store]; rewrite set_nth_length; lia|cbn [g6 cell_set cells g5t trc add_trace]; rewrite set_nth_length; lia]. }
    assert (Eas : assign env s2 x (RInt i0) = (env, sD)).
    { unfold assign. rewrite El in Q1. rewrite El, Q1. reflexivity. }
    rewrite Eas.
    assert (Ef6 : frames g6 = F4 :: R) by exact Ef5.
    assert (Hcne : ce <> c'x) by (intros E; apply (Hn4 cx KD); rewrite E; exact Q3).
    assert (Hce6 : cell_get g6 ce = Some (VInt hi)).
    { unfold cell_get in *. cbn [g6 cell_set cells]. rewrite nth_error_set_nth_other; [exact Hce5|]. intros E. apply N2Nat.inj in E. exact (Hcne (eq_sym E)). }
    assert (Hfx4 : find_in_function x (F4 :: R) = Some c'x) by (rewrite <- Ef5; exact Q2).
    set (lL := sc0 :: l') in *.
    assert (Q1L : lookup_scopes x lL = Some cx) by (rewrite <- El; exact Q1).
    assert (SMH : smid b s a g b2 sD a6 g6) by (eapply smid_trans; [exact SM5|exact SM6]).
    assert (LKH : lkeep lr (frames g) (frames g6)) by (rewrite Ef6, <- Ef5; exact LK5).
    apply (spost_seq b B rb lr sl bt ct fin env s a g b2 env sD a6 g6 _ SMH LKH); [apply same_tl_refl; rewrite El; discriminate|].
    eapply (from_loop body Hbody incl step x x endr true lr (S lr1) sl bt ct B B B1 rb kc lbd ls (k0 + length fa + length fb) fin cbody fbd cs fuel
              ltac:(lia) hi cx c'x ce F4 R lL lL (fun e => e)).
    - exact Eb.
    - exact Est.
    - exact Ebc.
    - exact Hinbd.
    - unfold lr1. cbn [from_lr1]. lia.
    - reflexivity.
    - reflexivity.
    - exact Hc1.
    - exact Hc2'.
    - exact Hc3'.
    - exact Hw'.
    - exact Hib'.
    - exact Hcs'.
    - exact Hst'.
    - exact Hj'.
    - eapply lrok_mono; [exact Hlrk|]. unfold lr1; cbn [from_lr1]. unfold fin, kd, kj, kst, ks, kb, kw, kc, k3, k1 in *. lia.
    - unfold fin. lia.
    - exact Hend.
    - exact Q1L.
    - exact Hfx4.
    - exact HaeF4.
    - discriminate.
    - split; [discriminate|reflexivity].
    - intros envX EX. eapply bound2_eq; [exact Hb|]. rewrite EX, El. reflexivity.
    - intros envX EX. eapply bound2_eq; [exact Hb|]. rewrite EX, El. reflexivity.
    - intros bB env2 sX g2' HCB Htl2 Hne2 _ _ HbxB.
      destruct (cl_B _ _ _ _ _ _ _ _ _ _ _ _ _ HCB x KD HxB) as (_ & c2 & c2' & Y1 & Y2 & Y3).
      assert (Hlx2 : lookup_scopes x (locals env2) = Some cx).
      { destruct (locals env2) as [|sc2 l2] eqn:E2l; [congruence|]. cbn [tl] in Htl2. subst l2.
        apply NS_lookup_tl; [rewrite <- E2l; exact (cl_ns _ _ _ _ _ _ _ _ _ _ _ _ _ HCB)|exact (proj2 (proj2 Hx))|exact Q1L]. }
      rewrite Hlx2 in Y1. inversion Y1; subst c2.
      destruct (proj2 (cl_heap _ _ _ _ _ _ _ _ _ _ _ _ _ HCB) _ _ _ _ _ _ Y3 HbxB) as [Hiff _]. assert (c2' = c'x) by (apply Hiff; reflexivity). congruence.
    - reflexivity.
    - intros envX EX. exact EX.
    - intros k E. exact (src_name_not_reg x k (proj1 Hx) E).
    - (* leaving the loop: nothing to delete *)
      intros a7 g7 env7 s7 b7 El7 HC7' Ef7 Hip7 Hops7. change (a_ip a7 = kd) in Hip7.
      exists a7, g7. split; [apply xrun_refl|]. split; [rewrite Hip7; unfold fin; lia|]. split; [exact Hops7|]. split; [repeat split|]. split; [reflexivity|].
      split; [reflexivity|]. split; [now rewrite Ef7|]. split; [rewrite Ef7; apply lkeep_refl|]. split; [exact HC7'|exact El7].
    - exact El.
    - exact HC6.
    - exact Ef6.
    - reflexivity.
    - cbn [a6 set_ip set_ops a_cb]. exact Hcb5.
    - cbn [a6 set_ip set_ops a_ss lL length]. rewrite Hss5. cbn [length] in Hss. exact Hss.
    - exact Q3.
    - exact Hce6.
    - exact Hn4. }
  (* ---------------- a fresh counter: a variable of the enclosing block for the duration of the loop *)
  match type of Hk with (if ?c then _ else _) = _ => destruct c eqn:Hcnd; [|discriminate] end.
  rewrite !andb_true_iff in Hcnd. destruct Hcnd as [[[[_ _] Hsx] HxB] Hks].
  apply negb_true_iff in HxB.
  destruct (kblock SF true ((x, KD) :: B) CD body) as [[B1 rb]|] eqn:Eb; [|discriminate]. inversion Hk; subst B' rets.
  destruct (stepc_inv _ _ _ _ _ ((x, KD) :: B) body Esc Hks) as [-> Est].
  pose proof (src_nameb_ok x Hsx) as Hx.
  assert (HxnB : ~ In x (map fst B)) by (intros Hin; apply In_mem_str in Hin; congruence).
  assert (HxBn : assoc x B = None).
  { destruct (assoc x B) as [k|] eqn:E; [|reflexivity]. exfalso. apply HxnB. eapply assoc_in_keys; exact E. }
  unfold nd in *. apply items_at_cons in Hdel as [Hdel _]. cbn [item_instr I] in Hdel.
  (* store_fast x: the counter, on both sides, after both bounds *)
  set (i_sx := mkI OP_STORE_FAST [x]) in *.
  set (g5t := trc name a5 g5 i_sx).
  pose proof (Cl_trc b2 B env s2 g5 name a5 i_sx HC5) as HC5t. fold g5t in HC5t.
  assert (Hn : lookup_scopes x (sc0 :: l') = None).
  { destruct (lookup_scopes x (sc0 :: l')) eqn:E; [|reflexivity]. exfalso. apply HxnB. apply (bound2_in _ _ _ Hb (proj2 (proj2 Hx))). rewrite El. congruence. }
  assert (Ef5t : frames g5t = F4 :: R) by exact Ef5.
  destruct (Cl_declare path prog P cb CD base name SF b2 B env s2 g5t x KD (RInt i0) (VInt i0) sc0 l' F4 R HC5t Hx (conj Logic.I eq_refl) El Ef5t
              ltac:(rewrite El; exact Hn) HxBn (trace g5t)) as [HC6 He6]. cbv zeta in HC6, He6.
  set (cx := N.of_nat (length (store s2))) in *. set (c'x := N.of_nat (length (cells g5t))) in *.
  set (b3 := add_pair b2 cx c'x KD) in *.
  match type of HC6 with Cl _ _ _ _ _ _ _ _ _ _ ?E ?S ?G => set (env1 := E) in *; set (sD := S) in *; set (g6 := G) in * end.
  set (B2 := (x, KD) :: B) in *.
  set (a6 := set_ip (set_ops a5 []) (S (a_ip a5))).
  assert (R6 : xrun prog name code a5 g5 a6 g6).
  { eapply (xstep_next prog name code a5 g5 i_sx _ (a_ip a5) (set_ops a5 [])); [reflexivity|rewrite Hip5; exact Hi5|apply dec_store_fast|].
    apply (exec_store_fast x a5 g5t (VInt i0) g6); [exact Hops5|]. unfold bind_local. rewrite Ef5t. reflexivity. }
  assert (Hb2 : bound2 B2 env1) by (eapply (bound2_declare B env x KD _ sc0 l' env1 Hb El); [reflexivity|exact Hx]).
  assert (Hsc0 : assoc x sc0 = None /\ lookup_scopes x l' = None).
  { cbn [lookup_scopes] in Hn. destruct (assoc x sc0); [discriminate|]. auto. }
  assert (Hdel0 : assoc_del x (assoc_set x cx sc0) = sc0) by (apply assoc_del_set_absent; exact (proj1 Hsc0)).
  set (F6 := {| lab := lab F4; vars := assoc_set x c'x (vars F4) |}) in *.
  assert (Ef6 : frames g6 = F6 :: R) by reflexivity.
  assert (HaxF2 : assoc x (vars F6) = Some c'x) by (unfold F6; cbn [vars]; apply assoc_set_same).
  assert (HaeF2 : assoc endr (vars F6) = Some ce) by (unfold F6; cbn [vars]; rewrite assoc_set_other by (intros E; exact (Hie (eq_sym E))); exact HaeF4).
  assert (HasF2 : assoc startr (vars F6) = Some c's) by (unfold F6; cbn [vars]; rewrite assoc_set_other by (intros E; exact (His (eq_sym E))); exact HasF4).
  assert (HndF2 : keys_nd (vars F6)).
  { pose proof (cl_nd _ _ _ _ _ _ _ _ _ _ _ _ _ HC6) as Hnd. rewrite Ef6 in Hnd. inversion Hnd; assumption. }
  assert (Hlt5 : N.to_nat ce < length (cells g5t)) by (apply nth_error_Some; unfold cell_get in Hce5; change (cells g5t) with (cells g5); congruence).
  assert (Hce6 : cell_get g6 ce = Some (VInt hi)).
  { unfold cell_get in *. cbn [g6 cells]. rewrite nth_error_app1 by exact Hlt5. exact Hce5. }
  assert (Hbx : b3 cx c'x KD) by (right; auto).
  assert (Hn6 : forall c k, ~ b3 c ce k).
  { intros c k [Hbc|(_ & E & _)]; [exact (Hn4 c k Hbc)|]. unfold c'x in E. rewrite E, Nnat.Nat2N.id in Hlt5. lia. }
  assert (SMH : smid b s a g b3 sD a6 g6).
  { eapply smid_trans; [exact SM5|]. unfold smid. split; [exact R6|]. split; [exact He6|].
    split; [cbn [g6 frames tl]; rewrite Ef5; reflexivity|]. split; [repeat split|]. split; [reflexivity|].
    split; [apply (keep_cells_app _ _ _ [VInt i0]); reflexivity|].
    split; [cbn [sD store]; rewrite app_length; lia|cbn [g6 cells g5t trc add_trace]; rewrite app_length; lia]. }
  assert (LKH : lkeep lr (frames g) (frames g6)).
  { apply (lkeep_trans lr (frames g) (frames g5) (frames g6)); [exact LK5|].
    rewrite Ef5, Ef6. apply lk_bind. intros j. apply uname0_not_lregn. exact Hx. }
  assert (Edec : declare env s2 x (RInt i0) = (env1, sD)) by (unfold declare, alloc; rewrite El; reflexivity).
  rewrite Edec.
  set (lL := assoc_set x cx sc0 :: l') in *.
  apply (spost_seq b B rb lr sl bt ct fin env s a g b3 env1 sD a6 g6 _ SMH LKH);
    [split; [cbn [env1 locals tl]; rewrite El; reflexivity|cbn [env1 locals]; discriminate]|].
  eapply (from_loop body Hbody incl step x x endr false lr (S lr1) sl bt ct B B2 B1 rb kc lbd ls (k0 + length fa + length fb) fin cbody fbd cs fuel
            ltac:(lia) hi cx c'x ce F6 R lL (sc0 :: l') (fun e => undeclare e x)).
  - exact Eb.
  - exact Est.
  - exact Ebc.
  - exact Hinbd.
  - unfold lr1. cbn [from_lr1]. lia.
  - reflexivity.
  - reflexivity.
  - exact Hc1.
  - exact Hc2'.
  - exact Hc3'.
  - exact Hw'.
  - exact Hib'.
  - exact Hcs'.
  - exact Hst'.
  - exact Hj'.
  - eapply lrok_mono; [exact Hlrk|]. unfold lr1; cbn [from_lr1]. unfold fin, kd, kj, kst, ks, kb, kw, kc, k3, k1 in *. lia.
  - unfold fin. lia.
  - exact Hend.
  - cbn [lL lookup_scopes]. now rewrite assoc_set_same.
  - cbn [find_in_function]. now rewrite HaxF2.
  - exact HaeF2.
  - discriminate.
  - split; [discriminate|reflexivity].
  - intros envX EX. eapply bound2_eq; [exact Hb2|]. rewrite EX. reflexivity.
  - intros envX EX. eapply bound2_eq; [exact Hb|]. rewrite EX, El. reflexivity.
  - intros bB env2 sX g2' HCB Htl2 Hne2 _ _ HbxB.
    destruct (cl_B _ _ _ _ _ _ _ _ _ _ _ _ _ HCB x KD ltac:(cbn [B2 assoc]; now rewrite str_eqb_refl)) as (_ & c2 & c2' & Y1 & Y2 & Y3).
    assert (Hlx2 : lookup_scopes x (locals env2) = Some cx).
    { destruct (locals env2) as [|sc2 l2] eqn:E2l; [congruence|]. cbn [tl] in Htl2. subst l2.
      apply NS_lookup_tl; [rewrite <- E2l; exact (cl_ns _ _ _ _ _ _ _ _ _ _ _ _ _ HCB)|exact (proj2 (proj2 Hx))|].
      cbn [lL lookup_scopes]. now rewrite assoc_set_same. }
    rewrite Hlx2 in Y1. inversion Y1; subst c2.
    destruct (proj2 (cl_heap _ _ _ _ _ _ _ _ _ _ _ _ _ HCB) _ _ _ _ _ _ Y3 HbxB) as [Hiff _]. assert (c2' = c'x) by (apply Hiff; reflexivity). congruence.
  - reflexivity.
  - intros envX EX. unfold undeclare. rewrite EX. cbn [locals lL]. now rewrite Hdel0.
  - intros k E. exact (src_name_not_reg x k (proj1 Hx) E).
  - (* leaving the loop: delete the counter and the two registers *)
    intros a7 g7 env7 s7 b7 El7 HC7' Ef7 Hip7 Hops7. change (a_ip a7 = kd) in Hip7.
    set (vs := assoc_del endr (assoc_del startr (assoc_del x (vars F6)))).
    set (i_d := mkI OP_DELETE_NAME_SCOPED [x; startr; endr]) in *.
    set (g7t := trc name a7 g7 i_d).
    exists (set_ip a7 (S kd)), (with_frames g7t ({| lab := lab F6; vars := vs |} :: R)).
    assert (Hvs : forall y, y <> x -> y <> startr -> y <> endr -> assoc y vs = assoc y (vars F6)) by (intros y H1 H2 H3; unfold vs; now rewrite !assoc_del_other by assumption).
    split.
    { rewrite <- Hip7. eapply (xstep_next prog name code a7 g7 i_d _ (a_ip a7) a7); [reflexivity|rewrite Hip7; atp Hdel|apply dec_delete3|].
      exact (exec_delete3 x startr endr a7 g7t F6 R c'x c's ce Ef7 His Hie Hse HaxF2 HasF2 HaeF2). }
    split; [cbn [set_ip a_ip]; unfold fin; lia|]. split; [exact Hops7|]. split; [repeat split|]. split; [reflexivity|]. split; [reflexivity|].
    split; [reflexivity|]. split.
    { intros j Hjj. cbn [with_frames frames find_in_function vars lab]. rewrite Hvs; [reflexivity| |exact (proj1 (proj2 (Hlkj j Hjj)))|exact (proj1 (Hlkj j Hjj))].
      intros E. exact (uname0_not_lregn x j Hx (eq_sym E)). }
    split.
    { apply (Cl_undeclare path prog P cb CD base name SF b7 B env7 s7 g7t x KD (assoc_set x cx sc0) l' F6 R vs (Cl_trc _ _ _ _ _ _ _ _ HC7') El7 Ef7 Hx HxBn).
      + intros y Hy Hne0. apply Hvs; [exact Hne0| |]; intros ->; exact (lregn_not_uname0 _ Hy).
      + unfold vs. rewrite !assoc_del_other by (first [exact Hie|exact His]). now apply assoc_del_nd_none.
      + rewrite Hdel0. exact (proj1 Hsc0).
      + exact (proj2 Hsc0).
      + unfold vs. apply keys_nd_assoc_del. apply keys_nd_assoc_del. apply keys_nd_assoc_del. exact HndF2. }
    unfold undeclare. rewrite El7. cbn [locals lL]. now rewrite Hdel0.
  - reflexivity.
  - exact HC6.
  - exact Ef6.
  - reflexivity.
  - cbn [a6 set_ip set_ops a_cb]. exact Hcb5.
  - cbn [a6 set_ip set_ops a_ss lL length]. rewrite Hss5. cbn [length] in Hss. exact Hss.
  - exact Hbx.
  - exact Hce6.
  - exact Hn6.
Qed.
Theorem sspec_all : forall st, sspec st.
Proof.
  apply (stmt_ind' (fun _ => True) sspec); try (intros; exact Logic.I).
  - intros x e _. apply assign_sim.
  - intros x e _. apply modify_sim.
  - intros x o e _. apply opassign_sim.
  - intros e _. apply print_sim.
  - intros e sp _. apply assert_sim.
  - intros e _. apply expr_sim.
  - intros cnd body _ Hb. apply if_sim. apply bspec_of. exact Hb.
  - intros cnd body els _ Hb He. apply ifelse_sim; apply bspec_of; assumption.
  - intros cnd body nxt _ Hb Hn. apply ifelif_sim; [apply bspec_of; exact Hb|exact Hn].
  - intros cnd body _ Hb. apply while_sim. apply bspec_of. exact Hb.
  - intros a0 b0 incl step nm collide body _ _ _ Hbody. apply from_sim. apply bspec_of. exact Hbody.
  - apply break_sim.
  - apply continue_sim.
  - intros [e|] _; [apply return_sim|apply return_none_sim].
Qed.
Theorem bspec_all : forall l, bspec l.
Proof. intros l. apply bspec_of. apply Forall_forall. intros st _. apply sspec_all. Qed.
End Act.
End Sim.

(* the hypothesis Hghost of the statement layer: espec_all, for the relation that leaves the counter out *)
Lemma ghost_all : forall path prog name code cb base SF c0, small (c0 + 2 * length code + 8) ->
  forall FU, (forall fuel', fuel' < FU -> call_sim path prog fuel') -> ghost_spec path prog name code cb base SF c0 FU.
Proof.
  intros path prog name code cb base SF c0 Hsm FU Hcall CD' x eb HxCD Hx b B d lr k0 fuel kp a g env s Hfu Hk Hb Hin Hd Hc Hend Hip Hcb Hops HC.
  assert (HP : forall y, assoc y CD' <> None -> y <> x) by (intros y Hy ->; exact (Hy HxCD)).
  pose proof (espec_all path prog name code cb CD' base SF c0 Hsm FU Hcall (fun y => y <> x) HP eb b B d lr k0 fuel kp a g env s KD
                Hfu Hk Hb Hin Hd Hc Hend Hip Hcb Hops HC) as H.
  destruct (eval fuel env eb s) as [v s1|s1|f s1|]; cbn [eres_ok] in H.
  - exact H.
  - destruct H as [H _]. discriminate H.
  - exact H.
  - exact Logic.I.
Qed.
