(* C15 / C12 -- non-vacuity of the closure fragment on the programs of those checks: the prelude of vlib/c15.py (a module
   variable, functions that print and return, `rec` with self(..)) with printed expression trees whose operands are calls
   (arithmetic, comparisons, && || ! with short-circuit over calls, nested calls as arguments), and the shapes of
   vlib/c12.py gen_program (functions returning optionals, `or` with a call / another `or` as fallback, `get` in expression
   and statement position, == nil, if / else, a while loop over pos(w) != nil): inside the decidable fragment, and the
   compiled code run by the VM model prints what the reference semantics prescribes and ends the same way. *)
From MS Require Import Lang.Eval.
From MS Require Import Vm.Model Lang.Syntax Compile.Compile Verify.Sound Compile.ExprBase Compile.ExprSim.
From MS Require Import Compile.StmtMach Compile.StmtRel Compile.StmtFrag Compile.StmtSim Compile.StmtFun Compile.StmtMod Compile.StmtExamples.
From MS Require Import Compile.ClosFrag Compile.ClosTop Compile.StmtFragB Compile.ClosExamples.
Open Scope nat_scope.

Definition n_x : str := [120]%N.   (* x *)
Definition n_d : str := [100]%N.   (* d *)
Definition n_bump : str := [98; 117; 109; 112]%N.   (* bump *)
Definition n_k : str := [107]%N.   (* k *)
Definition n_log : str := [108; 111; 103]%N.   (* log *)
Definition n_b : str := [98]%N.   (* b *)
Definition n_logb : str := [108; 111; 103; 98]%N.   (* logb *)
Definition n_zero : str := [122; 101; 114; 111]%N.   (* zero *)
Definition n_two : str := [116; 119; 111]%N.   (* two *)
Definition n_a : str := [97]%N.   (* a *)
Definition n_pick : str := [112; 105; 99; 107]%N.   (* pick *)
Definition n_c : str := [99]%N.   (* c *)
Definition n_n : str := [110]%N.   (* n *)
Definition n_rec : str := [114; 101; 99]%N.   (* rec *)
Definition n_unreachable : str := [117; 110; 114; 101; 97; 99; 104; 97; 98; 108; 101]%N.   (* unreachable *)
Definition n_pos : str := [112; 111; 115]%N.   (* pos *)
Definition n_name : str := [110; 97; 109; 101]%N.   (* name *)
Definition n_o : str := [111]%N.   (* o *)
Definition n_dflt : str := [100; 102; 108; 116]%N.   (* dflt *)
Definition n_glob : str := [103; 108; 111; 98]%N.   (* glob *)
Definition n_orglob : str := [111; 114; 103; 108; 111; 98]%N.   (* orglob *)
Definition n_fallback_evaluated : str := [102; 97; 108; 108; 98; 97; 99; 107; 32; 101; 118; 97; 108; 117; 97; 116; 101; 100]%N.   (* fallback evaluated *)
Definition n_noisy : str := [110; 111; 105; 115; 121]%N.   (* noisy *)
Definition n_o0 : str := [111; 48]%N.   (* o0 *)
Definition n_o1 : str := [111; 49]%N.   (* o1 *)
Definition n_is_nil : str := [105; 115; 32; 110; 105; 108]%N.   (* is nil *)
Definition n_sp1 : str := [115; 112; 49]%N.   (* sp1 *)
Definition n_sp2 : str := [115; 112; 50]%N.   (* sp2 *)
Definition n_anon : str := [97; 110; 111; 110]%N.   (* anon *)
Definition n_w : str := [119]%N.   (* w *)
Definition n_sp3 : str := [115; 112; 51]%N.   (* sp3 *)
Definition n_still_here : str := [115; 116; 105; 108; 108; 32; 104; 101; 114; 101]%N.   (* still here *)
Definition n_sp4 : str := [115; 112; 52]%N.   (* sp4 *)
Definition n_i : str := [105]%N.   (* i *)
Definition n_f : str := [102]%N.   (* f *)
Definition n_g : str := [103]%N.   (* g *)
Definition n_t : str := [116]%N.   (* t *)
Definition n_add : str := [97; 100; 100]%N.   (* add *)
Definition n_acc : str := [97; 99; 99]%N.   (* acc *)
Definition n_j : str := [106]%N.   (* j *)
Definition n_id : str := [105; 100]%N.   (* id *)
Definition n_run : str := [114; 117; 110]%N.   (* run *)
Definition n_z : str := [122]%N.   (* z *)
Definition n_g1 : str := [103; 49]%N.   (* g1 *)
Definition n_lim : str := [108; 105; 109]%N.   (* lim *)
Definition n_q : str := [113]%N.   (* q *)
Definition n_none : str := [110; 111; 110; 101]%N.   (* none *)
Definition n_g2 : str := [103; 50]%N.   (* g2 *)

Definition nv_c15 : source :=
  [ SAssign n_x (EInt 10);
    SAssign n_bump (EFn [n_d] [SModify n_x (EBin BAdd (EVar n_x) (EVar n_d));
      SPrint (EVar n_d);
      SReturn (Some (EVar n_d))]);
    SAssign n_log (EFn [n_k] [SPrint (EVar n_k);
      SReturn (Some (EBin BMod (EVar n_k) (EInt 7)))]);
    SAssign n_logb (EFn [n_k; n_b] [SPrint (EVar n_k);
      SReturn (Some (EVar n_b))]);
    SAssign n_zero (EFn [] [SPrint (EStr n_zero);
      SReturn (Some (EInt 0))]);
    SAssign n_two (EFn [n_a; n_b] [SPrint (EStr n_two);
      SReturn (Some (EBin BSub (EVar n_a) (EVar n_b)))]);
    SAssign n_pick (EFn [n_a; n_b; n_c; n_d] [SPrint (EStr n_pick);
      SReturn (Some (EBin BAdd (EBin BAdd (EVar n_a) (EBin BMul (EVar n_b) (EInt 10))) (EBin BAdd (EBin BMul (EVar n_c) (EInt 100)) (EBin BMul (EVar n_d) (EInt 1000)))))]);
    SAssign n_rec (EFn [n_n] [SIf (EBin BLe (EVar n_n) (EInt 0)) [SReturn (Some (call n_log [(EInt 900)]))];
      SReturn (Some (EBin BAdd (call n_log [(EBin BAdd (EVar n_n) (EInt 800))]) (ESelf [(EBin BSub (EVar n_n) (EInt 1))])))]);
    SPrint (EBin BAdd (call n_log [(EInt 1)]) (EBin BMul (call n_two [(call n_log [(EInt 2)]); (call n_bump [(EInt 3)])]) (EVar n_x)));
    SPrint (EAnd (call n_logb [(EInt 4); (EBool false)]) (call n_logb [(EInt 5); (EBool true)]));
    SPrint (EAnd (call n_logb [(EInt 6); (EBool true)]) (call n_logb [(EInt 7); (EBool false)]));
    SPrint (EOr (call n_logb [(EInt 8); (EBool true)]) (call n_logb [(EInt 9); (EBool false)]));
    SPrint (ENot (EOr (call n_logb [(EInt 10); (EBool false)]) (call n_logb [(EInt 11); (EBool true)])));
    SPrint (call n_rec [(EInt 2)]);
    SPrint (call n_pick [(EVar n_x); (call n_bump [(EInt 12)]); (EVar n_x); (call n_bump [(EInt 13)])]);
    SPrint (EBin BDiv (EVar n_x) (call n_bump [(EInt 14)]));
    SPrint (EBin BSub (EInt 0) (call n_log [(EInt 15)]));
    SPrint (EBin BLt (EBin BAdd (EVar n_x) (call n_bump [(EInt 16)])) (EVar n_x));
    SPrint (call n_zero []) ].

Definition nv_c15_div : source :=
  [ SAssign n_x (EInt 10);
    SAssign n_bump (EFn [n_d] [SModify n_x (EBin BAdd (EVar n_x) (EVar n_d));
      SPrint (EVar n_d);
      SReturn (Some (EVar n_d))]);
    SAssign n_log (EFn [n_k] [SPrint (EVar n_k);
      SReturn (Some (EBin BMod (EVar n_k) (EInt 7)))]);
    SAssign n_logb (EFn [n_k; n_b] [SPrint (EVar n_k);
      SReturn (Some (EVar n_b))]);
    SAssign n_zero (EFn [] [SPrint (EStr n_zero);
      SReturn (Some (EInt 0))]);
    SAssign n_two (EFn [n_a; n_b] [SPrint (EStr n_two);
      SReturn (Some (EBin BSub (EVar n_a) (EVar n_b)))]);
    SAssign n_pick (EFn [n_a; n_b; n_c; n_d] [SPrint (EStr n_pick);
      SReturn (Some (EBin BAdd (EBin BAdd (EVar n_a) (EBin BMul (EVar n_b) (EInt 10))) (EBin BAdd (EBin BMul (EVar n_c) (EInt 100)) (EBin BMul (EVar n_d) (EInt 1000)))))]);
    SAssign n_rec (EFn [n_n] [SIf (EBin BLe (EVar n_n) (EInt 0)) [SReturn (Some (call n_log [(EInt 900)]))];
      SReturn (Some (EBin BAdd (call n_log [(EBin BAdd (EVar n_n) (EInt 800))]) (ESelf [(EBin BSub (EVar n_n) (EInt 1))])))]);
    SPrint (EBin BMod (call n_log [(EInt 1)]) (call n_zero []));
    SPrint (EStr n_unreachable) ].

Definition nv_c12 : source :=
  [ SAssign n_pos (EFn [n_k] [SIf (EBin BGt (EVar n_k) (EInt 0)) [SReturn (Some (EVar n_k))];
      SReturn (Some ENil)]);
    SAssign n_name (EFn [n_k] [SIf (EBin BGt (EVar n_k) (EInt 1)) [SReturn (Some (EStr n_n))];
      SReturn (Some ENil)]);
    SAssign n_dflt (EFn [n_o; n_d] [SReturn (Some (ENilOr (EVar n_o) (EVar n_d)))]);
    SAssign n_glob (EInt 50);
    SAssign n_orglob (EFn [n_o] [SReturn (Some (ENilOr (EVar n_o) (EVar n_glob)))]);
    SAssign n_noisy (EFn [n_k] [SPrint (EStr n_fallback_evaluated);
      SReturn (Some (EVar n_k))]);
    SAssign n_o0 ENil;
    SAssign n_o1 (call n_pos [(EInt 3)]);
    SPrint (ENilOr (call n_pos [(EInt 0)]) (call n_noisy [(EInt 20)]));
    SPrint (ENilOr (EVar n_o1) (call n_noisy [(EInt 21)]));
    SPrint (EBin BAdd (ENilOr (EVar n_o0) (ENilOr (EVar n_o1) (EInt 77))) (EInt 1));
    SPrint (EBin BEq (EVar n_o0) ENil);
    SPrint (EBin BNeq ENil (EVar n_o1));
    SIfElse (EBin BEq (EVar n_o0) ENil) [SPrint (EStr n_is_nil)] [SPrint (EBin BMul (EGet (EVar n_o0) n_sp1) (EInt 2))];
    SIfElse (EBin BEq (EVar n_o1) ENil) [SPrint (EStr n_is_nil)] [SPrint (EBin BMul (EGet (EVar n_o1) n_sp2) (EInt 2))];
    SPrint (call n_dflt [(EVar n_o0); (EInt 30)]);
    SPrint (call n_orglob [(EVar n_o1)]);
    SPrint (ENilOr (call n_name [(EInt 0)]) (EStr n_anon));
    SAssign n_w (EInt 2);
    SWhile (EBin BNeq (call n_pos [(EVar n_w)]) ENil) [SPrint (ENilOr (call n_pos [(EVar n_w)]) (EInt 0)); SAssign n_w (EBin BSub (EVar n_w) (EInt 1))];
    SExpr (EGet (EVar n_o1) n_sp3);
    SPrint (EStr n_still_here);
    SAssign n_o1 (call n_pos [(EInt 0)]);
    SPrint (EGet (EVar n_o1) n_sp4);
    SPrint (EStr n_unreachable) ].

Definition nv_mix : source :=
  [ SAssign n_x (EInt 1);
    SAssign n_f (EFn [n_n] [SAssign n_i (EInt 0);
      SWhile (EBool true) [SOpAssign n_i BAdd (EInt 1); SIfElif (EBin BGt (EVar n_i) (EVar n_n)) [SBreak] (SIfElse (EBin BEq (EBin BMod (EVar n_i) (EInt 2)) (EInt 0)) [SContinue] [SModify n_x (EBin BAdd (EVar n_x) (EVar n_i))]); SAssert (EBin BGt (EVar n_x) (EInt 0)) n_sp1];
      SOpAssign n_x BMul (EInt 2);
      SReturn (Some (EVar n_i))]);
    SPrint (call n_f [(EInt 5)]);
    SPrint (EVar n_x);
    SAssign n_g (EFn [] [SOpAssign n_x BSub (EInt 3);
      SReturn None]);
    SExpr (call n_g []);
    SPrint (EVar n_x);
    SAssert (EBin BLt (EVar n_x) (EInt 0)) n_sp2;
    SPrint (EStr n_unreachable) ].

Definition nv_loops : source :=
  [ SAssign n_t (EInt 0);
    SAssign n_add (EFn [n_d] [SModify n_t (EBin BAdd (EVar n_t) (EVar n_d))]);
    SAssign n_id (EFn [n_z] [SReturn (Some (EVar n_z))]);
    SAssign n_run (EFn [n_n] [SAssign n_acc (EInt 0);
      SFrom (EInt 0) (EVar n_n) false None None false [SAssign n_acc (EBin BAdd (EVar n_acc) (EInt 1))];
      SFrom (EInt 1) (EVar n_n) true (Some (EInt 2)) (Some n_j) false [SOpAssign n_acc BAdd (EVar n_j); SExpr (call n_add [(EVar n_j)])];
      SAssign n_k (EInt 0);
      SFrom (EInt 0) (EInt 3) false None (Some n_k) true [SIf (EBin BEq (EVar n_k) (EInt 1)) [SContinue]; SAssign n_acc (EBin BAdd (EVar n_acc) (EVar n_k))];
      SFrom (call n_id [(EInt 0)]) (EInt 10) false (Some (EBin BAdd (EVar n_k) (EInt 0))) None false [SIf (EBin BGt (EVar n_acc) (EInt 100)) [SBreak]; SAssign n_acc (EBin BMul (EVar n_acc) (EInt 2))];
      SReturn (Some (EBin BAdd (EVar n_acc) (EVar n_k)))]);
    SPrint (call n_run [(EInt 4)]);
    SPrint (EVar n_t) ].

Definition nv_bounds : source :=
  [ SAssign n_t (EInt 0);
    SAssign n_g1 (EInt 3);
    SAssign n_lim (EFn [n_n] [SModify n_t (EBin BAdd (EVar n_t) (EInt 1));
      SReturn (Some (EVar n_n))]);
    SAssign n_run (EFn [n_n] [SAssign n_acc (EInt 0);
      SFrom (EInt 0) (call n_lim [(EVar n_n)]) false None (Some n_j) false [SOpAssign n_acc BAdd (EVar n_j)];
      SFrom (EInt 1) (call n_lim [(EInt 2)]) true (Some (EBin BAdd (EBin BMul (EVar n_g1) (EInt 0)) (EInt 2))) (Some n_q) false [SAssign n_acc (EBin BAdd (EVar n_acc) (EVar n_q))];
      SReturn (Some (ENeg (call n_lim [(EVar n_acc)])))]);
    SPrint (call n_run [(EInt 3)]);
    SPrint (EVar n_t) ].

Definition nv_kn : source :=
  [ SAssign n_t (EInt 0);
    SAssign n_f (EFn [n_n] [SIf (EBin BGt (EVar n_n) (EInt 0)) [SModify n_t (EVar n_n); SReturn (Some (EVar n_n))];
      SPrint (EStr n_none)]);
    SExpr (call n_f [(EInt 1)]);
    SExpr (call n_f [(EInt 0)]);
    SPrint (EVar n_t) ].

Definition nv_shadow : source :=
  [ SAssign n_g2 (EInt 7);
    SAssign n_id (EFn [n_z] [SReturn (Some (EVar n_z))]);
    SAssign n_f (EFn [n_n] [SFrom (EInt 1) (call n_id [(EVar n_n)]) false None (Some n_g2) false [SPrint (EVar n_g2)];
      SReturn (Some (EVar n_g2))]);
    SPrint (call n_f [(EInt 3)]) ].

(* operands left to right, once; && / || skip the call on the right when the left operand decides; x is read when its
   operand is evaluated (before a later sibling modifies it); self(..) in `rec`: 31 lines *)
Example C15_nv_order_program :
  in_fragment2 nvp nv_c15 = true /\ in_fragment nvp nv_c15 = true /\
  vm_out nv_c15 5000 = (fst (run 5000 nv_c15), Done) /\ snd (run 5000 nv_c15) = RODone /\
  fst (run 5000 nv_c15) = [[49]; [50]; [51]; [116; 119; 111]; [45; 49; 50]; [52]; [102; 97; 108; 115; 101]; [54]; [55]; [102; 97; 108; 115; 101]; [56]; [116; 114; 117; 101]; [49; 48]; [49; 49]; [102; 97; 108; 115; 101]; [56; 48; 50]; [56; 48; 49]; [57; 48; 48]; [49; 49]; [49; 50]; [49; 51]; [112; 105; 99; 107]; [49; 53; 54; 51; 51]; [49; 52]; [50]; [49; 53]; [45; 49]; [49; 54]; [102; 97; 108; 115; 101]; [122; 101; 114; 111]; [48]]%N.
Proof. vm_compute. repeat split. Qed.

(* the failure case: log(1) % zero() prints 1 and zero, then both sides stop with the division error *)
Example C15_nv_division_by_zero :
  in_fragment2 nvp nv_c15_div = true /\
  run 5000 nv_c15_div = ([[49]; [122; 101; 114; 111]]%N, ROFail FDivZero) /\
  fst (vm_out nv_c15_div 5000) = fst (run 5000 nv_c15_div) /\
  (exists fs, snd (vm_out nv_c15_div 5000) = RuntimeErr E_div_zero fs).
Proof. vm_compute. repeat split. eexists. reflexivity. Qed.

(* optionals: the fallback of `or` is evaluated only for nil (a call, another `or`), == nil on either side, if / else,
   get in expression and statement position; the last `get` meets nil: both sides stop with the span of that `get` *)
Example C12_nv_optional_program :
  in_fragment2 nvp nv_c12 = true /\ in_fragment nvp nv_c12 = true /\
  run 5000 nv_c12 = ([[102; 97; 108; 108; 98; 97; 99; 107; 32; 101; 118; 97; 108; 117; 97; 116; 101; 100]; [50; 48]; [51]; [52]; [116; 114; 117; 101]; [116; 114; 117; 101]; [105; 115; 32; 110; 105; 108]; [54]; [51; 48]; [51]; [97; 110; 111; 110]; [50]; [49]; [115; 116; 105; 108; 108; 32; 104; 101; 114; 101]]%N, ROFail (FUnwrapNil n_sp4)) /\
  fst (vm_out nv_c12 5000) = fst (run 5000 nv_c12) /\
  (exists fs, snd (vm_out nv_c12 5000) = RuntimeErr (E_unwrap_nil n_sp4) fs).
Proof. vm_compute. repeat split. eexists. reflexivity. Qed.

(* the features of the two fragments MIXED: a closure that writes through a captured variable inside a `while true` loop
   left by `break`, with `continue`, an else-if chain, `assert`, op-assignments on a local and on the captured variable
   (through its cell), a function ending with a bare `return` called in statement position; the last assert fails: both
   sides stop with its span after the same 3 lines *)
Example C01_nv_mixed_program :
  in_fragment2 nvp nv_mix = true /\ in_fragment nvp nv_mix = true /\
  run 5000 nv_mix = ([[54]; [50; 48]; [49; 55]]%N, ROFail (FAssert n_sp2)) /\
  fst (vm_out nv_mix 5000) = fst (run 5000 nv_mix) /\
  (exists fs, snd (vm_out nv_mix 5000) = RuntimeErr (E_assert n_sp2) fs).
Proof. vm_compute. repeat split. eexists. reflexivity. Qed.

(* from loops of every form inside a function that also calls a closure writing through a captured variable: an
   anonymous counter, a named fresh counter with `through` and a step, a colliding counter (an existing local, kept after
   the loop) with `continue`, an anonymous stepped loop whose lower bound is a call and whose step reads a local, left by
   `break` *)
Example C01_nv_loops_program :
  in_fragment2 nvp nv_loops = true /\ in_fragment nvp nv_loops = true /\
  vm_out nv_loops 5000 = (fst (run 5000 nv_loops), Done) /\ snd (run 5000 nv_loops) = RODone /\
  fst (run 5000 nv_loops) = [[49; 54; 51]; [52]]%N.
Proof. vm_compute. repeat split. Qed.

(* calls in the UPPER bound of loops with a NAMED counter (the VM binds the counter before it evaluates the bound; the callee
   writes through a captured variable), a step that reads a captured variable of the function, unary minus over a call *)
Example C01_nv_bounds_program :
  in_fragment2 nvp nv_bounds = true /\ in_fragment nvp nv_bounds = true /\ in_fragment1 nvp nv_bounds = false /\
  vm_out nv_bounds 5000 = (fst (run 5000 nv_bounds), Done) /\ snd (run 5000 nv_bounds) = RODone /\
  fst (run 5000 nv_bounds) = [[45; 52]; [51]]%N.
Proof. vm_compute. repeat split. Qed.

(* a function that returns data on one path and no value on the other, called in statement position *)
Example C01_nv_maybe_value_program :
  in_fragment2 nvp nv_kn = true /\ in_fragment1 nvp nv_kn = false /\
  vm_out nv_kn 5000 = (fst (run 5000 nv_kn), Done) /\ snd (run 5000 nv_kn) = RODone /\
  fst (run 5000 nv_kn) = [[110; 111; 110; 101]; [49]]%N.
Proof. vm_compute. repeat split. Qed.

(* a named counter with the name of a captured variable of the function, and a call in the upper bound (which does not mention
   that name): the counter shadows the captured variable inside the loop only *)
Example C01_nv_shadowing_counter_program :
  in_fragment2 nvp nv_shadow = true /\
  vm_out nv_shadow 5000 = (fst (run 5000 nv_shadow), Done) /\ snd (run 5000 nv_shadow) = RODone /\
  fst (run 5000 nv_shadow) = [[49]; [50]; [55]]%N.
Proof. vm_compute. repeat split. Qed.
