(* C07 / C01, closures -- non-vacuity: a closure program in the style of the C07 check (an owner variable with a reader and
   a writer closure, a factory instantiated twice whose stepping closure shares a cell with a second closure, depth-3
   nesting with a `modify` from the innermost function, a closure created in a block and kept, a function passed as an
   argument) is inside the decidable fragment, and the compiled code run by the VM model prints what the reference
   semantics prescribes. *)
From MS Require Import Lang.Eval.
From MS Require Import Vm.Model Lang.Syntax Compile.Compile Verify.Sound Compile.ExprBase Compile.ExprSim.
From MS Require Import Compile.StmtMach Compile.StmtRel Compile.StmtFrag Compile.StmtSim Compile.StmtFun Compile.StmtMod Compile.StmtExamples.
From MS Require Import Compile.ClosFrag Compile.ClosTop Compile.StmtFragB.
Open Scope nat_scope.

Definition cx0 : str := [120; 48]%N.                 (* x0 *)
Definition cget : str := [103; 101; 116]%N.          (* get *)
Definition cinc : str := [105; 110; 99]%N.           (* inc *)
Definition cmk : str := [109; 107]%N.                (* mk *)
Definition cstart : str := [115; 116]%N.
Definition cc : str := [99]%N.
Definition cpeek : str := [112; 101; 101; 107]%N.
Definition cstep : str := [115; 116; 101; 112]%N.
Definition cd : str := [100]%N.
Definition ca : str := [97; 49]%N.                   (* a1 *)
Definition cb1 : str := [98; 49]%N.                  (* b1 *)
Definition capply : str := [97; 112; 112; 108; 121; 50]%N.
Definition cf : str := [102]%N.
Definition couter : str := [111; 117; 116]%N.
Definition cn : str := [110]%N.
Definition cacc : str := [97; 99; 99]%N.
Definition cmid : str := [109; 105; 100]%N.
Definition ck : str := [107]%N.
Definition cadd : str := [97; 100; 100]%N.
Definition cr1 : str := [114; 49]%N.
Definition ckeep : str := [107; 101; 101; 112]%N.
Definition cbi : str := [98; 105]%N.
Definition cbk : str := [98; 107]%N.
Definition cbg : str := [98; 103]%N.

Definition call (f : str) (l : list expr) : expr := ECall (EVar f) l.

Definition nv_c07 : source :=
  [ (* an owner variable, a reader and a writer closure *)
    SAssign cx0 (EInt 2);
    SAssign cget (EFn [] [SReturn (Some (EVar cx0))]);
    SAssign cinc (EFn [cd] [SModify cx0 (EBin BAdd (EVar cx0) (EVar cd))]);
    (* a factory: each call creates a fresh cell c shared by two closures *)
    SAssign cmk (EFn [cstart] [
      SAssign cc (EVar cstart);
      SAssign cpeek (EFn [] [SReturn (Some (EVar cc))]);
      SAssign cstep (EFn [cd] [SModify cc (EBin BAdd (EVar cc) (EVar cd)); SReturn (Some (EBin BAdd (call cpeek []) (EInt 0)))]);
      SReturn (Some (EVar cstep))]);
    SAssign ca (call cmk [EInt 1]);
    SAssign cb1 (call cmk [EInt 12]);
    (* depth-3 nesting: the innermost function writes a variable of the outermost one *)
    SAssign couter (EFn [cn] [
      SAssign cacc (EInt 0);
      SAssign cmid (EFn [ck] [
        SAssign cadd (EFn [] [SModify cacc (EBin BAdd (EVar cacc) (EBin BAdd (EVar ck) (EVar cn)))]);
        SExpr (call cadd []); SExpr (call cadd []);
        SReturn (Some (EVar cacc))]);
      SAssign cr1 (call cmid [EInt 1]);
      SAssign cacc (EBin BAdd (EVar cacc) (EInt 100));
      SReturn (Some (EBin BAdd (EVar cr1) (call cmid [EInt 2])))]);
    SPrint (call ca [EInt 2]);
    SPrint (call cb1 [EInt 1]);
    SPrint (call ca [EInt 1]);
    SExpr (call cinc [EInt 3]);
    SPrint (call cget []);
    SAssign cx0 (EBin BMul (EVar cx0) (EInt 2));
    SPrint (call cget []);
    SPrint (call couter [EInt 3]);
    (* closures created in a loop body over a block-local variable; one of them is kept *)
    SAssign ckeep (EFn [] [SReturn (Some (EInt (-1)))]);
    SFrom (EInt 0) (EInt 3) false None (Some cbi) false [
      SAssign cbk (EBin BMul (EVar cbi) (EInt 7));
      SAssign cbg (EFn [] [SReturn (Some (EBin BAdd (EVar cbk) (EInt 1)))]);
      SIf (EBin BEq (EVar cbi) (EInt 1)) [SAssign ckeep (EVar cbg)]];
    SPrint (call ckeep []);
    (* a closure passed as an argument and called through the parameter *)
    SAssign capply (EFn [cf] [SReturn (Some (EBin BAdd (call cf [EInt 1]) (call cf [EInt 1])))]);
    SPrint (call capply [EVar ca]) ].

Example C07_nv_closure_program :
  in_fragment2 nvp nv_c07 = true /\ in_fragment nvp nv_c07 = true /\
  vm_out nv_c07 5000 = (fst (run 5000 nv_c07), Done) /\ snd (run 5000 nv_c07) = RODone /\
  fst (run 5000 nv_c07) = [[51]; [49; 51]; [52]; [53]; [49; 48]; [49; 50; 54]; [56]; [49; 49]]%N.
Proof. vm_compute. repeat split. Qed.
