(* C01, statement level -- part 6: MODULES whose function definitions stand at any top-level position, between
   statements of the fragment (`n = 1; k = 0; h = fn(x) {...}; ...; f0 = fn(n) {...}; print f0(3)`).
     fentry / table    the functions defined so far: name, parameters, body, the two cells holding the closure /
                       the VFun value, the captured environment, the captured cells, the VM name of the code
     def_rel           defining one more function keeps the statement relation (for the larger table)
     tcall_ok          every function of a well-formed table does what call_clos does (position, then fuel)
     mod_run           the simulation along the top-level items of a module
     module_top_correct   Eval.run vs Model.execute of cprogram *)
From MS Require Import Lang.Eval.
From MS Require Import Vm.Model Lang.Syntax Compile.Compile Verify.Sound Compile.ExprBase Compile.ExprSim.
From MS Require Import Compile.StmtMach Compile.StmtRel Compile.StmtFrag Compile.StmtSim Compile.StmtFun.
From Coq Require Import Lia.
Open Scope nat_scope.

(* ================================================================ the relation for a larger set of function names *)
Lemma uname_sub : forall funs funs' x, (forall y, In y funs -> In y funs') -> uname funs' x -> uname funs x.
Proof. intros funs funs' x H [H0 Hn]. split; [exact H0|]. intros Hin. exact (Hn (H _ Hin)). Qed.

Lemma pairs_sub_funs : forall funs funs' l fs c c', (forall y, In y funs -> In y funs') ->
  pairs funs' l fs c c' -> pairs funs l fs c c'.
Proof.
  intros funs funs' l. induction l as [|sc l IH]; intros [|f fs] c c' H Hp; cbn [pairs] in *; try contradiction.
  destruct Hp as [(x & Hx & E1 & E2)|Hp]; [left; exists x; split; [exact (uname_sub _ _ _ H Hx)|auto]|right; exact (IH _ _ _ H Hp)].
Qed.

Lemma Rfr_sub_funs : forall funs funs' st cs l fs, (forall y, In y funs -> In y funs') ->
  Rfr funs st cs l fs -> Rfr funs' st cs l fs.
Proof.
  intros funs funs' st cs l. induction l as [|sc l IH]; intros [|f fs] H Hr; cbn [Rfr] in *; try contradiction.
  destruct Hr as [Hl Hr]. split.
  - intros x Hx. exact (Hl x (uname_sub _ _ _ H Hx)).
  - destruct l as [|sc' l]; [exact Hr|]. destruct Hr as [Hs Hr]. split; [exact Hs|exact (IH _ H Hr)].
Qed.

Lemma pins_sub_funs : forall funs funs' P l fs st cs, (forall y, In y funs -> In y funs') ->
  pins_ok funs P l fs st cs -> pins_ok funs' P l fs st cs.
Proof.
  intros funs funs' P l fs st cs H [H1 H2]. split.
  - intros cy w Hq. destruct (H1 cy w Hq) as [A B]. split; [exact A|]. intros c0 Hp. exact (B c0 (pairs_sub_funs _ _ _ _ _ _ H Hp)).
  - intros c0 v Hq. destruct (H2 c0 v Hq) as [A B]. split; [exact A|]. intros c0' Hp. exact (B c0' (pairs_sub_funs _ _ _ _ _ _ H Hp)).
Qed.

Lemma fnames_app : forall (A B : ftab), fnames (A ++ B) = fnames A ++ fnames B.
Proof. intros. unfold fnames. apply map_app. Qed.

Lemma assoc_app_none : forall A (l r : list (str * A)) x, assoc x l = None -> assoc x (l ++ r) = assoc x r.
Proof.
  intros A. induction l as [|[k v] l IH]; intros r x H; [reflexivity|]. cbn [app assoc] in *.
  destruct (str_eqb k x); [discriminate|]. now apply IH.
Qed.
Lemma assoc_app_some : forall A (l r : list (str * A)) x v, assoc x l = Some v -> assoc x (l ++ r) = Some v.
Proof. intros. now apply assoc_prefix. Qed.

(* ================================================================ one more function is defined at module level *)
Section DefRel.
Variable name : str.
Variables (FT : ftab) (fcells : list (str * (N * N * list scope * option (list (str * N))))) (floc floc' : str -> str).
Hypothesis Hfck : forall f, In f (fnames FT) <-> assoc f fcells <> None.
Variables (f : str) (ps : list str) (body : list stmt) (cenv : list scope) (cbf : option (list (str * N))).
Hypothesis Hf0 : uname0 f.
Hypothesis Hfn : ~ In f (fnames FT).
Hypothesis Hloc : forall x, x <> f -> floc' x = floc x.
(* the module-level data bindings captured so far / by the new function *)
Variables (dtab dt' : list (str * (N * N))).

Local Notation funs := (fnames FT).
Local Notation FT' := (FT ++ [(f, (ps, body))]).
Local Notation funs' := (fnames FT').

Lemma funs_sub : forall y, In y funs -> In y funs'.
Proof. intros y H. rewrite fnames_app. apply in_or_app. now left. Qed.

Lemma def_rel : forall env s g B sc fr tr,
  Rg [] FT funs fcells None None name (fpins_of FT fcells floc) [] dtab no_pins env s g ->
  bound_in FT funs B env -> ~ In f B ->
  locals env = [sc] -> frames g = [fr] ->
  (forall x c0 c0', In (x, (c0, c0')) dt' -> assoc x sc = Some c0 /\ assoc x (vars fr) = Some c0') ->
  let c := N.of_nat (length (store s)) in
  let c' := N.of_nat (length (cells g)) in
  let env' := {| locals := [assoc_set f c sc]; captured := captured env; cur := cur env |} in
  let s' := {| store := store s ++ [RClos ps body cenv]; rout := rout s |} in
  let g' := {| cells := cells g ++ [VFun (floc' f) cbf]; frames := [{| lab := lab fr; vars := assoc_set f c' (vars fr) |}];
               out := out g; trace := tr |} in
  let fcells' := fcells ++ [(f, (c, c', cenv, cbf))] in
  Rg [] FT' funs' fcells' None None name (fpins_of FT' fcells' floc') [] (dtab ++ dt') no_pins env' s' g' /\
  bound_in FT' funs' B env' /\ find_in_function f (frames g) = None /\ lookup_scopes f (locals env) = None.
Proof.
  intros [l cap cu] [st ro] [cs fs o tr0] B sc fr tr [Hfr Hb Ho Hbase Hun Hns Hpins Hnd Hfp Hfl Hcur Hcf Hcapd Hdl] HB HfB El Ef Hdt'.
  cbn [locals captured cur store rout cells frames out trace] in *. subst l fs. cbv zeta.
  set (c := N.of_nat (length st)). set (c' := N.of_nat (length cs)).
  assert (Hfu : uname funs f) by (split; assumption).
  assert (Hfh : f <> hid) by exact (proj2 (proj2 Hf0)).
  assert (Hsn : lookup_scopes f [sc] = None).
  { destruct (lookup_scopes f [sc]) eqn:E; [|reflexivity]. exfalso.
    destruct (proj1 (proj1 HB f Hfh) ltac:(cbn [locals]; congruence)) as [H|H]; [exact (HfB H)|exact (Hfn H)]. }
  assert (Has : assoc f sc = None) by (cbn [lookup_scopes] in Hsn; destruct (assoc f sc); [discriminate|reflexivity]).
  assert (Hvn : find_in_function f [fr] = None).
  { pose proof (Rfr_look _ _ _ _ Hfr f Hfu) as H. rewrite Hsn in H. destruct (find_in_function f [fr]); [contradiction|reflexivity]. }
  assert (Hav : assoc f (vars fr) = None).
  { cbn [find_in_function] in Hvn. destruct (assoc f (vars fr)); [discriminate|reflexivity]. }
  set (fr' := {| lab := lab fr; vars := assoc_set f c' (vars fr) |}).
  assert (Hfind : forall x, x <> f -> find_in_function x [fr'] = find_in_function x [fr]).
  { intros x Hx. cbn [find_in_function fr' vars lab]. now rewrite assoc_set_other. }
  assert (Hlk : forall x, x <> f -> lookup_scopes x [assoc_set f c sc] = lookup_scopes x [sc]).
  { intros x Hx. cbn [lookup_scopes]. now rewrite assoc_set_other. }
  assert (Hnp : forall x, uname funs' x -> x <> f).
  { intros x [_ Hn] ->. apply Hn. rewrite fnames_app. apply in_or_app. right. now left. }
  assert (Hpairs : forall c0 c0', pairs funs' [assoc_set f c sc] [fr'] c0 c0' -> pairs funs [sc] [fr] c0 c0').
  { intros c0 c0' Hp. cbn [pairs] in *. destruct Hp as [(x & Hx & E1 & E2)|[]]. left. exists x.
    split; [exact (uname_sub _ _ _ funs_sub Hx)|]. rewrite <- (Hlk x (Hnp x Hx)), <- (Hfind x (Hnp x Hx)). auto. }
  assert (Hvalid : forall c0 c0', pairs funs [sc] [fr] c0 c0' -> N.to_nat c0 < length st /\ N.to_nat c0' < length cs).
  { intros c0 c0' Hp. exact (cellrel_valid _ _ _ _ (pairs_cellrel _ _ _ _ _ _ Hfr Hp)). }
  split; [|split; [|split; [exact Hvn|exact Hsn]]].
  - constructor; cbn [locals captured cur store rout cells frames out].
    + cbn [Rfr] in *. destruct Hfr as [Hl Hsp]. split; [|exact Hsp]. intros x Hx.
      rewrite (Hlk x (Hnp x Hx)), (Hfind x (Hnp x Hx)).
      eapply orel_impl; [|exact (Hl x (uname_sub _ _ _ funs_sub Hx))]. intros a0 b0 Hc. now apply cellrel_mono.
    + intros c1 c1' c2 c2' H1 H2. exact (Hb _ _ _ _ (Hpairs _ _ H1) (Hpairs _ _ H2)).
    + exact Ho.
    + exact Hbase.
    + intros x Hx. destruct (list_eq_dec N.eq_dec x f) as [->|Hne].
      * right. left. rewrite fnames_app. apply in_or_app. right. now left.
      * rewrite (Hlk x Hne) in Hx. destruct (Hun x Hx) as [H|[H|H]]; [left|right; left; exact (funs_sub _ H)|right; right; exact H].
        split; [exact (proj1 H)|]. rewrite fnames_app. intros Hin. apply in_app_or in Hin as [Hin|[Hin|[]]]; [exact (proj2 H Hin)|cbn in Hin; congruence].
    + cbn [NS lookup_scopes]. split; [intros; reflexivity|exact Logic.I].
    + split; intros ? ? [].
    + constructor; [|constructor]. cbn [fr' vars]. apply keys_nd_assoc_set. inversion Hnd; assumption.
    + destruct Hfp as [F1 F2]. split.
      * intros cy w (f0 & c0 & ce & cb0 & E & ->).
        destruct (assoc f0 fcells) as [x0|] eqn:E0.
        -- rewrite (assoc_app_some _ _ _ _ _ E0) in E. inversion E; subst x0.
           assert (Hne : f0 <> f) by (intros ->; apply Hfn; apply Hfck; congruence).
           destruct (F1 cy (VFun (floc f0) cb0)) as [A B0]; [exists f0, c0, ce, cb0; auto|]. rewrite (Hloc f0 Hne). split.
           ++ rewrite nth_error_app1; [exact A|apply nth_error_Some; congruence].
           ++ intros c1 Hp. exact (B0 c1 (Hpairs _ _ Hp)).
        -- rewrite (assoc_app_none _ _ _ _ E0) in E. cbn [assoc] in E. destruct (str_eqb f f0) eqn:Ef0; [|discriminate].
           apply str_eqb_iff in Ef0. subst f0. inversion E; subst. split.
           ++ unfold c'. rewrite Nnat.Nat2N.id, nth_error_app2, Nat.sub_diag by lia. reflexivity.
           ++ intros c1 Hp. destruct (Hvalid _ _ (Hpairs _ _ Hp)) as [_ H]. unfold c' in H. rewrite Nnat.Nat2N.id in H. lia.
      * intros c0 v (f0 & c0' & ce & cb0 & ps0 & body0 & E & E2 & ->).
        destruct (assoc f0 fcells) as [x0|] eqn:E0.
        -- rewrite (assoc_app_some _ _ _ _ _ E0) in E. inversion E; subst x0.
           assert (Hin : In f0 funs) by (apply Hfck; congruence).
           assert (E2' : assoc f0 FT = Some (ps0, body0)).
           { destruct (assoc f0 FT) as [r|] eqn:E3; [rewrite (assoc_app_some _ _ _ _ _ E3) in E2; exact E2|].
             exfalso. apply In_fnames_assoc in Hin. congruence. }
           destruct (F2 c0 (RClos ps0 body0 ce)) as [A B0]; [exists f0, c0', ce, cb0, ps0, body0; auto|]. split.
           ++ rewrite nth_error_app1; [exact A|apply nth_error_Some; congruence].
           ++ intros c1 Hp. exact (B0 c1 (Hpairs _ _ Hp)).
        -- rewrite (assoc_app_none _ _ _ _ E0) in E. cbn [assoc] in E. destruct (str_eqb f f0) eqn:Ef0; [|discriminate].
           apply str_eqb_iff in Ef0. subst f0. inversion E; subst.
           assert (E3 : assoc f FT = None) by (destruct (assoc f FT) eqn:E3; [exfalso; apply Hfn; apply In_fnames_assoc; congruence|reflexivity]).
           rewrite (assoc_app_none _ _ _ _ E3) in E2. cbn [assoc] in E2. rewrite str_eqb_refl in E2. inversion E2; subst. split.
           ++ unfold c. rewrite Nnat.Nat2N.id, nth_error_app2, Nat.sub_diag by lia. reflexivity.
           ++ intros c1 Hp. destruct (Hvalid _ _ (Hpairs _ _ Hp)) as [H _]. unfold c in H. rewrite Nnat.Nat2N.id in H. lia.
    + intros f0 c0 c0' ce cb0 E k Hk. cbn [length] in Hk. assert (k = 0) by lia. subst k. cbn [skipn app].
      destruct (assoc f0 fcells) as [x0|] eqn:E0.
      * rewrite (assoc_app_some _ _ _ _ _ E0) in E. inversion E; subst x0.
        assert (Hne : f0 <> f) by (intros ->; apply Hfn; apply Hfck; congruence).
        destruct (Hfl f0 c0 c0' ce cb0 E0 0 ltac:(cbn; lia)) as [H1 H2]. cbn [skipn app lookup_scopes] in H1, H2 |- *. unfold lookup_fs in *.
        rewrite (Hfind f0 Hne). rewrite assoc_set_other by exact Hne. split; assumption.
      * rewrite (assoc_app_none _ _ _ _ E0) in E. cbn [assoc] in E. destruct (str_eqb f f0) eqn:Ef0; [|discriminate].
        apply str_eqb_iff in Ef0. subst f0. inversion E; subst. unfold lookup_fs.
        cbn [lookup_scopes find_in_function fr' vars app]. rewrite !assoc_set_same. split; reflexivity.
    + exact Hcur.
    + cbn [current_function fr' lab] in *. exact Hcf.
    + intros x c0 E. discriminate.
    + intros x c0 c0' Hin k Hk. cbn [length] in Hk. assert (k = 0) by lia. subst k. cbn [skipn app].
      apply in_app_or in Hin as [Hin|Hin].
      * destruct (Hdl x c0 c0' Hin 0 ltac:(cbn; lia)) as [H1 H2]. cbn [skipn app] in H1, H2.
        assert (Hne : x <> f) by (intros ->; congruence).
        unfold lookup_fs in *. rewrite (Hfind x Hne). cbn [lookup_scopes] in H1 |- *. rewrite assoc_set_other by exact Hne. split; assumption.
      * destruct (Hdt' x c0 c0' Hin) as [H1 H2].
        assert (Hne : x <> f) by (intros ->; congruence).
        unfold lookup_fs. cbn [lookup_scopes find_in_function fr' vars]. rewrite !assoc_set_other by exact Hne. rewrite H1, H2. split; reflexivity.
  - destruct HB as [H1 H2]. split.
    + intros x Hx. cbn [locals]. destruct (list_eq_dec N.eq_dec x f) as [->|Hne].
      * cbn [lookup_scopes]. rewrite assoc_set_same. split; [intros _|discriminate]. right. rewrite fnames_app. apply in_or_app. right. now left.
      * rewrite (Hlk x Hne). rewrite (H1 x Hx). cbn [locals]. rewrite fnames_app. split.
        -- intros [H|H]; [now left|right; apply in_or_app; now left].
        -- intros [H|H]; [now left|]. apply in_app_or in H as [H|[H|[]]]; [now right|cbn in H; congruence].
    + intros x Hx. destruct (H2 x Hx) as [A B0]. split; [|exact B0]. rewrite fnames_app. intros Hin.
      apply in_app_or in Hin as [Hin|[Hin|[]]]; [exact (A Hin)|]. cbn in Hin. subst x. exact (HfB Hx).
Qed.
End DefRel.

(* ================================================================ the table of the functions defined so far *)
Record fentry := mkE { fe_f : str; fe_ps : list str; fe_body : list stmt; fe_c : N; fe_c' : N;
                       fe_env : list scope; fe_cb : option (list (str * N)); fe_loc : str;
                       fe_cd : scope;                      (* the data variables it captures: name -> source cell *)
                       fe_dt : list (str * (N * N));       (* ... with both cells (the module-level bindings) *)
                       fe_dn : list (N * N) }.             (* the data cell pairs that must be related when it is called *)
Definition fe_def (e : fentry) : fdef := (fe_f e, (fe_ps e, fe_body e)).
Definition tFT (T : list fentry) : ftab := map fe_def T.
Definition tcells (T : list fentry) : list (str * (N * N * list scope * option (list (str * N)))) :=
  map (fun e => (fe_f e, (fe_c e, fe_c' e, fe_env e, fe_cb e))) T.
Definition tlocs (T : list fentry) : list (str * str) := map (fun e => (fe_f e, fe_loc e)) T.
Definition tloc (T : list fentry) (f : str) : str := match assoc f (tlocs T) with Some l => l | None => [] end.
Definition tpins (T : list fentry) : pinset := fpins_of (tFT T) (tcells T) (tloc T).
Definition tdns (T : list fentry) : list (str * list (N * N)) := map (fun e => (fe_f e, fe_dn e)) T.
Definition tdn (T : list fentry) (f : str) : list (N * N) := match assoc f (tdns T) with Some l => l | None => [] end.
Definition tdtab (T : list fentry) : list (str * (N * N)) := flat_map fe_dt T.
Lemma tdtab_app : forall A B, tdtab (A ++ B) = tdtab A ++ tdtab B.
Proof. intros. unfold tdtab. apply flat_map_app. Qed.
Lemma tdns_app : forall A B, tdns (A ++ B) = tdns A ++ tdns B.
Proof. intros. unfold tdns. apply map_app. Qed.
Lemma tdtab_firstn_in : forall T i j x, i <= j -> In x (tdtab (firstn i T)) -> In x (tdtab (firstn j T)).
Proof.
  intros T i j x Hij H. rewrite <- (firstn_skipn i (firstn j T)), tdtab_app. apply in_or_app. left.
  rewrite firstn_firstn, Nat.min_l by exact Hij. exact H.
Qed.
Lemma tdtab_firstn_all : forall T i x, In x (tdtab (firstn i T)) -> In x (tdtab T).
Proof. intros T i x H. rewrite <- (firstn_skipn i T), tdtab_app. apply in_or_app. now left. Qed.
Lemma firstn_snoc_nth : forall A (T : list A) j e, nth_error T j = Some e -> firstn j T ++ [e] = firstn (S j) T.
Proof.
  intros A. induction T as [|x T IH]; intros j e H; [destruct j; discriminate|]. destruct j as [|j].
  - cbn in H. inversion H. reflexivity.
  - cbn [nth_error] in H. cbn [firstn app]. f_equal. exact (IH j e H).
Qed.
Lemma uname_snoc : forall funs f x, uname funs x -> x <> f -> uname (funs ++ [f]) x.
Proof. intros funs f x [H0 Hn] Hne. split; [exact H0|]. intros Hin. apply in_app_or in Hin as [Hin|[Hin|[]]]; [exact (Hn Hin)|congruence]. Qed.
Lemma fnames_vis_sub : forall caps (P : ftab) y, In y (fnames (vis caps P)) -> In y (fnames P).
Proof.
  intros caps P y H. unfold fnames, vis in *. apply in_map_iff in H as (d & E & Hin). apply filter_In in Hin as [Hin _].
  apply in_map_iff. exists d. auto.
Qed.
Lemma assoc_map_key : forall A (h : str -> A) l x c, assoc x (map (fun n => (n, h n)) l) = Some c -> In x l /\ c = h x.
Proof.
  intros A h. induction l as [|n l IH]; intros x c H; [discriminate|]. cbn [map assoc] in H.
  destruct (str_eqb n x) eqn:E.
  - apply str_eqb_iff in E. subst n. inversion H. split; [now left|reflexivity].
  - destruct (IH x c H) as [H1 H2]. split; [now right|exact H2].
Qed.

Lemma tFT_app : forall A B, tFT (A ++ B) = tFT A ++ tFT B.
Proof. intros. unfold tFT. apply map_app. Qed.
Lemma tcells_app : forall A B, tcells (A ++ B) = tcells A ++ tcells B.
Proof. intros. unfold tcells. apply map_app. Qed.
Lemma tlocs_app : forall A B, tlocs (A ++ B) = tlocs A ++ tlocs B.
Proof. intros. unfold tlocs. apply map_app. Qed.

Lemma tcells_find : forall T f x, assoc f (tcells T) = Some x ->
  exists e, In e T /\ fe_f e = f /\ x = (fe_c e, fe_c' e, fe_env e, fe_cb e) /\
            assoc f (tFT T) = Some (fe_ps e, fe_body e) /\ assoc f (tlocs T) = Some (fe_loc e) /\
            assoc f (tdns T) = Some (fe_dn e).
Proof.
  induction T as [|e0 T IH]; intros f x H; [discriminate|]. cbn [tcells tFT tlocs tdns map assoc fe_def] in *.
  destruct (str_eqb (fe_f e0) f) eqn:E.
  - apply str_eqb_iff in E. inversion H; subst. exists e0. split; [now left|]. auto 6.
  - destruct (IH f x H) as (e & Hin & H1 & H2 & H3 & H4 & H5). exists e. split; [now right|]. auto 6.
Qed.
Lemma tcells_keys : forall T f, In f (fnames (tFT T)) <-> assoc f (tcells T) <> None.
Proof.
  induction T as [|e0 T IH]; intros f; cbn [tFT tcells map fnames fst fe_def In assoc].
  - split; [intros []|congruence].
  - destruct (str_eqb (fe_f e0) f) eqn:E.
    + apply str_eqb_iff in E. split; [congruence|now left].
    + split.
      * intros [H|H]; [subst f; rewrite str_eqb_refl in E; discriminate|]. now apply IH.
      * intros H. right. now apply IH.
Qed.

(* what the table must satisfy: every function is in the fragment w.r.t. the earlier ones, its code is in the program,
   and the functions it captures are where its captured environment / captured cells say *)
Definition entry_ok (prog : program) (pre : list fentry) (e : fentry) : Prop :=
  fn_ok (tFT pre) (map fst (fe_cd e)) (fe_def e) /\
  assoc (fe_loc e) prog = Some (fcode_of (fe_ps e) (fe_body e)) /\
  (forall f' c c' ce cb', assoc f' (tcells pre) = Some (c, c', ce, cb') -> In f' (caps_of (fe_def e)) ->
    lookup_scopes f' (fe_env e) = Some c /\ exists m, fe_cb e = Some m /\ assoc f' m = Some c') /\
  (* the captured data variables: exactly the captured names that are not functions; where they are *)
  map fst (fe_cd e) = dcaps (tFT pre) (caps_of (fe_def e)) /\
  (forall x c, assoc x (fe_cd e) = Some c ->
    uname (fnames (tFT pre)) x /\ lookup_scopes x (fe_env e) = Some c /\
    exists c' m, fe_cb e = Some m /\ assoc x m = Some c' /\ In (x, (c, c')) (fe_dt e)) /\
  fe_dn e = map snd (tdtab (pre ++ [e])).
Definition twf (prog : program) (T : list fentry) : Prop :=
  forall i e, nth_error T i = Some e -> entry_ok prog (firstn i T) e.

Lemma twf_snoc : forall prog T e, twf prog T -> entry_ok prog T e -> twf prog (T ++ [e]).
Proof.
  intros prog T e HT He i e0 Hi. destruct (Nat.lt_ge_cases i (length T)) as [Hlt|Hge].
  - rewrite nth_error_app1 in Hi by exact Hlt. rewrite firstn_app. replace (i - length T) with 0 by lia.
    cbn [firstn]. rewrite app_nil_r. exact (HT i e0 Hi).
  - rewrite nth_error_app2 in Hi by exact Hge. destruct (i - length T) as [|j] eqn:Ej; [|destruct j; discriminate].
    cbn in Hi. inversion Hi; subst e0. assert (i = length T) by lia. subst i.
    rewrite firstn_app, Nat.sub_diag, firstn_all. cbn [firstn]. rewrite app_nil_r. exact He.
Qed.

Lemma twf_names : forall prog T f, twf prog T -> In f (fnames (tFT T)) -> uname0 f.
Proof.
  intros prog T f HT Hin. unfold fnames, tFT in Hin. rewrite map_map in Hin. apply in_map_iff in Hin as (e & E & Hin).
  apply In_nth_error in Hin as [i Hi]. destruct (HT i e Hi) as [Hok _]. unfold fn_ok, fe_def in Hok. cbn [fe_def fst] in E. subst f.
  exact (src_nameb_ok _ (proj1 Hok)).
Qed.

(* ================================================================ every function of a well-formed table does what
   call_clos does: induction on the position in the table (a function calls earlier ones), then on the fuel (self) *)
Section TCall.
Variable prog : program.
Variable T : list fentry.
Hypothesis HT : twf prog T.

Lemma tcall_ok : forall n i e, i < n -> nth_error T i = Some e -> forall fuel,
  callee_ok (tpins T) prog fuel (fe_ps e) (fe_body e) (fe_env e) (fe_loc e) (fe_cb e) (fe_dn e).
Proof.
  induction n as [|n IHn]; intros i e Hi Hnth; [lia|].
  destruct (Nat.eq_dec i n) as [->|Hne]; [|apply (IHn i e); [lia|exact Hnth]].
  set (P := firstn n T). set (ps := fe_ps e). set (body := fe_body e). set (caps := free_vars ps body).
  destruct (HT n e Hnth) as (Hok & Hcode & Hent0 & Hcdk & Hcdw & Hdne). fold P in Hok, Hent0, Hcdk, Hcdw, Hdne.
  change (caps_of (fe_def e)) with caps in Hcdk.
  unfold fn_ok, fe_def in Hok. fold ps body caps in Hok. destruct Hok as (Hf & Hndp & Hsrc & Hcaps & Hpn & Hokb & Hsm).
  rewrite <- Hcdk in Hokb.
  set (FTi := vis caps (tFT P)) in *. set (fci := filter (fun x => mem_str (fst x) caps) (tcells P)).
  assert (ET : T = P ++ skipn n T) by (symmetry; apply firstn_skipn).
  assert (HlenP : length P = n).
  { unfold P. apply firstn_length_le. apply Nat.lt_le_incl. apply nth_error_Some. congruence. }
  assert (Hentry : forall f' x, assoc f' fci = Some x ->
            In f' caps /\ exists j e', j < n /\ nth_error T j = Some e' /\ In e' P /\ fe_f e' = f' /\
              assoc f' FTi = Some (fe_ps e', fe_body e') /\ assoc f' (tFT T) = Some (fe_ps e', fe_body e') /\
              assoc f' (tcells T) = Some x /\ x = (fe_c e', fe_c' e', fe_env e', fe_cb e') /\ tloc T f' = fe_loc e' /\
              tdn T f' = fe_dn e').
  { intros f' x H. unfold fci in H. rewrite (assoc_filter _ (fun k => mem_str k caps)) in H.
    destruct (mem_str f' caps) eqn:Em; [|discriminate]. split; [now apply mem_str_In|].
    destruct (tcells_find P f' x H) as (e' & Hin & H1 & H2 & H3 & H4 & H5).
    destruct (In_nth_error _ _ Hin) as [j Hj].
    assert (Hjn : j < n) by (rewrite <- HlenP; apply nth_error_Some; congruence).
    exists j, e'. split; [exact Hjn|]. split; [rewrite ET, nth_error_app1 by lia; exact Hj|]. split; [exact Hin|]. split; [exact H1|].
    split; [unfold FTi, vis; rewrite (assoc_filter _ (fun k => mem_str k caps)), Em; exact H3|].
    split; [rewrite ET, tFT_app; now apply assoc_prefix|].
    split; [rewrite ET, tcells_app; now apply assoc_prefix|]. split; [exact H2|]. split.
    - unfold tloc. rewrite ET, tlocs_app, (assoc_prefix _ _ _ _ _ H4). reflexivity.
    - unfold tdn. rewrite ET, tdns_app, (assoc_prefix _ _ _ _ _ H5). reflexivity. }
  assert (Hfun0i : forall f', In f' (fnames FTi) -> uname0 f').
  { intros f' Hin. apply In_fnames_assoc in Hin. unfold FTi, vis in Hin. rewrite (assoc_filter _ (fun k => mem_str k caps)) in Hin.
    destruct (mem_str f' caps); [|congruence]. apply In_fnames_assoc in Hin. apply (twf_names prog T f' HT).
    rewrite ET, tFT_app, fnames_app. apply in_or_app. now left. }
  assert (Hfcki : forall f', In f' (fnames FTi) <-> assoc f' fci <> None).
  { intros f'. rewrite In_fnames_assoc. unfold FTi, vis, fci. rewrite !(assoc_filter _ (fun k => mem_str k caps)).
    destruct (mem_str f' caps); [|tauto]. rewrite <- In_fnames_assoc. apply tcells_keys. }
  assert (Hgpvi : forall f' c c' cenv cbf, assoc f' fci = Some (c, c', cenv, cbf) -> vpin (tpins T) c' (VFun (tloc T f') cbf)).
  { intros f' c c' cenv cbf E. destruct (Hentry _ _ E) as (_ & j & e' & _ & _ & _ & _ & _ & _ & E' & _).
    exists f', c, cenv, cbf. auto. }
  assert (Hgpsi : forall f' c c' cenv cbf ps' body', assoc f' fci = Some (c, c', cenv, cbf) -> assoc f' FTi = Some (ps', body') ->
            spin (tpins T) c (RClos ps' body' cenv)).
  { intros f' c c' cenv cbf ps' body' E E2. destruct (Hentry _ _ E) as (_ & j & e' & _ & _ & _ & _ & E3 & E4 & E' & _).
    rewrite E3 in E2. inversion E2; subst ps' body'. exists f', c', cenv, cbf, (fe_ps e'), (fe_body e'). auto. }
  assert (Hent : forall f' c c' ce cb', assoc f' fci = Some (c, c', ce, cb') ->
            lookup_scopes f' (fe_env e) = Some c /\ exists m, fe_cb e = Some m /\ assoc f' m = Some c').
  { intros f' c c' ce cb' E. destruct (Hentry _ _ E) as (Hin & _).
    unfold fci in E. rewrite (assoc_filter _ (fun k => mem_str k caps)) in E. destruct (mem_str f' caps); [|discriminate].
    exact (Hent0 f' c c' ce cb' E Hin). }
  assert (Hcdn : forall x c, assoc x (fe_cd e) = Some c ->
            uname (fnames FTi) x /\ exists c' m, fe_cb e = Some m /\ assoc x m = Some c' /\ In (c, c') (fe_dn e)).
  { intros x c0 E. destruct (Hcdw x c0 E) as (Hx & _ & c' & m & Em & Ea & Hin).
    split; [exact (uname_sub _ _ _ (fnames_vis_sub caps (tFT P)) Hx)|]. exists c', m. split; [exact Em|]. split; [exact Ea|].
    rewrite Hdne, tdtab_app. apply in_map_iff. exists (x, (c0, c')). split; [reflexivity|].
    apply in_or_app. right. cbn [tdtab flat_map]. rewrite app_nil_r. exact Hin. }
  assert (Hfdn : forall f' p, In f' (fnames FTi) -> In p (tdn T f') -> In p (fe_dn e)).
  { intros f' p Hin Hp. apply Hfcki in Hin. destruct (assoc f' fci) as [x|] eqn:Ex; [|congruence].
    destruct (Hentry _ _ Ex) as (_ & j & e' & Hj & Hnj & _ & _ & _ & _ & _ & _ & _ & Edn). rewrite Edn in Hp.
    destruct (HT j e' Hnj) as (_ & _ & _ & _ & _ & Hdj). rewrite Hdj, (firstn_snoc_nth _ T j e' Hnj) in Hp.
    rewrite Hdne, tdtab_app, map_app. apply in_or_app. left.
    apply in_map_iff in Hp as (y & Ey & Hy). apply in_map_iff. exists y. split; [exact Ey|].
    unfold P. exact (tdtab_firstn_in T (S j) n y ltac:(lia) Hy). }
  intros fuel. induction fuel as [fuel IHf] using lt_wf_ind.
  pose proof (fun_sim prog FTi fci (tloc T) Hfun0i Hfcki (fe_cb e)
                (Some (RClos ps body (fe_env e))) (fe_loc e) (fe_cd e) (tpins T) Hgpvi Hgpsi (fe_dn e) (tdn T) Hcdn Hfdn
                ps body (fe_env e)
                (strip (ftail (bitems 1 0 None body))) eq_refl) as HS.
  cbv zeta in HS. fold (fcode_of ps body) in HS.
  assert (Ht : strip (ftail (bitems 1 0 None body)) = [mkI OP_VOID []; mkI OP_RET []] \/
               (strip (ftail (bitems 1 0 None body)) = [] /\ ends_ret body = true)).
  { destruct (strip_ftail (bitems 1 0 None body)) as [H|[H H']]; [now left|right]. split; [exact H|].
    exact (ends_in_ret_body _ _ _ (rev ps) 1 0 body Hokb H'). }
  apply (HS Hcode Ht Hndp Hsrc Hpn Hokb Hsm Hent ltac:(intros x c0 E; exact (proj1 (proj2 (Hcdw x c0 E)))) fuel).
  - intros fuel' _ f' ps' body' c0 c0' cenv' cbf' Eft Efc.
    destruct (Hentry _ _ Efc) as (_ & j & e' & Hj & Hnj & _ & _ & E3 & _ & _ & Ex & Efl & Edn).
    rewrite E3 in Eft. inversion Eft; subst ps' body'. inversion Ex; subst c0 c0' cenv' cbf'. rewrite Efl, Edn.
    exact (IHn j e' Hj Hnj fuel').
  - intros fuel' Hlt. exact (IHf fuel' Hlt).
Qed.

Lemma tcall_ok_all : forall fuel, call_ok (tFT T) (tcells T) (tloc T) (tpins T) (tdn T) prog fuel.
Proof.
  intros fuel f ps body c0 c0' cenv cbf Eft Efc.
  destruct (tcells_find T f _ Efc) as (e & Hin & H1 & H2 & H3 & H4 & H5). rewrite H3 in Eft. inversion Eft; subst ps body.
  inversion H2; subst. unfold tloc, tdn. rewrite H4, H5. destruct (In_nth_error _ _ Hin) as [i Hi].
  exact (tcall_ok (S i) i e (Nat.lt_succ_diag_r _) Hi fuel).
Qed.

(* what a function of the table needs related is a captured module-level binding *)
Lemma tdn_dtab : forall f p, In p (tdn T f) -> exists x, In (x, p) (tdtab T).
Proof.
  intros f p Hp. unfold tdn in Hp. destruct (assoc f (tdns T)) as [l|] eqn:E; [|destruct Hp].
  assert (He : exists i e, nth_error T i = Some e /\ l = fe_dn e).
  { clear -E. induction T as [|e0 T0 IH]; [discriminate|]. cbn [tdns map assoc] in E. destruct (str_eqb (fe_f e0) f).
    - inversion E. exists 0, e0. split; reflexivity.
    - destruct (IH E) as (i & e & Hi & El). exists (S i), e. split; assumption. }
  destruct He as (i & e & Hi & ->). destruct (HT i e Hi) as (_ & _ & _ & _ & _ & Hd).
  rewrite Hd, (firstn_snoc_nth _ T i e Hi) in Hp. apply in_map_iff in Hp as ([x q] & Eq & Hin). cbn [snd] in Eq. subst q.
  exists x. exact (tdtab_firstn_all T (S i) _ Hin).
Qed.
End TCall.

(* ================================================================ the top-level items of a module *)
Inductive mitem := MDef (d : fdef) | MStmt (st : stmt).
Fixpoint classify (p : list stmt) : list mitem :=
  match p with
  | [] => []
  | SAssign f (EFn ps body) :: t => MDef (f, (ps, body)) :: classify t
  | st :: t => MStmt st :: classify t
  end.
Definition item_stmt (it : mitem) : stmt := match it with MDef d => def_stmt d | MStmt st => st end.
Lemma classify_stmts : forall p, map item_stmt (classify p) = p.
Proof.
  induction p as [|st t IH]; [reflexivity|]. destruct st; try (cbn [classify map item_stmt]; now rewrite IH).
  destruct e; cbn [classify map item_stmt]; unfold def_stmt; cbn [fst snd]; now rewrite IH.
Qed.

(* definitions of functions that are in the fragment w.r.t. the functions defined before them (fresh names), between
   statements of the fragment that may call the functions defined so far *)
Fixpoint mod_ok (FT : ftab) (B : list str) (its : list mitem) : Prop :=
  match its with
  | [] => True
  | MDef d :: t => fn_ok FT B d /\ ~ In (fst d) (fnames FT) /\ ~ In (fst d) B /\ mod_ok (FT ++ [d]) B t
  | MStmt st :: t => ok_stmt FT None [] false B st = true /\ mod_ok FT (after B st) t
  end.
Fixpoint mdefs (its : list mitem) : ftab :=
  match its with [] => [] | MDef d :: t => d :: mdefs t | MStmt _ :: t => mdefs t end.

Section ModCode.
Variable path : str.
Fixpoint mcode (k : nat) (its : list mitem) : list instr :=
  match its with
  | [] => []
  | MDef d :: t => mkI OP_MAKE_FUNCTION (fn_name path k :: caps_of d) :: mkI OP_STORE [fst d] :: mcode (S k) t
  | MStmt st :: t => strip (sitems 0 0 None st) ++ mcode k t
  end.

Lemma cblock0_items : forall its FT B st, mod_ok FT B its -> lreg st = 0 ->
  cblock0 path (map item_stmt its) st =
  (map CI (mcode (fid st) its),
   {| fid := fid st + length (mdefs its); lreg := 0; fbuf := fbuf st ++ dfbuf path (fid st) (mdefs its) |}).
Proof.
  induction its as [|[[f [ps body]]|s0] t IH]; intros FT B st Hok Hlr.
  - cbn [map cblock0 mcode mdefs dfbuf length]. rewrite Nat.add_0_r, app_nil_r. destruct st as [fi lr fb]. cbn [lreg fid fbuf] in *. now subst lr.
  - destruct Hok as ((Hf & Hnd & Hsrc & Hcaps & Hpn & Hokb & Hsm) & _ & _ & Hok').
    cbn [map item_stmt cblock0]. unfold def_stmt at 1. cbn [fst snd]. rewrite cstmt_SAssign, cexpr_EFn_eq.
    rewrite (cblockT_ok path 1 body _ _ _ false (rev ps) None st Hokb). rewrite Hlr. cbv zeta. cbv beta iota.
    match goal with |- context [cblock0 path (map item_stmt t) ?st1] => rewrite (IH _ _ st1 Hok' eq_refl) end.
    cbn [fid lreg fbuf mdefs length mcode dfbuf map fst].
    unfold caps_of. cbn [fst snd]. unfold fcode_of. rewrite !strip_app, strip_map_CI. rewrite <- !app_assoc. cbn [app].
    replace (fid st + S (length (mdefs t))) with (S (fid st + length (mdefs t))) by lia. reflexivity.
  - destruct Hok as (Hs & Hok'). cbn [map item_stmt cblock0].
    rewrite (cstmt_frag path 0 s0 FT None [] false B None st Hs). rewrite Hlr.
    rewrite (IH _ _ _ Hok' Hlr). cbn [mcode mdefs]. rewrite map_app.
    rewrite (CI_strip _ (sitems_CI FT None [] 0 s0 B 0 None Hs)). reflexivity.
Qed.
End ModCode.

(* ================================================================ the simulation along the items of a module *)
Lemma tloc_snoc_other : forall T e x, x <> fe_f e -> tloc (T ++ [e]) x = tloc T x.
Proof.
  intros T e x Hx. unfold tloc. rewrite tlocs_app. destruct (assoc x (tlocs T)) as [l|] eqn:E.
  - now rewrite (assoc_app_some _ _ _ _ _ E).
  - rewrite (assoc_app_none _ _ _ _ E). cbn [tlocs map assoc]. rewrite str_eqb_neq by congruence. reflexivity.
Qed.
Lemma tloc_snoc_same : forall T e, ~ In (fe_f e) (fnames (tFT T)) -> tloc (T ++ [e]) (fe_f e) = fe_loc e.
Proof.
  intros T e Hn. unfold tloc. rewrite tlocs_app.
  assert (E : assoc (fe_f e) (tlocs T) = None).
  { destruct (assoc (fe_f e) (tlocs T)) eqn:E; [|reflexivity]. exfalso. apply Hn. clear -E.
    induction T as [|e0 T IH]; [discriminate|]. cbn [tlocs map assoc tFT fnames fst fe_def In] in *.
    destruct (str_eqb (fe_f e0) (fe_f e)) eqn:E0; [left; now apply str_eqb_iff|right; now apply IH]. }
  rewrite (assoc_app_none _ _ _ _ E). cbn [tlocs map assoc]. now rewrite str_eqb_refl.
Qed.

Section ModRun.
Variable path : str.
Variable prog : program.
Variable name : str.
Variable code : list instr.
Hypothesis Hsmall : small (2 * length code + 8).

Record minv (T : list fentry) (B : list str) (env : fenv) (s : rstate) (a : act) (g : gstate) : Prop := {
  mi_R : Rst [] (tFT T) (fnames (tFT T)) (tcells T) None None name (tpins T) [] (tdtab T) no_pins env s a g;
  mi_B : bound_in (tFT T) (fnames (tFT T)) B env;
  mi_wf : twf prog T;
  mi_dt : forall x cc, In (x, cc) (tdtab T) -> uname (fnames (tFT T)) x;
  mi_one : exists sc fr, locals env = [sc] /\ frames g = [fr];
  mi_cb : a_cb a = None
}.

Lemma tpins_v : forall T f c c' cenv cbf, assoc f (tcells T) = Some (c, c', cenv, cbf) -> vpin (tpins T) c' (VFun (tloc T f) cbf).
Proof. intros T f c c' cenv cbf E. exists f, c, cenv, cbf. auto. Qed.
Lemma tpins_s : forall T f c c' cenv cbf ps body, assoc f (tcells T) = Some (c, c', cenv, cbf) -> assoc f (tFT T) = Some (ps, body) ->
  spin (tpins T) c (RClos ps body cenv).
Proof. intros T f c c' cenv cbf ps body E E2. exists f, c', cenv, cbf, ps, body. auto. Qed.

Definition mres (k : nat) (a : act) (g : gstate) (r : sres_) : Prop :=
  match r with
  | SOk SigNormal env' s' => exists T' B' a' g', xrun prog name code a g a' g' /\ a_ip a' = k /\ minv T' B' env' s' a' g'
  | SOk (SigReturn (Some v)) env' s' => exists a' g',
        xrun prog name code a g a' g' /\ nth_error code (a_ip a') = Some (mkI OP_RET []) /\
        a_ops a' = [inj v] /\ out g' = rout s' /\ drop_to_function (frames g') = []
  | SOk _ _ _ => False
  | SFailed f s' => fail_post f (exists e g', xfail prog name code a g e g' /\ err_rel_s f e /\ out g' = rout s')
  | SFuel => True
  end.

Lemma mod_run : forall its T B env s a g fuel k,
  mod_ok (tFT T) B its -> minv T B env s a g -> a_ip a = k ->
  code_at code k (mcode path (length T) its) -> k + length (mcode path (length T) its) < length code ->
  (forall j d, nth_error (mdefs its) j = Some d ->
     assoc (fn_name path (length T + j)) prog = Some (fcode_of (fst (snd d)) (snd (snd d)))) ->
  mres (k + length (mcode path (length T) its)) a g (exec_block fuel env (map item_stmt its) s).
Proof.
  induction its as [|[[f [ps body]]|st] t IH]; intros T B env s a g fuel k Hok Hinv Hip Hc Hend Hprog.
  - cbn [map mcode length]. rewrite Nat.add_0_r. destruct fuel as [|fuel]; [exact Logic.I|]. rewrite exec_block_nil.
    cbn [mres]. exists T, B, a, g. split; [apply xrun_refl|]. split; [exact Hip|exact Hinv].
  - (* a definition *)
    destruct Hok as (Hfok & HfT & HfB & Hok').
    destruct fuel as [|fuel]; [exact Logic.I|]. cbn [map item_stmt]. rewrite exec_block_cons.
    destruct fuel as [|fuel]; [exact Logic.I|]. unfold def_stmt at 1. cbn [fst snd]. rewrite exec_SAssign.
    destruct fuel as [|fuel]; [exact Logic.I|].
    destruct Hinv as [(HG & Hops & Hss) HB Hwf Hdt (sc & fr & El & Ef) Hcb].
    change (eval (S fuel) env (EFn ps body) s) with (EVal (RClos ps body (locals env ++ captured env)) s).
    set (d := (f, (ps, body)) : fdef) in *.
    cbn [mcode length] in Hc, Hend |- *. apply code_at_cons in Hc as [Hi1 Hc]. apply code_at_cons in Hc as [Hi2 Hc]. cbn [fst d] in Hi2.
    pose proof Hfok as (Hf & Hndp & Hsrc & Hcaps & Hpn & Hokb & Hsm).
    assert (Hf0 : uname0 f) by exact (src_nameb_ok _ Hf).
    set (loc := fn_name path (length T)).
    set (cbf := match caps_of d with [] => None | ns => Some (capmap (vars fr) ns) end).
    set (cenv := locals env ++ captured env).
    set (c := N.of_nat (length (store s))).
    (* the data variables the function captures: bound at module level, in related cells *)
    set (dcs := dcaps (tFT T) (caps_of d)).
    set (cellS := fun n : str => match assoc n sc with Some c1 => c1 | None => 0%N end).
    set (cellV := fun n : str => match assoc n (vars fr) with Some c1 => c1 | None => 0%N end).
    set (cd := map (fun n => (n, cellS n)) dcs).
    set (dt := map (fun n => (n, (cellS n, cellV n))) dcs).
    assert (Hdcs : forall x, In x dcs -> uname (fnames (tFT T)) x /\ assoc x sc = Some (cellS x) /\ assoc x (vars fr) = Some (cellV x)).
    { intros x Hx. apply In_dcaps in Hx as [Hxc Hxf]. rewrite forallb_forall in Hcaps. specialize (Hcaps x Hxc).
      unfold d, caps_of in Hxc. cbn [fst snd] in Hxc.
      rewrite Hxf in Hcaps. cbn [orb] in Hcaps. apply mem_str_In in Hcaps.
      pose proof (bound_in_look _ _ _ _ x HB Hcaps) as Hlk.
      assert (Hux : uname (fnames (tFT T)) x).
      { destruct (Rg_un _ _ _ _ _ _ _ _ _ _ _ _ _ HG x Hlk) as [H|[H|H]]; [exact H| |]; destruct (proj2 HB x Hcaps) as [A B0]; [exact (False_ind _ (A H))|exact (False_ind _ (B0 H))]. }
      split; [exact Hux|].
      destruct (Rg_lookup _ _ _ _ _ _ _ _ _ _ _ _ _ x HG Hux Hlk) as (c1 & c1' & v1 & E1 & E2 & _).
      rewrite El in E1. rewrite Ef in E2. cbn [lookup_scopes] in E1. cbn [find_in_function] in E2. unfold cellS, cellV.
      destruct (assoc x sc) as [cc|]; [|discriminate]. destruct (assoc x (vars fr)) as [cc'|]; [split; reflexivity|].
      destruct (special (lab fr)); discriminate. }
    set (e := mkE f ps body c (N.of_nat (length (cells g))) cenv cbf loc cd dt (map snd (tdtab T ++ dt))).
    (* where the captured functions are *)
    assert (Hwhere : forall f' c0 c0' ce cb', assoc f' (tcells T) = Some (c0, c0', ce, cb') ->
              lookup_scopes f' cenv = Some c0 /\ assoc f' (vars fr) = Some c0').
    { intros f' c0 c0' ce cb' E. destruct (Rg_flook _ _ _ _ _ _ _ _ _ _ _ _ _ HG f' c0 c0' ce cb' E 0 ltac:(rewrite El; cbn; lia)) as [H1 H2].
      cbn [skipn] in H1, H2. split; [exact H1|]. unfold lookup_fs in H2. rewrite Ef in H2. cbn [find_in_function] in H2.
      destruct (assoc f' (vars fr)) as [c1|]; [congruence|]. destruct (special (lab fr)); discriminate. }
    assert (Hallcap : forall n, In n (caps_of d) -> assoc n (vars fr) <> None).
    { intros n Hn. destruct (mem_str n (fnames (tFT T))) eqn:Emf.
      - assert (Hin : In n (fnames (tFT T))) by (apply mem_str_In; exact Emf).
        apply tcells_keys in Hin. destruct (assoc n (tcells T)) as [[[[c0 c0'] ce] cb']|] eqn:E; [|congruence].
        rewrite (proj2 (Hwhere n c0 c0' ce cb' E)). discriminate.
      - assert (Hin : In n dcs) by (apply In_dcaps; split; [exact Hn|exact Emf]).
        rewrite (proj2 (proj2 (Hdcs n Hin))). discriminate. }
    (* the machine: make_function *)
    set (fw := VFun loc cbf).
    set (i1 := mkI OP_MAKE_FUNCTION (loc :: caps_of d)) in *.
    set (a1 := set_ip (set_ops a [fw]) (S (a_ip a))).
    set (g1 := trc name a g i1).
    assert (R1 : xrun prog name code a g a1 g1).
    { eapply (xstep_next prog name code a g i1 _ (a_ip a) (set_ops a [fw]));
        [reflexivity|rewrite Hip; exact Hi1|apply dec_make_function|]. cbn [exec_d]. rewrite Hops. unfold fw, cbf.
      destruct (caps_of d) as [|n0 ns0] eqn:Ecaps; [reflexivity|].
      assert (Efr : frames g1 = [{| lab := lab fr; vars := vars fr |}]) by (change (frames g1) with (frames g); rewrite Ef; destruct fr; reflexivity).
      assert (Hlab : lab fr = LFun name).
      { pose proof (Rg_cf _ _ _ _ _ _ _ _ _ _ _ _ _ HG) as Hcf. rewrite Ef in Hcf. cbn [current_function] in Hcf.
        destruct (lab fr); try discriminate. inversion Hcf. reflexivity. }
      rewrite Hlab in Efr. fold g1. rewrite (capture_defs a g1 name (vars fr) (n0 :: ns0) Efr); [reflexivity|].
      intros n Hn. apply Hallcap. exact Hn. }
    (* the relation for the larger table *)
    assert (Hdtw : forall x c0 c0', In (x, (c0, c0')) dt -> assoc x sc = Some c0 /\ assoc x (vars fr) = Some c0').
    { intros x c0 c0' Hin. unfold dt in Hin. apply in_map_iff in Hin as (n & En & Hn). inversion En; subst x c0 c0'.
      exact (proj2 (Hdcs n Hn)). }
    destruct (def_rel name (tFT T) (tcells T) (tloc T) (tloc (T ++ [e])) (tcells_keys T) f ps body cenv cbf Hf0 HfT
                ltac:(intros x Hx; exact (tloc_snoc_other T e x Hx)) (tdtab T) dt
                env s (trc name a1 g1 (mkI OP_STORE [f])) B sc fr (trace (trc name a1 g1 (mkI OP_STORE [f])))
                ltac:(apply Rg_trc; apply Rg_trc; exact HG) HB HfB El Ef Hdtw) as (HG' & HB' & Hvn & Hsn).
    cbv zeta in HG', HB'. assert (Eloc : tloc (T ++ [e]) f = loc) by exact (tloc_snoc_same T e HfT). rewrite Eloc in HG'.
    change (cells (trc name a1 g1 (mkI OP_STORE [f]))) with (cells g) in HG'.
    change (out (trc name a1 g1 (mkI OP_STORE [f]))) with (out g) in HG'.
    change (store s) with (store s) in HG'.
    match type of HG' with Rg _ _ _ _ _ _ _ _ _ _ _ ?E ?S ?G => set (env' := E) in *; set (s' := S) in *; set (g2 := G) in * end.
    assert (Eas : assign env s f (RClos ps body cenv) = (env', s')).
    { unfold assign. rewrite Hsn. unfold declare, alloc. rewrite El. reflexivity. }
    rewrite Eas.
    (* the machine: store f *)
    set (i2 := mkI OP_STORE [f]) in *.
    set (a2 := set_ip (set_ops a1 []) (S (a_ip a1))).
    assert (R2 : xrun prog name code a g a2 g2).
    { eapply xrun_trans; [exact R1|].
      eapply (xstep_next prog name code a1 g1 i2 _ (a_ip a1) (set_ops a1 [])); [reflexivity| |apply dec_store|].
      - cbn [a1 set_ip a_ip]. rewrite Hip. exact Hi2.
      - unfold exec_d. cbn [a1 set_ip set_ops a_ops]. unfold store_var.
        rewrite Hvn. unfold bind_local. change (frames (trc name a1 g1 i2)) with (frames g). rewrite Ef.
        reflexivity. }
    (* the new table *)
    assert (Ecd : map fst cd = dcs).
    { unfold cd. rewrite map_map. cbn [fst]. apply map_id. }
    assert (He : entry_ok prog T e).
    { split; [|split; [|split; [|split; [|split]]]].
      - cbn [fe_cd e]. rewrite Ecd. change (fe_def e) with d. unfold fn_ok, d.
        split; [exact Hf|]. split; [exact Hndp|]. split; [exact Hsrc|]. split; [|split; [exact Hpn|split; [exact Hokb|exact Hsm]]].
        rewrite forallb_forall in Hcaps |- *. intros n Hn. destruct (mem_str n (fnames (tFT T))) eqn:Emf; [reflexivity|].
        cbn [orb]. apply In_mem_str. apply In_dcaps. split; [exact Hn|exact Emf].
      - cbn [fe_loc e fe_ps fe_body]. specialize (Hprog 0 d eq_refl). rewrite Nat.add_0_r in Hprog. exact Hprog.
      - intros f' c0 c0' ce cb' E Hin. cbn [fe_env fe_cb e]. destruct (Hwhere f' c0 c0' ce cb' E) as [H1 H2]. split; [exact H1|].
        unfold cbf. change (fe_def e) with d in Hin. destruct (caps_of d) as [|n0 ns0] eqn:Ecaps; [destruct Hin|].
        eexists. split; [reflexivity|]. now apply assoc_capmap.
      - cbn [fe_cd e]. exact Ecd.
      - intros x c0 E. cbn [fe_cd e] in E. unfold cd in E. apply assoc_map_key in E as [Hx ->].
        destruct (Hdcs x Hx) as (Hux & Hs & Hv). split; [exact Hux|]. cbn [fe_env fe_cb fe_dt e]. split.
        + unfold cenv. apply lookup_app_some. rewrite El. cbn [lookup_scopes]. now rewrite Hs.
        + exists (cellV x). unfold cbf. pose proof (proj1 (In_dcaps _ _ _) Hx) as [Hxc _].
          destruct (caps_of d) as [|n0 ns0] eqn:Ecaps; [destruct Hxc|].
          eexists. split; [reflexivity|]. split; [now apply assoc_capmap|].
          unfold dt. apply in_map_iff. exists x. split; [reflexivity|exact Hx].
      - cbn [fe_dn e]. rewrite tdtab_app. cbn [tdtab flat_map fe_dt e]. now rewrite app_nil_r. }
    assert (Hinv' : minv (T ++ [e]) B env' s' a2 g2).
    { constructor.
      - unfold tpins. rewrite !tFT_app, !tcells_app, tdtab_app. cbn [tFT tcells tdtab flat_map map fe_def fe_f fe_ps fe_body fe_c fe_c' fe_env fe_cb fe_dt e].
        rewrite app_nil_r.
        split; [exact HG'|]. split; [reflexivity|]. cbn [env' locals length a2 a1 set_ip set_ops a_ss]. rewrite El in Hss. exact Hss.
      - rewrite tFT_app. exact HB'.
      - apply twf_snoc; assumption.
      - intros x cc Hin. rewrite tFT_app, fnames_app. cbn [tFT map fe_def fe_f fnames fst e].
        rewrite tdtab_app in Hin. cbn [tdtab flat_map fe_dt e] in Hin. rewrite app_nil_r in Hin. apply in_app_or in Hin as [Hin|Hin].
        + apply uname_snoc; [exact (Hdt x cc Hin)|]. intros ->. destruct cc as [c0 c0'].
          destruct (Rg_dlook _ _ _ _ _ _ _ _ _ _ _ _ _ HG f c0 c0' Hin 0 ltac:(rewrite El; cbn; lia)) as [H1 _].
          cbn [skipn] in H1. rewrite app_nil_r in H1. congruence.
        + unfold dt in Hin. apply in_map_iff in Hin as (n & En & Hn). inversion En; subst x.
          destruct (Hdcs n Hn) as (Hun & Hs & _). apply uname_snoc; [exact Hun|]. intros ->.
          rewrite El in Hsn. cbn [lookup_scopes] in Hsn. rewrite Hs in Hsn. discriminate.
      - eexists. eexists. split; reflexivity.
      - cbn [a2 a1 set_ip set_ops a_cb]. exact Hcb. }
    (* the rest of the module *)
    pose proof (IH (T ++ [e]) B env' s' a2 g2 (S (S fuel)) (S (S k))) as H.
    rewrite app_length in H. cbn [length] in H. replace (length T + 1) with (S (length T)) in H by lia.
    rewrite tFT_app in H. cbn [tFT map fe_def fe_f fe_ps fe_body e] in H.
    specialize (H Hok' Hinv' ltac:(cbn [a2 a1 set_ip a_ip]; lia) Hc ltac:(lia)).
    specialize (H ltac:(intros j d0 Hj; replace (S (length T) + j) with (length T + S j) by lia; exact (Hprog (S j) d0 Hj))).
    replace (k + S (S (length (mcode path (S (length T)) t)))) with (S (S k) + length (mcode path (S (length T)) t)) by lia.
    destruct (exec_block (S (S fuel)) env' (map item_stmt t) s') as [sig env2 s2|fl s2|]; cbn [mres] in H |- *; [| |exact Logic.I].
    + destruct sig as [| | |[v|]]; try contradiction.
      * destruct H as (T' & B' & a' & g' & R' & Hip' & Hinv2). exists T', B', a', g'. split; [eapply xrun_trans; eassumption|]. auto.
      * destruct H as (a' & g' & R' & Hr). exists a', g'. split; [eapply xrun_trans; eassumption|exact Hr].
    + eapply fail_post_map; [|exact H]. intros (e0 & g' & Hf' & Hr). exists e0, g'. split; [eapply xrun_fail; eassumption|exact Hr].
  - (* a statement of the fragment *)
    destruct Hok as (Hs & Hok').
    destruct fuel as [|fuel]; [exact Logic.I|]. cbn [map item_stmt]. rewrite exec_block_cons.
    destruct Hinv as [HR HB Hwf Hdt (sc & fr & El & Ef) Hcb].
    cbn [mcode] in Hc, Hend |- *. rewrite app_length in Hend |- *. apply code_at_app in Hc as [Hc1 Hc2].
    pose proof (sitems_CI (tFT T) None [] 0 st B 0 None Hs) as HCI.
    pose proof (strip_CI_length _ HCI) as Hlen.
    pose proof (stmt_sim [] (tFT T) (fnames (tFT T)) (tcells T) (tloc T) None (fun f0 H => H) (fun f0 => twf_names prog T f0 Hwf) (tcells_keys T)
                  None None name ltac:(intros ps0 E; discriminate) (tpins T) (tpins_v T) (tpins_s T)
                  [] ltac:(intros x c0 E; discriminate) (tdtab T) Hdt (tdn T) []
                  ltac:(intros f0 p0 _ Hp0; left; exact (tdn_dtab prog T Hwf f0 p0 Hp0)) ltac:(intros p0 [])
                  prog name code 0 Hsmall fuel
                  ltac:(intros fuel' _; apply tcall_ok_all; exact Hwf)
                  ltac:(intros fuel' _ ps0 body0 cenv0 E; discriminate)
                  st no_pins 0 false None 0 0 fuel k a g env s B (le_n _) (Nat.le_0_l _) Hs HB
                  ltac:(apply items_at_strip; [exact HCI|exact Hc1])
                  ltac:(left; rewrite <- Hlen; lia)
                  ltac:(split; [discriminate|intros m E; discriminate]) Hip Hcb HR) as H.
    rewrite <- Hlen in H.
    destruct (Eval.exec fuel env st s) as [sig env1 s1|fl s1|]; cbn [post mres] in H |- *; [| |exact Logic.I].
    2:{ exact H. }
    destruct H as [Hd H]. destruct sig as [| | |[v|]].
    + destruct H as (HB1 & a1 & g1 & R1 & Hip1 & HR1 & Ha1 & Hf1 & _).
      assert (Hinv1 : minv T (after B st) env1 s1 a1 g1).
      { constructor; try assumption.
        - destruct Hd as [Ht Hne]. rewrite El in Ht. cbn [tl] in Ht. destruct (locals env1) as [|sc1 l1]; [congruence|]. cbn [tl] in Ht. subst l1.
          rewrite Ef in Hf1. cbn [tl] in Hf1. destruct (frames g1) as [|fr1 fs1] eqn:Ef1.
          + exfalso. exact (proj2 (Rfr_ne _ _ _ _ (Rg_fr _ _ _ _ _ _ _ _ _ _ _ _ _ (proj1 HR1))) Ef1).
          + cbn [tl] in Hf1. subst fs1. eexists. eexists. split; reflexivity.
        - rewrite (proj2 (proj2 Ha1)). exact Hcb. }
      pose proof (IH T (after B st) env1 s1 a1 g1 fuel (k + length (strip (sitems 0 0 None st))) Hok' Hinv1 Hip1 Hc2 ltac:(lia) Hprog) as H2.
      rewrite Nat.add_assoc.
      destruct (exec_block fuel env1 (map item_stmt t) s1) as [sig env2 s2|fl s2|]; cbn [mres] in H2 |- *; [| |exact Logic.I].
      * destruct sig as [| | |[v|]]; try contradiction.
        -- destruct H2 as (T' & B' & a' & g' & R' & Hip' & Hinv2). exists T', B', a', g'. split; [eapply xrun_trans; eassumption|]. auto.
        -- destruct H2 as (a' & g' & R' & Hr). exists a', g'. split; [eapply xrun_trans; eassumption|exact Hr].
      * eapply fail_post_map; [|exact H2]. intros (e0 & g' & Hf' & Hr). exists e0, g'. split; [eapply xrun_fail; eassumption|exact Hr].
    + destruct H as (m & ? & ? & E & _). discriminate.
    + destruct H as (m & ? & ? & E & _). discriminate.
    + destruct H as (env'' & a' & g' & R' & Hi & Hop & Hfo & HG' & Ha').
      exists a', g'. split; [exact R'|]. split; [exact Hi|]. split; [exact Hop|].
      split; [exact (Rg_out _ _ _ _ _ _ _ _ _ _ _ _ _ HG')|exact (Rg_drop _ _ _ _ _ _ _ _ _ _ _ _ _ HG')].
    + exact H.
Qed.
End ModRun.

(* ================================================================ whole modules *)
Lemma Rst_init_t : forall name,
  Rst [] [] [] [] None None name (tpins []) [] [] no_pins {| locals := [[]]; captured := []; cur := None |} {| store := []; rout := [] |}
      (act0 name [] None) (push_frame g0 (LFun name)).
Proof.
  intros name. split; [|split; [reflexivity|cbn; lia]].
  constructor; cbn [locals captured store rout cells frames out push_frame with_frames g0 length skipn]; try reflexivity.
  - cbn [StmtRel.Rfr]. split; [|reflexivity]. intros x Hx. cbn. exact Logic.I.
  - intros c1 c1' c2 c2' H1. cbn in H1. destruct H1 as [(x & _ & E & _)|[]]. discriminate.
  - intros x Hx. cbn in Hx. congruence.
  - cbn. split; [intros y Hy; congruence|exact Logic.I].
  - split; intros ? ? [].
  - repeat constructor.
  - split; [intros cy w (f & c0 & ce & cbf & E & _); discriminate|intros c0 v (f & c0' & ce & cbf & ps & body & E & _); discriminate].
  - intros f c0 c0' cenv cbf E. discriminate.
  - intros x c0 E. discriminate.
  - intros x c0 c0' [].
Qed.

Lemma mdefs_length : forall path its k, 2 * length (mdefs its) <= length (mcode path k its).
Proof.
  intros path. induction its as [|[d|st] t IH]; intros k; cbn [mdefs mcode length]; [lia| |].
  - specialize (IH (S k)). lia.
  - rewrite app_length. specialize (IH k). lia.
Qed.

Section ModuleTop.
Variable path : str.

Definition tmodule_code (its : list mitem) : list instr := mcode path 0 its ++ [ret_mod].

Lemma cprogram_items : forall p, mod_ok [] [] (classify p) ->
  cprogram path p = dfbuf path 0 (mdefs (classify p)) ++ [(s_module_fn path, tmodule_code (classify p))].
Proof.
  intros p Hok. unfold cprogram. rewrite <- (classify_stmts p) at 1.
  rewrite (cblock0_items path (classify p) [] [] {| fid := 0; lreg := 0; fbuf := [] |} Hok eq_refl).
  cbn [fid fbuf lreg app]. rewrite strip_map_CI. reflexivity.
Qed.

(* C01 for modules whose function definitions stand anywhere between top-level statements of the fragment *)
Theorem module_top_correct : forall p,
  mod_ok [] [] (classify p) -> small (2 * length (tmodule_code (classify p)) + 8) ->
  forall fuel, snd (run fuel p) <> ROFuel -> no_claim (snd (run fuel p)) \/
  exists fuel', fst (fst (execute fuel' (cprogram path p) (s_module_fn path))) = fst (run fuel p) /\
                vm_outcome_ok (snd (run fuel p)) (snd (fst (execute fuel' (cprogram path p) (s_module_fn path)))).
Proof.
  intros p Hok Hsm fuel Hnf.
  set (its := classify p) in *.
  set (name := s_module_fn path).
  set (P := cprogram path p).
  set (mc := tmodule_code its).
  assert (EP : P = dfbuf path 0 (mdefs its) ++ [(name, mc)]) by (apply cprogram_items; exact Hok).
  assert (Ecode : assoc name P = Some mc) by (rewrite EP; apply assoc_dfbuf_module).
  assert (Hlenm : length mc = length (mcode path 0 its) + 1) by (unfold mc, tmodule_code; rewrite app_length; reflexivity).
  assert (HlenFT : small (length (mdefs its))).
  { eapply small_le; [|exact Hsm]. fold mc. rewrite Hlenm. pose proof (mdefs_length path its 0). lia. }
  assert (Hprog : forall j d, nth_error (mdefs its) j = Some d -> assoc (fn_name path (0 + j)) P = Some (fcode_of (fst (snd d)) (snd (snd d)))).
  { intros j [f [ps body]] Hj. rewrite EP. exact (assoc_dfbuf path (mdefs its) 0 j f ps body _ HlenFT Hj). }
  set (env0 := {| locals := [[]]; captured := []; cur := None |}).
  set (s0 := {| store := []; rout := [] |}).
  set (a0 := act0 name [] None).
  set (g00 := push_frame g0 (LFun name)).
  assert (Hinv0 : minv P name [] [] env0 s0 a0 g00).
  { constructor.
    - exact (Rst_init_t name).
    - split; [intros x _; cbn; split; [congruence|intros [[]|[]]]|intros x []].
    - intros i e Hi. destruct i; discriminate.
    - intros x cc [].
    - eexists. eexists. split; reflexivity.
    - reflexivity. }
  pose proof (mod_run path P name mc ltac:(exact Hsm) its [] [] env0 s0 a0 g00 fuel 0 Hok Hinv0 eq_refl
                ltac:(exact (code_at_embed [] (mcode path 0 its) [ret_mod])) ltac:(cbn [length Nat.add]; rewrite Hlenm; lia) Hprog) as H.
  cbn [length Nat.add] in H.
  unfold run in *. fold env0 s0 in Hnf |- *.
  assert (Ex : exec_block fuel env0 p s0 = exec_block fuel env0 (map item_stmt its) s0) by (unfold its; now rewrite classify_stmts).
  rewrite Ex in *. clear Ex.
  set (fin := length (mcode path 0 its)) in *.
  destruct (exec_block fuel env0 (map item_stmt its) s0) as [sig env' s'|f s'|]; cbn [mres] in H; [| |cbn in Hnf; congruence].
  - destruct sig as [| | |[v|]]; try contradiction.
    2:{ destruct H as (a' & g' & Hn & Hi & Hops & Hout & Hdrop).
      destruct (xrun_loop _ _ _ _ _ _ _ Hn) as (N & n & Hloop).
      set (f0 := Nat.max N (n + 1)).
      set (gf := with_frames (add_trace g' (name, N.of_nat (a_ip a'), op (mkI OP_RET []), N.of_nat (length (frames g')),
                                            N.of_nat (length [inj v]))) []).
      assert (Hrun : run_fn (S f0) P name [] None g0 = RDone (Some (inj v)) gf).
      { unfold run_fn. rewrite run_fn_gen_S, Ecode.
        change (run_fn_gen (fun _ _ _ => true) f0 P) with (run_fn f0 P).
        change (fun (_ : str) (_ : nat) (_ : bool) => true) with rcT.
        replace f0 with (n + (f0 - n)) at 2 by (unfold f0; lia).
        fold a0 g00. rewrite (Hloop f0 ltac:(unfold f0; lia)).
        destruct (f0 - n) as [|k] eqn:Ek; [unfold f0 in Ek; lia|].
        cbn [loop]. rewrite Hi. unfold Model.exec. change (decode (mkI OP_RET [])) with (DOk DRet). cbn [exec_d].
        rewrite Hops. cbn [add_trace frames]. rewrite Hdrop. reflexivity. }
      right. exists (S f0). unfold execute. fold P name. rewrite Hrun. cbn [fst snd gf with_frames frames out add_trace].
      split; [exact Hout|exact Logic.I]. }
    destruct H as (T' & B' & a' & g' & Hn & Hip & [(HG & Hops & Hss) _ _ _ (sc & fr & El & Ef) _]).
    pose proof (Rg_fr _ _ _ _ _ _ _ _ _ _ _ _ _ HG) as Hfr. rewrite El, Ef in Hfr. cbn [StmtRel.Rfr] in Hfr. destruct Hfr as [_ Hsp].
    destruct g' as [cs' fs' o' tr']. cbn [frames out] in *. subst fs'.
    destruct (xrun_loop _ _ _ _ _ _ _ Hn) as (N & n & Hloop).
    set (f0 := Nat.max N (n + 1)).
    assert (Hrun : exists tr'', run_fn (S f0) P name [] None g0
                   = RDone (Some VModule) {| cells := cs'; frames := []; out := o'; trace := tr'' |}).
    { eexists. unfold run_fn. rewrite run_fn_gen_S, Ecode.
      change (run_fn_gen (fun _ _ _ => true) f0 P) with (run_fn f0 P).
      change (fun (_ : str) (_ : nat) (_ : bool) => true) with rcT.
      replace f0 with (n + (f0 - n)) at 2 by (unfold f0; lia).
      fold a0 g00. rewrite (Hloop f0 ltac:(unfold f0; lia)).
      destruct (f0 - n) as [|k] eqn:Ek; [unfold f0 in Ek; lia|].
      cbn [loop]. rewrite Hip. unfold mc, tmodule_code at 1. rewrite nth_error_app2 by (fold fin; lia).
      fold fin. rewrite Nat.sub_diag.
      cbn [nth_error]. unfold Model.exec. change (decode ret_mod) with (DOk DRetMod). cbn [exec_d].
      rewrite Hops. cbn [add_trace frames with_frames drop_to_function cells out trace]. rewrite Hsp. reflexivity. }
    destruct Hrun as [tr'' Hrun]. right.
    exists (S f0). unfold execute. fold P name. rewrite Hrun. cbn [fst snd frames out].
    split; [exact (Rg_out _ _ _ _ _ _ _ _ _ _ _ _ _ HG)|exact Logic.I].
  - apply fail_post_inv in H. destruct H as [[->| ->]|H]; [left; left; reflexivity|left; right; reflexivity|right].
    destruct H as (e & g' & Hn & Hr & Ho).
    destruct (xfail_loop _ _ _ _ _ _ _ Hn) as (N & n & Hloop).
    assert (Hrun : run_fn (S (Nat.max N n)) P name [] None g0 = RFail e g').
    { unfold run_fn. rewrite run_fn_gen_S, Ecode.
      change (run_fn_gen (fun _ _ _ => true) (Nat.max N n) P) with (run_fn (Nat.max N n) P).
      change (fun (_ : str) (_ : nat) (_ : bool) => true) with rcT.
      replace (Nat.max N n) with (n + (Nat.max N n - n)) at 2 by lia.
      apply (Hloop (Nat.max N n)). lia. }
    exists (S (Nat.max N n)). unfold execute. fold P name. rewrite Hrun.
    cbn [fst snd]. split; [exact Ho|exact Hr].
Qed.
End ModuleTop.
