(* A DECIDABLE membership test for the fragment on which C01 is proved, and the theorem in the form the check uses:

     in_fragment p = true  ->  the model compiler's code for p, run on the VM model, prints what the reference
                               semantics prescribes and ends the same way.

   The check evaluates `in_fragment` (extracted) on every program it generates; for a program inside the fragment
   whose REAL bytecode equals the model compiler's (tie T1) the simulation theorem speaks about the code the real
   compiler emitted. *)
From Coq Require Import List Arith ZArith Lia Bool.
Import ListNotations.
From MS Require Import Base.Str Vm.Model Lang.Syntax Lang.Eval Compile.Compile Compile.ExprBase.
From MS Require Import Compile.StmtMach Compile.StmtRel Compile.StmtFrag Compile.StmtSim Compile.StmtFun.

Fixpoint nodupb (l : list str) : bool :=
  match l with [] => true | x :: t => negb (mem_str x t) && nodupb t end.

Lemma mem_str_iff : forall x l, mem_str x l = true <-> In x l.
Proof. intros x l; split; [apply StmtFrag.mem_str_In | apply In_mem_str]. Qed.

Lemma nodupb_sound : forall l, nodupb l = true -> NoDup l.
Proof.
  induction l as [|x t IH]; intros H; [constructor|]. cbn in H. apply andb_true_iff in H as [Hx Ht].
  constructor; [|now apply IH]. intros Hin. apply mem_str_iff in Hin. rewrite Hin in Hx. discriminate.
Qed.

Definition smallb (n : nat) : bool := (Z.of_nat n <? 10 ^ 50)%Z.
Lemma smallb_sound : forall n, smallb n = true -> small n.
Proof. intros n H. unfold smallb in H. unfold small. now apply Z.ltb_lt. Qed.

Definition fn_okb (pre : ftab) (d : fdef) : bool :=
  let '(f, (ps, body)) := d in
  let caps := free_vars ps body in
  src_nameb f && nodupb ps && forallb src_nameb ps &&
  forallb (fun n => mem_str n (fnames pre)) caps &&
  forallb (fun x => negb (mem_str x (fnames (vis caps pre)))) ps &&
  ok_block (vis caps pre) (Some ps) false (rev ps) body &&
  smallb (1 + 2 * length (fcode_of ps body) + 8).

Lemma fn_okb_sound : forall pre d, fn_okb pre d = true -> fn_ok pre d.
Proof.
  intros pre [f [ps body]] H. unfold fn_okb in H. unfold fn_ok.
  repeat (apply andb_true_iff in H; destruct H as [H ?]).
  repeat split; try assumption.
  - now apply nodupb_sound.
  - intros x Hx Hin.
    match goal with Hf : forallb (fun x => negb _) ps = true |- _ => rewrite forallb_forall in Hf; specialize (Hf x Hx) end.
    apply mem_str_iff in Hin.
    match goal with Hf : negb _ = true |- _ => rewrite Hin in Hf; discriminate end.
  - now apply smallb_sound.
Qed.

Fixpoint fns_okb (pre FT : ftab) : bool :=
  match FT with [] => true | d :: t => fn_okb pre d && fns_okb (pre ++ [d]) t end.

Lemma fns_okb_sound : forall FT pre, fns_okb pre FT = true -> fns_ok pre FT.
Proof.
  induction FT as [|d t IH]; intros pre H; [exact Logic.I|]. cbn in H. apply andb_true_iff in H as [Hd Ht].
  split; [now apply fn_okb_sound | now apply IH].
Qed.

(* the leading function definitions `f = fn(ps) { body }` of a module, and the rest *)
Fixpoint split_defs (p : list stmt) : ftab * list stmt :=
  match p with
  | SAssign f (EFn ps body) :: t => let '(FT, main) := split_defs t in ((f, (ps, body)) :: FT, main)
  | _ => ([], p)
  end.

Lemma split_defs_eq : forall p FT main, split_defs p = (FT, main) -> p = fmodule FT main.
Proof.
  induction p as [|s t IH]; intros FT main H.
  - cbn in H. inversion H; subst. reflexivity.
  - cbn in H. destruct s; try (inversion H; subst; reflexivity).
    destruct e; try (inversion H; subst; reflexivity).
    destruct (split_defs t) as [FT' main'] eqn:E. inversion H; subst. unfold fmodule. cbn [map app def_stmt fst snd].
    f_equal. apply (IH FT' main eq_refl).
Qed.

Definition in_fragment (path : str) (p : source) : bool :=
  let '(FT, main) := split_defs p in
  fns_okb [] FT && nodupb (fnames FT) && ok_block FT None false [] main &&
  smallb (2 * length (fmodule_code path FT main) + 8).

Theorem in_fragment_sound : forall path p, in_fragment path p = true ->
  exists FT main, p = fmodule FT main /\ fns_ok [] FT /\ NoDup (fnames FT) /\
                  ok_block FT None false [] main = true /\ small (2 * length (fmodule_code path FT main) + 8).
Proof.
  intros path p H. unfold in_fragment in H. destruct (split_defs p) as [FT main] eqn:E.
  repeat (apply andb_true_iff in H; destruct H as [H ?]).
  exists FT, main. repeat split.
  - now apply split_defs_eq.
  - now apply fns_okb_sound.
  - now apply nodupb_sound.
  - assumption.
  - now apply smallb_sound.
Qed.

(* C01 on every program the decidable test accepts *)
Theorem fragment_correct : forall path p, in_fragment path p = true ->
  forall fuel, snd (run fuel p) <> ROFuel ->
  no_claim (snd (run fuel p)) \/
  exists fuel', fst (fst (execute fuel' (cprogram path p) (s_module_fn path))) = fst (run fuel p) /\
                vm_outcome_ok (snd (run fuel p)) (snd (fst (execute fuel' (cprogram path p) (s_module_fn path)))).
Proof.
  intros path p H fuel Hf. destruct (in_fragment_sound path p H) as (FT & main & -> & HF & Hnd & Hok & Hsm).
  exact (module_fun_correct path FT main HF Hnd Hok Hsm fuel Hf).
Qed.
