(* A DECIDABLE membership test for the fragment on which C01 is proved, and the theorem in the form the check uses:

     in_fragment p = true  ->  the model compiler's code for p, run on the VM model, prints what the reference
                               semantics prescribes and ends the same way.

   The check evaluates `in_fragment` (extracted) on every program it generates; for a program inside the fragment
   whose REAL bytecode equals the model compiler's (tie T1) the simulation theorem speaks about the code the real
   compiler emitted. *)
From Coq Require Import List Arith ZArith Lia Bool.
Import ListNotations.
From MS Require Import Base.Str Vm.Model Lang.Syntax Lang.Eval Compile.Compile Compile.ExprBase.
From MS Require Import Compile.StmtMach Compile.StmtRel Compile.StmtFrag Compile.StmtSim Compile.StmtFun Compile.StmtMod.
From MS Require Import Compile.ClosFrag Compile.ClosTop.

Fixpoint nodupb (l : list str) : bool :=
  match l with [] => true | x :: t => negb (mem_str x t) && nodupb t end.

Lemma mem_str_iff : forall x l, mem_str x l = true <-> In x l.
Proof. intros x l; split; [apply StmtFrag.mem_str_In | apply In_mem_str]. Qed.

Lemma nodupb_sound : forall l, nodupb l = true -> NoDup l.
Proof.
  induction l as [|x t IH]; intros H; [constructor|]. cbn in H. apply andb_true_iff in H as [Hx Ht].
  constructor; [|now apply IH]. intros Hin. apply mem_str_iff in Hin. rewrite Hin in Hx. discriminate.
Qed.

Definition smallb (n : nat) : bool := (Z.of_nat n <? 10 ^ 50)%Z.
Lemma smallb_sound : forall n, smallb n = true -> small n.
Proof. intros n H. unfold smallb in H. unfold small. now apply Z.ltb_lt. Qed.

(* B = the data variables of the module bound so far: a function may capture them (read by reference) *)
Definition fn_okb (pre : ftab) (B : list str) (d : fdef) : bool :=
  let '(f, (ps, body)) := d in
  let caps := free_vars ps body in
  src_nameb f && nodupb ps && forallb src_nameb ps &&
  forallb (fun n => mem_str n (fnames pre) || mem_str n B) caps &&
  forallb (fun x => negb (mem_str x (fnames (vis caps pre)))) ps &&
  ok_block (vis caps pre) (Some ps) (dcaps pre caps) false (rev ps) body &&
  smallb (1 + 2 * length (fcode_of ps body) + 8).

Lemma fn_okb_sound : forall pre B d, fn_okb pre B d = true -> fn_ok pre B d.
Proof.
  intros pre B [f [ps body]] H. unfold fn_okb in H. unfold fn_ok.
  repeat (apply andb_true_iff in H; destruct H as [H ?]).
  repeat split; try assumption.
  - now apply nodupb_sound.
  - intros x Hx Hin.
    match goal with Hf : forallb (fun x => negb _) ps = true |- _ => rewrite forallb_forall in Hf; specialize (Hf x Hx) end.
    apply mem_str_iff in Hin.
    match goal with Hf : negb _ = true |- _ => rewrite Hin in Hf; discriminate end.
  - now apply smallb_sound.
Qed.

Fixpoint fns_okb (pre FT : ftab) : bool :=
  match FT with [] => true | d :: t => fn_okb pre [] d && fns_okb (pre ++ [d]) t end.

Lemma fns_okb_sound : forall FT pre, fns_okb pre FT = true -> fns_ok pre FT.
Proof.
  induction FT as [|d t IH]; intros pre H; [exact Logic.I|]. cbn in H. apply andb_true_iff in H as [Hd Ht].
  split; [now apply fn_okb_sound | now apply IH].
Qed.

(* the top-level items of a module: function definitions `f = fn(ps) { body }` (anywhere between the statements) and
   statements of the fragment; mod_okb mirrors StmtMod.mod_ok *)
Fixpoint mod_okb (FT : ftab) (B : list str) (its : list mitem) : bool :=
  match its with
  | [] => true
  | MDef d :: t => fn_okb FT B d && negb (mem_str (fst d) (fnames FT)) && negb (mem_str (fst d) B) && mod_okb (FT ++ [d]) B t
  | MStmt st :: t => ok_stmt FT None [] false B st && mod_okb FT (after B st) t
  end.

Lemma mod_okb_sound : forall its FT B, mod_okb FT B its = true -> mod_ok FT B its.
Proof.
  induction its as [|[d|st] t IH]; intros FT B H; [exact Logic.I| |]; cbn [mod_okb mod_ok] in *.
  - repeat (apply andb_true_iff in H; destruct H as [H ?]).
    split; [now apply fn_okb_sound|]. split; [|split; [|now apply IH]].
    + intros Hin. apply mem_str_iff in Hin. match goal with Hf : negb (mem_str (fst d) (fnames FT)) = true |- _ => rewrite Hin in Hf; discriminate end.
    + intros Hin. apply mem_str_iff in Hin. match goal with Hf : negb (mem_str (fst d) B) = true |- _ => rewrite Hin in Hf; discriminate end.
  - apply andb_true_iff in H as [H1 H2]. split; [exact H1|now apply IH].
Qed.

(* two proved fragments: (1) statements of every kind, functions defined at the top level that capture functions and read
   data variables (Compile/StmtMod.v); (2) first-class function values: literals anywhere, closures by reference with
   `modify`, functions returned / stored / passed and called through variables (Compile/ClosTop.v) *)
Definition in_fragment1 (path : str) (p : source) : bool :=
  let its := classify p in
  mod_okb [] [] its && smallb (2 * length (tmodule_code path its) + 8).
Definition in_fragment (path : str) (p : source) : bool := in_fragment1 path p || in_fragment2 path p.

Theorem in_fragment_sound : forall path p, in_fragment1 path p = true ->
  mod_ok [] [] (classify p) /\ small (2 * length (tmodule_code path (classify p)) + 8).
Proof.
  intros path p H. unfold in_fragment1 in H. apply andb_true_iff in H as [H1 H2].
  split; [now apply mod_okb_sound|now apply smallb_sound].
Qed.

(* C01 on every program the decidable test accepts *)
Theorem fragment_correct : forall path p, in_fragment path p = true ->
  forall fuel, snd (run fuel p) <> ROFuel ->
  no_claim (snd (run fuel p)) \/
  exists fuel', fst (fst (execute fuel' (cprogram path p) (s_module_fn path))) = fst (run fuel p) /\
                vm_outcome_ok (snd (run fuel p)) (snd (fst (execute fuel' (cprogram path p) (s_module_fn path)))).
Proof.
  intros path p H fuel Hf. unfold in_fragment in H. apply orb_true_iff in H as [H|H].
  - destruct (in_fragment_sound path p H) as (Hok & Hsm). exact (module_top_correct path p Hok Hsm fuel Hf).
  - exact (closure_module_correct path p H fuel Hf).
Qed.
