(* C01, statement level -- part 3: the call-free, function-literal-free statement fragment.
     ok_stmt il B s   s is in the fragment, well scoped w.r.t. the set B of names certainly bound
                      (il = inside a loop: break / continue allowed)
     sitems c sl s    the code generator restricted to the fragment, as a plain function (no compiler state)
     cstmt_frag       cstmt = sitems on the fragment, compiler state untouched *)
From MS Require Import Lang.Eval.
From MS Require Import Vm.Model Lang.Syntax Compile.Compile Compile.ExprBase Compile.ExprSim Compile.StmtRel.
From Coq Require Import Lia.
Open Scope nat_scope.

(* ================================================================ the fragment *)
Definition after (B : list str) (s : stmt) : list str := match s with SAssign x _ => x :: B | _ => B end.
Definition src_nameb (x : str) : bool :=
  match x with 35%N :: _ => false | 76%N :: 35%N :: _ => false | [0%N] => false | _ => true end.
Definition ok_expr (B : list str) (e : expr) : bool :=
  pure e && lits_ok e && forallb (fun x => src_nameb x && mem_str x B) (used_e e).
Definition arith5 (o : binop) : bool := match o with BAdd | BSub | BMul | BDiv | BMod => true | _ => false end.
Definition step_ok (B : list str) (st : option expr) : bool :=
  match st with None => true | Some e => ok_expr B e end.

(* the table of the module-level functions visible in the current activation: name -> (parameters, body) *)
Definition ftab := list (str * (list str * list stmt)).
Definition fnames (FT : ftab) : list str := map fst FT.

Section OkStmt.
Variable FT : ftab.
Variable SP : option (list str).   (* the parameters of the executing function (None at module level): `self(args)` *)
Variable CD : list str.            (* the DATA variables the executing function captures (read by reference) *)
(* expressions with calls: call-free expressions, the operators + - * / % comparisons && || ! unary-minus over
   such expressions, and calls of a known function / of the executing function with the right number of
   arguments, which are again such expressions (calls nested at any depth) *)
Definition is_call (e : expr) : bool := match e with ECall _ _ | ESelf _ => true | _ => false end.
Fixpoint ok_cexpr (B : list str) (e : expr) {struct e} : bool :=
  let fix oks (l : list expr) : bool := match l with [] => true | a :: l => ok_cexpr B a && oks l end in
  ok_expr B e ||
  match e with
  | EBin _ a b => ok_cexpr B a && ok_cexpr B b
  | EAnd a b | EOr a b => negb (is_call a) && negb (is_call b) && ok_cexpr B a && ok_cexpr B b
  | ENot a | ENeg a => negb (is_call a) && ok_cexpr B a
  | ECall (EVar f) args =>
    match assoc f FT with
    | Some (ps, _) => Nat.eqb (length args) (length ps) && oks args
    | None => false end
  | ESelf args =>
    match SP with
    | Some ps => Nat.eqb (length args) (length ps) && oks args
    | None => false end
  | _ => false
  end.
Fixpoint ok_cexprs (B : list str) (l : list expr) : bool :=
  match l with [] => true | a :: l => ok_cexpr B a && ok_cexprs B l end.
Definition ok_rhs (B : list str) (e : expr) : bool := ok_cexpr B e.
Lemma ok_cexpr_eq : forall B e, ok_cexpr B e =
  ok_expr B e ||
  match e with
  | EBin _ a b => ok_cexpr B a && ok_cexpr B b
  | EAnd a b | EOr a b => negb (is_call a) && negb (is_call b) && ok_cexpr B a && ok_cexpr B b
  | ENot a | ENeg a => negb (is_call a) && ok_cexpr B a
  | ECall (EVar f) args =>
    match assoc f FT with
    | Some (ps, _) => Nat.eqb (length args) (length ps) && ok_cexprs B args
    | None => false end
  | ESelf args =>
    match SP with
    | Some ps => Nat.eqb (length args) (length ps) && ok_cexprs B args
    | None => false end
  | _ => false
  end.
Proof.
  intros B e.
  assert (Hl : forall l, (fix oks (l : list expr) : bool := match l with [] => true | a :: l => ok_cexpr B a && oks l end) l = ok_cexprs B l).
  { induction l as [|a l IH]; [reflexivity|]. cbn [ok_cexprs]. now rewrite <- IH. }
  destruct e; try reflexivity.
  - destruct e; try reflexivity. cbn [ok_cexpr]. destruct (assoc x FT) as [[ps0 b0]|]; [|reflexivity]. now rewrite Hl.
  - cbn [ok_cexpr]. destruct SP; [|reflexivity]. now rewrite Hl.
Qed.
Lemma ok_expr_rhs : forall B e, ok_expr B e = true -> ok_rhs B e = true.
Proof. intros B e H. unfold ok_rhs. rewrite ok_cexpr_eq, H. reflexivity. Qed.
(* the upper bound of a from loop: the VM evaluates it AFTER it has bound the counter; with a named counter it is
   call-free, with a hidden counter (a register) it may contain calls *)
Definition ok_fromb (nm : option str) (B : list str) (b : expr) : bool :=
  match nm with None => ok_rhs B b | Some _ => ok_expr B b end.
Lemma ok_fromb_rhs : forall nm B b, ok_fromb nm B b = true -> ok_rhs B b = true.
Proof. intros [x|] B b H; [now apply ok_expr_rhs|exact H]. Qed.
Fixpoint ok_stmt (il : bool) (B : list str) (s : stmt) {struct s} : bool :=
  let fix okb (il : bool) (B : list str) (l : list stmt) {struct l} : bool :=
    match l with [] => true | s :: l => ok_stmt il B s && okb il (after B s) l end in
  match s with
  | SAssign x e =>     (* a new local may not shadow a captured data variable *)
    src_nameb x && negb (mem_str x (fnames FT)) && (mem_str x B || negb (mem_str x CD)) && ok_rhs (B ++ CD) e
  | SOpAssign x o e => arith5 o && src_nameb x && mem_str x B && ok_rhs (B ++ CD) e
  | SPrint e => ok_rhs (B ++ CD) e
  | SExpr e => ok_rhs (B ++ CD) e
  | SAssert e _ => ok_rhs (B ++ CD) e
  | SIf c b => ok_rhs (B ++ CD) c && okb il B b
  | SIfElse c b e => ok_rhs (B ++ CD) c && okb il B b && okb il B e
  | SIfElif c b n => ok_rhs (B ++ CD) c && okb il B b && ok_stmt il B n
  | SWhile c b => ok_rhs (B ++ CD) c && okb true B b
  | SFrom _ _ _ _ _ _ _ =>
    (* from loops are proved in the second fragment only (Compile/ClosFrag.v .. ClosTop.v), for the loop head that evaluates
       both bounds before the counter receives its first value *)
    false
  | SBreak => il
  | SContinue => il
  | SReturn (Some e) => ok_rhs (B ++ CD) e
  | _ => false
  end.

Fixpoint ok_block (il : bool) (B : list str) (l : list stmt) {struct l} : bool :=
  match l with [] => true | s :: l => ok_stmt il B s && ok_block il (after B s) l end.

Lemma ok_SIf : forall il B c b, ok_stmt il B (SIf c b) = ok_rhs (B ++ CD) c && ok_block il B b.
Proof. reflexivity. Qed.
Lemma ok_SIfElse : forall il B c b e, ok_stmt il B (SIfElse c b e) = ok_rhs (B ++ CD) c && ok_block il B b && ok_block il B e.
Proof. reflexivity. Qed.
Lemma ok_SIfElif : forall il B c b n, ok_stmt il B (SIfElif c b n) = ok_rhs (B ++ CD) c && ok_block il B b && ok_stmt il B n.
Proof. reflexivity. Qed.
Lemma ok_SWhile : forall il B c b, ok_stmt il B (SWhile c b) = ok_rhs (B ++ CD) c && ok_block true B b.
Proof. reflexivity. Qed.
Lemma ok_SFrom : forall il B a b incl st nm collide body, ok_stmt il B (SFrom a b incl st nm collide body) = false.
Proof. reflexivity. Qed.

End OkStmt.

Lemma src_nameb_ok0 : forall x, src_nameb x = true -> src_name x /\ match x with 76%N :: 35%N :: _ => False | _ => True end.
Proof.
  intros [|c x] H; [split; exact Logic.I|].
  destruct (N.eq_dec c 35) as [->|H35]; [discriminate|].
  destruct (N.eq_dec c 76) as [->|H76].
  - destruct x as [|c2 x]; [split; exact Logic.I|].
    destruct (N.eq_dec c2 35) as [->|H2]; [discriminate|].
    split; [exact Logic.I|]. destruct c2 as [|p]; [exact Logic.I|].
    do 6 (destruct p as [p|p|]; try exact Logic.I). congruence.
  - split.
    + destruct c as [|p]; [exact Logic.I|]. do 6 (destruct p as [p|p|]; try exact Logic.I). congruence.
    + destruct c as [|p]; [exact Logic.I|]. do 7 (destruct p as [p|p|]; try exact Logic.I). congruence.
Qed.
Lemma src_nameb_ok : forall x, src_nameb x = true -> uname0 x.
Proof.
  intros x H. destruct (src_nameb_ok0 x H) as [H1 H2]. split; [exact H1|]. split; [exact H2|].
  intros ->. discriminate H.
Qed.

Lemma mem_str_In : forall x l, mem_str x l = true -> In x l.
Proof.
  induction l as [|y l IH]; cbn [mem_str]; intros H; [discriminate|].
  apply Bool.orb_true_iff in H as [H|H]; [left; symmetry; now apply str_eqb_iff|right; auto].
Qed.

Lemma ok_expr_parts : forall B e, ok_expr B e = true ->
  pure e = true /\ lits_ok e = true /\ forall x, In x (used_e e) -> uname0 x /\ In x B.
Proof.
  intros B e H. unfold ok_expr in H. apply Bool.andb_true_iff in H as [H H3]. apply Bool.andb_true_iff in H as [H1 H2].
  split; [exact H1|]. split; [exact H2|]. intros x Hx. rewrite forallb_forall in H3. specialize (H3 x Hx).
  apply Bool.andb_true_iff in H3 as [A C]. split; [now apply src_nameb_ok|now apply mem_str_In].
Qed.

(* ================================================================ the code of expressions with calls (= pcode on call-free
   expressions): operands are parked in registers, the callee value in #(d+1), the arguments in #(d+2), ... *)
Fixpoint argloads (k : nat) (l : list expr) : list instr :=
  match l with [] => [] | _ :: l => mkI OP_LOAD_FAST [reg k] :: argloads (S k) l end.
Fixpoint ccode (d : nat) (e : expr) {struct e} : list instr :=
  let fix cargc (k : nat) (l : list expr) {struct l} : list instr :=
    match l with [] => [] | a :: l => ccode k a ++ [mkI OP_STORE_FAST [reg k]] ++ cargc (S k) l end in
  match e with
  | EBin o a b => ccode (S d) a ++ [mkI OP_STORE_FAST [reg d]] ++ ccode (S d) b
                    ++ [mkI OP_LOAD_FAST [reg d]; mkI OP_FAST_REV2 []] ++ [op_instr o]
  | EAnd a b => ccode (S d) a ++ [mkI OP_STORE_SKIP [reg d; s_zero; sN (length (ccode (S d) b) + 3)]]
                  ++ ccode (S d) b ++ [mkI OP_LOAD_FAST [reg d]; mkI OP_BIN_OP [op_and]]
  | EOr a b => ccode (S d) a ++ [mkI OP_STORE_SKIP [reg d; s_one; sN (length (ccode (S d) b) + 3)]]
                 ++ ccode (S d) b ++ [mkI OP_LOAD_FAST [reg d]; mkI OP_BIN_OP [op_or]]
  | ENot a => ccode (S d) a ++ [mkI OP_NOT []]
  | ENeg a => ccode (S d) a ++ [mkI OP_NEG []]
  | ECall (EVar f) args =>
    [mkI OP_LOAD [f]; mkI OP_STORE_FAST [reg (S d)]] ++ cargc (S (S d)) args ++ argloads (S (S d)) args
      ++ [mkI OP_LOAD_FAST [reg (S d)]; mkI OP_CALL []]
  | ESelf args => cargc (S d) args ++ argloads (S d) args ++ [mkI OP_CALL_SELF []]
  | _ => pcode d e
  end.
Fixpoint argcode (k : nat) (l : list expr) : list instr :=
  match l with [] => [] | a :: l => ccode k a ++ [mkI OP_STORE_FAST [reg k]] ++ argcode (S k) l end.
Definition xcode (c : nat) (e : expr) : list instr := ccode c e.

Lemma ccode_ECall : forall d f args, ccode d (ECall (EVar f) args) =
  [mkI OP_LOAD [f]; mkI OP_STORE_FAST [reg (S d)]] ++ argcode (S (S d)) args ++ argloads (S (S d)) args
    ++ [mkI OP_LOAD_FAST [reg (S d)]; mkI OP_CALL []].
Proof.
  reflexivity.
Qed.
Lemma ccode_ESelf : forall d args, ccode d (ESelf args) = argcode (S d) args ++ argloads (S d) args ++ [mkI OP_CALL_SELF []].
Proof.
  reflexivity.
Qed.
Lemma ccode_pure : forall e d, pure e = true -> ccode d e = pcode d e.
Proof.
  induction e; intros d H; try reflexivity; try discriminate; cbn [pure] in H; cbn [ccode pcode].
  all: try (apply Bool.andb_true_iff in H as [H1 H2]).
  all: rewrite ?IHe1, ?IHe2, ?IHe by assumption; reflexivity.
Qed.
Lemma xcode_pure : forall c e, pure e = true -> xcode c e = pcode c e.
Proof. intros c e H. now apply ccode_pure. Qed.

(* ================================================================ the direct code generator *)
Definition step_code (c : nat) (st : option expr) : list citem :=
  match st with Some e => map CI (pcode c e) | None => [I OP_MAKE_INT [s_one]] end.

(* the VM name of a from-loop counter (a hidden register for an anonymous loop) and the register level after it *)
Definition from_idn (lr : nat) (nm : option str) : str := match nm with Some x => x | None => lregn (S lr) end.
Definition from_lr1 (lr : nat) (nm : option str) : nat := match nm with Some _ => lr | None => S lr end.

Fixpoint sitems (c : nat) (lr : nat) (sl : option nat) (s : stmt) {struct s} : list citem :=
  let fix bl (lr : nat) (sl : option nat) (l : list stmt) {struct l} : list citem :=
    match l with [] => [] | s :: l => sitems c lr sl s ++ bl lr sl l end in
  let inner := option_map S sl in
  match s with
  | SAssign x e => map CI (xcode c e) ++ [I OP_STORE [x]]
  | SOpAssign x o e => map CI (xcode (S c) e) ++ [I OP_BIN_OP_ASSIGN [binop_sym o ++ [61%N]; x]; I OP_VOID []]
  | SPrint e => map CI (xcode c e) ++ [I OP_PRINTN [s_star]; I OP_VOID []]
  | SAssert e sp => map CI (xcode c e) ++ [I OP_ASSERT [sp]]
  | SExpr e => map CI (xcode c e) ++ [I OP_VOID []]
  | SIf cnd body =>
    let cb := bl lr inner body ++ [I OP_DONE []] in
    map CI (xcode c cnd) ++ [I OP_IF_STMT [sN (length cb + 1)]] ++ cb
  | SIfElse cnd body els =>
    let cb := bl lr inner body ++ [I OP_DONE []] in
    let ce := I OP_ELSE_STMT [] :: bl lr inner els ++ [I OP_DONE []] in
    map CI (xcode c cnd) ++ [I OP_IF_STMT [sN (length cb + 2)]] ++ cb ++ [I OP_JMP [sN (length ce + 1)]] ++ ce
  | SIfElif cnd body nxt =>
    let cb := bl lr inner body ++ [I OP_DONE []] in
    let ce := I OP_ELSE_STMT [] :: sitems c lr inner nxt ++ [I OP_DONE []] in
    map CI (xcode c cnd) ++ [I OP_IF_STMT [sN (length cb + 2)]] ++ cb ++ [I OP_JMP [sN (length ce + 1)]] ++ ce
  | SWhile cnd body =>
    let cc := map CI (xcode c cnd) in
    let cb0 := bl lr (Some 1) body in
    let cb := cb0 ++ [I OP_JMP_POP [neg_off (1 + length cb0 + length cc)]] in
    cc ++ [I OP_WHILE_LOOP [sN (length cb + 1)]] ++ resolve (length cb) 0 0 cb
  | SFrom a b incl step nm collide body =>
    let x := from_idn lr nm in
    let lr1 := from_lr1 lr nm in
    let endr := lregn (S lr1) in
    let cond := [I OP_LOAD_FAST [x]; I OP_LOAD_FAST [endr]; I OP_BIN_OP [if incl then op_le else op_lt]] in
    let cbody := bl (S lr1) (Some 1) body in
    let cstep := step_code c step ++ [I OP_BIN_OP_ASSIGN [[43; 61]%N; x]] in
    let full0 := cbody ++ cstep in
    let full := full0 ++ [I OP_JMP_POP [neg_off (1 + length cond + length full0)]] in
    map CI (xcode c a) ++ [I (if collide then OP_STORE else OP_STORE_FAST) [x]] ++ map CI (xcode c b) ++ [I OP_STORE_FAST [endr]] ++ cond
      ++ [I OP_WHILE_LOOP [sN (length full + 1)]] ++ resolve (length full) (length cstep) 0 full
      ++ (if collide then [] else [I OP_DELETE_NAME_SCOPED [x; endr]])
  | SBreak => [CBrk (match sl with Some n => n | None => 0 end)]
  | SContinue => [CCont (match sl with Some n => n | None => 0 end)]
  | SReturn (Some e) => map CI (xcode c e) ++ [I OP_RET []]
  | _ => []
  end.

Section BItems.
Variable c : nat.
Fixpoint bitems (lr : nat) (sl : option nat) (l : list stmt) {struct l} : list citem :=
  match l with [] => [] | s :: l => sitems c lr sl s ++ bitems lr sl l end.
End BItems.

Lemma sitems_SIf : forall c lr sl cnd body, sitems c lr sl (SIf cnd body) =
  let cb := bitems c lr (option_map S sl) body ++ [I OP_DONE []] in
  map CI (xcode c cnd) ++ [I OP_IF_STMT [sN (length cb + 1)]] ++ cb.
Proof. reflexivity. Qed.
Lemma sitems_SIfElse : forall c lr sl cnd body els, sitems c lr sl (SIfElse cnd body els) =
  let cb := bitems c lr (option_map S sl) body ++ [I OP_DONE []] in
  let ce := I OP_ELSE_STMT [] :: bitems c lr (option_map S sl) els ++ [I OP_DONE []] in
  map CI (xcode c cnd) ++ [I OP_IF_STMT [sN (length cb + 2)]] ++ cb ++ [I OP_JMP [sN (length ce + 1)]] ++ ce.
Proof. reflexivity. Qed.
Lemma sitems_SIfElif : forall c lr sl cnd body nxt, sitems c lr sl (SIfElif cnd body nxt) =
  let cb := bitems c lr (option_map S sl) body ++ [I OP_DONE []] in
  let ce := I OP_ELSE_STMT [] :: sitems c lr (option_map S sl) nxt ++ [I OP_DONE []] in
  map CI (xcode c cnd) ++ [I OP_IF_STMT [sN (length cb + 2)]] ++ cb ++ [I OP_JMP [sN (length ce + 1)]] ++ ce.
Proof. reflexivity. Qed.
Lemma sitems_SWhile : forall c lr sl cnd body, sitems c lr sl (SWhile cnd body) =
  let cc := map CI (xcode c cnd) in
  let cb0 := bitems c lr (Some 1) body in
  let cb := cb0 ++ [I OP_JMP_POP [neg_off (1 + length cb0 + length cc)]] in
  cc ++ [I OP_WHILE_LOOP [sN (length cb + 1)]] ++ resolve (length cb) 0 0 cb.
Proof. reflexivity. Qed.

Lemma sitems_SFrom : forall c lr sl a b incl step nm collide body, sitems c lr sl (SFrom a b incl step nm collide body) =
  let x := from_idn lr nm in
  let lr1 := from_lr1 lr nm in
  let endr := lregn (S lr1) in
  let cond := [I OP_LOAD_FAST [x]; I OP_LOAD_FAST [endr]; I OP_BIN_OP [if incl then op_le else op_lt]] in
  let cbody := bitems c (S lr1) (Some 1) body in
  let cstep := step_code c step ++ [I OP_BIN_OP_ASSIGN [[43; 61]%N; x]] in
  let full0 := cbody ++ cstep in
  let full := full0 ++ [I OP_JMP_POP [neg_off (1 + length cond + length full0)]] in
  map CI (xcode c a) ++ [I (if collide then OP_STORE else OP_STORE_FAST) [x]] ++ map CI (xcode c b) ++ [I OP_STORE_FAST [endr]] ++ cond
    ++ [I OP_WHILE_LOOP [sN (length full + 1)]] ++ resolve (length full) (length cstep) 0 full
    ++ (if collide then [] else [I OP_DELETE_NAME_SCOPED [x; endr]]).
Proof. reflexivity. Qed.

(* ================================================================ cstmt = sitems on the fragment *)
Section WithPath.
Variable path : str.

Section CBlockT.
Variable c : nat.
Fixpoint cblockT (sl : option nat) (l : list stmt) (st : cst) {struct l} : list citem * cst :=
  match l with
  | [] => ([], st)
  | s :: l => let '(cs, st) := cstmt path c sl s st in
              let '(cl, st) := cblockT sl l st in (cs ++ cl, st)
  end.
End CBlockT.

Lemma cstmt_SIf : forall c sl cnd body st, cstmt path c sl (SIf cnd body) st =
  let '(cc, st) := cexpr path c cnd st in
  let '(cb, st) := cblockT c (option_map S sl) body st in
  let cb := cb ++ [I OP_DONE []] in
  (cc ++ [I OP_IF_STMT [sN (length cb + 1)]] ++ cb, st).
Proof. reflexivity. Qed.
Lemma cstmt_SIfElse : forall c sl cnd body els st, cstmt path c sl (SIfElse cnd body els) st =
  let '(cc, st) := cexpr path c cnd st in
  let '(cb, st) := cblockT c (option_map S sl) body st in
  let cb := cb ++ [I OP_DONE []] in
  let '(ce, st) := cblockT c (option_map S sl) els st in
  let ce := I OP_ELSE_STMT [] :: ce ++ [I OP_DONE []] in
  (cc ++ [I OP_IF_STMT [sN (length cb + 2)]] ++ cb ++ [I OP_JMP [sN (length ce + 1)]] ++ ce, st).
Proof. reflexivity. Qed.
Lemma cstmt_SIfElif : forall c sl cnd body nxt st, cstmt path c sl (SIfElif cnd body nxt) st =
  let '(cc, st) := cexpr path c cnd st in
  let '(cb, st) := cblockT c (option_map S sl) body st in
  let cb := cb ++ [I OP_DONE []] in
  let '(ce, st) := cstmt path c (option_map S sl) nxt st in
  let ce := I OP_ELSE_STMT [] :: ce ++ [I OP_DONE []] in
  (cc ++ [I OP_IF_STMT [sN (length cb + 2)]] ++ cb ++ [I OP_JMP [sN (length ce + 1)]] ++ ce, st).
Proof. reflexivity. Qed.
Lemma cstmt_SWhile : forall c sl cnd body st, cstmt path c sl (SWhile cnd body) st =
  let '(cc, st) := cexpr path c cnd st in
  let '(cb, st) := cblockT c (Some 1) body st in
  let cb := cb ++ [I OP_JMP_POP [neg_off (1 + length cb + length cc)]] in
  (cc ++ [I OP_WHILE_LOOP [sN (length cb + 1)]] ++ resolve (length cb) 0 0 cb, st).
Proof. reflexivity. Qed.

Lemma cstmt_SFrom : forall c sl a b incl step nm collide body st,
  cstmt path c sl (SFrom a b incl step nm collide body) st =
  let '(idn, st) := match nm with
                    | Some x => (x, st)
                    | None => (lregn (S (lreg st)), {| fid := fid st; lreg := S (lreg st); fbuf := fbuf st |})
                    end in
  let '(ca, st) := cexpr path c a st in
  let '(cb_, st) := cexpr path c b st in
  let startr := lregn (S (lreg st)) in
  let endr := lregn (S (S (lreg st))) in
  let st := {| fid := fid st; lreg := S (S (lreg st)); fbuf := fbuf st |} in
  let cond := [I OP_LOAD_FAST [idn]; I OP_LOAD_FAST [endr]; I OP_BIN_OP [if incl then op_le else op_lt]] in
  let '(cbody, st) := cblockT c (Some 1) body st in
  let '(cstep, st) := match step with
                      | Some e => cexpr path c e st
                      | None => ([I OP_MAKE_INT [s_one]], st) end in
  let cstep := cstep ++ [I OP_BIN_OP_ASSIGN [[43; 61]%N; idn]] in
  let full := cbody ++ cstep in
  let full := full ++ [I OP_JMP_POP [neg_off (1 + length cond + length full)]] in
  let st := {| fid := fid st; lreg := lreg st - (match nm with Some _ => 2 | None => 3 end); fbuf := fbuf st |} in
  (ca ++ [I OP_STORE_FAST [startr]] ++ cb_ ++ [I OP_STORE_FAST [endr]; I OP_LOAD_FAST [startr];
                                                I (if collide then OP_STORE else OP_STORE_FAST) [idn]] ++ cond
      ++ [I OP_WHILE_LOOP [sN (length full + 1)]] ++ resolve (length full) (length cstep) 0 full
      ++ (if collide then [] else [I OP_DELETE_NAME_SCOPED [idn; startr; endr]]), st).
Proof. reflexivity. Qed.

Definition frag_eq (c : nat) (s : stmt) : Prop :=
  forall FT SP CD il B sl st, ok_stmt FT SP CD il B s = true -> cstmt path c sl s st = (sitems c (lreg st) sl s, st).

Lemma cblockT_frag : forall c l, Forall (frag_eq c) l ->
  forall FT SP CD il B sl st, ok_block FT SP CD il B l = true -> cblockT c sl l st = (bitems c (lreg st) sl l, st).
Proof.
  intros c. induction l as [|s l IH]; intros HF FT SP CD il B sl st Hok; [reflexivity|].
  inversion HF as [|? ? Hs Hl]; subst. cbn [ok_block] in Hok. apply Bool.andb_true_iff in Hok as [H1 H2].
  cbn [cblockT bitems]. rewrite (Hs FT SP CD il B sl st H1). rewrite (IH Hl FT SP CD il (after B s) sl st H2). reflexivity.
Qed.

Ltac okx H := repeat (rewrite Bool.andb_true_iff in H; let H' := fresh H in destruct H as [H H']).

Lemma cexpr_ok : forall B e d st, ok_expr B e = true -> cexpr path d e st = (map CI (pcode d e), st).
Proof. intros B e d st H. apply ok_expr_parts in H as (Hp & _ & _). now apply cexpr_pure. Qed.
Lemma I_op_instr : forall o, match o with BEq => I OP_EQU [] | BNeq => I OP_NEQ [] | _ => I OP_BIN_OP [binop_sym o] end = CI (op_instr o).
Proof. intros o. destruct o; reflexivity. Qed.

Lemma cexpr_c : forall FT SP e B d st, ok_cexpr FT SP B e = true -> cexpr path d e st = (map CI (ccode d e), st).
Proof.
  intros FT SP.
  apply (expr_ind' (fun e => forall B d st, ok_cexpr FT SP B e = true -> cexpr path d e st = (map CI (ccode d e), st)) (fun _ => True));
    try (intros; exact Logic.I).
  all: try (intros until st; intros H; rewrite ok_cexpr_eq in H; apply Bool.orb_true_iff in H as [H|H]; [|discriminate];
            rewrite ccode_pure by (apply ok_expr_parts in H as (Hp & _ & _); exact Hp); now apply (cexpr_ok B)).
  - intros o a b IHa IHb B d st H. rewrite ok_cexpr_eq in H. apply Bool.orb_true_iff in H as [H|H].
    + rewrite ccode_pure by (apply ok_expr_parts in H as (Hp & _ & _); exact Hp). now apply (cexpr_ok B).
    + apply Bool.andb_true_iff in H as [Ha Hb]. rewrite cexpr_EBin, (IHa B _ _ Ha), (IHb B _ _ Hb). cbn [ccode].
      rewrite I_op_instr, !map_app. reflexivity.
  - intros a b IHa IHb B d st H. rewrite ok_cexpr_eq in H. apply Bool.orb_true_iff in H as [H|H].
    + rewrite ccode_pure by (apply ok_expr_parts in H as (Hp & _ & _); exact Hp). now apply (cexpr_ok B).
    + rewrite !Bool.andb_true_iff in H. destruct H as [[_ Ha] Hb]. rewrite cexpr_EAnd, (IHa B _ _ Ha), (IHb B _ _ Hb). cbn [ccode].
      rewrite !map_app, map_length. reflexivity.
  - intros a b IHa IHb B d st H. rewrite ok_cexpr_eq in H. apply Bool.orb_true_iff in H as [H|H].
    + rewrite ccode_pure by (apply ok_expr_parts in H as (Hp & _ & _); exact Hp). now apply (cexpr_ok B).
    + rewrite !Bool.andb_true_iff in H. destruct H as [[_ Ha] Hb]. rewrite cexpr_EOr, (IHa B _ _ Ha), (IHb B _ _ Hb). cbn [ccode].
      rewrite !map_app, map_length. reflexivity.
  - intros a IHa B d st H. rewrite ok_cexpr_eq in H. apply Bool.orb_true_iff in H as [H|H].
    + rewrite ccode_pure by (apply ok_expr_parts in H as (Hp & _ & _); exact Hp). now apply (cexpr_ok B).
    + apply Bool.andb_true_iff in H as [_ H]. rewrite cexpr_ENot, (IHa B _ _ H). cbn [ccode]. rewrite !map_app. reflexivity.
  - intros a IHa B d st H. rewrite ok_cexpr_eq in H. apply Bool.orb_true_iff in H as [H|H].
    + rewrite ccode_pure by (apply ok_expr_parts in H as (Hp & _ & _); exact Hp). now apply (cexpr_ok B).
    + apply Bool.andb_true_iff in H as [_ H]. rewrite cexpr_ENeg, (IHa B _ _ H). cbn [ccode]. rewrite !map_app. reflexivity.
  - intros f l _ IHl B d st H. rewrite ok_cexpr_eq in H. apply Bool.orb_true_iff in H as [H|H].
    { apply ok_expr_parts in H as (Hp & _ & _). discriminate. }
    destruct f; try discriminate. destruct (assoc x FT) as [[ps body]|]; [|discriminate]. apply Bool.andb_true_iff in H as [_ H].
    assert (Hargs : forall k st0, cargs path k l st0 = (map CI (argcode k l), map CI (argloads k l), st0)).
    { clear -IHl H. induction l as [|a l IH]; intros k st0; [reflexivity|].
      cbn [ok_cexprs] in H. apply Bool.andb_true_iff in H as [H1 H2]. cbn [cargs argcode argloads].
      rewrite (Forall_inv IHl B _ _ H1). rewrite (IH (Forall_inv_tail IHl) H2). rewrite !map_app. reflexivity. }
    rewrite cexpr_ECall. cbn [cexpr]. rewrite Hargs. rewrite ccode_ECall. rewrite !map_app. reflexivity.
  - intros l IHl B d st H. rewrite ok_cexpr_eq in H. apply Bool.orb_true_iff in H as [H|H].
    { apply ok_expr_parts in H as (Hp & _ & _). discriminate. }
    destruct SP as [ps|]; [|discriminate]. apply Bool.andb_true_iff in H as [_ H].
    assert (Hargs : forall k st0, cargs path k l st0 = (map CI (argcode k l), map CI (argloads k l), st0)).
    { clear -IHl H. induction l as [|a l IH]; intros k st0; [reflexivity|].
      cbn [ok_cexprs] in H. apply Bool.andb_true_iff in H as [H1 H2]. cbn [cargs argcode argloads].
      rewrite (Forall_inv IHl B _ _ H1). rewrite (IH (Forall_inv_tail IHl) H2). rewrite !map_app. reflexivity. }
    rewrite cexpr_ESelf. rewrite Hargs. rewrite ccode_ESelf. rewrite !map_app. reflexivity.
  - intros ps body _ B d st H. rewrite ok_cexpr_eq in H. apply Bool.orb_true_iff in H as [H|H]; [|discriminate].
    apply ok_expr_parts in H as (Hp & _ & _). discriminate.
  - intros a b _ _ B d st H. rewrite ok_cexpr_eq in H. apply Bool.orb_true_iff in H as [H|H]; [|discriminate].
    rewrite ccode_pure by (apply ok_expr_parts in H as (Hp & _ & _); exact Hp). now apply (cexpr_ok B).
  - intros a sp _ B d st H. rewrite ok_cexpr_eq in H. apply Bool.orb_true_iff in H as [H|H]; [|discriminate].
    rewrite ccode_pure by (apply ok_expr_parts in H as (Hp & _ & _); exact Hp). now apply (cexpr_ok B).
Qed.
Lemma cexpr_rhs : forall FT SP B e d st, ok_rhs FT SP B e = true -> cexpr path d e st = (map CI (xcode d e), st).
Proof. intros FT SP B e d st H. exact (cexpr_c FT SP e B d st H). Qed.
Lemma cexpr_okx : forall B e d st, ok_expr B e = true -> cexpr path d e st = (map CI (xcode d e), st).
Proof. intros B e d st H. rewrite xcode_pure; [now apply (cexpr_ok B)|]. now apply ok_expr_parts in H as (Hp & _ & _). Qed.

Theorem cstmt_frag : forall c s, frag_eq c s.
Proof.
  intros c. apply (stmt_ind' (fun _ => True) (frag_eq c)); try (intros; exact Logic.I); unfold frag_eq.
  - intros x e _ FT SP CD il B sl st H. cbn [ok_stmt] in H. okx H. cbn [cstmt sitems]. now rewrite (cexpr_rhs FT SP (B ++ CD)).
  - intros x e _ FT SP CD il B sl st H. discriminate.
  - intros x o e _ FT SP CD il B sl st H. cbn [ok_stmt] in H. okx H. cbn [cstmt sitems]. now rewrite (cexpr_rhs FT SP (B ++ CD)).
  - intros e _ FT SP CD il B sl st H. cbn [ok_stmt] in H. cbn [cstmt sitems]. now rewrite (cexpr_rhs FT SP (B ++ CD)).
  - intros e sp _ FT SP CD il B sl st H. cbn [ok_stmt] in H. cbn [cstmt sitems]. now rewrite (cexpr_rhs FT SP (B ++ CD)).
  - intros e _ FT SP CD il B sl st H. cbn [ok_stmt] in H. cbn [cstmt sitems]. now rewrite (cexpr_rhs FT SP (B ++ CD)).
  - intros cnd b _ Hb FT SP CD il B sl st H. rewrite ok_SIf in H. okx H.
    rewrite cstmt_SIf, sitems_SIf, (cexpr_rhs FT SP (B ++ CD)) by assumption.
    rewrite (cblockT_frag c b Hb FT SP CD il B _ st) by assumption. reflexivity.
  - intros cnd b e _ Hb He FT SP CD il B sl st H. rewrite ok_SIfElse in H. okx H.
    rewrite cstmt_SIfElse, sitems_SIfElse, (cexpr_rhs FT SP (B ++ CD)) by assumption.
    rewrite (cblockT_frag c b Hb FT SP CD il B _ st) by assumption.
    rewrite (cblockT_frag c e He FT SP CD il B _ st) by assumption. reflexivity.
  - intros cnd b n _ Hb Hn FT SP CD il B sl st H. rewrite ok_SIfElif in H. okx H.
    rewrite cstmt_SIfElif, sitems_SIfElif, (cexpr_rhs FT SP (B ++ CD)) by assumption.
    rewrite (cblockT_frag c b Hb FT SP CD il B _ st) by assumption.
    rewrite (Hn FT SP CD il B _ st) by assumption. reflexivity.
  - intros cnd b _ Hb FT SP CD il B sl st H. rewrite ok_SWhile in H. okx H.
    rewrite cstmt_SWhile, sitems_SWhile, (cexpr_rhs FT SP (B ++ CD)) by assumption.
    rewrite (cblockT_frag c b Hb FT SP CD true B _ st) by assumption. reflexivity.
  - intros a b incl step nm col body _ _ _ Hbody FT SP CD il B sl st H. rewrite ok_SFrom in H. discriminate H.
  - intros FT SP CD il B sl st H. reflexivity.
  - intros FT SP CD il B sl st H. reflexivity.
  - intros [e|] _ FT SP CD il B sl st H; [|discriminate]. cbn [ok_stmt] in H. cbn [cstmt sitems]. now rewrite (cexpr_rhs FT SP (B ++ CD)).
Qed.

Corollary cblockT_ok : forall c l FT SP CD il B sl st, ok_block FT SP CD il B l = true -> cblockT c sl l st = (bitems c (lreg st) sl l, st).
Proof.
  intros c l. apply cblockT_frag. apply Forall_forall. intros s _. apply cstmt_frag.
Qed.
End WithPath.

(* ================================================================ resolve *)
Definition resolve_item (final_len step_len idx : nat) (it : citem) : citem :=
  match it with
  | CCont n => I OP_JMP_POP [sN (final_len - step_len - idx - 1); sN (n - 1)]
  | CBrk n => I OP_JMP_POP [sN (final_len - idx); sN n]
  | x => x
  end.

Lemma resolve_nth : forall F S l idx j,
  nth_error (resolve F S idx l) j = option_map (resolve_item F S (idx + j)) (nth_error l j).
Proof.
  intros F S. induction l as [|it l IH]; intros idx j; [destruct j; reflexivity|].
  destruct j as [|j].
  - rewrite Nat.add_0_r. destruct it; reflexivity.
  - replace (idx + Datatypes.S j) with (Datatypes.S idx + j) by lia.
    destruct it; cbn [resolve nth_error]; apply IH.
Qed.

Lemma resolve_length : forall F S l idx, length (resolve F S idx l) = length l.
Proof.
  intros F S. induction l as [|it l IH]; intros idx; [reflexivity|].
  destruct it; cbn [resolve length]; now rewrite IH.
Qed.
