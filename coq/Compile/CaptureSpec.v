(* C07, static half: the capture list the code generator attaches to `make_function`
   (Compile.free_vars, the model of compiler/src/ast.rs get_net_dependencies & co.) is EXACTLY the set of
   free variables of the function literal, for a declarative ("language manual") definition of "free"
   that is written independently of the code of fv_e / fv_s.

   1. FreeE / FreeS / FreeBlock : the relational specification.
   2. fv_sound_complete, fv_s_sound_complete, fv_block_sound_complete, free_vars_spec.
   3. no_free_vars_no_captures, make_function_captures_spec (+ the VM step on the emitted instruction).
   4. (Compile/CaptureSem.v) the semantic reading.
   5. non-vacuity examples at the end. *)
From MS Require Import Vm.Model Lang.Syntax Compile.Compile Compile.ExprBase.
From Coq Require Import Lia.
Open Scope nat_scope.

(* ================================================================ 1. the declarative specification *)

(* The only statement that introduces a name for the statements that FOLLOW it in the same block is a
   plain assignment `x = e`. *)
Definition binds (s : stmt) : list str :=
  match s with SAssign x _ => [x] | _ => [] end.

(* A named loop counter is local inside the loop (body and step expression). *)
Definition counter_scope (name : option str) (bound : list str) : list str :=
  match name with Some c => c :: bound | None => bound end.

(* `FreeE bound e x`: the name x occurs free in the expression e, given that the names in `bound` are
   local variables of the function being analysed at the point where e stands.
   `FreeS bound s x`: same for one statement.
   `FreeBlock bound l x`: same for a statement list (a block, or a function body with bound = parameters). *)
Inductive FreeE : list str -> expr -> str -> Prop :=
(* a variable occurrence that does not refer to a local *)
| FE_Var : forall bound x, ~ In x bound -> FreeE bound (EVar x) x
(* operands of operators *)
| FE_BinL : forall bound o a b x, FreeE bound a x -> FreeE bound (EBin o a b) x
| FE_BinR : forall bound o a b x, FreeE bound b x -> FreeE bound (EBin o a b) x
| FE_AndL : forall bound a b x, FreeE bound a x -> FreeE bound (EAnd a b) x
| FE_AndR : forall bound a b x, FreeE bound b x -> FreeE bound (EAnd a b) x
| FE_OrL : forall bound a b x, FreeE bound a x -> FreeE bound (EOr a b) x
| FE_OrR : forall bound a b x, FreeE bound b x -> FreeE bound (EOr a b) x
| FE_NilOrL : forall bound a b x, FreeE bound a x -> FreeE bound (ENilOr a b) x
| FE_NilOrR : forall bound a b x, FreeE bound b x -> FreeE bound (ENilOr a b) x
| FE_Not : forall bound a x, FreeE bound a x -> FreeE bound (ENot a) x
| FE_Neg : forall bound a x, FreeE bound a x -> FreeE bound (ENeg a) x
| FE_Get : forall bound a sp x, FreeE bound a x -> FreeE bound (EGet a sp) x
(* calls: the callee expression and every argument; self(..): every argument *)
| FE_CallFn : forall bound f args x, FreeE bound f x -> FreeE bound (ECall f args) x
| FE_CallArg : forall bound f args a x, In a args -> FreeE bound a x -> FreeE bound (ECall f args) x
| FE_SelfArg : forall bound args a x, In a args -> FreeE bound a x -> FreeE bound (ESelf args) x
(* a nested function literal: what is free in ITS body w.r.t. ITS parameters (and its own earlier
   bindings), unless it is a local of the function the literal stands in *)
| FE_Fn : forall bound ps body x, FreeBlock ps body x -> ~ In x bound -> FreeE bound (EFn ps body) x

with FreeS : list str -> stmt -> str -> Prop :=
(* x = e : the right-hand side is evaluated BEFORE x is (re)bound *)
| FS_Assign : forall bound y e x, FreeE bound e x -> FreeS bound (SAssign y e) x
(* modify x = e  and  x op= e  USE x *)
| FS_ModifyTarget : forall bound x e, ~ In x bound -> FreeS bound (SModify x e) x
| FS_ModifyRhs : forall bound y e x, FreeE bound e x -> FreeS bound (SModify y e) x
| FS_OpAssignTarget : forall bound x o e, ~ In x bound -> FreeS bound (SOpAssign x o e) x
| FS_OpAssignRhs : forall bound y o e x, FreeE bound e x -> FreeS bound (SOpAssign y o e) x
| FS_Print : forall bound e x, FreeE bound e x -> FreeS bound (SPrint e) x
| FS_Assert : forall bound e sp x, FreeE bound e x -> FreeS bound (SAssert e sp) x
| FS_Expr : forall bound e x, FreeE bound e x -> FreeS bound (SExpr e) x
| FS_Return : forall bound e x, FreeE bound e x -> FreeS bound (SReturn (Some e)) x
(* conditionals and loops: condition, and the bodies as blocks of their own *)
| FS_IfCond : forall bound c b x, FreeE bound c x -> FreeS bound (SIf c b) x
| FS_IfBody : forall bound c b x, FreeBlock bound b x -> FreeS bound (SIf c b) x
| FS_IfElseCond : forall bound c b e x, FreeE bound c x -> FreeS bound (SIfElse c b e) x
| FS_IfElseThen : forall bound c b e x, FreeBlock bound b x -> FreeS bound (SIfElse c b e) x
| FS_IfElseElse : forall bound c b e x, FreeBlock bound e x -> FreeS bound (SIfElse c b e) x
| FS_IfElifCond : forall bound c b n x, FreeE bound c x -> FreeS bound (SIfElif c b n) x
| FS_IfElifThen : forall bound c b n x, FreeBlock bound b x -> FreeS bound (SIfElif c b n) x
| FS_IfElifNext : forall bound c b n x, FreeS bound n x -> FreeS bound (SIfElif c b n) x
| FS_WhileCond : forall bound c b x, FreeE bound c x -> FreeS bound (SWhile c b) x
| FS_WhileBody : forall bound c b x, FreeBlock bound b x -> FreeS bound (SWhile c b) x
(* from a to b [step e] [, name] { body }: the range ends are evaluated outside the loop; a counter that
   collides with an existing variable IS that variable (a use); the counter is local in body and step *)
| FS_FromLo : forall bound a b incl step name collide body x,
    FreeE bound a x -> FreeS bound (SFrom a b incl step name collide body) x
| FS_FromHi : forall bound a b incl step name collide body x,
    FreeE bound b x -> FreeS bound (SFrom a b incl step name collide body) x
| FS_FromCounter : forall bound a b incl step c body,
    ~ In c bound -> FreeS bound (SFrom a b incl step (Some c) true body) c
| FS_FromBody : forall bound a b incl step name collide body x,
    FreeBlock (counter_scope name bound) body x -> FreeS bound (SFrom a b incl step name collide body) x
| FS_FromStep : forall bound a b incl e name collide body x,
    FreeE (counter_scope name bound) e x -> FreeS bound (SFrom a b incl (Some e) name collide body) x

with FreeBlock : list str -> list stmt -> str -> Prop :=
(* free in the first statement ... *)
| FB_Here : forall bound s l x, FreeS bound s x -> FreeBlock bound (s :: l) x
(* ... or free in the rest, where the name the first statement binds (if any) is local.  Bindings made
   inside the blocks of an if / while / from do not escape: `binds` of those statements is empty. *)
| FB_Later : forall bound s l x, FreeBlock (binds s ++ bound) l x -> FreeBlock bound (s :: l) x.

(* ---------------------------------------------------------------- the rules read as equations *)
Ltac inv H := inversion H; subst; clear H.

Lemma FreeE_lit : forall bound x,
  (forall z, ~ FreeE bound (EInt z) x) /\ (forall b, ~ FreeE bound (EBool b) x) /\
  (forall s, ~ FreeE bound (EStr s) x) /\ ~ FreeE bound ENil x.
Proof. intros. repeat split; intros; intros H; inv H. Qed.
Lemma FreeE_Var_iff : forall bound y x, FreeE bound (EVar y) x <-> x = y /\ ~ In y bound.
Proof. intros. split; [intros H; inv H; auto|intros [-> H]; now constructor]. Qed.
Lemma FreeE_Bin_iff : forall bound o a b x, FreeE bound (EBin o a b) x <-> FreeE bound a x \/ FreeE bound b x.
Proof. intros. split; [intros H; inv H; auto|intros [H|H]; [now apply FE_BinL|now apply FE_BinR]]. Qed.
Lemma FreeE_And_iff : forall bound a b x, FreeE bound (EAnd a b) x <-> FreeE bound a x \/ FreeE bound b x.
Proof. intros. split; [intros H; inv H; auto|intros [H|H]; [now apply FE_AndL|now apply FE_AndR]]. Qed.
Lemma FreeE_Or_iff : forall bound a b x, FreeE bound (EOr a b) x <-> FreeE bound a x \/ FreeE bound b x.
Proof. intros. split; [intros H; inv H; auto|intros [H|H]; [now apply FE_OrL|now apply FE_OrR]]. Qed.
Lemma FreeE_NilOr_iff : forall bound a b x, FreeE bound (ENilOr a b) x <-> FreeE bound a x \/ FreeE bound b x.
Proof. intros. split; [intros H; inv H; auto|intros [H|H]; [now apply FE_NilOrL|now apply FE_NilOrR]]. Qed.
Lemma FreeE_Not_iff : forall bound a x, FreeE bound (ENot a) x <-> FreeE bound a x.
Proof. intros. split; [intros H; inv H; auto|intros H; now constructor]. Qed.
Lemma FreeE_Neg_iff : forall bound a x, FreeE bound (ENeg a) x <-> FreeE bound a x.
Proof. intros. split; [intros H; inv H; auto|intros H; now constructor]. Qed.
Lemma FreeE_Get_iff : forall bound a sp x, FreeE bound (EGet a sp) x <-> FreeE bound a x.
Proof. intros. split; [intros H; inv H; auto|intros H; now constructor]. Qed.
Lemma FreeE_Call_iff : forall bound f args x,
  FreeE bound (ECall f args) x <-> FreeE bound f x \/ exists a, In a args /\ FreeE bound a x.
Proof.
  intros. split.
  - intros H; inv H; [now left|right; eauto].
  - intros [H|(a & Ha & H)]; [now apply FE_CallFn|now apply FE_CallArg with a].
Qed.
Lemma FreeE_Self_iff : forall bound args x,
  FreeE bound (ESelf args) x <-> exists a, In a args /\ FreeE bound a x.
Proof.
  intros. split.
  - intros H; inv H; eauto.
  - intros (a & Ha & H); now apply FE_SelfArg with a.
Qed.
Lemma FreeE_Fn_iff : forall bound ps body x,
  FreeE bound (EFn ps body) x <-> FreeBlock ps body x /\ ~ In x bound.
Proof. intros. split; [intros H; inv H; auto|intros [H1 H2]; now constructor]. Qed.

Lemma FreeS_Assign_iff : forall bound y e x, FreeS bound (SAssign y e) x <-> FreeE bound e x.
Proof. intros. split; [intros H; inv H; auto|intros H; now constructor]. Qed.
Lemma FreeS_Modify_iff : forall bound y e x,
  FreeS bound (SModify y e) x <-> (x = y /\ ~ In y bound) \/ FreeE bound e x.
Proof.
  intros. split; [intros H; inv H; auto|intros [[-> H]|H]; [now apply FS_ModifyTarget|now apply FS_ModifyRhs]].
Qed.
Lemma FreeS_OpAssign_iff : forall bound y o e x,
  FreeS bound (SOpAssign y o e) x <-> (x = y /\ ~ In y bound) \/ FreeE bound e x.
Proof.
  intros. split; [intros H; inv H; auto|intros [[-> H]|H]; [now apply FS_OpAssignTarget|now apply FS_OpAssignRhs]].
Qed.
Lemma FreeS_Print_iff : forall bound e x, FreeS bound (SPrint e) x <-> FreeE bound e x.
Proof. intros. split; [intros H; inv H; auto|intros H; now constructor]. Qed.
Lemma FreeS_Assert_iff : forall bound e sp x, FreeS bound (SAssert e sp) x <-> FreeE bound e x.
Proof. intros. split; [intros H; inv H; auto|intros H; now constructor]. Qed.
Lemma FreeS_Expr_iff : forall bound e x, FreeS bound (SExpr e) x <-> FreeE bound e x.
Proof. intros. split; [intros H; inv H; auto|intros H; now constructor]. Qed.
Lemma FreeS_Return_iff : forall bound e x, FreeS bound (SReturn (Some e)) x <-> FreeE bound e x.
Proof. intros. split; [intros H; inv H; auto|intros H; now constructor]. Qed.
Lemma FreeS_nothing : forall bound x,
  ~ FreeS bound SBreak x /\ ~ FreeS bound SContinue x /\ ~ FreeS bound (SReturn None) x.
Proof. intros. repeat split; intros H; inv H. Qed.
Lemma FreeS_If_iff : forall bound c b x, FreeS bound (SIf c b) x <-> FreeE bound c x \/ FreeBlock bound b x.
Proof. intros. split; [intros H; inv H; auto|intros [H|H]; [now apply FS_IfCond|now apply FS_IfBody]]. Qed.
Lemma FreeS_IfElse_iff : forall bound c b e x,
  FreeS bound (SIfElse c b e) x <-> FreeE bound c x \/ FreeBlock bound b x \/ FreeBlock bound e x.
Proof.
  intros. split; [intros H; inv H; auto|
    intros [H|[H|H]]; [now apply FS_IfElseCond|now apply FS_IfElseThen|now apply FS_IfElseElse]].
Qed.
Lemma FreeS_IfElif_iff : forall bound c b n x,
  FreeS bound (SIfElif c b n) x <-> FreeE bound c x \/ FreeBlock bound b x \/ FreeS bound n x.
Proof.
  intros. split; [intros H; inv H; auto|
    intros [H|[H|H]]; [now apply FS_IfElifCond|now apply FS_IfElifThen|now apply FS_IfElifNext]].
Qed.
Lemma FreeS_While_iff : forall bound c b x, FreeS bound (SWhile c b) x <-> FreeE bound c x \/ FreeBlock bound b x.
Proof. intros. split; [intros H; inv H; auto|intros [H|H]; [now apply FS_WhileCond|now apply FS_WhileBody]]. Qed.
Lemma FreeS_From_iff : forall bound a b incl step name collide body x,
  FreeS bound (SFrom a b incl step name collide body) x <->
    FreeE bound a x \/ FreeE bound b x
    \/ (name = Some x /\ collide = true /\ ~ In x bound)
    \/ FreeBlock (counter_scope name bound) body x
    \/ (exists e, step = Some e /\ FreeE (counter_scope name bound) e x).
Proof.
  intros. split.
  - intros H; inv H; auto 6. right. right. right. right. eauto.
  - intros [H|[H|[(-> & -> & H)|[H|(e & -> & H)]]]].
    + now apply FS_FromLo.
    + now apply FS_FromHi.
    + now apply FS_FromCounter.
    + now apply FS_FromBody.
    + now apply FS_FromStep.
Qed.
Lemma FreeBlock_nil : forall bound x, ~ FreeBlock bound [] x.
Proof. intros bound x H. inv H. Qed.
Lemma FreeBlock_cons_iff : forall bound s l x,
  FreeBlock bound (s :: l) x <-> FreeS bound s x \/ FreeBlock (binds s ++ bound) l x.
Proof. intros. split; [intros H; inv H; auto|intros [H|H]; [now apply FB_Here|now apply FB_Later]]. Qed.

(* ================================================================ 2. the executable analysis computes it *)

(* ---- list helpers of Compile.v *)
Lemma mem_str_In : forall x l, mem_str x l = true <-> In x l.
Proof.
  intros x l. induction l as [|y l IH]; cbn [mem_str In].
  - split; [discriminate|intros []].
  - rewrite Bool.orb_true_iff, IH, str_eqb_iff. split; intros [H|H]; auto.
Qed.
Lemma mem_str_false : forall x l, mem_str x l = false <-> ~ In x l.
Proof.
  intros x l. rewrite <- mem_str_In. destruct (mem_str x l); split; intros H; congruence.
Qed.
Lemma In_minus : forall x a b, In x (minus a b) <-> In x a /\ ~ In x b.
Proof.
  intros x a b. unfold minus. rewrite filter_In, Bool.negb_true_iff, mem_str_false. reflexivity.
Qed.
Lemma In_dedup : forall x l, In x (dedup l) <-> In x l.
Proof.
  intros x l. induction l as [|y l IH]; cbn [dedup]; [reflexivity|].
  destruct (mem_str y l) eqn:E.
  - rewrite IH. cbn [In]. split; [auto|]. intros [<-|H]; [now apply mem_str_In|exact H].
  - cbn [In]. rewrite IH. reflexivity.
Qed.
Lemma NoDup_dedup : forall l, NoDup (dedup l).
Proof.
  induction l as [|y l IH]; cbn [dedup]; [constructor|].
  destruct (mem_str y l) eqn:E; [exact IH|].
  constructor; [|exact IH]. rewrite In_dedup. now apply mem_str_false.
Qed.
Lemma In_use : forall y bound x, In x (if mem_str y bound then [] else [y]) <-> x = y /\ ~ In y bound.
Proof.
  intros y bound x. destruct (mem_str y bound) eqn:E.
  - apply mem_str_In in E. split; [intros []|intros [_ H]; contradiction].
  - apply mem_str_false in E. cbn [In]. split; [intros [<-|[]]; auto|intros [-> _]; auto].
Qed.

(* ---- the local loops of fv_e / fv_s as top-level functions, and the unfolding equations *)
Definition fv_args (bound : list str) : list expr -> list str :=
  fix go (l : list expr) : list str := match l with [] => [] | a :: l => fv_e bound a ++ go l end.
Fixpoint fv_block (bd : list str) (l : list stmt) : list str :=
  match l with [] => [] | s :: l => let '(u, bd') := fv_s bd s in u ++ fv_block bd' l end.

Lemma fv_e_Call : forall bound f a, fv_e bound (ECall f a) = fv_e bound f ++ fv_args bound a.
Proof. reflexivity. Qed.
Lemma fv_e_Self : forall bound a, fv_e bound (ESelf a) = fv_args bound a.
Proof. reflexivity. Qed.
Lemma fv_e_Fn : forall bound ps body, fv_e bound (EFn ps body) = minus (fv_block ps body) bound.
Proof. reflexivity. Qed.
Lemma fv_s_If : forall bound c b, fv_s bound (SIf c b) = (fv_e bound c ++ fv_block bound b, bound).
Proof. reflexivity. Qed.
Lemma fv_s_IfElse : forall bound c b e,
  fv_s bound (SIfElse c b e) = (fv_e bound c ++ fv_block bound b ++ fv_block bound e, bound).
Proof. reflexivity. Qed.
Lemma fv_s_IfElif : forall bound c b n,
  fv_s bound (SIfElif c b n) = (fv_e bound c ++ fv_block bound b ++ fst (fv_s bound n), bound).
Proof. reflexivity. Qed.
Lemma fv_s_While : forall bound c b, fv_s bound (SWhile c b) = (fv_e bound c ++ fv_block bound b, bound).
Proof. reflexivity. Qed.
Lemma fv_s_From : forall bound a b incl st name collide body,
  fv_s bound (SFrom a b incl st name collide body) =
  (fv_e bound a ++ fv_e bound b
     ++ (match name, collide with Some x, true => if mem_str x bound then [] else [x] | _, _ => [] end)
     ++ fv_block (counter_scope name bound) body
     ++ (match st with Some e => fv_e (counter_scope name bound) e | None => [] end), bound).
Proof. reflexivity. Qed.

(* the bound set after a statement is `binds s ++ bound` *)
Lemma fv_s_snd : forall bound s, snd (fv_s bound s) = binds s ++ bound.
Proof. intros bound s. destruct s; try reflexivity. destruct e; reflexivity. Qed.

Lemma fv_block_cons : forall bound s l,
  fv_block bound (s :: l) = fst (fv_s bound s) ++ fv_block (binds s ++ bound) l.
Proof.
  intros bound s l. cbn [fv_block]. rewrite <- fv_s_snd. destruct (fv_s bound s) as [u bd']. reflexivity.
Qed.

Definition P_fv (e : expr) : Prop := forall bound x, In x (fv_e bound e) <-> FreeE bound e x.
Definition Q_fv (s : stmt) : Prop := forall bound x, In x (fst (fv_s bound s)) <-> FreeS bound s x.

Lemma fv_args_spec : forall l, Forall P_fv l ->
  forall bound x, In x (fv_args bound l) <-> exists a, In a l /\ FreeE bound a x.
Proof.
  induction l as [|a l IH]; intros HF bound x.
  - cbn. split; [intros []|intros (a & [] & _)].
  - inversion HF as [|? ? Ha Hl]; subst. cbn [fv_args]. rewrite in_app_iff, (Ha bound x), (IH Hl bound x).
    split.
    + intros [H|(a' & Hin & H)]; [exists a; split; [now left|exact H]|exists a'; split; [now right|exact H]].
    + intros (a' & [<-|Hin] & H); [now left|right; eauto].
Qed.

Lemma fv_block_spec : forall l, Forall Q_fv l ->
  forall bound x, In x (fv_block bound l) <-> FreeBlock bound l x.
Proof.
  induction l as [|s l IH]; intros HF bound x.
  - cbn. split; [intros []|intros H; now apply FreeBlock_nil in H].
  - inversion HF as [|? ? Hs Hl]; subst.
    rewrite fv_block_cons, in_app_iff, (Hs bound x), (IH Hl (binds s ++ bound) x), FreeBlock_cons_iff.
    reflexivity.
Qed.

Lemma fv_both : (forall e, P_fv e) /\ (forall s, Q_fv s).
Proof.
  apply expr_stmt_ind'; unfold P_fv, Q_fv.
  - intros z bound x. cbn. split; [intros []|intros H; now apply FreeE_lit in H].
  - intros b bound x. cbn. split; [intros []|intros H; now apply FreeE_lit in H].
  - intros s bound x. cbn. split; [intros []|intros H; now apply FreeE_lit in H].
  - intros bound x. cbn. split; [intros []|intros H; now apply FreeE_lit in H].
  - intros y bound x. cbn [fv_e]. rewrite In_use, FreeE_Var_iff. reflexivity.
  - intros o a b Ha Hb bound x. cbn [fv_e]. rewrite in_app_iff, Ha, Hb, FreeE_Bin_iff. reflexivity.
  - intros a b Ha Hb bound x. cbn [fv_e]. rewrite in_app_iff, Ha, Hb, FreeE_And_iff. reflexivity.
  - intros a b Ha Hb bound x. cbn [fv_e]. rewrite in_app_iff, Ha, Hb, FreeE_Or_iff. reflexivity.
  - intros a Ha bound x. cbn [fv_e]. rewrite Ha, FreeE_Not_iff. reflexivity.
  - intros a Ha bound x. cbn [fv_e]. rewrite Ha, FreeE_Neg_iff. reflexivity.
  - intros f l Hf Hl bound x. rewrite fv_e_Call, in_app_iff, Hf, (fv_args_spec l Hl), FreeE_Call_iff. reflexivity.
  - intros l Hl bound x. rewrite fv_e_Self, (fv_args_spec l Hl), FreeE_Self_iff. reflexivity.
  - intros ps body Hb bound x. rewrite fv_e_Fn, In_minus, (fv_block_spec body Hb), FreeE_Fn_iff. reflexivity.
  - intros a b Ha Hb bound x. cbn [fv_e]. rewrite in_app_iff, Ha, Hb, FreeE_NilOr_iff. reflexivity.
  - intros a sp Ha bound x. cbn [fv_e]. rewrite Ha, FreeE_Get_iff. reflexivity.
  - intros y e He bound x. cbn [fv_s fst]. rewrite He, FreeS_Assign_iff. reflexivity.
  - intros y e He bound x. cbn [fv_s fst]. rewrite in_app_iff, In_use, He, FreeS_Modify_iff. reflexivity.
  - intros y o e He bound x. cbn [fv_s fst]. rewrite in_app_iff, In_use, He, FreeS_OpAssign_iff. reflexivity.
  - intros e He bound x. cbn [fv_s fst]. rewrite He, FreeS_Print_iff. reflexivity.
  - intros e sp He bound x. cbn [fv_s fst]. rewrite He, FreeS_Assert_iff. reflexivity.
  - intros e He bound x. cbn [fv_s fst]. rewrite He, FreeS_Expr_iff. reflexivity.
  - intros c b Hc Hb bound x. rewrite fv_s_If. cbn [fst].
    rewrite in_app_iff, Hc, (fv_block_spec b Hb), FreeS_If_iff. reflexivity.
  - intros c b e Hc Hb He bound x. rewrite fv_s_IfElse. cbn [fst].
    rewrite !in_app_iff, Hc, (fv_block_spec b Hb), (fv_block_spec e He), FreeS_IfElse_iff. reflexivity.
  - intros c b n Hc Hb Hn bound x. rewrite fv_s_IfElif. cbn [fst].
    rewrite !in_app_iff, Hc, (fv_block_spec b Hb), Hn, FreeS_IfElif_iff. reflexivity.
  - intros c b Hc Hb bound x. rewrite fv_s_While. cbn [fst].
    rewrite in_app_iff, Hc, (fv_block_spec b Hb), FreeS_While_iff. reflexivity.
  - intros a b incl step name collide body Ha Hb Hst Hbody bound x. rewrite fv_s_From. cbn [fst].
    rewrite !in_app_iff, Ha, Hb, (fv_block_spec body Hbody), FreeS_From_iff.
    assert (Hc : In x (match name, collide with
                       | Some y, true => if mem_str y bound then [] else [y] | _, _ => [] end)
                 <-> name = Some x /\ collide = true /\ ~ In x bound).
    { destruct name as [y|]; [destruct collide|].
      - rewrite In_use. split; [intros [-> H]; auto|intros (E & _ & H); inversion E; subst; auto].
      - split; [intros []|intros (_ & E & _); discriminate].
      - split; [intros []|intros (E & _); discriminate]. }
    assert (Hs : In x (match step with Some e => fv_e (counter_scope name bound) e | None => [] end)
                 <-> exists e, step = Some e /\ FreeE (counter_scope name bound) e x).
    { destruct step as [e|].
      - rewrite (Hst e eq_refl). split; [eauto|intros (e' & E & H); inversion E; subst; exact H].
      - split; [intros []|intros (e' & E & _); discriminate]. }
    rewrite Hc, Hs. reflexivity.
  - intros bound x. cbn. split; [intros []|intros H; now apply FreeS_nothing in H].
  - intros bound x. cbn. split; [intros []|intros H; now apply FreeS_nothing in H].
  - intros [e|] He bound x.
    + cbn [fv_s fst]. rewrite (He e eq_refl), FreeS_Return_iff. reflexivity.
    + cbn. split; [intros []|intros H; now apply FreeS_nothing in H].
Qed.

(* THE theorem: for every expression (any nesting of function literals), every set of locals, every name *)
Theorem fv_sound_complete : forall e bound x, In x (fv_e bound e) <-> FreeE bound e x.
Proof. exact (proj1 fv_both). Qed.

Theorem fv_s_sound_complete : forall s bound x, In x (fst (fv_s bound s)) <-> FreeS bound s x.
Proof. exact (proj2 fv_both). Qed.

Theorem fv_s_binds : forall s bound, snd (fv_s bound s) = binds s ++ bound.
Proof. intros. apply fv_s_snd. Qed.

Theorem fv_block_sound_complete : forall l bound x, In x (fv_block bound l) <-> FreeBlock bound l x.
Proof.
  intros l. apply fv_block_spec. apply Forall_forall. intros s _. exact (proj2 fv_both s).
Qed.

Lemma free_vars_unfold : forall ps body, free_vars ps body = dedup (minus (fv_block ps body) []).
Proof. reflexivity. Qed.

Theorem free_vars_spec : forall ps body x, In x (free_vars ps body) <-> FreeBlock ps body x.
Proof.
  intros ps body x. unfold free_vars. rewrite In_dedup, fv_sound_complete, FreeE_Fn_iff.
  split; [intros [H _]; exact H|intros H; split; [exact H|intros []]].
Qed.

Theorem free_vars_NoDup : forall ps body, NoDup (free_vars ps body).
Proof. intros. apply NoDup_dedup. Qed.

(* ================================================================ 3. corollaries for C07 *)
Theorem no_free_vars_no_captures : forall ps body,
  free_vars ps body = [] <-> (forall x, ~ FreeBlock ps body x).
Proof.
  intros ps body. split.
  - intros E x H. apply free_vars_spec in H. rewrite E in H. exact H.
  - intros H. destruct (free_vars ps body) as [|y l] eqn:E; [reflexivity|].
    exfalso. apply (H y). apply free_vars_spec. rewrite E. now left.
Qed.

(* the code of a function literal is ONE make_function instruction whose capture arguments are exactly
   (as a duplicate-free list) the free variables of the literal *)
Theorem make_function_captures_spec : forall path d ps body st, exists name l,
  fst (cexpr path d (EFn ps body) st) = [I OP_MAKE_FUNCTION (name :: l)]
  /\ NoDup l
  /\ (forall x, In x l <-> FreeBlock ps body x).
Proof.
  intros path d ps body st. destruct (cexpr_EFn path d ps body st) as (name & st' & E).
  exists name, (free_vars ps body). rewrite E. cbn [fst].
  split; [reflexivity|]. split; [apply free_vars_NoDup|apply free_vars_spec].
Qed.

Theorem make_function_no_captures_iff : forall path d ps body st,
  (exists name, fst (cexpr path d (EFn ps body) st) = [I OP_MAKE_FUNCTION [name]])
  <-> (forall x, ~ FreeBlock ps body x).
Proof.
  intros path d ps body st. destruct (cexpr_EFn path d ps body st) as (name & st' & E). rewrite E. cbn [fst].
  rewrite <- no_free_vars_no_captures. split.
  - intros (name' & H). inversion H. reflexivity.
  - intros ->. exists name. reflexivity.
Qed.

(* ... and the VM executes that instruction, when the literal has no free variable, by pushing a plain
   function value (VFun loc None): "a function that captures nothing is not a closure" *)
Theorem closed_literal_is_not_a_closure : forall path d ps body st,
  (forall x, ~ FreeBlock ps body x) ->
  exists name, strip (fst (cexpr path d (EFn ps body) st)) = [mkI OP_MAKE_FUNCTION [name]]
    /\ decode (mkI OP_MAKE_FUNCTION [name]) = DOk (DMakeFunction name [])
    /\ forall a g, exec_d (DMakeFunction name []) a g = SNext (set_ops a (a_ops a ++ [VFun name None])) g.
Proof.
  intros path d ps body st H. apply (make_function_no_captures_iff path d ps body st) in H as (name & E).
  exists name. rewrite E. split; [reflexivity|]. split; [reflexivity|]. intros a g. reflexivity.
Qed.

(* a literal WITH a free variable yields a capturing make_function: the VM builds VFun loc (Some m) where m
   holds exactly the cells of the free variables (Vm.ClosureLemmas.capture_shares gives the sharing) *)
Theorem open_literal_captures : forall path d ps body st x,
  FreeBlock ps body x ->
  exists name l, strip (fst (cexpr path d (EFn ps body) st)) = [mkI OP_MAKE_FUNCTION (name :: l)]
    /\ In x l /\ l <> []
    /\ decode (mkI OP_MAKE_FUNCTION (name :: l)) = DOk (DMakeFunction name l).
Proof.
  intros path d ps body st x H.
  destruct (make_function_captures_spec path d ps body st) as (name & l & E & _ & Hl).
  exists name, l. rewrite E. split; [reflexivity|].
  apply Hl in H. split; [exact H|]. split; [intros ->; exact H|reflexivity].
Qed.

(* ================================================================ the specification is robust *)
(* Whether x is free depends on `bound` only through the question "is x itself bound" -- `bound` is a set,
   and other locals never matter. *)
Definition P_ext (e : expr) : Prop :=
  forall b1 b2 x, (In x b1 <-> In x b2) -> FreeE b1 e x -> FreeE b2 e x.
Definition Q_ext (s : stmt) : Prop :=
  forall b1 b2 x, (In x b1 <-> In x b2) -> FreeS b1 s x -> FreeS b2 s x.

Lemma In_cons_congr : forall (x c : str) b1 b2, (In x b1 <-> In x b2) -> (In x (c :: b1) <-> In x (c :: b2)).
Proof. intros x c b1 b2 H. cbn [In]. rewrite H. reflexivity. Qed.
Lemma In_app_congr : forall (x : str) l b1 b2, (In x b1 <-> In x b2) -> (In x (l ++ b1) <-> In x (l ++ b2)).
Proof. intros x l b1 b2 H. rewrite !in_app_iff, H. reflexivity. Qed.
Lemma In_scope_congr : forall (x : str) name b1 b2,
  (In x b1 <-> In x b2) -> (In x (counter_scope name b1) <-> In x (counter_scope name b2)).
Proof. intros x [c|] b1 b2 H; [now apply In_cons_congr|exact H]. Qed.

Lemma FreeBlock_ext_aux : forall l, Forall Q_ext l ->
  forall b1 b2 x, (In x b1 <-> In x b2) -> FreeBlock b1 l x -> FreeBlock b2 l x.
Proof.
  induction l as [|s l IH]; intros HF b1 b2 x Hb H.
  - now apply FreeBlock_nil in H.
  - inversion HF as [|? ? Hs Hl]; subst. rewrite FreeBlock_cons_iff in H; destruct H as [H|H].
    + apply FB_Here. exact (Hs b1 b2 x Hb H).
    + apply FB_Later. apply (IH Hl (binds s ++ b1)); [now apply In_app_congr|exact H].
Qed.

Lemma Free_ext_both : (forall e, P_ext e) /\ (forall s, Q_ext s).
Proof.
  apply expr_stmt_ind'; unfold P_ext, Q_ext.
  - intros z b1 b2 x _ H. now apply FreeE_lit in H.
  - intros b b1 b2 x _ H. now apply FreeE_lit in H.
  - intros s b1 b2 x _ H. now apply FreeE_lit in H.
  - intros b1 b2 x _ H. now apply FreeE_lit in H.
  - intros y b1 b2 x Hb H. rewrite FreeE_Var_iff in H; destruct H as [-> H]. apply FE_Var. now rewrite <- Hb.
  - intros o a b Ha Hb b1 b2 x Hx H. rewrite FreeE_Bin_iff in H; destruct H as [H|H]; [apply FE_BinL|apply FE_BinR]; eauto.
  - intros a b Ha Hb b1 b2 x Hx H. rewrite FreeE_And_iff in H; destruct H as [H|H]; [apply FE_AndL|apply FE_AndR]; eauto.
  - intros a b Ha Hb b1 b2 x Hx H. rewrite FreeE_Or_iff in H; destruct H as [H|H]; [apply FE_OrL|apply FE_OrR]; eauto.
  - intros a Ha b1 b2 x Hx H. rewrite FreeE_Not_iff in H. apply FE_Not; eauto.
  - intros a Ha b1 b2 x Hx H. rewrite FreeE_Neg_iff in H. apply FE_Neg; eauto.
  - intros f l Hf Hl b1 b2 x Hx H. rewrite FreeE_Call_iff in H; destruct H as [H|(a & Hin & H)].
    + apply FE_CallFn; eauto.
    + apply FE_CallArg with a; [exact Hin|]. rewrite Forall_forall in Hl. exact (Hl a Hin b1 b2 x Hx H).
  - intros l Hl b1 b2 x Hx H. rewrite FreeE_Self_iff in H; destruct H as (a & Hin & H).
    apply FE_SelfArg with a; [exact Hin|]. rewrite Forall_forall in Hl. exact (Hl a Hin b1 b2 x Hx H).
  - intros ps body _ b1 b2 x Hx H. rewrite FreeE_Fn_iff in H; destruct H as [H1 H2]. apply FE_Fn; [exact H1|now rewrite <- Hx].
  - intros a b Ha Hb b1 b2 x Hx H. rewrite FreeE_NilOr_iff in H; destruct H as [H|H]; [apply FE_NilOrL|apply FE_NilOrR]; eauto.
  - intros a sp Ha b1 b2 x Hx H. rewrite FreeE_Get_iff in H. apply FE_Get; eauto.
  - intros y e He b1 b2 x Hx H. rewrite FreeS_Assign_iff in H. apply FS_Assign; eauto.
  - intros y e He b1 b2 x Hx H. rewrite FreeS_Modify_iff in H; destruct H as [[-> H]|H].
    + apply FS_ModifyTarget. now rewrite <- Hx.
    + apply FS_ModifyRhs; eauto.
  - intros y o e He b1 b2 x Hx H. rewrite FreeS_OpAssign_iff in H; destruct H as [[-> H]|H].
    + apply FS_OpAssignTarget. now rewrite <- Hx.
    + apply FS_OpAssignRhs; eauto.
  - intros e He b1 b2 x Hx H. rewrite FreeS_Print_iff in H. apply FS_Print; eauto.
  - intros e sp He b1 b2 x Hx H. rewrite FreeS_Assert_iff in H. apply FS_Assert; eauto.
  - intros e He b1 b2 x Hx H. rewrite FreeS_Expr_iff in H. apply FS_Expr; eauto.
  - intros c b Hc Hb b1 b2 x Hx H. rewrite FreeS_If_iff in H; destruct H as [H|H].
    + apply FS_IfCond; eauto.
    + apply FS_IfBody. exact (FreeBlock_ext_aux b Hb b1 b2 x Hx H).
  - intros c b e Hc Hb He b1 b2 x Hx H. rewrite FreeS_IfElse_iff in H; destruct H as [H|[H|H]].
    + apply FS_IfElseCond; eauto.
    + apply FS_IfElseThen. exact (FreeBlock_ext_aux b Hb b1 b2 x Hx H).
    + apply FS_IfElseElse. exact (FreeBlock_ext_aux e He b1 b2 x Hx H).
  - intros c b n Hc Hb Hn b1 b2 x Hx H. rewrite FreeS_IfElif_iff in H; destruct H as [H|[H|H]].
    + apply FS_IfElifCond; eauto.
    + apply FS_IfElifThen. exact (FreeBlock_ext_aux b Hb b1 b2 x Hx H).
    + apply FS_IfElifNext; eauto.
  - intros c b Hc Hb b1 b2 x Hx H. rewrite FreeS_While_iff in H; destruct H as [H|H].
    + apply FS_WhileCond; eauto.
    + apply FS_WhileBody. exact (FreeBlock_ext_aux b Hb b1 b2 x Hx H).
  - intros a b incl step name collide body Ha Hb Hst Hbody b1 b2 x Hx H.
    rewrite FreeS_From_iff in H; destruct H as [H|[H|[(-> & -> & H)|[H|(e & -> & H)]]]].
    + apply FS_FromLo; eauto.
    + apply FS_FromHi; eauto.
    + apply FS_FromCounter. now rewrite <- Hx.
    + apply FS_FromBody.
      exact (FreeBlock_ext_aux body Hbody _ _ x (In_scope_congr x name b1 b2 Hx) H).
    + apply FS_FromStep. exact (Hst e eq_refl _ _ x (In_scope_congr x name b1 b2 Hx) H).
  - intros b1 b2 x _ H. now apply FreeS_nothing in H.
  - intros b1 b2 x _ H. now apply FreeS_nothing in H.
  - intros [e|] He b1 b2 x Hx H.
    + rewrite FreeS_Return_iff in H. apply FS_Return. exact (He e eq_refl b1 b2 x Hx H).
    + now apply FreeS_nothing in H.
Qed.

Theorem FreeE_ext : forall e b1 b2 x, (In x b1 <-> In x b2) -> (FreeE b1 e x <-> FreeE b2 e x).
Proof.
  intros e b1 b2 x H. split; apply (proj1 Free_ext_both e); [exact H|symmetry; exact H].
Qed.
Theorem FreeS_ext : forall s b1 b2 x, (In x b1 <-> In x b2) -> (FreeS b1 s x <-> FreeS b2 s x).
Proof.
  intros s b1 b2 x H. split; apply (proj2 Free_ext_both s); [exact H|symmetry; exact H].
Qed.
Theorem FreeBlock_ext : forall l b1 b2 x, (In x b1 <-> In x b2) -> (FreeBlock b1 l x <-> FreeBlock b2 l x).
Proof.
  intros l b1 b2 x H.
  assert (HF : Forall Q_ext l) by (apply Forall_forall; intros s _; exact (proj2 Free_ext_both s)).
  split; apply (FreeBlock_ext_aux l HF); [exact H|symmetry; exact H].
Qed.

(* nothing bound is ever free *)
Definition P_nb (e : expr) : Prop := forall bound x, FreeE bound e x -> ~ In x bound.
Definition Q_nb (s : stmt) : Prop := forall bound x, FreeS bound s x -> ~ In x bound.

Lemma FreeBlock_nb_aux : forall l, Forall Q_nb l -> forall bound x, FreeBlock bound l x -> ~ In x bound.
Proof.
  induction l as [|s l IH]; intros HF bound x H.
  - now apply FreeBlock_nil in H.
  - inversion HF as [|? ? Hs Hl]; subst. rewrite FreeBlock_cons_iff in H; destruct H as [H|H].
    + exact (Hs bound x H).
    + intros Hin. apply (IH Hl _ _ H). apply in_or_app. now right.
Qed.

Lemma scope_nb : forall name (bound : list str) x, ~ In x (counter_scope name bound) -> ~ In x bound.
Proof. intros [c|] bound x H Hin; apply H; [now right|exact Hin]. Qed.

Lemma Free_nb_both : (forall e, P_nb e) /\ (forall s, Q_nb s).
Proof.
  apply expr_stmt_ind'; unfold P_nb, Q_nb.
  - intros z bound x H. now apply FreeE_lit in H.
  - intros b bound x H. now apply FreeE_lit in H.
  - intros s bound x H. now apply FreeE_lit in H.
  - intros bound x H. now apply FreeE_lit in H.
  - intros y bound x H. rewrite FreeE_Var_iff in H; destruct H as [-> H]. exact H.
  - intros o a b Ha Hb bound x H. rewrite FreeE_Bin_iff in H; destruct H as [H|H]; eauto.
  - intros a b Ha Hb bound x H. rewrite FreeE_And_iff in H; destruct H as [H|H]; eauto.
  - intros a b Ha Hb bound x H. rewrite FreeE_Or_iff in H; destruct H as [H|H]; eauto.
  - intros a Ha bound x H. rewrite FreeE_Not_iff in H. eauto.
  - intros a Ha bound x H. rewrite FreeE_Neg_iff in H. eauto.
  - intros f l Hf Hl bound x H. rewrite FreeE_Call_iff in H; destruct H as [H|(a & Hin & H)]; [eauto|].
    rewrite Forall_forall in Hl. exact (Hl a Hin bound x H).
  - intros l Hl bound x H. rewrite FreeE_Self_iff in H; destruct H as (a & Hin & H).
    rewrite Forall_forall in Hl. exact (Hl a Hin bound x H).
  - intros ps body _ bound x H. rewrite FreeE_Fn_iff in H; destruct H as [_ H]. exact H.
  - intros a b Ha Hb bound x H. rewrite FreeE_NilOr_iff in H; destruct H as [H|H]; eauto.
  - intros a sp Ha bound x H. rewrite FreeE_Get_iff in H. eauto.
  - intros y e He bound x H. rewrite FreeS_Assign_iff in H. eauto.
  - intros y e He bound x H. rewrite FreeS_Modify_iff in H; destruct H as [[-> H]|H]; eauto.
  - intros y o e He bound x H. rewrite FreeS_OpAssign_iff in H; destruct H as [[-> H]|H]; eauto.
  - intros e He bound x H. rewrite FreeS_Print_iff in H. eauto.
  - intros e sp He bound x H. rewrite FreeS_Assert_iff in H. eauto.
  - intros e He bound x H. rewrite FreeS_Expr_iff in H. eauto.
  - intros c b Hc Hb bound x H. rewrite FreeS_If_iff in H; destruct H as [H|H]; [eauto|exact (FreeBlock_nb_aux b Hb _ _ H)].
  - intros c b e Hc Hb He bound x H. rewrite FreeS_IfElse_iff in H; destruct H as [H|[H|H]];
      [eauto|exact (FreeBlock_nb_aux b Hb _ _ H)|exact (FreeBlock_nb_aux e He _ _ H)].
  - intros c b n Hc Hb Hn bound x H. rewrite FreeS_IfElif_iff in H; destruct H as [H|[H|H]];
      [eauto|exact (FreeBlock_nb_aux b Hb _ _ H)|eauto].
  - intros c b Hc Hb bound x H. rewrite FreeS_While_iff in H; destruct H as [H|H]; [eauto|exact (FreeBlock_nb_aux b Hb _ _ H)].
  - intros a b incl step name collide body Ha Hb Hst Hbody bound x H.
    rewrite FreeS_From_iff in H; destruct H as [H|[H|[(-> & -> & H)|[H|(e & -> & H)]]]]; eauto.
    + apply (scope_nb name). exact (FreeBlock_nb_aux body Hbody _ _ H).
    + apply (scope_nb name). exact (Hst e eq_refl _ _ H).
  - intros bound x H. now apply FreeS_nothing in H.
  - intros bound x H. now apply FreeS_nothing in H.
  - intros [e|] He bound x H.
    + rewrite FreeS_Return_iff in H. exact (He e eq_refl _ _ H).
    + now apply FreeS_nothing in H.
Qed.

Theorem FreeE_not_bound : forall e bound x, FreeE bound e x -> ~ In x bound.
Proof. exact (proj1 Free_nb_both). Qed.
Theorem FreeS_not_bound : forall s bound x, FreeS bound s x -> ~ In x bound.
Proof. exact (proj2 Free_nb_both). Qed.
Theorem FreeBlock_not_bound : forall l bound x, FreeBlock bound l x -> ~ In x bound.
Proof.
  intros l. apply FreeBlock_nb_aux. apply Forall_forall. intros s _. exact (proj2 Free_nb_both s).
Qed.
(* in particular a parameter is never captured *)
Corollary params_not_captured : forall ps body x, In x ps -> ~ In x (free_vars ps body).
Proof. intros ps body x Hin H. apply free_vars_spec in H. exact (FreeBlock_not_bound _ _ _ H Hin). Qed.

(* the alternative reading of a COLLIDING counter ("it is the existing variable, not a new binding": the
   body is analysed under `bound` itself) describes the same set *)
Theorem colliding_counter_no_new_binding : forall bound a b incl step c body x,
  FreeS bound (SFrom a b incl step (Some c) true body) x <->
    FreeE bound a x \/ FreeE bound b x \/ (x = c /\ ~ In c bound)
    \/ FreeBlock bound body x \/ (exists e, step = Some e /\ FreeE bound e x).
Proof.
  intros bound a b incl step c body x. rewrite FreeS_From_iff. cbn [counter_scope].
  destruct (mem_str c bound) eqn:Ec.
  - (* c already local: c :: bound and bound are the same set *)
    apply mem_str_In in Ec.
    assert (Hx : In x (c :: bound) <-> In x bound).
    { cbn [In]. split; [intros [<-|H]; assumption|auto]. }
    rewrite (FreeBlock_ext body _ _ x Hx).
    split.
    + intros [H|[H|[(E & _ & H)|[H|(e & E & H)]]]]; auto.
      * inversion E; subst. contradiction.
      * right. right. right. right. exists e. split; [exact E|]. now apply (FreeE_ext e _ _ x Hx).
    + intros [H|[H|[(-> & H)|[H|(e & E & H)]]]]; auto.
      * contradiction.
      * right. right. right. right. exists e. split; [exact E|]. now apply (FreeE_ext e _ _ x Hx).
  - apply mem_str_false in Ec.
    destruct (str_eqb x c) eqn:Exc.
    + (* x = c is free by the counter rule on both sides *)
      apply str_eqb_iff in Exc. subst x. split; intros _.
      * right. right. left. auto.
      * right. right. left. auto.
    + assert (Hne : x <> c) by (intros ->; rewrite str_eqb_refl in Exc; discriminate).
      assert (Hx : In x (c :: bound) <-> In x bound).
      { cbn [In]. split; [intros [E|H]; [congruence|assumption]|auto]. }
      rewrite (FreeBlock_ext body _ _ x Hx).
      split.
      * intros [H|[H|[(E & _ & H)|[H|(e & E & H)]]]]; auto.
        -- inversion E; subst. congruence.
        -- right. right. right. right. exists e. split; [exact E|]. now apply (FreeE_ext e _ _ x Hx).
      * intros [H|[H|[(-> & H)|[H|(e & E & H)]]]]; auto.
        -- congruence.
        -- right. right. right. right. exists e. split; [exact E|]. now apply (FreeE_ext e _ _ x Hx).
Qed.

(* ================================================================ 5. non-vacuity *)
Module CaptureExamples.
Definition x_ : str := [120]%N.
Definition y_ : str := [121]%N.
Definition i_ : str := [105]%N.
Definition o_ : str := [111]%N.
Definition d_ : str := [100]%N.

(* fn() { print x; x = 1 }      x is read BEFORE it becomes local: free *)
Example read_then_assign : free_vars [] [SPrint (EVar x_); SAssign x_ (EInt 1)] = [x_].
Proof. vm_compute. reflexivity. Qed.
Example read_then_assign_free : FreeBlock [] [SPrint (EVar x_); SAssign x_ (EInt 1)] x_.
Proof. apply free_vars_spec. vm_compute. auto. Qed.
(* the same fact derived from the rules alone (no reference to the analysis) *)
Example read_then_assign_free_by_rules : FreeBlock [] [SPrint (EVar x_); SAssign x_ (EInt 1)] x_.
Proof. apply FB_Here, FS_Print, FE_Var. intros []. Qed.

(* fn() { x = 1; print x }      assigned first: local, the function is not a closure *)
Example assign_then_read : free_vars [] [SAssign x_ (EInt 1); SPrint (EVar x_)] = [].
Proof. vm_compute. reflexivity. Qed.
Example assign_then_read_closed : forall z, ~ FreeBlock [] [SAssign x_ (EInt 1); SPrint (EVar x_)] z.
Proof. apply no_free_vars_no_captures. vm_compute. reflexivity. Qed.

(* fn() { x = x + 1 }           the right-hand side still sees the outer x *)
Example self_increment : free_vars [] [SAssign x_ (EBin BAdd (EVar x_) (EInt 1))] = [x_].
Proof. vm_compute. reflexivity. Qed.

(* fn() { if true { x = 1 } print x }   a binding inside the if-block does not escape *)
Example if_binding_does_not_escape :
  free_vars [] [SIf (EBool true) [SAssign x_ (EInt 1)]; SPrint (EVar x_)] = [x_].
Proof. vm_compute. reflexivity. Qed.

(* fn() { from 0 to 3, i { print i } print i }   fresh counter: local in the loop only *)
Example counter_fresh :
  free_vars [] [SFrom (EInt 0) (EInt 3) false None (Some i_) false [SPrint (EVar i_)]] = []
  /\ free_vars [] [SFrom (EInt 0) (EInt 3) false None (Some i_) false [SPrint (EVar i_)]; SPrint (EVar i_)] = [i_].
Proof. vm_compute. split; reflexivity. Qed.
(* counter named like an outer variable (collide = true): it IS the outer variable, captured *)
Example counter_colliding_outer :
  free_vars [] [SFrom (EInt 0) (EInt 3) false None (Some i_) true [SPrint (EVar i_)]] = [i_].
Proof. vm_compute. reflexivity. Qed.
(* counter colliding with a parameter / earlier local: nothing captured *)
Example counter_colliding_local :
  free_vars [i_] [SFrom (EInt 0) (EInt 3) false None (Some i_) true [SPrint (EVar i_)]] = [].
Proof. vm_compute. reflexivity. Qed.

(* fn(y) { return fn() { return fn() { return x + y } } }   x is captured through two levels, y is a parameter *)
Definition inner2 : expr := EFn [] [SReturn (Some (EBin BAdd (EVar x_) (EVar y_)))].
Definition inner1 : expr := EFn [] [SReturn (Some inner2)].
Example two_levels : free_vars [y_] [SReturn (Some inner1)] = [x_]
  /\ free_vars [] [SReturn (Some inner2)] = [x_; y_]
  /\ FreeE [] inner1 x_ /\ FreeE [] inner1 y_ /\ ~ FreeE [y_] inner1 y_.
Proof.
  split; [vm_compute; reflexivity|]. split; [vm_compute; reflexivity|].
  split; [apply fv_sound_complete; vm_compute; auto|].
  split; [apply fv_sound_complete; vm_compute; auto|].
  rewrite <- fv_sound_complete. vm_compute. intros [H|[]]. discriminate H.
Qed.

(* fn(o) { return (o) or d }   the fallback operand is an ordinary use *)
Example nil_or_fallback : free_vars [o_] [SReturn (Some (ENilOr (EVar o_) (EVar d_)))] = [d_].
Proof. vm_compute. reflexivity. Qed.

(* modify x = 1 / x += 1 use x; print does not bind *)
Example modify_uses : free_vars [] [SModify x_ (EInt 1); SOpAssign y_ BAdd (EInt 1)] = [x_; y_].
Proof. vm_compute. reflexivity. Qed.

(* the emitted instruction *)
Example emitted_closed : forall path,
  strip (fst (cexpr path 0 (EFn [] [SAssign x_ (EInt 1); SPrint (EVar x_)]) {| fid := 0; lreg := 0; fbuf := [] |}))
  = [mkI OP_MAKE_FUNCTION [fn_name path 0]].
Proof. intros path. reflexivity. Qed.
Example emitted_open : forall path,
  strip (fst (cexpr path 0 (EFn [] [SPrint (EVar x_); SAssign x_ (EInt 1)]) {| fid := 0; lreg := 0; fbuf := [] |}))
  = [mkI OP_MAKE_FUNCTION [fn_name path 0; x_]].
Proof. intros path. reflexivity. Qed.
End CaptureExamples.
