(* C10 -- const_value_stable on the evaluation model of Const/Eval.v: in every execution of an accepted
   (closure-free) program, every read of a binding created by a `const` declaration returns the value the
   binding was created with. *)
From MS Require Import Const.Model Const.Spec Const.Proofs Const.Eval.

(* ---------------------------------------------------------------- invariants *)

(* every const binding present in the run-time stack is const for the static scopes *)
Definition B1 (ss : scopes) (st : stack) : Prop :=
  forall f r, In f st -> In r (fvars f) -> rconst r = true -> lookup_all ss (rname r) = Some true.

(* ... at every level: static scopes and run-time frames are pushed and popped together *)
Fixpoint InvS (ss : scopes) (st : stack) : Prop :=
  match ss, st with
  | s :: ss', f :: st' => B1 (s :: ss') (f :: st') /\ InvS ss' st'
  | [], [] => True
  | _, _ => False
  end.

(* const bindings still hold the value they were created with *)
Definition Cval (st : stack) : Prop :=
  forall f r, In f st -> In r (fvars f) -> rconst r = true -> rval r = rinit r.

Definition nofn (ss : scopes) : Prop := forall s, In s ss -> is_function s = false.

Lemma InvS_B1 : forall ss st, InvS ss st -> B1 ss st.
Proof.
  intros [|s ss] [|f st] H; cbn in H; try contradiction.
  - intros f r [].
  - exact (proj1 H).
Qed.

Lemma InvS_tl : forall ss st, InvS ss st -> InvS (tl ss) (tl st).
Proof. intros [|s ss] [|f st] H; cbn in *; try contradiction; auto. apply H. Qed.

Lemma Cval_tl : forall st, Cval st -> Cval (tl st).
Proof. intros [|f st] H; [exact H|]. intros g r Hg. apply H. right. exact Hg. Qed.

Lemma InvS_nonempty : forall ss st, InvS ss st -> st <> [] -> ss <> [].
Proof. intros [|s ss] [|f st] H N; cbn in H; try contradiction; try congruence. Qed.

Lemma InvS_ne : forall ss st, InvS ss st -> ss <> [] -> st <> [].
Proof. intros [|s ss] [|f st] H N; cbn in H; try contradiction; try congruence. Qed.

(* ---------------------------------------------------------------- static lookups *)

Lemma lookup_all_push_block : forall ss x, lookup_all (push KBlock ss) x = lookup_all ss x.
Proof. reflexivity. Qed.

Lemma lookup_all_add : forall s ss x c y,
  lookup_all (add (s :: ss) x c) y = if N.eqb x y then Some c else lookup_all (s :: ss) y.
Proof. intros. unfold lookup_all. cbn. destruct (N.eqb x y); reflexivity. Qed.

(* entries registered by `modify x = ..` (add_mod) are never const: `const modify` is refused *)
Definition modnc (ss : scopes) : Prop :=
  forall s b, In s ss -> In b (vars s) -> bmod b = true -> bconst b = false.

(* the static scopes of a closure-free run: no function scope, modify aliases are not const *)
Definition plain (ss : scopes) : Prop := nofn ss /\ modnc ss.

Lemma contains_decl_none : forall vs x, contains vs x = None -> contains_decl vs x = None.
Proof.
  induction vs as [|b r IH]; intros x H; [reflexivity|]. cbn [contains contains_decl] in *.
  destruct (N.eqb (bname b) x); [discriminate|]. apply IH. exact H.
Qed.

Lemma contains_decl_const : forall vs x,
  (forall b, In b vs -> bmod b = true -> bconst b = false) ->
  contains vs x = Some true -> contains_decl vs x = Some true.
Proof.
  induction vs as [|b r IH]; intros x Hm H; [discriminate|]. cbn [contains contains_decl] in *.
  destruct (N.eqb (bname b) x).
  - destruct (bmod b) eqn:Eb; [|exact H].
    rewrite (Hm b (or_introl eq_refl) Eb) in H. discriminate.
  - apply IH; [|exact H]. intros b' Hb'. apply Hm. right. exact Hb'.
Qed.

(* since /repo 2f6e39c has_name_been_mapped_in_function passes over the entries of `modify` statements, so it
   differs from the lexical lookup where such an entry shadows a declaration; a CONST the lexical lookup finds
   is a declaration (modnc), and without function scopes the function-local lookup finds it as well *)
Lemma plain_lookup_const : forall ss x, plain ss ->
  lookup_all ss x = Some true -> mapped_in_function ss x = Some true.
Proof.
  induction ss as [|s ss IH]; intros x [Hn Hm] H; [discriminate|].
  unfold lookup_all in *. cbn [lookup_skip mapped_in_function] in *.
  destruct (contains (vars s) x) as [c|] eqn:E.
  - injection H as ->. rewrite (contains_decl_const _ _ (fun b => Hm s b (or_introl eq_refl)) E). reflexivity.
  - rewrite (contains_decl_none _ _ E), (Hn s (or_introl eq_refl)). apply IH; [|exact H]. split.
    + intros s' Hs'. apply Hn. right. exact Hs'.
    + intros s' b Hs'. apply Hm. right. exact Hs'.
Qed.

Lemma plain_not_const : forall ss x, plain ss ->
  is_const (mapped_in_function ss x) = false -> is_const (lookup_all ss x) = false.
Proof.
  intros ss x Hp H. destruct (lookup_all ss x) as [[|]|] eqn:E; try reflexivity.
  rewrite (plain_lookup_const _ _ Hp E) in H. discriminate.
Qed.

Lemma nofn_add : forall ss x c, nofn ss -> nofn (add ss x c).
Proof.
  intros [|s ss] x c H; [exact H|]. intros s' [<-|Hs'].
  - unfold is_function. cbn. exact (H s (or_introl eq_refl)).
  - apply H. right. exact Hs'.
Qed.

Lemma nofn_add_mod : forall ss x, nofn ss -> nofn (add_mod ss x).
Proof.
  intros [|s ss] x H; [exact H|]. intros s' [<-|Hs'].
  - unfold is_function. cbn. exact (H s (or_introl eq_refl)).
  - apply H. right. exact Hs'.
Qed.

Lemma nofn_add_all : forall xs ss c, nofn ss -> nofn (add_all ss xs c).
Proof. induction xs; intros; cbn; auto using nofn_add. Qed.

Lemma nofn_push_block : forall ss, nofn ss -> nofn (push KBlock ss).
Proof. intros ss H s [<-|Hs]; [reflexivity|auto]. Qed.

Lemma tl_add : forall ss x c, tl (add ss x c) = tl ss.
Proof. intros [|s ss]; reflexivity. Qed.

Lemma tl_add_mod : forall ss x, tl (add_mod ss x) = tl ss.
Proof. intros [|s ss]; reflexivity. Qed.

Lemma add_mod_ne : forall ss x, ss <> [] -> add_mod ss x <> [].
Proof. intros [|s ss] x N; [congruence|discriminate]. Qed.

Lemma tl_add_all : forall xs ss c, tl (add_all ss xs c) = tl ss.
Proof. induction xs; intros; cbn; [reflexivity|]. rewrite IHxs. apply tl_add. Qed.

Lemma add_ne : forall ss x c, ss <> [] -> add ss x c <> [].
Proof. intros [|s ss] x c N; [congruence|discriminate]. Qed.

Lemma add_all_ne : forall xs ss c, ss <> [] -> add_all ss xs c <> [].
Proof. induction xs; intros; cbn; auto using add_ne. Qed.

Lemma effect_ne : forall ss s, ss <> [] -> effect ss s <> [].
Proof. intros ss [] N; cbn; auto using add_ne, add_all_ne. destruct m; auto using add_ne, add_mod_ne. Qed.

Lemma tl_effect : forall ss s, tl (effect ss s) = tl ss.
Proof. intros ss []; cbn; auto using tl_add, tl_add_all. destruct m; auto using tl_add, tl_add_mod. Qed.

Lemma nofn_effect : forall ss s, nofn ss -> nofn (effect ss s).
Proof. intros ss [] H; cbn; auto using nofn_add, nofn_add_all. destruct m; auto using nofn_add, nofn_add_mod. Qed.

Lemma modnc_add : forall ss x c, modnc ss -> modnc (add ss x c).
Proof.
  intros [|s ss] x c H; [exact H|]. intros s' b [<-|Hs'] Hb Hm.
  - cbn [vars] in Hb. destruct Hb as [<-|Hb]; [discriminate|]. exact (H s b (or_introl eq_refl) Hb Hm).
  - exact (H s' b (or_intror Hs') Hb Hm).
Qed.

Lemma modnc_add_mod : forall ss x, modnc ss -> modnc (add_mod ss x).
Proof.
  intros [|s ss] x H; [exact H|]. intros s' b [<-|Hs'] Hb Hm.
  - cbn [vars] in Hb. destruct Hb as [<-|Hb]; [reflexivity|]. exact (H s b (or_introl eq_refl) Hb Hm).
  - exact (H s' b (or_intror Hs') Hb Hm).
Qed.

Lemma modnc_add_all : forall xs ss c, modnc ss -> modnc (add_all ss xs c).
Proof. induction xs; intros; cbn; auto using modnc_add. Qed.

Lemma modnc_push_block : forall ss, modnc ss -> modnc (push KBlock ss).
Proof. intros ss H s b [<-|Hs] Hb Hm; [contradiction|exact (H s b Hs Hb Hm)]. Qed.

Lemma modnc_effect : forall ss s, modnc ss -> modnc (effect ss s).
Proof. intros ss [] H; cbn; auto using modnc_add, modnc_add_all. destruct m; auto using modnc_add, modnc_add_mod. Qed.

Lemma plain_add : forall ss x c, plain ss -> plain (add ss x c).
Proof. intros ss x c [Hn Hm]. split; [apply nofn_add|apply modnc_add]; assumption. Qed.

Lemma plain_push_block : forall ss, plain ss -> plain (push KBlock ss).
Proof. intros ss [Hn Hm]. split; [apply nofn_push_block|apply modnc_push_block]; assumption. Qed.

Lemma plain_effect : forall ss s, plain ss -> plain (effect ss s).
Proof. intros ss s [Hn Hm]. split; [apply nofn_effect|apply modnc_effect]; assumption. Qed.

(* ---------------------------------------------------------------- run-time store: value-only updates *)

Definition bsim (x : name) (r r' : rbind) : Prop :=
  rname r' = rname r /\ rconst r' = rconst r /\ rinit r' = rinit r /\ (rval r' = rval r \/ rname r = x).
Definition fsim (x : name) (f f' : frame) : Prop := Forall2 (bsim x) (fvars f) (fvars f').
Definition ssim (x : name) (st st' : stack) : Prop := Forall2 (fsim x) st st'.

Lemma bsim_refl : forall x vs, Forall2 (bsim x) vs vs.
Proof. induction vs; constructor; auto. unfold bsim. auto. Qed.

Lemma fsim_refl : forall x st, Forall2 (fsim x) st st.
Proof. induction st; constructor; auto. apply bsim_refl. Qed.

Lemma fr_set_sim : forall x v vs, Forall2 (bsim x) vs (fr_set vs x v).
Proof.
  induction vs as [|r t IH]; cbn; [constructor|].
  destruct (N.eqb (rname r) x) eqn:E.
  - constructor; [|apply bsim_refl]. unfold bsim. cbn. apply N.eqb_eq in E. auto.
  - constructor; [|exact IH]. unfold bsim. auto.
Qed.

Lemma rt_set_sim : forall x v st st', rt_set st x v = Some st' -> ssim x st st'.
Proof.
  induction st as [|f r IH]; intros st' H; cbn in H; [discriminate|].
  destruct (fr_find (fvars f) x).
  - injection H as <-. constructor; [|apply fsim_refl]. unfold fsim. cbn. apply fr_set_sim.
  - destruct (special f); [|discriminate]. destruct (rt_set r x v) as [r'|] eqn:E; [|discriminate].
    injection H as <-. constructor; [apply bsim_refl|]. apply IH. reflexivity.
Qed.

Lemma Forall2_In_r : forall {A B} (R : A -> B -> Prop) l l' b,
  Forall2 R l l' -> In b l' -> exists a, In a l /\ R a b.
Proof.
  intros A B R l l' b H. induction H as [|a b' l l' Hab _ IH]; intros Hin; [contradiction|].
  destruct Hin as [<-|Hin].
  - exists a. split; [left; reflexivity|exact Hab].
  - destruct (IH Hin) as [a' [Ha' Hr]]. exists a'. split; [right; exact Ha'|exact Hr].
Qed.

Lemma ssim_In : forall x st st' f' r', ssim x st st' -> In f' st' -> In r' (fvars f') ->
  exists f r, In f st /\ In r (fvars f) /\ bsim x r r'.
Proof.
  intros x st st' f' r' H Hf Hr.
  destruct (Forall2_In_r _ _ _ _ H Hf) as [f [Hfin Hfs]].
  destruct (Forall2_In_r _ _ _ _ Hfs Hr) as [r [Hrin Hb]].
  exists f, r. auto.
Qed.

Lemma ssim_B1 : forall x ss st st', ssim x st st' -> B1 ss st -> B1 ss st'.
Proof.
  intros x ss st st' H HB f' r' Hf Hr Hc.
  destruct (ssim_In _ _ _ _ _ H Hf Hr) as [f [r [Hfin [Hrin [Hn [Hk _]]]]]].
  rewrite Hn. apply (HB f r Hfin Hrin). congruence.
Qed.

Lemma ssim_InvS : forall x st st', ssim x st st' -> forall ss, InvS ss st -> InvS ss st'.
Proof.
  intros x st st' H. induction H as [|f f' st st' Hf Hs IH]; intros ss HI; [exact HI|].
  destruct ss as [|s ss]; cbn in HI; [contradiction|]. destruct HI as [HB HI]. cbn. split.
  - eapply ssim_B1; [|exact HB]. constructor; eauto.
  - apply IH. exact HI.
Qed.

Lemma ssim_Cval : forall x st st', ssim x st st' -> Cval st ->
  (forall f r, In f st -> In r (fvars f) -> rname r = x -> rconst r = false) -> Cval st'.
Proof.
  intros x st st' H HC Hx f' r' Hf Hr Hc.
  destruct (ssim_In _ _ _ _ _ H Hf Hr) as [f [r [Hfin [Hrin [Hn [Hk [Hi Hv]]]]]]].
  assert (Hcr : rconst r = true) by congruence.
  destruct Hv as [Hv|Hv].
  - rewrite Hv, Hi. apply (HC f r Hfin Hrin Hcr).
  - rewrite (Hx f r Hfin Hrin Hv) in Hcr. discriminate.
Qed.

Lemma no_const_named : forall ss st x, B1 ss st -> is_const (lookup_all ss x) = false ->
  forall f r, In f st -> In r (fvars f) -> rname r = x -> rconst r = false.
Proof.
  intros ss st x HB Hx f r Hf Hr Hn. destruct (rconst r) eqn:E; [|reflexivity].
  rewrite <- Hn in Hx. rewrite (HB f r Hf Hr E) in Hx. discriminate.
Qed.

Lemma rt_set_inv : forall ss st x v st', InvS ss st -> Cval st -> is_const (lookup_all ss x) = false ->
  rt_set st x v = Some st' -> InvS ss st' /\ Cval st'.
Proof.
  intros ss st x v st' HI HC Hx H. apply rt_set_sim in H. split.
  - eapply ssim_InvS; eauto.
  - eapply ssim_Cval; eauto. eapply no_const_named; eauto using InvS_B1.
Qed.

Lemma fr_find_In : forall vs x r, fr_find vs x = Some r -> In r vs.
Proof.
  induction vs as [|a t IH]; intros x r H; cbn in H; [discriminate|].
  destruct (N.eqb (rname a) x); [injection H as <-; left; reflexivity|right; eauto].
Qed.

Lemma rt_find_In : forall st x r, rt_find st x = Some r -> exists f, In f st /\ In r (fvars f).
Proof.
  induction st as [|f t IH]; intros x r H; cbn in H; [discriminate|].
  destruct (fr_find (fvars f) x) as [b|] eqn:E.
  - injection H as <-. exists f. split; [left; reflexivity|eapply fr_find_In; eauto].
  - destruct (special f); [|discriminate]. destruct (IH _ _ H) as [g [Hg Hr]]. exists g. split; [right|]; auto.
Qed.

(* inserting a binding into the top frame whose const flag the static scopes justify *)
Lemma insert_inv : forall s ss f st x v c,
  InvS (s :: ss) (f :: st) -> Cval (f :: st) -> (c = true -> lookup_all (s :: ss) x = Some true) ->
  InvS (s :: ss) (mkF (special f) (mkR x v c v :: fvars f) :: st) /\
  Cval (mkF (special f) (mkR x v c v :: fvars f) :: st).
Proof.
  intros s ss f st x v c [HB HI] HC Hc. split.
  - split; [|exact HI]. intros g r [<-|Hg] Hr Hk.
    + cbn in Hr. destruct Hr as [<-|Hr]; [cbn in *; auto|]. apply (HB f r (or_introl eq_refl) Hr Hk).
    + apply (HB g r (or_intror Hg) Hr Hk).
  - intros g r [<-|Hg] Hr Hk.
    + cbn in Hr. destruct Hr as [<-|Hr]; [reflexivity|]. apply (HC f r (or_introl eq_refl) Hr Hk).
    + apply (HC g r (or_intror Hg) Hr Hk).
Qed.

(* store_fast / unwrap_into of a name that is not statically const *)
Lemma reg_local_inv : forall ss st x v, InvS ss st -> Cval st -> is_const (lookup_all ss x) = false ->
  InvS ss (reg_local st x v false) /\ Cval (reg_local st x v false).
Proof.
  intros ss st x v HI HC Hx. destruct st as [|f st]; [auto|]. cbn.
  destruct (fr_find (fvars f) x) eqn:E.
  - assert (S : ssim x (f :: st) (mkF (special f) (fr_set (fvars f) x v) :: st)).
    { constructor; [|apply fsim_refl]. unfold fsim. cbn. apply fr_set_sim. }
    split; [eapply ssim_InvS; eauto|]. eapply ssim_Cval; eauto. eapply no_const_named; eauto using InvS_B1.
  - destruct ss as [|s ss]; [cbn in HI; contradiction|]. apply insert_inv; auto. discriminate.
Qed.

(* `store x` of a name the static scopes already know as non-const (a colliding loop counter) *)
Lemma reg_var_same_inv : forall ss st x v, InvS ss st -> Cval st -> is_const (lookup_all ss x) = false ->
  InvS ss (reg_var st x v false) /\ Cval (reg_var st x v false).
Proof.
  intros ss st x v HI HC Hx. unfold reg_var. destruct (rt_set st x v) as [st'|] eqn:E.
  - eapply rt_set_inv; eauto.
  - apply reg_local_inv; auto.
Qed.

(* the static scopes learn `x` (flag c) while no const binding named x exists at run time *)
Lemma add_inv : forall ss st x c, InvS ss st -> ss <> [] -> is_const (lookup_all ss x) = false ->
  InvS (add ss x c) st.
Proof.
  intros [|s ss] st x c HI N Hx; [congruence|]. destruct st as [|f st]; [cbn in HI; contradiction|].
  destruct HI as [HB HI]. cbn [add]. split; [|exact HI].
  intros g r Hg Hr Hk. change (mkS (kind s) (mkB x c :: vars s) :: ss) with (add (s :: ss) x c).
  rewrite lookup_all_add. destruct (N.eqb x (rname r)) eqn:E.
  - apply N.eqb_eq in E. symmetry in E. rewrite (no_const_named _ _ _ HB Hx g r Hg Hr E) in Hk. discriminate.
  - apply (HB g r Hg Hr Hk).
Qed.

(* `store x`: register_variable *)
Lemma reg_var_inv : forall ss st x v c, InvS ss st -> Cval st -> st <> [] ->
  is_const (lookup_all ss x) = false ->
  InvS (add ss x c) (reg_var st x v c) /\ Cval (reg_var st x v c).
Proof.
  intros ss st x v c HI HC N Hx. pose proof (InvS_nonempty _ _ HI N) as Ns. unfold reg_var.
  destruct (rt_set st x v) as [st'|] eqn:E.
  - destruct (rt_set_inv _ _ _ _ _ HI HC Hx E) as [HI' HC']. split; [apply add_inv; auto|exact HC'].
  - destruct st as [|f st]; [congruence|]. cbn in E. cbn.
    destruct (fr_find (fvars f) x) eqn:F; [discriminate|].
    pose proof (add_inv _ _ x c HI Ns Hx) as HA. destruct ss as [|s ss]; [congruence|].
    cbn [add] in *. apply insert_inv; auto.
    intros ->. change (mkS (kind s) (mkB x true :: vars s) :: ss) with (add (s :: ss) x true).
    rewrite lookup_all_add, N.eqb_refl. reflexivity.
Qed.

Lemma fr_del_In : forall vs x r, In r (fr_del vs x) -> In r vs.
Proof.
  induction vs as [|a t IH]; intros x r H; cbn in H; [contradiction|].
  destruct (N.eqb (rname a) x); [right; exact H|]. destruct H as [<-|H]; [left; reflexivity|right; eauto].
Qed.

Lemma del_local_inv : forall ss st x, InvS ss st -> Cval st -> InvS ss (del_local st x) /\ Cval (del_local st x).
Proof.
  intros ss st x HI HC. destruct st as [|f st]; [auto|]. destruct ss as [|s ss]; [cbn in HI; contradiction|].
  destruct HI as [HB HI]. cbn. split.
  - split; [|exact HI]. intros g r [<-|Hg] Hr Hk.
    + cbn in Hr. apply fr_del_In in Hr. apply (HB f r (or_introl eq_refl) Hr Hk).
    + apply (HB g r (or_intror Hg) Hr Hk).
  - intros g r [<-|Hg] Hr Hk.
    + cbn in Hr. apply fr_del_In in Hr. apply (HC f r (or_introl eq_refl) Hr Hk).
    + apply (HC g r (or_intror Hg) Hr Hk).
Qed.

(* entering a block: a fresh special frame under a fresh (possibly counter-holding) block scope *)
Lemma push_inv : forall ss st vs, InvS ss st -> Cval st ->
  (forall y, is_const (lookup_all ss y) = true -> lookup_all (mkS KBlock vs :: ss) y = Some true) ->
  InvS (mkS KBlock vs :: ss) (push_frame st) /\ Cval (push_frame st).
Proof.
  intros ss st vs HI HC Hv. split.
  - split; [|exact HI]. intros g r [<-|Hg] Hr Hk; [contradiction|].
    apply Hv. rewrite (InvS_B1 _ _ HI g r Hg Hr Hk). reflexivity.
  - intros g r [<-|Hg] Hr Hk; [contradiction|]. apply (HC g r Hg Hr Hk).
Qed.

(* ---------------------------------------------------------------- expressions *)

Theorem ev_inv : forall st e st1 l, ev st e st1 l ->
  forall ss0 ss, (forall x, lookup_all ss0 x = lookup_all ss x) -> InvS ss st -> Cval st ->
  check_expr cfg_fixed ss0 e = true -> InvS ss st1 /\ Cval st1 /\ Forall read_ok l.
Proof.
  induction 1; intros ss0 ss Heq HI HC Hchk.
  - auto.
  - auto.
  - split; [exact HI|]. split; [exact HC|]. constructor; [|constructor].
    destruct (rt_find_In _ _ _ H) as [f [Hf Hr]]. intro Hk. apply (HC f r Hf Hr Hk).
  - rewrite ce_bin in Hchk. apply andb_true_iff in Hchk as [Ha Hb].
    destruct (IHev1 _ _ Heq HI HC Ha) as [HI1 [HC1 L1]]. destruct (IHev2 _ _ Heq HI1 HC1 Hb) as [HI2 [HC2 L2]].
    split; [|split]; auto. apply Forall_app; auto.
  - rewrite ce_index in Hchk. apply andb_true_iff in Hchk as [Ha Hb].
    destruct (IHev1 _ _ Heq HI HC Ha) as [HI1 [HC1 L1]]. destruct (IHev2 _ _ Heq HI1 HC1 Hb) as [HI2 [HC2 L2]].
    split; [|split]; auto. apply Forall_app; auto.
  - rewrite ce_field in Hchk. eauto.
  - rewrite ce_call in Hchk. apply andb_true_iff in Hchk as [Ha Hb].
    destruct (IHev1 _ _ Heq HI HC Ha) as [HI1 [HC1 L1]]. destruct (IHev2 _ _ Heq HI1 HC1 Hb) as [HI2 [HC2 L2]].
    split; [|split]; auto. apply Forall_app; auto.
  - (* x op= r *)
    rewrite ce_opassign in Hchk. apply andb3 in Hchk as [_ [Hr Hc]].
    destruct (IHev _ _ Heq HI HC Hr) as [HI1 [HC1 L1]].
    apply negb_true_iff in Hc. rewrite Heq in Hc.
    destruct (rt_set_inv _ _ _ _ _ HI1 HC1 Hc H0) as [HI2 HC2]. auto.
  - (* a[i] op= r *)
    rewrite ce_opassign in Hchk. apply andb3 in Hchk as [Hl [Hr _]].
    destruct (IHev1 _ _ Heq HI HC Hr) as [HI1 [HC1 L1]]. destruct (IHev2 _ _ Heq HI1 HC1 Hl) as [HI2 [HC2 L2]].
    split; [|split]; auto. apply Forall_app; auto.
  - (* a.f op= r *)
    rewrite ce_opassign in Hchk. apply andb3 in Hchk as [Hl [Hr _]].
    destruct (IHev1 _ _ Heq HI HC Hr) as [HI1 [HC1 L1]]. destruct (IHev2 _ _ Heq HI1 HC1 Hl) as [HI2 [HC2 L2]].
    split; [|split]; auto. apply Forall_app; auto.
  - (* x ?= r *)
    rewrite ce_unwrap in Hchk. apply andb3 in Hchk as [_ [Hr Hc]].
    destruct (IHev _ _ Heq HI HC Hr) as [HI1 [HC1 L1]].
    cbn [chk_unwrap cfg_fixed andb] in Hc. apply negb_true_iff in Hc. rewrite Heq in Hc.
    destruct (reg_var_same_inv _ _ x v HI1 HC1 Hc) as [HI2 HC2]. auto.
Qed.

(* ---------------------------------------------------------------- statements, blocks, loops *)

Lemma check_stmt_effect : forall ss s ss', check_stmt cfg_fixed ss s = Some ss' -> ss' = effect ss s.
Proof. intros ss s ss' H. destruct check_sound_mut as [_ [HS _]]. exact (proj1 (HS s ss ss' H)). Qed.

Lemma block_scope_lookup : forall ss x y,
  is_const (lookup_all ss x) = false -> is_const (lookup_all ss y) = true ->
  lookup_all (mkS KBlock [mkB x false] :: ss) y = Some true.
Proof.
  intros ss x y Hx Hy. unfold lookup_all. cbn. destruct (N.eqb x y) eqn:E.
  - apply N.eqb_eq in E. subst. unfold lookup_all in *. rewrite Hx in Hy. discriminate.
  - unfold lookup_all in Hy. destruct (lookup_skip ss y 0) as [[|]|]; try discriminate. reflexivity.
Qed.

Lemma empty_scope_lookup : forall ss y,
  is_const (lookup_all ss y) = true -> lookup_all (mkS KBlock [] :: ss) y = Some true.
Proof.
  intros ss y Hy. unfold lookup_all in *. cbn. destruct (lookup_skip ss y 0) as [[|]|]; try discriminate. reflexivity.
Qed.

Definition body_scopes (ss : scopes) (cn : option name) : scopes :=
  match cn with Some x => add (push KBlock ss) x false | None => push KBlock ss end.

Theorem exec_inv :
  (forall st s st1 l, ex st s st1 l ->
     forall ss ss', plain ss -> InvS ss st -> Cval st -> st <> [] -> check_stmt cfg_fixed ss s = Some ss' ->
     InvS ss' st1 /\ Cval st1 /\ Forall read_ok l) /\
  (forall st b st1 l, exb st b st1 l ->
     forall ss ss', plain ss -> InvS ss st -> Cval st -> st <> [] -> check_block cfg_fixed ss b = Some ss' ->
     (exists ss'', tl ss'' = tl ss /\ InvS ss'' st1) /\ Cval st1 /\ Forall read_ok l) /\
  (forall st cn b st3 l, iter st cn b st3 l ->
     forall ss ssb, plain ss -> InvS ss st -> Cval st -> st <> [] ->
     check_block cfg_fixed (body_scopes ss cn) b = Some ssb ->
     (forall x, cn = Some x -> is_const (lookup_all ss x) = false) ->
     InvS ss st3 /\ Cval st3 /\ Forall read_ok l).
Proof.
  apply exec_mutind.
  - (* x = rhs *)
    intros st c x rhs st1 l v Hev ss ss' Hn HI HC Nst. rewrite cs_assign. cbn [andb].
    rewrite andb_false_r.
    destruct (check_expr cfg_fixed ss rhs) eqn:Hr; [|discriminate].
    destruct (assign_checks cfg_fixed (mapped_in_function ss x) c false x (add ss x c)) eqn:Ha; [|discriminate].
    intro H. injection H as <-.
    destruct (ev_inv _ _ _ _ Hev ss ss (fun _ => eq_refl) HI HC Hr) as [HI1 [HC1 L1]].
    apply assign_checks_not_const in Ha. apply (plain_not_const _ _ Hn) in Ha.
    pose proof (InvS_ne _ _ HI1 (InvS_nonempty _ _ HI Nst)) as N1.
    destruct (reg_var_inv _ _ x v c HI1 HC1 N1 Ha) as [HI2 HC2]. auto.
  - (* p = rhs through a path *)
    intros st p rhs st1 st2 l1 l2 H1 H2 ss ss' Hn HI HC Nst. rewrite cs_reassign.
    destruct (check_expr cfg_fixed ss p && negb (root_const ss p) && check_expr cfg_fixed ss rhs) eqn:Hc; [|discriminate].
    intro H. injection H as <-. apply andb3 in Hc as [Hp [_ Hr]].
    destruct (ev_inv _ _ _ _ H1 ss ss (fun _ => eq_refl) HI HC Hr) as [HI1 [HC1 L1]].
    destruct (ev_inv _ _ _ _ H2 ss ss (fun _ => eq_refl) HI1 HC1 Hp) as [HI2 [HC2 L2]].
    split; [|split]; auto. apply Forall_app; auto.
  - (* expression statement *)
    intros st e st1 l H1 ss ss' Hn HI HC Nst. rewrite cs_expr.
    destruct (check_expr cfg_fixed ss e) eqn:He; [|discriminate]. intro H. injection H as <-.
    exact (ev_inv _ _ _ _ H1 ss ss (fun _ => eq_refl) HI HC He).
  - (* if, then branch *)
    intros st c t e st1 st2 l1 l2 H1 H2 IH ss ss' Hn HI HC Nst. rewrite cs_if.
    destruct (check_expr cfg_fixed (push KBlock ss) c) eqn:Hc; [|discriminate].
    destruct (check_block cfg_fixed (push KBlock ss) t) as [s1|] eqn:Ht; [|discriminate].
    destruct (check_block cfg_fixed (push KBlock ss) e) as [s2|] eqn:He; [|discriminate].
    intro H. injection H as <-.
    destruct (ev_inv _ _ _ _ H1 (push KBlock ss) ss (lookup_all_push_block ss) HI HC Hc) as [HI1 [HC1 L1]].
    destruct (push_inv ss st1 [] HI1 HC1 (empty_scope_lookup ss)) as [HI2 HC2].
    destruct (IH (push KBlock ss) s1 (plain_push_block _ Hn) HI2 HC2 ltac:(discriminate) Ht) as [[ss'' [Ht' HI3]] [HC3 L2]].
    split; [|split].
    + apply InvS_tl in HI3. rewrite Ht' in HI3. exact HI3.
    + apply Cval_tl. exact HC3.
    + apply Forall_app; auto.
  - (* if, else branch *)
    intros st c t e st1 st2 l1 l2 H1 H2 IH ss ss' Hn HI HC Nst. rewrite cs_if.
    destruct (check_expr cfg_fixed (push KBlock ss) c) eqn:Hc; [|discriminate].
    destruct (check_block cfg_fixed (push KBlock ss) t) as [s1|] eqn:Ht; [|discriminate].
    destruct (check_block cfg_fixed (push KBlock ss) e) as [s2|] eqn:He; [|discriminate].
    intro H. injection H as <-.
    destruct (ev_inv _ _ _ _ H1 (push KBlock ss) ss (lookup_all_push_block ss) HI HC Hc) as [HI1 [HC1 L1]].
    destruct (push_inv ss st1 [] HI1 HC1 (empty_scope_lookup ss)) as [HI2 HC2].
    destruct (IH (push KBlock ss) s2 (plain_push_block _ Hn) HI2 HC2 ltac:(discriminate) He) as [[ss'' [Ht' HI3]] [HC3 L2]].
    split; [|split].
    + apply InvS_tl in HI3. rewrite Ht' in HI3. exact HI3.
    + apply Cval_tl. exact HC3.
    + apply Forall_app; auto.
  - (* while: condition false *)
    intros st c b st1 l1 H1 ss ss' Hn HI HC Nst. rewrite cs_while.
    destruct (check_expr cfg_fixed (push KBlock ss) c) eqn:Hc; [|discriminate].
    destruct (check_block cfg_fixed (push KBlock ss) b) as [s1|] eqn:Hb; [|discriminate].
    intro H. injection H as <-.
    exact (ev_inv _ _ _ _ H1 (push KBlock ss) ss (lookup_all_push_block ss) HI HC Hc).
  - (* while: one more iteration *)
    intros st c b st1 st2 st3 l1 l2 l3 H1 H2 IHb H3 IHw ss ss' Hn HI HC Nst Hchk.
    pose proof Hchk as Hchk0. rewrite cs_while in Hchk.
    destruct (check_expr cfg_fixed (push KBlock ss) c) eqn:Hc; [|discriminate].
    destruct (check_block cfg_fixed (push KBlock ss) b) as [s1|] eqn:Hb; [|discriminate].
    injection Hchk as <-.
    destruct (ev_inv _ _ _ _ H1 (push KBlock ss) ss (lookup_all_push_block ss) HI HC Hc) as [HI1 [HC1 L1]].
    destruct (push_inv ss st1 [] HI1 HC1 (empty_scope_lookup ss)) as [HI2 HC2].
    destruct (IHb (push KBlock ss) s1 (plain_push_block _ Hn) HI2 HC2 ltac:(discriminate) Hb) as [[ss'' [Ht' HI3]] [HC3 L2]].
    apply InvS_tl in HI3. rewrite Ht' in HI3. cbn [tl push] in HI3.
    pose proof (InvS_ne _ _ HI3 (InvS_nonempty _ _ HI Nst)) as N2.
    destruct (IHw ss ss Hn HI3 (Cval_tl _ HC3) N2 Hchk0) as [HI4 [HC4 L3]].
    split; [|split]; auto. apply Forall_app; split; auto. apply Forall_app; auto.
  - (* from loop *)
    intros st lo hi cn b st1 st1' st2 st3 st4 l1 l2 l3 H1 Hcn H2 H3 IHit Hdel ss ss' Hn HI HC Nst. rewrite cs_from.
    destruct (check_expr cfg_fixed (push KBlock ss) lo && check_expr cfg_fixed (push KBlock ss) hi) eqn:Hlh; [|discriminate].
    apply andb_true_iff in Hlh as [Hlo Hhi].
    destruct (check_block cfg_fixed (match cn with Some x => add (push KBlock ss) x false | None => push KBlock ss end) b)
      as [sb|] eqn:Hb; [|discriminate].
    intro Hchk.
    assert (Hcx : forall x, cn = Some x -> is_const (lookup_all ss x) = false).
    { intros x ->. cbn [chk_counter cfg_fixed andb] in Hchk. apply (plain_not_const _ _ Hn).
      destruct (is_const (mapped_in_function ss x)); [discriminate|reflexivity]. }
    assert (Hss : ss' = ss).
    { destruct cn as [x|]; [|injection Hchk as <-; reflexivity].
      cbn [chk_counter cfg_fixed andb] in Hchk.
      destruct (is_const (mapped_in_function ss x)); [discriminate|]. injection Hchk as <-. reflexivity. }
    subst ss'.
    destruct (ev_inv _ _ _ _ H1 (push KBlock ss) ss (lookup_all_push_block ss) HI HC Hlo) as [HI1 [HC1 L1]].
    assert (HI1' : InvS ss st1' /\ Cval st1').
    { destruct cn as [x|]; [|subst; auto]. destruct Hcn as [v [->| ->]]; [apply reg_local_inv|apply reg_var_same_inv]; auto. }
    destruct HI1' as [HI1' HC1'].
    destruct (ev_inv _ _ _ _ H2 (push KBlock ss) ss (lookup_all_push_block ss) HI1' HC1' Hhi) as [HI2 [HC2 L2]].
    pose proof (InvS_ne _ _ HI2 (InvS_nonempty _ _ HI Nst)) as N2.
    destruct (IHit ss sb Hn HI2 HC2 N2 Hb Hcx) as [HI3 [HC3 L3]].
    assert (H4 : InvS ss st4 /\ Cval st4).
    { destruct cn as [x|]; [|subst; auto]. destruct Hdel as [->|[_ ->]]; [auto|]. apply del_local_inv; auto. }
    destruct H4 as [HI4 HC4]. split; [|split]; auto. apply Forall_app; split; auto. apply Forall_app; auto.
  - (* empty block *)
    intros st ss ss' Hn HI HC Nst H. split; [|split]; auto. exists ss. auto.
  - (* early exit *)
    intros st s b ss ss' Hn HI HC Nst H. split; [|split]; auto. exists ss. auto.
  - (* s; b *)
    intros st s b st1 st2 l1 l2 H1 IHs H2 IHb ss ss' Hn HI HC Nst. rewrite cb_cons.
    destruct (check_stmt cfg_fixed ss s) as [ss1|] eqn:Hs; [|discriminate]. intro Hb.
    destruct (IHs ss ss1 Hn HI HC Nst Hs) as [HI1 [HC1 L1]].
    pose proof (check_stmt_effect _ _ _ Hs) as ->.
    pose proof (InvS_ne _ _ HI1 (effect_ne _ s (InvS_nonempty _ _ HI Nst))) as N1.
    destruct (IHb (effect ss s) ss' (plain_effect _ _ Hn) HI1 HC1 N1 Hb) as [[ss'' [Ht HI2]] [HC2 L2]].
    split; [|split]; auto.
    + exists ss''. split; [|exact HI2]. rewrite Ht. apply tl_effect.
    + apply Forall_app; auto.
  - (* loop: stop *)
    intros st cn b ss ssb Hn HI HC Nst Hb Hcx. auto.
  - (* loop: one more iteration *)
    intros st cn b st1 st2 st3 l1 l3 H1 IHb Hbump H3 IHit ss ssb Hn HI HC Nst Hb Hcx.
    assert (Hpush : InvS (body_scopes ss cn) (push_frame st) /\ Cval (push_frame st)).
    { destruct cn as [x|]; cbn [body_scopes push add].
      - apply push_inv; auto. intros y Hy. apply block_scope_lookup; auto.
      - apply push_inv; auto. apply empty_scope_lookup. }
    destruct Hpush as [HI1 HC1].
    assert (Hnb : plain (body_scopes ss cn)).
    { destruct cn; cbn [body_scopes]; [apply plain_add|]; apply plain_push_block; exact Hn. }
    destruct (IHb (body_scopes ss cn) ssb Hnb HI1 HC1 ltac:(discriminate) Hb) as [[ss'' [Ht HI2]] [HC2 L1]].
    apply InvS_tl in HI2. rewrite Ht in HI2.
    assert (Etl : tl (body_scopes ss cn) = ss) by (destruct cn; reflexivity). rewrite Etl in HI2.
    assert (HB : InvS ss st2 /\ Cval st2).
    { destruct cn as [x|]; cbn [bump] in Hbump.
      - destruct Hbump as [v Hv]. eapply rt_set_inv; eauto using Cval_tl.
      - subst st2. auto using Cval_tl. }
    destruct HB as [HI3 HC3].
    pose proof (InvS_ne _ _ HI3 (InvS_nonempty _ _ HI Nst)) as N2.
    destruct (IHit ss ssb Hn HI3 HC3 N2 Hb Hcx) as [HI4 [HC4 L3]].
    split; [|split]; auto. apply Forall_app; auto.
Qed.

(* C10, semantic half on the evaluation model: in ANY execution of an accepted closure-free program (any
   branch choices, any number of loop iterations, any values written, early exits included), every read of
   a binding created by a `const` declaration yields the value it was created with. *)
Theorem const_value_stable : forall p st l,
  check cfg_fixed p = true -> exb module_frame p st l -> Forall read_ok l.
Proof.
  intros p st l Hc He. unfold check in Hc.
  destruct (check_block cfg_fixed file_scope p) as [ss'|] eqn:Hb; [|discriminate].
  destruct exec_inv as [_ [HB _]].
  refine (proj2 (proj2 (HB _ _ _ _ He file_scope ss' _ _ _ _ Hb))).
  - split; [intros s [<-|[]]; reflexivity|intros s b [<-|[]] []].
  - cbn. split; [|exact I]. intros f r [<-|[]] [].
  - intros f r [<-|[]] [].
  - discriminate.
Qed.

(* ---------------------------------------------------------------- the statement is not vacuous *)

(* const a = ..; b = ..; b += a; a     -- accepted; an execution exists and reads the const *)
Definition p_ok : block :=
  BCons (SAssign true false a ELit) (BCons (SAssign false false b ELit)
  (BCons (SExpr (EOpAssign (EVar b) (EVar a))) (BCons (SExpr (EVar a)) BNil))).

Example p_ok_runs :
  check cfg_fixed p_ok = true /\
  exists st l, exb module_frame p_ok st l /\ l = [mkR a 5 true 5; mkR a 5 true 5].
Proof.
  split; [vm_compute; reflexivity|].
  eexists. eexists. split.
  - unfold p_ok.
    eapply exb_cons; [eapply ex_assign with (v := 5%N); apply ev_lit|].
    eapply exb_cons; [eapply ex_assign with (v := 1%N); apply ev_lit|].
    eapply exb_cons.
    { apply ex_expr. eapply ev_opassign_var with (v := 9%N); [apply ev_var; vm_compute; reflexivity|].
      vm_compute. reflexivity. }
    eapply exb_cons; [apply ex_expr; apply ev_var; vm_compute; reflexivity|apply exb_nil].
  - reflexivity.
Qed.

(* on the tree BEFORE the fix the counter program is accepted and the model really overwrites the const:
   const a = ..; from .. to .., a {}; a *)
Definition p_counter_read : block :=
  BCons (SAssign true false a ELit) (BCons (SFrom ELit ELit (Some a) BNil) (BCons (SExpr (EVar a)) BNil)).

Example head_value_changes :
  check cfg_head p_counter_read = true /\ check cfg_fixed p_counter_read = false /\
  exists st l, exb module_frame p_counter_read st l /\ ~ Forall read_ok l.
Proof.
  split; [vm_compute; reflexivity|]. split; [vm_compute; reflexivity|].
  eexists. eexists. split.
  - unfold p_counter_read.
    eapply exb_cons; [eapply ex_assign with (v := 5%N); apply ev_lit|].
    eapply exb_cons.
    { eapply ex_from with (cn := Some a).
      - apply ev_lit.
      - exists 0%N. left. reflexivity.
      - apply ev_lit.
      - apply it_stop.
      - left. reflexivity. }
    eapply exb_cons; [apply ex_expr; apply ev_var; vm_compute; reflexivity|apply exb_nil].
  - cbn. intro H. inversion H as [|r l Hr _]; subst. unfold read_ok in Hr. cbn in Hr.
    specialize (Hr eq_refl). discriminate.
Qed.

(* the same for `?=` *)
Definition p_unwrap_read : block :=
  BCons (SAssign true false a ELit) (BCons (SAssign false false b ELit)
  (BCons (SIf (EUnwrap (EVar a) (EVar b)) BNil BNil) (BCons (SExpr (EVar a)) BNil))).

Example head_value_changes_unwrap :
  check cfg_head p_unwrap_read = true /\ check cfg_fixed p_unwrap_read = false /\
  exists st l, exb module_frame p_unwrap_read st l /\ ~ Forall read_ok l.
Proof.
  split; [vm_compute; reflexivity|]. split; [vm_compute; reflexivity|].
  eexists. eexists. split.
  - unfold p_unwrap_read.
    eapply exb_cons; [eapply ex_assign with (v := 5%N); apply ev_lit|].
    eapply exb_cons; [eapply ex_assign with (v := 7%N); apply ev_lit|].
    eapply exb_cons.
    { eapply ex_if_then; [|apply exb_nil].
      eapply ev_unwrap with (v := 7%N). apply ev_var. vm_compute. reflexivity. }
    eapply exb_cons; [apply ex_expr; apply ev_var; vm_compute; reflexivity|apply exb_nil].
  - cbn. intro H. inversion H as [|r l Hr Hl]; subst. inversion Hl as [|r2 l2 Hr2 _]; subst.
    unfold read_ok in Hr2. cbn in Hr2. specialize (Hr2 eq_refl). discriminate.
Qed.
