(* C10 -- model of the compiler's per-form `const` checks.

   Mirrors (file: function) of /repo/compiler/src:
     scope.rs      Scopes (a stack of Scope{variables, ty}), Scope::contains, add_dependency (HashSet::replace)
     parser.rs     has_name_been_mapped_in_function, get_ident_from_name_local,
                   get_dependency_flags_from_name[_skip_n], has_name_been_mapped
     ast/assignment.rs             Parser::assignment (did_exist_before, can_modify_if_applicable, flag validation)
     ast/assignment/*.rs           assignment_no_type / assignment_type / assignment_unpack
     ast/reassignment.rs           parse_path (is_const of the path root), Parser::reassignment
     ast/math_expr.rs              Expr::for_type, BinOp arm (op-assign, `?=`), parse_expr primary (undeclared variable)
     ast/number_loop.rs            Parser::number_loop (counter, name_is_collision)
     ast/if_statement.rs, while_loop.rs, function.rs, class.rs, class/*.rs, import.rs   (scope pushes, names bound)

   The model abstracts from types and values: a program is the tree of declarations, write forms and
   scopes.  Only const-ness, name resolution and "undeclared variable" are modelled; every other
   compile-time error (types, arity...) is outside (the tie only feeds otherwise valid programs).

   `cfg` switches the checks that the tree lacked before the fixes `const-*.diff` (DESIGN F15 + modify-through-shadow):
   the theorems are about `cfg_fixed`; `cfg_head` is kept to prove that each check is necessary. *)
From Coq Require Export List NArith Bool.
Export ListNotations.

Definition name := N.

(* ---------------------------------------------------------------- scopes (scope.rs) *)

Inductive skind := KFile | KFunction | KBlock | KClass.

(* bmod: the entry was registered by `modify x = ..` (Ident::is_modify_alias): an alias of the captured
   variable, not a declaration of a variable of the function it sits in *)
Record binding := mkBind { bname : name; bconst : bool; bmod : bool }.
Definition mkB (x : name) (c : bool) : binding := mkBind x c false.
Record scope := mkS { kind : skind; vars : list binding }.
Definition scopes := list scope.            (* head = innermost (the Vec's last element) *)

Definition is_function (s : scope) : bool := match kind s with KFunction => true | _ => false end.

(* Scope::contains: the HashSet holds at most one Ident per name (add_dependency = replace);
   a list whose head shadows older entries is the same map *)
Fixpoint contains (vs : list binding) (x : name) : option bool :=
  match vs with
  | [] => None
  | b :: r => if N.eqb (bname b) x then Some (bconst b) else contains r x
  end.

(* Scopes::add_variable: into the innermost scope *)
Definition add (ss : scopes) (x : name) (c : bool) : scopes :=
  match ss with
  | [] => []
  | s :: r => mkS (kind s) (mkB x c :: vars s) :: r
  end.

(* the entry of a `modify x = ..` statement (never const: `const modify` is refused) *)
Definition add_mod (ss : scopes) (x : name) : scopes :=
  match ss with
  | [] => []
  | s :: r => mkS (kind s) (mkBind x false true :: vars s) :: r
  end.

(* Scope::contains filtered by !is_modify_alias: the DECLARATION of x in this scope, if any *)
Fixpoint contains_decl (vs : list binding) (x : name) : option bool :=
  match vs with
  | [] => None
  | b :: r => if N.eqb (bname b) x then (if bmod b then None else Some (bconst b)) else contains_decl r x
  end.

Fixpoint add_all (ss : scopes) (xs : list name) (c : bool) : scopes :=
  match xs with [] => ss | x :: r => add_all (add ss x c) r c end.

Definition push (k : skind) (ss : scopes) : scopes := mkS k [] :: ss.

(* AssocFileData::has_name_been_mapped_in_function: innermost first, stops after the function scope *)
Fixpoint mapped_in_function (ss : scopes) (x : name) : option bool :=
  match ss with
  | [] => None
  | s :: r => match contains_decl (vars s) x with        (* since /repo 2f6e39c: entries of `modify x = ..` are passed over *)
              | Some c => Some c
              | None => if is_function s then None else mapped_in_function r x
              end
  end.

(* get_dependency_flags_from_name_skip_n (the const flag of the Ident found) *)
Fixpoint lookup_skip (ss : scopes) (x : name) (skip : nat) : option bool :=
  match ss with
  | [] => None
  | s :: r => match skip with
              | O => match contains (vars s) x with Some c => Some c | None => lookup_skip r x O end
              | S k => lookup_skip r x k
              end
  end.

(* get_dependency_flags_from_name_and_scopes_plus_skip with BOTH results: the const flag of the Ident
   found and `is_callback` = a function scope was passed before it (the flag is raised for skipped
   scopes as well: "should come after we check the contents of a scope") *)
Fixpoint lookup_skip_cb (ss : scopes) (x : name) (skip : nat) (cb : bool) : option (bool * bool) :=
  match ss with
  | [] => None
  | s :: r => match skip with
              | O => match contains (vars s) x with
                     | Some c => Some (c, cb)
                     | None => lookup_skip_cb r x O (cb || is_function s)
                     end
              | S k => lookup_skip_cb r x k (cb || is_function s)
              end
  end.

(* AssocFileData::get_declaration_flags_from_name_skip_n: the same walk over declarations only *)
Fixpoint lookup_decl_cb (ss : scopes) (x : name) (skip : nat) (cb : bool) : option (bool * bool) :=
  match ss with
  | [] => None
  | s :: r => match skip with
              | O => match contains_decl (vars s) x with
                     | Some c => Some (c, cb)
                     | None => lookup_decl_cb r x O (cb || is_function s)
                     end
              | S k => lookup_decl_cb r x k (cb || is_function s)
              end
  end.

(* get_dependency_flags_from_name / has_name_been_mapped *)
Definition lookup_all (ss : scopes) (x : name) : option bool := lookup_skip ss x O.

(* get_ident_from_name_local *)
Definition lookup_local (ss : scopes) (x : name) : option bool :=
  match ss with [] => None | s :: _ => contains (vars s) x end.

Definition is_some {A} (o : option A) : bool := match o with Some _ => true | None => false end.
Definition is_const (o : option bool) : bool := match o with Some true => true | _ => false end.

(* ---------------------------------------------------------------- syntax *)

Inductive expr :=
| ELit                                   (* literal / nil / anything without names *)
| EVar (x : name)
| ESelf                                  (* `self`, `Self`: resolved without a scope lookup *)
| EBin (a b : expr)                      (* any non-assigning operator, list/map literal, argument list *)
| EIndex (a i : expr)                    (* a[i] *)
| EField (a : expr)                      (* a.f  /  a.f(..) with the arguments in an EBin *)
| ECall (f args : expr)
| EOpAssign (l r : expr)                 (* l += r (and -= *= /= %=) *)
| EUnwrap (l r : expr)                   (* l ?= r *)
| EFn (params : list name) (body : block)
with stmt :=
| SAssign (c m : bool) (x : name) (rhs : expr)      (* [const] [modify] x [: T] = rhs *)
| SUnpack (c : bool) (xs : list name) (rhs : expr)  (* [const] [x, y, ..] = rhs *)
| SReassign (l : expr) (rhs : expr)                 (* a[i] = rhs / a.f = rhs : l is the path *)
| SExpr (e : expr)                                  (* expression statement, print, assert, return *)
| SIf (c : expr) (t : block) (e : block)            (* no else = empty block *)
| SWhile (c : expr) (b : block)
| SFrom (lo hi : expr) (counter : option name) (b : block)
| SClass (x : name) (members : list name) (methods : block)   (* methods: SExpr (EFn ..) each *)
| SImport (m : name)                                (* import m *)
| SImportNames (xs : list name)                     (* import x, y from m *)
with block :=
| BNil
| BCons (s : stmt) (b : block).

Scheme expr_mut := Induction for expr Sort Prop
  with stmt_mut := Induction for stmt Sort Prop
  with block_mut := Induction for block Sort Prop.
Combined Scheme syntax_mutind from expr_mut, stmt_mut, block_mut.

(* the variable at the root of an assignable path: a, a[i], a.f.g, ... (parse_path / math_expr.rs assignment_roots).
   On the forms of this AST assignment_roots yields at most this one name; the forms it follows in addition
   (`get a`, `(a) or b`: fixes/opassign-through-get-or-const.diff) are not part of the mini-language - they are
   compared with the binary by vlib/c10.py deep_path_cases (specification only). *)
Fixpoint root (e : expr) : option name :=
  match e with
  | EVar x => Some x
  | EIndex a _ => root a
  | EField a => root a
  | _ => None
  end.

Definition root_const (ss : scopes) (e : expr) : bool :=
  match root e with Some x => is_const (lookup_all ss x) | None => false end.

(* ---------------------------------------------------------------- which checks exist *)

Record cfg := mkCfg {
  chk_unwrap : bool;      (* math_expr.rs: `?=` on a const name *)
  chk_counter : bool;     (* number_loop.rs: counter collides with a const *)
  chk_pathop : bool;      (* math_expr.rs: a[i] op= v / a.f op= v through a const root *)
  chk_modify_cb : bool;   (* assignment.rs can_modify_if_applicable: the target of `modify` must be a CAPTURED
                             variable (is_callback), not a local of the current function that shadows it *)
  mod_through : bool      (* .. and is looked up among DECLARATIONS: entries of earlier `modify` statements are
                             passed over (fixes/modify-after-modify-regression.diff) *)
}.
Definition cfg_fixed := mkCfg true true true true true.
Definition cfg_head := mkCfg false false false false false.        (* tree before fixes/const-*.diff *)
Definition cfg_pre_modify := mkCfg true true true false false.     (* tree before const-modify-through-shadow *)
Definition cfg_745 := mkCfg true true true true false.             (* /repo 745d438: a second modify is refused *)

(* ---------------------------------------------------------------- the compiler's checks *)

Section Check.
Variable g : cfg.

(* Parser::assignment for a single identifier, after the variant parsed the right-hand side.
   did  = did_exist_before (computed BEFORE the new Ident is linked into the scope)
   ss'  = scopes AFTER the new Ident (const flag c) was linked into the innermost scope *)
Definition assign_checks (did : option bool) (c m : bool) (x : name) (ss' : scopes) : bool :=
  (* previous_ident.is_const() -> "attempting to reassign to a const variable" *)
  if is_const did then false else
  let requires_check := is_some did || m in
  (* can_modify_if_applicable (an Err of the modify lookup is reported unconditionally) *)
  let can_modify :=
    if m then match (if mod_through g then lookup_decl_cb ss' x 1 false else lookup_skip_cb ss' x 1 false) with
              | None => None                            (* "does not exist in any parent scope" *)
              | Some (k, cb) =>
                  if chk_modify_cb g && negb cb then None   (* "is a variable of this function, not one captured .." *)
                  else Some (negb k)
              end
    else match lookup_local ss' x with
         | None => Some true
         | Some k => Some (negb k)
         end in
  match can_modify with
  | None => false
  | Some ok => if requires_check && negb ok then false      (* cannot reassign to .., which is a `const` variable *)
               else true
               (* the third check (did = Some const && m) is subsumed by the first *)
  end.

Fixpoint first_collision (ss : scopes) (xs : list name) : option bool :=
  match xs with
  | [] => None
  | x :: r => match mapped_in_function ss x with Some c => Some c | None => first_collision ss r end
  end.

Fixpoint check_expr (ss : scopes) (e : expr) : bool :=
  match e with
  | ELit => true
  | ESelf => true
  | EVar x => is_some (lookup_all ss x)                      (* else "use of undeclared variable" *)
  | EBin a b => check_expr ss a && check_expr ss b
  | EIndex a i => check_expr ss a && check_expr ss i
  | EField a => check_expr ss a
  | ECall f a => check_expr ss f && check_expr ss a
  | EOpAssign l r =>
      check_expr ss l && check_expr ss r &&
      match l with
      | EVar x => negb (is_const (lookup_all ss x))          (* "cannot reassign using += to a, which is const" *)
      | EIndex _ _ | EField _ => negb (chk_pathop g && root_const ss l)
      | _ => false                                           (* invalid left operand *)
      end
  | EUnwrap l r =>
      check_expr ss l && check_expr ss r &&
      match l with
      | EVar x => negb (chk_unwrap g && is_const (lookup_all ss x))
      | _ => false                                           (* "this operation requires a name" *)
      end
  | EFn ps b => is_some (check_block (add_all (push KFunction ss) ps false) b)
  end
with check_stmt (ss : scopes) (s : stmt) : option scopes :=
  match s with
  | SAssign c m x rhs =>
      if c && m then None else                               (* AssignmentFlag::validate *)
      let did := if m then lookup_all ss x else mapped_in_function ss x in
      if check_expr ss rhs then
        let ss' := if m then add_mod ss x else add ss x c in
        if assign_checks did c m x ss' then Some ss' else None
      else None
  | SUnpack c xs rhs =>
      let col := first_collision ss xs in
      if check_expr ss rhs then
        let ss' := add_all ss xs c in
        match xs with
        | [x] => if assign_checks col c false x ss' then Some ss' else None
        | _ => if is_some col then None else Some ss'         (* "this unpack operation shadows .." *)
        end
      else None
  | SReassign l rhs =>
      if check_expr ss l && negb (root_const ss l) && check_expr ss rhs then Some ss else None
  | SExpr e => if check_expr ss e then Some ss else None
  | SIf c t e =>
      let si := push KBlock ss in
      if check_expr si c then
        match check_block si t with
        | None => None
        | Some _ => match check_block (push KBlock ss) e with None => None | Some _ => Some ss end
        end
      else None
  | SWhile c b =>
      let sw := push KBlock ss in
      if check_expr sw c then match check_block sw b with None => None | Some _ => Some ss end else None
  | SFrom lo hi cn b =>
      let sl := push KBlock ss in
      if check_expr sl lo && check_expr sl hi then
        let sl' := match cn with Some x => add sl x false | None => sl end in
        match check_block sl' b with
        | None => None
        | Some _ =>
            match cn with
            | None => Some ss
            | Some x => if chk_counter g && is_const (mapped_in_function ss x) then None else Some ss
            end
        end
      else None
  | SClass x members methods =>
      if is_some (lookup_local ss x) then None else          (* "This name is already in scope" *)
      let sc := add (add_all (push KClass ss) members false) x true in
      match check_block sc methods with
      | None => None
      | Some _ => Some (add ss x true)
      end
  | SImport m =>
      if is_some (lookup_all ss m) then None else Some (add ss m true)     (* "duplicate: this name is already in use" *)
  | SImportNames xs =>
      (fix go (ss : scopes) (xs : list name) : option scopes :=
         match xs with
         | [] => Some ss
         | x :: r => if is_some (lookup_all ss x) then None else go (add ss x false) r
         end) ss xs
  end
with check_block (ss : scopes) (b : block) : option scopes :=
  match b with
  | BNil => Some ss
  | BCons s r => match check_stmt ss s with None => None | Some ss' => check_block ss' r end
  end.

Definition file_scope : scopes := [mkS KFile []].

Definition check (p : block) : bool := is_some (check_block file_scope p).

End Check.
