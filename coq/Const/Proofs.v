(* C10 -- the per-form checks of the (fixed) compiler imply: no write form, at any nesting depth,
   targets a name that resolves to a const binding. *)
From MS Require Import Const.Model Const.Spec.

Local Notation chkE := (check_expr cfg_fixed).
Local Notation chkS := (check_stmt cfg_fixed).
Local Notation chkB := (check_block cfg_fixed).

Lemma andb3 : forall a b c, a && b && c = true -> a = true /\ b = true /\ c = true.
Proof. intros a b c H. apply andb_true_iff in H as [H Hc]. apply andb_true_iff in H as [Ha Hb]. auto. Qed.

Lemma Forall_app3 : forall {A} (P : A -> Prop) l1 l2 l3,
  Forall P l1 -> Forall P l2 -> Forall P l3 -> Forall P (l1 ++ l2 ++ l3).
Proof. intros. apply Forall_app; split; [assumption|]. apply Forall_app; split; assumption. Qed.

(* --- Parser::assignment: whatever else it checks, a const `did_exist_before` is fatal *)
Lemma assign_checks_not_const : forall g did c m x ss',
  assign_checks g did c m x ss' = true -> is_const did = false.
Proof.
  intros g did c m x ss' H. unfold assign_checks in H.
  destruct (is_const did); [discriminate|reflexivity].
Qed.

(* --- `modify`: with the is_callback requirement, the declaration that was checked is the captured one *)
Lemma lookup_cb_true : forall r x k cb, lookup_decl_cb r x 0 true = Some (k, cb) -> lookup_decl r x = Some k.
Proof.
  induction r as [|s r IH]; intros x k cb H; cbn in H; [discriminate|].
  cbn [lookup_decl]. destruct (contains_decl (vars s) x) as [c|].
  - injection H as <- _. reflexivity.
  - apply (IH x k cb). exact H.
Qed.

Lemma lookup_cb_outer : forall r x k, lookup_decl_cb r x 0 false = Some (k, true) -> lookup_outer r x = Some k.
Proof.
  induction r as [|s r IH]; intros x k H; cbn in H; [discriminate|].
  destruct (contains_decl (vars s) x) as [c|]; [discriminate|].
  cbn [lookup_outer]. destruct (is_function s).
  - eapply lookup_cb_true. exact H.
  - apply IH. exact H.
Qed.

Lemma assign_checks_modify_outer : forall did c x ss,
  assign_checks cfg_fixed did c true x (add_mod ss x) = true -> is_const (lookup_outer ss x) = false.
Proof.
  intros did c x ss H. unfold assign_checks in H.
  destruct (is_const did); [discriminate|].
  destruct ss as [|s r]; [cbn in H; discriminate|].
  cbn [mod_through cfg_fixed add_mod lookup_decl_cb orb] in H.
  change (is_function (mkS (kind s) (mkBind x false true :: vars s))) with (is_function s) in H.
  destruct (lookup_decl_cb r x 0 (is_function s)) as [[k cb]|] eqn:E; [|discriminate].
  cbn [chk_modify_cb cfg_fixed andb] in H.
  destruct cb; cbn [negb] in H; [|discriminate].
  rewrite orb_true_r in H. cbn [andb] in H.
  destruct k; cbn [negb] in H; [discriminate|].
  cbn [lookup_outer]. destruct (is_function s).
  - rewrite (lookup_cb_true _ _ _ _ E). reflexivity.
  - rewrite (lookup_cb_outer _ _ _ E). reflexivity.
Qed.

(* --- unpacking: no collision at all means no name of the list is mapped in the function *)
Lemma first_collision_none : forall ss xs,
  first_collision ss xs = None -> forall x, In x xs -> mapped_in_function ss x = None.
Proof.
  induction xs as [|y r IH]; intros H x Hin; [contradiction|].
  cbn [first_collision] in H. destruct (mapped_in_function ss y) eqn:Hy; [discriminate|].
  destruct Hin as [->|Hin]; [assumption|]. apply IH; assumption.
Qed.

Lemma is_some_false : forall {A} (o : option A), is_some o = false -> o = None.
Proof. intros A [a|]; [discriminate|reflexivity]. Qed.

Lemma root_target_ok : forall ss l, root_const ss l = false -> Forall ok_write (root_target ss l).
Proof.
  intros ss l H. unfold root_target, root_const in *. destruct (root l) as [x|]; [|constructor].
  constructor; [exact H|constructor].
Qed.

Lemma unpack_targets_ok : forall ss xs,
  (forall x, In x xs -> is_const (mapped_in_function ss x) = false) ->
  Forall ok_write (map (fun x => (ss, TFun x)) xs).
Proof.
  intros ss xs H. apply Forall_forall. intros w Hw. apply in_map_iff in Hw as [x [<- Hx]].
  exact (H x Hx).
Qed.

(* the left operand of an accepted op-assign does not resolve to a const *)
Lemma opassign_lhs_ok : forall ss l,
  match l with
  | EVar x => negb (is_const (lookup_all ss x))
  | EIndex _ _ | EField _ => negb (chk_pathop cfg_fixed && root_const ss l)
  | _ => false
  end = true -> root_const ss l = false.
Proof.
  intros ss l H. destruct l; try discriminate.
  - unfold root_const. cbn [root]. apply negb_true_iff in H. exact H.
  - cbn [chk_pathop cfg_fixed andb] in H. apply negb_true_iff in H. exact H.
  - cbn [chk_pathop cfg_fixed andb] in H. apply negb_true_iff in H. exact H.
Qed.

Lemma unwrap_lhs_ok : forall ss l,
  match l with
  | EVar x => negb (chk_unwrap cfg_fixed && is_const (lookup_all ss x))
  | _ => false
  end = true -> root_const ss l = false.
Proof.
  intros ss l H. destruct l; try discriminate.
  unfold root_const. cbn [root]. cbn [chk_unwrap cfg_fixed andb] in H. apply negb_true_iff in H. exact H.
Qed.

Lemma import_names_effect : forall xs ss ss',
  (fix go (ss : scopes) (xs : list name) : option scopes :=
     match xs with
     | [] => Some ss
     | x :: r => if is_some (lookup_all ss x) then None else go (add ss x false) r
     end) ss xs = Some ss' -> ss' = add_all ss xs false.
Proof.
  induction xs as [|x r IH]; intros ss ss' H.
  - inversion H. reflexivity.
  - destruct (is_some (lookup_all ss x)); [discriminate|]. cbn [add_all]. apply IH. exact H.
Qed.

(* --- unfolding equations (the three functions are one mutual fixpoint: `cbn` would expose the raw `fix`) *)
Section Unfold.
Variable g : cfg.
Lemma ce_bin : forall ss a b, check_expr g ss (EBin a b) = check_expr g ss a && check_expr g ss b.
Proof. reflexivity. Qed.
Lemma ce_index : forall ss a i, check_expr g ss (EIndex a i) = check_expr g ss a && check_expr g ss i.
Proof. reflexivity. Qed.
Lemma ce_field : forall ss a, check_expr g ss (EField a) = check_expr g ss a.
Proof. reflexivity. Qed.
Lemma ce_call : forall ss f a, check_expr g ss (ECall f a) = check_expr g ss f && check_expr g ss a.
Proof. reflexivity. Qed.
Lemma ce_opassign : forall ss l r, check_expr g ss (EOpAssign l r) =
  check_expr g ss l && check_expr g ss r &&
  match l with
  | EVar x => negb (is_const (lookup_all ss x))
  | EIndex _ _ | EField _ => negb (chk_pathop g && root_const ss l)
  | _ => false
  end.
Proof. reflexivity. Qed.
Lemma ce_unwrap : forall ss l r, check_expr g ss (EUnwrap l r) =
  check_expr g ss l && check_expr g ss r &&
  match l with
  | EVar x => negb (chk_unwrap g && is_const (lookup_all ss x))
  | _ => false
  end.
Proof. reflexivity. Qed.
Lemma ce_fn : forall ss ps b, check_expr g ss (EFn ps b) =
  is_some (check_block g (add_all (push KFunction ss) ps false) b).
Proof. reflexivity. Qed.
Lemma cs_assign : forall ss c m x rhs, check_stmt g ss (SAssign c m x rhs) =
  if c && m then None else
  if check_expr g ss rhs then
    if assign_checks g (if m then lookup_all ss x else mapped_in_function ss x) c m x (if m then add_mod ss x else add ss x c)
    then Some (if m then add_mod ss x else add ss x c) else None
  else None.
Proof. reflexivity. Qed.
Lemma cs_unpack : forall ss c xs rhs, check_stmt g ss (SUnpack c xs rhs) =
  if check_expr g ss rhs then
    match xs with
    | [x] => if assign_checks g (first_collision ss xs) c false x (add_all ss xs c) then Some (add_all ss xs c) else None
    | _ => if is_some (first_collision ss xs) then None else Some (add_all ss xs c)
    end
  else None.
Proof. reflexivity. Qed.
Lemma cs_reassign : forall ss l rhs, check_stmt g ss (SReassign l rhs) =
  if check_expr g ss l && negb (root_const ss l) && check_expr g ss rhs then Some ss else None.
Proof. reflexivity. Qed.
Lemma cs_expr : forall ss e, check_stmt g ss (SExpr e) = if check_expr g ss e then Some ss else None.
Proof. reflexivity. Qed.
Lemma cs_if : forall ss c t e, check_stmt g ss (SIf c t e) =
  if check_expr g (push KBlock ss) c then
    match check_block g (push KBlock ss) t with
    | None => None
    | Some _ => match check_block g (push KBlock ss) e with None => None | Some _ => Some ss end
    end
  else None.
Proof. reflexivity. Qed.
Lemma cs_while : forall ss c b, check_stmt g ss (SWhile c b) =
  if check_expr g (push KBlock ss) c then
    match check_block g (push KBlock ss) b with None => None | Some _ => Some ss end
  else None.
Proof. reflexivity. Qed.
Lemma cs_from : forall ss lo hi cn b, check_stmt g ss (SFrom lo hi cn b) =
  if check_expr g (push KBlock ss) lo && check_expr g (push KBlock ss) hi then
    match check_block g (match cn with Some x => add (push KBlock ss) x false | None => push KBlock ss end) b with
    | None => None
    | Some _ => match cn with
                | None => Some ss
                | Some x => if chk_counter g && is_const (mapped_in_function ss x) then None else Some ss
                end
    end
  else None.
Proof. reflexivity. Qed.
Lemma cs_class : forall ss x members methods, check_stmt g ss (SClass x members methods) =
  if is_some (lookup_local ss x) then None else
  match check_block g (add (add_all (push KClass ss) members false) x true) methods with
  | None => None
  | Some _ => Some (add ss x true)
  end.
Proof. reflexivity. Qed.
Lemma cb_cons : forall ss s r, check_block g ss (BCons s r) =
  match check_stmt g ss s with None => None | Some ss' => check_block g ss' r end.
Proof. reflexivity. Qed.
End Unfold.

Lemma ws_assign : forall ss c m x rhs, writes_stmt ss (SAssign c m x rhs) =
  writes_expr ss rhs ++ (if m then [(ss, TLex x); (ss, TCap x)] else [(ss, TFun x)]).
Proof. reflexivity. Qed.
Lemma ws_unpack : forall ss c xs rhs, writes_stmt ss (SUnpack c xs rhs) =
  writes_expr ss rhs ++ map (fun x => (ss, TFun x)) xs.
Proof. reflexivity. Qed.
Lemma ws_reassign : forall ss l rhs, writes_stmt ss (SReassign l rhs) =
  writes_expr ss l ++ writes_expr ss rhs ++ root_target ss l.
Proof. reflexivity. Qed.
Lemma ws_expr : forall ss e, writes_stmt ss (SExpr e) = writes_expr ss e.
Proof. reflexivity. Qed.
Lemma ws_if : forall ss c t e, writes_stmt ss (SIf c t e) =
  writes_expr (push KBlock ss) c ++ writes_block (push KBlock ss) t ++ writes_block (push KBlock ss) e.
Proof. reflexivity. Qed.
Lemma ws_while : forall ss c b, writes_stmt ss (SWhile c b) =
  writes_expr (push KBlock ss) c ++ writes_block (push KBlock ss) b.
Proof. reflexivity. Qed.
Lemma ws_from : forall ss lo hi cn b, writes_stmt ss (SFrom lo hi cn b) =
  writes_expr (push KBlock ss) lo ++ writes_expr (push KBlock ss) hi ++
  writes_block (match cn with Some x => add (push KBlock ss) x false | None => push KBlock ss end) b ++
  (match cn with Some x => [(ss, TFun x)] | None => [] end).
Proof. reflexivity. Qed.
Lemma ws_class : forall ss x members methods, writes_stmt ss (SClass x members methods) =
  writes_block (add (add_all (push KClass ss) members false) x true) methods.
Proof. reflexivity. Qed.
Lemma wb_cons : forall ss s r, writes_block ss (BCons s r) = writes_stmt ss s ++ writes_block (effect ss s) r.
Proof. reflexivity. Qed.
Lemma we_bin : forall ss a b, writes_expr ss (EBin a b) = writes_expr ss a ++ writes_expr ss b.
Proof. reflexivity. Qed.
Lemma we_index : forall ss a b, writes_expr ss (EIndex a b) = writes_expr ss a ++ writes_expr ss b.
Proof. reflexivity. Qed.
Lemma we_field : forall ss a, writes_expr ss (EField a) = writes_expr ss a.
Proof. reflexivity. Qed.
Lemma we_call : forall ss a b, writes_expr ss (ECall a b) = writes_expr ss a ++ writes_expr ss b.
Proof. reflexivity. Qed.
Lemma we_opassign : forall ss l r, writes_expr ss (EOpAssign l r) =
  writes_expr ss l ++ writes_expr ss r ++ root_target ss l.
Proof. reflexivity. Qed.
Lemma we_unwrap : forall ss l r, writes_expr ss (EUnwrap l r) =
  writes_expr ss l ++ writes_expr ss r ++ root_target ss l.
Proof. reflexivity. Qed.
Lemma we_fn : forall ss ps b, writes_expr ss (EFn ps b) = writes_block (add_all (push KFunction ss) ps false) b.
Proof. reflexivity. Qed.

Theorem check_sound_mut :
  (forall e ss, chkE ss e = true -> Forall ok_write (writes_expr ss e)) /\
  (forall s ss ss', chkS ss s = Some ss' -> ss' = effect ss s /\ Forall ok_write (writes_stmt ss s)) /\
  (forall b ss ss', chkB ss b = Some ss' -> Forall ok_write (writes_block ss b)).
Proof.
  apply syntax_mutind.
  - (* ELit *) intros ss _. constructor.
  - (* EVar *) intros x ss _. constructor.
  - (* ESelf *) intros ss _. constructor.
  - (* EBin *) intros a IHa b IHb ss H. rewrite ce_bin in H. apply andb_true_iff in H as [Ha Hb].
    rewrite we_bin. apply Forall_app; split; auto.
  - (* EIndex *) intros a IHa i IHi ss H. rewrite ce_index in H. apply andb_true_iff in H as [Ha Hi].
    rewrite we_index. apply Forall_app; split; auto.
  - (* EField *) intros a IHa ss H. rewrite ce_field in H. rewrite we_field. auto.
  - (* ECall *) intros f IHf a IHa ss H. rewrite ce_call in H. apply andb_true_iff in H as [Hf Ha].
    rewrite we_call. apply Forall_app; split; auto.
  - (* EOpAssign *) intros l IHl r IHr ss H. rewrite ce_opassign in H. apply andb3 in H as [Hl [Hr Hc]].
    rewrite we_opassign. apply Forall_app3; auto. apply root_target_ok. apply opassign_lhs_ok. exact Hc.
  - (* EUnwrap *) intros l IHl r IHr ss H. rewrite ce_unwrap in H. apply andb3 in H as [Hl [Hr Hc]].
    rewrite we_unwrap. apply Forall_app3; auto. apply root_target_ok. apply unwrap_lhs_ok. exact Hc.
  - (* EFn *) intros ps b IHb ss. rewrite ce_fn, we_fn.
    destruct (check_block cfg_fixed (add_all (push KFunction ss) ps false) b) as [ss'|] eqn:Hb;
      unfold is_some; intro H; [|discriminate].
    eapply IHb. exact Hb.
  - (* SAssign *) intros c m x rhs IHrhs ss ss'. rewrite cs_assign.
    destruct (c && m); [discriminate|].
    destruct (check_expr cfg_fixed ss rhs) eqn:Hr; [|discriminate].
    destruct (assign_checks cfg_fixed (if m then lookup_all ss x else mapped_in_function ss x) c m x
                (if m then add_mod ss x else add ss x c)) eqn:Ha; [|discriminate].
    intro H. inversion H; subst ss'. split; [reflexivity|].
    rewrite ws_assign. apply Forall_app; split; [auto|].
    destruct m.
    + pose proof (assign_checks_modify_outer _ _ _ _ Ha) as Ho. apply assign_checks_not_const in Ha.
      constructor; [exact Ha|]. constructor; [exact Ho|constructor].
    + apply assign_checks_not_const in Ha. constructor; [exact Ha|constructor].
  - (* SUnpack *) intros c xs rhs IHrhs ss ss'. rewrite cs_unpack.
    destruct (check_expr cfg_fixed ss rhs) eqn:Hr; [|discriminate].
    intro H. rewrite ws_unpack. cbn [effect].
    assert (Hgoal : ss' = add_all ss xs c /\
                    (forall x, In x xs -> is_const (mapped_in_function ss x) = false)).
    { destruct xs as [|x [|y r]].
      - revert H. destruct (is_some (first_collision ss [])) eqn:Hc; [discriminate|]. intro H. inversion H.
        split; [reflexivity|]. intros x [].
      - revert H. destruct (assign_checks cfg_fixed (first_collision ss [x]) c false x (add_all ss [x] c)) eqn:Ha; [|discriminate].
        intro H. inversion H. split; [reflexivity|]. intros z [<-|[]].
        apply assign_checks_not_const in Ha. cbn [first_collision] in Ha.
        destruct (mapped_in_function ss x) as [k|]; [exact Ha|reflexivity].
      - revert H. destruct (is_some (first_collision ss (x :: y :: r))) eqn:Hc; [discriminate|]. intro H. inversion H.
        split; [reflexivity|]. intros z Hz. apply is_some_false in Hc.
        rewrite (first_collision_none _ _ Hc z Hz). reflexivity. }
    destruct Hgoal as [-> Hall]. split; [reflexivity|].
    apply Forall_app; split; [auto|]. apply unpack_targets_ok. exact Hall.
  - (* SReassign *) intros l IHl rhs IHrhs ss ss'. rewrite cs_reassign.
    destruct (check_expr cfg_fixed ss l && negb (root_const ss l) && check_expr cfg_fixed ss rhs) eqn:Hc; [|discriminate].
    intro H. inversion H; subst ss'. split; [reflexivity|]. apply andb3 in Hc as [Hl [Hn Hr]].
    rewrite ws_reassign. apply Forall_app3; auto. apply root_target_ok. apply negb_true_iff in Hn. exact Hn.
  - (* SExpr *) intros e IHe ss ss'. rewrite cs_expr.
    destruct (check_expr cfg_fixed ss e) eqn:He; [|discriminate]. intro H. inversion H; subst ss'.
    split; [reflexivity|]. rewrite ws_expr. auto.
  - (* SIf *) intros c IHc t IHt e IHe ss ss'. rewrite cs_if.
    destruct (check_expr cfg_fixed (push KBlock ss) c) eqn:Hc; [|discriminate].
    destruct (check_block cfg_fixed (push KBlock ss) t) as [s1|] eqn:Ht; [|discriminate].
    destruct (check_block cfg_fixed (push KBlock ss) e) as [s2|] eqn:He; [|discriminate].
    intro H. inversion H; subst ss'. split; [reflexivity|]. rewrite ws_if.
    apply Forall_app3; eauto.
  - (* SWhile *) intros c IHc b IHb ss ss'. rewrite cs_while.
    destruct (check_expr cfg_fixed (push KBlock ss) c) eqn:Hc; [|discriminate].
    destruct (check_block cfg_fixed (push KBlock ss) b) as [s1|] eqn:Hb; [|discriminate].
    intro H. inversion H; subst ss'. split; [reflexivity|]. rewrite ws_while.
    apply Forall_app; split; eauto.
  - (* SFrom *) intros lo IHlo hi IHhi cn b IHb ss ss'. rewrite cs_from.
    destruct (check_expr cfg_fixed (push KBlock ss) lo && check_expr cfg_fixed (push KBlock ss) hi) eqn:Hlh; [|discriminate].
    apply andb_true_iff in Hlh as [Hlo Hhi].
    destruct (check_block cfg_fixed
                (match cn with Some x => add (push KBlock ss) x false | None => push KBlock ss end) b)
      as [s1|] eqn:Hb; [|discriminate].
    intro H.
    assert (Hcn : ss' = ss /\ Forall ok_write (match cn with Some x => [(ss, TFun x)] | None => [] end)).
    { destruct cn as [x|].
      - cbn [chk_counter cfg_fixed andb] in H. revert H.
        destruct (is_const (mapped_in_function ss x)) eqn:Hk; [discriminate|]. intro H. injection H as <-.
        split; [reflexivity|]. constructor; [exact Hk|constructor].
      - injection H as <-. split; [reflexivity|constructor]. }
    destruct Hcn as [-> Hcn]. split; [reflexivity|]. rewrite ws_from.
    apply Forall_app; split; [auto|]. apply Forall_app3; eauto.
  - (* SClass *) intros x members methods IHm ss ss'. rewrite cs_class.
    destruct (is_some (lookup_local ss x)); [discriminate|].
    destruct (check_block cfg_fixed (add (add_all (push KClass ss) members false) x true) methods) as [s1|] eqn:Hm;
      [|discriminate].
    intro H. inversion H; subst ss'. split; [reflexivity|]. rewrite ws_class. eauto.
  - (* SImport *) intros m ss ss'. cbn [check_stmt].
    destruct (is_some (lookup_all ss m)); [discriminate|]. intro H. inversion H; subst ss'.
    split; [reflexivity|constructor].
  - (* SImportNames *) intros xs ss ss' H. cbn [check_stmt] in H. apply import_names_effect in H.
    split; [exact H|constructor].
  - (* BNil *) intros ss ss' _. constructor.
  - (* BCons *) intros s IHs r IHr ss ss'. rewrite cb_cons.
    destruct (check_stmt cfg_fixed ss s) as [s1|] eqn:Hs; [|discriminate]. intro H.
    destruct (IHs _ _ Hs) as [-> Hw]. rewrite wb_cons. apply Forall_app; split; [exact Hw|eauto].
Qed.

(* C10, syntactic half: an accepted program contains no write form -- `=`, typed `=`, re-declaration,
   `modify`, op-assign, `?=`, index/field (op-)assignment, loop counter, unpacking -- in any scope, at
   any nesting depth, whose target resolves to a `const` variable, a class name or an imported module. *)
Theorem const_never_written : forall p : block,
  check cfg_fixed p = true -> NoConstWrite p.
Proof.
  intros p. unfold check, NoConstWrite.
  destruct (check_block cfg_fixed file_scope p) as [ss'|] eqn:Hb; unfold is_some; intro H; [|discriminate].
  destruct check_sound_mut as [_ [_ HB]]. eapply HB. exact Hb.
Qed.

Corollary const_never_written_b : forall p : block,
  check cfg_fixed p = true -> no_const_write_b p = true.
Proof.
  intros p H. apply const_never_written in H. unfold NoConstWrite in H. unfold no_const_write_b.
  apply forallb_forall. intros w Hw. rewrite Forall_forall in H. apply negb_true_iff. exact (H w Hw).
Qed.

(* ------------------------------------------------------------------ each added check is necessary:
   on the tree before fixes/const-*.diff (cfg_head) these programs are accepted and write a const *)

Definition a : name := 1%N.
Definition b : name := 2%N.

(* const a: int? = nil; b: int? = 5; if a ?= b {} *)
Definition wit_unwrap : block :=
  BCons (SAssign true false a ELit) (BCons (SAssign false false b ELit)
  (BCons (SIf (EUnwrap (EVar a) (EVar b)) BNil BNil) BNil)).

(* const a = 5; from 0 to 3, a {} *)
Definition wit_counter : block :=
  BCons (SAssign true false a ELit) (BCons (SFrom ELit ELit (Some a) BNil) BNil).

(* const a = [1, 2, 3]; a[0] += 9 *)
Definition wit_index_op : block :=
  BCons (SAssign true false a ELit) (BCons (SExpr (EOpAssign (EIndex (EVar a) ELit) ELit)) BNil).

(* const a = P(1); a.x += 5 *)
Definition wit_field_op : block :=
  BCons (SAssign true false a ELit) (BCons (SExpr (EOpAssign (EField (EVar a)) ELit)) BNil).

Lemma head_refuted :
  forall p, In p [wit_unwrap; wit_counter; wit_index_op; wit_field_op] ->
  check cfg_head p = true /\ no_const_write_b p = false /\ check cfg_fixed p = false.
Proof.
  intros p Hp. cbn [In] in Hp.
  destruct Hp as [<-|[<-|[<-|[<-|[]]]]]; vm_compute; auto.
Qed.

(* ------------------------------------------------------------------ `modify` through a shadowing local:
   on the tree before fixes/const-modify-through-shadow.diff (cfg_pre_modify: the three earlier fixes are in)
   this program is accepted although its `modify` writes the CAPTURED variable x, which is const:
     f = fn() { const x = 5
                g = fn() { x            # read: g captures f's x
                           x = 1        # a new local of g shadows it
                           if true { modify x = 7 } } }   # checked against g's local, stored to f's const *)
Definition xx : name := 3%N.
Definition ff : name := 4%N.
Definition gg : name := 5%N.
Definition wit_modify_shadow : block :=
  BCons (SAssign false false ff (EFn []
    (BCons (SAssign true false xx ELit)
    (BCons (SAssign false false gg (EFn []
       (BCons (SExpr (EVar xx))
       (BCons (SAssign false false xx ELit)
       (BCons (SIf ELit (BCons (SAssign false true xx ELit) BNil) BNil) BNil))))) BNil)))) BNil.

Lemma modify_shadow_refuted :
  check cfg_pre_modify wit_modify_shadow = true /\ no_const_write_b wit_modify_shadow = false /\
  check cfg_fixed wit_modify_shadow = false.
Proof. vm_compute. auto. Qed.

(* ------------------------------------------------------------------ two `modify` of one captured variable:
   /repo 745d438 (cfg_745) looked the target up among ALL scope entries, found the entry the first `modify`
   had registered in the function's own scope and refused the second one -- a valid program:
     x = 1;  f = fn() { modify x = 5; x; if c { modify x = 6 } } *)
Definition wit_two_modifies : block :=
  BCons (SAssign false false xx ELit)
 (BCons (SAssign false false ff (EFn []
    (BCons (SAssign false true xx ELit)
    (BCons (SExpr (EVar xx))
    (BCons (SIf ELit (BCons (SAssign false true xx ELit) BNil) BNil) BNil))))) BNil).

Lemma two_modifies_accepted :
  check cfg_fixed wit_two_modifies = true /\ no_const_write_b wit_two_modifies = true /\
  check cfg_745 wit_two_modifies = false /\
  check cfg_fixed wit_modify_shadow = false /\ check cfg_745 wit_modify_shadow = false.
Proof. vm_compute. auto. Qed.
