(* C10 -- a small evaluation model of the run-time variable store, for the CLOSURE-FREE part of the
   mini-language (no function literals, classes, imports, `modify`, unpacking: those statements simply
   have no execution rule here).

   Mirrors bytecode/src/stack.rs and instruction.rs:
     frames            Stack = Vec<StackFrame>; block frames (<if>, <while>) are "special", a function's /
                       the module's own frame is not
     rt_find           Stack::find_name_in_function        (load, bin_op_assign)
     rt_set / reg_var  Stack::register_variable_flags      (`store`: update where found in the current
                       function, else bind in the top frame)
     reg_local         Stack::register_variable_local      (`store_fast`: the top frame only; `unwrap_into` used it too before /repo 2ade5a8)
     del_local         Stack::delete_variable_local        (`delete_name_scoped` after a `from` loop)
   Compiled control flow (compiler/src/ast/{if_statement,while_loop,number_loop}.rs Compile impls): a
   condition is evaluated in the ENCLOSING frame, the body in a fresh special frame that is popped
   afterwards; a named `from` counter is bound in the enclosing frame before the loop (store_fast, or `store`
   when it reuses an existing variable), bumped with bin_op_assign after every iteration and deleted
   afterwards unless it collided.

   Values are opaque tokens (N); every rule may write ANY value.  Each binding carries two ghost fields:
   whether it was created by a `const` declaration and the value it was created with.  Every variable
   read is logged. *)
From MS Require Import Const.Model.

Record rbind := mkR { rname : name; rval : N; rconst : bool; rinit : N }.
Record frame := mkF { special : bool; fvars : list rbind }.
Definition stack := list frame.              (* head = innermost *)

Fixpoint fr_find (vs : list rbind) (x : name) : option rbind :=
  match vs with
  | [] => None
  | r :: t => if N.eqb (rname r) x then Some r else fr_find t x
  end.

(* overwrite the value of the binding of x (ghost fields are not touched: the VM does not know them) *)
Fixpoint fr_set (vs : list rbind) (x : name) (v : N) : list rbind :=
  match vs with
  | [] => []
  | r :: t => if N.eqb (rname r) x then mkR (rname r) v (rconst r) (rinit r) :: t else r :: fr_set t x v
  end.

Fixpoint fr_del (vs : list rbind) (x : name) : list rbind :=
  match vs with
  | [] => []
  | r :: t => if N.eqb (rname r) x then t else r :: fr_del t x
  end.

Fixpoint rt_find (st : stack) (x : name) : option rbind :=
  match st with
  | [] => None
  | f :: r => match fr_find (fvars f) x with
              | Some b => Some b
              | None => if special f then rt_find r x else None
              end
  end.

Fixpoint rt_set (st : stack) (x : name) (v : N) : option stack :=
  match st with
  | [] => None
  | f :: r => match fr_find (fvars f) x with
              | Some _ => Some (mkF (special f) (fr_set (fvars f) x v) :: r)
              | None => if special f
                        then match rt_set r x v with Some r' => Some (f :: r') | None => None end
                        else None
              end
  end.

Definition reg_local (st : stack) (x : name) (v : N) (c : bool) : stack :=
  match st with
  | [] => []
  | f :: r => match fr_find (fvars f) x with
              | Some _ => mkF (special f) (fr_set (fvars f) x v) :: r
              | None => mkF (special f) (mkR x v c v :: fvars f) :: r
              end
  end.

Definition reg_var (st : stack) (x : name) (v : N) (c : bool) : stack :=
  match rt_set st x v with Some st' => st' | None => reg_local st x v c end.

Definition del_local (st : stack) (x : name) : stack :=
  match st with [] => [] | f :: r => mkF (special f) (fr_del (fvars f) x) :: r end.

Definition push_frame (st : stack) : stack := mkF true [] :: st.

Definition log := list rbind.                 (* the bindings read, in order *)

Inductive ev : stack -> expr -> stack -> log -> Prop :=
| ev_lit : forall st, ev st ELit st []
| ev_self : forall st, ev st ESelf st []
| ev_var : forall st x r, rt_find st x = Some r -> ev st (EVar x) st [r]
| ev_bin : forall st a b st1 st2 l1 l2, ev st a st1 l1 -> ev st1 b st2 l2 -> ev st (EBin a b) st2 (l1 ++ l2)
| ev_index : forall st a i st1 st2 l1 l2, ev st a st1 l1 -> ev st1 i st2 l2 -> ev st (EIndex a i) st2 (l1 ++ l2)
| ev_field : forall st a st1 l1, ev st a st1 l1 -> ev st (EField a) st1 l1
| ev_call : forall st f a st1 st2 l1 l2, ev st f st1 l1 -> ev st1 a st2 l2 -> ev st (ECall f a) st2 (l1 ++ l2)
    (* the callee's body is outside this model: only builtins / opaque callees *)
| ev_opassign_var : forall st x r st1 l1 v st2,            (* rhs; bin_op_assign op x *)
    ev st r st1 l1 -> rt_set st1 x v = Some st2 -> ev st (EOpAssign (EVar x) r) st2 l1
| ev_opassign_index : forall st a i r st1 st2 l1 l2,       (* the element is mutated, no binding changes *)
    ev st r st1 l1 -> ev st1 (EIndex a i) st2 l2 -> ev st (EOpAssign (EIndex a i) r) st2 (l1 ++ l2)
| ev_opassign_field : forall st a r st1 st2 l1 l2,
    ev st r st1 l1 -> ev st1 (EField a) st2 l2 -> ev st (EOpAssign (EField a) r) st2 (l1 ++ l2)
| ev_unwrap : forall st x r st1 l1 v,                      (* rhs; unwrap_into x *)
    ev st r st1 l1 -> ev st (EUnwrap (EVar x) r) (reg_var st1 x v false) l1.   (* register_variable since /repo 2ade5a8 *)

Definition bump (st : stack) (cn : option name) (st' : stack) : Prop :=
  match cn with None => st' = st | Some x => exists v, rt_set st x v = Some st' end.

Inductive ex : stack -> stmt -> stack -> log -> Prop :=
| ex_assign : forall st c x rhs st1 l v,
    ev st rhs st1 l -> ex st (SAssign c false x rhs) (reg_var st1 x v c) l
| ex_reassign : forall st p rhs st1 st2 l1 l2,             (* value, path, ptr_mut: no binding changes *)
    ev st rhs st1 l1 -> ev st1 p st2 l2 -> ex st (SReassign p rhs) st2 (l1 ++ l2)
| ex_expr : forall st e st1 l, ev st e st1 l -> ex st (SExpr e) st1 l
| ex_if_then : forall st c t e st1 st2 l1 l2,
    ev st c st1 l1 -> exb (push_frame st1) t st2 l2 -> ex st (SIf c t e) (tl st2) (l1 ++ l2)
| ex_if_else : forall st c t e st1 st2 l1 l2,
    ev st c st1 l1 -> exb (push_frame st1) e st2 l2 -> ex st (SIf c t e) (tl st2) (l1 ++ l2)
| ex_while_stop : forall st c b st1 l1, ev st c st1 l1 -> ex st (SWhile c b) st1 l1
| ex_while_step : forall st c b st1 st2 st3 l1 l2 l3,
    ev st c st1 l1 -> exb (push_frame st1) b st2 l2 -> ex (tl st2) (SWhile c b) st3 l3 ->
    ex st (SWhile c b) st3 (l1 ++ l2 ++ l3)
| ex_from : forall st lo hi cn b st1 st1' st2 st3 st4 l1 l2 l3,
    ev st lo st1 l1 ->
    (* the counter is bound with store_fast; since /repo 3f1880b with `store` when it collides *)
    match cn with
    | None => st1' = st1
    | Some x => exists v, st1' = reg_local st1 x v false \/ st1' = reg_var st1 x v false
    end ->
    ev st1' hi st2 l2 ->
    iter st2 cn b st3 l3 ->
    (* delete_name_scoped unless the counter collided with an existing variable *)
    match cn with
    | None => st4 = st3
    | Some x => st4 = st3 \/ (rt_find st1 x = None /\ st4 = del_local st3 x)
    end ->
    ex st (SFrom lo hi cn b) st4 (l1 ++ l2 ++ l3)
with exb : stack -> block -> stack -> log -> Prop :=
| exb_nil : forall st, exb st BNil st []
| exb_exit : forall st s b, exb st (BCons s b) st []       (* break / continue / return leave the block early *)
| exb_cons : forall st s b st1 st2 l1 l2, ex st s st1 l1 -> exb st1 b st2 l2 -> exb st (BCons s b) st2 (l1 ++ l2)
with iter : stack -> option name -> block -> stack -> log -> Prop :=
| it_stop : forall st cn b, iter st cn b st []
| it_step : forall st cn b st1 st2 st3 l1 l3,
    exb (push_frame st) b st1 l1 -> bump (tl st1) cn st2 -> iter st2 cn b st3 l3 ->
    iter st cn b st3 (l1 ++ l3).

Scheme ex_mut := Induction for ex Sort Prop
  with exb_mut := Induction for exb Sort Prop
  with iter_mut := Induction for iter Sort Prop.
Combined Scheme exec_mutind from ex_mut, exb_mut, iter_mut.

Definition module_frame : stack := [mkF false []].

(* a read of a binding created by a `const` declaration returns the value it was created with *)
Definition read_ok (r : rbind) : Prop := rconst r = true -> rval r = rinit r.
