(* C10 -- specification: every occurrence of a write form, paired with the scope stack at that
   point, and the binding the language resolves its target to.

   Name resolution of MScript (what the language does, see tests/assignments.rs attempt_type_bypass_2,
   tests/modify_edge_cases.rs):
   * binding forms -- `x = v`, `x: T = v`, `[x, y] = v`, a named `from` counter -- resolve `x` inside the
     CURRENT FUNCTION only (all enclosing blocks up to and including the function's own scope); when
     nothing is found the form declares a new variable, so a same-named assignment in an inner function
     is a different variable (TFun); an entry registered by an earlier `modify x = ..` is an alias of the
     captured variable, not a variable of the current function, and is passed over (/repo 2f6e39c);
   * all other forms -- `modify x = v`, `x op= v`, `x ?= v`, `x[i] = v`, `x.f = v`, `x[i] op= v`,
     `x.f op= v` -- resolve `x` lexically through every enclosing scope (TLex);
   * `modify x = v` compiles to store_object, which writes the variable named x that the current function
     CAPTURED: the nearest binding of x OUTSIDE the current function, whatever locals of the current function
     are called x as well (TCap).  (It must also pass the lexical reading, TLex, which is what the compiler's
     own `did_exist_before` looks at.) *)
From MS Require Import Const.Model.

Inductive target := TFun (x : name) | TLex (x : name) | TCap (x : name).

(* lexical lookup of the DECLARATION of x: entries registered by earlier `modify` statements are aliases of a
   captured variable, not variables of the function they sit in *)
Fixpoint lookup_decl (ss : scopes) (x : name) : option bool :=
  match ss with
  | [] => None
  | s :: r => match contains_decl (vars s) x with Some c => Some c | None => lookup_decl r x end
  end.

(* the variable a function captured under the name x: its nearest declaration outside the current function
   (skip everything up to and including the innermost function scope) *)
Fixpoint lookup_outer (ss : scopes) (x : name) : option bool :=
  match ss with
  | [] => None
  | s :: r => if is_function s then lookup_decl r x else lookup_outer r x
  end.

Definition resolves_const (ss : scopes) (t : target) : bool :=
  match t with
  | TFun x => is_const (mapped_in_function ss x)
  | TLex x => is_const (lookup_all ss x)
  | TCap x => is_const (lookup_outer ss x)
  end.

(* what a statement binds in the innermost scope once it is over *)
Definition effect (ss : scopes) (s : stmt) : scopes :=
  match s with
  | SAssign c m x _ => if m then add_mod ss x else add ss x c
  | SUnpack c xs _ => add_all ss xs c
  | SClass x _ _ => add ss x true
  | SImport m => add ss m true
  | SImportNames xs => add_all ss xs false
  | _ => ss
  end.

Definition root_target (ss : scopes) (l : expr) : list (scopes * target) :=
  match root l with Some x => [(ss, TLex x)] | None => [] end.

Fixpoint writes_expr (ss : scopes) (e : expr) : list (scopes * target) :=
  match e with
  | ELit | ESelf | EVar _ => []
  | EBin a b => writes_expr ss a ++ writes_expr ss b
  | EIndex a i => writes_expr ss a ++ writes_expr ss i
  | EField a => writes_expr ss a
  | ECall f a => writes_expr ss f ++ writes_expr ss a
  | EOpAssign l r => writes_expr ss l ++ writes_expr ss r ++ root_target ss l
  | EUnwrap l r => writes_expr ss l ++ writes_expr ss r ++ root_target ss l
  | EFn ps b => writes_block (add_all (push KFunction ss) ps false) b
  end
with writes_stmt (ss : scopes) (s : stmt) : list (scopes * target) :=
  match s with
  | SAssign c m x rhs => writes_expr ss rhs ++ (if m then [(ss, TLex x); (ss, TCap x)] else [(ss, TFun x)])
  | SUnpack c xs rhs => writes_expr ss rhs ++ map (fun x => (ss, TFun x)) xs
  | SReassign l rhs => writes_expr ss l ++ writes_expr ss rhs ++ root_target ss l
  | SExpr e => writes_expr ss e
  | SIf c t e =>
      let si := push KBlock ss in
      writes_expr si c ++ writes_block si t ++ writes_block (push KBlock ss) e
  | SWhile c b => let sw := push KBlock ss in writes_expr sw c ++ writes_block sw b
  | SFrom lo hi cn b =>
      let sl := push KBlock ss in
      writes_expr sl lo ++ writes_expr sl hi ++
      writes_block (match cn with Some x => add sl x false | None => sl end) b ++
      (match cn with Some x => [(ss, TFun x)] | None => [] end)    (* the counter is (re)bound OUTSIDE the loop scope *)
  | SClass x members methods =>
      writes_block (add (add_all (push KClass ss) members false) x true) methods
  | SImport _ | SImportNames _ => []
  end
with writes_block (ss : scopes) (b : block) : list (scopes * target) :=
  match b with
  | BNil => []
  | BCons s r => writes_stmt ss s ++ writes_block (effect ss s) r
  end.

Definition ok_write (w : scopes * target) : Prop := resolves_const (fst w) (snd w) = false.

(* no write form anywhere in the program (any nesting depth) targets a const binding *)
Definition NoConstWrite (p : block) : Prop := Forall ok_write (writes_block file_scope p).

(* executable version, for the examples and for the tie *)
Definition no_const_write_b (p : block) : bool :=
  forallb (fun w => negb (resolves_const (fst w) (snd w))) (writes_block file_scope p).
