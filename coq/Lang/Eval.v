(* Reference semantics of Core MScript: a fuelled definitional interpreter with LEXICAL scoping.
   It is the formal reading of "the language semantics prescribes" for C01/C07/C12/C15 and is
   deliberately independent of the VM: no frames, no operand stack, no registers.

   - variables live in cells of a store, so closures capture by reference;
   - a function value captures the environment visible where the literal is evaluated;
   - `x = e` updates the nearest variable x of the CURRENT function (block scopes inside-out),
     otherwise declares x in the innermost block; `modify x = e` writes the captured variable;
   - operands, call targets and arguments are evaluated left to right, once; && || `or` short-circuit;
   - the language-defined dynamic failures are explicit outcomes. *)
From MS Require Export Lang.Syntax.
From MS Require Import Vm.Model.        (* only for show_Z / i32_ok / assoc helpers *)
Open Scope Z_scope.

Inductive rvalue :=
| RInt (z : Z) | RBool (b : bool) | RStr (s : str) | RNil
| RClos (params : list str) (body : list stmt) (env : list (list (str * N))).

Definition scope := list (str * N).

Inductive failure :=
| FAssert (span : str) | FUnwrapNil (span : str) | FDivZero | FOverflow
| FType (what : N)                      (* a dynamic TYPE error: must never happen in a well-typed program *)
| FUnbound (x : str).

Record rstate := { store : list rvalue; rout : list str }.

Record fenv := { locals : list scope;       (* innermost block first; the last one is the function's own scope *)
                 captured : list scope;     (* the environment the executing function value captured *)
                 cur : option rvalue }.     (* the executing function value (for self(..)) *)

Inductive eres := EVal (v : rvalue) (s : rstate) | ENoVal (s : rstate) | EFail (f : failure) (s : rstate) | EFuel.

Inductive signal := SigNormal | SigBreak | SigContinue | SigReturn (v : option rvalue).
Inductive sres_ := SOk (g : signal) (e : fenv) (s : rstate) | SFailed (f : failure) (s : rstate) | SFuel.

Fixpoint lookup_scopes (x : str) (l : list scope) : option N :=
  match l with [] => None | sc :: l => match assoc x sc with Some c => Some c | None => lookup_scopes x l end end.

Definition rshow (v : rvalue) : option str :=
  match v with
  | RInt z => Some (show_Z z) | RBool true => Some s_true | RBool false => Some s_false
  | RStr s => Some s | RNil => Some s_nil | RClos _ _ _ => None end.

Definition alloc (s : rstate) (v : rvalue) : rstate * N :=
  ({| store := store s ++ [v]; rout := rout s |}, N.of_nat (length (store s))).
Definition sget (s : rstate) (c : N) : option rvalue := nth_error (store s) (N.to_nat c).
Definition sset (s : rstate) (c : N) (v : rvalue) : rstate :=
  {| store := set_nth (N.to_nat c) v (store s); rout := rout s |}.
Definition sprint (s : rstate) (l : str) : rstate := {| store := store s; rout := rout s ++ [l] |}.

Definition declare (e : fenv) (s : rstate) (x : str) (v : rvalue) : fenv * rstate :=
  let '(s, c) := alloc s v in
  match locals e with
  | sc :: r => ({| locals := assoc_set x c sc :: r; captured := captured e; cur := cur e |}, s)
  | [] => ({| locals := [[(x, c)]]; captured := captured e; cur := cur e |}, s)
  end.
Definition undeclare (e : fenv) (x : str) : fenv :=
  match locals e with
  | sc :: r => {| locals := assoc_del x sc :: r; captured := captured e; cur := cur e |}
  | [] => e end.
Definition push_scope (e : fenv) : fenv := {| locals := [] :: locals e; captured := captured e; cur := cur e |}.
Definition pop_scope (e : fenv) : fenv := {| locals := tl (locals e); captured := captured e; cur := cur e |}.

(* x = v *)
Definition assign (e : fenv) (s : rstate) (x : str) (v : rvalue) : fenv * rstate :=
  match lookup_scopes x (locals e) with
  | Some c => (e, sset s c v)
  | None => declare e s x v end.

Definition arith_res (z : Z) (s : rstate) : eres := if i32_ok z then EVal (RInt z) s else EFail FOverflow s.

Definition req (a b : rvalue) : option bool :=
  match a, b with
  | RNil, RNil => Some true | RNil, _ | _, RNil => Some false
  | RInt x, RInt y => Some (x =? y) | RBool x, RBool y => Some (Bool.eqb x y)
  | RStr x, RStr y => Some (str_eqb x y) | _, _ => None end.

Definition binop_sem (o : binop) (a b : rvalue) (s : rstate) : eres :=
  match o, a, b with
  | BEq, _, _ => match req a b with Some r => EVal (RBool r) s | None => EFail (FType 1) s end
  | BNeq, _, _ => match req a b with Some r => EVal (RBool (negb r)) s | None => EFail (FType 1) s end
  | BAdd, RInt x, RInt y => arith_res (x + y) s
  | BSub, RInt x, RInt y => arith_res (x - y) s
  | BMul, RInt x, RInt y => arith_res (x * y) s
  | BDiv, RInt x, RInt y => if y =? 0 then EFail FDivZero s else arith_res (Z.quot x y) s
  | BMod, RInt x, RInt y => if y =? 0 then EFail FDivZero s else arith_res (Z.rem x y) s
  | BLt, RInt x, RInt y => EVal (RBool (x <? y)) s
  | BLe, RInt x, RInt y => EVal (RBool (x <=? y)) s
  | BGt, RInt x, RInt y => EVal (RBool (y <? x)) s
  | BGe, RInt x, RInt y => EVal (RBool (y <=? x)) s
  | BAdd, RStr x, RStr y => EVal (RStr (x ++ y)) s
  | BAdd, RStr x, (RInt _ | RBool _ | RNil) =>
    match rshow b with Some t => EVal (RStr (x ++ t)) s | None => EFail (FType 2) s end
  | BAdd, (RInt _ | RBool _ | RNil), RStr y =>
    match rshow a with Some t => EVal (RStr (t ++ y)) s | None => EFail (FType 2) s end
  | _, _, _ => EFail (FType 2) s
  end.

Fixpoint bind_params (ps : list str) (vs : list rvalue) (s : rstate) (acc : scope) : option (scope * rstate) :=
  match ps, vs with
  | [], [] => Some (acc, s)
  | p :: ps, v :: vs => let '(s, c) := alloc s v in bind_params ps vs s (assoc_set p c acc)
  | _, _ => None end.

Fixpoint eval (fuel : nat) (e : fenv) (x : expr) (s : rstate) {struct fuel} : eres :=
  match fuel with O => EFuel | S fuel =>
  let evals :=
    (fix evals (l : list expr) (s : rstate) (acc : list rvalue) : (list rvalue * rstate) + eres :=
       match l with
       | [] => inl (rev acc, s)
       | a :: l => match eval fuel e a s with
                   | EVal v s => evals l s (v :: acc)
                   | ENoVal s => inr (EFail (FType 3) s)
                   | r => inr r end
       end) in
  let call_clos (f : rvalue) (vs : list rvalue) (s : rstate) : eres :=
    match f with
    | RClos ps body cenv =>
      match bind_params ps vs s [] with
      | None => EFail (FType 4) s
      | Some (sc, s) =>
        match exec_block fuel {| locals := [sc]; captured := cenv; cur := Some f |} body s with
        | SOk (SigReturn (Some v)) _ s => EVal v s
        | SOk _ _ s => ENoVal s
        | SFailed f s => EFail f s
        | SFuel => EFuel end
      end
    | _ => EFail (FType 5) s end in
  match x with
  | EInt z => EVal (RInt z) s
  | EBool b => EVal (RBool b) s
  | EStr t => EVal (RStr t) s
  | ENil => EVal RNil s
  | EVar n => match lookup_scopes n (locals e ++ captured e) with
              | Some c => match sget s c with Some v => EVal v s | None => EFail (FUnbound n) s end
              | None => EFail (FUnbound n) s end
  | EBin o a b =>
    match eval fuel e a s with
    | EVal va s => match eval fuel e b s with
                   | EVal vb s => binop_sem o va vb s
                   | ENoVal s => EFail (FType 3) s | r => r end
    | ENoVal s => EFail (FType 3) s | r => r end
  | EAnd a b =>
    match eval fuel e a s with
    | EVal (RBool false) s => EVal (RBool false) s
    | EVal (RBool true) s => match eval fuel e b s with
                             | EVal (RBool vb) s => EVal (RBool vb) s
                             | EVal _ s | ENoVal s => EFail (FType 6) s | r => r end
    | EVal _ s | ENoVal s => EFail (FType 6) s | r => r end
  | EOr a b =>
    match eval fuel e a s with
    | EVal (RBool true) s => EVal (RBool true) s
    | EVal (RBool false) s => match eval fuel e b s with
                              | EVal (RBool vb) s => EVal (RBool vb) s
                              | EVal _ s | ENoVal s => EFail (FType 6) s | r => r end
    | EVal _ s | ENoVal s => EFail (FType 6) s | r => r end
  | ENot a => match eval fuel e a s with
              | EVal (RBool b) s => EVal (RBool (negb b)) s
              | EVal _ s | ENoVal s => EFail (FType 7) s | r => r end
  | ENeg a => match eval fuel e a s with
              | EVal (RInt z) s => arith_res (- z) s
              | EVal _ s | ENoVal s => EFail (FType 7) s | r => r end
  | ECall f l =>
    match eval fuel e f s with
    | EVal vf s => match evals l s [] with
                   | inl (vs, s) => call_clos vf vs s
                   | inr r => r end
    | ENoVal s => EFail (FType 3) s | r => r end
  | ESelf l =>
    match evals l s [] with
    | inl (vs, s) => match cur e with Some f => call_clos f vs s | None => EFail (FType 8) s end
    | inr r => r end
  | EFn ps body => EVal (RClos ps body (locals e ++ captured e)) s
  | ENilOr a b =>
    match eval fuel e a s with
    | EVal RNil s => eval fuel e b s
    | r => r end
  | EGet a span =>
    match eval fuel e a s with
    | EVal RNil s => EFail (FUnwrapNil span) s
    | r => r end
  end end
with exec (fuel : nat) (e : fenv) (st : stmt) (s : rstate) {struct fuel} : sres_ :=
  match fuel with O => SFuel | S fuel =>
  let ev (x : expr) (s : rstate) (k : rvalue -> rstate -> sres_) : sres_ :=
    match eval fuel e x s with
    | EVal v s => k v s | ENoVal s => SFailed (FType 3) s | EFail f s => SFailed f s | EFuel => SFuel end in
  let in_block (body : list stmt) (e : fenv) (s : rstate) : sres_ :=
    match exec_block fuel (push_scope e) body s with
    | SOk g e s => SOk g (pop_scope e) s | r => r end in
  match st with
  | SAssign x v => ev v s (fun v s => let '(e, s) := assign e s x v in SOk SigNormal e s)
  | SModify x v => ev v s (fun v s => match lookup_scopes x (captured e) with
                                        | Some c => SOk SigNormal e (sset s c v)
                                        | None => SFailed (FUnbound x) s end)
  | SOpAssign x o v =>
    ev v s (fun v s =>
      match lookup_scopes x (locals e ++ captured e) with
      | Some c => match sget s c with
                  | Some cur_ => match binop_sem o cur_ v s with
                                 | EVal r s => SOk SigNormal e (sset s c r)
                                 | EFail f s => SFailed f s | _ => SFailed (FType 9) s end
                  | None => SFailed (FUnbound x) s end
      | None => SFailed (FUnbound x) s end)
  | SPrint v => ev v s (fun v s => match rshow v with
                                    | Some l => SOk SigNormal e (sprint s l) | None => SFailed (FType 10) s end)
  | SAssert v span => ev v s (fun v s => match v with
                                          | RBool true => SOk SigNormal e s
                                          | RBool false => SFailed (FAssert span) s
                                          | _ => SFailed (FType 11) s end)
  | SExpr v => match eval fuel e v s with
               | EVal _ s | ENoVal s => SOk SigNormal e s | EFail f s => SFailed f s | EFuel => SFuel end
  | SIf c body => ev c s (fun v s => match v with
                                      | RBool true => in_block body e s
                                      | RBool false => SOk SigNormal e s
                                      | _ => SFailed (FType 12) s end)
  | SIfElse c body els => ev c s (fun v s => match v with
                                              | RBool true => in_block body e s
                                              | RBool false => in_block els e s
                                              | _ => SFailed (FType 12) s end)
  | SIfElif c body nxt => ev c s (fun v s => match v with
                                              | RBool true => in_block body e s
                                              | RBool false => in_block [nxt] e s
                                              | _ => SFailed (FType 12) s end)
  | SWhile c body =>
    ev c s (fun v s => match v with
                       | RBool false => SOk SigNormal e s
                       | RBool true =>
                         match in_block body e s with
                         | SOk (SigNormal | SigContinue) e s => exec fuel e st s
                         | SOk SigBreak e s => SOk SigNormal e s
                         | r => r end
                       | _ => SFailed (FType 12) s end)
  | SFrom a b incl step name collide body =>
    ev a s (fun va s => ev b s (fun vb s =>
      match va, vb with
      | RInt _, RInt hi =>
        (* the counter: a named, non-colliding counter is a fresh variable of the enclosing block that is
           removed after the loop; a colliding one is the existing variable; an anonymous one is hidden *)
        let cname := match name with Some x => x | None => [0%N] end in
        let '(e, s) := (if collide then assign e s cname va else declare e s cname va) in
        (fix iter (n : nat) (e : fenv) (s : rstate) : sres_ :=
           match n with O => SFuel | S n =>
           match lookup_scopes cname (locals e) with
           | None => SFailed (FUnbound cname) s
           | Some c =>
             match sget s c with
             | Some (RInt i) =>
               if (if incl then i <=? hi else i <? hi) then
                 match in_block body e s with
                 | SOk (SigNormal | SigContinue) e s =>
                   let bump (sv : rvalue) (s : rstate) : sres_ :=
                     match sget s c, sv with
                     | Some (RInt i'), RInt d => if i32_ok (i' + d) then iter n e (sset s c (RInt (i' + d)))
                                                 else SFailed FOverflow s
                     | _, _ => SFailed (FType 13) s end in
                   match step with
                   | None => bump (RInt 1) s
                   | Some se => match eval fuel e se s with
                                | EVal sv s => bump sv s | ENoVal s => SFailed (FType 3) s
                                | EFail f s => SFailed f s | EFuel => SFuel end
                   end
                 | SOk SigBreak e s => SOk SigNormal (if collide then e else undeclare e cname) s
                 | SOk g e s => SOk g (if collide then e else undeclare e cname) s
                 | r => r end
               else SOk SigNormal (if collide then e else undeclare e cname) s
             | _ => SFailed (FType 13) s end
           end end) fuel e s
      | _, _ => SFailed (FType 13) s end))
  | SBreak => SOk SigBreak e s
  | SContinue => SOk SigContinue e s
  | SReturn None => SOk (SigReturn None) e s
  | SReturn (Some v) => ev v s (fun v s => SOk (SigReturn (Some v)) e s)
  end end
with exec_block (fuel : nat) (e : fenv) (l : list stmt) (s : rstate) {struct fuel} : sres_ :=
  match fuel with O => SFuel | S fuel =>
  match l with
  | [] => SOk SigNormal e s
  | st :: l => match exec fuel e st s with
               | SOk SigNormal e s => exec_block fuel e l s
               | r => r end
  end end.

Inductive routcome := RODone | ROFail (f : failure) | ROFuel.

Definition run (fuel : nat) (p : source) : list str * routcome :=
  match exec_block fuel {| locals := [[]]; captured := []; cur := None |} p {| store := []; rout := [] |} with
  | SOk _ _ s => (rout s, RODone)
  | SFailed f s => (rout s, ROFail f)
  | SFuel => ([], ROFuel)
  end.
