(* Core MScript: the fragment of the source language the VM-family properties (C01, C07, C09, C12,
   C15, C17) quantify over.  One AST shared by the code-generator model (Compile/Compile.v), the
   reference semantics (Lang/Eval.v) and the Python generators (which render the same tree as .ms text). *)
From Coq Require Export ZArith.
From MS Require Export Base.Str.

Inductive binop := BAdd | BSub | BMul | BDiv | BMod | BLt | BLe | BGt | BGe | BEq | BNeq.

Inductive expr :=
| EInt (z : Z) | EBool (b : bool) | EStr (s : str) | ENil
| EVar (x : str)
| EBin (o : binop) (a b : expr)
| EAnd (a b : expr) | EOr (a b : expr)
| ENot (a : expr) | ENeg (a : expr)
| ECall (f : expr) (args : list expr)
| ESelf (args : list expr)                              (* self(..): recursive call *)
| EFn (params : list str) (body : list stmt)            (* function literal *)
| ENilOr (a b : expr)                                   (* (a) or b *)
| EGet (a : expr) (span : str)                          (* get a *)
with stmt :=
| SAssign (x : str) (e : expr)                          (* x = e   (also typed / const forms) *)
| SModify (x : str) (e : expr)                          (* modify x = e *)
| SOpAssign (x : str) (o : binop) (e : expr)            (* x += e  etc. *)
| SPrint (e : expr)
| SAssert (e : expr) (span : str)
| SExpr (e : expr)
| SIf (c : expr) (body : list stmt)
| SIfElse (c : expr) (body els : list stmt)
| SIfElif (c : expr) (body : list stmt) (nxt : stmt)    (* nxt is itself an if-statement *)
| SWhile (c : expr) (body : list stmt)
| SFrom (a b : expr) (incl : bool) (step : option expr) (name : option str) (collide : bool) (body : list stmt)
| SBreak | SContinue
| SReturn (e : option expr).

Definition source := list stmt.                        (* the module's top-level statements *)
