(* C07 -- closures capture variables by reference; `modify` writes through.
   Pinned VM-level theorems (proofs in Vm/ClosureLemmas.v), for ALL states of the VM model:
   make_function shares the creator's cells; store on an existing name updates the cell in place (so every
   holder sees it); modify (store_object) writes the captured cell and touches no frame; a plain binding in
   the callee is a fresh cell (captured variables untouched); no captures = not a closure.
   PARTIAL: the source-level statement (simulation of closure programs against Lang/Eval.v) is established
   by the T1/T2/T3 correspondences on every run, not by a theorem; the real compiler's capture lists are
   compared with Compile.free_vars on every generated program. *)
From MS Require Import Vm.Model Vm.ClosureLemmas.

Check capture_shares : forall a g ns m, capture a g ns = Some m -> forall n, In n ns -> assoc n m = lookup_var a g n.
Theorem C07_capture_shares_partial : forall a g ns m, capture a g ns = Some m ->
  forall n, In n ns -> assoc n m = lookup_var a g n.
Proof. exact capture_shares. Qed.
Theorem C07_store_updates_in_place : forall g n v c,
  find_in_function n (frames g) = Some c -> store_var g n v = Some (cell_set g c v).
Proof. exact store_updates_in_place. Qed.
Theorem C07_modify_writes_captured_cell : forall a g n v c,
  a_ops a = [v] -> load_cb a g n = Some c ->
  exec_d (DStoreObject n) a g = SNext (set_ops a []) (cell_set g c v) /\ frames (cell_set g c v) = frames g.
Proof. exact modify_writes_captured_cell. Qed.
Theorem C07_bind_local_fresh : forall g n v g', bind_local g n v = Some g' ->
  forall c x, cell_get g c = Some x -> cell_get g' c = Some x.
Proof. exact bind_local_fresh. Qed.
Theorem C07_no_captures_not_closure : forall a g loc,
  exec_d (DMakeFunction loc []) a g = SNext (set_ops a (a_ops a ++ [VFun loc None])) g.
Proof. exact no_captures_not_closure. Qed.
Print Assumptions C07_capture_shares_partial.
Print Assumptions C07_store_updates_in_place.
Print Assumptions C07_modify_writes_captured_cell.
Print Assumptions C07_bind_local_fresh.

(* ---------------------------------------------------------------------------------------------
   Static half: WHICH names a function value captures.  The capture list the code generator attaches
   to make_function (Compile.free_vars = the model of get_net_dependencies & co., compared with the real
   compiler's lists on every run) is EXACTLY the set of free variables of the literal, for the
   declarative, order-aware definition FreeE / FreeS / FreeBlock of Compile/CaptureSpec.v (written as
   inference rules, independently of the code of fv_e / fv_s); all expressions / statements, any nesting
   of function literals.  Proofs in Compile/CaptureSpec.v.
   Semantic reading (Compile/CaptureSem.v), PARTIAL: for bodies of the first-order fragment (no call /
   self-call / literal INSIDE the body; WfB also carries the two rules the compiler enforces: `modify`
   only on a non-local, a fresh counter is not already a local) the result of calling the closure depends
   on its captured environment only through free_vars: restricting the environment to the capture list
   changes nothing.  Full statement (bodies with calls, needs a step-indexed relation on closure values):
     forall fuel ps body cenv vs s, call_closure fuel (RClos ps body cenv) vs s
        ~ call_closure fuel (RClos ps body (restrict_env (free_vars ps body) cenv)) vs s            *)
From MS Require Import Lang.Syntax Compile.Compile Compile.ExprBase Compile.CaptureSpec Compile.CaptureSem Lang.Eval.

Check fv_sound_complete : forall e bound x, In x (fv_e bound e) <-> FreeE bound e x.
Theorem C07_fv_sound_complete : forall e bound x, In x (fv_e bound e) <-> FreeE bound e x.
Proof. exact fv_sound_complete. Qed.
Theorem C07_fv_s_sound_complete : forall s bound x, In x (fst (fv_s bound s)) <-> FreeS bound s x.
Proof. exact fv_s_sound_complete. Qed.
Theorem C07_fv_s_binds : forall s bound, snd (fv_s bound s) = binds s ++ bound.
Proof. exact fv_s_binds. Qed.
Theorem C07_free_vars_spec : forall ps body x, In x (free_vars ps body) <-> FreeBlock ps body x.
Proof. exact free_vars_spec. Qed.
Theorem C07_free_vars_NoDup : forall ps body, NoDup (free_vars ps body).
Proof. exact free_vars_NoDup. Qed.
Theorem C07_no_free_vars_no_captures : forall ps body,
  free_vars ps body = [] <-> (forall x, ~ FreeBlock ps body x).
Proof. exact no_free_vars_no_captures. Qed.
Theorem C07_make_function_captures_spec : forall path d ps body st, exists name l,
  fst (cexpr path d (EFn ps body) st) = [I OP_MAKE_FUNCTION (name :: l)]
  /\ NoDup l /\ (forall x, In x l <-> FreeBlock ps body x).
Proof. exact make_function_captures_spec. Qed.
Theorem C07_make_function_no_captures_iff : forall path d ps body st,
  (exists name, fst (cexpr path d (EFn ps body) st) = [I OP_MAKE_FUNCTION [name]])
  <-> (forall x, ~ FreeBlock ps body x).
Proof. exact make_function_no_captures_iff. Qed.
Theorem C07_closed_literal_is_not_a_closure : forall path d ps body st,
  (forall x, ~ FreeBlock ps body x) ->
  exists name, strip (fst (cexpr path d (EFn ps body) st)) = [mkI OP_MAKE_FUNCTION [name]]
    /\ decode (mkI OP_MAKE_FUNCTION [name]) = DOk (DMakeFunction name [])
    /\ forall a g, exec_d (DMakeFunction name []) a g = SNext (set_ops a (a_ops a ++ [VFun name None])) g.
Proof. exact closed_literal_is_not_a_closure. Qed.
Theorem C07_open_literal_captures : forall path d ps body st x,
  FreeBlock ps body x ->
  exists name l, strip (fst (cexpr path d (EFn ps body) st)) = [mkI OP_MAKE_FUNCTION (name :: l)]
    /\ In x l /\ l <> []
    /\ decode (mkI OP_MAKE_FUNCTION (name :: l)) = DOk (DMakeFunction name l).
Proof. exact open_literal_captures. Qed.
(* the specification is a sane notion of "free": only the membership of x itself in `bound` matters,
   nothing bound is free, parameters are never captured, and the other reading of a colliding counter
   ("no new binding") gives the same set *)
Theorem C07_FreeBlock_ext : forall l b1 b2 x, (In x b1 <-> In x b2) -> (FreeBlock b1 l x <-> FreeBlock b2 l x).
Proof. exact FreeBlock_ext. Qed.
Theorem C07_FreeBlock_not_bound : forall l bound x, FreeBlock bound l x -> ~ In x bound.
Proof. exact FreeBlock_not_bound. Qed.
Theorem C07_params_not_captured : forall ps body x, In x ps -> ~ In x (free_vars ps body).
Proof. exact params_not_captured. Qed.
Theorem C07_colliding_counter_no_new_binding : forall bound a b incl step c body x,
  FreeS bound (SFrom a b incl step (Some c) true body) x <->
    FreeE bound a x \/ FreeE bound b x \/ (x = c /\ ~ In c bound)
    \/ FreeBlock bound body x \/ (exists e, step = Some e /\ FreeE bound e x).
Proof. exact colliding_counter_no_new_binding. Qed.

(* semantic reading, first-order bodies *)
Theorem C07_closure_depends_only_on_free_vars_partial : forall fuel ps body cenv1 cenv2 vs s,
  WfB ps body ->
  (forall x, In x (free_vars ps body) -> lookup_scopes x cenv1 = lookup_scopes x cenv2) ->
  call_closure fuel (RClos ps body cenv1) vs s = call_closure fuel (RClos ps body cenv2) vs s.
Proof. exact closure_depends_only_on_free_vars. Qed.
Theorem C07_capture_list_suffices_partial : forall fuel ps body cenv vs s,
  WfB ps body ->
  call_closure fuel (RClos ps body cenv) vs s
  = call_closure fuel (RClos ps body (restrict_env (free_vars ps body) cenv)) vs s.
Proof. exact capture_list_suffices. Qed.
Theorem C07_literal_call_sees_only_free_vars_partial : forall fuel e ps body args s,
  WfB ps body ->
  eval (S (S fuel)) e (ECall (EFn ps body) args) s =
    match eval_args (S fuel) e args s [] with
    | inl (vs, s') =>
      call_closure (S fuel)
        (RClos ps body (restrict_env (free_vars ps body) (locals e ++ captured e))) vs s'
    | inr r => r end.
Proof. exact literal_call_sees_only_free_vars. Qed.

Print Assumptions C07_fv_sound_complete.
Print Assumptions C07_fv_s_sound_complete.
Print Assumptions C07_free_vars_spec.
Print Assumptions C07_no_free_vars_no_captures.
Print Assumptions C07_make_function_captures_spec.
Print Assumptions C07_make_function_no_captures_iff.
Print Assumptions C07_closed_literal_is_not_a_closure.
Print Assumptions C07_open_literal_captures.
Print Assumptions C07_FreeBlock_ext.
Print Assumptions C07_params_not_captured.
Print Assumptions C07_colliding_counter_no_new_binding.
Print Assumptions C07_closure_depends_only_on_free_vars_partial.
Print Assumptions C07_capture_list_suffices_partial.
Print Assumptions C07_literal_call_sees_only_free_vars_partial.

(* non-vacuity (more in Compile/CaptureSpec.v, module CaptureExamples, and Compile/CaptureSem.v) *)
Import CaptureExamples.
(* fn() { print x; x = 1 } : x IS free (read before it becomes local) *)
Example C07_ex_read_then_assign : free_vars [] [SPrint (EVar x_); SAssign x_ (EInt 1)] = [x_].
Proof. vm_compute. reflexivity. Qed.
(* fn() { x = 1; print x } : x is NOT free; the literal compiles to make_function with no captures *)
Example C07_ex_assign_then_read : free_vars [] [SAssign x_ (EInt 1); SPrint (EVar x_)] = []
  /\ forall z, ~ FreeBlock [] [SAssign x_ (EInt 1); SPrint (EVar x_)] z.
Proof. split; [vm_compute; reflexivity|exact assign_then_read_closed]. Qed.
(* a counter named like an outer variable is that variable (captured); a fresh one is local to the loop *)
Example C07_ex_counter :
  free_vars [] [SFrom (EInt 0) (EInt 3) false None (Some i_) true [SPrint (EVar i_)]] = [i_]
  /\ free_vars [] [SFrom (EInt 0) (EInt 3) false None (Some i_) false [SPrint (EVar i_)]] = []
  /\ free_vars [] [SFrom (EInt 0) (EInt 3) false None (Some i_) false [SPrint (EVar i_)]; SPrint (EVar i_)] = [i_].
Proof. vm_compute. repeat split; reflexivity. Qed.
(* fn(y) { return fn() { return fn() { return x + y } } } : x through two levels, y is a parameter *)
Example C07_ex_two_levels : free_vars [y_] [SReturn (Some inner1)] = [x_]
  /\ free_vars [] [SReturn (Some inner2)] = [x_; y_].
Proof. vm_compute. split; reflexivity. Qed.
(* fn(o) { return (o) or d } *)
Example C07_ex_nil_or : free_vars [o_] [SReturn (Some (ENilOr (EVar o_) (EVar d_)))] = [d_].
Proof. vm_compute. reflexivity. Qed.
(* the emitted instructions *)
Example C07_ex_emitted : forall path,
  strip (fst (cexpr path 0 (EFn [] [SAssign x_ (EInt 1); SPrint (EVar x_)]) {| fid := 0; lreg := 0; fbuf := [] |}))
    = [mkI OP_MAKE_FUNCTION [fn_name path 0]]
  /\ strip (fst (cexpr path 0 (EFn [] [SPrint (EVar x_); SAssign x_ (EInt 1)]) {| fid := 0; lreg := 0; fbuf := [] |}))
    = [mkI OP_MAKE_FUNCTION [fn_name path 0; x_]].
Proof. intros path. split; reflexivity. Qed.
(* the semantic theorem is not about an inert environment, and its side condition is necessary *)
Example C07_ex_free_var_is_observed :
  call_closure 10 (RClos [] CaptureSemExamples.body1 []) [] CaptureSemExamples.st0
  = EFail (FUnbound x_) CaptureSemExamples.st0.
Proof. vm_compute. reflexivity. Qed.

(* ---------------------------------------------------------------------------------------------
   The SOURCE-LEVEL statement, as a theorem on a decidable fragment (Compile/ClosFrag.v .. Compile/ClosTop.v):
   closure programs -- function literals anywhere (factories whose every call creates fresh cells, closures created in
   if / loop bodies over block-local variables, nesting of any depth), closures capture BY REFERENCE (the owner's later
   assignments are seen; `modify` inside a closure writes through the captured cell, visible to the owner and to every
   other closure over it), function values returned, stored, re-assigned, passed as arguments and called through
   variables; statements: assignment, modify, op-assignment, print, assert, expression statements, if, if / else, else-if,
   while, from loops of every form, break, continue, return; calls (also `self(..)`) anywhere in expressions.  For every such program the model compiler's code, run by the VM model, prints exactly the lines the reference
   semantics (Lang/Eval.v: lexical scoping, capture by reference, modify writes the captured cell, plain assignment
   declares a local) prescribes and ends the same way.  `in_fragment2` is a kind checker (data vs. function values) plus
   a check that the code generator's output is what the simulation's code functions say; the C07 check evaluates the
   extracted `in_fragment` (= in_fragment1 || in_fragment2) on every program it generates.
   PARTIAL: outside the fragment (calls in the step expression of a from loop; a step that reads a captured variable the body
   shadows; the value of a
   function that returns no value on one path used as an operand) the statement is established by the T1/T2/T3
   correspondences only. *)
From MS Require Import Compile.ClosFrag Compile.ClosRel Compile.ClosSim Compile.ClosTop Compile.StmtSim Compile.StmtFragB Compile.StmtExamples Compile.ClosExamples.
Check closure_module_correct.
Theorem C07_closure_programs_correct_partial : forall (path : str) (p : source), in_fragment2 path p = true ->
  forall fuel : nat, snd (run fuel p) <> ROFuel ->
  no_claim (snd (run fuel p)) \/
  (exists fuel' : nat,
     fst (fst (execute fuel' (cprogram path p) (s_module_fn path))) = fst (run fuel p) /\
     vm_outcome_ok (snd (run fuel p)) (snd (fst (execute fuel' (cprogram path p) (s_module_fn path))))).
Proof. exact closure_module_correct. Qed.
Print Assumptions C07_closure_programs_correct_partial.
(* every call: ANY closure related to a VM function value (whatever created it, wherever it was stored or passed) does
   what call_clos does; related cells hold related values afterwards (writes through captured cells included) *)
Check call_sim_all.
(* the code generator (Compile/Compile.v) computes the code functions of the simulation on the fragment *)
Check comp_both.
(* non-vacuity: an owner variable with a reader and a writer closure, a factory instantiated twice (each instance its
   own cell, shared by two closures), depth-3 nesting with modify from the innermost function, a closure created in a
   loop body and kept, a closure passed as an argument: inside the fragment, VM == reference semantics, 8 lines *)
Check C07_nv_closure_program.
Example C07_nv_in_fragment : in_fragment2 nvp nv_c07 = true /\ in_fragment nvp nv_c07 = true.
Proof. vm_compute. split; reflexivity. Qed.
