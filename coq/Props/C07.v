(* C07 -- closures capture variables by reference; `modify` writes through.
   Pinned VM-level theorems (proofs in Vm/ClosureLemmas.v), for ALL states of the VM model:
   make_function shares the creator's cells; store on an existing name updates the cell in place (so every
   holder sees it); modify (store_object) writes the captured cell and touches no frame; a plain binding in
   the callee is a fresh cell (captured variables untouched); no captures = not a closure.
   PARTIAL: the source-level statement (simulation of closure programs against Lang/Eval.v) is established
   by the T1/T2/T3 correspondences on every run, not by a theorem; the real compiler's capture lists are
   compared with Compile.free_vars on every generated program. *)
From MS Require Import Vm.Model Vm.ClosureLemmas.

Check capture_shares : forall a g ns m, capture a g ns = Some m -> forall n, In n ns -> assoc n m = lookup_var a g n.
Theorem C07_capture_shares_partial : forall a g ns m, capture a g ns = Some m ->
  forall n, In n ns -> assoc n m = lookup_var a g n.
Proof. exact capture_shares. Qed.
Theorem C07_store_updates_in_place : forall g n v c,
  find_in_function n (frames g) = Some c -> store_var g n v = Some (cell_set g c v).
Proof. exact store_updates_in_place. Qed.
Theorem C07_modify_writes_captured_cell : forall a g n v c,
  a_ops a = [v] -> load_cb a g n = Some c ->
  exec_d (DStoreObject n) a g = SNext (set_ops a []) (cell_set g c v) /\ frames (cell_set g c v) = frames g.
Proof. exact modify_writes_captured_cell. Qed.
Theorem C07_bind_local_fresh : forall g n v g', bind_local g n v = Some g' ->
  forall c x, cell_get g c = Some x -> cell_get g' c = Some x.
Proof. exact bind_local_fresh. Qed.
Theorem C07_no_captures_not_closure : forall a g loc,
  exec_d (DMakeFunction loc []) a g = SNext (set_ops a (a_ops a ++ [VFun loc None])) g.
Proof. exact no_captures_not_closure. Qed.
Print Assumptions C07_capture_shares_partial.
Print Assumptions C07_store_updates_in_place.
Print Assumptions C07_modify_writes_captured_cell.
Print Assumptions C07_bind_local_fresh.
