(* C04 -- `run` and `compile`+`execute` are observationally equivalent: every instruction and every
   argument is read back from a bytecode file exactly as the compiler emitted it.
   Pinned statements only; proofs live in Codec/Proofs.v. *)
From MS Require Import Codec.Model Codec.Proofs.

(* tokenizer (writer (arguments)) = arguments, for ALL argument lists: any length, any characters *)
Check args_roundtrip : forall l : list str, l <> [] -> split true (tl (emit_args l)) = Some l.
Theorem C04_args_roundtrip : forall l : list str, l <> [] -> split true (tl (emit_args l)) = Some l.
Proof. exact args_roundtrip. Qed.
Print Assumptions C04_args_roundtrip.

(* loader (writer (functions)) = functions, for ALL files of well-formed functions
   (NUL-free names and arguments, opcode neither NUL nor `e`, distinct names) *)
Check file_roundtrip : forall fs : list func,
  Forall wf_func fs -> NoDup (names fs) -> load (emit_bin fs) = Some fs.
Theorem C04_file_roundtrip : forall fs : list func,
  Forall wf_func fs -> NoDup (names fs) -> load (emit_bin fs) = Some fs.
Proof. exact file_roundtrip. Qed.
Print Assumptions C04_file_roundtrip.

(* non-vacuity: a function with every special character in its arguments is well formed and round-trips *)
Example C04_nonvacuous :
  let f := {| fname := [97; 46; 109; 109; 109; 35; 102];
              body := [ {| op := 7; args := [[34; 92; 32; 9; 10; 13; 110; 114; 116; 233; 8232]; []] |};
                        {| op := 15; args := [] |} ] |} in
  load (emit_bin [f]) = Some [f].
Proof. vm_compute. reflexivity. Qed.

(* ------------------------------------------------------------------------------------------
   UTF-8: the statements above are about files as lists of Unicode scalars; the real writer
   writes a Rust String (= `encode` of its scalars) and the real loader reads BYTES.  What used to
   be an assumption ("UTF-8 is a bijection between scalar sequences and their encodings that maps
   only U+0000 to a zero byte") is proved in Codec/Utf8.v, and the byte-level loader is connected
   to the scalar-level model in Codec/Utf8Proofs.v. *)
From MS Require Import Codec.Utf8 Codec.Utf8Proofs.

(* String::from_utf8 (String::into_bytes s) = Ok s, for ALL strings *)
Check decode_encode : forall s, scalars s -> decode (encode s) = Some s.
Theorem C04_utf8_decode_encode : forall s, scalars s -> decode (encode s) = Some s.
Proof. exact decode_encode. Qed.
Print Assumptions C04_utf8_decode_encode.

Check encode_injective : forall s t, scalars s -> scalars t -> encode s = encode t -> s = t.
Theorem C04_utf8_encode_injective : forall s t, scalars s -> scalars t -> encode s = encode t -> s = t.
Proof. exact encode_injective. Qed.
Print Assumptions C04_utf8_encode_injective.

(* the strict decoder accepts only canonical encodings of scalar strings (no overlong forms, no
   surrogates, nothing above 0x10FFFF, no truncated or stray continuation bytes): it is THE
   inverse of encode on its domain *)
Check encode_decode : forall b s, decode b = Some s -> encode s = b.
Theorem C04_utf8_encode_decode : forall b s, decode b = Some s -> encode s = b.
Proof. exact encode_decode. Qed.
Print Assumptions C04_utf8_encode_decode.

Check decode_spec : forall b s, decode b = Some s <-> (scalars s /\ encode s = b).
Theorem C04_utf8_decode_spec : forall b s, decode b = Some s <-> (scalars s /\ encode s = b).
Proof. exact decode_spec. Qed.
Print Assumptions C04_utf8_decode_spec.

(* from_utf8_lossy coincides with from_utf8 on valid input (the loader uses it for arguments) *)
Check decode_lossy_valid : forall b s, decode b = Some s -> decode_lossy b = s.
Theorem C04_utf8_lossy_valid : forall b s, decode b = Some s -> decode_lossy b = s.
Proof. exact decode_lossy_valid. Qed.
Print Assumptions C04_utf8_lossy_valid.

Check encode_bytes : forall s, scalars s -> Forall (fun b => b < 256) (encode s).
Theorem C04_utf8_encode_bytes : forall s, scalars s -> Forall (fun b => b < 256) (encode s).
Proof. exact encode_bytes. Qed.
Print Assumptions C04_utf8_encode_bytes.

Check encode_app : forall a b, encode (a ++ b) = encode a ++ encode b.
Theorem C04_utf8_encode_app : forall a b, encode (a ++ b) = encode a ++ encode b.
Proof. exact encode_app. Qed.
Print Assumptions C04_utf8_encode_app.

(* the arithmetic `encode_char` is core::char::encode_utf8_raw's shifts and masks *)
Check encode_char_bits_eq : forall c, c <= 0x10FFFF -> encode_char_bits c = encode_char c.
Theorem C04_utf8_encode_char_bits : forall c, c <= 0x10FFFF -> encode_char_bits c = encode_char c.
Proof. exact encode_char_bits_eq. Qed.
Print Assumptions C04_utf8_encode_char_bits.

(* THE separator lemma: a zero byte occurs in an encoding only as the encoding of U+0000 ... *)
Check zero_byte_iff : forall s, In 0 (encode s) <-> In 0 s.
Theorem C04_utf8_zero_byte_iff : forall s, In 0 (encode s) <-> In 0 s.
Proof. exact zero_byte_iff. Qed.
Print Assumptions C04_utf8_zero_byte_iff.

(* ... and more generally any ASCII byte (`f`, `e`, space, quote, backslash, the opcodes) occurs in
   an encoding exactly where that ASCII scalar occurs in the string: every byte of a multi-byte
   sequence is >= 0x80.  (Holds for arbitrary N lists, no `scalars` hypothesis needed.) *)
Check ascii_byte_iff : forall s b, b < 128 -> (In b (encode s) <-> In b s).
Theorem C04_utf8_ascii_byte_iff : forall s b, b < 128 -> (In b (encode s) <-> In b s).
Proof. exact ascii_byte_iff. Qed.
Print Assumptions C04_utf8_ascii_byte_iff.

(* read_until(0x00) on the encoded file = the encodings of the scalar-level records *)
Check records_bytes_encode : forall f, records_bytes (encode f) = map encode (records f).
Theorem C04_records_bytes_encode : forall f, records_bytes (encode f) = map encode (records f).
Proof. exact records_bytes_encode. Qed.
Print Assumptions C04_records_bytes_encode.

Check records_bytes_decode : forall f, scalars f ->
  map decode (records_bytes (encode f)) = map Some (records f).
Theorem C04_records_bytes_decode : forall f, scalars f ->
  map decode (records_bytes (encode f)) = map Some (records f).
Proof. exact records_bytes_decode. Qed.
Print Assumptions C04_records_bytes_decode.

(* the byte-level loader (byte patterns, from_utf8 on the name, from_utf8_lossy on the arguments)
   run on an encoded file is the scalar-level loader run on the file, provided every record starts
   with an ASCII character *)
Check load_bytes_encode : forall f,
  Forall scalars (records f) -> Forall ascii_head (records f) -> load_bytes (encode f) = load f.
Theorem C04_load_bytes_encode : forall f,
  Forall scalars (records f) -> Forall ascii_head (records f) -> load_bytes (encode f) = load f.
Proof. exact load_bytes_encode. Qed.
Print Assumptions C04_load_bytes_encode.

(* loader-on-BYTES (UTF-8 (writer (functions))) = functions, for ALL files of well-formed
   functions whose names/arguments are Rust Strings and whose opcodes are < 128 (one byte) *)
Check file_roundtrip_bytes : forall fs : list func,
  Forall wf_func fs -> Forall wf_func_b fs -> NoDup (names fs) ->
  load_bytes (encode (emit_bin fs)) = Some fs.
Theorem C04_file_roundtrip_bytes : forall fs : list func,
  Forall wf_func fs -> Forall wf_func_b fs -> NoDup (names fs) ->
  load_bytes (encode (emit_bin fs)) = Some fs.
Proof. exact file_roundtrip_bytes. Qed.
Print Assumptions C04_file_roundtrip_bytes.

(* non-vacuity: e-acute (2 bytes), U+2028 (3), U+1F600 (4), NUL inside a string *)
Example C04_utf8_ex_encode :
  encode [233] = [0xC3; 0xA9] /\ encode [0x2028] = [0xE2; 0x80; 0xA8] /\
  encode [0x1F600] = [0xF0; 0x9F; 0x98; 0x80] /\ encode [97; 0; 233; 0] = [97; 0; 0xC3; 0xA9; 0] /\
  encode [0x7F; 0x80; 0x7FF; 0x800; 0xD7FF; 0xE000; 0xFFFF; 0x10000; 0x10FFFF] =
    [0x7F; 0xC2;0x80; 0xDF;0xBF; 0xE0;0xA0;0x80; 0xED;0x9F;0xBF; 0xEE;0x80;0x80; 0xEF;0xBF;0xBF;
     0xF0;0x90;0x80;0x80; 0xF4;0x8F;0xBF;0xBF].
Proof. vm_compute. repeat split. Qed.

Example C04_utf8_ex_decode :
  decode [97; 0; 0xC3; 0xA9; 0xE2; 0x80; 0xA8; 0xF0; 0x9F; 0x98; 0x80] = Some [97; 0; 233; 0x2028; 0x1F600].
Proof. vm_compute. reflexivity. Qed.

(* the strict decoder rejects: overlong 2/3/4-byte forms, a surrogate, > 0x10FFFF, a truncated
   sequence, a stray continuation byte, a bad continuation byte, 0xFF, a non-byte *)
Example C04_utf8_ex_reject :
  map decode [[0xC0; 0x80]; [0xC1; 0xBF]; [0xE0; 0x9F; 0xBF]; [0xF0; 0x8F; 0xBF; 0xBF];
              [0xED; 0xA0; 0x80]; [0xF4; 0x90; 0x80; 0x80]; [0xE2; 0x80]; [0x80];
              [0xC3; 0x41]; [0xFF]; [300]] = repeat None 11.
Proof. vm_compute. reflexivity. Qed.

(* ... where the lossy decoder substitutes U+FFFD per maximal invalid prefix (std's documented
   behaviour: "Hello \xF0\x90\x80World" -> "Hello \u{FFFD}World") *)
Example C04_utf8_ex_lossy :
  decode_lossy [72; 0xF0; 0x90; 0x80; 87] = [72; 0xFFFD; 87] /\
  decode_lossy [0xC0; 0x80; 0xE2; 0x80; 0x41; 0xED; 0xA0; 0x80] =
    [0xFFFD; 0xFFFD; 0xFFFD; 0x41; 0xFFFD; 0xFFFD; 0xFFFD].
Proof. vm_compute. split; reflexivity. Qed.

(* a NUL inside the file splits the byte records exactly where it splits the scalar records *)
Example C04_utf8_ex_records :
  records_bytes (encode [102; 32; 233; 0x1F600; 0; 101; 0; 7]) =
    [[102; 32; 0xC3; 0xA9; 0xF0; 0x9F; 0x98; 0x80; 0]; [101; 0]; [7]].
Proof. vm_compute. reflexivity. Qed.

(* the byte-level round trip on a function with multi-byte characters in name and arguments;
   the hypotheses of C04_file_roundtrip_bytes are satisfiable *)
Example C04_bytes_nonvacuous :
  let f := {| fname := [97; 46; 109; 109; 109; 35; 233; 0x1F600];
              body := [ {| op := 7; args := [[34; 92; 32; 9; 10; 13; 110; 114; 116; 233; 8232; 0x1F600]; []] |};
                        {| op := 15; args := [] |} ] |} in
  load_bytes (encode (emit_bin [f])) = Some [f] /\
  existsb (fun b => 128 <=? b) (encode (emit_bin [f])) = true.
Proof. vm_compute. split; reflexivity. Qed.

(* why opcodes must be < 128 at byte level: `200 as char` is written as two bytes *)
Check op_128_differs.
