(* C04 -- `run` and `compile`+`execute` are observationally equivalent: every instruction and every
   argument is read back from a bytecode file exactly as the compiler emitted it.
   Pinned statements only; proofs live in Codec/Proofs.v. *)
From MS Require Import Codec.Model Codec.Proofs.

(* tokenizer (writer (arguments)) = arguments, for ALL argument lists: any length, any characters *)
Check args_roundtrip : forall l : list str, l <> [] -> split true (tl (emit_args l)) = Some l.
Theorem C04_args_roundtrip : forall l : list str, l <> [] -> split true (tl (emit_args l)) = Some l.
Proof. exact args_roundtrip. Qed.
Print Assumptions C04_args_roundtrip.

(* loader (writer (functions)) = functions, for ALL files of well-formed functions
   (NUL-free names and arguments, opcode neither NUL nor `e`, distinct names) *)
Check file_roundtrip : forall fs : list func,
  Forall wf_func fs -> NoDup (names fs) -> load (emit_bin fs) = Some fs.
Theorem C04_file_roundtrip : forall fs : list func,
  Forall wf_func fs -> NoDup (names fs) -> load (emit_bin fs) = Some fs.
Proof. exact file_roundtrip. Qed.
Print Assumptions C04_file_roundtrip.

(* non-vacuity: a function with every special character in its arguments is well formed and round-trips *)
Example C04_nonvacuous :
  let f := {| fname := [97; 46; 109; 109; 109; 35; 102];
              body := [ {| op := 7; args := [[34; 92; 32; 9; 10; 13; 110; 114; 116; 233; 8232]; []] |};
                        {| op := 15; args := [] |} ] |} in
  load (emit_bin [f]) = Some [f].
Proof. vm_compute. reflexivity. Qed.
