(* C08 -- objects have per-instance state, reference identity and bound methods:
   each constructor call yields a distinct object whose fields hold what the constructor stored; a method called
   on an object reads and updates the fields of that object only and may call its other methods; assigning,
   passing, returning or storing an object shares it, so an update through any alias is visible through all;
   `is` is true exactly for two references to the same object.
   Pinned statements only; proofs live in Objects/Proofs.v.
   Model.v: (impl false)-model of the object part of the interpreter heap: a class body allocates a FRESH cell per field,
   make_object copies the name -> cell map into the reference and allocates an identity token, every copy of a
   reference carries its own copy of that map, lookup / ptr_mut go through the map of the reference at hand,
   `is` compares tokens.  The meaning of the operations (`gstep`) is written once over an interface of heap
   primitives; Model.v instantiates it with this representation, Spec.v with the abstract store
   identity -> field -> value in which a name denotes an identity. *)
From MS Require Import Objects.Model Objects.Spec Objects.Proofs.

(* FULL STATEMENT, refinement: for ALL class tables ct (any number of classes, fields, constructor shapes) and ALL
   histories h (no bound on length, number of objects or aliases) the (impl false)-model prints exactly the observations of
   the abstract store and ends the same way (runs to the end / stops with the same failure at the same operation). *)
Check objects_refine : forall (ct : ctab) (h : list oop), run false ct h = spec_run ct h.
Theorem C08_objects_refine : forall (ct : ctab) (h : list oop), run false ct h = spec_run ct h.
Proof. exact objects_refine. Qed.
Print Assumptions C08_objects_refine.

(* the invariant `inv reg st` (registry reg: identity -> THE reference make_object built) holds in the state of every history *)
Check reachable_inv : forall ct st, reachable ct st -> exists reg, inv reg st.
Theorem C08_reachable_inv : forall ct st, reachable ct st -> exists reg, inv reg st.
Proof. exact reachable_inv. Qed.
Print Assumptions C08_reachable_inv.

(* each constructor call yields a distinct object: a new identity, cells no earlier object has, every earlier
   cell keeps its content *)
Check construct_fresh : forall ct reg st dst k args st' os,
  inv reg st -> step false ct st (New dst k args) = Ok (st', os) ->
  exists o, aget (env st') dst = Some (VObj o) /\ o_cls o = k /\
    (forall i o', reg i = Some o' -> o_id o' <> o_id o) /\
    (forall i o' f g c, reg i = Some o' -> aget (o_map o) f = Some c -> aget (o_map o') g = Some c -> False) /\
    (forall i o' g c, reg i = Some o' -> aget (o_map o') g = Some c -> aget (cells st') c = aget (cells st) c).
Theorem C08_construct_fresh : forall ct reg st dst k args st' os,
  inv reg st -> step false ct st (New dst k args) = Ok (st', os) ->
  exists o, aget (env st') dst = Some (VObj o) /\ o_cls o = k /\
    (forall i o', reg i = Some o' -> o_id o' <> o_id o) /\
    (forall i o' f g c, reg i = Some o' -> aget (o_map o) f = Some c -> aget (o_map o') g = Some c -> False) /\
    (forall i o' g c, reg i = Some o' -> aget (o_map o') g = Some c -> aget (cells st') c = aget (cells st) c).
Proof. exact construct_fresh. Qed.
Print Assumptions C08_construct_fresh.

(* two constructions never share a field cell: writing a field of one never changes any field of the other *)
Check distinct_objects_independent : forall reg st a b o1 o2,
  inv reg st -> gpath (impl false) st a = Ok (VObj o1) -> gpath (impl false) st b = Ok (VObj o2) -> o_id o1 <> o_id o2 ->
  (forall f g c, aget (o_map o1) f = Some c -> aget (o_map o2) g = Some c -> False) /\
  (forall f x st', m_fwrite false st (VObj o1) f x = Ok st' -> forall g, m_fread false st' (VObj o2) g = m_fread false st (VObj o2) g).
Theorem C08_distinct_objects_independent : forall reg st a b o1 o2,
  inv reg st -> gpath (impl false) st a = Ok (VObj o1) -> gpath (impl false) st b = Ok (VObj o2) -> o_id o1 <> o_id o2 ->
  (forall f g c, aget (o_map o1) f = Some c -> aget (o_map o2) g = Some c -> False) /\
  (forall f x st', m_fwrite false st (VObj o1) f x = Ok st' -> forall g, m_fread false st' (VObj o2) g = m_fread false st (VObj o2) g).
Proof. exact distinct_objects_independent. Qed.
Print Assumptions C08_distinct_objects_independent.

(* ... whose fields hold what the constructor stored *)
Check constructor_stores : forall ct st k args st' o cd f,
  gnew (impl false) ct st k args = Ok (st', VObj o) ->
  nth_error ct (N.to_nat k) = Some cd -> NoDup (map fst (c_body cd)) ->
  (forall j v, In (f, IParam j) (c_body cd) -> nth_error args j = Some v -> m_fread false st' (VObj o) f = Ok v) /\
  (forall l, In (f, IConst l) (c_body cd) -> m_fread false st' (VObj o) f = Ok (m_lit l)) /\
  (existsb (N.eqb f) (c_fields cd) = true -> ~ In f (map fst (c_body cd)) -> m_fread false st' (VObj o) f = Ok VNil).
Theorem C08_constructor_stores : forall ct st k args st' o cd f,
  gnew (impl false) ct st k args = Ok (st', VObj o) ->
  nth_error ct (N.to_nat k) = Some cd -> NoDup (map fst (c_body cd)) ->
  (forall j v, In (f, IParam j) (c_body cd) -> nth_error args j = Some v -> m_fread false st' (VObj o) f = Ok v) /\
  (forall l, In (f, IConst l) (c_body cd) -> m_fread false st' (VObj o) f = Ok (m_lit l)) /\
  (existsb (N.eqb f) (c_fields cd) = true -> ~ In f (map fst (c_body cd)) -> m_fread false st' (VObj o) f = Ok VNil).
Proof. exact constructor_stores. Qed.
Print Assumptions C08_constructor_stores.

(* any alias sees every update: two references with the same identity, reached through any names / fields, are the
   same reference, and what is written through one is what is read through the other *)
Check alias_shares : forall reg st a b o1 o2,
  inv reg st -> gpath (impl false) st a = Ok (VObj o1) -> gpath (impl false) st b = Ok (VObj o2) -> o_id o1 = o_id o2 ->
  o1 = o2 /\
  (forall f x st', m_fwrite false st (VObj o1) f x = Ok st' -> m_fread false st' (VObj o2) f = Ok x) /\
  (forall f, m_fread false st (VObj o1) f = m_fread false st (VObj o2) f).
Theorem C08_alias_shares : forall reg st a b o1 o2,
  inv reg st -> gpath (impl false) st a = Ok (VObj o1) -> gpath (impl false) st b = Ok (VObj o2) -> o_id o1 = o_id o2 ->
  o1 = o2 /\
  (forall f x st', m_fwrite false st (VObj o1) f x = Ok st' -> m_fread false st' (VObj o2) f = Ok x) /\
  (forall f, m_fread false st (VObj o1) f = m_fread false st (VObj o2) f).
Proof. exact alias_shares. Qed.
Print Assumptions C08_alias_shares.

(* assigning (a name or a field), returning, `me`, passing, storing in a list, storing in a field preserve identity:
   the new name / list element / field holds the very value (reference: class, cells, token) that was given *)
Check bind_same : forall ct st dst p st' os, step false ct st (Bind dst p false) = Ok (st', os) ->
  exists v, gpath (impl false) st p = Ok v /\ aget (env st') dst = Some v /\ cells st' = cells st /\ lists st' = lists st /\ os = [].
Check return_same : forall ct st dst p st' os, step false ct st (ReturnSame dst p) = Ok (st', os) ->
  exists v, gpath (impl false) st p = Ok v /\ aget (env st') dst = Some v /\ cells st' = cells st /\ lists st' = lists st /\ os = [].
Check me_same : forall ct st d p st' os, step false ct st (Call (RBind d) p MMe []) = Ok (st', os) ->
  exists v, gpath (impl false) st p = Ok v /\ aget (env st') d = Some v /\ cells st' = cells st /\ lists st' = lists st /\ os = [].
Check pass_is_update : forall ct st p f d o, gpath (impl false) st p = Ok (VObj o) ->
  step false ct st (PassAndMutate p f d) = step false ct st (OpAssign p f Add d).
Check list_holds_reference : forall ct st lp p st' os, step false ct st (ListPush lp (OPath p)) = Ok (st', os) ->
  exists lv xs v, gpath (impl false) st lp = Ok lv /\ gpath (impl false) st p = Ok v /\ m_lread st lv = Ok xs /\
    m_lread st' lv = Ok (xs ++ [v]) /\ nth_error (xs ++ [v]) (length xs) = Some v /\ cells st' = cells st.
Check field_holds_reference : forall st o f v st', m_fwrite false st (VObj o) f v = Ok st' -> m_fread false st' (VObj o) f = Ok v.

(* a method called on an object updates the fields of that object only: the cells of every other object are untouched
   (all methods of the family except bump_f / poke_f_g, which are written to update their argument / the object in a field) *)
Check method_updates_receiver_only : forall ct reg st o m args st' r,
  inv reg st -> reg (o_id o) = Some o -> receiver_only m = true ->
  gmeth (impl false) ct st (VObj o) m args = Ok (st', r) -> unchanged_outside reg (o_id o) st st'.
Theorem C08_method_updates_receiver_only : forall ct reg st o m args st' r,
  inv reg st -> reg (o_id o) = Some o -> receiver_only m = true ->
  gmeth (impl false) ct st (VObj o) m args = Ok (st', r) -> unchanged_outside reg (o_id o) st st'.
Proof. exact method_updates_receiver_only. Qed.
Print Assumptions C08_method_updates_receiver_only.
(* a read-only method (an expression over a field: -self.f, self.f + self.f, self.f > 0, !self.f, self.f + "")
   leaves the whole state unchanged, the receiver included *)
Check readonly_method_changes_nothing : forall ct st self k f st' r,
  gmeth (impl false) ct st self (MRo k f) [] = Ok (st', r) -> st' = st.
Theorem C08_readonly_method_changes_nothing : forall ct st self k f st' r,
  gmeth (impl false) ct st self (MRo k f) [] = Ok (st', r) -> st' = st.
Proof. exact readonly_method_changes_nothing. Qed.
Print Assumptions C08_readonly_method_changes_nothing.
Check bump_updates_argument_only : forall ct reg st o f other d st' r,
  inv reg st -> reg (o_id other) = Some other ->
  gmeth (impl false) ct st (VObj o) (MBump f) [VObj other; d] = Ok (st', r) -> unchanged_outside reg (o_id other) st st'.
Check poke_updates_field_object_only : forall ct reg st o f g d st' r,
  inv reg st -> reg (o_id o) = Some o ->
  gmeth (impl false) ct st (VObj o) (MPoke f g) [d] = Ok (st', r) ->
  exists v inner, m_fread false st (VObj o) f = Ok v /\ strip v = VObj inner /\ unchanged_outside reg (o_id inner) st st'.
(* ... reads the fields of that object, and may call its other methods *)
Check getter_reads_receiver : forall ct st o f, gmeth (impl false) ct st (VObj o) (MGet f) [] =
  match m_fread false st (VObj o) f with Ok v => Ok (st, Some v) | Fail e => Fail e end.
Check twice_calls_inc : forall ct st self f d, gmeth (impl false) ct st self (MTwice f) [d] =
  do r1 <- gmeth (impl false) ct st self (MInc f) [d]; gmeth (impl false) ct (fst r1) self (MInc f) [d].

(* `is` is true exactly for two references to the same object *)
Check is_iff_same_object : forall ct reg st a b o1 o2,
  inv reg st -> gpath (impl false) st a = Ok (VObj o1) -> gpath (impl false) st b = Ok (VObj o2) ->
  step false ct st (IsTest a b) = Ok (st, [OBool (o_id o1 =? o_id o2)]) /\
  ((o_id o1 =? o_id o2) = true <-> o1 = o2).
Theorem C08_is_iff_same_object : forall ct reg st a b o1 o2,
  inv reg st -> gpath (impl false) st a = Ok (VObj o1) -> gpath (impl false) st b = Ok (VObj o2) ->
  step false ct st (IsTest a b) = Ok (st, [OBool (o_id o1 =? o_id o2)]) /\
  ((o_id o1 =? o_id o2) = true <-> o1 = o2).
Proof. exact is_iff_same_object. Qed.
Print Assumptions C08_is_iff_same_object.
Check spec_is_identity : forall ct ss a b i j, gpath spec ss a = Ok (SObj i) -> gpath spec ss b = Ok (SObj j) ->
  sstep ct ss (IsTest a b) = Ok (ss, [OBool (i =? j)]).

(* a reference that went through a map (GcMap replace / remove hand out Optional(Some(object))) is the object it holds,
   for `is` and for field access (the repaired behaviour, legacy = false) *)
Check wrapped_is_content : forall o1 o2,
  m_is false (VSome o1) (VObj o2) = Ok (o_id o1 =? o_id o2) /\
  m_is false (VObj o1) (VSome o2) = Ok (o_id o1 =? o_id o2) /\
  m_is false (VSome o1) (VSome o2) = Ok (o_id o1 =? o_id o2).
Check wrapped_field_access : forall st o f x,
  m_fread false st (VSome o) f = m_fread false st (VObj o) f /\
  m_fwrite false st (VSome o) f x = m_fwrite false st (VObj o) f x.

(* FINDINGS: the faithful model of the tree before fixes/c08-is-present-optional.diff and fixes/c08-lookup-present-optional.diff
   (legacy = true) REFUTES the property: `thru(o) is o` printed false and `thru(o).f` stopped the program
   (the theorems above are about the repaired behaviour) *)
Check wrapped_is_legacy_refuted : exists h, run true ct1 h <> spec_run ct1 h.
Check wrapped_lookup_legacy_refuted : exists h, run true ct1 h <> spec_run ct1 h.
Check wrapped_legacy_witness :
  run true ct1 [New 0 0 [OLit (LInt 1)]; ThroughMap 1 (PVar 0); IsTest (PVar 1) (PVar 0); Print (PDot (PVar 1) 0)]
    = ([OBool false], Some Err) /\
  run false ct1 [New 0 0 [OLit (LInt 1)]; ThroughMap 1 (PVar 0); IsTest (PVar 1) (PVar 0); Print (PDot (PVar 1) 0)]
    = ([OBool true; OInt 1], None) /\
  spec_run ct1 [New 0 0 [OLit (LInt 1)]; ThroughMap 1 (PVar 0); IsTest (PVar 1) (PVar 0); Print (PDot (PVar 1) 0)]
    = ([OBool true; OInt 1], None).

(* non-vacuity 1: a representation in which constructions share cells does NOT refine the abstract store *)
Check shared_cells_refuted : exists ct h, grun_from impl_shared ct st0 h <> spec_run ct h.

(* non-vacuity 2: class C0 { f0: int; f1: C0? ; constructor(self, p0: int) { self.f0 = p0 } }.
   Two constructions, an alias, a setter through the alias, `is`, twice_f0 (calls inc_f0 twice), an object stored in a
   field and updated through it, dup (a construction inside a method) and a nil field access that ends the run. *)
Example C08_nonvacuous :
  let ct := [{| c_fields := [0; 1]; c_arity := 1%nat; c_body := [(0, IParam 0)] |}] in
  let h := [New 0 0 [OLit (LInt 1)]; New 1 0 [OLit (LInt 1)]; Alias 2 0;
            CallMethod RDrop 2 (MSet 0) [OLit (LInt 10)]; FieldRead 0 0; FieldRead 1 0;
            IsTest (PVar 0) (PVar 2); IsTest (PVar 0) (PVar 1);
            CallMethod RPrint 0 (MTwice 0) [OLit (LInt 2)]; FieldRead 2 0;
            FieldWrite 0 1 (OPath (PVar 1)); OpAssign (PDot (PVar 0) 1) 0 Add (LInt 5); FieldRead 1 0;
            IsTest (PDot (PVar 2) 1) (PVar 1);
            CallMethod (RBind 3) 0 (MDup [0]) []; IsTest (PVar 3) (PVar 0); FieldRead 3 0; IsNil (PDot (PVar 3) 1);
            ThroughMap 4 (PVar 1); IsTest (PVar 4) (PVar 1); OpAssign (PVar 4) 0 Add (LInt 1); FieldRead 1 0;
            Print (PDot (PDot (PVar 3) 1) 0); FieldRead 0 0] in
  spec_run ct h = ([OInt 10; OInt 1; OBool true; OBool false; OInt 14; OInt 14; OInt 6; OBool true;
                    OBool false; OInt 14; OBool true; OBool true; OInt 7], Some Err)
  /\ run false ct h = spec_run ct h.
Proof. vm_compute. split; reflexivity. Qed.
