(* C17 -- run-time failures are reported as MScript errors with an exact call trace.
   Pinned statements about the VM model Vm/Model.v (validated against the real interpreter by the trace tie T2 on
   every run of the check: stdout, outcome class, error stack and per-instruction trace on the real bytecode).
   Proofs live in Vm/FailureLemmas.v (on top of Verify/Sound.v).  All statements are for ALL programs, states,
   arguments and fuel; `checked p` = every function passes the verified structural checker of C09 (the check
   runs that checker on the code the real compiler emits).

   What is NOT proved here (search only, vlib/c17.py): that the operations outside the model (lists, maps,
   strings, objects, modules, built-ins) return an error instead of panicking.  Rust's panic machinery and
   native stack exhaustion are outside any model. *)
From MS Require Import Vm.Model Verify.Check Verify.Sound Vm.FailureLemmas.
Open Scope nat_scope.

(* ---------------------------------------------------------------- (a) the trace is the chain of active calls.
   `calls rc p name argv cb g r c` (with `steps`) is the interpreter as a big-step relation that records, for a
   failing run, the activations ENTERED AND NOT LEFT at the failure, innermost first: each with the block frames
   it has opened (if / else / while) and not closed.  A callee that returned contributes nothing
   (st_call_done), a failing callee's activations come before the caller's (st_call_fail). *)
Check st_call_fail : forall rc p name code bl a g i dest cb' argv' a' g' e g2 c, nth_error code (a_ip a) = Some i ->
  exec i a (tick name a i g) = SCall dest cb' argv' a' g' ->
  calls rc p dest argv' cb' g' (RFail e g2) c ->
  steps rc p name code bl a g (RFail e g2) (c ++ [(bl, name)]).
Check st_fail : forall rc p name code bl a g i e, nth_error code (a_ip a) = Some i ->
  exec i a (tick name a i g) = SFail e ->
  steps rc p name code bl a g (RFail e (tick name a i g)) [(bl, name)].
Check st_push : forall rc p name code bl a g i l a' g' r c, nth_error code (a_ip a) = Some i ->
  exec i a (tick name a i g) = SPush l a' g' ->
  steps rc p name code (l :: bl) (set_ip (set_ss a' (S (a_ss a'))) (S (a_ip a'))) (push_frame g' l) r c ->
  steps rc p name code bl a g r c.
Check calls_done_nil : forall rc p name argv cb g rv g' c, calls rc p name argv cb g (RDone rv g') c -> c = [].
Check calls_fail_last : forall rc p name argv cb g e g' c, calls rc p name argv cb g (RFail e g') c ->
  assoc name p <> None -> exists c' bl', c = c' ++ [(bl', name)].

(* every failing call of the executable interpreter is such a derivation, and the frames it leaves on the call
   stack are EXACTLY the rendering of the recorded activations: for each one its open blocks, then its function;
   the function lines are exactly the active functions *)
Check fail_stack_is_active_calls : forall rc p, checked p ->
  forall fuel name argv cb g e g', run_fn_gen rc fuel p name argv cb g = RFail e g' ->
  exists c, calls rc p name argv cb g (RFail e g') c
         /\ map lab (frames g') = render c ++ map lab (frames g)
         /\ fun_names (render c) = map snd c.
Theorem C17_fail_stack_is_active_calls : forall rc p, checked p ->
  forall fuel name argv cb g e g', run_fn_gen rc fuel p name argv cb g = RFail e g' ->
  exists c, calls rc p name argv cb g (RFail e g') c
         /\ map lab (frames g') = render c ++ map lab (frames g)
         /\ fun_names (render c) = map snd c.
Proof. exact fail_stack_is_active_calls. Qed.
Print Assumptions C17_fail_stack_is_active_calls.

(* Program::execute: the reported trace `st`, innermost first, down to the entry (the module) *)
Check trace_is_call_chain : forall p, checked p ->
  forall fuel entry o e st tr, execute fuel p entry = (o, RuntimeErr e st, tr) ->
  exists g' c, calls (fun _ _ _ => true) p entry [] None g0 (RFail e g') c
            /\ st = render c
            /\ fun_names st = map snd c
            /\ (assoc entry p <> None -> exists c' bl, c = c' ++ [(bl, entry)]).
Theorem C17_trace_is_call_chain : forall p, checked p ->
  forall fuel entry o e st tr, execute fuel p entry = (o, RuntimeErr e st, tr) ->
  exists g' c, calls (fun _ _ _ => true) p entry [] None g0 (RFail e g') c
            /\ st = render c
            /\ fun_names st = map snd c
            /\ (assoc entry p <> None -> exists c' bl, c = c' ++ [(bl, entry)]).
Proof. exact trace_is_call_chain. Qed.
Print Assumptions C17_trace_is_call_chain.

(* a run that ends normally is a derivation too (so "returned" in the relation means returned in the interpreter) *)
Check done_is_derivation : forall rc p, checked p ->
  forall fuel name argv cb g rv g', run_fn_gen rc fuel p name argv cb g = RDone rv g' ->
  calls rc p name argv cb g (RDone rv g') [].

(* ---------------------------------------------------------------- (b) output printed before the failure.
   ALL programs (no checker needed).  Lines are never lost or reordered; exactly one line per `printn`
   instruction executed, the failing instruction excepted. *)
Check output_monotone : forall rc p fuel name argv cb g,
  match run_fn_gen rc fuel p name argv cb g with
  | RDone _ g' | RFail _ g' => exists lines, out g' = out g ++ lines
  | RFuel => True end.
Theorem C17_output_monotone : forall rc p fuel name argv cb g,
  match run_fn_gen rc fuel p name argv cb g with
  | RDone _ g' | RFail _ g' => exists lines, out g' = out g ++ lines
  | RFuel => True end.
Proof. exact output_monotone. Qed.
Print Assumptions C17_output_monotone.

Check output_before_failure : forall p fuel entry o oc tr, execute fuel p entry = (o, oc, tr) ->
  match oc with
  | Done | StackMismatch _ => length o = prints_in tr
  | RuntimeErr e _ => length o + (if print_failed e then 1 else 0) = prints_in tr
  | OutOfFuel => True end.
Theorem C17_output_before_failure : forall p fuel entry o oc tr, execute fuel p entry = (o, oc, tr) ->
  match oc with
  | Done | StackMismatch _ => length o = prints_in tr
  | RuntimeErr e _ => length o + (if print_failed e then 1 else 0) = prints_in tr
  | OutOfFuel => True end.
Proof. exact output_before_failure. Qed.
Print Assumptions C17_output_before_failure.
(* the line a print instruction appends *)
Check print_step : forall a g a' g', exec_d DPrint a g = SNext a' g' ->
  exists l, join_show (a_ops a) = Some l /\ out g' = out g ++ [l].

(* ---------------------------------------------------------------- (c) a failed assert names its position *)
Check assert_instr_step : forall i sp rest a g v, op i = OP_ASSERT -> args i = sp :: rest ->
  a_ops a = [v] -> val_equals 100 v (VBool true) = Some false -> exec i a g = SFail (E_assert sp).
Theorem C17_assert_step : forall i sp rest a g v, op i = OP_ASSERT -> args i = sp :: rest ->
  a_ops a = [v] -> val_equals 100 v (VBool true) = Some false -> exec i a g = SFail (E_assert sp).
Proof. exact assert_instr_step. Qed.
Print Assumptions C17_assert_step.

Check assert_names_position : forall rc p fuel name argv cb g sp g',
  run_fn_gen rc fuel p name argv cb g = RFail (E_assert sp) g' ->
  exists fn code a i g1, assoc fn p = Some code /\ nth_error code (a_ip a) = Some i /\
    op i = OP_ASSERT /\ arg1 i = Some sp /\ g' = tick fn a i g1.
Theorem C17_assert_names_position : forall rc p fuel name argv cb g sp g',
  run_fn_gen rc fuel p name argv cb g = RFail (E_assert sp) g' ->
  exists fn code a i g1, assoc fn p = Some code /\ nth_error code (a_ip a) = Some i /\
    op i = OP_ASSERT /\ arg1 i = Some sp /\ g' = tick fn a i g1.
Proof. exact assert_names_position. Qed.
Print Assumptions C17_assert_names_position.

(* ---------------------------------------------------------------- (d) panics in the model.
   KNOWN finding `overflow-is-a-panic`: integer overflow is a Rust panic (E_overflow).  For every program the
   verified checker accepts (run under C09's arity hook) the only other panic-class outcomes are an assert
   instruction without position argument and a dangling heap cell; the rest -- missing operands, missing or
   surplus frames, jumps out of range, call_self outside a function -- cannot happen. *)
Check panic_only_known : forall dss p, labelled_by dss p ->
  forall fuel name argv cb g e g', run_fn_gen (rc_of dss p) fuel p name argv cb g = RFail e g' -> known_panic e.
Theorem C17_panic_only_known : forall dss p, labelled_by dss p ->
  forall fuel name argv cb g e g', run_fn_gen (rc_of dss p) fuel p name argv cb g = RFail e g' ->
  match e with
  | E_overflow o => o = OP_BIN_OP \/ o = OP_NEG
  | E_panic o => o = OP_ASSERT \/ dangling o
  | _ => True end.
Proof. exact panic_only_known. Qed.
Print Assumptions C17_panic_only_known.

(* where an overflow panic is raised, any program: the arithmetic of bin_op / bin_op_assign, or unary minus of MIN *)
Check overflow_sites : forall rc p fuel name argv cb g o g',
  run_fn_gen rc fuel p name argv cb g = RFail (E_overflow o) g' ->
  exists fn code a i g1 d, assoc fn p = Some code /\ nth_error code (a_ip a) = Some i /\ g' = tick fn a i g1 /\
    decode i = DOk d /\
    ((o = OP_BIN_OP /\ ((exists sym, d = DBinOp sym) \/ (exists sym n, d = DBinOpAssign sym n))) \/
     (o = OP_NEG /\ d = DNeg /\ exists r z, a_ops a = r ++ [VInt z] /\ i32_ok (- z) = false)).
Theorem C17_overflow_sites : forall rc p fuel name argv cb g o g',
  run_fn_gen rc fuel p name argv cb g = RFail (E_overflow o) g' ->
  exists fn code a i g1 d, assoc fn p = Some code /\ nth_error code (a_ip a) = Some i /\ g' = tick fn a i g1 /\
    decode i = DOk d /\
    ((o = OP_BIN_OP /\ ((exists sym, d = DBinOp sym) \/ (exists sym n, d = DBinOpAssign sym n))) \/
     (o = OP_NEG /\ d = DNeg /\ exists r z, a_ops a = r ++ [VInt z] /\ i32_ok (- z) = false)).
Proof. exact overflow_sites. Qed.
Print Assumptions C17_overflow_sites.
Check bin_op_sem_errs : forall sym l r e, bin_op_sem sym l r = OE e ->
  e = E_div_zero \/ e = E_unsupported OP_BIN_OP \/
  (e = E_overflow OP_BIN_OP /\ exists x y z, l = VInt x /\ r = VInt y /\ i32_ok z = false /\
     (z = (x + y)%Z \/ z = (x - y)%Z \/ z = (x * y)%Z \/ z = Z.quot x y \/ z = Z.rem x y)).
Check exec_d_panic_inv : forall d a g o, exec_d d a g = SFail (E_panic o) ->
  (empty_operands o /\ a_ops a = []) \/ (no_frame o /\ frames g = [])
  \/ (o = OP_CALL_SELF /\ current_function (frames g) = None) \/ (o = OP_ASSERT /\ d = DAssert None) \/ dangling o.

(* ---------------------------------------------------------------- non-vacuity
   module m:  print "s"; f(); print "z"          f:  if true { g() }          g:  print "x"; assert false  (1:2) *)
Definition I_ (o : N) (a : list str) : instr := {| op := o; args := a |}.
Definition n_m : str := [109]%N.   Definition n_f : str := [102]%N.   Definition n_g : str := [103]%N.
Definition t_true : str := [116; 114; 117; 101]%N.
Definition t_false : str := [102; 97; 108; 115; 101]%N.
Definition t_span : str := [49; 58; 50]%N.
Definition code_m : list instr :=
  [ I_ OP_MAKE_STR [[115]%N]; I_ OP_PRINTN [[42]%N]; I_ OP_VOID []; I_ OP_CALL [n_f];
    I_ OP_MAKE_STR [[122]%N]; I_ OP_PRINTN [[42]%N]; I_ OP_VOID []; I_ OP_RET_MOD [] ].
Definition code_f : list instr :=
  [ I_ OP_MAKE_BOOL [t_true]; I_ OP_IF_STMT [[51]%N]; I_ OP_CALL [n_g]; I_ OP_DONE []; I_ OP_RET [] ].
Definition code_g (b : str) : list instr :=
  [ I_ OP_MAKE_STR [[120]%N]; I_ OP_PRINTN [[42]%N]; I_ OP_VOID []; I_ OP_MAKE_BOOL [b]; I_ OP_ASSERT [t_span]; I_ OP_RET [] ].
Definition ex_prog (b : str) : program := [(n_m, code_m); (n_f, code_f); (n_g, code_g b)].

Example C17_ex_checked : forall b, b = t_true \/ b = t_false -> checked (ex_prog b).
Proof.
  intros b Hb. apply certified_checked. intros k code H.
  destruct Hb; subst b; (destruct H as [H|[H|[H|[]]]]; inversion H; vm_compute; reflexivity).
Qed.
(* the failing run: output printed before the failure, the assert's position, the trace g <if> f m;
   "z" (after the call) is not printed *)
Example C17_ex_fails : exists tr,
  execute 100 (ex_prog t_false) n_m = ([[115]%N; [120]%N], RuntimeErr (E_assert t_span) [LFun n_g; LIf; LFun n_f; LFun n_m], tr)
  /\ prints_in tr = 2.
Proof. eexists. vm_compute. split; reflexivity. Qed.
Example C17_ex_chain : render [([], n_g); ([LIf], n_f); ([], n_m)] = [LFun n_g; LIf; LFun n_f; LFun n_m].
Proof. reflexivity. Qed.
(* the same program with a true assertion runs to the end and prints all three lines *)
Example C17_ex_runs : exists tr, execute 100 (ex_prog t_true) n_m = ([[115]%N; [120]%N; [122]%N], Done, tr).
Proof. eexists. vm_compute. reflexivity. Qed.

(* the known class is real in the model: 2147483647 + 1 and -(-2147483648) stop with the panic-class outcome *)
Definition t_max : str := [50; 49; 52; 55; 52; 56; 51; 54; 52; 55]%N.
Definition t_min : str := [45; 50; 49; 52; 55; 52; 56; 51; 54; 52; 56]%N.
Example C17_overflow_is_a_panic_refuted : exists o st tr,
  execute 100 [(n_m, [I_ OP_MAKE_INT [t_max]; I_ OP_MAKE_INT [[49]%N]; I_ OP_BIN_OP [[43]%N]; I_ OP_RET_MOD []])] n_m
  = (o, RuntimeErr (E_overflow OP_BIN_OP) st, tr).
Proof. do 3 eexists. vm_compute. reflexivity. Qed.
Example C17_neg_overflow_is_a_panic_refuted : exists o st tr,
  execute 100 [(n_m, [I_ OP_MAKE_INT [t_min]; I_ OP_NEG []; I_ OP_RET_MOD []])] n_m
  = (o, RuntimeErr (E_overflow OP_NEG) st, tr).
Proof. do 3 eexists. vm_compute. reflexivity. Qed.
