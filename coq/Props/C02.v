(* C02 -- static typing is sound: an accepted program never fails because a value has the wrong kind for the
   operation applied to it, and every non-nil value has the kind of its static type.

   FULL STATEMENT (DESIGN 5.2 (c); NOT proved here -- checker + code generator + interpreter as a whole are
   covered by search: the type-directed generator and boundary catalogue of vlib/c02.py):

     Theorem type_soundness : forall p tenv, Types.check p = Ok tenv ->
       forall fuel out res, Lang.eval fuel p = (out, res) ->
         ~ is_type_error res /\
         forall e v, observed p e v -> v <> VNil -> kind_of v = kind_of_type (tenv e).

   PROVED (pinned below), the two hand-written tables the type checker rests on:
     (a) operator tables   -- for every operator and every pair of native kinds the static table accepts, the
                              run-time table computes a value, of exactly the kind the static table promised;
     (b) compatibility     -- whenever eq_complex accepts a (expected, supplied) pair of annotation types, with
                              any flags and in either argument order, both have the same kind skeleton, i.e. the
                              same set of run-time values (nil aside).
   Proofs live in Types/OpTable.v and Types/CompatProofs.v. *)
From Coq Require Import List NArith.
From MS Require Import Types.OpTable Types.Compat Types.CompatProofs Types.CompatLit Types.Core0.
Import ListNotations.

(* (a) the whole domain: 25 binary operators x 6 x 6 kinds *)
Check op_table_sound : forall o k1 k2 t, out_type o k1 k2 = Some t -> rt_kind o k1 k2 = ROk t.
Theorem C02_op_table_sound : forall o k1 k2 t, out_type o k1 k2 = Some t -> rt_kind o k1 k2 = ROk t.
Proof. exact op_table_sound. Qed.
Print Assumptions C02_op_table_sound.

(* `x op= y` leaves a value of x's own kind in x *)
Check op_assign_keeps_kind : forall o k1 k2 t, is_assign o = true -> out_type o k1 k2 = Some t -> t = k1.
Theorem C02_op_assign_keeps_kind : forall o k1 k2 t, is_assign o = true -> out_type o k1 k2 = Some t -> t = k1.
Proof. exact op_assign_keeps_kind. Qed.
Print Assumptions C02_op_assign_keeps_kind.

(* prefix operators *)
Check un_table_sound : forall o k t, out_un o k = Some t -> rt_un o k = ROk t /\ t = k.
Theorem C02_un_table_sound : forall o k t, out_un o k = Some t -> rt_un o k = ROk t /\ t = k.
Proof. exact un_table_sound. Qed.
Print Assumptions C02_un_table_sound.

(* (b) every flag record (so: assignment, argument, return, re-assignment, `or`, signature check), every depth *)
Check eq_complex_same_skeleton : forall fuel f t u,
  clean t = true -> clean u = true -> eq_complex fuel f t u = Some true -> skel t = skel u.
Theorem C02_eq_complex_same_skeleton : forall fuel f t u,
  clean t = true -> clean u = true -> eq_complex fuel f t u = Some true -> skel t = skel u.
Proof. exact eq_complex_same_skeleton. Qed.
Print Assumptions C02_eq_complex_same_skeleton.

Check eq_complex_compat : forall fuel f t u,
  clean t = true -> clean u = true -> eq_complex fuel f t u = Some true -> compat t u /\ compat u t.
Theorem C02_eq_complex_compat : forall fuel f t u,
  clean t = true -> clean u = true -> eq_complex fuel f t u = Some true -> compat t u /\ compat u t.
Proof. exact eq_complex_compat. Qed.
Print Assumptions C02_eq_complex_compat.

(* (b') the supplied side may be the type of a LITERAL (`nil`, `[]`, `[x, nil]`, `[[], [1]]`: not writable as an
   annotation): whenever eq_complex accepts it against an annotation type -- either argument order, any flags --
   the literal type can be completed (`inst`: nil -> T?, [] -> [T...], element-wise) to an annotation type with
   the same kind skeleton as the expected one *)
Check eq_complex_literal : forall fuel f t u,
  clean t = true -> expr_ty u = true -> eq_complex fuel f t u = Some true ->
  exists u', inst u u' /\ clean u' = true /\ skel u' = skel t.
Theorem C02_eq_complex_literal : forall fuel f t u,
  clean t = true -> expr_ty u = true -> eq_complex fuel f t u = Some true ->
  exists u', inst u u' /\ clean u' = true /\ skel u' = skel t.
Proof. exact eq_complex_literal. Qed.
Print Assumptions C02_eq_complex_literal.

Check eq_complex_literal_swapped : forall fuel f u t,
  expr_ty u = true -> clean t = true -> eq_complex fuel f u t = Some true ->
  exists u', inst u u' /\ clean u' = true /\ skel u' = skel t.
Theorem C02_eq_complex_literal_swapped : forall fuel f u t,
  expr_ty u = true -> clean t = true -> eq_complex fuel f u t = Some true ->
  exists u', inst u u' /\ clean u' = true /\ skel u' = skel t.
Proof. exact eq_complex_literal_swapped. Qed.
Print Assumptions C02_eq_complex_literal_swapped.

(* (c) PARTIAL: the full statement above, for the fragment Core-0 only -- native kinds; literals, variables, all
   25 binary and both prefix operators at any depth; declaration, re-binding, `x op= e`, if / else, while, print;
   checker = Core0.check (expression types from the operator tables, conditions bool, a variable keeps its kind,
   block-local declarations), execution = kind-level run with the run-time tables, an arbitrary branch oracle and
   fuel.  MISSING: lists, maps, optionals, functions / closures, classes, aliases, `from` loops, and the link
   from Core0.check to the real compiler other than through the table tie (a) -- those are search (generator). *)
Check core0_sound : forall fuel ss g g' r oracle,
  check_list g ss = Some g' -> agrees g r ->
  exec_list fuel oracle r ss <> TypeError /\
  (forall r' o', exec_list fuel oracle r ss = Done r' o' -> agrees g' r').
Theorem C02_type_soundness_partial : forall fuel ss g g' r oracle,
  check_list g ss = Some g' -> agrees g r ->
  exec_list fuel oracle r ss <> TypeError /\
  (forall r' o', exec_list fuel oracle r ss = Done r' o' -> agrees g' r').
Proof. exact core0_sound. Qed.
Print Assumptions C02_type_soundness_partial.

(* the model never runs out of fuel on the theorem's domain: the conclusion is not vacuous *)
Check cmp_fuel : forall fixed n md t u,
  2 * (size t + size u) + 2 <= n -> cmp fixed n md t u <> None.

(* the tables and the relation as found in the pinned tree were NOT sound (findings, all repaired) *)
Check op_table_orig_refuted_bool_byte : out_type_orig Add KBool KByte = Some KBool /\ rt_kind_orig Add KBool KByte = RErr.
Check bad_cells_orig_count : length bad_cells_orig = 106%nat.
Check orig_refuted_length :
  eq_complex_orig 10 fl_assign (TMixed [t_int]) (TMixed [t_int; t_str]) = Some true /\
  skel (TMixed [t_int]) <> skel (TMixed [t_int; t_str]) /\
  eq_complex 10 fl_assign (TMixed [t_int]) (TMixed [t_int; t_str]) = Some false.
(* why `clean` is needed: the empty fixed-shape list type launders element types *)
Check empty_fixed_list_launders :
  eq_complex 10 fl_assign (TMixed []) (TOpen t_str) = Some true /\
  eq_complex 10 fl_assign (TOpen t_int) (TMixed []) = Some true /\
  skel (TOpen t_str) <> skel (TOpen t_int) /\
  clean (TMixed []) = false.

(* non-vacuity *)
Example C02_nonvacuous_table :
  out_type Add KByte KFloat = Some KFloat /\ rt_kind Add KByte KFloat = ROk KFloat /\
  out_type BAnd KByte KByte = Some KByte /\ out_type Add KBool KByte = None /\
  out_type AddA KInt KFloat = None /\ out_type AddA KFloat KInt = Some KFloat /\
  out_type Mul KStr KInt = Some KStr /\ out_type Is KInt KStr = Some KBool /\ out_un Neg KBool = None.
Proof. vm_compute. repeat split; reflexivity. Qed.

Example C02_nonvacuous_literal :
  eq_complex 20 fl_assign (TOpt t_int) TNil = Some true /\
  eq_complex 20 fl_assign (TOpen (TOpt t_int)) (TMixed [t_int; TNil]) = Some true /\
  eq_complex 20 fl_assign (TOpen t_str) (TMixed []) = Some true /\
  eq_complex 20 fl_reassign (TOpen (TOpt t_int)) (TMixed [TNil; t_int]) = Some true /\
  eq_complex 20 fl_unwrapping (TMixed [TNil; t_int]) (TOpen (TOpt t_int)) = Some true /\
  expr_ty (TMixed [TMixed []; TMixed [t_int; TNil]]) = true /\
  eq_complex 20 fl_assign t_int TNil = Some false.
Proof. vm_compute. repeat split; reflexivity. Qed.

Example C02_nonvacuous_compat :
  eq_complex 20 fl_assign (TOpt t_int) t_int = Some true /\
  eq_complex 20 fl_assign (TOpen (TOpt t_int)) (TOpen t_int) = Some true /\
  eq_complex 20 fl_assign (TOpen t_int) (TMixed [t_int; t_int]) = Some true /\
  eq_complex 20 fl_return t_int (TOpt t_int) = Some false /\
  eq_complex 20 fl_reassign t_int (TOpt t_int) = Some false /\
  eq_complex 20 fl_unwrapping t_int (TOpt t_int) = Some true /\
  eq_complex 20 fl_assign t_int t_str = Some false /\
  skel (TOpen (TOpt t_int)) = skel (TMixed [t_int; TAlias 1%N t_int]).
Proof. vm_compute. repeat split; reflexivity. Qed.
