(* C13 -- lists and maps are shared by reference and their operations match their model:
   after any sequence of list / map operations the contents observed equal those of a mathematical
   sequence / finite map subjected to the same operations; every alias sees every update, a clone is
   independent of its original, an out-of-range index or removal stops the program with a failure.
   Pinned statements only; proofs live in Containers/Proofs.v.
   Model.v: impl-model of the interpreter's container heap (locations, Vec / HashMap contents, variables
   holding locations) with the index arithmetic and failure classes of the Rust arms.
   Spec.v: identities -> sequences / finite maps (order of a map not observable). *)
From MS Require Import Containers.Model Containers.Spec Containers.Proofs.

(* FULL STATEMENT: for ALL histories h (no bound on length, number of containers or aliases) on which the
   specification is defined -- the history is a well-typed program, nesting stays within the rendering
   fuel, op= stays within i32 -- the impl-model prints the same observations (keys / values / pairs as
   bags: HashMap order) and ends the same way (runs to the end / stops with a failure at the same operation). *)
Check containers_refine : forall h : list cop, defined (snd (spec_run h)) -> refines (run false h) (spec_run h).
Theorem C13_containers_refine : forall h : list cop, defined (snd (spec_run h)) -> refines (run false h) (spec_run h).
Proof. exact containers_refine. Qed.
Print Assumptions C13_containers_refine.

(* an out-of-range index (read, op=, write, string concatenation of elements, element in a list literal,
   removal) is a failure, never a value -- in the state of ANY history, pre-fix behaviour included
   (where an out-of-range removal was a Rust panic) *)
Check out_of_range_fails : forall legacy st v l xs i,
  get_vec st v = Ok (l, xs) -> in_i32 i = true -> in_range xs i = false ->
  step legacy st (IndexRead v i) = Fail Err /\
  (forall op y, step legacy st (OpAssign v i op y) = Fail Err) /\
  (forall x, exists f, step legacy st (IndexWrite v i x) = Fail f) /\
  (forall j, step legacy st (Concat v i j) = Fail Err) /\
  (forall dst, step legacy st (NewVec dst [OElem v i]) = Fail Err) /\
  step legacy st (Remove v i) = Fail (if legacy && (0 <=? i)%Z then Panic else Err).
Theorem C13_out_of_range_fails : forall legacy st v l xs i,
  get_vec st v = Ok (l, xs) -> in_i32 i = true -> in_range xs i = false ->
  step legacy st (IndexRead v i) = Fail Err /\
  (forall op y, step legacy st (OpAssign v i op y) = Fail Err) /\
  (forall x, exists f, step legacy st (IndexWrite v i x) = Fail f) /\
  (forall j, step legacy st (Concat v i j) = Fail Err) /\
  (forall dst, step legacy st (NewVec dst [OElem v i]) = Fail Err) /\
  step legacy st (Remove v i) = Fail (if legacy && (0 <=? i)%Z then Panic else Err).
Proof. exact out_of_range_fails. Qed.
Print Assumptions C13_out_of_range_fails.

(* every alias sees (and makes) every update: if a and b name the same container, using b for a in any
   operation gives the same observations and the same next state *)
Check alias_indistinguishable : forall st a b, eget (env st) a = eget (env st) b ->
  forall legacy c, step legacy st (subst_uses a b c) = step legacy st c.
Theorem C13_alias_indistinguishable : forall st a b, eget (env st) a = eget (env st) b ->
  forall legacy c, step legacy st (subst_uses a b c) = step legacy st c.
Proof. exact alias_indistinguishable. Qed.
Print Assumptions C13_alias_indistinguishable.

Check alias_binds_same_container : forall legacy st dst src st' os,
  step legacy st (Alias dst src) = Ok (st', os) ->
  eget (env st') dst = eget (env st') src /\ hp st' = hp st /\ os = [].

(* a clone is independent of its original: any history that does not operate on the clone leaves the
   clone's contents as they were, and any history that does not operate on the original leaves the original *)
Check clone_independent : forall st a c st1 o1, wf st -> step false st (Clone c a) = Ok (st1, o1) ->
  exists la xs,
    get_vec st a = Ok (la, xs) /\ eget (env st1) c = Some (next st) /\ la <> next st /\
    hget (hp st1) (next st) = Some (CVec xs) /\ hget (hp st1) la = Some (CVec xs) /\
    (forall h st2, untouched (next st) st1 h -> exec st1 h = Some st2 -> hget (hp st2) (next st) = Some (CVec xs)) /\
    (forall h st2, untouched la st1 h -> exec st1 h = Some st2 -> hget (hp st2) la = Some (CVec xs)).
Theorem C13_clone_independent : forall st a c st1 o1, wf st -> step false st (Clone c a) = Ok (st1, o1) ->
  exists la xs,
    get_vec st a = Ok (la, xs) /\ eget (env st1) c = Some (next st) /\ la <> next st /\
    hget (hp st1) (next st) = Some (CVec xs) /\ hget (hp st1) la = Some (CVec xs) /\
    (forall h st2, untouched (next st) st1 h -> exec st1 h = Some st2 -> hget (hp st2) (next st) = Some (CVec xs)) /\
    (forall h st2, untouched la st1 h -> exec st1 h = Some st2 -> hget (hp st2) la = Some (CVec xs)).
Proof. exact clone_independent. Qed.
Print Assumptions C13_clone_independent.

(* the same for maps (`m.clone()`): a new map holding the entries of the original at that moment; histories
   that do not operate on one of the two leave that one as it was *)
Check map_clone_independent : forall st a c st1 o1, wf st -> step false st (MapClone c a) = Ok (st1, o1) ->
  exists la kv,
    get_map st a = Ok (la, kv) /\ eget (env st1) c = Some (next st) /\ la <> next st /\
    hget (hp st1) (next st) = Some (CMap kv) /\ hget (hp st1) la = Some (CMap kv) /\
    (forall h st2, untouched (next st) st1 h -> exec st1 h = Some st2 -> hget (hp st2) (next st) = Some (CMap kv)) /\
    (forall h st2, untouched la st1 h -> exec st1 h = Some st2 -> hget (hp st2) la = Some (CMap kv)).
Theorem C13_map_clone_independent : forall st a c st1 o1, wf st -> step false st (MapClone c a) = Ok (st1, o1) ->
  exists la kv,
    get_map st a = Ok (la, kv) /\ eget (env st1) c = Some (next st) /\ la <> next st /\
    hget (hp st1) (next st) = Some (CMap kv) /\ hget (hp st1) la = Some (CMap kv) /\
    (forall h st2, untouched (next st) st1 h -> exec st1 h = Some st2 -> hget (hp st2) (next st) = Some (CMap kv)) /\
    (forall h st2, untouched la st1 h -> exec st1 h = Some st2 -> hget (hp st2) la = Some (CMap kv)).
Proof. exact map_clone_independent. Qed.
Print Assumptions C13_map_clone_independent.

(* non-vacuity of the map statement: after m2 = m.clone(), writes through m do not show in m2 and vice versa *)
Example C13_map_clone_nonvacuous :
  let h := [MapLit 0 [(KStr [97], OLit (VInt 1))]; MapClone 1 0; MapSet 0 (KStr [97]) (OLit (VInt 9));
            MapSet 1 (KStr [98]) (OLit (VInt 2)); MapGet 0 (KStr [97]); MapGet 1 (KStr [97]); MapLen 0; MapLen 1] in
  spec_run h = run false h /\ defined (snd (spec_run h)) /\
  fst (run false h) = [ObsVal (OInt 9); ObsVal (OInt 1); ObsVal (OInt 1); ObsVal (OInt 2)].
Proof. vm_compute. repeat split. Qed.

(* the state of every history is well formed (the hypothesis of C13_clone_independent) *)
Check step_wf : forall st c st' os, wf st -> step false st c = Ok (st', os) -> wf st' /\ (next st <= next st')%N.
Check wf0 : wf st0.

(* the specification's equality of values is equality of what they denote *)
Check oval_eqb_eq : forall a b, oval_eqb a b = true <-> a = b.

(* FINDINGS: the faithful model of the tree before fixes/c13-*.diff (legacy = true) REFUTES the property
   (repaired in /repo by abf7f13, 2873190, 74b8087, afee80a; the theorems above are about the repaired behaviour) *)
Check join_legacy_refuted : exists h, defined (snd (spec_run h)) /\ ~ refines_stops (run true h) (spec_run h).
Check join_self_legacy_refuted : exists h, defined (snd (spec_run h)) /\ ~ refines_stops (run true h) (spec_run h).
Check map_empty_legacy_refuted : exists h, defined (snd (spec_run h)) /\ ~ refines_stops (run true h) (spec_run h).
Check filter_empty_legacy_refuted : exists h, defined (snd (spec_run h)) /\ ~ refines_stops (run true h) (spec_run h).
Check remove_legacy_panics :
  run true [NewVec 0 [OLit (VInt 1)]; Remove 0 1] = ([], Some Panic) /\
  run false [NewVec 0 [OLit (VInt 1)]; Remove 0 1] = ([], Some Err) /\
  spec_run [NewVec 0 [OLit (VInt 1)]; Remove 0 1] = ([], Some Err).

(* a value read from a container and handed on by a function (`return w[i]`, also as the callback of map, also
   `return m[k]`) is the value the element has at that moment: later updates of w / m do not show in the result
   (repaired by fixes/c13-return-element-value.diff: the `ret` instruction used to hand on the element VIEW) *)
Example C13_returned_element_is_a_value :
  let h := [NewVec 0 [OLit (VInt 1); OLit (VInt 2)]; NewVec 1 [OLit (VInt 7); OLit (VInt 8)];
            MapLit 4 [(KStr [97], OLit (VInt 5))];
            MapElem 2 1 0 0; MapKeyElem 5 1 4 (KStr [97]); NewVec 3 [OCall 0 1];
            IndexWrite 0 0 (OLit (VInt 99)); MapSet 4 (KStr [97]) (OLit (VInt 6)); Clear 0;
            Print 2; Print 5; Print 3; NewVec 6 []; MapElem 7 6 0 5; Print 7; MapElem 8 1 0 5] in
  spec_run h = ([ObsVal (OList [OInt 1; OInt 1]); ObsVal (OList [OInt 5; OInt 5]); ObsVal (OList [OInt 2]);
                 ObsVal (OList [])], Some Err)
  /\ fst (run false h) = fst (spec_run h) /\ snd (run false h) = Some Err.
Proof. vm_compute. repeat split. Qed.

(* non-vacuity: a history with an alias, a clone, a nested list, a map, bags and a final out-of-range read is
   inside the theorem's domain; the alias sees the push, the clone does not, the failure ends the run *)
Example C13_nonvacuous :
  let h := [NewVec 0 [OLit (VInt 1)]; Alias 1 0; Clone 2 0; Push 0 (OLit (VInt 2)); Print 1; Print 2;
            NewVec 3 [OVar 0; OVar 2]; Print 3; Join 4 0 0; Print 1;
            MapLit 5 [(KStr [97], OLit (VInt 1)); (KStr [98], OVar 0)]; MapSet 5 (KStr [97]) (OLit VNil);
            Keys 5; Pairs 5; MapGet 5 (KStr [122]); IndexRead 2 1; Print 0] in
  spec_run h =
    ([ObsVal (OList [OInt 1; OInt 2]); ObsVal (OList [OInt 1]);
      ObsVal (OList [OList [OInt 1; OInt 2]; OList [OInt 1]]); ObsVal (OList [OInt 1; OInt 2; OInt 1; OInt 2]);
      ObsBag [OStr [97]; OStr [98]];
      ObsBag [OList [OStr [97]; ONil]; OList [OStr [98]; OList [OInt 1; OInt 2; OInt 1; OInt 2]]];
      ObsVal ONil], Some Err)
  /\ defined (snd (spec_run h)) /\ snd (run false h) = Some Err /\ length (fst (run false h)) = 7%nat.
Proof. vm_compute. repeat split. Qed.
