(* C13 -- lists and maps are shared by reference and their operations match their model.
   Pinned statements only; proofs live in Containers/Proofs.v.  (under construction) *)
From MS Require Import Containers.Model Containers.Spec.

Example C13_smoke :
  run false [NewVec 0 [OLit (VInt 1)]; Alias 1 0; Push 0 (OLit (VInt 2)); Print 1]
  = ([ObsVal (OList [OInt 1; OInt 2])], None).
Proof. vm_compute. reflexivity. Qed.
