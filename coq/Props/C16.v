(* C16 -- placeholder while the Peg family is being built *)
From MS Require Import Peg.Syntax Gen.Grammar.
Example C16_grammar_nonempty : length g <> 0%nat.
Proof. vm_compute. discriminate. Qed.
