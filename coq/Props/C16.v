(* C16 -- the compiler is total: any input yields success or diagnostics, never a crash.

   FULL STATEMENT (properties.jsonl): for every input text, `compile` terminates promptly and either
   succeeds or prints diagnostics and exits with a failure status; never a panic, abort, stack overflow
   or hang.

   WHAT IS PROVED HERE (hence the suffix _partial): the PARSER layer only.
     * peg_terminates: for EVERY pest grammar that passes the boolean check `wf` (no left recursion, also
       through nullable prefixes and the implicit WHITESPACE/COMMENT skipping; no repetition of a nullable
       expression; all rule references defined), for every start rule and EVERY input, the interpreter
       `parse_rule` (pest's semantics: Peg/Desugar.v + Peg/Interp.v) returns a result different from
       OutOfFuel whenever the recursion-depth fuel is at least  fuel_bound g |input| = (|input|+1)*(R+1)*(M+1);
       and the result is the same for every larger fuel.
     * grammar_wf: `wf` holds, by computation, of Gen/Grammar.v, which gen/pest2coq.py regenerates from
       compiler/src/grammar.pest on every run.
     * promptness is REFUTED for the parser model (known findings exponential-nested-list-type /
       exponential-nested-list-value, DESIGN F10): see Peg/Growth.v -- the step counter of the model doubles with
       every nesting level of `x: [[..[int...]..]] = 1` and of an unclosed `x = [[[[..` (computed for k = 1..12;
       the real binary needs > 10 s at about 21 levels).  Those two Examples are kept OUT of this file's
       dependency cone on purpose: they are witnesses of a defect and stop compiling when the grammar is repaired,
       which must not be reported as a violation (vlib/c16.py builds them separately and records the outcome).
   MISSING: everything behind the parser (AST builders, type checker, code generator; several hundred
   unwrap-like sites) is not modelled; vlib/c16.py SEARCHES it (exit status of the real compiler on
   generated and mutated inputs).  Native stack exhaustion is outside the model (fuel is not a stack). *)
From MS Require Import Peg.Syntax Peg.Desugar Peg.Interp Peg.Wf Peg.WfCompute Gen.Grammar.

Check peg_terminates : forall g, wf g = true ->
  forall i input fuel, (i < length g)%nat -> (fuel_bound g (length input) <= fuel)%nat ->
  parse_rule g fuel i input <> OutOfFuel.
Theorem C16_parser_terminates_partial : forall g, wf g = true ->
  forall i input fuel, (i < length g)%nat -> (fuel_bound g (length input) <= fuel)%nat ->
  parse_rule g fuel i input <> OutOfFuel.
Proof. exact peg_terminates. Qed.
Print Assumptions C16_parser_terminates_partial.

Check peg_result_stable : forall g, wf g = true -> forall i input fuel, (i < length g)%nat ->
  (fuel_bound g (length input) <= fuel)%nat ->
  parse_rule g fuel i input = parse_rule g (fuel_bound g (length input)) i input.
Theorem C16_parser_result_stable_partial : forall g, wf g = true -> forall i input fuel, (i < length g)%nat ->
  (fuel_bound g (length input) <= fuel)%nat ->
  parse_rule g fuel i input = parse_rule g (fuel_bound g (length input)) i input.
Proof. exact peg_result_stable. Qed.
Print Assumptions C16_parser_result_stable_partial.

(* the grammar the compiler is built from today is well-formed *)
Example C16_grammar_wf : wf Grammar.g = true.
Proof. vm_compute. reflexivity. Qed.

(* hence: the mscript parser (start rule `file`) terminates on every input, within an explicit depth *)
Theorem C16_mscript_parser_terminates_partial : forall input,
  parse_rule Grammar.g (fuel_bound Grammar.g (length input)) r_file input <> OutOfFuel.
Proof.
  intros input. apply peg_terminates.
  - exact C16_grammar_wf.
  - vm_compute. apply PeanoNat.Nat.leb_le. reflexivity.
  - apply le_n.
Qed.
Print Assumptions C16_mscript_parser_terminates_partial.

(* the constants of the bound for today's grammar: 3 * #rules core rules, M, R, K = (R+1)*(M+1) *)
Example C16_bound_constants :
  (let '(cg, nl, rk) := tables Grammar.g in Nat.eqb (length cg) (3 * length Grammar.g) && Nat.ltb 0 (Kx cg rk)) = true.
Proof. vm_compute. reflexivity. Qed.

(* ---- the check is not vacuous: it rejects what pest would loop on, and the model then runs out of fuel ---- *)
Definition g_leftrec : grammar :=      (* a = { a ~ "x" | "x" } *)
  [ {| rname := [97]; rmod := MNormal; rbody := PChoice (PSeq (PCall 0) (PStr [120])) (PStr [120]) |} ].
Example C16_leftrec_rejected : wf g_leftrec = false /\ parse_rule g_leftrec 5000 0 [120; 120] = OutOfFuel.
Proof. vm_compute. split; reflexivity. Qed.

Definition g_hidden_leftrec : grammar :=      (* a = { "y"? ~ b }   b = { !"z" ~ a ~ "x" | "x" } *)
  [ {| rname := [97]; rmod := MAtomic; rbody := PSeq (POpt (PStr [121])) (PCall 1) |};
    {| rname := [98]; rmod := MNormal; rbody := PChoice (PSeq (PNeg (PStr [122])) (PSeq (PCall 0) (PStr [120]))) (PStr [120]) |} ].
Example C16_hidden_leftrec_rejected : wf g_hidden_leftrec = false /\ parse_rule g_hidden_leftrec 5000 0 [120] = OutOfFuel.
Proof. vm_compute. split; reflexivity. Qed.

Definition g_nullstar : grammar :=     (* a = { ("x"?)* } *)
  [ {| rname := [97]; rmod := MNormal; rbody := PStar (POpt (PStr [120])) |} ].
Example C16_nullable_star_rejected : wf g_nullstar = false /\ parse_rule g_nullstar 5000 0 [121] = OutOfFuel.
Proof. vm_compute. split; reflexivity. Qed.

Definition g_ws_nullable : grammar :=  (* WHITESPACE = _{ " "* }   a = { "x" ~ "y" } : the implicit skip loops *)
  [ {| rname := n_WHITESPACE; rmod := MSilent; rbody := PStar (PStr [32]) |};
    {| rname := [97]; rmod := MNormal; rbody := PSeq (PStr [120]) (PStr [121]) |} ].
Example C16_nullable_whitespace_rejected : wf g_ws_nullable = false /\ parse_rule g_ws_nullable 5000 1 [120; 121] = OutOfFuel.
Proof. vm_compute. split; reflexivity. Qed.

Example C16_undefined_rule_rejected :
  wf [ {| rname := [97]; rmod := MNormal; rbody := PCall 7 |} ] = false.
Proof. vm_compute. reflexivity. Qed.

(* ---- the model really parses: `print 1\n` from rule `file` ---- *)
Definition src_print1 : list N := [112; 114; 105; 110; 116; 32; 49; 10].
Example C16_parses_print :
  match parse_rule Grammar.g 2000 r_file src_print1 with
  | Ok s ts _ => is_nil (rest s) && Nat.leb 3 (length (flatten_all ts))
  | _ => false
  end = true.
Proof. vm_compute. reflexivity. Qed.

(* the promptness refutation (step growth of the two exponential families) lives in Peg/Growth.v *)
