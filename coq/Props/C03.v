(* C03 -- ill-typed programs are rejected with a diagnostic before anything runs.
   Pinned statements only; proofs live in Reject/Cli.v and Reject/Proofs.v.

   FULL STATEMENT: for every well-typed program and every single type-breaking edit of it (catalogue: wrong-typed
   initializer, re-assignment with another type, wrong argument type or count, wrong or missing return value,
   non-boolean condition, unknown name/field/method, call of a non-callable, index of a non-indexable or with a
   non-index, operator on unsupported kinds) compilation fails with a diagnostic naming file and position, and no
   statement of the program is executed.

   PROVED: (1) for ALL sources and ANY compiler: when the compiler returns diagnostics, the CLI prints them, exits
   with failure and performs no execution (`rejected_never_runs`, model of src/main.rs compile()/Run);
   (2) on the core fragment described at the top of Reject/Typing.v: the executable checker accepts exactly the
   programs that satisfy the declarative judgement WT (`check_sound`, `check_complete`), and every catalogue fault
   at every site -- any nesting depth of if/else, while, function bodies -- makes the program ill-typed
   (`fault_breaks`), hence rejected by the checker and by any checker sound for WT (`fault_rejected`).
   PARTIAL (`_partial` in the names below where the fragment restricts the statement): classes, methods, closures,
   maps, optionals, aliases, modules, else-if, from-loops, unary operators are not in the fragment; the position
   reported by the diagnostic is not modelled.  Those parts are search (vlib/c03.py), not proof. *)
From MS Require Import Reject.Cli Reject.Typing Reject.Proofs.

Check rejected_never_runs :
  forall (source diag prog line : Type) (compile_file : source -> list diag + prog)
         (execute : prog -> list line * bool) (render : diag -> line) (summary : nat -> line) (crash_banner : line)
         (src : source) (ds : list diag),
  compile_file src = inl ds ->
  run source diag prog line compile_file execute render summary crash_banner src =
    mkOutcome diag prog line (map render ds) [] [summary (length ds)] (ExitFailure) (map (EvDiagnostic diag prog) ds)
  /\ ~ executes diag prog line (run source diag prog line compile_file execute render summary crash_banner src).
Theorem C03_rejected_never_runs :
  forall (source diag prog line : Type) (compile_file : source -> list diag + prog)
         (execute : prog -> list line * bool) (render : diag -> line) (summary : nat -> line) (crash_banner : line)
         (src : source) (ds : list diag),
  compile_file src = inl ds ->
  run source diag prog line compile_file execute render summary crash_banner src =
    mkOutcome diag prog line (map render ds) [] [summary (length ds)] (ExitFailure) (map (EvDiagnostic diag prog) ds)
  /\ ~ executes diag prog line (run source diag prog line compile_file execute render summary crash_banner src).
Proof. exact rejected_never_runs. Qed.
Print Assumptions C03_rejected_never_runs.

Check check_sound : forall p : block, check_prog p = true -> WT p.
Theorem C03_check_sound_partial : forall p : block, check_prog p = true -> WT p.
Proof. exact check_sound. Qed.
Print Assumptions C03_check_sound_partial.

Check check_complete : forall p : block, WT p -> check_prog p = true.
Theorem C03_check_complete_partial : forall p : block, WT p -> check_prog p = true.
Proof. exact check_complete. Qed.

Check fault_breaks : forall p p' : block, WT p -> mut_block [] None p p' -> ~ WT p'.
Theorem C03_fault_breaks_partial : forall p p' : block, WT p -> mut_block [] None p p' -> ~ WT p'.
Proof. exact fault_breaks. Qed.
Print Assumptions C03_fault_breaks_partial.

Check fault_rejected : forall p p' : block, WT p -> mut_block [] None p p' -> check_prog p' = false.
Theorem C03_fault_rejected_partial : forall p p' : block, WT p -> mut_block [] None p p' -> check_prog p' = false.
Proof. exact fault_rejected. Qed.
Print Assumptions C03_fault_rejected_partial.

(* non-vacuity: a well-typed program with a function, a call, a list, an if inside a while; and three mutants
   (wrong argument count inside the nested if, wrong return type, non-boolean condition) related by mut_block *)
Definition f : nat := 1.
Definition l : nat := 2.
Definition x : nat := 3.
Definition good : block :=
  BCons (SFn f [(10, NInt)] (Some NInt) (BCons (SReturn (Some (EBin OAdd (EVar 10) (ELit NInt)))) BNil))
 (BCons (SSetList l NInt (XCons (ELit NInt) (XCons (ECall f (XCons (ELit NInt) XNil)) XNil)))
 (BCons (SSet x (Some (TN NInt)) (EIndex (EVar l) (ELit NInt)))
 (BCons (SWhile (EBin OLt (EVar x) (ELit NFloat))
           (BCons (SIf (ELit NBool) (BCons (SSet x None (ECall f (XCons (EVar x) XNil))) BNil) BNil) BNil))
  BNil))).
Definition bad_arity : block :=
  BCons (SFn f [(10, NInt)] (Some NInt) (BCons (SReturn (Some (EBin OAdd (EVar 10) (ELit NInt)))) BNil))
 (BCons (SSetList l NInt (XCons (ELit NInt) (XCons (ECall f (XCons (ELit NInt) XNil)) XNil)))
 (BCons (SSet x (Some (TN NInt)) (EIndex (EVar l) (ELit NInt)))
 (BCons (SWhile (EBin OLt (EVar x) (ELit NFloat))
           (BCons (SIf (ELit NBool) (BCons (SSet x None (ECall f (XCons (EVar x) (XCons (EVar x) XNil)))) BNil) BNil) BNil))
  BNil))).
Example C03_nonvacuous_good : check_prog good = true.
Proof. vm_compute. reflexivity. Qed.
Example C03_nonvacuous_mutant : mut_block [] None good bad_arity /\ check_prog bad_arity = false.
Proof.
  split; [|vm_compute; reflexivity].
  unfold good, bad_arity.
  eapply MB_later; [apply check_sound_mut; vm_compute; reflexivity|].
  eapply MB_later; [apply check_sound_mut; vm_compute; reflexivity|].
  eapply MB_later; [apply check_sound_mut; vm_compute; reflexivity|].
  apply MB_inside. apply MS_while. apply MB_inside. apply MS_then. apply MB_here.
  apply F_set_bad_expr. eapply BE_call_args; [vm_compute; reflexivity|].
  apply BA_later. apply BA_too_many.
Qed.
