(* C19 -- foreign calls pass the operand stack unchanged and deliver result or error.
   Pinned statements only; model in Ffi/Model.v (call_lib, the JumpRequest arm of Function::run,
   process_library_jump_request, make_*/printn/void/ret_mod on straight-line code), proofs in Ffi/Proofs.v.
   The foreign world (loader, symbol lookup, the function) is an arbitrary function `ffi`: every statement is
   universally quantified over it.  The OS loader and the ABI across the library boundary are outside the model. *)
From Coq Require Import ZArith.
From MS Require Import Base.Str Ffi.Model Ffi.Proofs.

(* the step consults the foreign world at exactly one point: library, symbol and the operand stack as it is (same
   values, same order); two foreign worlds that agree there are indistinguishable to the instruction *)
Check call_lib_passes_stack : forall (ffi1 ffi2 : str -> str -> list value -> ffi_outcome) (lib f : str) (s : vm),
  ffi1 lib f (stack s) = ffi2 lib f (stack s) ->
  exec_instr ffi1 (CallLib lib f) s = exec_instr ffi2 (CallLib lib f) s.
Theorem C19_call_lib_passes_stack : forall (ffi1 ffi2 : str -> str -> list value -> ffi_outcome) (lib f : str) (s : vm),
  ffi1 lib f (stack s) = ffi2 lib f (stack s) ->
  exec_instr ffi1 (CallLib lib f) s = exec_instr ffi2 (CallLib lib f) s.
Proof. exact call_lib_passes_stack. Qed.
Print Assumptions C19_call_lib_passes_stack.

(* when the foreign function is entered, exactly one call is made and its argument slice is the operand stack;
   with a missing library or symbol no call is made *)
Check call_lib_call_logged : forall (ffi : str -> str -> list value -> ffi_outcome) (lib f : str) (s : vm) (r : step_result),
  exec_instr ffi (CallLib lib f) s = r ->
  match ffi lib f (stack s) with
  | Value _ | NoValue | Raised _ =>
      exists s', (r = Next s' \/ exists e, r = Fail e s') /\ calls s' = calls s ++ [(lib, f, stack s)]
  | NoLibrary | NoSymbol => exists e s', r = Fail e s' /\ calls s' = calls s
  end.
Theorem C19_call_lib_call_logged : forall (ffi : str -> str -> list value -> ffi_outcome) (lib f : str) (s : vm) (r : step_result),
  exec_instr ffi (CallLib lib f) s = r ->
  match ffi lib f (stack s) with
  | Value _ | NoValue | Raised _ =>
      exists s', (r = Next s' \/ exists e, r = Fail e s') /\ calls s' = calls s ++ [(lib, f, stack s)]
  | NoLibrary | NoSymbol => exists e s', r = Fail e s' /\ calls s' = calls s
  end.
Proof. exact call_lib_call_logged. Qed.
Print Assumptions C19_call_lib_call_logged.

(* pushing v1 .. vn (any n, any values) and calling: the foreign function receives exactly [v1; ..; vn] *)
Check call_lib_receives_pushed : forall (ffi : str -> str -> list value -> ffi_outcome) (vs : list value) (lib f : str),
  exists s, run_pre ffi O (map Push vs) init = Some s /\ stack s = vs /\ calls s = [] /\ out s = [] /\
  match ffi lib f vs with
  | Value _ | NoValue | Raised _ =>
      forall r, exec_instr ffi (CallLib lib f) (mark (length vs) s) = r ->
      exists s', (r = Next s' \/ exists e, r = Fail e s') /\ calls s' = [(lib, f, vs)]
  | _ => True
  end.
Theorem C19_call_lib_receives_pushed : forall (ffi : str -> str -> list value -> ffi_outcome) (vs : list value) (lib f : str),
  exists s, run_pre ffi O (map Push vs) init = Some s /\ stack s = vs /\ calls s = [] /\ out s = [] /\
  match ffi lib f vs with
  | Value _ | NoValue | Raised _ =>
      forall r, exec_instr ffi (CallLib lib f) (mark (length vs) s) = r ->
      exists s', (r = Next s' \/ exists e, r = Fail e s') /\ calls s' = [(lib, f, vs)]
  | _ => True
  end.
Proof. exact call_lib_receives_pushed. Qed.
Print Assumptions C19_call_lib_receives_pushed.

(* WHAT THE CODE DOES with the result: the operand stack is cleared when the request is made and the returned value
   is pushed, so the stack is exactly [v] afterwards (arguments consumed, as for `call`); [] when nothing is returned *)
Check call_lib_result : forall (ffi : str -> str -> list value -> ffi_outcome) (lib f : str) (s : vm),
  (forall v, ffi lib f (stack s) = Value v ->
     exec_instr ffi (CallLib lib f) s = Next (mkVm [v] (out s) (steps s) (calls s ++ [(lib, f, stack s)]))) /\
  (ffi lib f (stack s) = NoValue ->
     exec_instr ffi (CallLib lib f) s = Next (mkVm [] (out s) (steps s) (calls s ++ [(lib, f, stack s)]))).
Theorem C19_call_lib_result : forall (ffi : str -> str -> list value -> ffi_outcome) (lib f : str) (s : vm),
  (forall v, ffi lib f (stack s) = Value v ->
     exec_instr ffi (CallLib lib f) s = Next (mkVm [v] (out s) (steps s) (calls s ++ [(lib, f, stack s)]))) /\
  (ffi lib f (stack s) = NoValue ->
     exec_instr ffi (CallLib lib f) s = Next (mkVm [] (out s) (steps s) (calls s ++ [(lib, f, stack s)]))).
Proof. exact call_lib_result. Qed.
Print Assumptions C19_call_lib_result.

(* inside any straight-line program: after a returned value execution continues with the next instruction on [v] *)
Check call_lib_then_continues : forall (ffi : str -> str -> list value -> ffi_outcome) (pre post : list instr) (lib f : str) (ip : nat) (s0 s : vm) (v : value),
  run_pre ffi ip pre s0 = Some s -> ffi lib f (stack s) = Value v ->
  run_from ffi ip (pre ++ CallLib lib f :: post) s0 =
  run_from ffi (S (ip + length pre)) post
    (mkVm [v] (out s) (steps s ++ [((ip + length pre)%nat, length (stack s))]) (calls s ++ [(lib, f, stack s)])).
Theorem C19_call_lib_then_continues : forall (ffi : str -> str -> list value -> ffi_outcome) (pre post : list instr) (lib f : str) (ip : nat) (s0 s : vm) (v : value),
  run_pre ffi ip pre s0 = Some s -> ffi lib f (stack s) = Value v ->
  run_from ffi ip (pre ++ CallLib lib f :: post) s0 =
  run_from ffi (S (ip + length pre)) post
    (mkVm [v] (out s) (steps s ++ [((ip + length pre)%nat, length (stack s))]) (calls s ++ [(lib, f, stack s)])).
Proof. exact call_lib_then_continues. Qed.
Print Assumptions C19_call_lib_then_continues.

(* a raised error (EFfi msg), a missing library (ENoLibrary lib) or a missing symbol (ENoSymbol lib f) stops the run with
   that error; the last instruction executed is the call_lib; the output is what it was before the call *)
Check call_lib_error : forall (ffi : str -> str -> list value -> ffi_outcome) (pre post : list instr) (lib f : str) (ip : nat) (s0 s : vm) (e : error),
  run_pre ffi ip pre s0 = Some s -> error_of lib f (ffi lib f (stack s)) = Some e ->
  exists s', run_from ffi ip (pre ++ CallLib lib f :: post) s0 = RuntimeErr e s' /\
             out s' = out s /\
             steps s' = steps s ++ [((ip + length pre)%nat, length (stack s))] /\
             stack s' = [].
Theorem C19_call_lib_error : forall (ffi : str -> str -> list value -> ffi_outcome) (pre post : list instr) (lib f : str) (ip : nat) (s0 s : vm) (e : error),
  run_pre ffi ip pre s0 = Some s -> error_of lib f (ffi lib f (stack s)) = Some e ->
  exists s', run_from ffi ip (pre ++ CallLib lib f :: post) s0 = RuntimeErr e s' /\
             out s' = out s /\
             steps s' = steps s ++ [((ip + length pre)%nat, length (stack s))] /\
             stack s' = [].
Proof. exact call_lib_error. Qed.
Print Assumptions C19_call_lib_error.

(* no later instruction runs: the outcome is the same whatever follows the failing call_lib *)
Check call_lib_error_ignores_rest : forall (ffi : str -> str -> list value -> ffi_outcome) (pre post post' : list instr) (lib f : str) (ip : nat) (s0 s : vm) (e : error),
  run_pre ffi ip pre s0 = Some s -> error_of lib f (ffi lib f (stack s)) = Some e ->
  run_from ffi ip (pre ++ CallLib lib f :: post) s0 = run_from ffi ip (pre ++ CallLib lib f :: post') s0.
Theorem C19_call_lib_error_ignores_rest : forall (ffi : str -> str -> list value -> ffi_outcome) (pre post post' : list instr) (lib f : str) (ip : nat) (s0 s : vm) (e : error),
  run_pre ffi ip pre s0 = Some s -> error_of lib f (ffi lib f (stack s)) = Some e ->
  run_from ffi ip (pre ++ CallLib lib f :: post) s0 = run_from ffi ip (pre ++ CallLib lib f :: post') s0.
Proof. exact call_lib_error_ignores_rest. Qed.
Print Assumptions C19_call_lib_error_ignores_rest.

(* a run consults the foreign world only at (library, symbol) pairs named together by one of its call_lib
   instructions: no resolution is remembered from one call to the next *)
Check run_consults_named_pairs_only :
  forall (ffi1 ffi2 : str -> str -> list value -> ffi_outcome) (prog : list instr),
  (forall lib f args, In (CallLib lib f) prog -> ffi1 lib f args = ffi2 lib f args) ->
  forall (ip : nat) (s : vm), run_from ffi1 ip prog s = run_from ffi2 ip prog s.
Theorem C19_run_consults_named_pairs_only :
  forall (ffi1 ffi2 : str -> str -> list value -> ffi_outcome) (prog : list instr),
  (forall lib f args, In (CallLib lib f) prog -> ffi1 lib f args = ffi2 lib f args) ->
  forall (ip : nat) (s : vm), run_from ffi1 ip prog s = run_from ffi2 ip prog s.
Proof. exact run_consults_named_pairs_only. Qed.
Print Assumptions C19_run_consults_named_pairs_only.

(* non-vacuity: a foreign world with library [108] exporting `e` [101] (returns "ok" for the arguments
   [VInt 5; VStr "a"]), `n` [110] (nothing) and `x` [120] (raises "boom"), and a second library [76] exporting only `e`,
   which answers "L2"; programs print a marker, call, print the stack, print a marker *)
Definition world : str -> str -> list value -> ffi_outcome :=
  table_ffi [ ([108], [[101]; [110]; [120]]); ([76], [[101]]) ]
    [ ([108], [101], [VInt 5; VStr [97]], Value (VStr [111; 107]));
      ([108], [110], [VInt 5; VStr [97]], NoValue);
      ([108], [120], [VInt 5; VStr [97]], Raised [98; 111; 111; 109]);
      ([76], [101], [VInt 5; VStr [97]], Value (VStr [76; 50])) ].

Definition prog (lib f : str) : list instr :=
  [Push (VStr [98]); PrintN; Void; Push (VInt 5); Push (VStr [97]); CallLib lib f; PrintN; Void; Push (VStr [97]); PrintN; Void; RetMod].

Example C19_value : summary (run world (prog [108] [101])) =
  (0%N, [[VStr [98]]; [VStr [111; 107]]; [VStr [97]]],
   [(0, 0); (1, 1); (2, 1); (3, 0); (4, 1); (5, 2); (6, 1); (7, 1); (8, 0); (9, 1); (10, 1); (11, 0)]%nat,
   [([108], [101], [VInt 5; VStr [97]])], []).
Proof. vm_compute. reflexivity. Qed.

Example C19_novalue : summary (run world (prog [108] [110])) =
  (0%N, [[VStr [98]]; []; [VStr [97]]],
   [(0, 0); (1, 1); (2, 1); (3, 0); (4, 1); (5, 2); (6, 0); (7, 0); (8, 0); (9, 1); (10, 1); (11, 0)]%nat,
   [([108], [110], [VInt 5; VStr [97]])], []).
Proof. vm_compute. reflexivity. Qed.

Example C19_raised : summary (run world (prog [108] [120])) =
  (1%N, [[VStr [98]]], [(0, 0); (1, 1); (2, 1); (3, 0); (4, 1); (5, 2)]%nat,
   [([108], [120], [VInt 5; VStr [97]])], [98; 111; 111; 109]).
Proof. vm_compute. reflexivity. Qed.

Example C19_nolibrary : summary (run world (prog [109] [101])) =
  (2%N, [[VStr [98]]], [(0, 0); (1, 1); (2, 1); (3, 0); (4, 1); (5, 2)]%nat, [], [109]).
Proof. vm_compute. reflexivity. Qed.

Example C19_nosymbol : summary (run world (prog [108] [122])) =
  (3%N, [[VStr [98]]], [(0, 0); (1, 1); (2, 1); (3, 0); (4, 1); (5, 2)]%nat, [], [122]).
Proof. vm_compute. reflexivity. Qed.

(* histories: the same symbol `e` called in library [108], then in library [76] (the second library's `e` answers), then
   in a library that does not exist (error, nothing after it runs), resp. `n` in the library that lacks it *)
Definition history (lib3 f3 : str) : list instr :=
  [Push (VInt 5); Push (VStr [97]); CallLib [108] [101]; PrintN; Void;
   Push (VInt 5); Push (VStr [97]); CallLib [76] [101]; PrintN; Void;
   Push (VInt 5); Push (VStr [97]); CallLib lib3 f3; PrintN; Void; RetMod].

Example C19_history_missing_library_after_success : summary (run world (history [109] [101])) =
  (2%N, [[VStr [111; 107]]; [VStr [76; 50]]],
   [(0, 0); (1, 1); (2, 2); (3, 1); (4, 1); (5, 0); (6, 1); (7, 2); (8, 1); (9, 1); (10, 0); (11, 1); (12, 2)]%nat,
   [([108], [101], [VInt 5; VStr [97]]); ([76], [101], [VInt 5; VStr [97]])], [109]).
Proof. vm_compute. reflexivity. Qed.

Example C19_history_symbol_missing_in_second_library : summary (run world (history [76] [110])) =
  (3%N, [[VStr [111; 107]]; [VStr [76; 50]]],
   [(0, 0); (1, 1); (2, 2); (3, 1); (4, 1); (5, 0); (6, 1); (7, 2); (8, 1); (9, 1); (10, 0); (11, 1); (12, 2)]%nat,
   [([108], [101], [VInt 5; VStr [97]]); ([76], [101], [VInt 5; VStr [97]])], [110]).
Proof. vm_compute. reflexivity. Qed.
