(* C06 -- compile-time constant folding agrees with run-time evaluation.
   Pinned statements only; proofs live in Fold/FoldProofs.v.  Models: Fold/FoldModel.v (number.rs
   string_arithmetic / negate / literal widening, math_expr.rs try_constexpr_eval) and Num/NumImpl.v (the
   run-time operators).  [FixedF] / [Fixed] = the code with fixes/fold-negate.diff and
   fixes/num-overflow-panics-in-every-build.diff, fixes/num-byte-zero-divisor.diff,
   fixes/num-rem-min-by-minus-one.diff and fixes/num-shl-lost-bits.diff applied; [parsed] = the literals the
   parser produces with fixes/literal-kind-decided-once.diff.

   Full statement (property C06): a literal expression is evaluated by the compiler to the identical value
   and kind its run-time evaluation yields, and is rejected exactly when run-time evaluation would fail.
   Proved at full strength for ALL literal trees (any depth, any literal values) over the ten folded binary
   operators + - * / % << >> & | xor, unary minus and `!` (C06_fold_agrees and its three corollaries).
   A tree with a comparison at the root is not folded by design (FNot); it is compiled as written, and
   evaluates exactly like the same tree over variables (C06_inline_agrees) -- which the ORIGINAL parser
   violated for an integer literal beyond 32 bits (orig_oversized_literal_refuted: `3000000000 < 5`).
   `get`, `or`, lists and parentheses are transparent for folding (parentheses are not even in the AST);
   they are covered by the differential check (vlib/c06.py), not by this theorem:  ..._partial in that sense
   only.  Kept visible:
     full:   forall e over {literals, + - * / % << >> & | xor, unary -, !, get, or, lists}, fold e ~ eval_rt e
     proved: the same without get / or / lists. *)
From MS Require Import Num.NumImpl Fold.FoldModel Fold.FoldProofs.

Check fold_agrees : forall e, source e -> agrees (fold FixedF e) (eval_rt Fixed e).
Theorem C06_fold_agrees : forall e, source e -> agrees (fold FixedF e) (eval_rt Fixed e).
Proof. exact fold_agrees. Qed.

(* unfolded: a folded constant is the run-time value (same kind, same value) ... *)
Check fold_value : forall e n, source e -> fold FixedF e = FVal (CNum n) ->
  exists v, make n = Ok v /\ eval_rt Fixed e = Ok v.
Theorem C06_fold_value : forall e n, source e -> fold FixedF e = FVal (CNum n) ->
  exists v, make n = Ok v /\ eval_rt Fixed e = Ok v.
Proof. exact fold_value. Qed.

(* ... the compiler rejects only what fails at run time ... *)
Check fold_reject : forall e, source e -> fold FixedF e = FErr -> is_failure (eval_rt Fixed e).
Theorem C06_fold_reject : forall e, source e -> fold FixedF e = FErr -> is_failure (eval_rt Fixed e).
Proof. exact fold_reject. Qed.

(* ... and never turns a failing evaluation into a constant *)
Check fold_failure_not_folded : forall e c, source e ->
  is_failure (eval_rt Fixed e) -> fold FixedF e <> FVal c.
Theorem C06_failure_not_folded : forall e c, source e ->
  is_failure (eval_rt Fixed e) -> fold FixedF e <> FVal c.
Proof. exact fold_failure_not_folded. Qed.

(* a literal tree the folder leaves alone is compiled as written: same value, same failure as over variables *)
Check inline_agrees : forall v e, source e -> parsed e -> eval_inline v e = eval_rt v e.
Theorem C06_inline_agrees : forall v e, source e -> parsed e -> eval_inline v e = eval_rt v e.
Proof. exact inline_agrees. Qed.
(* ... the leaves of the fixed parser are [parsed], and the folder sees what it saw before *)
Check literal_int_parsed : forall z n, literal_int z = Some n -> parsed (ENum n).
Check fold_leaf_literal_int : forall z n, (0 <= z)%Z -> literal_int z = Some n ->
  fold_leaf n = fold_leaf (NInteger (Src z)).
(* ... the original parser's leaf was not: accepted, not folded, dies in make_int; over variables: false *)
Check orig_oversized_literal_refuted : forall v,
  source e_big_cmp /\ fold FixedF e_big_cmp = FNot /\ fold OrigF e_big_cmp = FNot /\
  eval_inline v e_big_cmp = Err /\ eval_rt v e_big_cmp = Ok (Bool false) /\
  (exists n, literal_int 3000000000 = Some n /\
             eval_inline v (EBin (Cmp CLt) (ENum n) (ENum (NInteger (Src 5)))) = Ok (Bool false)).
(* `<<` was changed in the folder and at run time together (C05: a left shift that loses a bit fails) *)
Check shl_changed_together : forall m,
  source e_shl /\ fold FixedF e_shl = FErr /\ eval_rt Fixed e_shl = Err /\
  fold OrigF e_shl = FVal (CNum (NInteger (Dec (-2147483648)))) /\
  eval_rt (Orig m) e_shl = Ok (Int (-2147483648)).

(* the original folder really disagreed (DESIGN F5), witnesses reproduced on the real binary *)
Check orig_neg_bigint_refuted : forall m,
  source e_neg_big /\
  (exists n, fold OrigF e_neg_big = FVal (CNum n) /\ make n = Ok (Int (-5))) /\
  eval_rt (Orig m) e_neg_big = Ok (Big (-5)).
Check orig_double_negation_refuted : forall m,
  source e_neg_neg /\
  (exists n, fold OrigF e_neg_neg = FVal (CNum n) /\ make n = Err) /\
  eval_rt (Orig m) e_neg_neg = Ok (Int 5).
Check orig_float_by_byte_zero_fold_refuted : forall m,
  source e_flt_byte0 /\ fold OrigF e_flt_byte0 = FErr /\
  eval_rt (Orig m) e_flt_byte0 = Ok (Flt (B754_infinity false)).
Check orig_min_rem_fold_refuted :
  source e_min_rem /\ eval_rt Fixed e_min_rem = Ok (Int 0) /\
  fold FixedF e_min_rem = FVal (CNum (NInteger (Dec 0))).

(* non-vacuity: widening of a literal that does not fit 32 bits, promotion, rejection, negation *)
Example C06_widening :
  fold FixedF (EBin (Arith Add) (ENum (NInteger (Src 2147483648))) (ENum (NByte (Src 1))))
  = FVal (CNum (NBigInt (Dec 2147483649))).
Proof. vm_compute. reflexivity. Qed.
Example C06_rejects_overflow :
  fold FixedF (EBin (Arith Add) (ENum (NInteger (Src 2147483647))) (ENum (NInteger (Src 1)))) = FErr
  /\ eval_rt Fixed (EBin (Arith Add) (ENum (NInteger (Src 2147483647))) (ENum (NInteger (Src 1)))) = Panic.
Proof. split; vm_compute; reflexivity. Qed.
Example C06_negation_fixed :
  fold FixedF e_neg_big = FVal (CNum (NBigInt (Dec (-5)))) /\
  fold FixedF e_neg_neg = FVal (CNum (NInteger (Dec 5))) /\
  fold FixedF e_flt_byte0 = FErr /\ eval_rt Fixed e_flt_byte0 = Err.
Proof. repeat split; vm_compute; reflexivity. Qed.
Example C06_not_folded :
  fold FixedF (EBin (Cmp CLt) (ENum (NInteger (Src 1))) (ENum (NInteger (Src 2)))) = FNot.
Proof. reflexivity. Qed.

Print Assumptions C06_fold_agrees.
Print Assumptions C06_fold_value.
Print Assumptions C06_fold_reject.
Print Assumptions C06_failure_not_folded.
Print Assumptions C06_inline_agrees.
