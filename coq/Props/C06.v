(* C06 -- compile-time constant folding agrees with run-time evaluation.
   Pinned statements only; proofs live in Fold/FoldProofs.v.  Models: Fold/FoldModel.v (number.rs
   string_arithmetic / negate / literal widening, math_expr.rs try_constexpr_eval) and Num/NumImpl.v (the
   run-time operators).  [FixedF] / [Fixed] = the code with fixes/fold-negate.diff and
   fixes/num-overflow-panics-in-every-build.diff, fixes/num-byte-zero-divisor.diff and
   fixes/num-rem-min-by-minus-one.diff applied.

   Full statement (property C06): a literal expression is evaluated by the compiler to the identical value
   and kind its run-time evaluation yields, and is rejected exactly when run-time evaluation would fail.
   Proved at full strength for ALL literal trees (any depth, any literal values) over the ten folded binary
   operators + - * / % << >> & | xor, unary minus and `!` (C06_fold_agrees and its three corollaries).
   Trees containing a comparison are not folded by design (FNot): nothing to prove.
   `get`, `or`, lists and parentheses are transparent for folding (parentheses are not even in the AST);
   they are covered by the differential check (vlib/c06.py), not by this theorem:  ..._partial in that sense
   only.  Kept visible:
     full:   forall e over {literals, + - * / % << >> & | xor, unary -, !, get, or, lists}, fold e ~ eval_rt e
     proved: the same without get / or / lists. *)
From MS Require Import Num.NumImpl Fold.FoldModel Fold.FoldProofs.

Check fold_agrees : forall e, source e -> agrees (fold FixedF e) (eval_rt Fixed e).
Theorem C06_fold_agrees : forall e, source e -> agrees (fold FixedF e) (eval_rt Fixed e).
Proof. exact fold_agrees. Qed.

(* unfolded: a folded constant is the run-time value (same kind, same value) ... *)
Check fold_value : forall e n, source e -> fold FixedF e = FVal (CNum n) ->
  exists v, make n = Ok v /\ eval_rt Fixed e = Ok v.
Theorem C06_fold_value : forall e n, source e -> fold FixedF e = FVal (CNum n) ->
  exists v, make n = Ok v /\ eval_rt Fixed e = Ok v.
Proof. exact fold_value. Qed.

(* ... the compiler rejects only what fails at run time ... *)
Check fold_reject : forall e, source e -> fold FixedF e = FErr -> is_failure (eval_rt Fixed e).
Theorem C06_fold_reject : forall e, source e -> fold FixedF e = FErr -> is_failure (eval_rt Fixed e).
Proof. exact fold_reject. Qed.

(* ... and never turns a failing evaluation into a constant *)
Check fold_failure_not_folded : forall e c, source e ->
  is_failure (eval_rt Fixed e) -> fold FixedF e <> FVal c.
Theorem C06_failure_not_folded : forall e c, source e ->
  is_failure (eval_rt Fixed e) -> fold FixedF e <> FVal c.
Proof. exact fold_failure_not_folded. Qed.

(* the original folder really disagreed (DESIGN F5), witnesses reproduced on the real binary *)
Check orig_neg_bigint_refuted : forall m,
  source e_neg_big /\
  (exists n, fold OrigF e_neg_big = FVal (CNum n) /\ make n = Ok (Int (-5))) /\
  eval_rt (Orig m) e_neg_big = Ok (Big (-5)).
Check orig_double_negation_refuted : forall m,
  source e_neg_neg /\
  (exists n, fold OrigF e_neg_neg = FVal (CNum n) /\ make n = Err) /\
  eval_rt (Orig m) e_neg_neg = Ok (Int 5).
Check orig_float_by_byte_zero_fold_refuted : forall m,
  source e_flt_byte0 /\ fold OrigF e_flt_byte0 = FErr /\
  eval_rt (Orig m) e_flt_byte0 = Ok (Flt (B754_infinity false)).
Check orig_min_rem_fold_refuted :
  source e_min_rem /\ eval_rt Fixed e_min_rem = Ok (Int 0) /\
  fold FixedF e_min_rem = FVal (CNum (NInteger (Dec 0))).

(* non-vacuity: widening of a literal that does not fit 32 bits, promotion, rejection, negation *)
Example C06_widening :
  fold FixedF (EBin (Arith Add) (ENum (NInteger (Src 2147483648))) (ENum (NByte (Src 1))))
  = FVal (CNum (NBigInt (Dec 2147483649))).
Proof. vm_compute. reflexivity. Qed.
Example C06_rejects_overflow :
  fold FixedF (EBin (Arith Add) (ENum (NInteger (Src 2147483647))) (ENum (NInteger (Src 1)))) = FErr
  /\ eval_rt Fixed (EBin (Arith Add) (ENum (NInteger (Src 2147483647))) (ENum (NInteger (Src 1)))) = Panic.
Proof. split; vm_compute; reflexivity. Qed.
Example C06_negation_fixed :
  fold FixedF e_neg_big = FVal (CNum (NBigInt (Dec (-5)))) /\
  fold FixedF e_neg_neg = FVal (CNum (NInteger (Dec 5))) /\
  fold FixedF e_flt_byte0 = FErr /\ eval_rt Fixed e_flt_byte0 = Err.
Proof. repeat split; vm_compute; reflexivity. Qed.
Example C06_not_folded :
  fold FixedF (EBin (Cmp CLt) (ENum (NInteger (Src 1))) (ENum (NInteger (Src 2)))) = FNot.
Proof. reflexivity. Qed.

Print Assumptions C06_fold_agrees.
Print Assumptions C06_fold_value.
Print Assumptions C06_fold_reject.
Print Assumptions C06_failure_not_folded.
