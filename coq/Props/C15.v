(* C15 -- operands are evaluated left to right, once; logical operators short-circuit; no register is reused
   too early.

   FULL STATEMENT (DESIGN 5.15; not proved as a whole, kept visible):
     eval_order : forall e (any expression whose leaves are calls to logging functions, any depth),
        the sequence of `log` lines of Vm.run (compile e) = left-to-right, each leaf once;
        `a && b`, `a || b`, `(x) or y` skip as specified;
     regs_noninterference : compile_depth e (counter := c) writes only registers >= c; every register < c and
        every operand below the expression's own is preserved, including across calls.

   WHAT IS PROVED AND PINNED HERE (proofs: Compile/ExprBase.v, Compile/ExprSim.v):
   * for ALL expressions of the language (calls, self-calls, function literals included), statically:
       C15_only_instructions  cexpr never emits a break/continue placeholder,
       C15_regs_ge_d          every register bound (store_fast / store_skip) by the code of `cexpr d e` is #k, k >= d;
   * for ALL call-free expressions (literals, variables, all binary operators, && || !, unary -, `or`, `get`),
     at EVERY nesting depth, on the VM model (the `steps` below are the body of run_fn_gen's loop: C15_loop_tie):
       C15_cexpr_correct_partial   value / failure of the compiled code = value / failure of Lang.Eval.eval
                                   (so the FIRST failure in left-to-right order is the one that happens), the
                                   operand stack holds exactly the value, registers < d and all variables keep
                                   cell and value, nothing printed, frames unchanged in shape;
       C15_left_failure_first, C15_right_failure_second      evaluation order of binary operators;
       C15_and_false_skips_right, C15_or_true_skips_right, C15_nilor_nonnil_skips_right
                                   short-circuit with an ARBITRARY right operand (any expression, with calls):
                                   none of its instructions is executed (trace bound in `ext`);
       C15_regs_noninterference_partial   the dynamic register invariant;
       C15_once_in_order           every run above executes each instruction at most once, in address order
                                   (left operand's code strictly before the right operand's).
   MISSING for the full statement: operands that are calls (needs the statement-level simulation C01), hence the
   "each leaf once" log-sequence form; it is covered on every run by the correspondence of vlib/c15.py. *)
From MS Require Import Lang.Eval.
From MS Require Import Vm.Model Lang.Syntax Compile.Compile Verify.Sound Compile.ExprBase Compile.ExprSim.
From Coq Require Import Sorted.
Open Scope nat_scope.

(* ---------------------------------------------------------------- the reference semantics itself *)
Example C15_and_skips_rhs : forall fuel e s b, eval (S (S fuel)) e (EAnd (EBool false) b) s = EVal (RBool false) s.
Proof. intros. reflexivity. Qed.
Example C15_or_skips_rhs : forall fuel e s b, eval (S (S fuel)) e (EOr (EBool true) b) s = EVal (RBool true) s.
Proof. intros. reflexivity. Qed.
Print Assumptions C15_and_skips_rhs.

(* ---------------------------------------------------------------- static, ALL expressions *)
Check cexpr_only_instructions : forall path e d st, Forall is_CI (fst (cexpr path d e st)).
Theorem C15_only_instructions : forall path e d st, Forall is_CI (fst (cexpr path d e st)).
Proof. exact cexpr_only_instructions. Qed.
Print Assumptions C15_only_instructions.

Check cexpr_regs_ge_d : forall path e d st i n,
  In (CI i) (fst (cexpr path d e st)) -> writes_reg i = Some n -> exists k, n = reg k /\ d <= k.
Theorem C15_regs_ge_d : forall path e d st i n,
  In (CI i) (fst (cexpr path d e st)) -> writes_reg i = Some n -> exists k, n = reg k /\ d <= k.
Proof. exact cexpr_regs_ge_d. Qed.
Print Assumptions C15_regs_ge_d.

(* on the call-free fragment the generator emits instructions only and does not touch its state *)
Check cexpr_pure : forall path e, pure e = true -> forall d st, cexpr path d e st = (map CI (pcode d e), st).
Theorem C15_cexpr_pure : forall path e, pure e = true -> forall d st, cexpr path d e st = (map CI (pcode d e), st).
Proof. exact cexpr_pure. Qed.
Print Assumptions C15_cexpr_pure.

(* ---------------------------------------------------------------- the steps are the interpreter loop *)
Check loop_steps_running : forall name code rc callee n a g a' g', steps name code n (Running a g) = Running a' g' ->
  forall fuel, loop rc callee name code (n + fuel) a g = loop rc callee name code fuel a' g'.
Theorem C15_loop_tie : forall name code rc callee n a g,
  (forall a' g', steps name code n (Running a g) = Running a' g' ->
     forall fuel, loop rc callee name code (n + fuel) a g = loop rc callee name code fuel a' g') /\
  (forall e g', steps name code n (Running a g) = Failed e g' ->
     forall fuel, loop rc callee name code (n + fuel) a g = RFail e g').
Proof.
  intros. split; intros; [eapply loop_steps_running|eapply loop_steps_failed]; eassumption.
Qed.
Print Assumptions C15_loop_tie.
Check run_fn_gen_S.                                  (* run_fn_gen (S fuel) = that loop, by reflexivity *)

(* ---------------------------------------------------------------- dynamic, all call-free expressions *)
Theorem C15_cexpr_correct_partial : forall path e, pure e = true -> lits_ok e = true ->
  forall d st name pre post a g env s fuel,
  post <> [] -> small (d + length (code_of path d e st) + 3) ->
  a_ip a = length pre -> a_ops a = [] -> frames g <> [] ->
  Renv env s a g -> (forall x, In x (used_e e) -> var_ok env s x) ->
  let mid := code_of path d e st in
  let code := pre ++ mid ++ post in
  let fin := length pre + length mid in
  match eval fuel env e s with
  | EVal v s' => s' = s /\ first_order v /\ exists n g',
        steps name code n (Running a g) = Running (upd a fin [inj v]) g' /\
        Renv env s (upd a fin [inj v]) g' /\ regs_below_preserved d g g' /\ out g' = out g /\
        frames_same_shape g g' /\ ext d (length pre) fin g g'
  | EFail f s' => s' = s /\ exists n e g',
        steps name code n (Running a g) = Failed e g' /\ err_rel f e /\ out g' = out g /\
        ext d (length pre) fin g g'
  | EFuel => True
  | ENoVal _ => False
  end.
Proof. exact cexpr_correct. Qed.
Print Assumptions C15_cexpr_correct_partial.

Theorem C15_cexpr_correct_loop_partial : forall path e, pure e = true -> lits_ok e = true ->
  forall d st name pre post a g env s fuel rc callee,
  post <> [] -> small (d + length (code_of path d e st) + 3) ->
  a_ip a = length pre -> a_ops a = [] -> frames g <> [] ->
  Renv env s a g -> (forall x, In x (used_e e) -> var_ok env s x) ->
  let mid := code_of path d e st in
  let code := pre ++ mid ++ post in
  let fin := length pre + length mid in
  match eval fuel env e s with
  | EVal v _ => exists n g', (forall k, loop rc callee name code (n + k) a g = loop rc callee name code k (upd a fin [inj v]) g') /\
                             ext d (length pre) fin g g'
  | EFail f _ => exists n e g', (forall k, loop rc callee name code (n + k) a g = RFail e g') /\ err_rel f e /\ out g' = out g
  | EFuel => True
  | ENoVal _ => False
  end.
Proof. exact cexpr_correct_loop. Qed.
Print Assumptions C15_cexpr_correct_loop_partial.

(* what `ext d lo hi g g'` says (it is part of every statement above and below): *)
Check (eq_refl : own_reg = fun d x => exists k, d <= k /\ small k /\ x = reg k).
Check ext_cells : forall d lo hi g g', ext d lo hi g g' -> exists extra, cells g' = cells g ++ extra.
Check ext_find : forall d lo hi g g', ext d lo hi g g' ->
  forall x, ~ own_reg d x -> find_in_function x (frames g') = find_in_function x (frames g).
Check ext_out : forall d lo hi g g', ext d lo hi g g' -> out g' = out g.
Check ext_labs : forall d lo hi g g', ext d lo hi g g' -> map lab (frames g') = map lab (frames g).
Check ext_tail : forall d lo hi g g', ext d lo hi g g' -> tl (frames g') = tl (frames g).
(* "once, in address order": the executed instructions (new trace records, newest first) lie in [lo, hi), their
   ips strictly increase in execution order, hence no instruction is executed twice and the left operand's code
   runs entirely before the right operand's *)
Theorem C15_once_in_order : forall d lo hi g g', ext d lo hi g g' ->
  exists new, trace g' = new ++ trace g /\ Forall (fun ev => lo <= ev_ip ev < hi) new /\
              StronglySorted (fun x y => ev_ip y < ev_ip x) new /\ NoDup (map ev_ip new).
Proof. exact ext_once. Qed.
Print Assumptions C15_once_in_order.

(* evaluation order *)
Theorem C15_left_failure_first : forall path o ea eb, pure (EBin o ea eb) = true -> lits_ok (EBin o ea eb) = true ->
  forall d st name pre post a g env s fuel f,
  post <> [] -> small (d + length (code_of path d (EBin o ea eb) st) + 3) ->
  a_ip a = length pre -> a_ops a = [] -> frames g <> [] ->
  Renv env s a g -> (forall x, In x (used_e (EBin o ea eb)) -> var_ok env s x) ->
  eval fuel env ea s = EFail f s ->
  exists n e g', steps name (pre ++ code_of path d (EBin o ea eb) st ++ post) n (Running a g) = Failed e g' /\
                 err_rel f e /\ out g' = out g.
Proof. exact left_failure_first. Qed.
Print Assumptions C15_left_failure_first.

Theorem C15_right_failure_second : forall path o ea eb, pure (EBin o ea eb) = true -> lits_ok (EBin o ea eb) = true ->
  forall d st name pre post a g env s fuel va f,
  post <> [] -> small (d + length (code_of path d (EBin o ea eb) st) + 3) ->
  a_ip a = length pre -> a_ops a = [] -> frames g <> [] ->
  Renv env s a g -> (forall x, In x (used_e (EBin o ea eb)) -> var_ok env s x) ->
  eval fuel env ea s = EVal va s -> eval fuel env eb s = EFail f s ->
  exists n e g', steps name (pre ++ code_of path d (EBin o ea eb) st ++ post) n (Running a g) = Failed e g' /\
                 err_rel f e /\ out g' = out g.
Proof. exact right_failure_second. Qed.
Print Assumptions C15_right_failure_second.

(* short-circuit: `skip_stmt path e ea v` = whenever the call-free left operand ea evaluates to v, the code of e
   (ANY right operand) reaches its end with exactly [v] on the operand stack, having executed only instructions
   with ip < |pre| + |code ea| + 1 and bound only registers > d *)
Check (eq_refl : skip_stmt = fun path e ea v =>
  forall d st name pre post a g env s fuel,
  pure ea = true -> lits_ok ea = true ->
  post <> [] -> small (d + length (code_of path d e st) + 3) ->
  a_ip a = length pre -> a_ops a = [] -> frames g <> [] ->
  Renv env s a g -> (forall x, In x (used_e ea) -> var_ok env s x) ->
  eval fuel env ea s = EVal v s ->
  exists n g',
    steps name (pre ++ code_of path d e st ++ post) n (Running a g)
      = Running (upd a (length pre + length (code_of path d e st)) [inj v]) g' /\
    ext (S d) (length pre) (length pre + length (code_of path (S d) ea st) + 1) g g').
Theorem C15_and_false_skips_right : forall path ea eb, skip_stmt path (EAnd ea eb) ea (RBool false).
Proof. exact and_false_skips_right. Qed.
Print Assumptions C15_and_false_skips_right.
Theorem C15_or_true_skips_right : forall path ea eb, skip_stmt path (EOr ea eb) ea (RBool true).
Proof. exact or_true_skips_right. Qed.
Print Assumptions C15_or_true_skips_right.
Theorem C15_nilor_nonnil_skips_right : forall path ea eb v, v <> RNil -> skip_stmt path (ENilOr ea eb) ea v.
Proof. exact nilor_nonnil_skips_right. Qed.
Print Assumptions C15_nilor_nonnil_skips_right.

(* registers *)
Theorem C15_regs_noninterference_partial : forall path e, pure e = true -> lits_ok e = true ->
  forall d st name pre post a g env s fuel v,
  post <> [] -> small (d + length (code_of path d e st) + 3) ->
  a_ip a = length pre -> a_ops a = [] -> frames g <> [] ->
  Renv env s a g -> (forall x, In x (used_e e) -> var_ok env s x) ->
  eval fuel env e s = EVal v s ->
  exists n g', steps name (pre ++ code_of path d e st ++ post) n (Running a g)
                 = Running (upd a (length pre + length (code_of path d e st)) [inj v]) g' /\
    forall k c w, k < d -> find_in_function (reg k) (frames g) = Some c -> cell_get g c = Some w ->
                  find_in_function (reg k) (frames g') = Some c /\ cell_get g' c = Some w.
Proof. exact regs_noninterference. Qed.
Print Assumptions C15_regs_noninterference_partial.

(* the EFuel case of the statements above is excluded as soon as fuel exceeds the nesting depth *)
Theorem C15_eval_pure_fuel : forall e, pure e = true -> forall fuel env s, height e < fuel -> eval fuel env e s <> EFuel.
Proof. exact eval_pure_fuel. Qed.
Print Assumptions C15_eval_pure_fuel.

(* ---------------------------------------------------------------- non-vacuity *)
Definition nv_x : str := [120%N].
Definition nv_f : str := [102%N].
(* (1 + 2 * x < 10) && (!true || 7 % 4 == 3), nesting depth 5 *)
Definition nv_e1 : expr :=
  EAnd (EBin BLt (EBin BAdd (EInt 1) (EBin BMul (EInt 2) (EVar nv_x))) (EInt 10))
       (EOr (ENot (EBool true)) (EBin BEq (EBin BMod (EInt 7) (EInt 4)) (EInt 3))).
Definition nv_st : cst := {| fid := 0; lreg := 0; fbuf := [] |}.
Definition nv_ret : instr := {| op := OP_RET; args := [] |}.
Definition nv_g : gstate :=
  {| cells := [VInt 3]; frames := [{| lab := LFun nv_f; vars := [(nv_x, 0%N)] |}]; out := []; trace := [] |}.
Definition nv_a : act := act0 nv_f [] None.
Definition nv_env : fenv := {| locals := [[(nv_x, 0%N)]]; captured := []; cur := None |}.
Definition nv_s : rstate := {| store := [RInt 3]; rout := [] |}.
Definition nv_fin (r : rstatus) : option (nat * list value) :=
  match r with Running a _ => Some (a_ip a, a_ops a) | _ => None end.
Definition nv_err (r : rstatus) : option err := match r with Failed e _ => Some e | _ => None end.

(* the model VM runs the compiled code of e1 (35 instructions) to its end and holds exactly eval's value *)
Example C15_nonvacuous_deep :
  eval 10 nv_env nv_e1 nv_s = EVal (RBool true) nv_s /\
  length (code_of [] 0 nv_e1 nv_st) = 35 /\
  nv_fin (steps nv_f (code_of [] 0 nv_e1 nv_st ++ [nv_ret]) 35 (Running nv_a nv_g)) = Some (35, [inj (RBool true)]).
Proof. vm_compute. repeat split. Qed.

(* the hypotheses of the theorem are satisfiable: it applies to that instance *)
Example C15_nonvacuous_theorem_applies : exists n g',
  steps nv_f ([] ++ code_of [] 0 nv_e1 nv_st ++ [nv_ret]) n (Running nv_a nv_g)
    = Running (upd nv_a 35 [VBool true]) g' /\ regs_below_preserved 0 nv_g g' /\ out g' = [].
Proof.
  assert (Hv : forall x, In x (used_e nv_e1) -> var_ok nv_env nv_s x).
  { intros x [<-|[]]. split; [exact Logic.I|]. exists 0%N, (RInt 3). repeat split. }
  assert (HR : Renv nv_env nv_s nv_a nv_g).
  { intros x c v _ Hl Hg _.
    cbn [nv_env locals captured app lookup_scopes assoc] in Hl.
    destruct (str_eqb nv_x x) eqn:E; [|discriminate].
    apply str_eqb_iff in E. subst x. inversion Hl; subst c. cbn in Hg. inversion Hg; subst v.
    exists 0%N. split; reflexivity. }
  pose proof (C15_cexpr_correct_partial [] nv_e1 eq_refl eq_refl 0 nv_st nv_f [] [nv_ret] nv_a nv_g nv_env nv_s 10
                ltac:(discriminate) ltac:(vm_compute; reflexivity) eq_refl eq_refl ltac:(discriminate) HR Hv) as H.
  cbv zeta in H.
  change (eval 10 nv_env nv_e1 nv_s) with (EVal (RBool true) nv_s) in H.
  destruct H as (_ & _ & n & g' & Hn & _ & Hreg & Hout & _).
  exists n, g'. split; [exact Hn|]. split; [exact Hreg|exact Hout].
Qed.

(* short-circuit: `false && (1 / 0)` does not divide; `true && (1 / 0)` fails with the division error *)
Definition nv_e2 : expr := EAnd (EBool false) (EBin BDiv (EInt 1) (EInt 0)).
Definition nv_e3 : expr := EAnd (EBool true) (EBin BDiv (EInt 1) (EInt 0)).
Example C15_nonvacuous_skip :
  eval 10 nv_env nv_e2 nv_s = EVal (RBool false) nv_s /\
  nv_fin (steps nv_f (code_of [] 0 nv_e2 nv_st ++ [nv_ret]) 2 (Running nv_a nv_g))
    = Some (length (code_of [] 0 nv_e2 nv_st), [VBool false]) /\
  eval 10 nv_env nv_e3 nv_s = EFail FDivZero nv_s /\
  nv_err (steps nv_f (code_of [] 0 nv_e3 nv_st ++ [nv_ret]) 8 (Running nv_a nv_g)) = Some E_div_zero.
Proof. vm_compute. repeat split. Qed.

(* ---------------------------------------------------------------------------------------------
   The SOURCE-LEVEL statement for whole PROGRAMS, as a theorem on a decidable fragment (Compile/ClosFrag.v .. ClosTop.v,
   the fragment of C07_closure_programs_correct_partial widened by: `self(..)`; `&&` `||` `!` whose operands contain
   calls; `(a) or b` and `get a` whose operands contain calls; if / else).  Its programs are those of this check
   (vlib/c15.py: PRELUDE -- a module variable x, functions that print and return (bump modifies x), `rec` calling
   self -- followed by `print <expression tree>` statements built from + - * / % comparisons && || ! over CALLS,
   nested calls as arguments, `0 - e`).  For every such program the model compiler's code, run by the VM model,
   prints exactly the lines the reference semantics (Lang/Eval.v) prints and ends the same way.  Because every operand
   that is a call prints, equality of the printed lines IS the statement of C15 for these programs: operands are
   evaluated left to right, each exactly once; a variable operand keeps the value it had when it was evaluated although a
   later sibling modifies the variable; `a && b` / `a || b` do not evaluate b (the call is skipped: nothing is printed)
   when a decides; a division / remainder by zero stops both sides with the related error after the same output.
   The check evaluates the extracted `in_fragment` (= in_fragment1 || in_fragment2) on every program it generates.
   PARTIAL: programs outside the fragment (list / map / class forms, op-assignments: the extended streams of the check)
   are covered by the T1/T2/T3 correspondences and the Python oracle only. *)
From MS Require Import Lang.Eval Compile.Compile.
From MS Require Import Compile.ClosFrag Compile.ClosRel Compile.ClosSim Compile.ClosTop Compile.StmtSim Compile.StmtFragB Compile.StmtExamples Compile.ClosExamples2.
Check closure_module_correct.
Theorem C15_order_programs_correct_partial : forall (path : str) (p : source), in_fragment2 path p = true ->
  forall fuel : nat, snd (run fuel p) <> ROFuel ->
  no_claim (snd (run fuel p)) \/
  (exists fuel' : nat,
     fst (fst (execute fuel' (cprogram path p) (s_module_fn path))) = fst (run fuel p) /\
     vm_outcome_ok (snd (run fuel p)) (snd (fst (execute fuel' (cprogram path p) (s_module_fn path))))).
Proof. exact closure_module_correct. Qed.
Print Assumptions C15_order_programs_correct_partial.
(* the same on the union of the two proved fragments (what the check's in_fragment column evaluates) *)
Check fragment_correct.
(* expressions of any kind: operands in order, the parked left operand survives the calls on the right (espec_bin),
   short-circuit over calls (espec_logic), self calls (espec_self) *)
Check espec_all.
(* non-vacuity: the prelude of the check with `log(1) + two(log(2), bump(3)) * x`, `logb(4, false) && logb(5, true)`
   (5 is not printed), `||`, `!`, rec(2), pick(x, bump(12), x, bump(13)), x / bump(14), 0 - log(15): inside the fragment,
   VM == reference semantics, 31 lines; and the failure case `log(1) % zero()` *)
Check C15_nv_order_program.
Check C15_nv_division_by_zero.
Example C15_nv_in_fragment : in_fragment2 nvp nv_c15 = true /\ in_fragment nvp nv_c15 = true /\ in_fragment2 nvp nv_c15_div = true.
Proof. vm_compute. repeat split. Qed.
