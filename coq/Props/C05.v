(* C05 -- numeric operators yield the exact value and the promoted kind, or fail.
   Pinned statements only; proofs live in Num/NumProofs.v.  Models: Num/NumImpl.v (the operator macros of
   bytecode/src/variables/ops*.rs, primitive.rs equals/negate, arm by arm), specification: Num/NumSpec.v.

   Full statement (property C05), for the code as fixed by fixes/num-overflow-panics-in-every-build.diff,
   fixes/num-byte-zero-divisor.diff, fixes/num-rem-min-by-minus-one.diff and fixes/num-shl-lost-bits.diff
   ([Fixed]; an integer overflow of + - * is a Rust panic in every build, a zero divisor and a left shift that
   loses a bit an error: all are failures for C05):
     for every operator, every pair of numeric kinds and ALL operand values that fit their kinds,
     the implementation yields exactly the value the specification defines -- of the kind given by the
     promotion table -- and stops with a failure (Err or Panic, never a value) exactly when the
     specification is Undefined (result not representable -- for `x << n` too: its exact value is x * 2^n --
     shift amount out of range, zero divisor).
   It is proved at full strength below (C05_binop_exact, C05_binop_kind, C05_neg_exact, C05_not_exact).
   The float kind is specified by Flocq's IEEE-754 binary64 operations (round to nearest even); `%` on
   floats by F_rem (NumDefs.v).  The ORIGINAL code is characterised by C05_orig_exact_except with the four
   known classes K1-K4 and one refutation witness per class. *)
From Coq Require Import Reals.
From Flocq Require Import Core.Core.
From MS Require Import Num.NumImpl Num.NumSpec Num.NumProofs Num.NumFloat.

(* all 16 binary operators x 16 kind pairs x all values *)
Check binop_fixed : forall op a b, wf a -> wf b -> is_num a -> is_num b ->
  meets (spec_binop op a b) (binop_eval Fixed op a b).
Theorem C05_binop_exact : forall op a b, wf a -> wf b -> is_num a -> is_num b ->
  meets (spec_binop op a b) (binop_eval Fixed op a b).
Proof. exact binop_fixed. Qed.

(* the kind of every defined result is the promoted kind (Bool for comparisons and equality) *)
Check binop_kind : forall op a b ka kb v,
  kind_of a = Some ka -> kind_of b = Some kb -> spec_binop op a b = Exact v ->
  rkind_of v = result_kind op ka kb.
Theorem C05_binop_kind : forall op a b ka kb v,
  kind_of a = Some ka -> kind_of b = Some kb -> spec_binop op a b = Exact v ->
  rkind_of v = result_kind op ka kb.
Proof. exact binop_kind. Qed.

(* unary minus and `!` *)
Check neg_fixed : forall a, wf a -> meets (spec_neg a) (negate Fixed a).
Theorem C05_neg_exact : forall a, wf a -> meets (spec_neg a) (negate Fixed a).
Proof. exact neg_fixed. Qed.

Check not_exact : forall a, meets (spec_not a) (not_ a).
Theorem C05_not_exact : forall a, meets (spec_not a) (not_ a).
Proof. exact not_exact. Qed.

(* the original code: exact outside the known classes (m = Trap: debug build, m = Wrap: release build) *)
Check binop_orig : forall m op a b, wf a -> wf b -> is_num a -> is_num b ->
  ~ float_by_byte_zero op a b -> ~ rem_min_by_m1 op a b -> (m = Wrap -> ~ overflows op a b) ->
  ~ shl_loses_bits op a b ->
  meets (spec_binop op a b) (binop_eval (Orig m) op a b).
Theorem C05_orig_exact_except : forall m op a b, wf a -> wf b -> is_num a -> is_num b ->
  ~ float_by_byte_zero op a b -> ~ rem_min_by_m1 op a b -> (m = Wrap -> ~ overflows op a b) ->
  ~ shl_loses_bits op a b ->
  meets (spec_binop op a b) (binop_eval (Orig m) op a b).
Proof. exact binop_orig. Qed.

(* ... and really violates the specification inside each class (witnesses reproduced on the real binaries) *)
Check orig_wrap_refuted : exists op a b,
  wf a /\ wf b /\ is_num a /\ is_num b /\ overflows op a b /\
  binop_eval (Orig Wrap) op a b = Ok (Int (-2147483648)) /\
  ~ meets (spec_binop op a b) (binop_eval (Orig Wrap) op a b).
Check orig_float_by_byte_zero_refuted : forall m, exists op a b,
  wf a /\ wf b /\ is_num a /\ is_num b /\ float_by_byte_zero op a b /\
  binop_eval (Orig m) op a b = Ok (Flt (B754_infinity false)) /\
  ~ meets (spec_binop op a b) (binop_eval (Orig m) op a b).
Check orig_rem_min_by_m1_refuted : forall m, exists op a b,
  wf a /\ wf b /\ is_num a /\ is_num b /\ rem_min_by_m1 op a b /\
  spec_binop op a b = Exact (Int 0) /\ binop_eval (Orig m) op a b = Panic.
(* `3 << 31`: the exact value 6442450944 is not an int; the original code yields the truncated pattern *)
Check orig_shl_refuted : forall m, exists op a b,
  wf a /\ wf b /\ is_num a /\ is_num b /\ shl_loses_bits op a b /\
  spec_binop op a b = Undefined /\ binop_eval (Orig m) op a b = Ok (Int (-2147483648)) /\
  binop_eval Fixed op a b = Err.
Check orig_neg_wrap_refuted :
  wf (Int (-2147483648)) /\ spec_neg (Int (-2147483648)) = Undefined /\
  negate (Orig Wrap) (Int (-2147483648)) = Ok (Int (-2147483648)).

(* the two float primitives defined by this development mean what the property says:
   `%` on doubles is the exact fmod (sign of the dividend), int -> double is round-to-nearest-even *)
Check F_rem_correct : forall x y : float,
  is_finite x = true -> is_finite y = true -> B2R y <> 0%R ->
  is_finite (F_rem x y) = true /\
  B2R (F_rem x y) = (B2R x - IZR (Ztrunc (B2R x / B2R y)) * B2R y)%R.
Theorem C05_float_rem_is_fmod : forall x y : float,
  is_finite x = true -> is_finite y = true -> B2R y <> 0%R ->
  is_finite (F_rem x y) = true /\
  B2R (F_rem x y) = (B2R x - IZR (Ztrunc (B2R x / B2R y)) * B2R y)%R.
Proof. exact F_rem_correct. Qed.

Check F_of_Z_correct : forall z, (Z.abs z <= 2 ^ 127)%Z ->
  is_finite (F_of_Z z) = true /\
  B2R (F_of_Z z) = round radix2 (SpecFloat.fexp 53 1024) ZnearestE (IZR z).
Theorem C05_int_to_double_rounds : forall z, (Z.abs z <= 2 ^ 127)%Z ->
  is_finite (F_of_Z z) = true /\
  B2R (F_of_Z z) = round radix2 (SpecFloat.fexp 53 1024) ZnearestE (IZR z).
Proof. exact F_of_Z_correct. Qed.

(* non-vacuity: the specification defines results (promotion, exactness, IEEE) and demands failures *)
Example C05_promotes : spec_binop (Arith Mul) (Byte 200) (Big 170141183460469231731687303715884105)
                       = Exact (Big 34028236692093846346337460743176821000).
Proof. vm_compute. reflexivity. Qed.
Example C05_overflow_fails : spec_binop (Arith Add) (Int 2147483647) (Byte 1) = Undefined
                             /\ binop_eval Fixed (Arith Add) (Int 2147483647) (Byte 1) = Panic.
Proof. split; vm_compute; reflexivity. Qed.
Example C05_zero_divisor_fails : spec_binop (Arith Div) (Flt (F_of_Z 3)) (Byte 0) = Undefined
                                 /\ binop_eval Fixed (Arith Div) (Flt (F_of_Z 3)) (Byte 0) = Err.
Proof. split; vm_compute; reflexivity. Qed.
Example C05_trunc_div : binop_eval Fixed (Arith Div) (Int (-7)) (Byte 2) = Ok (Int (-3))
                        /\ binop_eval Fixed (Arith Rem) (Int (-7)) (Byte 2) = Ok (Int (-1)).
Proof. split; vm_compute; reflexivity. Qed.
(* 2^53 + 1 as a bigint is rounded to 2^53 when compared with a double *)
Example C05_cross_kind_eq : binop_eval Fixed (Equ Eq_) (Big 9007199254740993) (Flt (F_of_Z 9007199254740992))
                            = Ok (Bool true).
Proof. vm_compute. reflexivity. Qed.
(* -8 % 3.0 = -2.0 : fmod, sign of the dividend *)
Example C05_float_rem :
  match binop_eval Fixed (Arith Rem) (Int (-8)) (Flt (F_of_Z 3)) with
  | Ok (Flt f) => F_cmp f (F_of_Z (-2)) = Some Eq
  | _ => False
  end.
Proof. vm_compute. reflexivity. Qed.
Example C05_shift_range : binop_eval Fixed (Shift Shl) (Int 1) (Int 30) = Ok (Int 1073741824)
                          /\ binop_eval Fixed (Shift Shl) (Int (-1)) (Int 31) = Ok (Int (-2147483648))
                          /\ binop_eval Fixed (Shift Shl) (Int 1) (Int 32) = Err
                          /\ spec_binop (Shift Shl) (Int 1) (Int 32) = Undefined.
Proof. vm_compute. repeat split. Qed.
(* a left shift that loses a bit fails: 1 << 31 is 2147483648, not an int; 255 << 1 is 510, not a byte *)
Example C05_shl_overflow_fails : spec_binop (Shift Shl) (Int 1) (Int 31) = Undefined
                                 /\ binop_eval Fixed (Shift Shl) (Int 1) (Int 31) = Err
                                 /\ binop_eval Fixed (Shift Shl) (Byte 255) (Byte 1) = Err
                                 /\ binop_eval Fixed (Shift Shl) (Byte 255) (Int 1) = Ok (Int 510)
                                 /\ binop_eval Fixed (Shift Shr) (Int (-5)) (Byte 1) = Ok (Int (-3)).
Proof. vm_compute. repeat split. Qed.

(* Print Assumptions last (the driver reads the axiom lists that follow each `Axioms:` header): the Flocq /
   Reals library axioms only; C05_not_exact and the integer lemmas are closed under the global context *)
Print Assumptions C05_binop_exact.
Print Assumptions C05_binop_kind.
Print Assumptions C05_neg_exact.
Print Assumptions C05_not_exact.
Print Assumptions C05_orig_exact_except.
Print Assumptions C05_float_rem_is_fmod.
Print Assumptions C05_int_to_double_rounds.
