From MS Require Import Num.NumImpl Num.NumSpec Num.NumProofs.
Example C05_stub : binop_eval Fixed (Arith Add) (Int 1) (Int 2) = Ok (Int 3).
Proof. vm_compute. reflexivity. Qed.
