(* C20 -- `mscript clean DIR` deletes exactly the files directly inside DIR whose extension is `mmm`,
   reports how many it removed, and never deletes or alters anything else.
   Pinned statements only; model in Clean/Model.v (clean_command of src/main.rs with
   fixes/clean-skip-dirs.diff and fixes/clean-continues-after-failure.diff applied), proofs in Clean/Proofs.v.
   A directory is the list of its entries (name, kind without following links, content id) in the
   order read_dir yields them; `doomed e` = e is not a directory and Path::extension(name e) = "mmm". *)
From Coq Require Import Permutation.
From MS Require Import Base.Str Clean.Model Clean.Proofs.

(* Rust's Path::extension on an entry name, characterised: not "..", NON-EMPTY stem, '.', dot-free ext *)
Check extension_spec : forall s x : str,
  extension s = Some x <->
  s <> [c_dot; c_dot] /\ exists stem, stem <> [] /\ s = stem ++ c_dot :: x /\ ~ In c_dot x.
Theorem C20_extension_spec : forall s x : str,
  extension s = Some x <->
  s <> [c_dot; c_dot] /\ exists stem, stem <> [] /\ s = stem ++ c_dot :: x /\ ~ In c_dot x.
Proof. exact extension_spec. Qed.
Print Assumptions C20_extension_spec.

(* ALL directories (any number of entries, any names, any kinds; names distinct): the command exits
   normally, what is left is exactly the not-doomed entries -- each the same record, in place --,
   the count reported is the number of doomed entries, one `clean <name>` line for each of them *)
Check clean_exact : forall es : list entry, NoDup (map name es) ->
  clean es = Cleaned (filter spared es) (N.of_nat (length (filter doomed es))) (map name (filter doomed es)).
Theorem C20_clean_exact : forall es : list entry, NoDup (map name es) ->
  clean es = Cleaned (filter spared es) (N.of_nat (length (filter doomed es))) (map name (filter doomed es)).
Proof. exact clean_exact. Qed.
Print Assumptions C20_clean_exact.

(* the same, in the words of the property *)
Check clean_removes : forall es fs n msgs e, NoDup (map name es) -> clean es = Cleaned fs n msgs ->
  In e es -> ekind e <> KDir -> extension (name e) = Some s_mmm -> ~ In e fs.
Theorem C20_clean_removes : forall es fs n msgs e, NoDup (map name es) -> clean es = Cleaned fs n msgs ->
  In e es -> ekind e <> KDir -> extension (name e) = Some s_mmm -> ~ In e fs.
Proof. exact clean_removes. Qed.
Print Assumptions C20_clean_removes.

Check clean_spares : forall es fs n msgs e, NoDup (map name es) -> clean es = Cleaned fs n msgs ->
  In e es -> (ekind e = KDir \/ extension (name e) <> Some s_mmm) -> In e fs.
Theorem C20_clean_spares : forall es fs n msgs e, NoDup (map name es) -> clean es = Cleaned fs n msgs ->
  In e es -> (ekind e = KDir \/ extension (name e) <> Some s_mmm) -> In e fs.
Proof. exact clean_spares. Qed.
Print Assumptions C20_clean_spares.

Check clean_invents_nothing : forall es fs n msgs e, NoDup (map name es) -> clean es = Cleaned fs n msgs ->
  In e fs -> In e es.
Theorem C20_clean_invents_nothing : forall es fs n msgs e, NoDup (map name es) -> clean es = Cleaned fs n msgs ->
  In e fs -> In e es.
Proof. exact clean_invents_nothing. Qed.
Print Assumptions C20_clean_invents_nothing.

Check clean_count : forall es fs n msgs, NoDup (map name es) -> clean es = Cleaned fs n msgs ->
  N.of_nat (length es) = n + N.of_nat (length fs).
Theorem C20_clean_count : forall es fs n msgs, NoDup (map name es) -> clean es = Cleaned fs n msgs ->
  N.of_nat (length es) = n + N.of_nat (length fs).
Proof. exact clean_count. Qed.
Print Assumptions C20_clean_count.

(* whatever order read_dir yields the entries in: identical directory afterwards, same count,
   same `clean` lines up to order *)
Check clean_order_independent : forall es order : list entry, NoDup (map name es) -> Permutation order es ->
  exists msgs, clean_in order es = Cleaned (filter spared es) (N.of_nat (length (filter doomed es))) msgs
               /\ Permutation msgs (map name (filter doomed es)).
Theorem C20_clean_order_independent : forall es order : list entry, NoDup (map name es) -> Permutation order es ->
  exists msgs, clean_in order es = Cleaned (filter spared es) (N.of_nat (length (filter doomed es))) msgs
               /\ Permutation msgs (map name (filter doomed es)).
Proof. exact clean_order_independent. Qed.
Print Assumptions C20_clean_order_independent.

(* a remove_file that FAILS does not stop the sweep (fixes/clean-continues-after-failure.diff: the failure
   is reported, counted, the loop continues, "Removed n files" is printed, exit 1).  The model's filesystem
   has one way to make remove_file fail on a listed entry -- EISDIR --, met by the loop with `keep_going`
   and without the directory test (clean_keep_going_only): for every directory, all non-directories with
   extension mmm are removed (also those listed after a failure), counted and reported, everything else is
   left, and the outcome is Cleaned exactly when no removal failed (finish .. 0), Incomplete .. k otherwise.
   Failures the model's filesystem does not have (EPERM in a sticky directory) are observed on the real
   binary by vlib/c20.py run_unremovable. *)
Check keep_going_sweeps_everything : forall es : list entry, NoDup (map name es) ->
  clean_keep_going_only es =
  finish (filter spared es) (N.of_nat (length (filter doomed es))) (map name (filter doomed es))
         (N.of_nat (length (filter stuck es))).
Theorem C20_keep_going_sweeps_everything : forall es : list entry, NoDup (map name es) ->
  clean_keep_going_only es =
  finish (filter spared es) (N.of_nat (length (filter doomed es))) (map name (filter doomed es))
         (N.of_nat (length (filter stuck es))).
Proof. exact keep_going_sweeps_everything. Qed.
Print Assumptions C20_keep_going_sweeps_everything.

Example C20_keep_going_witness :
  clean_keep_going_only [ {| name := [100; 46; 109; 109; 109]; ekind := KDir; content := 1 |};
                          {| name := [97; 46; 109; 109; 109]; ekind := KFile; content := 2 |} ]
  = Incomplete [ {| name := [100; 46; 109; 109; 109]; ekind := KDir; content := 1 |} ] 1 [ [97; 46; 109; 109; 109] ] 1.
Proof. vm_compute. reflexivity. Qed.

(* the code as found (finding F12, repaired by fixes/clean-skip-dirs.diff): a directory named d.mmm
   makes the loop abort with EISDIR and a bytecode file listed after it survives *)
Check clean_unfixed_refuted :
  exists es, NoDup (map name es) /\ exists fs n m, clean_unfixed es = Aborted fs n m EISDIR /\ In f_a_mmm fs
             /\ doomed f_a_mmm = true.
Theorem C20_clean_unfixed_refuted :
  exists es, NoDup (map name es) /\ exists fs n m, clean_unfixed es = Aborted fs n m EISDIR /\ In f_a_mmm fs
             /\ doomed f_a_mmm = true.
Proof. exact clean_unfixed_refuted. Qed.
Print Assumptions C20_clean_unfixed_refuted.

(* non-vacuity: the names of the property's list.  x.mmm, x.transpiled.mmm are the only ones with
   extension mmm; `.mmm` has none, `x.mmm.bak` -> bak, `x.MMM` -> MMM, `x.mmm~` -> mmm~, `mmm` none, `x.` -> "" *)
Example C20_names :
  map ext_is_mmm
    [ [120; 46; 109; 109; 109];                                                   (* x.mmm *)
      [120; 46; 109; 115];                                                        (* x.ms *)
      [120; 46; 109; 109; 109; 46; 98; 97; 107];                                  (* x.mmm.bak *)
      [120; 46; 116; 114; 97; 110; 115; 112; 105; 108; 101; 100; 46; 109; 109; 109]; (* x.transpiled.mmm *)
      [46; 109; 109; 109];                                                        (* .mmm *)
      [109; 109; 109];                                                            (* mmm *)
      [120; 46; 77; 77; 77];                                                      (* x.MMM *)
      [120; 46; 109; 109; 109; 126];                                              (* x.mmm~ *)
      [97; 32; 98; 46; 109; 109; 109];                                            (* "a b.mmm" *)
      [233; 46; 109; 109; 109];                                                   (* é.mmm *)
      [46; 46; 109; 109; 109];                                                    (* ..mmm *)
      [120; 46] ]                                                                 (* x. *)
  = [true; false; false; true; false; false; false; false; true; true; true; false]
  /\ extension [120; 46] = Some [] /\ extension [46; 109; 109; 109] = None.
Proof. vm_compute. repeat split. Qed.

(* a directory with a file, a directory, a link and a source: only the file and the link named *.mmm go *)
Example C20_nonvacuous :
  clean [ {| name := [120; 46; 109; 109; 109]; ekind := KFile; content := 1 |};
          {| name := [100; 46; 109; 109; 109]; ekind := KDir; content := 2 |};
          {| name := [108; 46; 109; 109; 109]; ekind := KLinkDir; content := 3 |};
          {| name := [120; 46; 109; 115]; ekind := KFile; content := 4 |} ]
  = Cleaned [ {| name := [100; 46; 109; 109; 109]; ekind := KDir; content := 2 |};
              {| name := [120; 46; 109; 115]; ekind := KFile; content := 4 |} ]
            2 [ [120; 46; 109; 109; 109]; [108; 46; 109; 109; 109] ].
Proof. vm_compute. reflexivity. Qed.
