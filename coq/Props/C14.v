(* C14 -- string and number built-in methods compute their documented function.
   Pinned statements only; models in Builtins/{StrImpl,NumBuiltins,ParseFloat,Dispatch}.v, specification in
   Builtins/StrSpec.v (+ spec_* in NumBuiltins.v), proofs in Builtins/{StrProofs,ParseProofs,NumProofs,Proofs}.v.

   FULL STATEMENT of the property on the model:
     forall m args, Forall wf_arg args -> meets (run_impl m args) (run_spec m args)
   i.e. every call yields the demanded value on the domain and stops (Err or Panic) outside it.
   PROVED: the same with two exclusions, hence the name ..._partial:
     - known_class: to_ascii of a byte >= 128 (KNOWN FINDING, witness to_ascii_refuted below);
     - float_pow:   float.pow(int) (f64::powi, modelled bit for bit but its agreement with "x^n where that is
                    exactly a double" is not proved) and powf (libm pow: only the arguments of the call are
                    modelled).  These two are covered by the correspondence check of every run only. *)
From MS Require Import Base.Str Builtins.Val Builtins.Utf8 Builtins.Numeral Builtins.StrImpl Builtins.StrSpec
  Builtins.NumBuiltins Builtins.ParseFloat Builtins.Dispatch Builtins.StrProofs Builtins.ParseProofs Builtins.NumProofs
  Builtins.Proofs.
From Coq Require Import Reals.
From Flocq Require Import Core.Core IEEE754.BinarySingleNaN.
Open Scope Z_scope.

(* ---- every method, all receivers and arguments *)
Check methods_meet_spec_partial : forall m args,
  Forall wf_arg args -> ~ known_class m args -> ~ float_pow m args -> meets (run_impl m args) (run_spec m args).
Theorem C14_methods_meet_spec_partial : forall m args,
  Forall wf_arg args -> ~ known_class m args -> ~ float_pow m args -> meets (run_impl m args) (run_spec m args).
Proof. exact methods_meet_spec_partial. Qed.

(* ---- the result has the kind that get_property_type declares (table `declared`), in the range of that kind *)
Check result_kind : forall m recv rest v, run_impl m (recv :: rest) = Ok v ->
  exists tr t, ty_of recv = Some tr /\ declared m tr = Some t /\ has_ty v t = true.
Theorem C14_result_kind : forall m recv rest v, run_impl m (recv :: rest) = Ok v ->
  exists tr t, ty_of recv = Some tr /\ declared m tr = Some t /\ has_ty v t = true.
Proof. exact result_kind. Qed.

Check result_in_range : forall m args v,
  Forall (fun a => wf_val a = true) args -> run_impl m args = Ok v -> wf_val v = true.
Theorem C14_result_in_range : forall m args v,
  Forall (fun a => wf_val a = true) args -> run_impl m args = Ok v -> wf_val v = true.
Proof. exact result_in_range. Qed.

(* ---- what the specification functions mean (strings; byte offsets via blen, failure outside the domain) *)
Check cut_spec : forall s b a r, cut s b = Some (a, r) <-> s = a ++ r /\ blen a = b.
Check len_meaning : forall s n, spec_len s = SVal (VInt n) -> n = Z.of_N (blen s).
Check index_meaning : forall s i c, spec_index s i = SVal (VStr [c]) <-> (0 <= i /\ nth_error s (Z.to_nat i) = Some c).
Check substring_meaning : forall s b t r, spec_substring s b t = SVal (VStr r) <-> Substring s b t r.
Check substring_domain : forall s b t, spec_substring s b t = SFail <-> (forall r, ~ Substring s b t r).
Check contains_meaning : forall s o, spec_contains s o = SVal (VBool true) <-> Occurs o s.
Check index_of_meaning : forall s o n, spec_index_of s o = SVal (VInt n) -> exists a, FirstAt o s a /\ n = Z.of_N (blen a).
Check index_of_nil : forall s o, spec_index_of s o = SVal VNil <-> ~ Occurs o s.
Check insert_meaning : forall s new b r, spec_insert s new b = SVal (VStr r) <-> Inserted s new b r.
Check insert_domain : forall s new b, spec_insert s new b = SFail <-> (forall r, ~ Inserted s new b r).
Check delete_meaning : forall s b t r, spec_delete s b t = SVal (VStr r) <-> Deleted s b t r.
Check delete_domain : forall s b t, spec_delete s b t = SFail <-> (forall r, ~ Deleted s b t r).
Check replace_meaning : forall s pat rep r, pat <> [] -> (spec_replace s pat rep = SVal (VStr r) <-> Replaced pat rep s r).
Check split_meaning : forall s mid a b,
  0 <= mid < Z.of_N (blen s) -> spec_split s mid = SVal (VVec [VStr a; VStr b]) -> AtByte s mid a b.
Check numeral_meaning : forall signed lo hi r s z,
  spec_numeral signed lo hi r s = Some z <-> (Numeral signed r s z /\ lo <= z <= hi).
Check parse_bool_meaning : forall s b, spec_parse_bool s = SVal (VBool b) <-> s = (if b then s_true else s_false).
Theorem C14_substring : forall s b t r, spec_substring s b t = SVal (VStr r) <-> Substring s b t r.
Proof. exact substring_meaning. Qed.
Theorem C14_replace : forall s pat rep r, pat <> [] -> (spec_replace s pat rep = SVal (VStr r) <-> Replaced pat rep s r).
Proof. exact replace_meaning. Qed.
Theorem C14_numeral : forall signed lo hi r s z,
  spec_numeral signed lo hi r s = Some z <-> (Numeral signed r s z /\ lo <= z <= hi).
Proof. exact numeral_meaning. Qed.

(* ---- algebraic laws (sanity of the specification itself) *)
Check reverse_involutive : forall s r, spec_reverse s = SVal (VStr r) -> spec_reverse r = SVal (VStr s).
Check substring_whole : forall s, spec_substring s 0 (Z.of_N (blen s)) = SVal (VStr s).
Check split_concat : forall s mid a b, spec_split s mid = SVal (VVec [VStr a; VStr b]) -> a ++ b = s.
Check delete_insert : forall s new b r,
  spec_insert s new b = SVal (VStr r) -> spec_delete r b (b + Z.of_N (blen new)) = SVal (VStr s).
Check repeat_len : forall s n r, spec_repeat s n = SVal (VStr r) -> Z.of_N (blen r) = n * Z.of_N (blen s).
Check index_of_witnesses_contains : forall s o,
  (exists n, spec_index_of s o = SVal (VInt n)) -> spec_contains s o = SVal (VBool true).
Check chars_concat : forall s, concat (map (fun c : N => [c]) s) = s.
Check parse_int_to_str : forall z, in_i32 z = true -> impl_parse_int (dec_of_Z z) = Ok (VInt z).
Check parse_bigint_to_str : forall z, in_i128 z = true -> impl_parse_bigint (dec_of_Z z) = Ok (VBig z).
Check parse_byte_to_str : forall z, in_u8 z = true -> impl_parse_byte (bin_of_byte z) = Ok (VByte z).
Theorem C14_parse_int_to_str : forall z, in_i32 z = true -> impl_parse_int (dec_of_Z z) = Ok (VInt z).
Proof. exact parse_int_to_str. Qed.
Theorem C14_delete_insert : forall s new b r,
  spec_insert s new b = SVal (VStr r) -> spec_delete r b (b + Z.of_N (blen new)) = SVal (VStr s).
Proof. exact delete_insert. Qed.

(* ---- numbers: exact integers, IEEE-754 through Flocq *)
Check trunc_finite_meaning : forall f z, trunc_finite f = Some z -> is_finite f = true /\ z = Ztrunc (B2R f).
Check trunc_finite_none : forall f, trunc_finite f = None <-> is_finite f = false.
Check pow_int_meaning : forall x z n, (x = VInt z \/ x = VBig z \/ x = VByte z) -> 0 <= n ->
  spec_pow x n = if in_i128 (z ^ n) then SVal (VBig (z ^ n)) else SFail.
Check pow_negative_exponent : forall x z n, (x = VInt z \/ x = VBig z \/ x = VByte z) -> n < 0 -> spec_pow x n = SFail.
Check floor_meaning : forall f, is_finite f = true -> B2R (fnear mode_DN f) = IZR (Zfloor (B2R f)).
Check ceil_meaning : forall f, is_finite f = true -> B2R (fnear mode_UP f) = IZR (Zceil (B2R f)).
Check round_meaning : forall f, is_finite f = true -> B2R (fnear mode_NA f) = IZR (ZnearestA (B2R f)).
Check ipart_meaning : forall f, is_finite f = true -> B2R (fnear mode_ZR f) = IZR (Ztrunc (B2R f)).
Check sqrt_meaning : forall f,
  B2R (fsqrt f) = Generic_fmt.round radix2 (SpecFloat.fexp 53 1024) ZnearestE (sqrt (B2R f)).
Check of_Z_meaning : forall z, Z.abs z <= 2 ^ 127 ->
  B2R (of_Z z) = Generic_fmt.round radix2 (SpecFloat.fexp 53 1024) ZnearestE (IZR z) /\ is_finite (of_Z z) = true.
Theorem C14_conversions_truncate : forall f z, trunc_finite f = Some z -> is_finite f = true /\ z = Ztrunc (B2R f).
Proof. exact trunc_finite_meaning. Qed.
Theorem C14_pow_int : forall x z n, (x = VInt z \/ x = VBig z \/ x = VByte z) -> 0 <= n ->
  spec_pow x n = if in_i128 (z ^ n) then SVal (VBig (z ^ n)) else SFail.
Proof. exact pow_int_meaning. Qed.
Theorem C14_floor : forall f, is_finite f = true -> B2R (fnear mode_DN f) = IZR (Zfloor (B2R f)).
Proof. exact floor_meaning. Qed.

(* ---- KNOWN FINDING: the class really fails in the model *)
Check to_ascii_refuted : exists b, in_u8 b = true /\ 128 <= b /\ ~ meets (impl_to_ascii b) (spec_to_ascii b).
Theorem C14_to_ascii_refuted : exists b, in_u8 b = true /\ 128 <= b /\ ~ meets (impl_to_ascii b) (spec_to_ascii b).
Proof. exact to_ascii_refuted. Qed.

(* ---- defects of the arms before fixes/c14-*.diff (model run_impl_head), one witness each *)
Check head_to_bigint_refuted. Check head_to_int_nan_refuted. Check head_sqrt_bigint_refuted.
Check head_powf_bigint_refuted. Check head_pow_int_refuted. Check head_index_bigint_refuted.
Check head_parse_int_0x_refuted. Check head_delete_all_refuted. Check head_to_float_bigint_refuted.
Check head_parse_radix_0x_refuted.
(* a sign between the 0x / 0b prefix and the digits is no number (fixes/c14-sign-after-prefix.diff); the arm as it was read one *)
Check sign_after_prefix.
Check repaired_on_witnesses.

(* ---- non-vacuity *)
Example C14_nonvacuous_substring :
  run_impl MSubstring [VStr [104; 233; 108; 108; 111]%N; VInt 0; VInt 3] = Ok (VStr [104; 233]%N) /\
  run_impl MSubstring [VStr [104; 233; 108; 108; 111]%N; VInt 0; VInt 2] = Panic /\
  run_spec MSubstring [VStr [104; 233; 108; 108; 111]%N; VInt 0; VInt 2] = SFail.
Proof. vm_compute. repeat split; reflexivity. Qed.
Example C14_nonvacuous_numbers :
  run_impl MPow [VInt 2; VInt 100] = Ok (VBig 1267650600228229401496703205376) /\
  run_impl MPow [VInt 2; VInt 127] = Err /\
  run_impl MToInt [VFloat (of_bits 13826050856027422720)] = Ok (VInt 0) /\      (* -0.5 *)
  float_bits (run_impl MRound [VFloat (of_bits 13836183955189006336)]) = Some 13837309855095848960 /\  (* -2.5 -> -3.0 *)
  float_bits (run_impl MPow [VFloat (of_bits 4621819117588971520); VInt 3]) = Some 4652007308841189376.  (* 10.0^3 = 1000.0 *)
Proof. vm_compute. repeat split; reflexivity. Qed.
Example C14_nonvacuous_wf : Forall wf_arg [VStr [104; 233]%N; VInt (-1); VBig (2 ^ 100)].
Proof. repeat constructor; cbn; unfold fits, isize_max; cbn; lia. Qed.

(* ---- assumptions (kept at the end of the file: nothing but axiom lists is printed from here on) *)
Print Assumptions C14_methods_meet_spec_partial.
Print Assumptions C14_result_kind.
Print Assumptions C14_result_in_range.
Print Assumptions C14_substring.
Print Assumptions C14_replace.
Print Assumptions C14_numeral.
Print Assumptions C14_parse_int_to_str.
Print Assumptions C14_delete_insert.
Print Assumptions C14_conversions_truncate.
Print Assumptions C14_pow_int.
Print Assumptions C14_floor.
