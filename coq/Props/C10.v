(* C10 -- `const` names cannot be written to by any syntactic form.
   Pinned statements only; proofs live in Const/Proofs.v, the model in Const/Model.v, the specification
   (every write-form occurrence with the binding it resolves to) in Const/Spec.v.

   FULL STATEMENT of the property: a name declared `const` (likewise a class name, an imported module) is
   never rebound: every form that would assign to it or through it is rejected at compile time in every
   scope from which the name is visible; for constants of number/bool/string type the value observed is
   always the initializer.

   PROVED (on the model of the FIXED compiler, fixes/const-*.diff):
   * the first half, for all programs of the mini-language at any nesting depth -- `const_never_written`;
   * the second half on a small evaluation model of the run-time variable store (Const/Eval.v: frames,
     `store` = update-where-found-in-the-function-else-bind, `store_fast` = top frame (`unwrap_into` too before /repo 2ade5a8, since then like `store`),
     bin_op_assign, loop counter incl. delete_name_scoped; arbitrary values, branches, iteration counts,
     early exits) for the CLOSURE-FREE part of the mini-language -- `const_value_stable_partial`:
     every read of a binding created by a `const` declaration returns the value it was created with.
   NOT PROVED: const_value_stable for programs with function literals, methods, `modify`, imports and
   unpacking (the evaluation model has no rules for them: closures capture cells by reference and run later);
   the tie observes the printed value of the constant on the real binary for those cases instead. *)
From MS Require Import Const.Model Const.Spec Const.Proofs Const.Eval Const.EvalProofs.


(* an accepted program contains no write form (=, typed =, const re-declaration, modify, op=, ?=, x[i] =,
   x.f =, x[i] op=, x.f op=, loop counter, unpacking), in any scope and at any nesting depth, whose target
   resolves -- function-locally for binding forms, lexically for the others, and for `modify` ALSO as the
   variable captured from outside the current function (what store_object writes) -- to a const binding
   (const variable, class name, imported module) *)
Check const_never_written : forall p : block, check cfg_fixed p = true -> NoConstWrite p.
Theorem C10_const_never_written : forall p : block, check cfg_fixed p = true -> NoConstWrite p.
Proof. exact const_never_written. Qed.
Print Assumptions C10_const_never_written.

(* NoConstWrite unfolded: every (scopes, target) occurrence collected by the traversal is not const *)
Check (eq_refl : NoConstWrite = fun p => Forall (fun w => resolves_const (fst w) (snd w) = false)
                                            (writes_block file_scope p)).

(* each of the checks added by fixes/const-*.diff is necessary: on the tree before the fix (cfg_head) the
   four witness programs are accepted and do write a const; the fixed checker rejects them *)
Check head_refuted : forall p, In p [wit_unwrap; wit_counter; wit_index_op; wit_field_op] ->
  check cfg_head p = true /\ no_const_write_b p = false /\ check cfg_fixed p = false.
Theorem C10_head_refuted : forall p, In p [wit_unwrap; wit_counter; wit_index_op; wit_field_op] ->
  check cfg_head p = true /\ no_const_write_b p = false /\ check cfg_fixed p = false.
Proof. exact head_refuted. Qed.
Print Assumptions C10_head_refuted.

(* the `modify`-through-a-shadowing-local hole (fixes/const-modify-through-shadow.diff): before that fix -- with
   the three earlier fixes in -- the witness is accepted although its `modify` stores to a captured const *)
Check modify_shadow_refuted :
  check cfg_pre_modify wit_modify_shadow = true /\ no_const_write_b wit_modify_shadow = false /\
  check cfg_fixed wit_modify_shadow = false.
Theorem C10_modify_shadow_refuted :
  check cfg_pre_modify wit_modify_shadow = true /\ no_const_write_b wit_modify_shadow = false /\
  check cfg_fixed wit_modify_shadow = false.
Proof. exact modify_shadow_refuted. Qed.
(* ... and the repair of the regression that fix introduced (fixes/modify-after-modify-regression.diff): a second
   `modify` of the same captured variable, from a nested block after a read, is accepted again (cfg_745 = /repo
   745d438 refused it), while the shadowing witness stays rejected *)
Check two_modifies_accepted :
  check cfg_fixed wit_two_modifies = true /\ no_const_write_b wit_two_modifies = true /\
  check cfg_745 wit_two_modifies = false /\
  check cfg_fixed wit_modify_shadow = false /\ check cfg_745 wit_modify_shadow = false.
Theorem C10_two_modifies_accepted :
  check cfg_fixed wit_two_modifies = true /\ no_const_write_b wit_two_modifies = true /\
  check cfg_745 wit_two_modifies = false /\
  check cfg_fixed wit_modify_shadow = false /\ check cfg_745 wit_modify_shadow = false.
Proof. exact two_modifies_accepted. Qed.

(* what `modify x` is held to: the lexical binding AND the DECLARATION captured from outside the current function
   (entries registered by earlier `modify` statements are aliases, not declarations) *)
Check (fun ss x => eq_refl : resolves_const ss (TCap x) = is_const (lookup_outer ss x)).

(* value stability on the evaluation model (closure-free programs): any execution, any values written *)
Check const_value_stable : forall (p : block) (st : stack) (l : log),
  check cfg_fixed p = true -> exb module_frame p st l -> Forall read_ok l.
Theorem C10_const_value_stable_partial : forall (p : block) (st : stack) (l : log),
  check cfg_fixed p = true -> exb module_frame p st l -> Forall read_ok l.
Proof. exact const_value_stable. Qed.
Print Assumptions C10_const_value_stable_partial.
Check (eq_refl : read_ok = fun r => rconst r = true -> rval r = rinit r).

(* non-vacuity of the evaluation model: an accepted program runs and reads its const twice; on the tree before
   the fix the counter and `?=` programs are accepted and an execution exists in which the const is read with a
   value different from its initializer *)
Check p_ok_runs : check cfg_fixed p_ok = true /\
  exists st l, exb module_frame p_ok st l /\ l = [mkR a 5 true 5; mkR a 5 true 5].
Check head_value_changes : check cfg_head p_counter_read = true /\ check cfg_fixed p_counter_read = false /\
  exists st l, exb module_frame p_counter_read st l /\ ~ Forall read_ok l.
Check head_value_changes_unwrap : check cfg_head p_unwrap_read = true /\ check cfg_fixed p_unwrap_read = false /\
  exists st l, exb module_frame p_unwrap_read st l /\ ~ Forall read_ok l.

(* non-vacuity: a program with writes at depth 3 (block in closure in method) that is accepted, has a
   non-empty list of write occurrences, and one that differs only by a const and is rejected *)
Definition x1 : name := 1%N.
Definition x2 : name := 2%N.
Definition f1 : name := 3%N.
Definition K1 : name := 4%N.
Definition nest (c : bool) : block :=
  BCons (SAssign c false x1 ELit)
 (BCons (SAssign false false x2 ELit)
 (BCons (SClass K1 [] (BCons (SExpr (EFn [9%N]
          (BCons (SAssign false false f1 (EFn []
             (BCons (SIf ELit (BCons (SExpr (EOpAssign (EVar x1) (EVar x2))) BNil) BNil) BNil))) BNil))) BNil))
  BNil)).
Example C10_nonvacuous :
  check cfg_fixed (nest false) = true /\ length (writes_block file_scope (nest false)) = 4%nat /\
  check cfg_fixed (nest true) = false /\ no_const_write_b (nest true) = false.
Proof. vm_compute. auto. Qed.
