(* C18 -- human-readable bytecode round-trips: text writer -> transpiler -> loader = identity.
   Pinned statements only; proofs live in Codec/TextProofs.v.  The opcode table the statements
   range over is Gen/OpcodeTable.v, regenerated from instruction_constants.rs on every run. *)
From MS Require Import Codec.Model Codec.Proofs Codec.Text Codec.TextProofs.

Check text_roundtrip : forall fs, Forall wf_func_t fs -> NoDup (names fs) ->
  exists txt bin, emit_text fs = Some txt /\ transpile txt = Some bin /\ load bin = Some fs.
Theorem C18_text_roundtrip : forall fs, Forall wf_func_t fs -> NoDup (names fs) ->
  exists txt bin, emit_text fs = Some txt /\ transpile txt = Some bin /\ load bin = Some fs.
Proof. exact text_roundtrip. Qed.
Print Assumptions C18_text_roundtrip.

(* the transpiler's output is byte for byte what `compile` writes for the same functions *)
Check transpile_emits_binary : forall fs, Forall wf_func_t fs ->
  exists txt, emit_text fs = Some txt /\ transpile txt = Some (emit_bin fs).
Theorem C18_transpile_emits_binary : forall fs, Forall wf_func_t fs ->
  exists txt, emit_text fs = Some txt /\ transpile txt = Some (emit_bin fs).
Proof. exact transpile_emits_binary. Qed.
Print Assumptions C18_transpile_emits_binary.

(* every opcode of the generated table except the deprecated `nop` (0) satisfies the side condition
   of the theorems: it has a name, the name maps back to it, is not whitespace/`end`/deprecated *)
Check table_ok : forallb (fun o => (o =? 0) || op_ok o) all_ops = true.
Theorem C18_table_ok : forallb (fun o => (o =? 0) || op_ok o) all_ops = true.
Proof. exact table_ok. Qed.
Check table_dense : map fst opnames = map N.of_nat (seq 0 (length opnames)).
Print Assumptions C18_table_ok.

Definition f_example : func :=
  {| fname := [97; 46; 109; 109; 109; 35; 102];
     body := [ {| op := 7; args := [[34; 92; 32; 9; 10; 13; 110; 114; 116; 233; 8232]; []] |};
               {| op := 15; args := [] |} ] |}.
Definition bind {A B} (o : option A) (f : A -> option B) : option B :=
  match o with Some x => f x | None => None end.
Example C18_nonvacuous :
  bind (bind (emit_text [f_example]) transpile) load = Some [f_example].
Proof. vm_compute. reflexivity. Qed.
