(* C09 -- compiled code is structurally well-formed on every path.
   A verified certificate checker: `Verify.Check.check code ds` validates a labelling `ds` (block-frame depth and
   possible operand-stack lengths per instruction); `certify code` = (unverified) inference + `check`.
   For every program all of whose functions pass the checker, the VM model (Vm/Model.v, validated against the
   real interpreter by the trace tie) satisfies the statements below for ALL fuel, arguments, captured
   variables and start states.  Pinned statements only; proofs live in Verify/Sound.v. *)
From MS Require Import Vm.Model Verify.Check Verify.Sound.
Open Scope nat_scope.

(* ---------------------------------------------------------------- A: frames and jumps (any return hook, so the
   real interpreter `run_fn`): a call that returns leaves the call stack EXACTLY as it found it (also the
   variable maps of the caller's frames); a call that fails never fails for a structural reason (jump out of
   range, `done`/`jmp_pop`/fall-off popping a missing frame) and the stack at the failure is the entry stack
   plus a chain of well-formed activations. *)
Check frames_safe : forall rc p, checked p ->
  forall fuel name argv cb g,
  match run_fn_gen rc fuel p name argv cb g with
  | RDone _ g' => frames g' = frames g
  | RFail e g' => ~ structural e /\
                  exists extra, frames g' = extra ++ frames g /\ chain extra /\
                    (assoc name p = None -> e = E_no_function name /\ extra = []) /\
                    (assoc name p <> None -> extra <> [])
  | RFuel => True
  end.
Theorem C09_frames_safe : forall p, checked p ->
  forall fuel name argv cb g,
  match run_fn fuel p name argv cb g with
  | RDone _ g' => frames g' = frames g
  | RFail e g' => ~ structural e /\
                  exists extra, frames g' = extra ++ frames g /\ chain extra /\
                    (assoc name p = None -> e = E_no_function name /\ extra = []) /\
                    (assoc name p <> None -> extra <> [])
  | RFuel => True
  end.
Proof. intros p. exact (frames_safe (fun _ _ _ => true) p). Qed.
Print Assumptions C09_frames_safe.

(* the form named in the property: same frame labels, same number of frames *)
Check frames_safe_labels : forall rc p, checked p ->
  forall fuel name argv cb g rv g', run_fn_gen rc fuel p name argv cb g = RDone rv g' ->
  map lab (frames g') = map lab (frames g) /\ length (frames g') = length (frames g).
Theorem C09_frames_safe_labels : forall rc p, checked p ->
  forall fuel name argv cb g rv g', run_fn_gen rc fuel p name argv cb g = RDone rv g' ->
  map lab (frames g') = map lab (frames g) /\ length (frames g') = length (frames g).
Proof. exact frames_safe_labels. Qed.
Print Assumptions C09_frames_safe_labels.

(* at EVERY executed instruction the number of open block frames is the labelled one: the records added to the
   trace (function, ip, opcode, call-stack depth, operand length) parse as `seg`: own instructions of an
   activation whose function frame sits on L frames carry call-stack depth exactly L + 1 + D[ip]; callee
   segments start on the depth recorded by their call instruction.  In particular a loop head is reached with
   the same depth every time (no frame accumulation). *)
Check frames_safe_trace : forall rc p, checked p ->
  forall fuel name argv cb g,
  match run_fn_gen rc fuel p name argv cb g with
  | RDone _ g' | RFail _ g' => exists new, trace g' = new ++ trace g /\ seg p (length (frames g)) new
  | RFuel => True
  end.
Theorem C09_frames_safe_trace : forall rc p, checked p ->
  forall fuel name argv cb g,
  match run_fn_gen rc fuel p name argv cb g with
  | RDone _ g' | RFail _ g' => exists new, trace g' = new ++ trace g /\ seg p (length (frames g)) new
  | RFuel => True
  end.
Proof. exact frames_safe_trace. Qed.
Print Assumptions C09_frames_safe_trace.
Check own_ev : forall p name ds L ip o n depth s rest, lab_at ds ip = Some (depth, s) -> own p name ds L rest ->
  own p name ds L ((name, N.of_nat ip, o, N.of_nat (L + 1 + depth), n) :: rest).
Check label_depth_unique : forall ds ip d1 s1 d2 s2,
  lab_at ds ip = Some (d1, s1) -> lab_at ds ip = Some (d2, s2) -> d1 = d2 /\ s1 = s2.

(* ---------------------------------------------------------------- corollaries for Program::execute *)
Check execute_done_empty : forall p, checked p ->
  forall fuel entry o oc tr, execute fuel p entry = (o, oc, tr) -> forall n, oc <> StackMismatch n.
Theorem C09_execute_done_empty : forall p, checked p ->
  forall fuel entry o oc tr, execute fuel p entry = (o, oc, tr) -> forall n, oc <> StackMismatch n.
Proof. exact execute_done_empty. Qed.
Print Assumptions C09_execute_done_empty.

Check execute_error_chain : forall p, checked p ->
  forall fuel entry o e st tr, execute fuel p entry = (o, RuntimeErr e st, tr) ->
  ~ structural e /\ exists fs, st = map lab fs /\ chain fs.
Theorem C09_execute_error_chain : forall p, checked p ->
  forall fuel entry o e st tr, execute fuel p entry = (o, RuntimeErr e st, tr) ->
  ~ structural e /\ exists fs, st = map lab fs /\ chain fs.
Proof. exact execute_error_chain. Qed.
Print Assumptions C09_execute_error_chain.

(* ---------------------------------------------------------------- B: operand shapes.  `rc_of dss p` is the
   instrumentation hook "the callee delivered the arity the call site's successor is labelled for" (otherwise
   the instrumented run stops with E_arity -- that obligation is C02's).  Under it no instruction ever misses
   its operands: no E_stack_shape, no empty-operand-stack panic of neg / not / unwrap / jmp_not_nil. *)
Check shapes_safe : forall dss p, labelled_by dss p ->
  forall fuel name argv cb g e g', run_fn_gen (rc_of dss p) fuel p name argv cb g = RFail e g' -> ~ shape_err e.
Theorem C09_shapes_safe : forall dss p, labelled_by dss p ->
  forall fuel name argv cb g e g', run_fn_gen (rc_of dss p) fuel p name argv cb g = RFail e g' -> ~ shape_err e.
Proof. exact shapes_safe. Qed.
Print Assumptions C09_shapes_safe.

(* trace form (covers bin_op_assign too, whose empty-stack panic the model does not distinguish from its
   dangling-cell panic): every executed instruction, the failing one included, ran with an operand length that
   is in its label and meets its requirement *)
Check shapes_safe_trace : forall dss p, labelled_by dss p ->
  forall fuel name argv cb g,
  match run_fn_gen (rc_of dss p) fuel p name argv cb g with
  | RDone _ g' | RFail _ g' => exists new, trace g' = new ++ trace g /\ Forall (ev_ok dss p) new
  | RFuel => True end.
Theorem C09_shapes_safe_trace : forall dss p, labelled_by dss p ->
  forall fuel name argv cb g,
  match run_fn_gen (rc_of dss p) fuel p name argv cb g with
  | RDone _ g' | RFail _ g' => exists new, trace g' = new ++ trace g /\ Forall (ev_ok dss p) new
  | RFuel => True end.
Proof. exact shapes_safe_trace. Qed.
Print Assumptions C09_shapes_safe_trace.
Check abs_step_operands : forall d ip depth n, abs_step d ip depth n <> ABad -> operands_required d n.
Theorem C09_abs_step_operands : forall d ip depth n, abs_step d ip depth n <> ABad -> operands_required d n.
Proof. exact abs_step_operands. Qed.
Print Assumptions C09_abs_step_operands.

(* ---------------------------------------------------------------- the executable checker discharges the hypotheses *)
Check certified_checked : forall p, certified p -> checked p.
Check certified_labelled : forall p, certified p -> labelled_by (dss_infer p) p.
Theorem C09_certified : forall p, (forall k code, In (k, code) p -> certify code = true) ->
  checked p /\ labelled_by (dss_infer p) p.
Proof. intros p H. split; [apply certified_checked|apply certified_labelled]; exact H. Qed.
Print Assumptions C09_certified.

(* ---------------------------------------------------------------- non-vacuity
   while true { if c { break }  if true { continue }  if true { } }   then `void`, then `tail`.
   `brk` = the arguments of the `break` jump (offset, frames to pop). *)
Definition s_t : str := [116; 114; 117; 101]%N.                       (* "true" *)
Definition ex_code (brk : list str) (tail : list instr) : list instr :=
  [ {| op := OP_MAKE_BOOL;  args := [s_t] |};                          (*  0 *)
    {| op := OP_WHILE_LOOP; args := [[49; 52]%N] |};                   (*  1: while_loop 14   (false -> 15) *)
    {| op := OP_MAKE_BOOL;  args := [s_t] |};                          (*  2 *)
    {| op := OP_IF_STMT;    args := [[51]%N] |};                       (*  3: if_stmt 3       (false -> 6) *)
    {| op := OP_JMP_POP;    args := brk |};                            (*  4: break: jmp_pop 11 2  -> 15 *)
    {| op := OP_DONE;       args := [] |};                             (*  5 *)
    {| op := OP_MAKE_BOOL;  args := [s_t] |};                          (*  6 *)
    {| op := OP_IF_STMT;    args := [[51]%N] |};                       (*  7: if_stmt 3       (false -> 10) *)
    {| op := OP_JMP_POP;    args := [[45; 56]%N; [50]%N] |};           (*  8: continue: jmp_pop -8 2 -> 0 *)
    {| op := OP_DONE;       args := [] |};                             (*  9 *)
    {| op := OP_MAKE_BOOL;  args := [s_t] |};                          (* 10 *)
    {| op := OP_IF_STMT;    args := [[51]%N] |};                       (* 11: if_stmt 3       (false -> 14) *)
    {| op := OP_VOID;       args := [] |};                             (* 12 *)
    {| op := OP_DONE;       args := [] |};                             (* 13 *)
    {| op := OP_JMP_POP;    args := [[45; 49; 52]%N; [49]%N] |};       (* 14: next iteration: jmp_pop -14 1 -> 0 *)
    {| op := OP_VOID;       args := [] |} ]                            (* 15 *)
  ++ tail.
Definition ex_ret : list instr := [ {| op := OP_RET; args := [] |} ].
Definition ex_good : list instr := ex_code [[49; 49]%N; [50]%N] ex_ret.     (* jmp_pop 11 2 *)
Definition ex_main : str := [109]%N.

Example C09_good_certified : certify ex_good = true.
Proof. vm_compute. reflexivity. Qed.
Example C09_good_program_checked : checked [(ex_main, ex_good)] /\ labelled_by (dss_infer [(ex_main, ex_good)]) [(ex_main, ex_good)].
Proof.
  apply C09_certified. intros k code [H|[]]. inversion H. vm_compute. reflexivity.
Qed.
Example C09_good_runs : exists o tr, execute 100 [(ex_main, ex_good)] ex_main = (o, Done, tr).
Proof. eexists. eexists. vm_compute. reflexivity. Qed.
(* falling off the end instead of `ret` is fine too when no block is open *)
Example C09_good_falloff : certify (ex_code [[49; 49]%N; [50]%N] []) = true.
Proof. vm_compute. reflexivity. Qed.

(* wrong frames_to_pop: `break` pops only the <if> frame -- rejected; and really wrong: without a final `ret`
   the run ends with a frame left on the call stack *)
Example C09_bad_pop_rejected : certify (ex_code [[49; 49]%N; [49]%N] ex_ret) = false
                            /\ certify (ex_code [[49; 49]%N; [49]%N] []) = false.
Proof. split; vm_compute; reflexivity. Qed.
Example C09_bad_pop_really_bad : exists o tr,
  execute 100 [(ex_main, ex_code [[49; 49]%N; [49]%N] [])] ex_main = (o, StackMismatch 1, tr).
Proof. eexists. eexists. vm_compute. reflexivity. Qed.

(* wrong offset: `break` jumps to 17 = one past the last instruction -- rejected; the run fails with a jump
   out of range *)
Example C09_bad_offset_rejected : certify (ex_code [[49; 51]%N; [50]%N] ex_ret) = false.
Proof. vm_compute. reflexivity. Qed.
Example C09_bad_offset_really_bad : exists o st tr,
  execute 100 [(ex_main, ex_code [[49; 51]%N; [50]%N] ex_ret)] ex_main = (o, RuntimeErr E_goto_range st, tr).
Proof. eexists. eexists. eexists. vm_compute. reflexivity. Qed.

(* regression: a jump with offset 1 from the last instruction targets `len`; the interpreter rejects it and so
   does the checker (the `jump_off` conjunct of check_at) *)
Example C09_jmp1_last_rejected :
  let code := [ {| op := OP_JMP; args := [[49]%N] |} ] in
  certify code = false /\ check code [Some (0, [0])] = false
  /\ exists g, run_fn 10 [(ex_main, code)] ex_main [] None g0 = RFail E_goto_range g.
Proof. split; [|split]; [vm_compute; reflexivity..|eexists; vm_compute; reflexivity]. Qed.

(* operand shapes: `not` on an empty operand stack is rejected, and really panics *)
Example C09_bad_shape_rejected :
  let code := [ {| op := OP_NOT; args := [] |}; {| op := OP_RET; args := [] |} ] in
  certify code = false /\ exists g, run_fn 10 [(ex_main, code)] ex_main [] None g0 = RFail (E_panic OP_NOT) g.
Proof. split; [vm_compute; reflexivity|eexists; vm_compute; reflexivity]. Qed.
