(* C01 -- core statements and control flow execute per the language semantics.

   FULL STATEMENT (not yet proved as a whole; kept visible):
     forall (p : source), wf p -> forall fuel out res, Lang.Eval.run fuel p = (out, res) -> res <> ROFuel ->
       exists fuel', Vm.Model.execute fuel' (cprogram path p) entry = (out, vm_of res, _).

   PROVED for the fragment `ok_block` (Compile/StmtFrag.v): assignment, op-assignment (+ - * / %), print, assert,
   expression statements, if / else-if / else, while, break, continue (through any nesting of ifs), return, over call-free
   expressions (from loops are proved in the second fragment only, since the loop head evaluates both bounds before the counter
   receives its first value),
   at ANY nesting depth and program size: C01_module_correct_partial below is the full statement above on that
   fragment (same output lines; Done with an empty call stack, or the related run-time error after the same output
   prefix); and C01_module_fun_correct_partial for modules `definitions; main` whose functions are called in
   expression position, call earlier functions (captured) and themselves (`self`, recursion); and
   C01_module_top_correct_partial with the definitions at any top-level position of the module.
   Calls may be nested anywhere in expressions and conditions (arguments containing calls, recursion in operand position).
   A function defined at the top level may CAPTURE DATA VARIABLES of the module and read them (by reference: it sees
   the module's later assignments), directly and through the functions it calls.
   A SECOND proved fragment (Compile/ClosFrag.v .. ClosTop.v, `in_fragment2`, pinned as C07_closure_programs_correct_partial
   in Props/C07.v) covers first-class function values: function literals inside functions and blocks (factories), `modify`
   writes through captured cells, functions returned / stored / passed as arguments and called through variables -- with
   the statements assignment, modify, op-assignment (on a local or THROUGH a captured cell), print, assert, expression
   statement, if, if / else, else-if chains, while, from loops of every form (named fresh / colliding / anonymous counter,
   `to` / `through`, with a step, calls in both bounds; the compiled loop head is <lower>; store_fast L#start; <upper>;
   store_fast L#end; load_fast L#start; store <counter>, so an upper bound may mention a variable with the counter's name),
   break, continue
   (through any nesting of ifs), return with and without a value; expressions with calls anywhere (operands of arithmetic,
   unary minus, comparisons, && || !, `(a) or b`, `get a`, arguments) and `self(..)` (pinned for the programs of C15 / C12 in
   Props/C15.v, Props/C12.v).
   `in_fragment` = in_fragment1 || in_fragment2; fragment_correct holds on both.  On everything the generators of the checks
   produce, in_fragment2 holds wherever in_fragment1 does (measured, not a theorem).
   NOT proved: a step expression of a from loop that contains calls (the step is a call-free expression over locals and over
   captured data variables that no assignment / colliding counter in the body shadows); the VALUE of a function that returns no value on one path (such a
   function may return data on other paths and be called in statement position; its result cannot be printed or used as an
   operand).
   Those are covered by the T1/T2/T3 correspondences on every run.

   What else is proved and pinned here:
   - the structural half for EVERY emitted function that passes the certificate checker (C09):
     jumps in range, block frames balanced on every path, also through break/continue/return;
   - (see Props/C15.v) the expression fragment: compiled expression code computes the value the
     reference semantics prescribes, for all expressions at all depths.
   The statement-level agreement is established on every run by the correspondences T1 (compiler ==
   Compile/Compile.v), T2 (interpreter == Vm/Model.v, per instruction) and T3 (run == Lang/Eval.v). *)
From MS Require Import Vm.Model Verify.Check Verify.Sound Compile.Compile Lang.Eval Compile.ExprBase Compile.ExprSim.
From MS Require Import Compile.StmtMach Compile.StmtRel Compile.StmtFrag Compile.StmtSim Compile.StmtFun Compile.StmtMod Compile.StmtExamples Compile.StmtFragB Compile.ClosTop Compile.ClosExamples2.

Check frames_safe.
Theorem C01_frames_balanced_partial : forall rc p, checked p ->
  forall fuel name argv cb g,
  match run_fn_gen rc fuel p name argv cb g with
  | RDone _ g' => frames g' = frames g
  | RFail e g' => ~ structural e /\ exists extra, frames g' = extra ++ frames g /\ chain extra /\
        (assoc name p = None -> e = E_no_function name /\ extra = []) /\
        (assoc name p <> None -> extra <> [])
  | RFuel => True end.
Proof. exact frames_safe. Qed.
Print Assumptions C01_frames_balanced_partial.

(* expressions (integer / boolean / string, all operators, && || short-circuit, `or`, `get`): the compiled
   code, run by the interpreter loop, yields the value / the failure the reference semantics prescribes,
   with the output untouched -- for ALL call-free expressions at ALL depths *)
Check cexpr_correct.
Theorem C01_expressions_partial : forall path e, pure e = true -> lits_ok e = true ->
  forall d st name pre post a g env s fuel,
  post <> [] -> small (d + length (code_of path d e st) + 3) ->
  a_ip a = length pre -> a_ops a = [] -> frames g <> [] ->
  Renv env s a g -> (forall x, In x (used_e e) -> var_ok env s x) ->
  let mid := code_of path d e st in
  let code := pre ++ mid ++ post in
  let fin := length pre + length mid in
  match eval fuel env e s with
  | EVal v s' => s' = s /\ first_order v /\ exists n g',
        steps name code n (Running a g) = Running (upd a fin [inj v]) g' /\
        Renv env s (upd a fin [inj v]) g' /\ regs_below_preserved d g g' /\ out g' = out g /\
        frames_same_shape g g' /\ ext d (length pre) fin g g'
  | EFail f s' => s' = s /\ exists n e g',
        steps name code n (Running a g) = Failed e g' /\ err_rel f e /\ out g' = out g /\
        ext d (length pre) fin g g'
  | EFuel => True
  | ENoVal _ => False
  end.
Proof. exact cexpr_correct. Qed.
Print Assumptions C01_expressions_partial.

(* THE C01 STATEMENT on the fragment: for every program of the fragment, whatever its size and nesting depth, running
   the model compiler's output on the VM model prints exactly the lines the reference semantics prescribes and ends
   the same way (Done with an empty call stack / the related run-time error after the same output).
   `no_claim` = the reference semantics reports FType 13 (a from-loop counter that a body turned into a non-integer) *)
Check module_correct.
Theorem C01_module_correct_partial : forall (path : str) (p : list stmt),
  ok_block [] None [] false [] p = true -> ExprBase.small (2 * length (module_code p) + 8) ->
  forall fuel : nat, snd (run fuel p) <> ROFuel ->
  no_claim (snd (run fuel p)) \/
  (exists fuel' : nat,
     fst (fst (execute fuel' (cprogram path p) (s_module_fn path))) = fst (run fuel p) /\
     vm_outcome_ok (snd (run fuel p)) (snd (fst (execute fuel' (cprogram path p) (s_module_fn path))))).
Proof. exact module_correct. Qed.
Print Assumptions C01_module_correct_partial.
(* the same statement for modules that first define functions (`f = fn(params) { body }`, body in the fragment plus
   `return e`, possibly falling off its end; a body may call ITSELF through `self(args)` -- recursion -- and the EARLIER
   functions of the module, which it captures) and then run module code of the fragment that CALLS them in expression
   position (`x = f(a, b)`, `print f(a)`, `f(a)`, `return f(a)`), at any nesting depth.  fns_ok (Compile/StmtFun.v):
   parameters are distinct source names, the body mentions only earlier functions, calls have call-free arguments *)
Check module_fun_correct.
Theorem C01_module_fun_correct_partial : forall (path : str) (FT : ftab) (main : list stmt),
  fns_ok [] FT -> NoDup (fnames FT) -> ok_block FT None [] false [] main = true ->
  ExprBase.small (2 * length (fmodule_code path FT main) + 8) ->
  let p := fmodule FT main in
  forall fuel : nat, snd (run fuel p) <> ROFuel ->
  no_claim (snd (run fuel p)) \/
  (exists fuel' : nat,
     fst (fst (execute fuel' (cprogram path p) (s_module_fn path))) = fst (run fuel p) /\
     vm_outcome_ok (snd (run fuel p)) (snd (fst (execute fuel' (cprogram path p) (s_module_fn path))))).
Proof. exact module_fun_correct. Qed.
Print Assumptions C01_module_fun_correct_partial.
(* ... and with the function definitions at ANY top-level position of the module, between statements of the fragment
   (`n = 1; k = 0; h = fn(x) {...}; ...; f0 = fn(n) {...}; print f0(3)`): classify splits the module into definitions
   and statements, mod_ok checks each definition against the functions defined before it (fresh name, fn_ok) and each
   statement against the functions defined so far *)
Check module_top_correct.
Theorem C01_module_top_correct_partial : forall (path : str) (p : source),
  mod_ok [] [] (classify p) -> ExprBase.small (2 * length (tmodule_code path (classify p)) + 8) ->
  forall fuel : nat, snd (run fuel p) <> ROFuel ->
  no_claim (snd (run fuel p)) \/
  (exists fuel' : nat,
     fst (fst (execute fuel' (cprogram path p) (s_module_fn path))) = fst (run fuel p) /\
     vm_outcome_ok (snd (run fuel p)) (snd (fst (execute fuel' (cprogram path p) (s_module_fn path))))).
Proof. exact module_top_correct. Qed.
Print Assumptions C01_module_top_correct_partial.
Check tcall_ok. Check def_rel. Check C01_nv_stage5_interleaved.
(* calls nested anywhere in expressions and conditions (rhs_run: expression simulation with calls) *)
Check rhs_run. Check C01_nv_stage5b.
(* functions that capture data variables of the module (closures by reference, read access) *)
Check C01_nv_stage5c.
(* the same theorem behind a DECIDABLE test: the check evaluates `in_fragment` (extracted) on every program it
   generates and counts the programs for which this theorem speaks about the code the real compiler emitted (T1 equal) *)
Check fragment_correct.
Theorem C01_fragment_correct_partial : forall (path : str) (p : source), in_fragment path p = true ->
  forall fuel : nat, snd (run fuel p) <> ROFuel ->
  no_claim (snd (run fuel p)) \/
  (exists fuel' : nat,
     fst (fst (execute fuel' (cprogram path p) (s_module_fn path))) = fst (run fuel p) /\
     vm_outcome_ok (snd (run fuel p)) (snd (fst (execute fuel' (cprogram path p) (s_module_fn path))))).
Proof. exact fragment_correct. Qed.
Print Assumptions C01_fragment_correct_partial.
Check in_fragment_sound. Check closure_module_correct.
Example C01_nv_in_fragment : in_fragment nvp nv_s6 = true /\ in_fragment nvp nv_s4 = true /\ in_fragment nvp nv_s1f = true /\
  in_fragment nvp nv_s7 = true /\ in_fragment nvp nv_s8 = true /\ in_fragment nvp nv_s9 = true /\ in_fragment nvp nv_s10 = true.
Proof. vm_compute. repeat split. Qed.
(* ... and it rejects what is outside both proved fragments: the VALUE of a function that returns nothing is used (the
   function writes through a captured variable: fragment 2 only, whose kind discipline gives its result the kind "maybe no
   value") *)
Example C01_nv_not_in_fragment :
  in_fragment nvp [SAssign [120%N] (EInt 1);
                   SAssign [102%N] (EFn [] [SModify [120%N] (EInt 2)]);
                   SPrint (ECall (EVar [102%N]) [])] = false.
Proof. vm_compute. reflexivity. Qed.
(* `break` in a function that also writes through a captured variable is inside (fragment 2) *)
Example C01_nv_break_modify_in_fragment :
  in_fragment nvp [SAssign [120%N] (EInt 1);
                   SAssign [102%N] (EFn [] [SModify [120%N] (EInt 2); SWhile (EBool true) [SBreak]; SReturn (Some (EVar [120%N]))]);
                   SPrint (ECall (EVar [102%N]) [])] = true.
Proof. vm_compute. reflexivity. Qed.
(* the features of the two fragments mixed in one function: closure + modify + break / continue / else-if / assert / op-assignment *)
Check C01_nv_mixed_program.
(* from loops of every form next to closures *)
Check C01_nv_loops_program.
(* calls in the upper bound of loops with a named counter, a step that reads a captured variable, unary minus over a call:
   inside fragment 2, outside fragment 1 *)
Check C01_nv_bounds_program.
(* a function that returns data on one path and no value on another, called in statement position *)
Check C01_nv_maybe_value_program.
(* both bounds are evaluated before the counter receives its first value: `n = 3  from 0 to n, n { print n }` (the counter is the
   existing variable n, the upper bound mentions it) runs 0 1 2 on both sides, and is inside the proved fragment *)
Example C01_nv_bound_mentions_counter :
  let p := [SAssign [110%N] (EInt 3); SFrom (EInt 0) (EVar [110%N]) false None (Some [110%N]) true [SPrint (EVar [110%N])]] in
  in_fragment2 nvp p = true /\ vm_out p 500 = (fst (run 500 p), Done) /\ snd (run 500 p) = RODone /\ fst (run 500 p) = [[48]; [49]; [50]]%N.
Proof. vm_compute. repeat split. Qed.
(* a named counter that has the name of a captured variable, with a call in the upper bound *)
Check C01_nv_shadowing_counter_program.
(* a write through a captured variable alone is inside (fragment 2) *)
Example C01_nv_modify_in_fragment :
  in_fragment nvp [SAssign [120%N] (EInt 1); SAssign [102%N] (EFn [] [SModify [120%N] (EInt 2); SReturn (Some (EVar [120%N]))]); SPrint (ECall (EVar [102%N]) [])] = true.
Proof. vm_compute. reflexivity. Qed.
Check fun_sim.
Check gcall_ok.
Check C01_nv_stage4b. Check C01_nv_fun_theorem_applies. Check C01_nv_stage4c. Check C01_nv_rec_theorem_applies.
(* per-block simulation with explicit code context and per-statement Hoare specifications *)
Check cblock_correct.
Check stmt_sim.
(* non-vacuity of the fragment theorems: concrete nested programs (else-if chain inside a while with block locals; break /
   continue under nested ifs and a nested while); the programs with from loops (stage3_from, stage5a, ...) are compared by
   computation here and are inside the second fragment (C01_nv_in_fragment above) *)
Check C01_nv_stage5a.
Check C01_nv_stage2. Check C01_nv_stage3. Check C01_nv_stage3_from. Check C01_nv_theorem_applies. Check C01_nv_stage1_fail.

(* non-vacuity: a program with `continue` inside `else` inside a stepped `from` inside a `while` inside a
   recursive function: the model compiler's output is certified, and model VM == reference semantics *)
Definition nv_src : source :=
  [ SAssign [102%N] (EFn [[110%N]] [
      SIf (EBin BLe (EVar [110%N]) (EInt 0)) [SReturn (Some (EInt 0))];
      SAssign [119%N] (EInt 0);
      SWhile (EBin BLt (EVar [119%N]) (EInt 2)) [
        SAssign [119%N] (EBin BAdd (EVar [119%N]) (EInt 1));
        SFrom (EInt 0) (EInt 5) false (Some (EInt 2)) (Some [106%N]) false [
          SIfElse (EBin BEq (EVar [106%N]) (EInt 2)) [SPrint (EVar [106%N])] [SContinue];
          SPrint (EBin BMul (EVar [106%N]) (EVar [110%N])) ] ];
      SReturn (Some (EBin BAdd (EVar [110%N]) (ESelf [EBin BSub (EVar [110%N]) (EInt 1)]))) ]);
    SPrint (ECall (EVar [102%N]) [EInt 2]) ].
Definition nv_path : str := [109%N; 46%N; 109%N; 109%N; 109%N].
Example C01_nonvacuous_certified : forallb (fun f => certify (snd f)) (cprogram nv_path nv_src) = true.
Proof. vm_compute. reflexivity. Qed.
Example C01_nonvacuous_agree :
  fst (fst (execute 5000 (cprogram nv_path nv_src) (s_module_fn nv_path))) = fst (run 5000 nv_src)
  /\ snd (run 5000 nv_src) = RODone /\ length (fst (run 5000 nv_src)) = 9%nat.
Proof. vm_compute. repeat split. Qed.
