(* C11 -- modules initialise exactly once, in import order, completing before the importer continues, and
   all importers share one instance; only exported names are visible.
   Pinned statements only.  Model: Modules/Model.v (Program::process_jump_request / add_file / execute,
   module_entry + store / split_lookup_store, export_name / add_export); proofs: Modules/Proofs.v.
   The theorems hold for EVERY project (any number of modules, any import graph - the pre-inserted cache
   key makes the loader terminate on cycles too -, any import form, any placement of the imports among
   other statements), for every run that completes (`run fuel g = Ok st`; OutOfFuel and errors are
   distinguished outcomes).  Module identity is the normalised file path (fixes/import-path-normalise.diff). *)
From MS Require Import Base.Str Modules.Model Modules.Proofs Modules.Fuel.

(* exactly once, in depth-first first-visit order of the import graph (imports in statement order), each
   module's top level a contiguous block closed before the importing module continues *)
Check init_once_in_order : forall (fuel : nat) (g : project) (st : state), run fuel g = Ok st ->
  NoDup (init_mods (trace st)) /\
  visit g [] (entry g) (init_mods (trace st)) /\
  exists body, trace st = EInit (entry g) O :: body ++ [EDone (entry g)] /\ block_of (entry g) body.
Theorem C11_init_once_in_order : forall (fuel : nat) (g : project) (st : state), run fuel g = Ok st ->
  NoDup (init_mods (trace st)) /\
  visit g [] (entry g) (init_mods (trace st)) /\
  exists body, trace st = EInit (entry g) O :: body ++ [EDone (entry g)] /\ block_of (entry g) body.
Proof. exact init_once_in_order. Qed.
Print Assumptions C11_init_once_in_order.

(* the hypothesis `run fuel g = Ok st` is never lost to the fuel device: with at least as much fuel as the project
   has modules a run ends normally or with an explicit error (missing file, missing export, double export, ...) *)
Check run_never_out_of_fuel : forall (fuel : nat) (g : project),
  (length (modules g) <= fuel)%nat -> run fuel g <> OutOfFuel.
Theorem C11_run_never_out_of_fuel : forall (fuel : nat) (g : project),
  (length (modules g) <= fuel)%nat -> run fuel g <> OutOfFuel.
Proof. exact run_never_out_of_fuel. Qed.
Print Assumptions C11_run_never_out_of_fuel.

(* `visit` determines the order: it is THE depth-first first-visit order *)
Check visit_det : forall g vis m o o', visit g vis m o -> visit g vis m o' -> o = o'.
Theorem C11_visit_det : forall g vis m o o', visit g vis m o -> visit g vis m o' -> o = o'.
Proof. exact visit_det. Qed.
Print Assumptions C11_visit_det.

(* every importer of m - whichever module, whichever form, however often - receives the same export map, the one
   created when m's top level ran *)
Check shared_instance : forall (fuel : nat) (g : project) (st : state), run fuel g = Ok st ->
  forall a b m i1 i2, In (EGot a m i1) (trace st) -> In (EGot b m i2) (trace st) ->
  i1 = i2 /\ In (EInit m i1) (trace st).
Theorem C11_shared_instance : forall (fuel : nat) (g : project) (st : state), run fuel g = Ok st ->
  forall a b m i1 i2, In (EGot a m i1) (trace st) -> In (EGot b m i2) (trace st) ->
  i1 = i2 /\ In (EInit m i1) (trace st).
Proof. exact shared_instance. Qed.
Print Assumptions C11_shared_instance.

Check imported_has_run : forall (fuel : nat) (g : project) (st : state), run fuel g = Ok st ->
  forall a m i, In (EGot a m i) (trace st) -> In m (init_mods (trace st)).
Theorem C11_imported_has_run : forall (fuel : nat) (g : project) (st : state), run fuel g = Ok st ->
  forall a m i, In (EGot a m i) (trace st) -> In m (init_mods (trace st)).
Proof. exact imported_has_run. Qed.
Print Assumptions C11_imported_has_run.

(* an exported name keeps the value it was exported with through every later module load (add_export is write
   once): what `import a from m` copies and what `m.a` reads later are the same value / the same shared cell *)
Check exports_write_once : forall (fuel : nat) (g : project) (m : mod_id) (st st' : state) (j : nat),
  Inv st -> load fuel g m st = Ok (j, st') -> ext st st'.
Theorem C11_exports_write_once : forall (fuel : nat) (g : project) (m : mod_id) (st st' : state) (j : nat),
  Inv st -> load fuel g m st = Ok (j, st') -> ext st st'.
Proof. exact exports_write_once. Qed.
Print Assumptions C11_exports_write_once.

(* names that are not exported are not visible, in either form *)
Check only_exports_visible : forall (en : env) (st : state) (m : mod_id) (i : nat) (x : name),
  lookup m (mods en) = Some i -> lookup_export st i x = None -> resolve (ViaModule m) x en st = Err e_noexport.
Theorem C11_only_exports_visible : forall (en : env) (st : state) (m : mod_id) (i : nat) (x : name),
  lookup m (mods en) = Some i -> lookup_export st i x = None -> resolve (ViaModule m) x en st = Err e_noexport.
Proof. exact only_exports_visible. Qed.
Check only_exports_importable : forall (st : state) (en : env) (j : nat) (x : name) (xs : list name),
  lookup_export st j x = None -> bind_names (x :: xs) j en st = Err e_noexport.
Theorem C11_only_exports_importable : forall (st : state) (en : env) (j : nat) (x : name) (xs : list name),
  lookup_export st j x = None -> bind_names (x :: xs) j en st = Err e_noexport.
Proof. exact only_exports_importable. Qed.
Print Assumptions C11_only_exports_importable.

(* PARTIAL (kept visible): "with their declared types, and importers cannot reassign them" is enforced by the
   compiler's type checker (module types, const-ness of `m` and of `m.x`), which this loader model does not
   contain; the correspondence check observes it on a fixed set of rejected programs only. *)

(* non-vacuity: a diamond  0 -> 1 -> 3, 0 -> 2 -> 3  with both import forms; module 3 exports a list (name 31) and a
   counter (name 32).  Module 3 runs once, after 1 started and before 2; pushes through both forms land in
   one list; the counter continues across importers. *)
Definition diamond : project :=
  {| entry := 0;
     modules :=
       [ (0, [Effect 1; Import 1 Whole; Effect 2; Import 2 Whole; Import 3 (Names [31; 32]);
              Push ViaLocal 31 0; ShowList ViaLocal 31; Call ViaLocal 32; Effect 3]);
         (1, [Effect 1; Import 3 Whole; Push (ViaModule 3) 31 1; Call (ViaModule 3) 32; Effect 3]);
         (2, [Effect 1; Import 3 (Names [31; 32]); Push ViaLocal 31 2; Call ViaLocal 32; Effect 3]);
         (3, [Effect 1; ExportList 31 3; ExportCounter 32; Effect 3]) ] |}.

Example C11_nonvacuous :
  summary (run 5 diamond) =
  (0, [ (0, [0; 1]); (1, [0; 1]); (3, [0; 1]); (3, [0; 3]); (1, [2; 1]); (1, [0; 3]); (0, [0; 2]);
        (2, [0; 1]); (2, [2; 2]); (2, [0; 3]); (0, [1; 3; 1; 2; 0]); (0, [2; 3]); (0, [0; 3]) ],
      [0; 1; 3; 2]).
Proof. vm_compute. reflexivity. Qed.

(* a module WITHOUT any export (1: side effects only; its export map stays empty) imported twice, the first time by a
   type-only import - `import type T from m` is the names form with no value name, `Import 1 (Names [])`, and still
   executes module_entry: module 1 runs exactly once, at that first import, before module 0 continues *)
Definition effects_only : project :=
  {| entry := 0;
     modules := [ (0, [Effect 1; Import 1 (Names []); Effect 2; Import 2 Whole; Effect 3]);
                  (1, [Effect 1; Effect 3]);
                  (2, [Effect 1; Import 1 Whole; Effect 3]) ] |}.

Example C11_exportless_and_type_only :
  summary (run 3 effects_only) =
  (0, [ (0, [0; 1]); (1, [0; 1]); (1, [0; 3]); (0, [0; 2]); (2, [0; 1]); (2, [0; 3]); (0, [0; 3]) ], [0; 1; 2]).
Proof. vm_compute. reflexivity. Qed.
