(* C12 -- optional values: nil test, `get`, `or` and `?=` behave as defined.
   Pinned VM-level code lemmas (proofs in Vm/OptionalLemmas.v), for ALL states of the VM model.
   PARTIAL: the source-level statements (programs using optionals agree with Lang/Eval.v) are established by
   the T1/T2/T3 correspondences on every run; `?=` is checked against a Python oracle. *)
From MS Require Import Vm.Model Vm.OptionalLemmas.

Theorem C12_or_nil_falls_through : forall a g off r, a_ops a = r ++ [VNil] ->
  exec_d (DJmpNotNil off) a g = SNext (set_ops a r) g.
Proof. exact jmp_not_nil_nil. Qed.
Theorem C12_or_present_skips_fallback : forall a g off r v, a_ops a = r ++ [v] -> v <> VNil ->
  exec_d (DJmpNotNil off) a g = SGoto off a g.
Proof. exact jmp_not_nil_present. Qed.
Theorem C12_get_nil_fails_with_span : forall a g span r, a_ops a = r ++ [VNil] ->
  exec_d (DUnwrap span) a g = SFail (E_unwrap_nil span).
Proof. exact unwrap_nil_fails_with_span. Qed.
Theorem C12_unwrap_into_flag : forall a g n r v g', a_ops a = r ++ [v] -> (forall w, v <> VSome w) ->
  store_var g n v = Some g' ->
  exec_d (DUnwrapInto n) a g = SNext (set_ops a (r ++ [VBool (match v with VNil => false | _ => true end)])) g'.
Proof. exact unwrap_into_flag. Qed.
Theorem C12_equals_nil_iff : forall v, val_equals 100 v VNil = Some (match v with VNil => true | _ => false end).
Proof. exact equals_nil_iff. Qed.
Print Assumptions C12_or_nil_falls_through.
Print Assumptions C12_get_nil_fails_with_span.
Print Assumptions C12_unwrap_into_flag.

(* ---------------------------------------------------------------------------------------------
   The SOURCE-LEVEL statement for whole PROGRAMS, as a theorem on a decidable fragment (Compile/ClosFrag.v .. ClosTop.v,
   the closure fragment of C07_closure_programs_correct_partial widened by `(a) or b` / `get a` over operands that contain
   calls, if / else, self calls, && || ! over calls).  Its programs are those of this check (vlib/c12.py gen_program:
   functions returning optionals -- `if .. { return k } return nil` --, optional variables assigned nil / a value / a call,
   `x == nil` `x != nil` `nil == x`, `(x) or fallback` where the fallback is a literal, a call (`noisy`, which prints) or
   another `or`, `get x` in expression and in STATEMENT position, if / else on a nil test, `while pos(w) != nil {..}`, a
   function whose only use of an outer variable is the fallback of `or`).  For every such program the model compiler's
   code, run by the VM model, prints exactly the lines the reference semantics (Lang/Eval.v) prints and ends the same
   way: the fallback of `or` is evaluated exactly when the left operand is nil (`noisy` prints or not), `get` of a
   present value is that value, `get` of nil stops both sides with the unwrap error carrying the SAME span
   (FUnwrapNil span ~ E_unwrap_nil span) after the same output, in statement position too.
   The check evaluates the extracted `in_fragment` (= in_fragment1 || in_fragment2) on every program it generates.
   PARTIAL: `?=`, containers of optionals and typed-equality cases (the other streams of the check) are covered by the
   T1/T2/T3 correspondences and the Python oracle only. *)
From MS Require Import Base.Str Lang.Syntax Lang.Eval Compile.Compile.
From MS Require Import Compile.ClosFrag Compile.ClosRel Compile.ClosSim Compile.ClosTop Compile.StmtSim Compile.StmtFragB Compile.StmtExamples Compile.ClosExamples2.
Check closure_module_correct.
Theorem C12_optional_programs_correct_partial : forall (path : str) (p : source), in_fragment2 path p = true ->
  forall fuel : nat, snd (run fuel p) <> ROFuel ->
  no_claim (snd (run fuel p)) \/
  (exists fuel' : nat,
     fst (fst (execute fuel' (cprogram path p) (s_module_fn path))) = fst (run fuel p) /\
     vm_outcome_ok (snd (run fuel p)) (snd (fst (execute fuel' (cprogram path p) (s_module_fn path))))).
Proof. exact closure_module_correct. Qed.
Print Assumptions C12_optional_programs_correct_partial.
Check fragment_correct.
(* `(a) or b` and `get a` over operands of any shape (calls included) *)
Check espec_nilor.
Check espec_get.
(* non-vacuity: `(pos(0)) or noisy(20)` (the fallback runs and prints), `(o1) or noisy(21)` (it does not), a nested `or`,
   == nil on both sides, if / else with `get`, a while loop over pos(w) != nil, `get` as a statement, and finally `get`
   of nil: both sides stop with the span of that `get` after the same 14 lines *)
Check C12_nv_optional_program.
Example C12_nv_in_fragment : in_fragment2 nvp nv_c12 = true /\ in_fragment nvp nv_c12 = true.
Proof. vm_compute. split; reflexivity. Qed.
