(* C12 -- optional values: nil test, `get`, `or` and `?=` behave as defined.
   Pinned VM-level code lemmas (proofs in Vm/OptionalLemmas.v), for ALL states of the VM model.
   PARTIAL: the source-level statements (programs using optionals agree with Lang/Eval.v) are established by
   the T1/T2/T3 correspondences on every run; `?=` is checked against a Python oracle. *)
From MS Require Import Vm.Model Vm.OptionalLemmas.

Theorem C12_or_nil_falls_through : forall a g off r, a_ops a = r ++ [VNil] ->
  exec_d (DJmpNotNil off) a g = SNext (set_ops a r) g.
Proof. exact jmp_not_nil_nil. Qed.
Theorem C12_or_present_skips_fallback : forall a g off r v, a_ops a = r ++ [v] -> v <> VNil ->
  exec_d (DJmpNotNil off) a g = SGoto off a g.
Proof. exact jmp_not_nil_present. Qed.
Theorem C12_get_nil_fails_with_span : forall a g span r, a_ops a = r ++ [VNil] ->
  exec_d (DUnwrap span) a g = SFail (E_unwrap_nil span).
Proof. exact unwrap_nil_fails_with_span. Qed.
Theorem C12_unwrap_into_flag : forall a g n r v g', a_ops a = r ++ [v] -> (forall w, v <> VSome w) ->
  store_var g n v = Some g' ->
  exec_d (DUnwrapInto n) a g = SNext (set_ops a (r ++ [VBool (match v with VNil => false | _ => true end)])) g'.
Proof. exact unwrap_into_flag. Qed.
Theorem C12_equals_nil_iff : forall v, val_equals 100 v VNil = Some (match v with VNil => true | _ => false end).
Proof. exact equals_nil_iff. Qed.
Print Assumptions C12_or_nil_falls_through.
Print Assumptions C12_get_nil_fails_with_span.
Print Assumptions C12_unwrap_into_flag.
