(* Proofs about the string built-ins: spec_* = meaning, impl = spec_* (value on the domain, stop outside). *)
From MS Require Import Base.Str Builtins.Val Builtins.Utf8 Builtins.Numeral Builtins.StrImpl Builtins.StrSpec.
From Coq Require Import Lia.
Open Scope Z_scope.

(* the implementation's outcome satisfies the demand of the specification *)
Definition meets (o : outcome) (s : sres) : Prop :=
  match s with
  | SVal v => o = Ok v
  | SFail => o = Err \/ o = Panic
  | SUnspec => True
  end.

(* a Rust String holds at most isize::MAX bytes *)
Definition fits (s : str) : Prop := Z.of_N (blen s) <= isize_max.

(* ------------------------------------------------------------------ len *)
Theorem len_meets s : meets (impl_len s) (spec_len s).
Proof. unfold impl_len, spec_len. destruct (in_i32 _); cbn; auto. Qed.

Theorem len_meaning s n : spec_len s = SVal (VInt n) -> n = Z.of_N (blen s).
Proof. unfold spec_len. destruct (in_i32 _); intros H; inversion H; reflexivity. Qed.

(* ------------------------------------------------------------------ s[i] *)
Lemma nth_char_spec s i : nth_char s i = match spec_index s i with SVal v => Ok v | _ => Err end.
Proof.
  unfold nth_char, spec_index. destruct ((0 <=? i) && (i <? Z.of_nat (length s))); [|reflexivity].
  destruct (nth_error s (Z.to_nat i)); reflexivity.
Qed.

Lemma length_fits s : fits s -> Z.of_nat (length s) <= isize_max.
Proof.
  unfold fits. intros H. pose proof (length_le_blen s). lia.
Qed.

Lemma spec_index_range s i : (i < 0 \/ Z.of_nat (length s) <= i) -> spec_index s i = SFail.
Proof.
  intros H. unfold spec_index.
  destruct ((0 <=? i) && (i <? Z.of_nat (length s))) eqn:E; [|reflexivity].
  apply andb_true_iff in E as [E1 E2]. apply Z.leb_le in E1. apply Z.ltb_lt in E2. lia.
Qed.

Theorem index_int_meets s i : fits s -> in_i32 i = true -> meets (impl_index_int s i) (spec_index s i).
Proof.
  intros F R. unfold impl_index_int. apply length_fits in F. unfold isize_max in F.
  unfold in_i32 in R. apply andb_true_iff in R as [R1 R2]. apply Z.leb_le in R1, R2.
  destruct (i <? 0) eqn:N.
  - apply Z.ltb_lt in N. rewrite (spec_index_range s i) by lia.
    rewrite nth_char_spec, spec_index_range by lia. cbn. auto.
  - rewrite nth_char_spec. destruct (spec_index s i); cbn; auto.
Qed.

Theorem index_big_meets s i : fits s -> meets (impl_index_big s i) (spec_index s i).
Proof.
  intros F. unfold impl_index_big. apply length_fits in F. unfold isize_max in F.
  destruct (in_usize i) eqn:U.
  - rewrite nth_char_spec. destruct (spec_index s i); cbn; auto.
  - unfold in_usize in U. apply andb_false_iff in U.
    rewrite spec_index_range; [cbn; auto|].
    destruct U as [U|U]; [apply Z.leb_gt in U | apply Z.leb_gt in U]; lia.
Qed.

Theorem index_meaning s i c :
  spec_index s i = SVal (VStr [c]) <-> (0 <= i /\ nth_error s (Z.to_nat i) = Some c).
Proof.
  unfold spec_index. split.
  - destruct ((0 <=? i) && (i <? Z.of_nat (length s))) eqn:E; [|discriminate].
    apply andb_true_iff in E as [E1 _]. apply Z.leb_le in E1.
    destruct (nth_error s (Z.to_nat i)); [|discriminate]. intros H. inversion H. auto.
  - intros [P H]. assert (L : (Z.to_nat i < length s)%nat) by (apply nth_error_Some; congruence).
    replace ((0 <=? i) && (i <? Z.of_nat (length s))) with true.
    + rewrite H. reflexivity.
    + symmetry. apply andb_true_iff. split; [apply Z.leb_le | apply Z.ltb_lt]; lia.
Qed.

(* ------------------------------------------------------------------ byte positions *)
Lemma cutZ_spec s b a r : 0 <= b -> (cut s (Z.to_N b) = Some (a, r) <-> AtByte s b a r).
Proof.
  intros P. unfold AtByte. rewrite cut_spec. split; intros [E L]; split; auto; lia.
Qed.

(* ------------------------------------------------------------------ substring *)
Theorem substring_meaning s b t r : spec_substring s b t = SVal (VStr r) <-> Substring s b t r.
Proof.
  unfold spec_substring, Substring. split.
  - destruct ((0 <=? b) && (b <=? t)) eqn:E; [|discriminate].
    apply andb_true_iff in E as [E1 E2]. apply Z.leb_le in E1, E2.
    destruct (cut s (Z.to_N b)) as [[a x]|] eqn:C1; [|discriminate].
    destruct (cut s (Z.to_N t)) as [[a' c]|] eqn:C2; [|discriminate].
    intros H. inversion H. subst r. clear H.
    apply cut_sound in C1 as [S1 L1]. apply cut_sound in C2 as [S2 L2].
    (* a is a prefix of a' *)
    assert (LL : (blen a <= blen a')%N) by lia.
    assert (exists m, a' = a ++ m) as [m ->].
    { clear - S1 S2 LL. subst s. revert a' x c S2 LL.
      induction a as [|k a IH]; intros a' x c S2 LL; [exists a'; reflexivity|].
      destruct a' as [|k' a'].
      - cbn [blen] in LL. pose proof (w8_pos k). lia.
      - cbn [app] in S2. injection S2 as -> S2. cbn [blen] in LL.
        destruct (IH a' x c S2) as [m ->]; [lia|]. exists m. reflexivity. }
    rewrite skipn_app, skipn_all, Nat.sub_diag. cbn [skipn app].
    exists a, c. rewrite S2 at 1. rewrite <- app_assoc. repeat split; lia.
  - intros (a & c & S & L1 & L2).
    assert (E : (0 <=? b) && (b <=? t) = true).
    { apply andb_true_iff. rewrite blen_app in L2. split; apply Z.leb_le; lia. }
    rewrite E. subst s.
    replace (Z.to_N b) with (blen a) by lia. rewrite cut_complete.
    replace (Z.to_N t) with (blen (a ++ r)) by lia. rewrite app_assoc, cut_complete.
    rewrite skipn_app, skipn_all, Nat.sub_diag. reflexivity.
Qed.

Lemma spec_substring_shape s b t : spec_substring s b t = SFail \/ exists r, spec_substring s b t = SVal (VStr r).
Proof.
  unfold spec_substring. destruct ((0 <=? b) && (b <=? t)); [|auto].
  destruct (cut s (Z.to_N b)) as [[a x]|]; [|auto].
  destruct (cut s (Z.to_N t)) as [[a' c]|]; [|auto]. right. eexists. reflexivity.
Qed.

Theorem substring_domain s b t : spec_substring s b t = SFail <-> (forall r, ~ Substring s b t r).
Proof.
  split.
  - intros H r S. apply substring_meaning in S. congruence.
  - intros H. destruct (spec_substring_shape s b t) as [F|[r R]]; [exact F|].
    apply substring_meaning in R. exfalso. exact (H r R).
Qed.

Theorem substring_meets s b t : meets (impl_substring s b t) (spec_substring s b t).
Proof.
  destruct (spec_substring_shape s b t) as [F|[r R]].
  - rewrite F. cbn. unfold impl_substring.
    destruct (b <? 0) eqn:B; [auto|]. destruct (t <? 0) eqn:T; [auto|].
    destruct (t <? b) eqn:TB; [auto|].
    apply Z.ltb_ge in B, T, TB.
    destruct (cut s (Z.to_N b)) as [[a x]|] eqn:C1; [|auto].
    destruct (cut x (Z.to_N (t - b))) as [[m c]|] eqn:C2; [|auto].
    exfalso. apply cut_sound in C1 as [S1 L1]. apply cut_sound in C2 as [S2 L2].
    apply (proj1 (substring_domain s b t) F m). exists a, c. subst s x.
    rewrite blen_app. repeat split; lia.
  - rewrite R. cbn. apply substring_meaning in R as (a & c & S & L1 & L2).
    unfold impl_substring. rewrite blen_app in L2.
    replace (b <? 0) with false by (symmetry; apply Z.ltb_ge; lia).
    replace (t <? 0) with false by (symmetry; apply Z.ltb_ge; lia).
    replace (t <? b) with false by (symmetry; apply Z.ltb_ge; lia).
    subst s. replace (Z.to_N b) with (blen a) by lia. rewrite cut_complete.
    replace (Z.to_N (t - b)) with (blen r) by lia. rewrite cut_complete. reflexivity.
Qed.

(* ------------------------------------------------------------------ searching *)
Lemma str_eqb_eq a b : str_eqb a b = true <-> a = b.
Proof.
  revert b. induction a as [|x a IH]; intros [|y b]; cbn; split; intros H; try reflexivity; try discriminate.
  - apply andb_true_iff in H as [H1 H2]. apply N.eqb_eq in H1. apply IH in H2. congruence.
  - injection H as -> ->. apply andb_true_iff. split; [apply N.eqb_refl | apply IH; reflexivity].
Qed.

Lemma is_prefix_spec p s : is_prefix p s = true <-> exists c, s = p ++ c.
Proof.
  revert s. induction p as [|x p IH]; intros s; cbn [is_prefix].
  - split; [intros _; exists s; reflexivity | reflexivity].
  - destruct s as [|y s].
    + split; [discriminate | intros [c H]; discriminate].
    + split.
      * intros H. apply andb_true_iff in H as [H1 H2]. apply N.eqb_eq in H1. apply IH in H2 as [c ->].
        exists c. subst. reflexivity.
      * intros [c H]. cbn [app] in H. injection H as -> ->. apply andb_true_iff. split; [apply N.eqb_refl|].
        apply IH. exists c. reflexivity.
Qed.

Lemma is_prefix_firstn o x : str_eqb (firstn (length o) x) o = is_prefix o x.
Proof.
  revert x. induction o as [|c o IH]; intros x; cbn [length firstn is_prefix]; [reflexivity|].
  destruct x as [|y x]; [reflexivity|]. cbn [str_eqb]. rewrite <- IH. cbn [str_eqb].
  rewrite N.eqb_sym. reflexivity.
Qed.

Lemma find_sound p : forall s a r, find p s = Some (a, r) ->
  s = a ++ r /\ is_prefix p r = true /\
  (forall a' r', s = a' ++ r' -> (length a' < length a)%nat -> is_prefix p r' = false).
Proof.
  induction s as [|c t IH]; intros a r H; cbn [find] in H.
  - destruct (is_prefix p []) eqn:P; [|discriminate]. injection H as <- <-.
    repeat split; auto. intros a' r' _ L. cbn in L. lia.
  - destruct (is_prefix p (c :: t)) eqn:P.
    + injection H as <- <-. repeat split; auto. intros a' r' _ L. cbn in L. lia.
    + destruct (find p t) as [[a0 r0]|] eqn:F; [|discriminate]. injection H as <- <-.
      destruct (IH _ _ eq_refl) as (E & Q & M). subst t. repeat split; auto.
      intros a' r' E' L. destruct a' as [|c' a'].
      * cbn [app] in E'. subst r'. exact P.
      * cbn [app] in E'. injection E' as <- E'. apply (M a' r' E'). cbn [length] in L. lia.
Qed.

Lemma find_none p : forall s, find p s = None -> forall a r, s = a ++ r -> is_prefix p r = false.
Proof.
  induction s as [|c t IH]; intros H a r E; cbn [find] in H.
  - destruct (is_prefix p []) eqn:P; [discriminate|].
    destruct a; [|discriminate]. cbn in E. subst r. exact P.
  - destruct (is_prefix p (c :: t)) eqn:P; [discriminate|].
    destruct (find p t) as [[a0 r0]|] eqn:F; [discriminate|].
    destruct a as [|c' a]; cbn [app] in E.
    + subst r. exact P.
    + injection E as <- E. exact (IH eq_refl a r E).
Qed.

Lemma occurs_prefix o s a : OccursAt o s a <-> exists r, s = a ++ r /\ is_prefix o r = true.
Proof.
  unfold OccursAt. split.
  - intros [c ->]. exists (o ++ c). split; [reflexivity|]. apply is_prefix_spec. exists c. reflexivity.
  - intros (r & -> & P). apply is_prefix_spec in P as [c ->]. exists c. reflexivity.
Qed.

Theorem find_first o s a r : find o s = Some (a, r) -> FirstAt o s a.
Proof.
  intros H. apply find_sound in H as (E & P & M). split.
  - apply occurs_prefix. exists r. auto.
  - intros a' O. apply occurs_prefix in O as (r' & E' & P').
    destruct (Nat.le_gt_cases (length a) (length a')) as [L|L]; [exact L|].
    rewrite (M a' r' E' L) in P'. discriminate.
Qed.

Theorem find_absent o s : find o s = None <-> ~ Occurs o s.
Proof.
  split.
  - intros H [a O]. apply occurs_prefix in O as (r & E & P).
    rewrite (find_none o s H a r E) in P. discriminate.
  - intros H. destruct (find o s) as [[a r]|] eqn:F; [|reflexivity].
    exfalso. apply H. exists a. exact (proj1 (find_first _ _ _ _ F)).
Qed.

(* two first occurrences are the same place *)
Lemma app_same_length {A} (a a' r r' : list A) : a ++ r = a' ++ r' -> length a = length a' -> a = a' /\ r = r'.
Proof.
  revert a'. induction a as [|x a IH]; intros [|y a'] E L; try discriminate.
  - auto.
  - cbn [app] in E. injection E as -> E. cbn [length] in L.
    destruct (IH a' E) as [-> ->]; [lia | auto].
Qed.

Lemma first_unique o s a a' : FirstAt o s a -> FirstAt o s a' -> a = a'.
Proof.
  intros [[c O] M] [[c' O'] M'].
  assert (L : length a = length a').
  { apply Nat.le_antisymm; [apply M; exists c'; exact O' | apply M'; exists c; exact O]. }
  rewrite O in O'. exact (proj1 (app_same_length _ _ _ _ O' L)).
Qed.

(* the position list of the specification and the scan of the implementation agree *)
Lemma first_pos_S o s k f :
  first_pos o s k (S f) = if str_eqb (firstn (length o) (skipn k s)) o then Some k else first_pos o s (S k) f.
Proof. reflexivity. Qed.

Lemma first_pos_find o : forall x pre,
  first_pos o (pre ++ x) (length pre) (S (length x)) =
  match find o x with Some (a, _) => Some (length pre + length a)%nat | None => None end.
Proof.
  induction x as [|c t IH]; intros pre; rewrite first_pos_S;
    rewrite skipn_app, skipn_all, Nat.sub_diag; cbn [skipn app]; rewrite is_prefix_firstn; cbn [find].
  - destruct (is_prefix o []); [cbn; f_equal; lia | reflexivity].
  - destruct (is_prefix o (c :: t)); [cbn; f_equal; lia|].
    replace (pre ++ c :: t) with ((pre ++ [c]) ++ t) by (rewrite <- app_assoc; reflexivity).
    replace (S (length pre)) with (length (pre ++ [c])) by (rewrite app_length; cbn; lia).
    cbn [length]. rewrite IH. destruct (find o t) as [[a r]|]; [|reflexivity].
    rewrite app_length. cbn [length]. f_equal. lia.
Qed.

Lemma spec_find_find o s :
  spec_find o s = match find o s with Some (a, _) => Some (length a) | None => None end.
Proof. unfold spec_find. exact (first_pos_find o s []). Qed.

Theorem contains_meets s o : meets (impl_contains s o) (spec_contains s o).
Proof.
  unfold impl_contains, spec_contains. rewrite spec_find_find.
  destruct (find o s) as [[a r]|]; reflexivity.
Qed.

Theorem contains_meaning s o : spec_contains s o = SVal (VBool true) <-> Occurs o s.
Proof.
  unfold spec_contains. rewrite spec_find_find. destruct (find o s) as [[a r]|] eqn:F.
  - split; [intros _; exists a; exact (proj1 (find_first _ _ _ _ F)) | reflexivity].
  - split; [discriminate | intros O; apply find_absent in F; contradiction].
Qed.

Theorem index_of_meets s o : meets (impl_index_of s o) (spec_index_of s o).
Proof.
  unfold impl_index_of, spec_index_of. rewrite spec_find_find.
  destruct (find o s) as [[a r]|] eqn:F; [|reflexivity].
  apply find_sound in F as (-> & _). rewrite firstn_app, firstn_all, Nat.sub_diag. cbn [firstn].
  rewrite app_nil_r. destruct (in_i32 _); cbn; auto.
Qed.

(* index_of = the byte length of the prefix before the FIRST occurrence; nil iff there is none *)
Theorem index_of_meaning s o n :
  spec_index_of s o = SVal (VInt n) -> exists a, FirstAt o s a /\ n = Z.of_N (blen a).
Proof.
  unfold spec_index_of. rewrite spec_find_find. destruct (find o s) as [[a r]|] eqn:F; [|discriminate].
  pose proof (find_first _ _ _ _ F) as FA. apply find_sound in F as (-> & _).
  rewrite firstn_app, firstn_all, Nat.sub_diag. cbn [firstn]. rewrite app_nil_r.
  destruct (in_i32 _); [|discriminate]. intros H. inversion H. exists a. auto.
Qed.

Theorem index_of_nil s o : spec_index_of s o = SVal VNil <-> ~ Occurs o s.
Proof.
  unfold spec_index_of. rewrite spec_find_find. destruct (find o s) as [[a r]|] eqn:F.
  - split.
    + destruct (in_i32 _); discriminate.
    + intros H. exfalso. apply H. exists a. exact (proj1 (find_first _ _ _ _ F)).
  - split; [intros _; apply find_absent; exact F | reflexivity].
Qed.

(* law: index_of witnesses contains *)
Theorem index_of_witnesses_contains s o :
  (exists n, spec_index_of s o = SVal (VInt n)) -> spec_contains s o = SVal (VBool true).
Proof.
  intros [v H]. apply contains_meaning. unfold spec_index_of in H. rewrite spec_find_find in H.
  destruct (find o s) as [[a r]|] eqn:F; [|discriminate]. exists a. exact (proj1 (find_first _ _ _ _ F)).
Qed.

(* ------------------------------------------------------------------ reverse *)
Theorem reverse_meets s : meets (impl_reverse s) (spec_reverse s).
Proof. reflexivity. Qed.

Theorem reverse_involutive s : forall r, spec_reverse s = SVal (VStr r) -> spec_reverse r = SVal (VStr s).
Proof. unfold spec_reverse. intros r H. inversion H. rewrite rev_involutive. reflexivity. Qed.

Theorem reverse_same_bytes s r : spec_reverse s = SVal (VStr r) -> blen r = blen s.
Proof. unfold spec_reverse. intros H. inversion H. apply blen_rev. Qed.

(* ------------------------------------------------------------------ insert *)
Theorem insert_meaning s new b r : spec_insert s new b = SVal (VStr r) <-> Inserted s new b r.
Proof.
  unfold spec_insert, Inserted. split.
  - destruct (0 <=? b) eqn:P; [|discriminate]. apply Z.leb_le in P.
    destruct (cut s (Z.to_N b)) as [[a c]|] eqn:C; [|discriminate]. intros H. inversion H.
    exists a, c. split; [apply cutZ_spec; assumption | reflexivity].
  - intros (a & c & [E L] & ->). assert (P : 0 <= b) by lia.
    replace (0 <=? b) with true by (symmetry; apply Z.leb_le; exact P).
    rewrite (proj2 (cutZ_spec s b a c P)); [reflexivity | split; assumption].
Qed.

Theorem insert_domain s new b : spec_insert s new b = SFail <-> (forall r, ~ Inserted s new b r).
Proof.
  split.
  - intros H r I. apply insert_meaning in I. congruence.
  - intros H. unfold spec_insert. destruct (0 <=? b) eqn:P; [|reflexivity].
    destruct (cut s (Z.to_N b)) as [[a c]|] eqn:C; [|reflexivity]. exfalso.
    apply (H (a ++ new ++ c)). apply insert_meaning. unfold spec_insert. rewrite P, C. reflexivity.
Qed.

Theorem insert_meets s new b : meets (impl_insert s new b) (spec_insert s new b).
Proof.
  unfold impl_insert, spec_insert. destruct (b <? 0) eqn:N.
  - apply Z.ltb_lt in N. replace (0 <=? b) with false by (symmetry; apply Z.leb_gt; lia). cbn. auto.
  - apply Z.ltb_ge in N. replace (0 <=? b) with true by (symmetry; apply Z.leb_le; lia).
    destruct (cut s (Z.to_N b)) as [[a c]|]; cbn; auto.
Qed.

(* ------------------------------------------------------------------ delete *)
Theorem delete_meaning s b t r : spec_delete s b t = SVal (VStr r) <-> Deleted s b t r.
Proof.
  unfold spec_delete, Deleted. split.
  - destruct ((0 <=? b) && (b <=? t)) eqn:E; [|discriminate].
    apply andb_true_iff in E as [E1 E2]. apply Z.leb_le in E1, E2.
    destruct (cut s (Z.to_N b)) as [[a x]|] eqn:C1; [|discriminate].
    destruct (cut s (Z.to_N t)) as [[a' c]|] eqn:C2; [|discriminate].
    intros H. inversion H. subst r. clear H.
    apply cut_sound in C1 as [S1 L1]. apply cut_sound in C2 as [S2 L2].
    assert (LL : (blen a <= blen a')%N) by lia.
    assert (exists m, a' = a ++ m) as [m ->].
    { clear - S1 S2 LL. subst s. revert a' x c S2 LL.
      induction a as [|k a IH]; intros a' x c S2 LL; [exists a'; reflexivity|].
      destruct a' as [|k' a'].
      - cbn [blen] in LL. pose proof (w8_pos k). lia.
      - cbn [app] in S2. injection S2 as -> S2. cbn [blen] in LL.
        destruct (IH a' x c S2) as [m ->]; [lia|]. exists m. reflexivity. }
    exists a, m, c. rewrite S2 at 1. rewrite <- app_assoc. repeat split; lia.
  - intros (a & m & c & S & L1 & L2 & ->).
    assert (E : (0 <=? b) && (b <=? t) = true).
    { apply andb_true_iff. rewrite blen_app in L2. split; apply Z.leb_le; lia. }
    rewrite E. subst s.
    replace (Z.to_N b) with (blen a) by lia. rewrite cut_complete.
    replace (Z.to_N t) with (blen (a ++ m)) by lia. rewrite app_assoc, cut_complete. reflexivity.
Qed.

Lemma spec_delete_shape s b t : spec_delete s b t = SFail \/ exists r, spec_delete s b t = SVal (VStr r).
Proof.
  unfold spec_delete. destruct ((0 <=? b) && (b <=? t)); [|auto].
  destruct (cut s (Z.to_N b)) as [[a x]|]; [|auto].
  destruct (cut s (Z.to_N t)) as [[a' c]|]; [|auto]. right. eexists. reflexivity.
Qed.

Theorem delete_domain s b t : spec_delete s b t = SFail <-> (forall r, ~ Deleted s b t r).
Proof.
  split.
  - intros H r D. apply delete_meaning in D. congruence.
  - intros H. destruct (spec_delete_shape s b t) as [F|[r R]]; [exact F|].
    apply delete_meaning in R. exfalso. exact (H r R).
Qed.

Theorem delete_meets s b t : meets (impl_delete s b t) (spec_delete s b t).
Proof.
  unfold impl_delete, spec_delete.
  destruct (b <? 0) eqn:B.
  { apply Z.ltb_lt in B. replace (0 <=? b) with false by (symmetry; apply Z.leb_gt; lia). cbn. auto. }
  apply Z.ltb_ge in B. replace (0 <=? b) with true by (symmetry; apply Z.leb_le; lia).
  destruct (t <? 0) eqn:T.
  { apply Z.ltb_lt in T. replace (b <=? t) with false by (symmetry; apply Z.leb_gt; lia). cbn. auto. }
  destruct (t <? b) eqn:TB.
  { apply Z.ltb_lt in TB. replace (b <=? t) with false by (symmetry; apply Z.leb_gt; lia). cbn. auto. }
  apply Z.ltb_ge in TB. replace (b <=? t) with true by (symmetry; apply Z.leb_le; lia). cbn [andb].
  destruct (cut s (Z.to_N b)) as [[a x]|]; [|cbn; auto].
  destruct (cut s (Z.to_N t)) as [[a' c]|]; cbn; auto.
Qed.

(* law: deleting what was inserted gives the original back *)
Theorem delete_insert s new b r :
  spec_insert s new b = SVal (VStr r) -> spec_delete r b (b + Z.of_N (blen new)) = SVal (VStr s).
Proof.
  intros H. apply insert_meaning in H as (a & c & [E L] & ->). apply delete_meaning.
  exists a, new, c. rewrite blen_app. repeat split; try lia; try reflexivity. exact E.
Qed.

(* law: the whole string is the substring from 0 to len *)
Theorem substring_whole s : spec_substring s 0 (Z.of_N (blen s)) = SVal (VStr s).
Proof.
  apply substring_meaning. exists [], []. rewrite app_nil_r. cbn [app blen]. repeat split; lia.
Qed.

(* ------------------------------------------------------------------ split *)
Theorem split_meets s mid : meets (impl_split s mid) (spec_split s mid).
Proof.
  unfold impl_split, spec_split. destruct (mid <? 0); [reflexivity|].
  destruct (in_i32 (Z.of_N (blen s))); cbn [negb]; [|cbn; auto].
  destruct (Z.of_N (blen s) <=? mid); [reflexivity|].
  destruct (cut s (Z.to_N mid)) as [[a r]|]; cbn; auto.
Qed.

(* law: the two halves joined are the original string, whatever the argument *)
Theorem split_concat s mid a b : spec_split s mid = SVal (VVec [VStr a; VStr b]) -> a ++ b = s.
Proof.
  unfold spec_split. destruct (mid <? 0); [intros H; inversion H; apply app_nil_r|].
  destruct (in_i32 _); cbn [negb]; [|discriminate].
  destruct (_ <=? mid); [intros H; inversion H; apply app_nil_r|].
  destruct (cut s (Z.to_N mid)) as [[x y]|] eqn:C; [|discriminate].
  intros H. inversion H. subst. apply cut_sound in C as [-> _]. reflexivity.
Qed.

(* inside the string the cut is at byte `mid` *)
Theorem split_meaning s mid a b :
  0 <= mid < Z.of_N (blen s) -> spec_split s mid = SVal (VVec [VStr a; VStr b]) -> AtByte s mid a b.
Proof.
  intros [P Q]. unfold spec_split.
  replace (mid <? 0) with false by (symmetry; apply Z.ltb_ge; lia).
  destruct (in_i32 _); cbn [negb]; [|discriminate].
  replace (_ <=? mid) with false by (symmetry; apply Z.leb_gt; lia).
  destruct (cut s (Z.to_N mid)) as [[x y]|] eqn:C; [|discriminate].
  intros H. inversion H. subst. apply cutZ_spec; assumption.
Qed.

(* ------------------------------------------------------------------ chars *)
Theorem chars_meets s : meets (impl_chars s) (spec_chars s).
Proof. reflexivity. Qed.

Theorem chars_concat s : concat (map (fun c : N => [c]) s) = s.
Proof. induction s as [|c t IH]; [reflexivity|]. cbn. rewrite IH. reflexivity. Qed.

(* ------------------------------------------------------------------ s * n *)
Lemma repeat_str_concat n s : repeat_str n s = concat (repeat s n).
Proof. induction n as [|n IH]; [reflexivity|]. cbn. rewrite IH. reflexivity. Qed.

Theorem repeat_meets s n : meets (impl_repeat s n) (spec_repeat s n).
Proof.
  unfold impl_repeat, spec_repeat. destruct (in_usize n); cbn [negb]; [|cbn; auto].
  destruct s as [|c s]; [reflexivity|].
  destruct (isize_max <? _); [cbn; auto|]. rewrite repeat_str_concat. reflexivity.
Qed.

(* law: len (s * n) = n * len s *)
Lemma blen_repeat n s : blen (repeat_str n s) = (N.of_nat n * blen s)%N.
Proof.
  induction n as [|n IH]; [reflexivity|]. cbn [repeat_str]. rewrite blen_app, IH. lia.
Qed.

Theorem repeat_len s n r :
  spec_repeat s n = SVal (VStr r) -> Z.of_N (blen r) = n * Z.of_N (blen s).
Proof.
  unfold spec_repeat. destruct (in_usize n) eqn:U; cbn [negb]; [|discriminate].
  unfold in_usize in U. apply andb_true_iff in U as [U _]. apply Z.leb_le in U.
  destruct s as [|c s].
  - intros H. inversion H. cbn. lia.
  - destruct (isize_max <? _); [discriminate|]. intros H. inversion H.
    rewrite <- repeat_str_concat, blen_repeat. lia.
Qed.

(* ------------------------------------------------------------------ x + y *)
Theorem concat_meets x y : meets (impl_concat x y) (spec_concat x y).
Proof.
  unfold impl_concat, spec_concat.
  assert (D : forall v, display v = spec_text v) by (intros []; reflexivity).
  destruct x, y; cbn; auto; rewrite ?D; repeat match goal with |- context [spec_text ?v] => destruct (spec_text v) end; cbn; auto.
Qed.

(* ------------------------------------------------------------------ replace *)
Lemma spec_repl_skip pt rp : forall x c, spec_repl pt rp (x ++ c) (length x) = spec_repl pt rp c 0.
Proof. induction x as [|y x IH]; intros c; [reflexivity | cbn [app length spec_repl]; apply IH]. Qed.

Section Replace.
Variables pat rep : str.
Hypothesis pat_ne : pat <> [].

Lemma pat_len : (1 <= length pat)%nat.
Proof. destruct pat; [contradiction | cbn; lia]. Qed.

(* the relation determines its result *)
Lemma replaced_step_inv s r2 : Replaced pat rep s r2 ->
  forall a c, s = a ++ pat ++ c -> FirstAt pat s a -> exists c2', Replaced pat rep c c2' /\ r2 = a ++ rep ++ c2'.
Proof.
  intros H. destruct H as [s N | a2 c2 c2' F2 R2]; intros a c E F.
  - exfalso. apply N. exists a. exact (proj1 F).
  - pose proof (first_unique _ _ _ _ F F2) as ->.
    apply app_inv_head in E. apply app_inv_head in E. subst c2. exists c2'. auto.
Qed.

Lemma replaced_fun : forall s r1, Replaced pat rep s r1 -> forall r2, Replaced pat rep s r2 -> r1 = r2.
Proof.
  intros s r1 H1. induction H1 as [s N | a c c' F R IH]; intros r2 H2.
  - destruct H2 as [s N' | a2 c2 c2' F2 R2]; [reflexivity|].
    exfalso. apply N. exists a2. exact (proj1 F2).
  - destruct (replaced_step_inv _ _ H2 a c eq_refl F) as (c2' & R2 & ->).
    rewrite (IH _ R2). reflexivity.
Qed.

(* the implementation: find the first match, emit, continue behind it *)
Lemma impl_replaced : forall fuel s, (length s < fuel)%nat -> Replaced pat rep s (repl_fuel fuel pat rep s).
Proof.
  induction fuel as [|f IH]; intros s L; [lia|]. cbn [repl_fuel].
  destruct (find pat s) as [[a r]|] eqn:F.
  - pose proof (find_first _ _ _ _ F) as FA. apply find_sound in F as (E & P & _).
    apply is_prefix_spec in P as [c ->]. subst s.
    rewrite skipn_app, skipn_all, Nat.sub_diag. cbn [skipn app].
    apply Rep_step; [exact FA|]. apply IH. rewrite !app_length in L. pose proof pat_len. lia.
  - apply Rep_none. apply find_absent. exact F.
Qed.

(* the specification: scan character by character *)

Lemma spec_repl_match c : spec_repl pat rep (pat ++ c) 0 = rep ++ spec_repl pat rep c 0.
Proof.
  destruct pat as [|p ps] eqn:EP; [contradiction|]. rewrite <- EP.
  assert (T : str_eqb (firstn (length pat) (pat ++ c)) pat = true).
  { rewrite is_prefix_firstn. apply is_prefix_spec. exists c. reflexivity. }
  rewrite EP in *. cbn [app spec_repl]. cbn [app] in T. rewrite T.
  cbn [length]. rewrite Nat.sub_succ, Nat.sub_0_r. rewrite spec_repl_skip. reflexivity.
Qed.

Lemma spec_repl_nomatch : forall a r,
  (forall a1 a2, a = a1 ++ a2 -> a2 <> [] -> is_prefix pat (a2 ++ r) = false) ->
  spec_repl pat rep (a ++ r) 0 = a ++ spec_repl pat rep r 0.
Proof.
  induction a as [|y a IH]; intros r H; [reflexivity|].
  cbn [app spec_repl]. rewrite is_prefix_firstn.
  assert (Q : is_prefix pat ((y :: a) ++ r) = false) by (apply (H [] (y :: a) eq_refl); discriminate).
  cbn [app] in Q. rewrite Q. f_equal. apply IH.
  intros a1 a2 E N. apply (H (y :: a1) a2); [subst a; reflexivity | exact N].
Qed.

Lemma first_no_earlier a c : FirstAt pat (a ++ pat ++ c) a ->
  forall a1 a2, a = a1 ++ a2 -> a2 <> [] -> is_prefix pat (a2 ++ pat ++ c) = false.
Proof.
  intros [_ M] a1 a2 E N. destruct (is_prefix pat (a2 ++ pat ++ c)) eqn:P; [|reflexivity]. exfalso.
  assert (O : OccursAt pat (a ++ pat ++ c) a1).
  { apply occurs_prefix. exists (a2 ++ pat ++ c). split; [subst a; rewrite <- app_assoc; reflexivity | exact P]. }
  apply M in O. subst a. rewrite app_length in O. destruct a2; [contradiction | cbn in O; lia].
Qed.

Lemma spec_replaced : forall n s, (length s < n)%nat -> Replaced pat rep s (spec_repl pat rep s 0).
Proof.
  induction n as [|n IH]; intros s L; [lia|].
  destruct (find pat s) as [[a r]|] eqn:F.
  - pose proof (find_first _ _ _ _ F) as FA. apply find_sound in F as (E & P & _).
    apply is_prefix_spec in P as [c ->]. subst s.
    rewrite (spec_repl_nomatch a (pat ++ c) (first_no_earlier a c FA)), spec_repl_match.
    apply Rep_step; [exact FA|]. apply IH. rewrite !app_length in L. pose proof pat_len. lia.
  - pose proof (find_none _ _ F) as NM.
    replace (spec_repl pat rep s 0) with s.
    + apply Rep_none. apply find_absent. exact F.
    + rewrite <- (app_nil_r s) at 2. rewrite spec_repl_nomatch; [cbn; rewrite app_nil_r; reflexivity|].
      intros a1 a2 E _. rewrite app_nil_r. exact (NM a1 a2 E).
Qed.
End Replace.

Theorem replace_meets s pat rep : meets (impl_replace s pat rep) (spec_replace s pat rep).
Proof.
  unfold impl_replace, spec_replace, impl_replace_str. destruct pat as [|p ps] eqn:E; [reflexivity|].
  rewrite <- E. assert (NE : pat <> []) by (rewrite E; discriminate). unfold meets. do 2 f_equal.
  apply (replaced_fun pat rep s); [apply impl_replaced | apply (spec_replaced pat rep NE (S (length s)))]; auto.
Qed.

(* replace = the leftmost, non-overlapping occurrences replaced *)
Theorem replace_meaning s pat rep r :
  pat <> [] -> (spec_replace s pat rep = SVal (VStr r) <-> Replaced pat rep s r).
Proof.
  intros NE. unfold spec_replace. destruct pat as [|p ps] eqn:E; [contradiction|]. rewrite <- E in *.
  pose proof (spec_replaced pat rep NE (S (length s)) s (Nat.lt_succ_diag_r _)) as R. split.
  - intros H. inversion H. subst. exact R.
  - intros H. rewrite (replaced_fun pat rep s _ R _ H). reflexivity.
Qed.

(* a pattern that does not occur leaves the string alone *)
Theorem replace_absent s pat rep : pat <> [] -> ~ Occurs pat s -> spec_replace s pat rep = SVal (VStr s).
Proof. intros NE N. apply replace_meaning; [exact NE | apply Rep_none; exact N]. Qed.
