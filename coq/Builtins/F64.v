(* binary64 (IEEE-754 double) on top of Flocq's BinarySingleNaN: one NaN, no payloads.
   mscript's Float is a Rust f64; NaN sign/payload are not observable through the methods modelled here
   (the correspondence compares every NaN as one class). *)
From Coq Require Import ZArith Bool Lia.
From Flocq Require Import Core.Zaux Core.Raux Core.Defs IEEE754.BinarySingleNaN IEEE754.Binary IEEE754.Bits.
Open Scope Z_scope.

#[global] Instance prec53 : FLX.Prec_gt_0 53. Proof. reflexivity. Qed.
#[global] Instance emax1024 : Prec_lt_emax 53 1024. Proof. reflexivity. Qed.

Definition f64 := BinarySingleNaN.binary_float 53 1024.

Definition sign_bit (s : bool) : Z := if s then 9223372036854775808 else 0.

(* the 64-bit pattern of a float; NaN is rendered as the canonical quiet NaN *)
Definition to_bits (f : f64) : Z :=
  match f with
  | BinarySingleNaN.B754_zero s => sign_bit s
  | BinarySingleNaN.B754_infinity s => sign_bit s + 9218868437227405312
  | BinarySingleNaN.B754_nan => 9221120237041090560
  | BinarySingleNaN.B754_finite s m e _ =>
      let m := Zpos m in
      sign_bit s + (if m <? 4503599627370496 then m else (e + 1075) * 4503599627370496 + (m - 4503599627370496))
  end.

Definition of_bits (z : Z) : f64 := B2BSN 53 1024 (b64_of_bits z).

Definition fmul (a b : f64) : f64 := BinarySingleNaN.Bmult mode_NE a b.
Definition fdiv (a b : f64) : f64 := BinarySingleNaN.Bdiv mode_NE a b.
Definition fsub (a b : f64) : f64 := BinarySingleNaN.Bminus mode_NE a b.
Definition fsqrt (a : f64) : f64 := BinarySingleNaN.Bsqrt mode_NE a.
Definition fabs (a : f64) : f64 := BinarySingleNaN.Babs a.
Definition fnear (md : mode) (a : f64) : f64 := BinarySingleNaN.Bnearbyint md a.
Definition ftrunc_z (a : f64) : Z := BinarySingleNaN.Btrunc a.
(* integer -> nearest double, ties to even (Rust `as f64`, exact for |z| <= 2^53) *)
Definition of_Z (z : Z) : f64 := BinarySingleNaN.binary_normalize 53 1024 _ _ mode_NE z 0 false.
Definition fone : f64 := of_Z 1.
Definition is_nan (a : f64) : bool := BinarySingleNaN.is_nan a.
Definition is_finite (a : f64) : bool := BinarySingleNaN.is_finite a.
