(* Values, outcomes and machine ranges shared by the built-in models (C14).
   bytecode/src/variables/primitive.rs: Primitive::{Int(i32), BigInt(i128), Byte(u8), Float(f64), Bool, Str,
   Optional(None | Some), Vector}. *)
From MS Require Export Base.Str.
From Coq Require Export ZArith.
From MS Require Export Builtins.F64.

Inductive val :=
| VInt (z : Z)          (* i32 *)
| VBig (z : Z)          (* i128 *)
| VByte (z : Z)         (* u8 *)
| VFloat (f : f64)
| VBool (b : bool)
| VStr (s : str)
| VNil                  (* Optional(None); a present optional is the bare value at run time *)
| VVec (l : list val).

(* what a Rust arm does: a value, an anyhow error (exit 1), a panic (exit 101);
   LibmPow x y: the value is whatever libm's pow(x, y) returns (`powf`: the model fixes the arguments only);
   Outside: the value involves Rust's float printing, which is outside the model *)
Inductive outcome := Ok (v : val) | Err | Panic | LibmPow (x y : f64) | Outside.

(* what the property demands: this value / the program must stop / nothing is claimed *)
Inductive sres := SVal (v : val) | SFail | SUnspec.

Definition in_i32 (z : Z) : bool := ((-2147483648 <=? z) && (z <=? 2147483647))%Z.
Definition in_i128 (z : Z) : bool :=
  ((-170141183460469231731687303715884105728 <=? z) && (z <=? 170141183460469231731687303715884105727))%Z.
Definition in_u8 (z : Z) : bool := ((0 <=? z) && (z <=? 255))%Z.
Definition in_u32 (z : Z) : bool := ((0 <=? z) && (z <=? 4294967295))%Z.
Definition in_usize (z : Z) : bool := ((0 <=? z) && (z <=? 18446744073709551615))%Z.
Definition isize_max : Z := 9223372036854775807%Z.

(* kinds as printed by the typed-print hook / declared by the compiler *)
Inductive ty := TInt | TBig | TByte | TFloat | TBool | TStr | TOpt (t : ty) | TList (t : ty) | TPair (a b : ty).

Fixpoint has_ty (v : val) (t : ty) {struct t} : bool :=
  match t, v with
  | TInt, VInt _ | TBig, VBig _ | TByte, VByte _ | TFloat, VFloat _ | TBool, VBool _ | TStr, VStr _ => true
  | TOpt _, VNil => true
  | TOpt t', _ => has_ty v t'          (* a present optional is the bare value *)
  | TList t', VVec l => forallb (fun x => has_ty x t') l
  | TPair a b, VVec [x; y] => has_ty x a && has_ty y b
  | _, _ => false
  end.

(* values of the right machine range *)
Fixpoint wf_val (v : val) : bool :=
  match v with
  | VInt z => in_i32 z | VBig z => in_i128 z | VByte z => in_u8 z
  | VVec l => forallb wf_val l
  | _ => true
  end.
