(* The guard in front of the arms of BuiltInFunction::run (bytecode/src/function.rs, fix "nil-builtin-argument").

   `run_impl` (Dispatch.v) models the ARMS: an argument list of the wrong kinds is `unreachable!()` there, i.e.
   `Panic`, because the type checker never produces one.  There is one exception that the type checker does let
   through: `m[k]` has the static type `V` and reads as `nil` for a key the map does not have, so a `nil` can stand
   where an `int` / `str` / ... parameter is declared (hunt D8: `queue.remove(stock["pear"])`,
   `s.substring(offsets[key], 3)`).  The fixed code refuses such a call before the arms are reached:

       if !self.takes_any_value() && arguments.iter().skip(1).any(is_nil) { bail!(..) }

   `run_call` is the call as the interpreter performs it: guard, then arm.  The methods of this model that are
   built-in FUNCTIONS all have parameters of a concrete type (`takes_any_value` is true only for list / map methods,
   which are modelled in Containers/); index, `*` and `+` are instructions, not built-in functions: no guard. *)
From Coq Require Import List Bool ZArith.
Import ListNotations.
From MS Require Import Base.Str Builtins.Val Builtins.Dispatch.

Definition is_nil (v : val) : bool := match v with VNil => true | _ => false end.

Definition is_builtin_function (m : meth) : bool :=
  match m with MIndex | MRepeat | MConcat => false | _ => true end.

(* the receiver (first argument) is not looked at: a nil receiver never gets this far (`lookup` fails on it) *)
Definition nil_guard (m : meth) (args : list val) : bool :=
  is_builtin_function m && existsb is_nil (tl args).

Definition run_call (m : meth) (args : list val) : outcome :=
  if nil_guard m args then Err else run_impl m args.

(* the guard is invisible on every argument list without a nil after the receiver: all theorems about `run_impl`
   on well-kinded lists are theorems about `run_call` *)
Lemma run_call_no_nil m args : existsb is_nil (tl args) = false -> run_call m args = run_impl m args.
Proof. intros H. unfold run_call, nil_guard. rewrite H, andb_false_r. reflexivity. Qed.

Lemma run_call_instruction m args : is_builtin_function m = false -> run_call m args = run_impl m args.
Proof. intros H. unfold run_call, nil_guard. rewrite H. reflexivity. Qed.

(* a guarded call is an error of the program, never a panic *)
Lemma run_call_nil_is_error m args :
  is_builtin_function m = true -> existsb is_nil (tl args) = true -> run_call m args = Err.
Proof. intros Hm Hn. unfold run_call, nil_guard. rewrite Hm, Hn. reflexivity. Qed.

(* a nil argument never makes a built-in function panic; where the arm alone would *)
Lemma run_call_nil_never_panics m args :
  is_builtin_function m = true -> existsb is_nil (tl args) = true -> run_call m args <> Panic.
Proof. intros Hm Hn. rewrite (run_call_nil_is_error m args Hm Hn). discriminate. Qed.

(* the witnesses of the hunt: `"hello".substring(nil, 3)`, `"10".parse_int_radix(nil)`, `2.pow(nil)` *)
Example nil_argument_arm_alone_panics :
  run_impl MSubstring [VStr [104; 105]%N; VNil; VInt 3] = Panic /\
  run_impl MParseIntRadix [VStr [49; 48]%N; VNil] = Panic /\
  run_impl MPow [VInt 2; VNil] = Panic.
Proof. repeat split; reflexivity. Qed.

Example nil_argument_is_an_error :
  run_call MSubstring [VStr [104; 105]%N; VNil; VInt 3] = Err /\
  run_call MParseIntRadix [VStr [49; 48]%N; VNil] = Err /\
  run_call MPow [VInt 2; VNil] = Err /\
  run_call MSubstring [VStr [104; 105]%N; VInt 0; VInt 1] = run_impl MSubstring [VStr [104; 105]%N; VInt 0; VInt 1].
Proof. repeat split; reflexivity. Qed.
