(* C14, assembled: every call of a built-in (through the dispatcher) meets the specification; the result has
   the declared kind and the machine range of that kind; the defects of the pinned HEAD, as witnesses. *)
From MS Require Import Base.Str Builtins.Val Builtins.Utf8 Builtins.Numeral Builtins.StrImpl Builtins.StrSpec
  Builtins.NumBuiltins Builtins.ParseFloat Builtins.Dispatch Builtins.StrProofs Builtins.ParseProofs Builtins.NumProofs.
From Coq Require Import Lia.
From Flocq Require Import IEEE754.BinarySingleNaN.
Open Scope Z_scope.

(* arguments as the interpreter can hold them: numbers in the range of their kind, strings of at most
   isize::MAX bytes *)
Definition wf_arg (v : val) : Prop :=
  wf_val v = true /\ match v with VStr s => fits s | _ => True end.

(* KNOWN FINDING (known_findings.json, class to_ascii/byte/continues-outside-domain) *)
Definition known_class (m : meth) (args : list val) : Prop :=
  m = MToAscii /\ exists b, args = [VByte b] /\ 128 <= b.

(* float.pow(int) is f64::powi: modelled bit for bit (and compared with the code on every run), but the
   specification fixes its value only where x^n is exactly a double, and THAT agreement is not proved;
   powf calls libm's pow: the model only fixes the arguments of that call.  Both are excluded below and
   covered by the correspondence check alone. *)
Definition float_pow (m : meth) (args : list val) : Prop :=
  (m = MPow /\ exists f n, args = [VFloat f; VInt n]) \/ m = MPowf.

Lemma parse_float_meets s : meets (impl_parse_float s) (spec_parse_float s).
Proof. unfold impl_parse_float, spec_parse_float. destruct (parse_float s); reflexivity. Qed.

Ltac split_hyps :=
  repeat match goal with
         | H : Forall _ (_ :: _) |- _ => inversion H; clear H; subst
         | H : Forall _ [] |- _ => clear H
         | H : wf_arg _ |- _ => destruct H
         end.

Theorem methods_meet_spec_partial : forall m args,
  Forall wf_arg args -> ~ known_class m args -> ~ float_pow m args ->
  meets (run_impl m args) (run_spec m args).
Proof.
  intros m args W NK NF.
  destruct m;
    destruct args as [|a [|b [|c [|d r]]]]; try exact I;
    split_hyps.
  all: try (destruct a; try exact I).
  all: try (destruct b; try exact I).
  all: try (destruct c; try exact I).
  all: cbn [run_impl run_spec wf_val] in *.
  all: try solve
    [ apply len_meets | apply index_int_meets; assumption | apply index_big_meets; assumption
    | apply substring_meets | apply contains_meets | apply index_of_meets | apply reverse_meets
    | apply insert_meets | apply replace_meets | apply delete_meets | apply split_meets | apply chars_meets
    | apply parse_int_meets | apply parse_int_radix_meets | apply parse_bigint_meets | apply parse_bigint_radix_meets
    | apply parse_float_meets | apply parse_bool_meets | apply parse_byte_meets
    | apply repeat_meets | apply concat_meets
    | apply to_int_meets; assumption | apply to_bigint_meets; assumption | apply to_byte_meets; assumption
    | apply to_float_meets | apply abs_meets; assumption
    | apply pow_int_meets; intros; discriminate
    | apply sqrt_meets | apply floor_meets | apply ceil_meets | apply round_meets | apply ipart_meets | apply fpart_meets
    | apply to_str_meets
    | exact I ].
  - exfalso. apply NF. left. split; [reflexivity|]. eauto.
  - exfalso. apply NF. right. reflexivity.
  - exfalso. apply NF. right. reflexivity.
  - exfalso. apply NF. right. reflexivity.
  - exfalso. apply NF. right. reflexivity.
  - destruct (Z_lt_le_dec z 128) as [L|L]; [apply to_ascii_meets; exact L|].
    exfalso. apply NK. split; [reflexivity|]. exists z. auto.
Qed.

(* ------------------------------------------------------------------ result kind = declared signature *)
Definition ty_of (v : val) : option ty :=
  match v with
  | VInt _ => Some TInt | VBig _ => Some TBig | VByte _ => Some TByte | VFloat _ => Some TFloat
  | VBool _ => Some TBool | VStr _ => Some TStr | _ => None
  end.

Lemma chars_ty s : forallb (fun x => has_ty x TStr) (map (fun c : N => VStr [c]) s) = true.
Proof. induction s as [|c t IH]; [reflexivity | exact IH]. Qed.

Ltac kind_crush :=
  repeat match goal with
         | H : Ok _ = Ok _ |- _ => injection H as <-
         | H : Err = Ok _ |- _ => discriminate H
         | H : Panic = Ok _ |- _ => discriminate H
         | H : Outside = Ok _ |- _ => discriminate H
         | H : LibmPow _ _ = Ok _ |- _ => discriminate H
         | H : context [if ?c then _ else _] |- _ => destruct c
         | H : context [match ?x with _ => _ end] |- _ => destruct x
         end.

Theorem result_kind : forall m recv rest v,
  run_impl m (recv :: rest) = Ok v ->
  exists tr t, ty_of recv = Some tr /\ declared m tr = Some t /\ has_ty v t = true.
Proof.
  intros m recv rest v H.
  destruct m; destruct rest as [|b [|c [|d r]]];
    destruct recv; try discriminate H;
    try (destruct b; try discriminate H); try (destruct c; try discriminate H);
    cbn [run_impl] in H;
    (eexists; eexists; split; [reflexivity|]; split; [reflexivity|]).
  all: try solve [ unfold impl_len, impl_index_int, impl_index_big, nth_char, impl_substring, impl_contains, impl_index_of,
                     impl_reverse, impl_insert, impl_replace, impl_delete, impl_split, impl_chars,
                     impl_parse_int, impl_parse_bigint, impl_parse_int_radix, impl_parse_bigint_radix, impl_parse_radix,
                     impl_parse_float, impl_parse_bool, impl_parse_byte, opt_val, impl_repeat, impl_concat,
                     impl_to_int, impl_to_bigint, impl_to_byte, impl_to_float, impl_abs, impl_pow, impl_powf, impl_sqrt,
                     impl_floor, impl_ceil, impl_round, impl_ipart, impl_fpart, impl_to_str, impl_to_ascii in H;
                   kind_crush; try reflexivity; apply chars_ty ].
Qed.

(* ------------------------------------------------------------------ ... and lies in the range of that kind *)
Lemma from_str_radix_range signed lo hi r s z : from_str_radix signed lo hi r s = Some z -> lo <= z <= hi.
Proof.
  rewrite from_str_radix_spec. unfold spec_numeral. destruct (split_sign signed s) as [neg ds].
  destruct ds; [discriminate|]. destruct (digits_val r _ 0); [|discriminate].
  destruct ((lo <=? _) && (_ <=? hi)) eqn:R; [|discriminate]. intros H. injection H as <-.
  apply andb_true_iff in R as [R1 R2]. apply Z.leb_le in R1, R2. lia.
Qed.

Lemma parsed_range mk signed lo hi r s v :
  (forall z, lo <= z <= hi -> wf_val (mk z) = true) ->
  opt_val mk (from_str_radix signed lo hi r s) = Ok v -> wf_val v = true.
Proof.
  intros HW. destruct (from_str_radix signed lo hi r s) as [z|] eqn:E; cbn; intros H; injection H as <-; [|reflexivity].
  apply HW. exact (from_str_radix_range _ _ _ _ _ _ E).
Qed.

Lemma wf_int_range z : i32_min <= z <= i32_max -> wf_val (VInt z) = true.
Proof. unfold i32_min, i32_max. intros H. apply in_i32_iff. lia. Qed.
Lemma wf_big_range z : i128_min <= z <= i128_max -> wf_val (VBig z) = true.
Proof. unfold i128_min, i128_max. intros H. apply in_i128_iff. lia. Qed.
Lemma wf_byte_range z : 0 <= z <= 255 -> wf_val (VByte z) = true.
Proof. intros H. apply in_u8_iff. lia. Qed.

Lemma checked_pow_range inr z n r : checked_pow inr z n = Some r -> inr r = true.
Proof. unfold checked_pow. destruct (pow_guarded z n); [|discriminate]. destruct (inr z0) eqn:E; [|discriminate]. intros H. injection H as <-. exact E. Qed.

Lemma chars_wf s : forallb wf_val (map (fun c : N => VStr [c]) s) = true.
Proof. induction s as [|c t IH]; [reflexivity | exact IH]. Qed.

Ltac range_crush :=
  repeat match goal with
         | H : Ok _ = Ok _ |- _ => injection H as <-
         | H : Err = Ok _ |- _ => discriminate H
         | H : Panic = Ok _ |- _ => discriminate H
         | H : Outside = Ok _ |- _ => discriminate H
         | H : LibmPow _ _ = Ok _ |- _ => discriminate H
         | H : context [if ?c then _ else _] |- _ => destruct c eqn:?
         | H : context [match ?x with _ => _ end] |- _ => destruct x eqn:?
         end.

Theorem result_in_range : forall m args v,
  Forall (fun a => wf_val a = true) args -> run_impl m args = Ok v -> wf_val v = true.
Proof.
  intros m args v W H.
  destruct m; destruct args as [|a [|b [|c [|d r]]]]; try discriminate H;
    destruct a; try discriminate H;
    try (destruct b; try discriminate H); try (destruct c; try discriminate H);
    cbn [run_impl] in H;
    repeat match goal with
           | H : Forall _ (_ :: _) |- _ => inversion H; clear H; subst
           | H : Forall _ [] |- _ => clear H
           end;
    cbn [wf_val] in *.
  all: try solve [ unfold impl_len, impl_index_int, impl_index_big, nth_char, impl_substring, impl_contains, impl_index_of,
                     impl_reverse, impl_insert, impl_replace, impl_delete, impl_split, impl_chars,
                     impl_parse_float, impl_parse_bool, impl_repeat, impl_concat,
                     impl_to_int, impl_to_bigint, impl_to_byte, impl_to_float, impl_powf, impl_sqrt,
                     impl_floor, impl_ceil, impl_round, impl_ipart, impl_fpart, impl_to_str, impl_to_ascii in H;
                   range_crush; cbn [wf_val forallb andb]; try reflexivity; try assumption;
                   try (apply i32_in_i128; assumption); try (apply u8_in_i32; assumption); try (apply u8_in_i128; assumption);
                   apply chars_wf ].
  all: try solve [ unfold impl_parse_int, impl_parse_bigint, impl_parse_int_radix, impl_parse_bigint_radix, impl_parse_radix, impl_parse_byte in H;
                   range_crush;
                   first [ exact (parsed_range _ _ _ _ _ _ _ wf_int_range H)
                         | exact (parsed_range _ _ _ _ _ _ _ wf_big_range H)
                         | exact (parsed_range _ _ _ _ _ _ _ wf_byte_range H) ] ].
  all: try solve [ unfold impl_abs in H; range_crush; cbn [wf_val];
                   repeat match goal with
                          | E : (_ =? _) = false |- _ => apply Z.eqb_neq in E
                          | W : in_i32 _ = true |- _ => apply in_i32_iff in W
                          | W : in_i128 _ = true |- _ => apply in_i128_iff in W
                          end;
                   unfold i32_min, i128_min in *; first [apply in_i32_iff | apply in_i128_iff | assumption | reflexivity]; lia ].
  all: try solve [ unfold impl_pow in H; range_crush; cbn [wf_val]; try reflexivity; eapply checked_pow_range; eassumption ].
Qed.

(* ------------------------------------------------------------------ the pinned HEAD (before the fix: patches)
   run_impl_head is the model of the arms as they were; each lemma is a witness that the arm violated the
   specification (every witness was reproduced on the real binary; fixes/c14-*.diff repair them). *)
Definition float_bits (o : outcome) : option Z :=
  match o with Ok (VFloat f) => Some (to_bits f) | _ => None end.
Definition spec_bits (o : sres) : option Z :=
  match o with SVal (VFloat f) => Some (to_bits f) | _ => None end.

(* 1e300.to_bigint() = i64::MAX *)
Lemma head_to_bigint_refuted :
  let x := VFloat (of_bits 9094988921128908188) in
  run_impl_head MToBigint [x] = Ok (VBig 9223372036854775807) /\ run_spec MToBigint [x] = SFail.
Proof. vm_compute. split; reflexivity. Qed.

(* NaN.to_int() = 0, NaN.to_byte() = 0 *)
Lemma head_to_int_nan_refuted :
  let x := VFloat (of_bits 9221120237041090560) in
  run_impl_head MToInt [x] = Ok (VInt 0) /\ run_spec MToInt [x] = SFail /\
  run_impl_head MToByte [x] = Ok (VByte 0) /\ run_spec MToByte [x] = SFail.
Proof. vm_compute. repeat split; reflexivity. Qed.

(* B4294967297.sqrt() = 1.0 (the low 32 bits are 1); demanded: 65536.0000076... *)
Lemma head_sqrt_bigint_refuted :
  float_bits (run_impl_head MSqrt [VBig 4294967297]) = Some 4607182418800017408 /\
  spec_bits (run_spec MSqrt [VBig 4294967297]) = Some 4679240012838469632.
Proof. vm_compute. split; reflexivity. Qed.

(* B4294967298.powf(y) calls pow(2.0, y) *)
Lemma head_powf_bigint_refuted :
  match run_impl_head MPowf [VBig 4294967298; VFloat fone], run_impl MPowf [VBig 4294967298; VFloat fone] with
  | LibmPow x _, LibmPow x' _ => to_bits x = 4611686018427387904 /\ to_bits x' = 4751297606877970432
  | _, _ => False
  end.
Proof. vm_compute. split; reflexivity. Qed.

(* 70000.pow(2) panics (wraps in a release build); 4900000000 is a bigint *)
Lemma head_pow_int_refuted :
  run_impl_head MPow [VInt 70000; VInt 2] = Panic /\ run_spec MPow [VInt 70000; VInt 2] = SVal (VBig 4900000000).
Proof. vm_compute. split; reflexivity. Qed.

(* "abc"[B18446744073709551616] = "a" *)
Lemma head_index_bigint_refuted :
  run_impl_head MIndex [VStr [97; 98; 99]%N; VBig 18446744073709551616] = Ok (VStr [97%N]) /\
  run_spec MIndex [VStr [97; 98; 99]%N; VBig 18446744073709551616] = SFail.
Proof. vm_compute. split; reflexivity. Qed.

(* "0x10".parse_int() = 10 *)
Lemma head_parse_int_0x_refuted :
  run_impl_head MParseInt [VStr [48; 120; 49; 48]%N] = Ok (VInt 10) /\
  run_spec MParseInt [VStr [48; 120; 49; 48]%N] = SVal (VInt 16).
Proof. vm_compute. split; reflexivity. Qed.

(* "0x10".parse_int_radix(10) is not a decimal numeral; "0xz".parse_bigint_radix(36) is 0*36^2 + 33*36 + 35 *)
Lemma head_parse_radix_0x_refuted :
  run_impl_head MParseIntRadix [VStr [48; 120; 49; 48]%N; VInt 10] = Ok (VInt 10) /\
  run_spec MParseIntRadix [VStr [48; 120; 49; 48]%N; VInt 10] = SVal VNil /\
  run_impl MParseIntRadix [VStr [48; 120; 49; 48]%N; VInt 10] = Ok VNil /\
  run_impl_head MParseBigintRadix [VStr [48; 120; 122]%N; VInt 36] = Ok (VBig 35) /\
  run_spec MParseBigintRadix [VStr [48; 120; 122]%N; VInt 36] = SVal (VBig 1223) /\
  run_impl MParseBigintRadix [VStr [48; 120; 122]%N; VInt 36] = Ok (VBig 1223) /\
  run_impl MParseIntRadix [VStr [48; 120; 49; 48]%N; VInt 16] = Ok (VInt 16).
Proof. repeat split; vm_compute; reflexivity. Qed.

(* "abc".delete(0, 3) panics *)
Lemma head_delete_all_refuted :
  run_impl_head MDelete [VStr [97; 98; 99]%N; VInt 0; VInt 3] = Panic /\
  run_spec MDelete [VStr [97; 98; 99]%N; VInt 0; VInt 3] = SVal (VStr []).
Proof. vm_compute. split; reflexivity. Qed.

(* B2147483648.to_float() is an error *)
Lemma head_to_float_bigint_refuted :
  run_impl_head MToFloat [VBig 2147483648] = Err /\ spec_bits (run_spec MToFloat [VBig 2147483648]) = Some 4746794007248502784.
Proof. vm_compute. split; reflexivity. Qed.

(* the repaired arms agree with the specification on the same witnesses (instances of methods_meet_spec_partial) *)
Lemma repaired_on_witnesses :
  run_impl MToBigint [VFloat (of_bits 9094988921128908188)] = Err /\
  run_impl MToInt [VFloat (of_bits 9221120237041090560)] = Err /\
  run_impl MPow [VInt 70000; VInt 2] = Ok (VBig 4900000000) /\
  run_impl MIndex [VStr [97; 98; 99]%N; VBig 18446744073709551616] = Err /\
  run_impl MParseInt [VStr [48; 120; 49; 48]%N] = Ok (VInt 16) /\
  run_impl MDelete [VStr [97; 98; 99]%N; VInt 0; VInt 3] = Ok (VStr []).
Proof. vm_compute. repeat split; reflexivity. Qed.
