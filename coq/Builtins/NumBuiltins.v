(* Number built-ins: impl-model (BuiltInFunction::run arms Generic.., Float.., ByteToAscii) and specification.
   Integers are exact (Z with explicit ranges); floats are IEEE-754 binary64 through Flocq:
     sqrt = Bsqrt mode_NE; floor/ceil/round/ipart = Bnearbyint in mode DN/UP/NA/ZR; fpart = x - trunc x;
     integer -> float = binary_normalize mode_NE (exact below 2^53);
     float.pow(int) = f64::powi = compiler-rt's __powidf2 (square-and-multiply, every product rounded);
     powf calls libm `pow`: the impl-model only says WHICH arguments reach libm (LibmPow x y);
     the text of a float (to_str, `+`) is Rust's float printing: Outside.
   *_head = the arm as it was before the fix: commits a7759b5..1441424 (fixes/c14-*.diff) repaired it. *)
From MS Require Import Base.Str Builtins.Val Builtins.Numeral.
From Flocq Require Import IEEE754.BinarySingleNaN.
Open Scope Z_scope.

(* ------------------------------------------------------------------ casts *)
Definition wrap_i32 (z : Z) : Z := (z + 2147483648) mod 4294967296 - 2147483648.   (* `as i32` *)
Definition i64_min : Z := -9223372036854775808.
Definition i64_max : Z := 9223372036854775807.
(* Rust `f as i64`: NaN -> 0, saturating otherwise *)
Definition sat_i64 (f : f64) : Z :=
  match f with
  | B754_nan => 0
  | B754_infinity s => if s then i64_min else i64_max
  | _ => Z.max i64_min (Z.min i64_max (ftrunc_z f))
  end.
(* the integer part of a finite float; None for NaN and the infinities *)
Definition trunc_finite (f : f64) : option Z :=
  match f with
  | B754_nan | B754_infinity _ => None
  | _ => Some (ftrunc_z f)
  end.

(* ------------------------------------------------------------------ conversions *)
Definition impl_to_int_head (x : val) : outcome :=
  match x with
  | VInt z => Ok (VInt z)
  | VBig z => if in_i32 z then Ok (VInt z) else Err
  | VByte z => Ok (VInt z)
  | VFloat f => let z := sat_i64 f in if in_i32 z then Ok (VInt z) else Err
  | _ => Panic
  end.
(* repaired: NaN and values whose integer part is outside i32 are errors *)
Definition impl_to_int (x : val) : outcome :=
  match x with
  | VInt z => Ok (VInt z)
  | VBig z => if in_i32 z then Ok (VInt z) else Err
  | VByte z => Ok (VInt z)
  | VFloat f => match trunc_finite f with
                | Some z => if in_i32 z then Ok (VInt z) else Err
                | None => Err
                end
  | _ => Panic
  end.

Definition impl_to_bigint_head (x : val) : outcome :=
  match x with
  | VInt z | VBig z | VByte z => Ok (VBig z)
  | VFloat f => Ok (VBig (sat_i64 f))
  | _ => Panic
  end.
Definition impl_to_bigint (x : val) : outcome :=
  match x with
  | VInt z | VBig z | VByte z => Ok (VBig z)
  | VFloat f => match trunc_finite f with
                | Some z => if in_i128 z then Ok (VBig z) else Err
                | None => Err
                end
  | _ => Panic
  end.

Definition impl_to_byte_head (x : val) : outcome :=
  match x with
  | VInt z | VBig z => if in_u8 z then Ok (VByte z) else Err
  | VByte z => Ok (VByte z)
  | VFloat f => let z := sat_i64 f in if in_u8 z then Ok (VByte z) else Err
  | _ => Panic
  end.
Definition impl_to_byte (x : val) : outcome :=
  match x with
  | VInt z | VBig z => if in_u8 z then Ok (VByte z) else Err
  | VByte z => Ok (VByte z)
  | VFloat f => match trunc_finite f with
                | Some z => if in_u8 z then Ok (VByte z) else Err
                | None => Err
                end
  | _ => Panic
  end.

(* HEAD: BigInt goes through i32::try_from *)
Definition impl_to_float_head (x : val) : outcome :=
  match x with
  | VInt z | VByte z => Ok (VFloat (of_Z z))
  | VBig z => if in_i32 z then Ok (VFloat (of_Z z)) else Err
  | VFloat f => Ok (VFloat f)
  | _ => Panic
  end.
(* repaired: `as f64` (nearest double) *)
Definition impl_to_float (x : val) : outcome :=
  match x with
  | VInt z | VByte z | VBig z => Ok (VFloat (of_Z z))
  | VFloat f => Ok (VFloat f)
  | _ => Panic
  end.

(* ------------------------------------------------------------------ abs *)
(* HEAD: i32::abs / i128::abs overflow at MIN: panic in a debug build (MIN itself in a release build) *)
Definition impl_abs_head (x : val) : outcome :=
  match x with
  | VInt z => if z =? i32_min then Panic else Ok (VInt (Z.abs z))
  | VBig z => if z =? i128_min then Panic else Ok (VBig (Z.abs z))
  | VByte z => Ok (VByte z)
  | VFloat f => Ok (VFloat (fabs f))
  | _ => Panic
  end.
(* repaired: checked_abs, error at MIN *)
Definition impl_abs (x : val) : outcome :=
  match x with
  | VInt z => if z =? i32_min then Err else Ok (VInt (Z.abs z))
  | VBig z => if z =? i128_min then Err else Ok (VBig (Z.abs z))
  | VByte z => Ok (VByte z)
  | VFloat f => Ok (VFloat (fabs f))
  | _ => Panic
  end.

(* ------------------------------------------------------------------ pow *)
(* z ^ n for 0 <= n without building astronomically large numbers:
   None = |z ^ n| >= 2^128 for sure (|z| >= 2 and n >= 128) *)
Definition pow_guarded (z n : Z) : option Z :=
  if (Z.abs z <=? 1) then Some (if z =? 0 then (if n =? 0 then 1 else 0)
                                 else if z =? 1 then 1
                                 else (if Z.even n then 1 else -1))
  else if 128 <=? n then None else Some (z ^ n).

Definition checked_pow (inr : Z -> bool) (z n : Z) : option Z :=
  match pow_guarded z n with Some r => if inr r then Some r else None | None => None end.

(* f64::powi -> __powidf2(a, b):  r = 1; loop { if b odd { r *= a }  b /= 2;  if b == 0 break;  a *= a }
   result r, or 1/r for negative b *)
Fixpoint powi_loop (fuel : nat) (a r : f64) (b : Z) : f64 :=
  match fuel with
  | O => r
  | S k => let r' := if Z.odd b then fmul r a else r in
           let b' := b / 2 in
           if b' =? 0 then r' else powi_loop k (fmul a a) r' b'
  end.
Definition powi (a : f64) (n : Z) : f64 :=
  let r := powi_loop 33 a fone (Z.abs n) in
  if n <? 0 then fdiv fone r else r.

(* HEAD: the power is taken in the receiver's own width (i32 / u8 / i128), overflow panics (debug build),
   then widened to BigInt *)
Definition impl_pow_head (x : val) (n : Z) : outcome :=
  match x with
  | VFloat f => Ok (VFloat (powi f n))
  | VInt z => if n <? 0 then Err else
              match checked_pow in_i32 z n with Some r => Ok (VBig r) | None => Panic end
  | VBig z => if n <? 0 then Err else
              match checked_pow in_i128 z n with Some r => Ok (VBig r) | None => Panic end
  | VByte z => if n <? 0 then Err else
               match checked_pow in_u8 z n with Some r => Ok (VBig r) | None => Panic end
  | _ => Panic
  end.
(* repaired: widened first, i128::checked_pow, error on overflow *)
Definition impl_pow (x : val) (n : Z) : outcome :=
  match x with
  | VFloat f => Ok (VFloat (powi f n))
  | VInt z | VBig z | VByte z =>
      if n <? 0 then Err else
      match checked_pow in_i128 z n with Some r => Ok (VBig r) | None => Err end
  | _ => Panic
  end.

(* ------------------------------------------------------------------ powf / sqrt *)
Definition impl_powf_head (x : val) (y : f64) : outcome :=
  match x with
  | VInt z | VByte z => LibmPow (of_Z z) y
  | VBig z => LibmPow (of_Z (wrap_i32 z)) y            (* f64::from of the value cast with `as i32` *)
  | VFloat f => LibmPow f y
  | _ => Panic
  end.
Definition impl_powf (x : val) (y : f64) : outcome :=
  match x with
  | VInt z | VByte z | VBig z => LibmPow (of_Z z) y     (* repaired: cast with `as f64` *)
  | VFloat f => LibmPow f y
  | _ => Panic
  end.

Definition impl_sqrt_head (x : val) : outcome :=
  match x with
  | VInt z | VByte z => Ok (VFloat (fsqrt (of_Z z)))
  | VBig z => Ok (VFloat (fsqrt (of_Z (wrap_i32 z))))
  | VFloat f => Ok (VFloat (fsqrt f))
  | _ => Panic
  end.
Definition impl_sqrt (x : val) : outcome :=
  match x with
  | VInt z | VByte z | VBig z => Ok (VFloat (fsqrt (of_Z z)))
  | VFloat f => Ok (VFloat (fsqrt f))
  | _ => Panic
  end.

(* ------------------------------------------------------------------ float rounding family *)
Definition impl_floor (f : f64) : outcome := Ok (VFloat (fnear mode_DN f)).
Definition impl_ceil (f : f64) : outcome := Ok (VFloat (fnear mode_UP f)).
Definition impl_round (f : f64) : outcome := Ok (VFloat (fnear mode_NA f)).   (* half away from zero *)
Definition impl_ipart (f : f64) : outcome := Ok (VFloat (fnear mode_ZR f)).   (* f64::trunc *)
Definition impl_fpart (f : f64) : outcome := Ok (VFloat (fsub f (fnear mode_ZR f))).   (* self - self.trunc() *)

(* ------------------------------------------------------------------ to_str / to_ascii *)
Definition impl_to_str (x : val) : outcome :=
  match x with
  | VInt z | VBig z => Ok (VStr (dec_of_Z z))
  | VByte z => Ok (VStr (bin_of_byte z))
  | VBool b => Ok (VStr (if b then s_true else s_false))
  | VStr s => Ok (VStr s)
  | VFloat _ => Outside
  | _ => Outside
  end.

(* String::from_utf8_lossy(&[byte]): a byte >= 128 alone is not valid UTF-8 -> U+FFFD *)
Definition impl_to_ascii (b : Z) : outcome :=
  if b <? 128 then Ok (VStr [Z.to_N b]) else Ok (VStr [65533%N]).

(* ================================================================== specification *)

(* conversions: the integer part (toward zero) when it is representable in the target kind,
   failure otherwise (NaN and infinities have no integer part) *)
Definition spec_conv (inr : Z -> bool) (mk : Z -> val) (x : val) : sres :=
  match x with
  | VInt z | VBig z | VByte z => if inr z then SVal (mk z) else SFail
  | VFloat f => match trunc_finite f with
                | Some z => if inr z then SVal (mk z) else SFail
                | None => SFail
                end
  | _ => SUnspec
  end.
Definition spec_to_int := spec_conv in_i32 VInt.
Definition spec_to_bigint := spec_conv in_i128 VBig.
Definition spec_to_byte := spec_conv in_u8 VByte.

(* to_float: the nearest double (every i128 is within range; exact up to 2^53) *)
Definition spec_to_float (x : val) : sres :=
  match x with
  | VInt z | VBig z | VByte z => SVal (VFloat (of_Z z))
  | VFloat f => SVal (VFloat f)
  | _ => SUnspec
  end.

Definition spec_abs (x : val) : sres :=
  match x with
  | VInt z => if in_i32 (Z.abs z) then SVal (VInt (Z.abs z)) else SFail
  | VBig z => if in_i128 (Z.abs z) then SVal (VBig (Z.abs z)) else SFail
  | VByte z => SVal (VByte z)
  | VFloat f => SVal (VFloat (fabs f))
  | _ => SUnspec
  end.

(* ---- exact powers of a float: defined only where x^n is a double *)
Fixpoint odd_part (p : positive) (k : Z) : positive * Z :=
  match p with xO q => odd_part q (k + 1) | _ => (p, k) end.

(* does the float r equal M * 2^E exactly? *)
Definition exactly (r : f64) (M E : Z) : bool :=
  match r with
  | B754_zero _ => M =? 0
  | B754_finite s m e _ =>
      let mn := Z.min e E in
      (if s then - Zpos m else Zpos m) * 2 ^ (e - mn) =? M * 2 ^ (E - mn)
  | _ => false
  end.
Definition norm (M E : Z) : f64 := binary_normalize 53 1024 _ _ mode_NE M E false.

Definition exact_pow (f : f64) (n : Z) : sres :=
  match f with
  | B754_zero s => if n =? 0 then SVal (VFloat fone)
                   else if 0 <? n then SVal (VFloat (B754_zero (s && Z.odd n))) else SUnspec
  | B754_finite s m e _ =>
      if n =? 0 then SVal (VFloat fone) else
      let '(o, k) := odd_part m 0 in
      let sg := if s && Z.odd n then -1 else 1 in
      if (o =? 1)%positive then
        (* a power of two: (+-2^(k+e))^n = +-2^((k+e)n) *)
        let E := (k + e) * n in
        (* for a negative exponent the reciprocal 2^(-E) must be a double as well *)
        if ((if n <? 0 then -1023 else -1074) <=? E) && (E <=? 1023) then SVal (VFloat (norm sg E)) else SUnspec
      else if (0 <? n) && (n <=? 40) then
        let M := sg * Zpos o ^ n in
        let E := (k + e) * n in
        if (-5000 <? E) && (E <? 5000) then
          let r := norm M E in if exactly r M E then SVal (VFloat r) else SUnspec
        else SUnspec
      else SUnspec
  | _ => SUnspec
  end.

(* int-like receivers: z^n as a bigint when 0 <= n and it fits; float receiver: only the exact cases *)
Definition spec_pow (x : val) (n : Z) : sres :=
  match x with
  | VInt z | VBig z | VByte z =>
      if n <? 0 then SFail else
      match checked_pow in_i128 z n with Some r => SVal (VBig r) | None => SFail end
  | VFloat f => exact_pow f n
  | _ => SUnspec
  end.

Definition float_of_num (x : val) : option f64 :=
  match x with
  | VInt z | VBig z | VByte z => if Z.abs z <=? 9007199254740992 then Some (of_Z z) else None
  | VFloat f => Some f
  | _ => None
  end.

(* powf: libm's pow is not specified bit for bit; the demanded value is fixed only where the mathematical
   result is a double: an integral exponent with an exact power, or exponent 1/2 with an exact root *)
Definition spec_powf (x : val) (y : f64) : sres :=
  match float_of_num x with
  | None => SUnspec
  | Some f =>
      match y with
      | B754_finite _ _ _ _ | B754_zero _ =>
          let n := ftrunc_z y in
          if exactly y n 0 then (if Z.abs n <=? 2147483647 then exact_pow f n else SUnspec)
          else if exactly y 1 (-1) then
            let r := fsqrt f in
            match r, f with
            | B754_finite false mr er _, B754_finite false mf ef _ =>
                if exactly f (Zpos mr * Zpos mr) (2 * er) then SVal (VFloat r) else SUnspec
            | _, _ => SUnspec
            end
          else SUnspec
      | _ => SUnspec
      end
  end.

(* sqrt: IEEE-754 correctly rounded square root of the receiver as a double (NaN for negatives) *)
Definition spec_sqrt (x : val) : sres :=
  match x with
  | VInt z | VBig z | VByte z => SVal (VFloat (fsqrt (of_Z z)))
  | VFloat f => SVal (VFloat (fsqrt f))
  | _ => SUnspec
  end.

(* IEEE-754 roundToIntegral in the four directions; Proofs.v relates them to Zfloor/Zceil/ZnearestA/Ztrunc
   of the real value *)
Definition spec_floor (f : f64) : sres := SVal (VFloat (fnear mode_DN f)).
Definition spec_ceil (f : f64) : sres := SVal (VFloat (fnear mode_UP f)).
Definition spec_round (f : f64) : sres := SVal (VFloat (fnear mode_NA f)).
Definition spec_ipart (f : f64) : sres := SVal (VFloat (fnear mode_ZR f)).
Definition spec_fpart (f : f64) : sres := SVal (VFloat (fsub f (fnear mode_ZR f))).

Definition spec_to_str (x : val) : sres :=
  match x with
  | VInt z | VBig z => SVal (VStr (dec_of_Z z))
  | VByte z => SVal (VStr (bin_of_byte z))
  | VBool b => SVal (VStr (if b then s_true else s_false))
  | VStr s => SVal (VStr s)
  | _ => SUnspec
  end.

(* to_ascii: the ASCII character with that code; codes 128..255 are not ASCII *)
Definition spec_to_ascii (b : Z) : sres :=
  if b <? 128 then SVal (VStr [Z.to_N b]) else SFail.
