(* Specification of the string built-ins (property C14).
   For every method: (1) its MEANING as a small relation / equation over abstract strings (lists of
   characters, `blen` = UTF-8 byte length of a prefix), (2) an executable function `spec_*` returning
   SVal v (the call must yield v) or SFail (outside the domain: the program must stop).
   Proofs.v shows spec_* = meaning, and impl = spec_* (value on the domain, failure outside).
   Units (documented by the repository's tests: "hello world".index_of("wo") == 6, MESSAGE.delete(5, 7),
   split(100), split(-1)): len/substring/index_of/insert/delete/split count UTF-8 bytes,
   s[i]/chars/reverse count characters; a byte offset inside a character denotes no position. *)
From MS Require Import Base.Str Builtins.Val Builtins.Utf8 Builtins.Numeral.
Open Scope Z_scope.

(* ------------------------------------------------------------------ meanings *)

(* position b (in bytes) of s: s = a ++ r with a of b bytes *)
Definition AtByte (s : str) (b : Z) (a r : str) : Prop := s = a ++ r /\ Z.of_N (blen a) = b.

(* r is the text between byte positions b and t *)
Definition Substring (s : str) (b t : Z) (r : str) : Prop :=
  exists a c, s = a ++ r ++ c /\ Z.of_N (blen a) = b /\ Z.of_N (blen (a ++ r)) = t.

(* o occurs in s after the prefix a *)
Definition OccursAt (o s a : str) : Prop := exists c, s = a ++ o ++ c.
Definition Occurs (o s : str) : Prop := exists a, OccursAt o s a.
(* ... and nowhere earlier *)
Definition FirstAt (o s a : str) : Prop :=
  OccursAt o s a /\ forall a', OccursAt o s a' -> (length a <= length a')%nat.

Definition Inserted (s new : str) (b : Z) (r : str) : Prop :=
  exists a c, AtByte s b a c /\ r = a ++ new ++ c.

(* the bytes from b to t removed *)
Definition Deleted (s : str) (b t : Z) (r : str) : Prop :=
  exists a m c, s = a ++ m ++ c /\ Z.of_N (blen a) = b /\ Z.of_N (blen (a ++ m)) = t /\ r = a ++ c.

(* leftmost, non-overlapping occurrences of a non-empty pattern replaced *)
Inductive Replaced (pat rep : str) : str -> str -> Prop :=
| Rep_none s : ~ Occurs pat s -> Replaced pat rep s s
| Rep_step a c c' : FirstAt pat (a ++ pat ++ c) a -> Replaced pat rep c c' ->
                    Replaced pat rep (a ++ pat ++ c) (a ++ rep ++ c').

(* digits ds denote n in radix r *)
Inductive Digits (r : N) : str -> N -> Prop :=
| Dig_one c d : to_digit r c = Some d -> Digits r [c] d
| Dig_snoc ds n c d : Digits r ds n -> to_digit r c = Some d -> Digits r (ds ++ [c]) (n * r + d)%N.

(* text s denotes the integer z: optional sign, at least one digit *)
Definition Numeral (signed : bool) (r : N) (s : str) (z : Z) : Prop :=
  exists ds n, Digits r ds n /\
    ((s = ds /\ z = Z.of_N n) \/ (s = 43%N :: ds /\ z = Z.of_N n) \/ (signed = true /\ s = 45%N :: ds /\ z = (- Z.of_N n))).

(* ------------------------------------------------------------------ executable specifications *)

Definition spec_len (s : str) : sres :=
  let n := Z.of_N (blen s) in if in_i32 n then SVal (VInt n) else SFail.

(* s[i]: the i-th character, 0 <= i < number of characters *)
Definition spec_index (s : str) (i : Z) : sres :=
  if (0 <=? i) && (i <? Z.of_nat (length s))
  then match nth_error s (Z.to_nat i) with Some c => SVal (VStr [c]) | None => SFail end
  else SFail.

Definition spec_substring (s : str) (b t : Z) : sres :=
  if (0 <=? b) && (b <=? t) then
    match cut s (Z.to_N b), cut s (Z.to_N t) with
    | Some (a, _), Some (a', _) => SVal (VStr (skipn (length a) a'))
    | _, _ => SFail
    end
  else SFail.

(* all character positions 0..length s, tried in order *)
Fixpoint first_pos (o s : str) (k : nat) (fuel : nat) : option nat :=
  match fuel with
  | O => None
  | S f => if str_eqb (firstn (length o) (skipn k s)) o then Some k else first_pos o s (S k) f
  end.
Definition spec_find (o s : str) : option nat := first_pos o s 0 (S (length s)).

Definition spec_contains (s o : str) : sres :=
  SVal (VBool (match spec_find o s with Some _ => true | None => false end)).

Definition spec_index_of (s o : str) : sres :=
  match spec_find o s with
  | Some k => let n := Z.of_N (blen (firstn k s)) in if in_i32 n then SVal (VInt n) else SFail
  | None => SVal VNil
  end.

Definition spec_reverse (s : str) : sres := SVal (VStr (rev s)).

Definition spec_insert (s new : str) (b : Z) : sres :=
  if 0 <=? b then
    match cut s (Z.to_N b) with Some (a, c) => SVal (VStr (a ++ new ++ c)) | None => SFail end
  else SFail.

Definition spec_delete (s : str) (b t : Z) : sres :=
  if (0 <=? b) && (b <=? t) then
    match cut s (Z.to_N b), cut s (Z.to_N t) with
    | Some (a, _), Some (_, c) => SVal (VStr (a ++ c))
    | _, _ => SFail
    end
  else SFail.

(* character-by-character scan: at a match emit the replacement and skip the pattern *)
Fixpoint spec_repl (pat rep s : str) (skip : nat) : str :=
  match s with
  | [] => []
  | c :: t =>
      match skip with
      | S k => spec_repl pat rep t k
      | O => if str_eqb (firstn (length pat) s) pat
             then rep ++ spec_repl pat rep t (length pat - 1)
             else c :: spec_repl pat rep t 0
      end
  end.
Definition spec_replace (s pat rep : str) : sres :=
  match pat with
  | [] => SVal (VStr (rep ++ flat_map (fun c => c :: rep) s))   (* matches at every boundary *)
  | _ => SVal (VStr (spec_repl pat rep s 0))
  end.

(* split(mid): the two halves at byte mid when 0 <= mid < len; [s, ""] when mid is negative or >= len
   (tests: "goodwill".split(100), split(-1)); a position inside a character: failure *)
Definition spec_split (s : str) (mid : Z) : sres :=
  if mid <? 0 then SVal (VVec [VStr s; VStr []]) else
  if negb (in_i32 (Z.of_N (blen s))) then SFail else
  if Z.of_N (blen s) <=? mid then SVal (VVec [VStr s; VStr []]) else
  match cut s (Z.to_N mid) with Some (a, r) => SVal (VVec [VStr a; VStr r]) | None => SFail end.

Definition spec_chars (s : str) : sres := SVal (VVec (map (fun c => VStr [c]) s)).

(* integer text: sign? digit+ ; value in the range of the kind, otherwise nil *)
Definition spec_numeral (signed : bool) (lo hi : Z) (r : N) (s : str) : option Z :=
  let '(neg, ds) := split_sign signed s in
  match ds with
  | [] => None
  | _ => match digits_val r ds 0 with
         | Some n => let z := if neg then - Z.of_N n else Z.of_N n in
                     if (lo <=? z) && (z <=? hi) then Some z else None
         | None => None
         end
  end.
Definition sopt (mk : Z -> val) (o : option Z) : sres :=
  match o with Some z => SVal (mk z) | None => SVal VNil end.

(* parse_int / parse_bigint: decimal; a leading 0x means hexadecimal (the language's own literal syntax).
   The prefix announces DIGITS: a sign after it ("0x-1F") makes the text no number at all (prefix_0x) *)
Definition spec_parse_int (s : str) : sres :=
  match prefix_0x s with
  | Some t => sopt VInt (spec_numeral true i32_min i32_max 16 t)
  | None => sopt VInt (spec_numeral true i32_min i32_max 10 s)
  end.
Definition spec_parse_bigint (s : str) : sres :=
  match prefix_0x s with
  | Some t => sopt VBig (spec_numeral true i128_min i128_max 16 t)
  | None => sopt VBig (spec_numeral true i128_min i128_max 10 s)
  end.
(* parse_*_radix: the caller states the radix (2..36, anything else: failure) and the text is read in THAT radix:
   nil when it is not a numeral of the radix.  A 0x prefix announces hexadecimal digits, so it is skipped for
   radix 16 (as parse_int does) and only there: in radix 34 and up `0` and `x` are digits like any other
   ("0xz" in radix 36 is 1223), below that a text with an `x` in it is not a numeral ("0x10" in radix 10: nil) *)
Definition spec_parse_radix (mk : Z -> val) (lo hi : Z) (s : str) (radix : Z) : sres :=
  if (2 <=? radix) && (radix <=? 36) then
    sopt mk (spec_numeral true lo hi (Z.to_N radix)
               (match prefix_0x s with Some t => if radix =? 16 then t else s | None => s end))
  else SFail.
Definition spec_parse_int_radix := spec_parse_radix VInt i32_min i32_max.
Definition spec_parse_bigint_radix := spec_parse_radix VBig i128_min i128_max.

Definition spec_parse_bool (s : str) : sres :=
  if str_eqb s s_true then SVal (VBool true)
  else if str_eqb s s_false then SVal (VBool false) else SVal VNil.

(* parse_byte: 0b + binary digits, or decimal; 0..255 *)
Definition spec_parse_byte (s : str) : sres :=
  match prefix_0b s with
  | Some t => sopt VByte (spec_numeral false 0 255 2 t)
  | None => sopt VByte (spec_numeral false 0 255 10 s)
  end.

(* s * n : n copies; a negative count has no meaning, a count above usize::MAX is not representable *)
Definition spec_repeat (s : str) (n : Z) : sres :=
  if negb (in_usize n) then SFail else
  match s with
  | [] => SVal (VStr [])
  | _ => if isize_max <? Z.of_N (blen s) * n then SFail (* not representable *)
         else SVal (VStr (concat (repeat s (Z.to_nat n))))
  end.

(* x + y with a string operand: the texts joined; numbers in decimal, bytes as 0b.., bools as true/false;
   the text of a float is not specified here (Rust's float printing is outside the model) *)
Definition spec_text (v : val) : option str :=
  match v with
  | VStr s => Some s
  | VInt z | VBig z => Some (dec_of_Z z)
  | VByte z => Some (bin_of_byte z)
  | VBool b => Some (if b then s_true else s_false)
  | _ => None
  end.
Definition spec_concat (x y : val) : sres :=
  match x, y with
  | VStr _, _ | _, VStr _ =>
      match spec_text x, spec_text y with Some a, Some b => SVal (VStr (a ++ b)) | _, _ => SUnspec end
  | _, _ => SFail
  end.
