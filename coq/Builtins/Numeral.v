(* Integer text <-> value: Rust's `from_str_radix` / `str::parse::<iN>` and `Display`/`{:b}` of integers. *)
From MS Require Import Base.Str Builtins.Val.
From Coq Require Import Lia.
Open Scope N_scope.

(* char::to_digit(radix) *)
Definition to_digit (radix c : N) : option N :=
  let d := if (48 <=? c) && (c <=? 57) then Some (c - 48)
           else if (97 <=? c) && (c <=? 122) then Some (c - 87)
           else if (65 <=? c) && (c <=? 90) then Some (c - 55)
           else None in
  match d with Some d => if d <? radix then Some d else None | None => None end.

Fixpoint digits_val (radix : N) (s : str) (acc : N) : option N :=
  match s with
  | [] => Some acc
  | c :: t => match to_digit radix c with
              | Some d => digits_val radix t (acc * radix + d)
              | None => None
              end
  end.

(* core::num::from_str_radix for a type with range lo..hi; `signed` = the type accepts a leading '-'.
   The radix is assumed to be in 2..=36 (the caller models the assertion).
   Rust accumulates with checked arithmetic; the digits' magnitude only grows, so "some step overflows"
   is "the final value is out of range", which is what is tested here. *)
Definition split_sign (signed : bool) (s : str) : bool * str :=
  match s with
  | [] => (false, [])
  | c :: t => if c =? 43 then (false, t)                      (* '+' *)
              else if (c =? 45) && signed then (true, t)      (* '-' *)
              else (false, s)
  end.

Definition from_str_radix (signed : bool) (lo hi : Z) (radix : N) (s : str) : option Z :=
  match s with
  | [] => None
  | _ =>
      let '(neg, ds) := split_sign signed s in
      match ds with
      | [] => None
      | _ => match digits_val radix ds 0 with
             | None => None
             | Some n => let z := if neg then (- Z.of_N n)%Z else Z.of_N n in
                         if ((lo <=? z) && (z <=? hi))%Z then Some z else None
             end
      end
  end.

(* `s.starts_with("0x")` / `("0b")`, and the rest *)
Definition strip_0x (s : str) : option str :=
  match s with c :: d :: t => if (c =? 48) && (d =? 120) then Some t else None | _ => None end.
Definition strip_0b (s : str) : option str :=
  match s with c :: d :: t => if (c =? 48) && (d =? 98) then Some t else None | _ => None end.

(* A sign stands before a number, never between the prefix and the digits (`from_str_radix` would read one):
   `s.strip_prefix("0x").filter(|digits| !is_signed(digits))` - "0x-1F" keeps its prefix and is then no numeral *)
Definition is_signed (s : str) : bool :=
  match s with c :: _ => (c =? 43) || (c =? 45) | [] => false end.
Definition unsigned_rest (o : option str) : option str :=
  match o with Some t => if is_signed t then None else Some t | None => None end.
Definition prefix_0x (s : str) : option str := unsigned_rest (strip_0x s).
Definition prefix_0b (s : str) : option str := unsigned_rest (strip_0b s).

Definition i32_min : Z := (-2147483648)%Z.
Definition i32_max : Z := 2147483647%Z.
Definition i128_min : Z := (-170141183460469231731687303715884105728)%Z.
Definition i128_max : Z := 170141183460469231731687303715884105727%Z.

(* digits of n in radix r (2 <= r <= 10), most significant first; "0" for 0 *)
Fixpoint render_fuel (fuel : nat) (r n : N) (acc : str) : str :=
  match fuel with
  | O => acc
  | S f => let acc' := (48 + n mod r) :: acc in
           if n / r =? 0 then acc' else render_fuel f r (n / r) acc'
  end.

Definition render (r n : N) : str := render_fuel (S (N.to_nat (N.log2 n))) r n [].

(* Display of i32 / i128 *)
Definition dec_of_Z (z : Z) : str :=
  if (z <? 0)%Z then 45 :: render 10 (Z.to_N (- z)) else render 10 (Z.to_N z).

(* Primitive::Byte displays as 0b{:b} *)
Definition bin_of_byte (z : Z) : str := 48 :: 98 :: render 2 (Z.to_N z).

Definition s_true : str := [116; 114; 117; 101].
Definition s_false : str := [102; 97; 108; 115; 101].
