(* Integer text: parse_* against the notion "the text denotes z", and the round trips with to_str. *)
From MS Require Import Base.Str Builtins.Val Builtins.Utf8 Builtins.Numeral Builtins.StrImpl Builtins.StrSpec
  Builtins.StrProofs.
From Coq Require Import Lia.
Open Scope Z_scope.

(* ------------------------------------------------------------------ impl = spec *)
Lemma from_str_radix_spec signed lo hi r s : from_str_radix signed lo hi r s = spec_numeral signed lo hi r s.
Proof. unfold from_str_radix, spec_numeral. destruct s; reflexivity. Qed.

Lemma opt_meets mk o : meets (opt_val mk o) (sopt mk o).
Proof. destruct o; reflexivity. Qed.

Theorem parse_int_meets s : meets (impl_parse_int s) (spec_parse_int s).
Proof. unfold impl_parse_int, spec_parse_int. destruct (prefix_0x s); rewrite from_str_radix_spec; apply opt_meets. Qed.

Theorem parse_bigint_meets s : meets (impl_parse_bigint s) (spec_parse_bigint s).
Proof. unfold impl_parse_bigint, spec_parse_bigint. destruct (prefix_0x s); rewrite from_str_radix_spec; apply opt_meets. Qed.

Theorem parse_radix_meets mk lo hi s r : meets (impl_parse_radix mk lo hi s r) (spec_parse_radix mk lo hi s r).
Proof.
  unfold impl_parse_radix, spec_parse_radix.
  destruct (r <? 0) eqn:N.
  { apply Z.ltb_lt in N. replace (2 <=? r) with false by (symmetry; apply Z.leb_gt; lia). cbn. auto. }
  destruct (r <? 2) eqn:A.
  { apply Z.ltb_lt in A. replace (2 <=? r) with false by (symmetry; apply Z.leb_gt; lia). cbn. auto. }
  apply Z.ltb_ge in A. replace (2 <=? r) with true by (symmetry; apply Z.leb_le; lia).
  destruct (36 <? r) eqn:B.
  { apply Z.ltb_lt in B. replace (r <=? 36) with false by (symmetry; apply Z.leb_gt; lia). cbn. auto. }
  apply Z.ltb_ge in B. replace (r <=? 36) with true by (symmetry; apply Z.leb_le; lia).
  cbn [orb andb]. rewrite from_str_radix_spec. apply opt_meets.
Qed.

(* the arm as it was (prefix dropped whatever the radix, a sign read after it) agrees with the specification
   whenever the text has no 0x prefix, or the radix is 16 and no sign follows the prefix *)
Theorem parse_radix_head_meets mk lo hi s r : (strip_0x s = None \/ (r = 16 /\ prefix_0x s = strip_0x s)) ->
  meets (impl_parse_radix_head mk lo hi s r) (spec_parse_radix mk lo hi s r).
Proof.
  intros H. unfold impl_parse_radix_head, spec_parse_radix.
  destruct (r <? 0) eqn:N.
  { apply Z.ltb_lt in N. replace (2 <=? r) with false by (symmetry; apply Z.leb_gt; lia). cbn. auto. }
  destruct (r <? 2) eqn:A.
  { apply Z.ltb_lt in A. replace (2 <=? r) with false by (symmetry; apply Z.leb_gt; lia). cbn. auto. }
  apply Z.ltb_ge in A. replace (2 <=? r) with true by (symmetry; apply Z.leb_le; lia).
  destruct (36 <? r) eqn:B.
  { apply Z.ltb_lt in B. replace (r <=? 36) with false by (symmetry; apply Z.leb_gt; lia). cbn. auto. }
  apply Z.ltb_ge in B. replace (r <=? 36) with true by (symmetry; apply Z.leb_le; lia).
  cbn [orb andb]. rewrite from_str_radix_spec.
  destruct H as [H | [-> H]]; [unfold prefix_0x; rewrite H | rewrite H; destruct (strip_0x s)]; apply opt_meets.
Qed.

Theorem parse_int_radix_meets s r : meets (impl_parse_int_radix s r) (spec_parse_int_radix s r).
Proof. apply parse_radix_meets. Qed.
Theorem parse_bigint_radix_meets s r : meets (impl_parse_bigint_radix s r) (spec_parse_bigint_radix s r).
Proof. apply parse_radix_meets. Qed.

Theorem parse_bool_meets s : meets (impl_parse_bool s) (spec_parse_bool s).
Proof. unfold impl_parse_bool, spec_parse_bool. destruct (str_eqb s s_true); [reflexivity|]. destruct (str_eqb s s_false); reflexivity. Qed.

Theorem parse_bool_meaning s b : spec_parse_bool s = SVal (VBool b) <-> s = (if b then s_true else s_false).
Proof.
  unfold spec_parse_bool. destruct (str_eqb s s_true) eqn:T.
  - apply str_eqb_eq in T. subst. destruct b; split; intros H; try reflexivity; try discriminate.
  - destruct (str_eqb s s_false) eqn:F.
    + apply str_eqb_eq in F. subst. destruct b; split; intros H; try reflexivity; try discriminate.
    + split; [discriminate|]. intros ->. destruct b; [rewrite (proj2 (str_eqb_eq _ _) eq_refl) in T | rewrite (proj2 (str_eqb_eq _ _) eq_refl) in F]; discriminate.
Qed.

Theorem parse_byte_meets s : meets (impl_parse_byte s) (spec_parse_byte s).
Proof. unfold impl_parse_byte, spec_parse_byte. destruct (prefix_0b s); rewrite from_str_radix_spec; apply opt_meets. Qed.

(* ------------------------------------------------------------------ digits_val = Digits *)
Lemma digits_val_app r x y a :
  digits_val r (x ++ y) a = match digits_val r x a with Some a' => digits_val r y a' | None => None end.
Proof.
  revert a. induction x as [|c x IH]; intros a; [reflexivity|]. cbn [app digits_val].
  destruct (to_digit r c); [apply IH | reflexivity].
Qed.

Lemma Digits_val r ds n : Digits r ds n -> digits_val r ds 0 = Some n.
Proof.
  induction 1 as [c d H | ds n c d _ IH H].
  - cbn [digits_val]. rewrite H. reflexivity.
  - rewrite digits_val_app, IH. cbn [digits_val]. rewrite H. reflexivity.
Qed.

Lemma Digits_nonempty r ds n : Digits r ds n -> ds <> [].
Proof. induction 1; [discriminate | destruct ds; discriminate]. Qed.

Lemma val_Digits r : forall ds n, ds <> [] -> digits_val r ds 0 = Some n -> Digits r ds n.
Proof.
  induction ds as [|c ds IH] using rev_ind; intros n NE H; [contradiction|].
  rewrite digits_val_app in H. destruct (digits_val r ds 0) as [n'|] eqn:D; [|discriminate].
  cbn [digits_val] in H. destruct (to_digit r c) as [d|] eqn:T; [|discriminate]. injection H as <-.
  destruct ds as [|c0 ds0].
  - cbn in D. injection D as <-. cbn [app]. replace (0 * r + d)%N with d by lia. apply Dig_one. exact T.
  - apply Dig_snoc; [apply IH; [discriminate | reflexivity] | exact T].
Qed.

Lemma sign_not_digit r : to_digit r 43 = None /\ to_digit r 45 = None.
Proof. split; reflexivity. Qed.

Lemma Digits_head r ds n : Digits r ds n -> exists c t, ds = c :: t /\ c <> 43%N /\ c <> 45%N.
Proof.
  intros D. pose proof (Digits_val _ _ _ D) as V. pose proof (Digits_nonempty _ _ _ D) as NE.
  destruct ds as [|c t]; [contradiction|]. exists c, t. split; [reflexivity|].
  cbn [digits_val] in V. split; intros ->; cbn in V; discriminate.
Qed.

(* parse = "the text is a numeral for z, and z is in the range of the kind" *)
Theorem numeral_meaning signed lo hi r s z :
  spec_numeral signed lo hi r s = Some z <-> (Numeral signed r s z /\ lo <= z <= hi).
Proof.
  unfold spec_numeral, Numeral. split.
  - destruct (split_sign signed s) as [neg ds] eqn:SS.
    destruct ds as [|c0 ds0]; [discriminate|]. remember (c0 :: ds0) as ds eqn:EDS.
    destruct (digits_val r ds 0) as [n|] eqn:D; [|discriminate].
    destruct ((lo <=? _) && (_ <=? hi)) eqn:R; [|discriminate]. intros H. injection H as <-.
    apply andb_true_iff in R as [R1 R2]. apply Z.leb_le in R1, R2. split; [|lia].
    assert (DD : Digits r ds n) by (apply val_Digits; [rewrite EDS; discriminate | exact D]).
    exists ds, n. split; [exact DD|].
    unfold split_sign in SS. destruct s as [|c t]; [injection SS as <- <-; discriminate|].
    destruct (c =? 43)%N eqn:C1.
    + apply N.eqb_eq in C1. injection SS as <- <-. subst c. right. left. auto.
    + destruct ((c =? 45)%N && signed) eqn:C2.
      * apply andb_true_iff in C2 as [C2 SG]. apply N.eqb_eq in C2. injection SS as <- <-. subst c.
        right. right. auto.
      * injection SS as <- <-. left. auto.
  - intros [(ds & n & D & Cases) R].
    pose proof (Digits_val _ _ _ D) as V. destruct (Digits_head _ _ _ D) as (c & t & E & N1 & N2).
    assert (RR : (lo <=? z) && (z <=? hi) = true) by (apply andb_true_iff; split; apply Z.leb_le; lia).
    apply N.eqb_neq in N1, N2. subst ds.
    destruct Cases as [[-> ->] | [[-> ->] | (-> & -> & ->)]]; unfold split_sign.
    + rewrite N1, N2. cbn [andb]. cbv beta iota. rewrite V, RR. reflexivity.
    + rewrite N.eqb_refl. cbv beta iota. rewrite V, RR. reflexivity.
    + replace (45 =? 43)%N with false by reflexivity. rewrite N.eqb_refl. cbn [andb]. cbv beta iota.
      rewrite V, RR. reflexivity.
Qed.

(* ------------------------------------------------------------------ rendering and the round trip *)
Lemma to_digit_small r m : (m < r)%N -> (r <= 10)%N -> to_digit r (48 + m) = Some m.
Proof.
  intros B R. unfold to_digit.
  replace ((48 <=? 48 + m)%N && (48 + m <=? 57)%N) with true
    by (symmetry; apply andb_true_iff; split; apply N.leb_le; lia).
  replace (48 + m - 48)%N with m by lia.
  replace (m <? r)%N with true by (symmetry; apply N.ltb_lt; lia). reflexivity.
Qed.

Lemma to_digit_render r n : (2 <= r <= 10)%N -> to_digit r (48 + n mod r) = Some (n mod r)%N.
Proof.
  intros R. apply to_digit_small; [apply N.mod_upper_bound; lia | lia].
Qed.

Lemma render_fuel_val r : (2 <= r <= 10)%N -> forall fuel n acc, (n < r ^ N.of_nat fuel)%N ->
  digits_val r (render_fuel fuel r n acc) 0 = digits_val r acc n.
Proof.
  intros R. induction fuel as [|f IH]; intros n acc B.
  - cbn in B. assert (n = 0%N) by lia. subst. reflexivity.
  - cbn [render_fuel]. assert (DM : n = (r * (n / r) + n mod r)%N) by (apply N.div_mod; lia).
    destruct (n / r =? 0)%N eqn:Q.
    + apply N.eqb_eq in Q. cbn [digits_val]. rewrite to_digit_render by exact R.
      f_equal. rewrite Q in DM. remember (n mod r)%N as m. lia.
    + apply N.eqb_neq in Q. rewrite IH.
      * cbn [digits_val]. rewrite to_digit_render by exact R. f_equal.
        remember (n mod r)%N as m. remember (n / r)%N as q. lia.
      * rewrite Nat2N.inj_succ, N.pow_succ_r' in B. apply N.div_lt_upper_bound; [lia | exact B].
Qed.

Lemma log2_bound r n : (2 <= r)%N -> (n < r ^ N.of_nat (S (N.to_nat (N.log2 n))))%N.
Proof.
  intros R. rewrite Nat2N.inj_succ, N2Nat.id.
  destruct n as [|p].
  - change (N.succ (N.log2 0)) with 1%N. rewrite N.pow_1_r. lia.
  - assert (U : (N.pos p < 2 ^ N.succ (N.log2 (N.pos p)))%N) by (apply N.log2_spec; lia).
    eapply N.lt_le_trans; [exact U|]. apply N.pow_le_mono_l. exact R.
Qed.

Theorem render_val r n : (2 <= r <= 10)%N -> digits_val r (render r n) 0 = Some n.
Proof. intros R. unfold render. rewrite render_fuel_val; [reflexivity | exact R | apply log2_bound; lia]. Qed.

(* every character of a rendering is a decimal digit *)
Definition all_digits (s : str) : Prop := Forall (fun c => (48 <= c <= 57)%N) s.

Lemma render_fuel_digits r : (2 <= r <= 10)%N -> forall fuel n acc, all_digits acc -> all_digits (render_fuel fuel r n acc).
Proof.
  intros R. induction fuel as [|f IH]; intros n acc A; [exact A|]. cbn [render_fuel].
  assert (A' : all_digits ((48 + n mod r)%N :: acc)).
  { constructor; [|exact A]. assert ((n mod r < r)%N) by (apply N.mod_upper_bound; lia).
    remember (n mod r)%N as m. lia. }
  destruct (n / r =? 0)%N; [exact A' | apply IH; exact A'].
Qed.

Lemma render_fuel_nonempty fuel r n acc : render_fuel (S fuel) r n acc <> [].
Proof.
  revert n acc. induction fuel as [|f IH]; intros n acc; cbn [render_fuel].
  - destruct (n / r =? 0)%N; discriminate.
  - destruct (n / r =? 0)%N; [discriminate | apply IH].
Qed.

Lemma render_shape r n : (2 <= r <= 10)%N -> exists c t, render r n = c :: t /\ (48 <= c <= 57)%N /\ all_digits t.
Proof.
  intros R. unfold render. pose proof (render_fuel_nonempty (N.to_nat (N.log2 n)) r n []) as NE.
  pose proof (render_fuel_digits r R (S (N.to_nat (N.log2 n))) n [] (Forall_nil _)) as A.
  destruct (render_fuel _ r n []) as [|c t]; [contradiction|]. inversion A. exists c, t. auto.
Qed.

(* parsing what to_str printed gives the number back *)
Lemma parse_rendered signed lo hi r n :
  (2 <= r <= 10)%N -> lo <= Z.of_N n <= hi -> from_str_radix signed lo hi r (render r n) = Some (Z.of_N n).
Proof.
  intros R B. destruct (render_shape r n R) as (c & t & E & C & _).
  unfold from_str_radix, split_sign. rewrite E.
  replace (c =? 43)%N with false by (symmetry; apply N.eqb_neq; lia).
  replace (c =? 45)%N with false by (symmetry; apply N.eqb_neq; lia). cbn [andb].
  rewrite <- E, render_val by exact R.
  replace ((lo <=? Z.of_N n) && (Z.of_N n <=? hi)) with true
    by (symmetry; apply andb_true_iff; split; apply Z.leb_le; lia). reflexivity.
Qed.

Lemma parse_dec lo hi z : lo <= z <= hi -> from_str_radix true lo hi 10 (dec_of_Z z) = Some z.
Proof.
  intros B. unfold dec_of_Z. destruct (z <? 0) eqn:N.
  - apply Z.ltb_lt in N. unfold from_str_radix, split_sign. cbn [N.eqb Pos.eqb andb].
    destruct (render_shape 10 (Z.to_N (- z))) as (c & t & E & _); [lia|].
    rewrite E at 1. rewrite render_val by lia. rewrite Z2N.id by lia.
    replace (- - z) with z by lia.
    replace ((lo <=? z) && (z <=? hi)) with true by (symmetry; apply andb_true_iff; split; apply Z.leb_le; lia).
    reflexivity.
  - apply Z.ltb_ge in N. rewrite <- (Z2N.id z) at 2 by lia. apply parse_rendered; [lia | rewrite Z2N.id; lia].
Qed.

Lemma strip_0x_dec z : strip_0x (dec_of_Z z) = None.
Proof.
  unfold dec_of_Z. destruct (z <? 0).
  { destruct (render_shape 10 (Z.to_N (- z))) as (c & t & E & _); [lia|]. rewrite E. reflexivity. }
  destruct (render_shape 10 (Z.to_N z)) as (c & t & E & C & A); [lia|]. rewrite E.
  destruct t as [|d t]; [reflexivity|]. inversion A as [|? ? D _]. cbn [strip_0x].
  replace (d =? 120)%N with false by (symmetry; apply N.eqb_neq; lia). rewrite andb_false_r. reflexivity.
Qed.

Lemma prefix_0x_dec z : prefix_0x (dec_of_Z z) = None.
Proof. unfold prefix_0x. rewrite strip_0x_dec. reflexivity. Qed.

(* the witnesses of the hunt: a sign between the prefix and the digits is no number; before the digits it is *)
Example sign_after_prefix :
  spec_parse_int [48; 120; 45; 49; 70]%N = SVal VNil /\ impl_parse_int [48; 120; 45; 49; 70]%N = Ok VNil /\        (* "0x-1F" *)
  spec_parse_int_radix [48; 120; 43; 49; 70]%N 16 = SVal VNil /\ impl_parse_bigint_radix [48; 120; 43; 49; 70]%N 16 = Ok VNil /\  (* "0x+1F" *)
  spec_parse_byte [48; 98; 43; 49]%N = SVal VNil /\ impl_parse_byte [48; 98; 43; 49]%N = Ok VNil /\                  (* "0b+1" *)
  impl_parse_int_radix_head [48; 120; 45; 49; 70]%N 16 = Ok (VInt (-31)) /\                                            (* as it was *)
  spec_parse_int [48; 120; 49; 70]%N = SVal (VInt 31) /\ spec_parse_int_radix [45; 49; 70]%N 16 = SVal (VInt (-31)).  (* "0x1F", "-1F" *)
Proof. vm_compute. repeat split. Qed.

(* law: parse_int (to_str n) = n, parse_bigint likewise, parse_byte (to_str b) = b *)
Theorem parse_int_to_str z : in_i32 z = true -> impl_parse_int (dec_of_Z z) = Ok (VInt z).
Proof.
  intros R. unfold in_i32 in R. apply andb_true_iff in R as [R1 R2]. apply Z.leb_le in R1, R2.
  unfold impl_parse_int. rewrite prefix_0x_dec, parse_dec; [reflexivity | unfold i32_min, i32_max; lia].
Qed.

Theorem parse_bigint_to_str z : in_i128 z = true -> impl_parse_bigint (dec_of_Z z) = Ok (VBig z).
Proof.
  intros R. unfold in_i128 in R. apply andb_true_iff in R as [R1 R2]. apply Z.leb_le in R1, R2.
  unfold impl_parse_bigint. rewrite prefix_0x_dec, parse_dec; [reflexivity | unfold i128_min, i128_max; lia].
Qed.

Theorem parse_byte_to_str z : in_u8 z = true -> impl_parse_byte (bin_of_byte z) = Ok (VByte z).
Proof.
  intros R. unfold in_u8 in R. apply andb_true_iff in R as [R1 R2]. apply Z.leb_le in R1, R2.
  unfold impl_parse_byte, bin_of_byte, prefix_0b. cbn [strip_0b N.eqb Pos.eqb andb unsigned_rest].
  destruct (render_shape 2 (Z.to_N z)) as (c & t & E & C & _); [lia|].
  replace (is_signed (render 2 (Z.to_N z))) with false
    by (rewrite E; cbn [is_signed]; symmetry; apply orb_false_iff; split; apply N.eqb_neq; lia).
  rewrite <- (Z2N.id z) at 2 by lia. rewrite parse_rendered; [reflexivity | lia | rewrite Z2N.id; lia].
Qed.

Theorem spec_parse_int_to_str z : in_i32 z = true -> spec_parse_int (dec_of_Z z) = SVal (VInt z).
Proof.
  intros R. pose proof (parse_int_meets (dec_of_Z z)) as M. rewrite (parse_int_to_str z R) in M.
  destruct (spec_parse_int (dec_of_Z z)) eqn:E; cbn in M.
  - congruence.
  - destruct M; discriminate.
  - unfold spec_parse_int in E. destruct (prefix_0x _); destruct (spec_numeral _ _ _ _ _); discriminate.
Qed.
