(* The methods of property C14 as data: dispatch of a call (receiver first) to the impl-model and to the
   specification, and the table of declared signatures (compiler/src/ast/type.rs get_property_type). *)
From MS Require Import Base.Str Builtins.Val Builtins.Utf8 Builtins.Numeral Builtins.StrImpl Builtins.StrSpec Builtins.ParseFloat
  Builtins.NumBuiltins.
Open Scope Z_scope.

Inductive meth :=
| MLen | MIndex | MSubstring | MContains | MIndexOf | MReverse | MInsert | MReplace | MDelete | MSplit | MChars
| MParseInt | MParseIntRadix | MParseBigint | MParseBigintRadix | MParseFloat | MParseBool | MParseByte
| MRepeat | MConcat
| MToInt | MToBigint | MToByte | MToFloat | MAbs | MPow | MPowf | MSqrt
| MFloor | MCeil | MRound | MIpart | MFpart | MToStr | MToAscii.

(* ill-kinded argument lists cannot come out of the type checker; the Rust arms are `unreachable!()` *)
Definition run_impl (m : meth) (args : list val) : outcome :=
  match m, args with
  | MLen, [VStr s] => impl_len s
  | MIndex, [VStr s; VInt i] => impl_index_int s i
  | MIndex, [VStr s; VBig i] => impl_index_big s i
  | MSubstring, [VStr s; VInt b; VInt t] => impl_substring s b t
  | MContains, [VStr s; VStr o] => impl_contains s o
  | MIndexOf, [VStr s; VStr o] => impl_index_of s o
  | MReverse, [VStr s] => impl_reverse s
  | MInsert, [VStr s; VStr n; VInt b] => impl_insert s n b
  | MReplace, [VStr s; VStr p; VStr r] => impl_replace s p r
  | MDelete, [VStr s; VInt b; VInt t] => impl_delete s b t
  | MSplit, [VStr s; VInt i] => impl_split s i
  | MChars, [VStr s] => impl_chars s
  | MParseInt, [VStr s] => impl_parse_int s
  | MParseIntRadix, [VStr s; VInt r] => impl_parse_int_radix s r
  | MParseBigint, [VStr s] => impl_parse_bigint s
  | MParseBigintRadix, [VStr s; VInt r] => impl_parse_bigint_radix s r
  | MParseFloat, [VStr s] => impl_parse_float s
  | MParseBool, [VStr s] => impl_parse_bool s
  | MParseByte, [VStr s] => impl_parse_byte s
  | MRepeat, [VStr s; VInt n] | MRepeat, [VStr s; VBig n] | MRepeat, [VInt n; VStr s] | MRepeat, [VBig n; VStr s] =>
      impl_repeat s n
  | MConcat, [x; y] => impl_concat x y
  | MToInt, [x] => impl_to_int x
  | MToBigint, [x] => impl_to_bigint x
  | MToByte, [x] => impl_to_byte x
  | MToFloat, [x] => impl_to_float x
  | MAbs, [x] => impl_abs x
  | MPow, [x; VInt n] => impl_pow x n
  | MPowf, [x; VFloat y] => impl_powf x y
  | MSqrt, [x] => impl_sqrt x
  | MFloor, [VFloat f] => impl_floor f
  | MCeil, [VFloat f] => impl_ceil f
  | MRound, [VFloat f] => impl_round f
  | MIpart, [VFloat f] => impl_ipart f
  | MFpart, [VFloat f] => impl_fpart f
  | MToStr, [x] => impl_to_str x
  | MToAscii, [VByte b] => impl_to_ascii b
  | _, _ => Panic
  end.

(* the same calls at the pinned HEAD (before the fix: commits a7759b5..1441424, fixes/c14-*.diff) where they differ *)
Definition run_impl_head (m : meth) (args : list val) : outcome :=
  match m, args with
  | MIndex, [VStr s; VBig i] => impl_index_big_head s i
  | MDelete, [VStr s; VInt b; VInt t] => impl_delete_head s b t
  | MParseInt, [VStr s] => impl_parse_int_head s
  | MParseBigint, [VStr s] => impl_parse_bigint_head s
  | MParseIntRadix, [VStr s; VInt r] => impl_parse_int_radix_head s r
  | MParseBigintRadix, [VStr s; VInt r] => impl_parse_bigint_radix_head s r
  | MToInt, [x] => impl_to_int_head x
  | MToBigint, [x] => impl_to_bigint_head x
  | MToByte, [x] => impl_to_byte_head x
  | MToFloat, [x] => impl_to_float_head x
  | MAbs, [x] => impl_abs_head x
  | MPow, [x; VInt n] => impl_pow_head x n
  | MPowf, [x; VFloat y] => impl_powf_head x y
  | MSqrt, [x] => impl_sqrt_head x
  | _, _ => run_impl m args
  end.

Definition run_spec (m : meth) (args : list val) : sres :=
  match m, args with
  | MLen, [VStr s] => spec_len s
  | MIndex, [VStr s; VInt i] | MIndex, [VStr s; VBig i] => spec_index s i
  | MSubstring, [VStr s; VInt b; VInt t] => spec_substring s b t
  | MContains, [VStr s; VStr o] => spec_contains s o
  | MIndexOf, [VStr s; VStr o] => spec_index_of s o
  | MReverse, [VStr s] => spec_reverse s
  | MInsert, [VStr s; VStr n; VInt b] => spec_insert s n b
  | MReplace, [VStr s; VStr p; VStr r] => spec_replace s p r
  | MDelete, [VStr s; VInt b; VInt t] => spec_delete s b t
  | MSplit, [VStr s; VInt i] => spec_split s i
  | MChars, [VStr s] => spec_chars s
  | MParseInt, [VStr s] => spec_parse_int s
  | MParseIntRadix, [VStr s; VInt r] => spec_parse_int_radix s r
  | MParseBigint, [VStr s] => spec_parse_bigint s
  | MParseBigintRadix, [VStr s; VInt r] => spec_parse_bigint_radix s r
  | MParseFloat, [VStr s] => spec_parse_float s
  | MParseBool, [VStr s] => spec_parse_bool s
  | MParseByte, [VStr s] => spec_parse_byte s
  | MRepeat, [VStr s; VInt n] | MRepeat, [VStr s; VBig n] | MRepeat, [VInt n; VStr s] | MRepeat, [VBig n; VStr s] =>
      spec_repeat s n
  | MConcat, [x; y] => spec_concat x y
  | MToInt, [x] => spec_to_int x
  | MToBigint, [x] => spec_to_bigint x
  | MToByte, [x] => spec_to_byte x
  | MToFloat, [x] => spec_to_float x
  | MAbs, [x] => spec_abs x
  | MPow, [x; VInt n] => spec_pow x n
  | MPowf, [x; VFloat y] => spec_powf x y
  | MSqrt, [x] => spec_sqrt x
  | MFloor, [VFloat f] => spec_floor f
  | MCeil, [VFloat f] => spec_ceil f
  | MRound, [VFloat f] => spec_round f
  | MIpart, [VFloat f] => spec_ipart f
  | MFpart, [VFloat f] => spec_fpart f
  | MToStr, [x] => spec_to_str x
  | MToAscii, [VByte b] => spec_to_ascii b
  | _, _ => SUnspec
  end.

(* get_property_type: result type declared for `receiver.method(..)`, by receiver type.
   None = "this property does not exist" on that receiver. *)
Definition is_num (t : ty) : bool := match t with TInt | TBig | TByte | TFloat => true | _ => false end.
Definition declared (m : meth) (recv : ty) : option ty :=
  match m, recv with
  | MToStr, (TInt | TBig | TByte | TFloat | TBool | TStr) => Some TStr
  | MLen, TStr => Some TInt
  | (MSubstring | MDelete | MReverse | MInsert | MReplace), TStr => Some TStr
  | MContains, TStr => Some TBool
  | MIndexOf, TStr => Some (TOpt TInt)
  | (MParseInt | MParseIntRadix), TStr => Some (TOpt TInt)
  | (MParseBigint | MParseBigintRadix), TStr => Some (TOpt TBig)
  | MParseBool, TStr => Some (TOpt TBool)
  | MParseFloat, TStr => Some (TOpt TFloat)
  | MParseByte, TStr => Some (TOpt TByte)
  | MSplit, TStr => Some (TPair TStr TStr)
  | MChars, TStr => Some (TList TStr)
  | MPow, TFloat => Some TFloat
  | MPow, (TInt | TBig | TByte) => Some TBig
  | (MPowf | MSqrt | MToFloat), (TInt | TBig | TByte | TFloat) => Some TFloat
  | MToInt, (TInt | TBig | TByte | TFloat) => Some TInt
  | MToBigint, (TInt | TBig | TByte | TFloat) => Some TBig
  | MToByte, (TInt | TBig | TByte | TFloat) => Some TByte
  | MAbs, (TInt | TBig | TByte | TFloat) => Some recv
  | MToAscii, TByte => Some TStr
  | (MFpart | MIpart | MRound | MFloor | MCeil), TFloat => Some TFloat
  (* operators: index, `*`, `+` are typed by the operator tables; their result on strings is str *)
  | (MIndex | MRepeat | MConcat), _ => Some TStr
  | _, _ => None
  end.
