(* parse_float: str::parse::<f64>.  Rust's decimal-to-binary conversion (core::num::dec2flt) is a large
   algorithm that is NOT modelled; what is modelled is its documented contract: the accepted grammar
       sign? ( digits? ['.' digits?] with at least one digit, then [ (e|E) sign? digits ]  |  inf | infinity | nan )
   (inf/infinity/nan in any letter case) and the value = the decimal number rounded to the nearest double,
   ties to even.  Impl-model and specification are therefore the same function. *)
From MS Require Import Base.Str Builtins.Val.
From Coq Require Import Floats.SpecFloat.
From Flocq Require Import IEEE754.BinarySingleNaN.
Open Scope Z_scope.

Definition is_dig (c : N) : bool := ((48 <=? c) && (c <=? 57))%N.

(* leading digits: (accumulated value, how many, rest) *)
Fixpoint take_digits (s : str) (acc : Z) (cnt : Z) : Z * Z * str :=
  match s with
  | c :: t => if is_dig c then take_digits t (acc * 10 + Z.of_N (c - 48)) (cnt + 1) else (acc, cnt, s)
  | [] => (acc, cnt, s)
  end.

Definition lower (c : N) : N := if ((65 <=? c) && (c <=? 90))%N then (c + 32)%N else c.

Definition sf_to_f64 (x : spec_float) : option f64 :=
  match valid_binary 53 1024 x as b return valid_binary 53 1024 x = b -> option f64 with
  | true => fun H => Some (SF2B x H)
  | false => fun _ => None
  end eq_refl.

(* m * 10^e10 rounded to nearest-even; m >= 0 *)
Definition dec_to_f64 (neg : bool) (m e10 : Z) : option f64 :=
  if m =? 0 then Some (B754_zero neg) else
  let bits := Z.log2 m + 1 in
  if 400 <? e10 then Some (B754_infinity neg)
  else if (bits + 2) / 3 + e10 <? -330 then Some (B754_zero neg)      (* m < 10^((bits+2)/3) *)
  else if 0 <=? e10 then
    Some (binary_normalize 53 1024 _ _ mode_NE ((if neg then - m else m) * 10 ^ e10) 0 false)
  else
    match m, 10 ^ (- e10) with
    | Zpos pm, Zpos pd => sf_to_f64 (SFdiv 53 1024 (S754_finite neg pm 0) (S754_finite false pd 0))
    | _, _ => None
    end.

Definition s_inf : str := [105; 110; 102]%N.
Definition s_infinity : str := [105; 110; 102; 105; 110; 105; 116; 121]%N.
Definition s_nan : str := [110; 97; 110]%N.

Definition parse_float (s : str) : option f64 :=
  let '(neg, t) := match s with
                   | 45%N :: t => (true, t)
                   | 43%N :: t => (false, t)
                   | _ => (false, s)
                   end in
  let '(iv, ic, r1) := take_digits t 0 0 in
  let '(fv, fc, r2) := match r1 with
                       | 46%N :: r => take_digits r iv 0
                       | _ => (iv, 0, r1)
                       end in
  let number :=
    if ic + fc =? 0 then None else
    match r2 with
    | [] => dec_to_f64 neg fv (- fc)
    | e :: r3 =>
        if ((e =? 101) || (e =? 69))%N then
          let '(eneg, r4) := match r3 with
                             | 45%N :: r => (true, r)
                             | 43%N :: r => (false, r)
                             | _ => (false, r3)
                             end in
          let '(ev, ec, r5) := take_digits r4 0 0 in
          if (ec =? 0) || negb (is_nil r5) then None
          else dec_to_f64 neg fv ((if eneg then - ev else ev) - fc)
        else None
    end in
  match number with
  | Some f => Some f
  | None =>
      let l := map lower t in
      if str_eqb l s_inf || str_eqb l s_infinity then Some (B754_infinity neg)
      else if str_eqb l s_nan then Some B754_nan
      else None
  end.

Definition impl_parse_float (s : str) : outcome :=
  match parse_float s with Some f => Ok (VFloat f) | None => Ok VNil end.
Definition spec_parse_float (s : str) : sres :=
  match parse_float s with Some f => SVal (VFloat f) | None => SVal VNil end.
