(* impl-model of the string built-ins: one definition per arm of BuiltInFunction::run
   (bytecode/src/function.rs, the Str.. arms), of string indexing (instruction.rs vec_op) and of the string cases of
   `*` (ops/mul.rs) and `+` (ops/add.rs).  Same order of checks, same failure class:
     Err   = anyhow error (`?` on try_into / bail!)            -> exit 1
     Panic = Rust panic (slice out of range / not on a char boundary, assertion in from_str_radix,
             arithmetic overflow in a debug build, capacity overflow) -> exit 101
   Byte offsets vs. character indices: len, substring, index_of, insert, delete, split work in UTF-8
   BYTES (Rust str::len / find / slicing / insert_str / split_at); indexing, chars, reverse in CHARACTERS.
   Definitions named *_head describe the arm as it was before a `fix:` commit (fixes/c14-*.diff:
   delete-range, parse-0x-prefix, bigint-index) repaired it; the un-suffixed definition is the current arm. *)
From MS Require Import Base.Str Builtins.Val Builtins.Utf8 Builtins.Numeral.
Open Scope Z_scope.

(* ---- StrLen: v.len() (bytes) try_into i32 *)
Definition impl_len (s : str) : outcome :=
  let n := Z.of_N (blen s) in if in_i32 n then Ok (VInt n) else Err.

(* ---- vec_op "[i]" on a Str: string.chars().nth(idx); idx from Primitive::try_into_numeric_index *)
Definition nth_char (s : str) (idx : Z) : outcome :=
  if (0 <=? idx) && (idx <? Z.of_nat (length s))
  then match nth_error s (Z.to_nat idx) with Some c => Ok (VStr [c]) | None => Err end
  else Err.
(* Int(i) => *i as usize : two's complement sign extension *)
Definition impl_index_int (s : str) (i : Z) : outcome :=
  nth_char s (if i <? 0 then i + 18446744073709551616 else i).
(* BigInt(i) => *i as usize : truncation to the low 64 bits (HEAD) *)
Definition impl_index_big_head (s : str) (i : Z) : outcome := nth_char s (i mod 18446744073709551616).
(* repaired: usize::try_from of the value *)
Definition impl_index_big (s : str) (i : Z) : outcome := if in_usize i then nth_char s i else Err.

(* ---- StrSubstring: bottom/top try_into usize (Err), then s[bottom..top] (panics) *)
Definition impl_substring (s : str) (bottom top : Z) : outcome :=
  if bottom <? 0 then Err else
  if top <? 0 then Err else
  if top <? bottom then Panic (* begin > end *) else
  match cut s (Z.to_N bottom) with
  | None => Panic (* start beyond the end / inside a character *)
  | Some (_, r) =>
      match cut r (Z.to_N (top - bottom)) with
      | None => Panic (* end beyond the end / inside a character *)
      | Some (m, _) => Ok (VStr m)
      end
  end.

(* ---- str::find / str::contains: first match of the pattern, scanning left to right.
   (Rust searches bytes with the Two-Way algorithm; on valid UTF-8 a byte-level match of a valid pattern
   starts and ends on character boundaries, so matching characters is the same thing.) *)
Fixpoint is_prefix (p s : str) : bool :=
  match p, s with
  | [], _ => true
  | x :: p', y :: s' => (x =? y)%N && is_prefix p' s'
  | _ :: _, [] => false
  end.

Fixpoint find (p s : str) : option (str * str) :=
  if is_prefix p s then Some ([], s) else
  match s with
  | [] => None
  | c :: t => match find p t with Some (a, r) => Some (c :: a, r) | None => None end
  end.

Definition impl_contains (s o : str) : outcome :=
  Ok (VBool (match find o s with Some _ => true | None => false end)).

(* ---- StrIndexOf: s.find(o) (byte offset) try_into i32; present = the bare Int, absent = nil *)
Definition impl_index_of (s o : str) : outcome :=
  match find o s with
  | Some (a, _) => let n := Z.of_N (blen a) in if in_i32 n then Ok (VInt n) else Err
  | None => Ok VNil
  end.

(* ---- StrReverse: v.chars().rev().collect() *)
Definition impl_reverse (s : str) : outcome := Ok (VStr (rev s)).

(* ---- StrInsert: index try_into usize (Err), String::insert_str asserts is_char_boundary (Panic) *)
Definition impl_insert (s new : str) (bottom : Z) : outcome :=
  if bottom <? 0 then Err else
  match cut s (Z.to_N bottom) with
  | None => Panic
  | Some (a, r) => Ok (VStr (a ++ new ++ r))
  end.

(* ---- StrReplace: str::replace = every non-overlapping match, left to right (match_indices);
   an empty pattern matches at every character boundary *)
Fixpoint repl_fuel (fuel : nat) (pat rep s : str) : str :=
  match fuel with
  | O => s
  | S f => match find pat s with
           | None => s
           | Some (a, r) => a ++ rep ++ repl_fuel f pat rep (skipn (length pat) r)
           end
  end.

Definition impl_replace_str (s pat rep : str) : str :=
  match pat with
  | [] => rep ++ flat_map (fun c => c :: rep) s
  | _ => repl_fuel (S (length s)) pat rep s
  end.
Definition impl_replace (s pat rep : str) : outcome := Ok (VStr (impl_replace_str s pat rep)).

(* ---- StrDelete at HEAD:
     start = top - bottom + 1            (usize subtraction: panics when top < bottom)
     String::with_capacity(s.len() - start)   (panics when top - bottom + 1 > s.len(), e.g. delete(0, len))
     push s[..bottom]; push s[top..]     (slice panics) *)
Definition impl_delete_head (s : str) (bottom top : Z) : outcome :=
  if bottom <? 0 then Err else
  if top <? 0 then Err else
  if top <? bottom then Panic else
  if Z.of_N (blen s) <? top - bottom + 1 then Panic else
  match cut s (Z.to_N bottom) with
  | None => Panic
  | Some (a, _) => match cut s (Z.to_N top) with
                   | None => Panic
                   | Some (_, c) => Ok (VStr (a ++ c))
                   end
  end.
(* repaired: bail! when bottom > top; capacity computed without underflow *)
Definition impl_delete (s : str) (bottom top : Z) : outcome :=
  if bottom <? 0 then Err else
  if top <? 0 then Err else
  if top <? bottom then Err else
  match cut s (Z.to_N bottom) with
  | None => Panic
  | Some (a, _) => match cut s (Z.to_N top) with
                   | None => Panic
                   | Some (_, c) => Ok (VStr (a ++ c))
                   end
  end.

(* ---- parse_*: `if s.starts_with("0x") { s.get(2..) }` *)
Definition opt_val (mk : Z -> val) (o : option Z) : outcome :=
  match o with Some z => Ok (mk z) | None => Ok VNil end.

(* StrParseInt / StrParseBigint at HEAD: the prefix is dropped and the rest read in DECIMAL *)
Definition impl_parse_int_head (s : str) : outcome :=
  let s := match strip_0x s with Some t => t | None => s end in
  opt_val VInt (from_str_radix true i32_min i32_max 10 s).
Definition impl_parse_bigint_head (s : str) : outcome :=
  let s := match strip_0x s with Some t => t | None => s end in
  opt_val VBig (from_str_radix true i128_min i128_max 10 s).
(* repaired: a 0x prefix selects radix 16; it is a prefix only when no sign follows it (fixes/c14-sign-after-prefix.diff) *)
Definition impl_parse_int (s : str) : outcome :=
  match prefix_0x s with
  | Some t => opt_val VInt (from_str_radix true i32_min i32_max 16 t)
  | None => opt_val VInt (from_str_radix true i32_min i32_max 10 s)
  end.
Definition impl_parse_bigint (s : str) : outcome :=
  match prefix_0x s with
  | Some t => opt_val VBig (from_str_radix true i128_min i128_max 16 t)
  | None => opt_val VBig (from_str_radix true i128_min i128_max 10 s)
  end.

(* StrParseIntRadix / StrParseBigintRadix at HEAD: prefix dropped WHATEVER the radix; radix try_into u32 (Err);
   from_str_radix asserts 2 <= radix <= 36 before reading anything (Panic) *)
Definition impl_parse_radix_head (mk : Z -> val) (lo hi : Z) (s : str) (radix : Z) : outcome :=
  let s := match strip_0x s with Some t => t | None => s end in
  if radix <? 0 then Err else
  if (radix <? 2) || (36 <? radix) then Panic else
  opt_val mk (from_str_radix true lo hi (Z.to_N radix) s).
Definition impl_parse_int_radix_head := impl_parse_radix_head VInt i32_min i32_max.
Definition impl_parse_bigint_radix_head := impl_parse_radix_head VBig i128_min i128_max.
(* repaired (fixes/c17-radix-range.diff: the range of the radix is checked first, bail!;
   fixes/c14-radix-0x-prefix.diff: `Some(hex) if radix == 16 => hex, _ => s`): the prefix announces
   hexadecimal digits and is dropped for radix 16 only; fixes/c14-sign-after-prefix.diff: `&& !is_signed(hex)` *)
Definition impl_parse_radix (mk : Z -> val) (lo hi : Z) (s : str) (radix : Z) : outcome :=
  if radix <? 0 then Err else
  if (radix <? 2) || (36 <? radix) then Err else
  let s := match prefix_0x s with
           | Some hex => if radix =? 16 then hex else s
           | None => s
           end in
  opt_val mk (from_str_radix true lo hi (Z.to_N radix) s).
Definition impl_parse_int_radix := impl_parse_radix VInt i32_min i32_max.
Definition impl_parse_bigint_radix := impl_parse_radix VBig i128_min i128_max.

(* StrParseBool: str::parse::<bool> *)
Definition impl_parse_bool (s : str) : outcome :=
  if str_eqb s s_true then Ok (VBool true)
  else if str_eqb s s_false then Ok (VBool false)
  else Ok VNil.

(* StrParseByte: "0b" prefix selects radix 2, otherwise 10; u8::from_str_radix *)
Definition impl_parse_byte (s : str) : outcome :=
  match prefix_0b s with
  | Some t => opt_val VByte (from_str_radix false 0 255 2 t)
  | None => opt_val VByte (from_str_radix false 0 255 10 s)
  end.

(* ---- StrSplit *)
Definition impl_split (s : str) (mid : Z) : outcome :=
  if mid <? 0 then Ok (VVec [VStr s; VStr []]) else
  let len := Z.of_N (blen s) in
  if negb (in_i32 len) then Err else
  if len <=? mid then Ok (VVec [VStr s; VStr []]) else
  match cut s (Z.to_N mid) with
  | None => Panic (* split_at: not a char boundary *)
  | Some (a, r) => Ok (VVec [VStr a; VStr r])
  end.

(* ---- StrChars *)
Definition impl_chars (s : str) : outcome := Ok (VVec (map (fun c => VStr [c]) s)).

(* ---- ops/mul.rs: (Str, Int|BigInt) and (Int|BigInt, Str): x.repeat(y.try_into()?)
   try_into usize fails for a negative count (Err) [and for a bigint above usize::MAX];
   str::repeat panics with "capacity overflow" when len * n overflows usize or exceeds isize::MAX.
   (Below that bound the model assumes the allocation succeeds.) *)
Fixpoint repeat_str (n : nat) (s : str) : str := match n with O => [] | S k => s ++ repeat_str k s end.
Definition impl_repeat (s : str) (n : Z) : outcome :=
  if negb (in_usize n) then Err else
  match s with
  | [] => Ok (VStr [])
  | _ => if isize_max <? Z.of_N (blen s) * n then Panic else Ok (VStr (repeat_str (Z.to_nat n) s))
  end.

(* ---- ops/add.rs: (Str, Str) | (Str, y) | (x, Str) => concatenation with y.to_string();
   Display of Float is outside the model *)
Definition display (v : val) : option str :=
  match v with
  | VStr s => Some s
  | VInt z | VBig z => Some (dec_of_Z z)
  | VByte z => Some (bin_of_byte z)
  | VBool b => Some (if b then s_true else s_false)
  | _ => None
  end.
Definition impl_concat (x y : val) : outcome :=
  match x, y with
  | VStr _, _ | _, VStr _ =>
      match display x, display y with Some a, Some b => Ok (VStr (a ++ b)) | _, _ => Outside end
  | _, _ => Err
  end.
