(* Proofs about the number built-ins. *)
From MS Require Import Base.Str Builtins.Val Builtins.Numeral Builtins.NumBuiltins Builtins.StrProofs.
From Coq Require Import Lia Lra Reals.
From Flocq Require Import Core.Core IEEE754.BinarySingleNaN.
Open Scope Z_scope.

Lemma in_i32_iff z : in_i32 z = true <-> -2147483648 <= z <= 2147483647.
Proof. unfold in_i32. rewrite andb_true_iff, !Z.leb_le. tauto. Qed.
Lemma in_i128_iff z : in_i128 z = true <-> -170141183460469231731687303715884105728 <= z <= 170141183460469231731687303715884105727.
Proof. unfold in_i128. rewrite andb_true_iff, !Z.leb_le. tauto. Qed.
Lemma in_u8_iff z : in_u8 z = true <-> 0 <= z <= 255.
Proof. unfold in_u8. rewrite andb_true_iff, !Z.leb_le. tauto. Qed.

Lemma i32_in_i128 z : in_i32 z = true -> in_i128 z = true.
Proof. rewrite in_i32_iff, in_i128_iff. lia. Qed.
Lemma u8_in_i32 z : in_u8 z = true -> in_i32 z = true.
Proof. rewrite in_u8_iff, in_i32_iff. lia. Qed.
Lemma u8_in_i128 z : in_u8 z = true -> in_i128 z = true.
Proof. rewrite in_u8_iff, in_i128_iff. lia. Qed.

(* ------------------------------------------------------------------ conversions *)
Theorem to_int_meets x : wf_val x = true -> meets (impl_to_int x) (spec_to_int x).
Proof.
  destruct x as [z|z|z|f| | | |]; cbn [wf_val impl_to_int spec_to_int spec_conv]; intros W; try exact I.
  - rewrite W. reflexivity.
  - destruct (in_i32 z); cbn; auto.
  - rewrite (u8_in_i32 z W). reflexivity.
  - destruct (trunc_finite f) as [z|]; [destruct (in_i32 z)|]; cbn; auto.
Qed.

Theorem to_bigint_meets x : wf_val x = true -> meets (impl_to_bigint x) (spec_to_bigint x).
Proof.
  destruct x as [z|z|z|f| | | |]; cbn [wf_val impl_to_bigint spec_to_bigint spec_conv]; intros W; try exact I.
  - rewrite (i32_in_i128 z W). reflexivity.
  - rewrite W. reflexivity.
  - rewrite (u8_in_i128 z W). reflexivity.
  - destruct (trunc_finite f) as [z|]; [destruct (in_i128 z)|]; cbn; auto.
Qed.

Theorem to_byte_meets x : wf_val x = true -> meets (impl_to_byte x) (spec_to_byte x).
Proof.
  destruct x as [z|z|z|f| | | |]; cbn [wf_val impl_to_byte spec_to_byte spec_conv]; intros W; try exact I.
  - destruct (in_u8 z); cbn; auto.
  - destruct (in_u8 z); cbn; auto.
  - rewrite W. reflexivity.
  - destruct (trunc_finite f) as [z|]; [destruct (in_u8 z)|]; cbn; auto.
Qed.

Theorem to_float_meets x : meets (impl_to_float x) (spec_to_float x).
Proof. destruct x; cbn; auto. Qed.

(* the integer part used by the conversions is the real-number truncation of the float's value *)
Theorem trunc_finite_meaning f z :
  trunc_finite f = Some z -> is_finite f = true /\ z = Ztrunc (B2R f).
Proof.
  unfold trunc_finite, ftrunc_z, F64.is_finite. intros H.
  assert (E : forall g : f64, IZR (Btrunc g) = IZR (Ztrunc (B2R g))).
  { intros g. rewrite (Btrunc_correct 53 1024 _ g). apply round_FIX_IZR. }
  destruct f as [s|s| |s m e B]; try discriminate; injection H as <-; (split; [reflexivity|]); apply eq_IZR; rewrite <- E; reflexivity.
Qed.

Theorem trunc_finite_none f : trunc_finite f = None <-> is_finite f = false.
Proof. unfold trunc_finite, F64.is_finite. destruct f; cbn; split; intros H; try reflexivity; discriminate. Qed.

(* ------------------------------------------------------------------ abs *)
Theorem abs_meets x : wf_val x = true -> meets (impl_abs x) (spec_abs x).
Proof.
  destruct x as [z|z|z|f| | | |]; cbn [wf_val impl_abs spec_abs]; intros W; try exact I; try reflexivity.
  - apply in_i32_iff in W. unfold i32_min. destruct (z =? -2147483648) eqn:E.
    + apply Z.eqb_eq in E. subst. cbn. auto.
    + apply Z.eqb_neq in E. replace (in_i32 (Z.abs z)) with true by (symmetry; apply in_i32_iff; lia). reflexivity.
  - apply in_i128_iff in W. unfold i128_min. destruct (z =? _) eqn:E.
    + apply Z.eqb_eq in E. subst. cbn. auto.
    + apply Z.eqb_neq in E. replace (in_i128 (Z.abs z)) with true by (symmetry; apply in_i128_iff; lia). reflexivity.
Qed.

(* ------------------------------------------------------------------ pow on int kinds *)
Lemma pow_guarded_some z n r : 0 <= n -> pow_guarded z n = Some r -> r = z ^ n.
Proof.
  intros P. unfold pow_guarded. destruct (Z.abs z <=? 1) eqn:A.
  - apply Z.leb_le in A. destruct (z =? 0) eqn:Z0.
    + apply Z.eqb_eq in Z0. subst z. destruct (n =? 0) eqn:N0; intros H; injection H as <-.
      * apply Z.eqb_eq in N0. subst. reflexivity.
      * apply Z.eqb_neq in N0. symmetry. apply Z.pow_0_l. lia.
    + apply Z.eqb_neq in Z0. destruct (z =? 1) eqn:Z1.
      * apply Z.eqb_eq in Z1. subst z. intros H. injection H as <-. symmetry. apply Z.pow_1_l. exact P.
      * apply Z.eqb_neq in Z1. assert (z = -1) by lia. subst z. intros H. injection H as <-.
        destruct (Z.even n) eqn:E.
        -- apply Z.even_spec in E. change (-1) with (- (1)). rewrite Z.pow_opp_even by exact E.
           symmetry. apply Z.pow_1_l. exact P.
        -- assert (O : Z.odd n = true) by (rewrite <- Z.negb_even, E; reflexivity). apply Z.odd_spec in O.
           change (-1) with (- (1)) at 2. rewrite Z.pow_opp_odd by exact O. rewrite Z.pow_1_l by exact P. reflexivity.
  - destruct (128 <=? n); [discriminate|]. intros H. injection H as <-. reflexivity.
Qed.

Lemma pow_guarded_none z n : 0 <= n -> pow_guarded z n = None -> 2 ^ 128 <= Z.abs (z ^ n).
Proof.
  intros P. unfold pow_guarded. destruct (Z.abs z <=? 1) eqn:A; [discriminate|]. apply Z.leb_gt in A.
  destruct (128 <=? n) eqn:B; [|discriminate]. apply Z.leb_le in B. intros _.
  rewrite Z.abs_pow. apply Z.le_trans with (2 ^ n).
  - apply Z.pow_le_mono_r; lia.
  - apply Z.pow_le_mono_l. lia.
Qed.

(* pow = z^n when that is a bigint, failure otherwise *)
Theorem checked_pow_meaning z n : 0 <= n ->
  checked_pow in_i128 z n = if in_i128 (z ^ n) then Some (z ^ n) else None.
Proof.
  intros P. unfold checked_pow. destruct (pow_guarded z n) as [r|] eqn:G.
  - apply pow_guarded_some in G; [|exact P]. subst r. reflexivity.
  - apply pow_guarded_none in G; [|exact P].
    replace (in_i128 (z ^ n)) with false; [reflexivity|].
    symmetry. destruct (in_i128 (z ^ n)) eqn:R; [|reflexivity]. apply in_i128_iff in R.
    change (2 ^ 128) with 340282366920938463463374607431768211456 in G. lia.
Qed.

Theorem pow_int_meets x n : (forall f, x <> VFloat f) -> meets (impl_pow x n) (spec_pow x n).
Proof.
  intros NF. destruct x as [z|z|z|f| | | |]; cbn [impl_pow spec_pow]; try exact I;
    try (destruct (n <? 0); [cbn; auto|]; destruct (checked_pow in_i128 z n); cbn; auto).
  exfalso. exact (NF f eq_refl).
Qed.

Theorem pow_int_meaning x z n : (x = VInt z \/ x = VBig z \/ x = VByte z) -> 0 <= n ->
  spec_pow x n = if in_i128 (z ^ n) then SVal (VBig (z ^ n)) else SFail.
Proof.
  intros K P. assert (N : (n <? 0) = false) by (apply Z.ltb_ge; exact P).
  destruct K as [->|[->| ->]]; cbn [spec_pow]; rewrite N, (checked_pow_meaning z n P); destruct (in_i128 (z ^ n)); reflexivity.
Qed.

Theorem pow_negative_exponent x z n : (x = VInt z \/ x = VBig z \/ x = VByte z) -> n < 0 -> spec_pow x n = SFail.
Proof.
  intros K P. assert (N : (n <? 0) = true) by (apply Z.ltb_lt; exact P).
  destruct K as [->|[->| ->]]; cbn [spec_pow]; rewrite N; reflexivity.
Qed.

(* ------------------------------------------------------------------ float-valued methods: impl = spec *)
Theorem sqrt_meets x : meets (impl_sqrt x) (spec_sqrt x).
Proof. destruct x; cbn; auto. Qed.
Theorem floor_meets f : meets (impl_floor f) (spec_floor f). Proof. reflexivity. Qed.
Theorem ceil_meets f : meets (impl_ceil f) (spec_ceil f). Proof. reflexivity. Qed.
Theorem round_meets f : meets (impl_round f) (spec_round f). Proof. reflexivity. Qed.
Theorem ipart_meets f : meets (impl_ipart f) (spec_ipart f). Proof. reflexivity. Qed.
Theorem fpart_meets f : meets (impl_fpart f) (spec_fpart f). Proof. reflexivity. Qed.

(* ... and what the specification means in real numbers (Flocq's correctness theorems) *)
Lemma fnear_meaning md f : is_finite f = true ->
  B2R (fnear md f) = IZR (round_mode md (B2R f)) /\ is_finite (fnear md f) = true.
Proof.
  intros F. unfold fnear. destruct (Bnearbyint_correct 53 1024 _ md f) as (H1 & H2 & _).
  rewrite H1, round_FIX_IZR. split; [reflexivity|]. unfold F64.is_finite in *. rewrite H2. exact F.
Qed.

Theorem floor_meaning f : is_finite f = true -> B2R (fnear mode_DN f) = IZR (Zfloor (B2R f)).
Proof. intros F. exact (proj1 (fnear_meaning mode_DN f F)). Qed.
Theorem ceil_meaning f : is_finite f = true -> B2R (fnear mode_UP f) = IZR (Zceil (B2R f)).
Proof. intros F. exact (proj1 (fnear_meaning mode_UP f F)). Qed.
Theorem round_meaning f : is_finite f = true -> B2R (fnear mode_NA f) = IZR (ZnearestA (B2R f)).
Proof. intros F. exact (proj1 (fnear_meaning mode_NA f F)). Qed.
Theorem ipart_meaning f : is_finite f = true -> B2R (fnear mode_ZR f) = IZR (Ztrunc (B2R f)).
Proof. intros F. exact (proj1 (fnear_meaning mode_ZR f F)). Qed.

(* the sign of a zero result is the sign of the argument: (-0.4).round() = -0.0 *)
Theorem fnear_sign md f : F64.is_nan (fnear md f) = false -> Bsign (fnear md f) = Bsign f.
Proof. unfold fnear, F64.is_nan. exact (proj2 (proj2 (Bnearbyint_correct 53 1024 _ md f))). Qed.

(* sqrt = the real square root rounded to nearest-even *)
Theorem sqrt_meaning f :
  B2R (fsqrt f) = Generic_fmt.round radix2 (SpecFloat.fexp 53 1024) ZnearestE (sqrt (B2R f)).
Proof. unfold fsqrt. exact (proj1 (Bsqrt_correct 53 1024 _ _ mode_NE f)). Qed.

(* integer -> float: the value rounded to nearest-even, finite for every bigint *)
Theorem of_Z_meaning z : Z.abs z <= 2 ^ 127 ->
  B2R (of_Z z) = Generic_fmt.round radix2 (SpecFloat.fexp 53 1024) ZnearestE (IZR z) /\ is_finite (of_Z z) = true.
Proof.
  intros A. unfold of_Z, F64.is_finite.
  pose proof (binary_normalize_correct 53 1024 _ _ mode_NE z 0 false) as H. cbv zeta in H.
  assert (X : F2R (Float radix2 z 0) = IZR z) by (unfold F2R; cbn; lra).
  rewrite X in H.
  assert (L : Rlt_bool (Rabs (Generic_fmt.round radix2 (SpecFloat.fexp 53 1024) (round_mode mode_NE) (IZR z))) (bpow radix2 1024) = true).
  { apply Rlt_bool_true. apply Rle_lt_trans with (bpow radix2 127).
    - apply abs_round_le_generic.
      + apply (fexp_correct 53 1024). reflexivity.
      + apply valid_rnd_N.
      + apply generic_format_bpow. cbn. lia.
      + rewrite <- abs_IZR. change (bpow radix2 127) with (IZR (2 ^ 127)). apply IZR_le. exact A.
    - apply bpow_lt. lia. }
  rewrite L in H. destruct H as (H1 & H2 & _). split; assumption.
Qed.

(* ------------------------------------------------------------------ to_str / to_ascii *)
Theorem to_str_meets x : meets (impl_to_str x) (spec_to_str x).
Proof. destruct x; cbn; auto. Qed.

Theorem to_ascii_meets b : b < 128 -> meets (impl_to_ascii b) (spec_to_ascii b).
Proof.
  intros H. unfold impl_to_ascii, spec_to_ascii. replace (b <? 128) with true by (symmetry; apply Z.ltb_lt; exact H). reflexivity.
Qed.

(* KNOWN FINDING to_ascii/byte/continues-outside-domain: bytes 128..255 are not ASCII, the arm answers U+FFFD *)
Theorem to_ascii_refuted : exists b, in_u8 b = true /\ 128 <= b /\ ~ meets (impl_to_ascii b) (spec_to_ascii b).
Proof. exists 255. split; [reflexivity|]. split; [lia|]. cbn. intros [H|H]; discriminate. Qed.
