(* Strings are lists of Unicode scalars; Rust `str` offsets (`len`, `find`, slicing, `insert_str`,
   `split_at`) are UTF-8 BYTE offsets.  Only the width of each character's encoding matters:
   byte length = sum of widths, and a byte offset is a character boundary iff it is the byte length of a
   prefix. *)
From MS Require Import Base.Str.
From Coq Require Import Lia.
Open Scope N_scope.

Definition w8 (c : N) : N :=
  if c <? 128 then 1 else if c <? 2048 then 2 else if c <? 65536 then 3 else 4.

Fixpoint blen (s : str) : N := match s with [] => 0 | c :: t => w8 c + blen t end.

(* cut s b = Some (a, r): s = a ++ r and a is exactly the first b BYTES of s;
   None: b is beyond the end or falls inside a character *)
Fixpoint cut (s : str) (b : N) : option (str * str) :=
  if b =? 0 then Some ([], s) else
  match s with
  | [] => None
  | c :: t => if w8 c <=? b
              then match cut t (b - w8 c) with Some (a, r) => Some (c :: a, r) | None => None end
              else None
  end.

Definition is_boundary (s : str) (b : N) : bool := match cut s b with Some _ => true | None => false end.

Lemma w8_pos c : 1 <= w8 c.
Proof. unfold w8. repeat destruct (_ <? _); lia. Qed.

Lemma w8_le4 c : w8 c <= 4.
Proof. unfold w8. repeat destruct (_ <? _); lia. Qed.

Lemma blen_app a b : blen (a ++ b) = blen a + blen b.
Proof. induction a as [|c a IH]; cbn [blen app]; [reflexivity | rewrite IH; lia]. Qed.

Lemma blen_0 s : blen s = 0 -> s = [].
Proof. destruct s as [|c t]; [reflexivity|]. cbn [blen]. pose proof (w8_pos c). lia. Qed.

Lemma blen_rev s : blen (rev s) = blen s.
Proof. induction s as [|c t IH]; [reflexivity|]. cbn [rev]. rewrite blen_app. cbn [blen]. lia. Qed.

Lemma length_le_blen s : N.of_nat (length s) <= blen s.
Proof. induction s as [|c t IH]; cbn [length blen]; [lia|]. pose proof (w8_pos c). lia. Qed.

(* two prefixes of the same string with the same byte length are equal *)
Lemma prefix_blen_inj : forall a a' r r', a ++ r = a' ++ r' -> blen a = blen a' -> a = a' /\ r = r'.
Proof.
  induction a as [|c a IH]; intros a' r r' E L.
  - cbn [blen] in L. symmetry in L. apply blen_0 in L. subst a'. split; [reflexivity | exact E].
  - destruct a' as [|c' a'].
    + cbn [blen] in L. pose proof (w8_pos c). lia.
    + cbn [app] in E. injection E as -> E. cbn [blen] in L.
      destruct (IH a' r r' E) as [-> ->]; [lia | split; reflexivity].
Qed.

Lemma cut_sound : forall s b a r, cut s b = Some (a, r) -> s = a ++ r /\ blen a = b.
Proof.
  induction s as [|c t IH]; intros b a r H; cbn [cut] in H.
  - destruct (b =? 0) eqn:B; [|discriminate]. apply N.eqb_eq in B. injection H as <- <-. split; [reflexivity | cbn; lia].
  - destruct (b =? 0) eqn:B.
    + apply N.eqb_eq in B. injection H as <- <-. split; [reflexivity | cbn; lia].
    + apply N.eqb_neq in B. destruct (w8 c <=? b) eqn:W; [|discriminate]. apply N.leb_le in W.
      destruct (cut t (b - w8 c)) as [[a0 r0]|] eqn:C; [|discriminate]. injection H as <- <-.
      destruct (IH _ _ _ C) as [-> L]. split; [reflexivity|]. cbn [blen]. lia.
Qed.

Lemma cut_complete : forall a r, cut (a ++ r) (blen a) = Some (a, r).
Proof.
  induction a as [|c a IH]; intros r.
  - cbn [app blen]. destruct r; reflexivity.
  - cbn [app blen cut]. pose proof (w8_pos c).
    destruct (w8 c + blen a =? 0) eqn:B; [apply N.eqb_eq in B; lia|].
    destruct (w8 c <=? w8 c + blen a) eqn:W; [|apply N.leb_gt in W; lia].
    replace (w8 c + blen a - w8 c) with (blen a) by lia. rewrite IH. reflexivity.
Qed.

(* the characterisation used by every byte-offset method *)
Theorem cut_spec s b a r : cut s b = Some (a, r) <-> s = a ++ r /\ blen a = b.
Proof.
  split; [apply cut_sound | intros [-> <-]; apply cut_complete].
Qed.

Lemma cut_none s b : cut s b = None <-> forall a r, s = a ++ r -> blen a <> b.
Proof.
  split.
  - intros H a r -> L. rewrite <- L, cut_complete in H. discriminate.
  - intros H. destruct (cut s b) as [[a r]|] eqn:C; [|reflexivity].
    apply cut_sound in C as [E L]. exfalso. exact (H a r E L).
Qed.

Lemma cut_all s : cut s (blen s) = Some (s, []).
Proof. rewrite <- (app_nil_r s) at 1. apply cut_complete. Qed.

Lemma cut_beyond s b : blen s < b -> cut s b = None.
Proof.
  intros H. apply cut_none. intros a r -> L. rewrite blen_app in H. lia.
Qed.
