(* Theorems about the model of `mscript clean` (Clean/Model.v); all for arbitrary directories. *)
From Coq Require Import Permutation.
From MS Require Import Base.Str Clean.Model.

(* ---- strings ---------------------------------------------------------------------------------- *)

Lemma cl_str_eqb_eq (a b : str) : str_eqb a b = true <-> a = b.
Proof.
  revert b. induction a as [|x a IH]; intros [|y b]; cbn; split; intro H; try congruence; try reflexivity.
  - apply andb_true_iff in H. destruct H as [H1 H2]. apply N.eqb_eq in H1. apply IH in H2. congruence.
  - inversion H; subst. apply andb_true_iff. split; [apply N.eqb_refl | apply IH; reflexivity].
Qed.

Lemma cl_str_eqb_refl (a : str) : str_eqb a a = true.
Proof. apply cl_str_eqb_eq. reflexivity. Qed.

Lemma cl_str_eqb_neq (a b : str) : str_eqb a b = false <-> a <> b.
Proof.
  split.
  - intros H E. apply cl_str_eqb_eq in E. congruence.
  - intro H. destruct (str_eqb a b) eqn:E; [|reflexivity]. apply cl_str_eqb_eq in E. contradiction.
Qed.

(* ---- Path::extension ---------------------------------------------------------------------------- *)

Lemma rsplit_dot_none (s : str) : rsplit_dot s = None <-> ~ In c_dot s.
Proof.
  induction s as [|c t IH]; cbn [rsplit_dot].
  - split; [intros _ []|reflexivity].
  - destruct (rsplit_dot t) as [[b a]|] eqn:E.
    + split; [discriminate|]. intro H. exfalso.
      assert (Hn : ~ In c_dot t) by (intro K; apply H; right; exact K).
      apply IH in Hn. discriminate.
    + destruct (c =? c_dot) eqn:Ec.
      * split; [discriminate|]. intro H. exfalso. apply H. left. apply N.eqb_eq in Ec. exact Ec.
      * split; [|reflexivity]. intros _ [K|K].
        -- apply N.eqb_neq in Ec. congruence.
        -- apply (proj1 IH eq_refl). exact K.
Qed.

(* rsplit_dot splits at the LAST dot *)
Lemma rsplit_dot_some (s b a : str) :
  rsplit_dot s = Some (b, a) <-> s = b ++ c_dot :: a /\ ~ In c_dot a.
Proof.
  revert b a. induction s as [|c t IH]; intros b a; cbn [rsplit_dot].
  - split; [discriminate|]. intros [H _]. destruct b; discriminate.
  - destruct (rsplit_dot t) as [[b' a']|] eqn:E.
    + destruct (proj1 (IH b' a') eq_refl) as [Ht Hn]. split.
      * intro H. inversion H; subst. split; [reflexivity|exact Hn].
      * intros [H Hna]. destruct b as [|c0 b0].
        -- cbn in H. inversion H; subst. exfalso.
           assert (K : rsplit_dot (b' ++ c_dot :: a') = None) by (apply rsplit_dot_none; exact Hna).
           congruence.
        -- cbn in H. inversion H; subst c0.
           assert (K : Some (b', a') = Some (b0, a)) by (apply IH; split; assumption).
           inversion K; subst. reflexivity.
    + apply rsplit_dot_none in E. destruct (c =? c_dot) eqn:Ec.
      * apply N.eqb_eq in Ec. subst c. split.
        -- intro H. inversion H; subst. split; [reflexivity|exact E].
        -- intros [H Hna]. destruct b as [|c0 b0].
           ++ cbn in H. inversion H; subst. reflexivity.
           ++ cbn in H. inversion H; subst. exfalso. apply E. apply in_or_app. right. left. reflexivity.
      * apply N.eqb_neq in Ec. split; [discriminate|]. intros [H Hna]. exfalso. destruct b as [|c0 b0].
        -- cbn in H. inversion H. congruence.
        -- cbn in H. inversion H; subst. apply E. apply in_or_app. right. left. reflexivity.
Qed.

(* the readable characterisation of Rust's Path::extension for a one-component path:
   the name is not "..", it has the shape  stem '.' ext  with a NON-EMPTY stem, and ext is dot-free *)
Theorem extension_spec (s x : str) :
  extension s = Some x <->
  s <> [c_dot; c_dot] /\ exists stem, stem <> [] /\ s = stem ++ c_dot :: x /\ ~ In c_dot x.
Proof.
  unfold extension. destruct (str_eqb s [c_dot; c_dot]) eqn:Edd.
  - apply cl_str_eqb_eq in Edd. split; [discriminate|]. intros [H _]. contradiction.
  - apply cl_str_eqb_neq in Edd. destruct (rsplit_dot s) as [[b a]|] eqn:E.
    + apply rsplit_dot_some in E. destruct E as [Es Hn]. destruct b as [|c0 b0]; cbn [is_nil].
      * split; [discriminate|]. intros [_ [stem [Hne [Hs Hx]]]]. exfalso.
        assert (K : rsplit_dot s = Some (stem, x)) by (apply rsplit_dot_some; split; assumption).
        assert (K2 : rsplit_dot s = Some ([], a)) by (apply rsplit_dot_some; split; assumption).
        rewrite K in K2. inversion K2. contradiction.
      * split.
        -- intro H. inversion H; subst x. split; [exact Edd|]. exists (c0 :: b0).
           split; [discriminate|]. split; assumption.
        -- intros [_ [stem [Hne [Hs Hx]]]].
           assert (K : rsplit_dot s = Some (stem, x)) by (apply rsplit_dot_some; split; assumption).
           assert (K2 : rsplit_dot s = Some (c0 :: b0, a)) by (apply rsplit_dot_some; split; assumption).
           rewrite K in K2. inversion K2. reflexivity.
    + split; [discriminate|]. intros [_ [stem [Hne [Hs Hx]]]]. exfalso.
      apply rsplit_dot_none in E. apply E. rewrite Hs. apply in_or_app. right. left. reflexivity.
Qed.

Lemma ext_is_mmm_iff (s : str) : ext_is_mmm s = true <-> extension s = Some s_mmm.
Proof.
  unfold ext_is_mmm. destruct (extension s) as [x|].
  - rewrite cl_str_eqb_eq. split; congruence.
  - split; discriminate.
Qed.

(* ---- remove_file ------------------------------------------------------------------------------ *)

Definition other_name (nm : str) (x : entry) : bool := negb (str_eqb (name x) nm).

Lemma filter_all {A} (p : A -> bool) (l : list A) : (forall x, In x l -> p x = true) -> filter p l = l.
Proof.
  induction l as [|a l IH]; intro H; cbn [filter]; [reflexivity|].
  rewrite (H a (or_introl eq_refl)). f_equal. apply IH. intros x Hx. apply H. right. exact Hx.
Qed.

Lemma in_map_name (e : entry) (l : list entry) : In e l -> In (name e) (map name l).
Proof. apply in_map. Qed.

Lemma remove_file_ok (fs : list entry) (e : entry) :
  NoDup (map name fs) -> In e fs -> is_dir e = false ->
  remove_file (name e) fs = RmOk (filter (other_name (name e)) fs).
Proof.
  induction fs as [|x t IH]; intros Hnd Hin Hk; [destruct Hin|].
  cbn [map] in Hnd. inversion Hnd as [|? ? Hx Ht]; subst.
  cbn [remove_file filter]. unfold other_name at 1.
  destruct (str_eqb (name x) (name e)) eqn:E; cbn [negb].
  - apply cl_str_eqb_eq in E.
    assert (x = e) as ->.
    { destruct Hin as [H|H]; [exact H|]. exfalso. apply Hx. rewrite E. apply in_map_name. exact H. }
    unfold is_dir in Hk. destruct (ekind e); try discriminate;
      (f_equal; symmetry; apply filter_all; intros y Hy; unfold other_name;
       apply negb_true_iff; apply cl_str_eqb_neq; intro K; apply Hx; rewrite <- K; apply in_map_name; exact Hy).
  - destruct Hin as [H|H]; [subst; rewrite cl_str_eqb_refl in E; discriminate|].
    rewrite (IH Ht H Hk). reflexivity.
Qed.

Lemma NoDup_map_filter (p : entry -> bool) (l : list entry) :
  NoDup (map name l) -> NoDup (map name (filter p l)).
Proof.
  induction l as [|a l IH]; intro H; cbn [filter map]; [constructor|].
  cbn [map] in H. inversion H as [|? ? Ha Hl]; subst.
  destruct (p a); cbn [map]; [|apply IH; exact Hl].
  constructor; [|apply IH; exact Hl].
  intro K. apply Ha. apply in_map_iff in K. destruct K as [y [Hy Hin]].
  apply filter_In in Hin. rewrite <- Hy. apply in_map_name. apply Hin.
Qed.

(* ---- the loop ------------------------------------------------------------------------------------ *)

Definition mem_str (s : str) (l : list str) : bool := existsb (str_eqb s) l.

Lemma mem_str_In (s : str) (l : list str) : mem_str s l = true <-> In s l.
Proof.
  unfold mem_str. rewrite existsb_exists. split.
  - intros [x [Hx E]]. apply cl_str_eqb_eq in E. subst. exact Hx.
  - intro H. exists s. split; [exact H|apply cl_str_eqb_refl].
Qed.

Definition doomed_names (todo : list entry) : list str := map name (filter doomed todo).
Definition survives (todo : list entry) (x : entry) : bool := negb (mem_str (name x) (doomed_names todo)).

Lemma filter_filter {A} (p q : A -> bool) (l : list A) :
  filter p (filter q l) = filter (fun x => q x && p x) l.
Proof.
  induction l as [|a l IH]; cbn [filter]; [reflexivity|].
  destruct (q a); cbn [filter andb]; [destruct (p a)|]; rewrite IH; reflexivity.
Qed.

Lemma doomed_not_dir (e : entry) : doomed e = true -> is_dir e = false.
Proof. unfold doomed. intro H. apply andb_true_iff in H. destruct H as [H _]. apply negb_true_iff in H. exact H. Qed.

Lemma loop_spec (todo : list entry) : forall (fs : list entry) (n : N) (m : list str),
  NoDup (map name fs) -> NoDup (map name todo) ->
  (forall e, In e todo -> doomed e = true -> In e fs) ->
  clean_loop true true todo fs n m 0 =
  Cleaned (filter (survives todo) fs) (n + N.of_nat (length (filter doomed todo))) (m ++ doomed_names todo).
Proof.
  induction todo as [|e rest IH]; intros fs n m Hfs Htodo Hin.
  - cbn [clean_loop filter length N.eqb]. unfold doomed_names. cbn [filter map].
    rewrite app_nil_r. cbn [N.of_nat]. rewrite N.add_0_r. f_equal.
    symmetry. apply filter_all. intros x _. reflexivity.
  - cbn [map] in Htodo. inversion Htodo as [|? ? He Hrest]; subst.
    assert (Hin' : forall fs', (forall e', In e' rest -> doomed e' = true -> In e' fs') ->
                   forall e', In e' rest -> doomed e' = true -> In e' fs') by auto.
    cbn [clean_loop andb]. destruct (is_dir e) eqn:Ed.
    + (* a directory is skipped *)
      assert (Hdo : doomed e = false) by (unfold doomed; rewrite Ed; reflexivity).
      rewrite (IH fs n m Hfs Hrest (fun e' H1 H2 => Hin e' (or_intror H1) H2)).
      unfold doomed_names, survives, doomed_names. cbn [filter]. rewrite Hdo. reflexivity.
    + destruct (ext_is_mmm (name e)) eqn:Ex.
      * (* unlinked *)
        assert (Hdo : doomed e = true) by (unfold doomed; rewrite Ed, Ex; reflexivity).
        rewrite (remove_file_ok fs e Hfs (Hin e (or_introl eq_refl) Hdo) Ed).
        rewrite IH.
        -- unfold doomed_names. cbn [filter]. rewrite Hdo. cbn [map length].
           rewrite filter_filter. rewrite <- app_assoc. cbn [app].
           rewrite Nat2N.inj_succ. f_equal; [|lia].
           apply filter_ext. intro x. unfold survives, other_name, doomed_names. cbn [filter]. rewrite Hdo.
           cbn [map mem_str existsb]. unfold mem_str. rewrite negb_orb. reflexivity.
        -- apply NoDup_map_filter. exact Hfs.
        -- exact Hrest.
        -- intros e' H1 H2. apply filter_In. split; [apply Hin; [right; exact H1|exact H2]|].
           unfold other_name. apply negb_true_iff. apply cl_str_eqb_neq. intro K. apply He.
           rewrite <- K. apply in_map_name. exact H1.
      * assert (Hdo : doomed e = false) by (unfold doomed; rewrite Ex; apply andb_false_r).
        rewrite (IH fs n m Hfs Hrest (fun e' H1 H2 => Hin e' (or_intror H1) H2)).
        unfold doomed_names, survives, doomed_names. cbn [filter]. rewrite Hdo. reflexivity.
Qed.

(* with distinct names, "the name is one of the doomed names" is "the entry is doomed" *)
Lemma survives_spared (order es : list entry) :
  NoDup (map name es) -> (forall e, In e order <-> In e es) ->
  filter (survives order) es = filter spared es.
Proof.
  intros Hnd Hsame. apply filter_ext_in. intros x Hx. unfold survives, spared. f_equal.
  destruct (doomed x) eqn:Ed.
  - apply mem_str_In. unfold doomed_names. apply in_map_iff. exists x. split; [reflexivity|].
    apply filter_In. split; [apply Hsame; exact Hx|exact Ed].
  - destruct (mem_str (name x) (doomed_names order)) eqn:Em; [|reflexivity]. exfalso.
    apply mem_str_In in Em. unfold doomed_names in Em. apply in_map_iff in Em.
    destruct Em as [y [Hname Hy]]. apply filter_In in Hy. destruct Hy as [Hy Hdy].
    apply Hsame in Hy.
    assert (y = x).
    { clear - Hnd Hx Hy Hname. induction es as [|a l IH]; [destruct Hx|].
      cbn [map] in Hnd. inversion Hnd as [|? ? Ha Hl]; subst.
      destruct Hx as [Hx|Hx], Hy as [Hy|Hy]; subst.
      - reflexivity.
      - exfalso. apply Ha. rewrite <- Hname. apply in_map_name. exact Hy.
      - exfalso. apply Ha. rewrite Hname. apply in_map_name. exact Hx.
      - apply IH; assumption. }
    subst. congruence.
Qed.

(* ---- the theorems ---------------------------------------------------------------------------- *)

(* For EVERY directory (entries with distinct names, any number, any names, any kinds):
   the command exits normally; what is left is exactly the entries that are not (non-directory with
   extension mmm), each of them the very same entry (same kind, same content id, same position);
   the number reported is the number of entries removed; one `clean` line per removed name. *)
Theorem clean_exact : forall es : list entry, NoDup (map name es) ->
  clean es = Cleaned (filter spared es) (N.of_nat (length (filter doomed es))) (map name (filter doomed es)).
Proof.
  intros es Hnd. unfold clean, clean_in. rewrite loop_spec; [|exact Hnd|exact Hnd|auto].
  rewrite N.add_0_l. cbn [app]. rewrite (survives_spared es es Hnd); [reflexivity|tauto].
Qed.

Lemma filter_partition_length {A} (p : A -> bool) (l : list A) :
  length l = (length (filter p l) + length (filter (fun x => negb (p x)) l))%nat.
Proof. induction l as [|a l IH]; cbn [filter length]; [reflexivity|]. destruct (p a); cbn [negb length]; lia. Qed.

(* count reported + entries left = entries before *)
Theorem clean_count : forall es fs n msgs, NoDup (map name es) -> clean es = Cleaned fs n msgs ->
  N.of_nat (length es) = n + N.of_nat (length fs).
Proof.
  intros es fs n msgs Hnd H. rewrite (clean_exact es Hnd) in H. inversion H; subst.
  rewrite (filter_partition_length doomed es). unfold spared. lia.
Qed.

(* nothing else is deleted or altered: a directory, or an entry whose extension is not exactly mmm,
   is still there, unchanged (it is the same record: name, kind, content / subtree / link text) *)
Theorem clean_spares : forall es fs n msgs e, NoDup (map name es) -> clean es = Cleaned fs n msgs ->
  In e es -> (ekind e = KDir \/ extension (name e) <> Some s_mmm) -> In e fs.
Proof.
  intros es fs n msgs e Hnd H Hin Hwhy. rewrite (clean_exact es Hnd) in H. inversion H; subst.
  apply filter_In. split; [exact Hin|]. unfold spared, doomed. apply negb_true_iff.
  destruct Hwhy as [Hk|Hx].
  - unfold is_dir. rewrite Hk. reflexivity.
  - destruct (ext_is_mmm (name e)) eqn:E; [|apply andb_false_r].
    apply ext_is_mmm_iff in E. contradiction.
Qed.

(* every non-directory with extension mmm is gone, and only entries of the directory are ever left *)
Theorem clean_removes : forall es fs n msgs e, NoDup (map name es) -> clean es = Cleaned fs n msgs ->
  In e es -> ekind e <> KDir -> extension (name e) = Some s_mmm -> ~ In e fs.
Proof.
  intros es fs n msgs e Hnd H Hin Hk Hx. rewrite (clean_exact es Hnd) in H. inversion H; subst.
  intro K. apply filter_In in K. destruct K as [_ K]. unfold spared, doomed in K.
  apply ext_is_mmm_iff in Hx. rewrite Hx in K. unfold is_dir in K.
  destruct (ekind e); cbn in K; try discriminate. contradiction.
Qed.

Theorem clean_invents_nothing : forall es fs n msgs e, NoDup (map name es) -> clean es = Cleaned fs n msgs ->
  In e fs -> In e es.
Proof.
  intros es fs n msgs e Hnd H Hin. rewrite (clean_exact es Hnd) in H. inversion H; subst.
  apply filter_In in Hin. apply Hin.
Qed.

(* whatever order read_dir yields the entries in, the directory left behind is identical, the count
   is the same, and the `clean` lines are the same up to order *)
Theorem clean_order_independent : forall es order : list entry, NoDup (map name es) -> Permutation order es ->
  exists msgs, clean_in order es = Cleaned (filter spared es) (N.of_nat (length (filter doomed es))) msgs
               /\ Permutation msgs (map name (filter doomed es)).
Proof.
  intros es order Hnd Hperm.
  assert (Hsame : forall e, In e order <-> In e es).
  { intro e. split; apply Permutation_in; [exact Hperm|apply Permutation_sym; exact Hperm]. }
  assert (Hnd' : NoDup (map name order)).
  { apply (Permutation_NoDup (l := map name es)); [|exact Hnd]. apply Permutation_map. apply Permutation_sym. exact Hperm. }
  assert (Hf : Permutation (filter doomed order) (filter doomed es)).
  { clear - Hperm. induction Hperm as [|x l l' Hp IH|x y l|l l' l'' H1 IH1 H2 IH2]; cbn [filter].
    - constructor.
    - destruct (doomed x); [constructor|]; exact IH.
    - destruct (doomed x), (doomed y); try apply Permutation_refl. apply perm_swap.
    - eapply Permutation_trans; eassumption. }
  exists (doomed_names order). unfold clean_in. rewrite loop_spec; [|exact Hnd|exact Hnd'|].
  - rewrite N.add_0_l. cbn [app]. rewrite (survives_spared order es Hnd Hsame).
    rewrite (Permutation_length Hf). split; [reflexivity|].
    unfold doomed_names. apply Permutation_map. exact Hf.
  - intros e H _. apply Hsame. exact H.
Qed.

(* ---- a remove_file that fails does not stop the sweep (fixes/clean-continues-after-failure.diff) ---- *)

(* In the model's filesystem the one way remove_file fails on a listed entry is EISDIR.  The loop with
   `keep_going` and WITHOUT the directory test meets it on every directory named *.mmm: for EVERY
   directory, every non-directory with extension mmm is removed all the same -- also those listed after
   the failure --, the count and the `clean` lines are those of the files removed, every other entry is
   left as it was, and the outcome says how many removals failed (exit 1 exactly when there was one). *)

Definition stuck (e : entry) : bool := is_dir e && ext_is_mmm (name e).

Definition finish (fs : list entry) (n : N) (m : list str) (k : N) : outcome :=
  if k =? 0 then Cleaned fs n m else Incomplete fs n m k.

Lemma remove_file_dir (fs : list entry) (e : entry) :
  NoDup (map name fs) -> In e fs -> is_dir e = true -> remove_file (name e) fs = RmErr EISDIR.
Proof.
  induction fs as [|x t IH]; intros Hnd Hin Hk; [destruct Hin|].
  cbn [map] in Hnd. inversion Hnd as [|? ? Hx Ht]; subst.
  cbn [remove_file]. destruct (str_eqb (name x) (name e)) eqn:E.
  - apply cl_str_eqb_eq in E.
    assert (x = e) as ->.
    { destruct Hin as [H|H]; [exact H|]. exfalso. apply Hx. rewrite E. apply in_map_name. exact H. }
    unfold is_dir in Hk. destruct (ekind e); try discriminate. reflexivity.
  - destruct Hin as [H|H]; [subst; rewrite cl_str_eqb_refl in E; discriminate|].
    rewrite (IH Ht H Hk). reflexivity.
Qed.

Lemma loop_keep_going_spec (todo : list entry) : forall (fs : list entry) (n : N) (m : list str) (k : N),
  NoDup (map name fs) -> NoDup (map name todo) ->
  (forall e, In e todo -> In e fs) ->
  clean_loop false true todo fs n m k =
  finish (filter (survives todo) fs) (n + N.of_nat (length (filter doomed todo))) (m ++ doomed_names todo)
         (k + N.of_nat (length (filter stuck todo))).
Proof.
  induction todo as [|e rest IH]; intros fs n m k Hfs Htodo Hin.
  - cbn [clean_loop filter length]. unfold doomed_names, finish. cbn [filter map].
    rewrite app_nil_r. cbn [N.of_nat]. rewrite !N.add_0_r.
    assert (Hf : filter (survives []) fs = fs) by (apply filter_all; intros x _; reflexivity).
    rewrite Hf. reflexivity.
  - cbn [map] in Htodo. inversion Htodo as [|? ? He Hrest]; subst.
    cbn [clean_loop andb]. destruct (ext_is_mmm (name e)) eqn:Ex.
    + destruct (is_dir e) eqn:Ed.
      * (* remove_file fails: counted, the loop goes on *)
        assert (Hdo : doomed e = false) by (unfold doomed; rewrite Ed; reflexivity).
        assert (Hst : stuck e = true) by (unfold stuck; rewrite Ed, Ex; reflexivity).
        rewrite (remove_file_dir fs e Hfs (Hin e (or_introl eq_refl)) Ed).
        rewrite (IH fs n m (k + 1) Hfs Hrest (fun e' H1 => Hin e' (or_intror H1))).
        unfold doomed_names, survives, doomed_names. cbn [filter]. rewrite Hdo, Hst. cbn [length].
        rewrite Nat2N.inj_succ. f_equal. lia.
      * assert (Hdo : doomed e = true) by (unfold doomed; rewrite Ed, Ex; reflexivity).
        assert (Hst : stuck e = false) by (unfold stuck; rewrite Ed; reflexivity).
        rewrite (remove_file_ok fs e Hfs (Hin e (or_introl eq_refl)) Ed).
        rewrite IH.
        -- unfold doomed_names. cbn [filter]. rewrite Hdo, Hst. cbn [map length].
           rewrite filter_filter. rewrite <- app_assoc. cbn [app].
           rewrite Nat2N.inj_succ. f_equal; [|lia].
           apply filter_ext. intro x. unfold survives, other_name, doomed_names. cbn [filter]. rewrite Hdo.
           cbn [map mem_str existsb]. unfold mem_str. rewrite negb_orb. reflexivity.
        -- apply NoDup_map_filter. exact Hfs.
        -- exact Hrest.
        -- intros e' H1. apply filter_In. split; [apply Hin; right; exact H1|].
           unfold other_name. apply negb_true_iff. apply cl_str_eqb_neq. intro K. apply He.
           rewrite <- K. apply in_map_name. exact H1.
    + assert (Hdo : doomed e = false) by (unfold doomed; rewrite Ex; apply andb_false_r).
      assert (Hst : stuck e = false) by (unfold stuck; rewrite Ex; apply andb_false_r).
      rewrite (IH fs n m k Hfs Hrest (fun e' H1 => Hin e' (or_intror H1))).
      unfold doomed_names, survives, doomed_names. cbn [filter]. rewrite Hdo, Hst. reflexivity.
Qed.

Theorem keep_going_sweeps_everything : forall es : list entry, NoDup (map name es) ->
  clean_keep_going_only es =
  finish (filter spared es) (N.of_nat (length (filter doomed es))) (map name (filter doomed es))
         (N.of_nat (length (filter stuck es))).
Proof.
  intros es Hnd. unfold clean_keep_going_only. rewrite loop_keep_going_spec; [|exact Hnd|exact Hnd|auto].
  rewrite !N.add_0_l. cbn [app]. rewrite (survives_spared es es Hnd); [reflexivity|tauto].
Qed.

(* d.mmm/ listed BEFORE a.mmm: the failure is counted, a.mmm is removed and reported, exit 1 *)
Example keep_going_witness :
  clean_keep_going_only [ {| name := [100; 46; 109; 109; 109]; ekind := KDir; content := 1 |};
                          {| name := [97; 46; 109; 109; 109]; ekind := KFile; content := 2 |} ]
  = Incomplete [ {| name := [100; 46; 109; 109; 109]; ekind := KDir; content := 1 |} ] 1 [ [97; 46; 109; 109; 109] ] 1.
Proof. vm_compute. reflexivity. Qed.

(* ---- the code as found (before fixes/clean-skip-dirs.diff): F12 ------------------------------ *)

Definition f_dir_mmm : entry := {| name := [100; 46; 109; 109; 109]; ekind := KDir; content := 1 |}.  (* d.mmm/ *)
Definition f_a_mmm : entry := {| name := [97; 46; 109; 109; 109]; ekind := KFile; content := 2 |}.   (* a.mmm  *)

(* a directory named d.mmm listed before a.mmm: the unrepaired loop aborts with EISDIR and a.mmm survives *)
Theorem clean_unfixed_refuted :
  exists es, NoDup (map name es) /\ exists fs n m, clean_unfixed es = Aborted fs n m EISDIR /\ In f_a_mmm fs
             /\ doomed f_a_mmm = true.
Proof.
  exists [f_dir_mmm; f_a_mmm]. split.
  - repeat constructor; cbn; intuition discriminate.
  - exists [f_dir_mmm; f_a_mmm], 0, []. vm_compute. intuition.
Qed.
