(* Model of `mscript clean DIR` (src/main.rs clean_command) over an abstract directory.

   A directory is the list of its entries in the order `read_dir` yields them.  An entry has a
   name (Unicode scalars; entry names never contain '/' and are never "." or ".."), a kind as
   reported WITHOUT following symbolic links (DirEntry::file_type) and an opaque content id
   (file: the bytes; directory: the whole subtree; symbolic link: the link text).

   Outside the model (observed by the correspondence, not proved): the filesystem itself
   (read_dir yielding every entry exactly once while entries are being unlinked, unlink(2)). *)
From MS Require Import Base.Str.

Inductive kind := KFile | KDir | KLinkFile | KLinkDir | KDangling.

Record entry := { name : str; ekind : kind; content : N }.

Definition c_dot : N := 46.
Definition s_mmm : str := [109; 109; 109].

(* ---- std::path::Path::extension on a single-component path -------------------------------- *)

(* split at the LAST '.' : `file.rsplitn(2, '.')` ; None when there is no dot *)
Fixpoint rsplit_dot (s : str) : option (str * str) :=
  match s with
  | [] => None
  | c :: t =>
      match rsplit_dot t with
      | Some (b, a) => Some (c :: b, a)
      | None => if c =? c_dot then Some ([], t) else None
      end
  end.

(* std::path::rsplit_file_at_dot followed by `before.and(after)`:
     ".."                      -> None
     no dot                    -> None
     nothing before the last dot (".mmm") -> None     (a leading dot is not an extension)
     otherwise                 -> Some (text after the last dot)   ("x." -> Some "") *)
Definition extension (nm : str) : option str :=
  if str_eqb nm [c_dot; c_dot] then None
  else match rsplit_dot nm with
       | None => None
       | Some (before, after) => if is_nil before then None else Some after
       end.

(* `.extension().is_some_and(|ext| ext == "mmm")` : exact, case-sensitive comparison *)
Definition ext_is_mmm (nm : str) : bool :=
  match extension nm with Some x => str_eqb x s_mmm | None => false end.

(* ---- std::fs::remove_file (unlink) on the directory state ---------------------------------- *)

Inductive errno := ENOENT | EISDIR.
Inductive rm_result := RmOk (fs : list entry) | RmErr (e : errno).

(* unlink by name: a directory fails with EISDIR; a symbolic link is removed itself (its target
   is another entry or lives elsewhere and is not touched); a missing name fails with ENOENT *)
Fixpoint remove_file (nm : str) (fs : list entry) : rm_result :=
  match fs with
  | [] => RmErr ENOENT
  | e :: t =>
      if str_eqb (name e) nm then
        match ekind e with KDir => RmErr EISDIR | _ => RmOk t end
      else match remove_file nm t with
           | RmOk t' => RmOk (e :: t')
           | RmErr c => RmErr c
           end
  end.

Definition is_dir (e : entry) : bool := match ekind e with KDir => true | _ => false end.

(* ---- clean_command ---------------------------------------------------------------------------- *)

(* Cleaned fs n msgs : exit 0, directory now fs, "Removed n files", one "clean <name>" line per msgs
   Aborted fs n msgs e : `?` propagated the error: exit 1, no "Removed" line
   Incomplete fs n msgs k : the sweep went over every entry, "Removed n files" is printed, then
                            `bail!("k bytecode file(s) could not be removed")`: exit 1 *)
Inductive outcome :=
| Cleaned (fs : list entry) (removed : N) (msgs : list str)
| Aborted (fs : list entry) (removed : N) (msgs : list str) (e : errno)
| Incomplete (fs : list entry) (removed : N) (msgs : list str) (failed : N).

(* the `for path in paths` loop: `todo` = entries still to be yielded by read_dir, `fs` = the
   directory as it is now, `removed` / `msgs` / `failed` = the mutable counters and the lines printed so far.
   `skip_dirs` = fixes/clean-skip-dirs.diff (`if path.file_type()?.is_dir() { continue }`); with `false`
   it is the code as found (F12).
   `keep_going` = fixes/clean-continues-after-failure.diff: a failed remove_file is reported on stderr,
   counted, and the loop goes on (`if let Err(err) = remove_file(..) { eprintln!(..); failed += 1; continue }`);
   with `false` the error leaves the function through `?` (the code before that repair). *)
Fixpoint clean_loop (skip_dirs keep_going : bool) (todo fs : list entry) (removed : N) (msgs : list str) (failed : N) : outcome :=
  match todo with
  | [] => if failed =? 0 then Cleaned fs removed msgs else Incomplete fs removed msgs failed
  | e :: rest =>
      if skip_dirs && is_dir e then clean_loop skip_dirs keep_going rest fs removed msgs failed
      else if ext_is_mmm (name e) then
        match remove_file (name e) fs with
        | RmErr c => if keep_going then clean_loop skip_dirs keep_going rest fs removed msgs (failed + 1)
                     else Aborted fs removed msgs c
        | RmOk fs' => clean_loop skip_dirs keep_going rest fs' (removed + 1) (msgs ++ [name e]) failed
        end
      else clean_loop skip_dirs keep_going rest fs removed msgs failed
  end.

(* `order` is the sequence read_dir yields, `fs` the directory *)
Definition clean_in (order fs : list entry) : outcome := clean_loop true true order fs 0 [] 0.
Definition clean (es : list entry) : outcome := clean_in es es.

(* the code before both repairs *)
Definition clean_unfixed (es : list entry) : outcome := clean_loop false false es es 0 [] 0.

(* the second repair alone (directories are handed to remove_file, a failure does not stop the sweep):
   the only way the model's filesystem makes remove_file fail on a listed entry *)
Definition clean_keep_going_only (es : list entry) : outcome := clean_loop false true es es 0 [] 0.

(* ---- the specification's vocabulary ------------------------------------------------------------ *)

(* an entry `clean` is supposed to delete: not a directory, extension exactly mmm *)
Definition doomed (e : entry) : bool := negb (is_dir e) && ext_is_mmm (name e).
Definition spared (e : entry) : bool := negb (doomed e).

(* flat summary used by the correspondence driver:
   (status 0 = exit 0 / 1 = EISDIR / 2 = ENOENT / 3 = swept, some not removed; removed, content ids left, printed names) *)
Definition ids (fs : list entry) : list N := map content fs.

Definition status_code (o : outcome) : N :=
  match o with Cleaned _ _ _ => 0 | Aborted _ _ _ EISDIR => 1 | Aborted _ _ _ ENOENT => 2 | Incomplete _ _ _ _ => 3 end.

Definition summary (o : outcome) : N * N * list N * list str :=
  match o with
  | Cleaned fs n m => (status_code o, n, ids fs, m)
  | Aborted fs n m _ => (status_code o, n, ids fs, m)
  | Incomplete fs n m _ => (status_code o, n, ids fs, m)
  end.
