(* C06: the model of the constant folder (FoldModel.fold FixedF) agrees with run-time evaluation
   (FoldModel.eval_rt Fixed, i.e. the operators of NumImpl) for ALL literal expression trees. *)
From Coq Require Import Reals Lra.
From Flocq Require Import Core.Core.
From MS Require Import Num.NumImpl Num.NumSpec Num.NumProofs Fold.FoldModel.
Open Scope Z_scope.

(* ---------------------------------------------------------------- an integer converted to double is zero iff it is zero
   (the folder tests `right == 0.0` after parsing the text as f64, the run-time guard tests the integer) *)
Lemma one_generic : generic_format radix2 (SpecFloat.fexp 53 1024) 1%R.
Proof. change 1%R with (bpow radix2 0). apply generic_format_bpow. vm_compute. discriminate. Qed.

Lemma F_of_Z_nonzero : forall z, z <> 0 -> F_is_zero (F_of_Z z) = false.
Proof.
  intros z Hz. unfold F_of_Z, F_norm.
  pose proof (fexp_correct 53 1024 p53) as Hv.
  pose proof (valid_rnd_round_mode mode_NE) as Hr.
  pose proof (binary_normalize_correct 53 1024 p53 p1024 mode_NE z 0 false) as H.
  cbv zeta in H.
  set (r := binary_normalize 53 1024 p53 p1024 mode_NE z 0 false) in *.
  set (x := F2R (Float radix2 z 0)) in *.
  assert (Hx : x = IZR z) by (unfold x, F2R; simpl; lra).
  destruct (Rlt_bool (Rabs (round radix2 (SpecFloat.fexp 53 1024) (round_mode mode_NE) x)) (bpow radix2 1024)).
  - destruct H as (HR & Hfin & _).
    unfold F_is_zero, F_cmp, F_zero.
    rewrite (Bcompare_correct 53 1024 r (B754_zero false) Hfin eq_refl).
    simpl (B2R (B754_zero false)).
    assert (Hne : (B2R r <> 0)%R).
    { rewrite HR, Hx.
      destruct (Z_lt_le_dec z 0) as [Hneg|Hpos].
      - assert (IZR z <= -1)%R by (apply IZR_le; lia).
        assert (round radix2 (SpecFloat.fexp 53 1024) (round_mode mode_NE) (IZR z) <= -1)%R.
        { apply (@round_le_generic radix2 _ Hv _ Hr (IZR z) (-1)%R); [|assumption].
          apply generic_format_opp. apply one_generic. }
        lra.
      - assert (1 <= IZR z)%R by (apply IZR_le; lia).
        assert (1 <= round radix2 (SpecFloat.fexp 53 1024) (round_mode mode_NE) (IZR z))%R.
        { apply (@round_ge_generic radix2 _ Hv _ Hr 1%R (IZR z)); [apply one_generic | assumption]. }
        lra. }
    destruct (Rcompare_spec (B2R r) 0); try reflexivity. contradiction.
  - unfold binary_overflow in H. simpl in H.
    destruct r as [s|s| |s m e B]; simpl in H; try discriminate. destruct s; reflexivity.
Qed.

Lemma F_of_Z_is_zero : forall z, F_is_zero (F_of_Z z) = (z =? 0).
Proof.
  intros z. destruct (Z.eqb_spec z 0) as [->|Hz]; [reflexivity | apply F_of_Z_nonzero; exact Hz].
Qed.

Lemma F_neg_involutive : forall f, F_neg (F_neg f) = f.
Proof. intros f. unfold F_neg. apply Bopp_involutive. Qed.

(* ---------------------------------------------------------------- canonical texts *)
(* what the FIXED folder produces and what source literals are: never a "-" prefix on top of a sign *)
Definition canon_txt (t : txt) (z : Z) : Prop := t = Dec z \/ (t = Src z /\ 0 <= z).

Lemma parse_as_canon : forall p t z, canon_txt t z ->
  parse_as p t = if p_in_range p z then Some z else None.
Proof.
  intros p t z [-> | [-> Hz]]; unfold parse_as; cbn [leading_minus parse_Z].
  - destruct p as [[| |]|]; cbn [p_signed signed negb andb p_in_range]; try reflexivity.
    + destruct (Z.ltb_spec z 0); [|reflexivity].
      unfold in_range; cbn [imin]. destruct (Z.leb_spec 0 z); [lia | reflexivity].
    + destruct (Z.ltb_spec z 0); [|reflexivity].
      destruct (Z.leb_spec 0 z); [lia | reflexivity].
  - rewrite andb_false_r. reflexivity.
Qed.

Lemma parse_f_of_int_canon : forall t z, canon_txt t z -> parse_f_of_int t = Some (F_of_Z z).
Proof. intros t z [-> | [-> _]]; reflexivity. Qed.

(* a folded Number and the run-time value it stands for *)
Definition good (n : number) (v : value) : Prop :=
  match n, v with
  | NInteger t, Int z => canon_txt t z /\ in_range I32 z = true
  | NBigInt t, Big z => canon_txt t z /\ in_range I128 z = true
  | NByte t, Byte z => canon_txt t z /\ in_range U8 z = true
  | NFloat t, Flt f => parse_f t = Some f
  | _, _ => False
  end.

Lemma good_make : forall n v, good n v -> make n = Ok v.
Proof.
  intros n v H. destruct n, v; cbn [good] in H; try contradiction; cbn [make].
  1,2,4: destruct H as [Hc Hr]; rewrite (parse_as_canon _ _ _ Hc); cbn [p_in_range]; rewrite Hr; reflexivity.
  rewrite H. reflexivity.
Qed.

Lemma good_wf : forall n v, good n v -> wf v.
Proof. intros n v H. destruct n, v; cbn [good] in H; try contradiction; cbn [wf]; tauto. Qed.

Lemma good_f64 : forall n v, good n v -> parse_num_f64 n = Some (Fval v).
Proof.
  intros n v H. destruct n, v; cbn [good] in H; try contradiction; cbn [parse_num_f64 Fval];
  try (destruct H as [Hc _]; apply parse_f_of_int_canon; exact Hc). exact H.
Qed.

(* "the folder's outcome agrees with the run-time outcome" *)
Definition agrees (fr : fres) (r : res value) : Prop :=
  match fr with
  | FVal (CNum n) => exists v, good n v /\ r = Ok v
  | FVal (CBool b) => r = Ok (Bool b)
  | FErr => is_failure r
  | FNot => True
  end.

(* ---------------------------------------------------------------- one integer arm *)
(* the folder's checked operation and the run-time operation: same value, or both fail
   (the folder rejects, the run time panics) *)
Lemma fixed_int_fold : forall t o x y,
  match fold_int_fn FixedF t o x y with
  | Some z => fixed_int t o x y = Ok z
  | None => is_failure (fixed_int t o x y)
  end.
Proof.
  intros t o x y. destruct o; cbn [fold_int_fn fixed_int]; unfold checked, expect, checked_div, exact_rem, rust_div, wrapping_rem.
  1-3: match goal with |- context [in_range ?tt ?e] => destruct (in_range tt e) end; cbn; auto.
  - destruct (y =? 0); cbn; auto. destruct (min_by_m1 t x y); cbn; auto.
  - destruct (y =? 0); cbn; auto.
Qed.

Lemma fold_int_zero : forall t o x, is_divlike o = true -> fold_int_fn FixedF t o x 0 = None.
Proof. intros t o x H. destruct o; try discriminate; reflexivity. Qed.

Lemma fold_int_range : forall t o x y z,
  in_range t x = true -> in_range t y = true ->
  fold_int_fn FixedF t o x y = Some z -> in_range t z = true.
Proof.
  intros t o x y z Hx Hy H.
  pose proof (fixed_int_ok t o x y Hx Hy) as M. pose proof (fixed_int_fold t o x y) as F.
  rewrite H in F. rewrite F in M.
  unfold int_spec in M.
  destruct (is_divlike o && (y =? 0)); [contradiction|].
  destruct (in_range t (exact_Z o x y)) eqn:E; [|contradiction].
  cbn in M. inversion M. subst. exact E.
Qed.

Lemma cm_checked_canon : forall lt rt f a b za zb,
  canon_txt a za -> canon_txt b zb -> p_in_range lt za = true -> p_in_range rt zb = true ->
  cm_checked lt rt f a b = match f za zb with Some z => Some (Dec z) | None => None end.
Proof.
  intros lt rt f a b za zb Ha Hb Ra Rb. unfold cm_checked.
  rewrite (parse_as_canon _ _ _ Ha), Ra, (parse_as_canon _ _ _ Hb), Rb. reflexivity.
Qed.

Lemma int_arm_agrees : forall t (inj_n : txt -> number) (inj_v : Z -> value) o ta tb za zb (g : bool),
  canon_txt ta za -> canon_txt tb zb -> in_range t za = true -> in_range t zb = true ->
  (g = true -> zb = 0) ->
  (forall z, in_range t z = true -> good (inj_n (Dec z)) (inj_v z)) ->
  agrees (opt_num inj_n (cm_checked (P_ity t) (P_ity t) (fold_int_fn FixedF t o) ta tb))
         (if is_divlike o && g then Err else lift inj_v (fixed_int t o za zb)).
Proof.
  intros t inj_n inj_v o ta tb za zb g Ha Hb Ra Rb Hg Hgood.
  rewrite (cm_checked_canon (P_ity t) (P_ity t) _ _ _ za zb Ha Hb Ra Rb).
  pose proof (fixed_int_fold t o za zb) as F.
  destruct (is_divlike o) eqn:Ed; cbn [andb].
  - destruct g.
    + rewrite (Hg eq_refl), (fold_int_zero t o za Ed). exact I.
    + destruct (fold_int_fn FixedF t o za zb) eqn:E; cbn [opt_num agrees].
      * rewrite F. eexists. split; [apply Hgood; apply (fold_int_range t o za zb z Ra Rb E) | reflexivity].
      * destruct (fixed_int t o za zb); cbn in *; auto.
  - destruct (fold_int_fn FixedF t o za zb) eqn:E; cbn [opt_num agrees].
    + rewrite F. eexists. split; [apply Hgood; apply (fold_int_range t o za zb z Ra Rb E) | reflexivity].
    + destruct (fixed_int t o za zb); cbn in *; auto.
Qed.

Lemma flt_arm_agrees : forall o x y a b (g : bool),
  good x a -> good y b -> g = F_is_zero (Fval b) ->
  agrees (opt_flt (cm_float (is_divlike o) (flt_op o) x y))
         (if is_divlike o && g then Err else Ok (Flt (flt_op o (Fval a) (Fval b)))).
Proof.
  intros o x y a b g Hx Hy ->. unfold cm_float.
  rewrite (good_f64 _ _ Hx), (good_f64 _ _ Hy).
  destruct (is_divlike o && F_is_zero (Fval b)); cbn; [exact I|].
  eexists. split; [|reflexivity]. reflexivity.
Qed.

Lemma good_int : forall z, in_range I32 z = true -> good (NInteger (Dec z)) (Int z).
Proof. intros z H. split; [left; reflexivity | exact H]. Qed.
Lemma good_big : forall z, in_range I128 z = true -> good (NBigInt (Dec z)) (Big z).
Proof. intros z H. split; [left; reflexivity | exact H]. Qed.
Lemma good_byte : forall z, in_range U8 z = true -> good (NByte (Dec z)) (Byte z).
Proof. intros z H. split; [left; reflexivity | exact H]. Qed.

Ltac widen_hyps :=
  repeat match goal with
  | H : in_range U8 ?z = true |- _ =>
      lazymatch goal with
      | _ : in_range I32 z = true |- _ => fail
      | _ => pose proof (in_range_widen U8 I32 z sub_U8_I32 H)
      end
  | H : in_range I32 ?z = true |- _ =>
      lazymatch goal with
      | _ : in_range I128 z = true |- _ => fail
      | _ => pose proof (in_range_widen I32 I128 z sub_I32_I128 H)
      end
  end.

(* + - * / % : the folder (string_arithmetic) agrees with the run-time operator, every pair of kinds *)
Lemma fold_arith_agrees : forall o x y a b, good x a -> good y b ->
  agrees (fold_arith FixedF o x y) (arith Fixed o a b).
Proof.
  intros o x y a b Hx Hy.
  pose proof Hx as Gx. pose proof Hy as Gy.
  destruct x as [tx|tx|tx|tx], a as [za|za|za|fa|ba]; cbn [good] in Hx; try contradiction;
  destruct y as [ty|ty|ty|ty], b as [zb|zb|zb|fb|bb]; cbn [good] in Hy; try contradiction;
  try destruct Hx as [Cx Rx]; try destruct Hy as [Cy Ry]; widen_hyps;
  unfold fold_arith, arith, apply_math;
  cbn [int_arms math_no_f64 math_f64 option_map zero_guard int_op]; widen.
  (* float arms *)
  all: try (match goal with |- agrees (opt_flt _) _ => idtac end;
            apply (flt_arm_agrees o _ _ _ _ _ Gx Gy); cbn [Fval]; rewrite ?F_of_Z_is_zero; reflexivity).
  (* integer arms *)
  all: (apply (int_arm_agrees I32 NInteger Int) || apply (int_arm_agrees I128 NBigInt Big) || apply (int_arm_agrees U8 NByte Byte));
       auto using good_int, good_big, good_byte, eqb0.
Qed.

(* & | xor *)
Lemma bit_arm_agrees : forall t (inj_n : txt -> number) (inj_v : Z -> value) o ta tb za zb,
  canon_txt ta za -> canon_txt tb zb -> in_range t za = true -> in_range t zb = true ->
  (forall z, in_range t z = true -> good (inj_n (Dec z)) (inj_v z)) ->
  agrees (opt_num inj_n (cm_checked (P_ity t) (P_ity t) (fun a b => Some (bit_op o a b)) ta tb))
         (lift inj_v (Ok (bit_op o za zb))).
Proof.
  intros t inj_n inj_v o ta tb za zb Ha Hb Ra Rb Hgood.
  rewrite (cm_checked_canon (P_ity t) (P_ity t) _ _ _ za zb Ha Hb Ra Rb).
  cbn [opt_num agrees lift]. eexists. split; [apply Hgood; apply bit_in_range; assumption | reflexivity].
Qed.

Lemma fold_bit_agrees : forall o x y a b, good x a -> good y b ->
  agrees (fold_bit o x y) (bit o a b).
Proof.
  intros o x y a b Hx Hy.
  destruct x as [tx|tx|tx|tx], a as [za|za|za|fa|ba]; cbn [good] in Hx; try contradiction;
  destruct y as [ty|ty|ty|ty], b as [zb|zb|zb|fb|bb]; cbn [good] in Hy; try contradiction;
  try destruct Hx as [Cx Rx]; try destruct Hy as [Cy Ry]; widen_hyps;
  unfold fold_bit, bit; cbn [int_arms math_no_f64]; widen; try exact I.
  all: (apply (bit_arm_agrees I32 NInteger Int) || apply (bit_arm_agrees I128 NBigInt Big) || apply (bit_arm_agrees U8 NByte Byte));
       auto using good_int, good_big, good_byte.
Qed.

(* << >> *)
Lemma shiftr_in_range : forall t x n, in_range t x = true -> 0 <= n -> in_range t (Z.shiftr x n) = true.
Proof.
  intros t x n Hx Hn. apply in_range_iff in Hx. apply in_range_iff.
  rewrite Z.shiftr_div_pow2 by exact Hn.
  assert (Hp : 0 < 2 ^ n) by (apply Z.pow_pos_nonneg; lia).
  pose proof (Z.div_mod x (2 ^ n) ltac:(lia)) as E.
  pose proof (Z.mod_pos_bound x (2 ^ n) Hp) as B.
  destruct t; cbn [imin imax] in *; nia.
Qed.

Lemma sh_result_in_range : forall t o x n z,
  in_range t x = true -> 0 <= n -> checked_sh t o x n = Some z -> in_range t z = true.
Proof.
  intros t o x n z Hx Hn H. unfold checked_sh in H.
  destruct (n <? width t); [|discriminate]. inversion H. destruct o.
  - apply wrap_in_range.
  - apply shiftr_in_range; assumption.
Qed.

Lemma exact_sh_result_in_range : forall t o x n z,
  in_range t x = true -> 0 <= n -> exact_sh t o x n = Some z -> in_range t z = true.
Proof.
  intros t o x n z Hx Hn H. unfold exact_sh in H. destruct o.
  - destruct (checked_sh t Shl x n) eqn:S; [|discriminate].
    destruct (Z.shiftr z0 n =? x); [|discriminate]. inversion H; subst.
    apply (sh_result_in_range t Shl x n z Hx Hn S).
  - apply (sh_result_in_range t Shr x n z Hx Hn H).
Qed.

Lemma try_u32_byte : forall z, in_range U8 z = true -> try_u32 z = Some z.
Proof.
  intros z H. apply in_range_iff in H. cbn in H. unfold try_u32.
  destruct (Z.leb_spec 0 z); [|lia]. destruct (Z.leb_spec z 4294967295); [reflexivity|lia].
Qed.

Lemma shift_arm_agrees : forall t (inj_n : txt -> number) (inj_v : Z -> value) o ta tb za zb,
  canon_txt ta za -> canon_txt tb zb -> in_range t za = true ->
  (forall z, in_range t z = true -> good (inj_n (Dec z)) (inj_v z)) ->
  agrees (opt_num inj_n (cm_checked (P_ity t) P_u32 (exact_sh t o) ta tb))
         (shift_arm exact_sh t inj_v o za (try_u32 zb)).
Proof.
  intros t inj_n inj_v o ta tb za zb Ha Hb Ra Hgood.
  unfold cm_checked, shift_arm, try_u32.
  rewrite (parse_as_canon _ _ _ Ha). cbn [p_in_range]. rewrite Ra.
  rewrite (parse_as_canon _ _ _ Hb). cbn [p_in_range].
  destruct ((0 <=? zb) && (zb <=? 4294967295)) eqn:E; [|exact I].
  apply andb_true_iff in E. destruct E as [E0 _]. apply Z.leb_le in E0.
  destruct (exact_sh t o za zb) eqn:S; cbn [opt_num agrees is_failure]; [|exact I].
  eexists. split; [apply Hgood; apply (exact_sh_result_in_range t o za zb z Ra E0 S) | reflexivity].
Qed.

Lemma fold_shift_agrees : forall o x y a b, good x a -> good y b ->
  agrees (fold_shift FixedF o x y) (shift_op Fixed o a b).
Proof.
  intros o x y a b Hx Hy.
  destruct x as [tx|tx|tx|tx], a as [za|za|za|fa|ba]; cbn [good] in Hx; try contradiction;
  destruct y as [ty|ty|ty|ty], b as [zb|zb|zb|fb|bb]; cbn [good] in Hy; try contradiction;
  try destruct Hx as [Cx Rx]; try destruct Hy as [Cy Ry]; widen_hyps;
  unfold fold_shift, shift_op; cbn [fold_sh_fn sh_fn]; widen; try exact I.
  all: try (match goal with H : in_range U8 ?z = true |- context [Some ?z] => rewrite <- (try_u32_byte z H) end).
  all: (apply (shift_arm_agrees I32 NInteger Int) || apply (shift_arm_agrees I128 NBigInt Big) || apply (shift_arm_agrees U8 NByte Byte));
       auto using good_int, good_big, good_byte.
Qed.

(* ---------------------------------------------------------------- literals and negation *)
Lemma fold_leaf_agrees : forall n, source (ENum n) ->
  agrees (fold_leaf n) (match fold_leaf n with FVal c => make_c c | _ => Err end).
Proof.
  intros n H. destruct n as [t|t|t|t]; destruct t as [z|z|t']; cbn [source] in H; try contradiction;
  unfold fold_leaf.
  - assert (C : canon_txt (Src z) z) by (right; auto).
    rewrite !(parse_as_canon _ _ _ C). cbn [p_in_range].
    destruct (in_range I32 z) eqn:E1; cbn [agrees make_c].
    + exists (Int z). split; [split; assumption | apply good_make; split; assumption].
    + destruct (in_range I128 z) eqn:E2; cbn [agrees make_c is_failure]; [|exact I].
      exists (Big z). split; [split; assumption | apply good_make; split; assumption].
  - assert (C : canon_txt (Src z) z) by (right; auto).
    rewrite !(parse_as_canon _ _ _ C). cbn [p_in_range].
    destruct (in_range I128 z) eqn:E2; cbn [agrees make_c is_failure]; [|exact I].
    exists (Big z). split; [split; assumption | apply good_make; split; assumption].
  - cbn [agrees make_c make parse_f]. exists (Flt z). split; reflexivity.
  - assert (C : canon_txt (Src z) z) by (right; split; [reflexivity | lia]).
    assert (R : in_range U8 z = true) by (apply in_range_iff; cbn; lia).
    cbn [agrees make_c]. exists (Byte z). split; [split; assumption | apply good_make; split; assumption].
Qed.

Lemma negate_agrees : forall n v, good n v ->
  match negate_num FixedF n with
  | Ok (Some n') => exists v', good n' v' /\ negate Fixed v = Ok v'
  | Ok None => True
  | _ => is_failure (negate Fixed v)
  end.
Proof.
  intros n v H. destruct n as [t|t|t|t], v as [z|z|z|f|b]; cbn [good] in H; try contradiction;
  unfold negate_num, negate, neg_int.
  - destruct H as [C R]. rewrite (parse_as_canon _ _ _ C). cbn [p_in_range]. rewrite R.
    unfold checked. destruct (in_range I32 (- z)) eqn:E; cbn [expect lift is_failure]; [|exact I].
    exists (Int (- z)). split; [apply good_int; exact E | reflexivity].
  - destruct H as [C R]. rewrite (parse_as_canon _ _ _ C). cbn [p_in_range]. rewrite R.
    unfold checked. destruct (in_range I128 (- z)) eqn:E; cbn [expect lift is_failure]; [|exact I].
    exists (Big (- z)). split; [apply good_big; exact E | reflexivity].
  - exists (Flt (F_neg f)). split; [|reflexivity]. cbn [good].
    destruct t as [g|g|t']; cbn [parse_f f_leading_minus] in *.
    + inversion H. subst. cbn. reflexivity.
    + inversion H. subst. destruct (f_sign_printed f) eqn:S; cbn [parse_f f_leading_minus]; [reflexivity|].
      rewrite S. reflexivity.
    + destruct (f_leading_minus t'); [discriminate|].
      destruct t' as [g|g|t'']; try discriminate; inversion H; subst; cbn [parse_f];
      rewrite F_neg_involutive; reflexivity.
  - exact I.
Qed.

(* ---------------------------------------------------------------- the theorem *)
Lemma bind_failure_l : forall {A B} (r : res A) (f : A -> res B), is_failure r -> is_failure (bind r f).
Proof. intros A B r f H. destruct r; cbn in *; [contradiction | exact I | exact I]. Qed.

Theorem fold_agrees : forall e, source e -> agrees (fold FixedF e) (eval_rt Fixed e).
Proof.
  induction e as [n|b|e1 IH|e1 IH|op l IHl r IHr]; intros S; cbn [fold eval_rt].
  - apply fold_leaf_agrees. exact S.
  - reflexivity.
  - (* unary minus *)
    specialize (IH S). destruct (fold FixedF e1) as [[n|b]| |]; cbn [agrees] in IH |- *.
    + destruct IH as (v & G & E). rewrite E. cbn [bind].
      destruct n as [t|t|t|t]; cbn [supports_negate]; try exact I;
      pose proof (negate_agrees _ _ G) as N;
      match type of N with context [negate_num FixedF ?n] => destruct (negate_num FixedF n) as [[n'|]| |] end;
      cbn [agrees]; auto.
    + exact I.
    + apply bind_failure_l. exact IH.
    + exact I.
  - (* not *)
    specialize (IH S). destruct (fold FixedF e1) as [[n|b]| |]; cbn [agrees] in IH |- *.
    + exact I.
    + rewrite IH. reflexivity.
    + apply bind_failure_l. exact IH.
    + exact I.
  - (* binary operator *)
    destruct S as [Sl Sr]. specialize (IHl Sl). specialize (IHr Sr).
    destruct (fold FixedF l) as [cl| |] eqn:El.
    + destruct (fold FixedF r) as [cr| |] eqn:Er.
      * destruct cl as [x|bl]; [|destruct cr; exact I].
        destruct cr as [y|br]; [|exact I].
        cbn [agrees] in IHl, IHr. destruct IHl as (a & Ga & Ea). destruct IHr as (b & Gb & Eb).
        rewrite Ea, Eb. cbn [bind].
        destruct op as [o|o|o|o|o]; cbn [binop_eval]; try exact I.
        -- apply fold_arith_agrees; assumption.
        -- apply fold_bit_agrees; assumption.
        -- apply fold_shift_agrees; assumption.
      * cbn [agrees] in IHr |- *. destruct (eval_rt Fixed l); cbn [bind is_failure]; try exact I.
        apply bind_failure_l. exact IHr.
      * destruct cl; exact I.
    + cbn [agrees] in IHl |- *. apply bind_failure_l. exact IHl.
    + destruct (fold FixedF r) as [cr| |] eqn:Er; cbn [agrees]; try exact I.
      cbn [agrees] in IHr. destruct (eval_rt Fixed l); cbn [bind is_failure]; try exact I.
      apply bind_failure_l. exact IHr.
Qed.

(* the folder yields the run-time value and kind; it rejects only when run-time evaluation fails;
   whenever run-time evaluation fails the folder does not produce a constant *)
Corollary fold_value : forall e n, source e -> fold FixedF e = FVal (CNum n) ->
  exists v, make n = Ok v /\ eval_rt Fixed e = Ok v.
Proof.
  intros e n S H. pose proof (fold_agrees e S) as A. rewrite H in A. cbn in A.
  destruct A as (v & G & E). exists v. split; [apply good_make; exact G | exact E].
Qed.

Corollary fold_reject : forall e, source e -> fold FixedF e = FErr -> is_failure (eval_rt Fixed e).
Proof. intros e S H. pose proof (fold_agrees e S) as A. rewrite H in A. exact A. Qed.

Corollary fold_failure_not_folded : forall e c, source e ->
  is_failure (eval_rt Fixed e) -> fold FixedF e <> FVal c.
Proof.
  intros e c S F H. pose proof (fold_agrees e S) as A. rewrite H in A.
  destruct c as [n|b]; cbn in A.
  - destruct A as (v & _ & E). rewrite E in F. exact F.
  - rewrite A in F. exact F.
Qed.

(* ================================================================ literals the folder never sees
   fixes/literal-kind-decided-once.diff: the kind of an integer literal is decided by the parser *)
Lemma fold_leaf_literal_int : forall z n, 0 <= z -> literal_int z = Some n ->
  fold_leaf n = fold_leaf (NInteger (Src z)).
Proof.
  intros z n Hz H. unfold literal_int in H.
  destruct (in_range I128 z) eqn:R128; [|discriminate].
  destruct (in_range I32 z) eqn:R32; inversion H; subst; [reflexivity|].
  unfold fold_leaf, parse_as; cbn [p_signed signed negb andb leading_minus parse_Z p_in_range].
  rewrite R32, R128. reflexivity.
Qed.

Lemma literal_int_parsed : forall z n, literal_int z = Some n -> parsed (ENum n).
Proof.
  intros z n H. unfold literal_int in H.
  destruct (in_range I128 z); [|discriminate].
  destruct (in_range I32 z) eqn:R32; inversion H; subst; cbn; auto.
Qed.

(* with such leaves a tree compiled as written evaluates exactly like the tree over variables *)
Theorem inline_agrees : forall v e, source e -> parsed e -> eval_inline v e = eval_rt v e.
Proof.
  intros v e. induction e as [n|b|e1 IH|e1 IH|op l IHl r IHr]; intros S P; cbn [eval_inline eval_rt].
  - destruct n as [t|t|t|t]; cbn [source parsed] in *.
    + destruct t as [z|z|t']; try contradiction.
      unfold fold_leaf, make, parse_as; cbn [p_signed signed negb andb leading_minus parse_Z p_in_range].
      rewrite P. cbn [make_c make]. unfold parse_as; cbn [p_signed signed negb andb leading_minus parse_Z p_in_range].
      rewrite P. reflexivity.
    + destruct t as [z|z|t']; try contradiction.
      unfold fold_leaf, make, parse_as; cbn [p_signed signed negb andb leading_minus parse_Z p_in_range].
      destruct (in_range I128 z) eqn:R; [|reflexivity].
      cbn [make_c make]. unfold parse_as; cbn [p_signed signed negb andb leading_minus parse_Z p_in_range].
      rewrite R. reflexivity.
    + reflexivity.
    + reflexivity.
  - reflexivity.
  - rewrite (IH S P). reflexivity.
  - rewrite (IH S P). reflexivity.
  - destruct S as [Sl Sr], P as [Pl Pr]. rewrite (IHl Sl Pl), (IHr Sr Pr). reflexivity.
Qed.

(* the ORIGINAL parser left `3000000000` an Integer: `3000000000 < 5` is not folded, is accepted, and dies
   in make_int, while the same comparison over variables is false *)
Definition e_big_cmp := EBin (Cmp CLt) (ENum (NInteger (Src 3000000000))) (ENum (NInteger (Src 5))).
Lemma orig_oversized_literal_refuted : forall v,
  source e_big_cmp /\ fold FixedF e_big_cmp = FNot /\ fold OrigF e_big_cmp = FNot /\
  eval_inline v e_big_cmp = Err /\ eval_rt v e_big_cmp = Ok (Bool false) /\
  (exists n, literal_int 3000000000 = Some n /\
             eval_inline v (EBin (Cmp CLt) (ENum n) (ENum (NInteger (Src 5)))) = Ok (Bool false)).
Proof.
  intros v. split; [cbn; lia|]. split; [reflexivity|]. split; [reflexivity|].
  split; [reflexivity|]. split; [destruct v as [[|]|]; reflexivity|].
  eexists. split; [reflexivity|]. destruct v as [[|]|]; reflexivity.
Qed.

(* `<<`: folder and run time were changed together (fixes/num-shl-lost-bits.diff); before, both produced the
   truncated pattern (C06 held, C05 did not) *)
Definition e_shl := EBin (Shift Shl) (ENum (NInteger (Src 1))) (ENum (NInteger (Src 31))).    (* 1 << 31 *)
Lemma shl_changed_together : forall m,
  source e_shl /\ fold FixedF e_shl = FErr /\ eval_rt Fixed e_shl = Err /\
  fold OrigF e_shl = FVal (CNum (NInteger (Dec (-2147483648)))) /\
  eval_rt (Orig m) e_shl = Ok (Int (-2147483648)).
Proof.
  intros m. split; [cbn; lia|]. split; [vm_compute; reflexivity|]. split; [vm_compute; reflexivity|].
  split; [vm_compute; reflexivity | destruct m; vm_compute; reflexivity].
Qed.

(* ================================================================ the ORIGINAL folder: real disagreements
   (each reproduced on the real binary; repaired by fixes/fold-negate.diff, fixes/num-byte-zero-divisor.diff
   and fixes/num-rem-min-by-minus-one.diff) *)
Definition e_neg_big := ENeg (ENum (NBigInt (Src 5))).                                   (* -B5 *)
Definition e_neg_neg := ENeg (ENeg (ENum (NInteger (Src 5)))).                           (* -(-5) *)
Definition e_flt_byte0 := EBin (Arith Div) (ENum (NFloat (FSrc (F_of_Z 3)))) (ENum (NByte (Src 0))).   (* 3.0 / 0b0 *)
Definition e_min_rem := EBin (Arith Rem)
  (EBin (Arith Sub) (ENeg (ENum (NInteger (Src 2147483647)))) (ENum (NInteger (Src 1))))
  (ENeg (ENum (NInteger (Src 1)))).                                                      (* (-2147483647 - 1) % -1 *)

(* `-B5` folds to an int, run time yields a bigint *)
Lemma orig_neg_bigint_refuted : forall m,
  source e_neg_big /\
  (exists n, fold OrigF e_neg_big = FVal (CNum n) /\ make n = Ok (Int (-5))) /\
  eval_rt (Orig m) e_neg_big = Ok (Big (-5)).
Proof.
  intros m. split; [cbn; lia|]. split.
  - eexists. split; reflexivity.
  - destruct m; reflexivity.
Qed.

(* `-(-5)` folds to the text "--5": the compiler accepts it and make_int fails at run time *)
Lemma orig_double_negation_refuted : forall m,
  source e_neg_neg /\
  (exists n, fold OrigF e_neg_neg = FVal (CNum n) /\ make n = Err) /\
  eval_rt (Orig m) e_neg_neg = Ok (Int 5).
Proof.
  intros m. split; [cbn; lia|]. split.
  - eexists. split; reflexivity.
  - destruct m; reflexivity.
Qed.

(* the folder rejects `3.0 / 0b0`, the original run time accepts it (inf) *)
Lemma orig_float_by_byte_zero_fold_refuted : forall m,
  source e_flt_byte0 /\ fold OrigF e_flt_byte0 = FErr /\
  eval_rt (Orig m) e_flt_byte0 = Ok (Flt (B754_infinity false)).
Proof.
  intros m. split; [cbn; repeat split; lia|]. split.
  - vm_compute. reflexivity.
  - destruct m; vm_compute; reflexivity.
Qed.

(* why the `%` of the folder is changed together with the run time: the original folder (checked_rem)
   rejects `MIN % -1`, the fixed run time yields 0 *)
Lemma orig_min_rem_fold_refuted :
  source e_min_rem /\ eval_rt Fixed e_min_rem = Ok (Int 0) /\
  fold FixedF e_min_rem = FVal (CNum (NInteger (Dec 0))).
Proof. split; [cbn; repeat split; lia|]. split; vm_compute; reflexivity. Qed.
