(* Executable model of the compiler's constant folder.

     compiler/src/ast/number.rs     Number::{Integer,BigInt,Float,Byte}(String), Number::negate,
                                    CompileTimeEvaluate for Number (widening of an int literal),
                                    mod string_arithmetic (compiler_math!, number_impl!)
     compiler/src/ast/math_expr.rs  CompileTimeEvaluate for Expr (UnaryNot, UnaryMinus, BinOp)
     compiler/src/ast/value.rs      Value::try_negate, ConstexprEvaluation, Parser::value

   Literal values are carried as TEXT through folding.  The model keeps the text abstractly, with exactly
   the distinctions the code can observe:
     Src z      digits of a source literal (no sign), value z
     Dec z      the output of `to_string` on an integer: "-" ++ digits when z < 0
     Minus t    "-" ++ t              (what the ORIGINAL Number::negate produces)
   and likewise for floats (FSrc / FDec / FMinus), a float text being identified with the double it parses
   to (Rust's f64 Display / FromStr round trip and correctly rounded decimal parsing are assumptions of the
   model, exercised by the correspondence check).

   [fversion]: OrigF = the folder before fixes/fold-negate.diff, the `%` part of
   fixes/num-rem-min-by-minus-one.diff and the folder part of fixes/num-shl-lost-bits.diff (`<<` through
   ExactShl::exact_shl instead of checked_shl), FixedF = after.

   fixes/literal-kind-decided-once.diff moves the widening of an integer literal that does not fit 32 bits
   from CompileTimeEvaluate for Number into number_from_string ([literal_int] below): the folder sees the
   same Number either way ([fold_leaf_literal_int]); what changes is the code generated for a literal the
   folder never evaluates (an operand of a comparison), which [eval_rt] already describes. *)
From MS Require Export Num.NumImpl.

Inductive fversion := OrigF | FixedF.

(* ---------------------------------------------------------------- texts *)
Inductive txt := Src (z : Z) | Dec (z : Z) | Minus (t : txt).
Inductive ftxt := FSrc (f : float) | FDec (f : float) | FMinus (t : ftxt).

Inductive number :=
| NInteger (t : txt)    (* Number::Integer(String) *)
| NBigInt (t : txt)
| NFloat (t : ftxt)
| NByte (t : txt).

(* the text starts with '-' *)
Definition leading_minus (t : txt) : bool :=
  match t with Src _ => false | Dec z => z <? 0 | Minus _ => true end.
Definition f_sign_printed (f : float) : bool :=      (* Display prints NaN without a sign *)
  match f with B754_zero s | B754_infinity s | B754_finite s _ _ _ => s | B754_nan => false end.
Definition f_leading_minus (t : ftxt) : bool :=
  match t with FSrc _ => false | FDec f => f_sign_printed f | FMinus _ => true end.

(* Rust's <integer>::from_str : optional sign, then digits; a second '-' is an invalid digit *)
Definition parse_Z (t : txt) : option Z :=
  match t with
  | Src z => Some z
  | Dec z => Some z
  | Minus t' => if leading_minus t' then None
                else match t' with Src z | Dec z => Some (- z) | Minus _ => None end
  end.

(* target types of the parse!() macro *)
Inductive pty := P_ity (t : ity) | P_u32.
Definition p_signed (p : pty) : bool := match p with P_ity t => signed t | P_u32 => false end.
Definition p_in_range (p : pty) (z : Z) : bool :=
  match p with P_ity t => in_range t z | P_u32 => (0 <=? z) && (z <=? 4294967295) end.

(* text.parse::<T>() : unsigned types reject a leading '-' (even "-0") *)
Definition parse_as (p : pty) (t : txt) : option Z :=
  if negb (p_signed p) && leading_minus t then None
  else match parse_Z t with
       | Some z => if p_in_range p z then Some z else None
       | None => None
       end.

(* f64::from_str on a float text / on an integer text (correctly rounded) *)
Definition parse_f (t : ftxt) : option float :=
  match t with
  | FSrc f => Some f
  | FDec f => Some f
  | FMinus t' => if f_leading_minus t' then None
                 else match t' with FSrc f | FDec f => Some (F_neg f) | FMinus _ => None end
  end.
Definition parse_f_of_int (t : txt) : option float :=
  match t with
  | Src z => Some (F_of_Z z)
  | Dec z => Some (F_of_Z z)
  | Minus t' => if leading_minus t' then None
                else match t' with Src z | Dec z => Some (F_neg (F_of_Z z)) | Minus _ => None end
  end.
Definition parse_num_f64 (n : number) : option float :=      (* parse!(x, f64) on any Number's text *)
  match n with NFloat t => parse_f t | NInteger t | NBigInt t | NByte t => parse_f_of_int t end.

(* ---------------------------------------------------------------- outcomes of try_constexpr_eval *)
Inductive cval := CNum (n : number) | CBool (b : bool).
Inductive fres :=
| FVal (c : cval)    (* Ok(ConstexprEvaluation::Owned(..)) *)
| FErr               (* Err(..): the compiler rejects the program *)
| FNot.              (* Ok(ConstexprEvaluation::Impossible): left to run time *)

(* ---------------------------------------------------------------- CompileTimeEvaluate for Number *)
Definition fold_leaf (n : number) : fres :=
  match n with
  | NInteger t =>
      match parse_as (P_ity I32) t with
      | Some _ => FVal (CNum (NInteger t))
      | None => match parse_as (P_ity I128) t with     (* window = BigInt(i); b.parse::<i128>()? *)
                | Some _ => FVal (CNum (NBigInt t))
                | None => FErr
                end
      end
  | NBigInt t => match parse_as (P_ity I128) t with Some _ => FVal (CNum n) | None => FErr end
  | _ => FVal (CNum n)
  end.

(* number_from_string for Rule::integer / Rule::hex_int with fixes/literal-kind-decided-once.diff:
   int_or_bigint(value, text); a literal beyond i128 is a parse error before it (`as_str.parse()?`) *)
Definition literal_int (z : Z) : option number :=
  if in_range I128 z then Some (if in_range I32 z then NInteger (Src z) else NBigInt (Src z)) else None.

(* ---------------------------------------------------------------- Number::negate *)
Definition negate_num (v : fversion) (n : number) : res (option number) :=
  match v with
  | OrigF =>                                   (* prepend "-"; a BigInt becomes an Integer *)
      match n with
      | NInteger t => Ok (Some (NInteger (Minus t)))
      | NBigInt t => Ok (Some (NInteger (Minus t)))
      | NFloat t => Ok (Some (NFloat (FMinus t)))
      | NByte _ => Ok None
      end
  | FixedF =>                                  (* parse, checked_neg, to_string; floats: toggle the sign text *)
      match n with
      | NInteger t => match parse_as (P_ity I32) t with
                      | Some z => match checked I32 (- z) with Some r => Ok (Some (NInteger (Dec r))) | None => Err end
                      | None => Err end
      | NBigInt t => match parse_as (P_ity I128) t with
                     | Some z => match checked I128 (- z) with Some r => Ok (Some (NBigInt (Dec r))) | None => Err end
                     | None => Err end
      | NFloat t => Ok (Some (NFloat match t with
                                      | FMinus t' => t'                                   (* strip_prefix('-') *)
                                      | FDec f => if f_sign_printed f then FDec (F_neg f) else FMinus t
                                      | FSrc _ => FMinus t
                                      end))
      | NByte _ => Ok None
      end
  end.

(* ---------------------------------------------------------------- mod string_arithmetic *)
(* compiler_math!(@lhs_ty, @rhs_ty, @output_ty: x checked_op y): parse!(x)?, parse!(y)?, checked op, to_string *)
Definition cm_checked (lt rt : pty) (f : Z -> Z -> option Z) (x y : txt) : option txt :=
  match parse_as lt x with
  | None => None
  | Some l => match parse_as rt y with
              | None => None
              | Some r => match f l r with Some z => Some (Dec z) | None => None end
              end
  end.

(* compiler_math!(f64: x op y fp [nonzero]) on the texts of two Numbers *)
Definition cm_float (nonzero : bool) (f : float -> float -> float) (x y : number) : option ftxt :=
  match parse_num_f64 x with
  | None => None
  | Some l => match parse_num_f64 y with
              | None => None
              | Some r => if nonzero && F_is_zero r then None else Some (FDec (f l r))
              end
  end.

(* <int>::checked_add / checked_sub / checked_mul = NumImpl.checked on the exact result *)
Definition checked_div (t : ity) (x y : Z) : option Z :=          (* <int>::checked_div *)
  if y =? 0 then None else if min_by_m1 t x y then None else Some (Z.quot x y).
Definition checked_rem (t : ity) (x y : Z) : option Z :=          (* <int>::checked_rem *)
  if y =? 0 then None else if min_by_m1 t x y then None else Some (Z.rem x y).
Definition exact_rem (t : ity) (x y : Z) : option Z :=            (* ExactRem: rhs == 0 ? None : wrapping_rem *)
  if y =? 0 then None else Some (Z.rem x y).

(* the checked integer operation named in number_impl!(.. as ..) *)
Definition fold_int_fn (v : fversion) (t : ity) (o : aop) : Z -> Z -> option Z :=
  match o with
  | Add => fun x y => checked t (x + y)
  | Sub => fun x y => checked t (x - y)
  | Mul => fun x y => checked t (x * y)
  | Div => checked_div t
  | Rem => match v with OrigF => checked_rem t | FixedF => exact_rem t end
  end.

Definition opt_num (inj : txt -> number) (o : option txt) : fres :=
  match o with Some t => FVal (CNum (inj t)) | None => FErr end.
Definition opt_flt (o : option ftxt) : fres :=
  match o with Some t => FVal (CNum (NFloat t)) | None => FErr end.

(* the nine integer arms: result kind and the type both operands are parsed as *)
Definition int_arms (f : ity -> Z -> Z -> option Z) (x y : number) : option fres :=
  let arm (t : ity) (inj : txt -> number) (a b : txt) :=
    Some (opt_num inj (cm_checked (P_ity t) (P_ity t) (f t) a b)) in
  match x, y with
  | NInteger a, NInteger b => arm I32 NInteger a b
  | NInteger a, NBigInt b => arm I128 NBigInt a b
  | NInteger a, NByte b => arm I32 NInteger a b
  | NBigInt a, NInteger b => arm I128 NBigInt a b
  | NBigInt a, NBigInt b => arm I128 NBigInt a b
  | NBigInt a, NByte b => arm I128 NBigInt a b
  | NByte a, NInteger b => arm I32 NInteger a b
  | NByte a, NBigInt b => arm I128 NBigInt a b
  | NByte a, NByte b => arm U8 NByte a b
  | _, _ => None
  end.

(* Add / Sub / Mul (number_impl!(checked_x as X)), Div / Rem (fpNonzero): integer arms, else float arms *)
Definition fold_arith (v : fversion) (o : aop) (x y : number) : fres :=
  match int_arms (fun t => fold_int_fn v t o) x y with
  | Some r => r
  | None => opt_flt (cm_float (is_divlike o) (flt_op o) x y)
  end.

(* bitand / bitor / bitxor (infallible): `_ => bail!("floating point operations are not allowed")` *)
Definition fold_bit (o : bop) (x y : number) : fres :=
  match int_arms (fun _ a b => Some (bit_op o a b)) x y with Some r => r | None => FErr end.

(* checked_shl (fixed: exact_shl) / checked_shr (bitshift): lhs parsed as the output type, rhs as u32 *)
Definition fold_sh_fn (v : fversion) : ity -> sop -> Z -> Z -> option Z :=
  match v with OrigF => checked_sh | FixedF => exact_sh end.

Definition fold_shift (v : fversion) (o : sop) (x y : number) : fres :=
  let arm (t : ity) (inj : txt -> number) (a b : txt) :=
    opt_num inj (cm_checked (P_ity t) P_u32 (fold_sh_fn v t o) a b) in
  match x, y with
  | NInteger a, NInteger b => arm I32 NInteger a b
  | NInteger a, NBigInt b => arm I128 NBigInt a b
  | NInteger a, NByte b => arm I32 NInteger a b
  | NBigInt a, NInteger b => arm I128 NBigInt a b
  | NBigInt a, NBigInt b => arm I128 NBigInt a b
  | NBigInt a, NByte b => arm I128 NBigInt a b
  | NByte a, NInteger b => arm I32 NInteger a b
  | NByte a, NBigInt b => arm I128 NBigInt a b
  | NByte a, NByte b => arm U8 NByte a b
  | _, _ => FErr
  end.

(* ---------------------------------------------------------------- literal expression trees *)
Inductive lexpr :=
| ENum (n : number)
| EBool (b : bool)
| ENeg (e : lexpr)                    (* Expr::UnaryMinus *)
| ENot (e : lexpr)                    (* Expr::UnaryNot *)
| EBin (op : binop) (l r : lexpr).    (* Expr::BinOp; parentheses are transparent in the AST *)

Definition supports_negate (c : cval) : bool :=     (* TypeLayout::supports_negate on the value's type *)
  match c with CNum (NByte _) => false | _ => true end.

(* CompileTimeEvaluate for Expr *)
Fixpoint fold (v : fversion) (e : lexpr) : fres :=
  match e with
  | ENum n => fold_leaf n
  | EBool b => FVal (CBool b)
  | ENot e1 =>
      match fold v e1 with
      | FVal (CBool b) => FVal (CBool (negb b))
      | FVal _ => FNot
      | r => r
      end
  | ENeg e1 =>
      match fold v e1 with
      | FVal c =>
          if supports_negate c then
            match c with
            | CNum n => match negate_num v n with
                        | Ok (Some n') => FVal (CNum n')
                        | Ok None => FNot
                        | _ => FErr
                        end
            | CBool _ => FNot                       (* try_negate: `_ => Ok(None)` *)
            end
          else FNot
      | r => r
      end
  | EBin op l r =>
      match fold v l with
      | FErr => FErr                                (* lhs.try_constexpr_eval()? *)
      | fl => match fold v r with
              | FErr => FErr
              | fr => match fl, fr with
                      | FVal (CNum x), FVal (CNum y) =>
                          match op with
                          | Arith o => fold_arith v o x y
                          | Bit o => fold_bit o x y
                          | Shift o => fold_shift v o x y
                          | Cmp _ | Equ _ => FNot
                          end
                      | _, _ => FNot
                      end
              end
      end
  end.

(* ---------------------------------------------------------------- what a folded constant becomes at run time *)
(* Compile for Number: make_int / make_bigint / make_float / make_byte <text>  (primitive.rs make_int etc.) *)
Definition make (n : number) : res value :=
  match n with
  | NInteger t => match parse_as (P_ity I32) t with Some z => Ok (Int z) | None => Err end
  | NBigInt t => match parse_as (P_ity I128) t with Some z => Ok (Big z) | None => Err end
  | NFloat t => match parse_f t with Some f => Ok (Flt f) | None => Err end
  | NByte t => match parse_as (P_ity U8) t with Some z => Ok (Byte z) | None => Panic end   (* .expect(..) *)
  end.
Definition make_c (c : cval) : res value :=
  match c with CNum n => make n | CBool b => Ok (Bool b) end.

(* ---------------------------------------------------------------- run-time evaluation of the same tree *)
(* every literal leaf reaches the operator through a variable: `a = <literal>` (the literal itself goes
   through fold_leaf and make_int etc.), operators are the run-time operators of NumImpl *)
Definition bind {A B} (r : res A) (f : A -> res B) : res B :=
  match r with Ok a => f a | Err => Err | Panic => Panic end.

Fixpoint eval_rt (v : version) (e : lexpr) : res value :=
  match e with
  | ENum n => match fold_leaf n with FVal c => make_c c | _ => Err end
  | EBool b => Ok (Bool b)
  | ENeg e1 => bind (eval_rt v e1) (negate v)
  | ENot e1 => bind (eval_rt v e1) not_
  | EBin op l r => bind (eval_rt v l) (fun a => bind (eval_rt v r) (fun b => binop_eval v op a b))
  end.

(* ---------------------------------------------------------------- a tree the folder leaves to run time *)
(* When try_constexpr_eval answers Impossible (FNot: a comparison at the root, say) the expression is
   compiled as written: every literal leaf through Compile for Number (make_int <text> for an Integer,
   WITHOUT the widening of fold_leaf), the operators at run time. *)
Fixpoint eval_inline (v : version) (e : lexpr) : res value :=
  match e with
  | ENum n => make n
  | EBool b => Ok (Bool b)
  | ENeg e1 => bind (eval_inline v e1) (negate v)
  | ENot e1 => bind (eval_inline v e1) not_
  | EBin op l r => bind (eval_inline v l) (fun a => bind (eval_inline v r) (fun b => binop_eval v op a b))
  end.

(* what the parser with fixes/literal-kind-decided-once.diff produces: an Integer leaf fits 32 bits
   (literal_int turned every other one into a BigInt) *)
Fixpoint parsed (e : lexpr) : Prop :=
  match e with
  | ENum (NInteger (Src z)) => in_range I32 z = true
  | ENum _ | EBool _ => True
  | ENeg e1 | ENot e1 => parsed e1
  | EBin _ l r => parsed l /\ parsed r
  end.

(* source literals: digits without sign; a byte literal fits 8 bits (the parser's u8::from_str_radix) *)
Fixpoint source (e : lexpr) : Prop :=
  match e with
  | ENum (NInteger (Src z)) | ENum (NBigInt (Src z)) => 0 <= z
  | ENum (NByte (Src z)) => 0 <= z <= 255
  | ENum (NFloat (FSrc f)) => f_sign_printed f = false
  | ENum _ => False
  | EBool _ => True
  | ENeg e1 | ENot e1 => source e1
  | EBin _ l r => source l /\ source r
  end.
