(* Theorems about the foreign-call model (Ffi/Model.v); every statement is for EVERY foreign behaviour `ffi`,
   every operand stack, every surrounding program. *)
From Coq Require Import ZArith.
From MS Require Import Base.Str Ffi.Model.

(* ---- call_lib passes exactly the operand stack ------------------------------------------------------ *)

(* the step consults the foreign world at one point only: (lib, f, the operand stack as it is, in order) *)
Theorem call_lib_passes_stack :
  forall (ffi1 ffi2 : str -> str -> list value -> ffi_outcome) (lib f : str) (s : vm),
  ffi1 lib f (stack s) = ffi2 lib f (stack s) ->
  exec_instr ffi1 (CallLib lib f) s = exec_instr ffi2 (CallLib lib f) s.
Proof. intros ffi1 ffi2 lib f s H. cbn [exec_instr]. rewrite H. reflexivity. Qed.

(* a whole run consults the foreign world only at (library, symbol) pairs that ONE call_lib instruction of the program
   names together: what symbol S does in library A is irrelevant to an instruction naming (B, S), however often and in
   whatever order A's S was called before - there is no state carried from one foreign call to the next *)
Theorem run_consults_named_pairs_only :
  forall (ffi1 ffi2 : str -> str -> list value -> ffi_outcome) (prog : list instr),
  (forall lib f args, In (CallLib lib f) prog -> ffi1 lib f args = ffi2 lib f args) ->
  forall (ip : nat) (s : vm), run_from ffi1 ip prog s = run_from ffi2 ip prog s.
Proof.
  intros ffi1 ffi2 prog. induction prog as [|i rest IH]; intros H ip s; [reflexivity|].
  cbn [run_from].
  assert (E : exec_instr ffi1 i (mark ip s) = exec_instr ffi2 i (mark ip s)).
  { destruct i; try reflexivity. apply call_lib_passes_stack. apply H. left. reflexivity. }
  rewrite E. destruct (exec_instr ffi2 i (mark ip s)); try reflexivity.
  apply IH. intros lib f args Hin. apply H. right. exact Hin.
Qed.

Section WithFfi.
Variable ffi : str -> str -> list value -> ffi_outcome.

(* whenever the foreign function is entered, the call made is (lib, f, operand stack) and it is the only one *)
Theorem call_lib_call_logged : forall (lib f : str) (s : vm) (r : step_result),
  exec_instr ffi (CallLib lib f) s = r ->
  match ffi lib f (stack s) with
  | Value _ | NoValue | Raised _ =>
      exists s', (r = Next s' \/ exists e, r = Fail e s') /\ calls s' = calls s ++ [(lib, f, stack s)]
  | NoLibrary | NoSymbol => exists e s', r = Fail e s' /\ calls s' = calls s
  end.
Proof.
  intros lib f s r H. cbn [exec_instr] in H. destruct (ffi lib f (stack s)); subst r.
  - eexists. split; [left; reflexivity|reflexivity].
  - eexists. split; [left; reflexivity|reflexivity].
  - eexists. split; [right; eexists; reflexivity|reflexivity].
  - do 2 eexists. split; reflexivity.
  - do 2 eexists. split; reflexivity.
Qed.

Lemma run_pre_pushes : forall (vs : list value) (ip : nat) (s : vm),
  run_pre ffi ip (map Push vs) s =
  Some (mkVm (stack s ++ vs) (out s)
             (steps s ++ map (fun k => (ip + k, length (stack s) + k)%nat) (seq 0 (length vs))) (calls s)).
Proof.
  induction vs as [|v vs IH]; intros ip s.
  - cbn. rewrite !app_nil_r. destruct s; reflexivity.
  - cbn [map run_pre exec_instr mark stack out steps calls]. rewrite IH. cbn [stack out steps calls].
    rewrite <- !app_assoc. cbn [app length seq map]. rewrite <- seq_shift, map_map.
    rewrite !Nat.add_0_r. f_equal. f_equal. f_equal. f_equal.
    apply map_ext. intro k. rewrite app_length. cbn [length]. f_equal; lia.
Qed.

(* pushing v1 .. vn onto an empty stack and calling: the foreign function receives exactly [v1; ..; vn] *)
Theorem call_lib_receives_pushed : forall (vs : list value) (lib f : str),
  exists s, run_pre ffi O (map Push vs) init = Some s /\ stack s = vs /\ calls s = [] /\ out s = [] /\
  match ffi lib f vs with
  | Value _ | NoValue | Raised _ =>
      forall r, exec_instr ffi (CallLib lib f) (mark (length vs) s) = r ->
      exists s', (r = Next s' \/ exists e, r = Fail e s') /\ calls s' = [(lib, f, vs)]
  | _ => True
  end.
Proof.
  intros vs lib f. eexists. split; [apply run_pre_pushes|]. cbn [stack calls out init app].
  split; [reflexivity|]. split; [reflexivity|]. split; [reflexivity|].
  destruct (ffi lib f vs) eqn:E; try exact I; intros r Hr; subst r; cbn [exec_instr mark stack calls out steps app]; rewrite E.
  - eexists. split; [left; reflexivity|reflexivity].
  - eexists. split; [left; reflexivity|reflexivity].
  - eexists. split; [right; eexists; reflexivity|reflexivity].
Qed.

(* ---- result delivery ------------------------------------------------------------------------------ *)

(* the code clears the operand stack when the request is made and pushes the returned value: the stack is
   exactly [v] afterwards (the arguments are consumed); with no value it is empty.  Output untouched. *)
Theorem call_lib_result : forall (lib f : str) (s : vm),
  (forall v, ffi lib f (stack s) = Value v ->
     exec_instr ffi (CallLib lib f) s = Next (mkVm [v] (out s) (steps s) (calls s ++ [(lib, f, stack s)]))) /\
  (ffi lib f (stack s) = NoValue ->
     exec_instr ffi (CallLib lib f) s = Next (mkVm [] (out s) (steps s) (calls s ++ [(lib, f, stack s)]))).
Proof. intros lib f s. split; [intros v H|intro H]; cbn [exec_instr]; rewrite H; reflexivity. Qed.

Lemma run_from_app : forall (pre rest : list instr) (ip : nat) (s0 s : vm),
  run_pre ffi ip pre s0 = Some s -> run_from ffi ip (pre ++ rest) s0 = run_from ffi (ip + length pre) rest s.
Proof.
  induction pre as [|i pre IH]; intros rest ip s0 s H.
  - cbn in H. inversion H; subst. cbn. rewrite Nat.add_0_r. reflexivity.
  - cbn [run_pre] in H. cbn [app run_from length].
    destruct (exec_instr ffi i (mark ip s0)) as [s1|s1|e s1]; try discriminate.
    rewrite (IH rest (S ip) s1 s H). f_equal. lia.
Qed.

(* in a program: after a returned value the NEXT instruction runs, on the stack [v] *)
Theorem call_lib_then_continues : forall (pre post : list instr) (lib f : str) (ip : nat) (s0 s : vm) (v : value),
  run_pre ffi ip pre s0 = Some s -> ffi lib f (stack s) = Value v ->
  run_from ffi ip (pre ++ CallLib lib f :: post) s0 =
  run_from ffi (S (ip + length pre)) post
    (mkVm [v] (out s) (steps s ++ [((ip + length pre)%nat, length (stack s))]) (calls s ++ [(lib, f, stack s)])).
Proof.
  intros pre post lib f ip s0 s v Hpre Hv. rewrite (run_from_app pre _ ip s0 s Hpre).
  cbn [run_from exec_instr mark stack out steps calls]. rewrite Hv. reflexivity.
Qed.

(* ---- errors --------------------------------------------------------------------------------------- *)

Definition error_of (lib f : str) (o : ffi_outcome) : option error :=
  match o with
  | Raised m => Some (EFfi m)
  | NoLibrary => Some (ENoLibrary lib)
  | NoSymbol => Some (ENoSymbol lib f)
  | _ => None
  end.

(* a raised error, a missing library or a missing symbol stops the run with an error carrying the message (resp.
   the library / symbol name); the outcome does not depend on `post` at all - no later instruction executes: the
   last executed instruction is the call_lib -, and the output is what it was before the call *)
Theorem call_lib_error : forall (pre post : list instr) (lib f : str) (ip : nat) (s0 s : vm) (e : error),
  run_pre ffi ip pre s0 = Some s -> error_of lib f (ffi lib f (stack s)) = Some e ->
  exists s', run_from ffi ip (pre ++ CallLib lib f :: post) s0 = RuntimeErr e s' /\
             out s' = out s /\
             steps s' = steps s ++ [((ip + length pre)%nat, length (stack s))] /\
             stack s' = [].
Proof.
  intros pre post lib f ip s0 s e Hpre He. rewrite (run_from_app pre _ ip s0 s Hpre).
  cbn [run_from exec_instr mark stack out steps calls].
  destruct (ffi lib f (stack s)); cbn in He; inversion He; subst e;
    eexists; (split; [reflexivity|]); cbn [out steps stack]; repeat split; reflexivity.
Qed.

Corollary call_lib_error_ignores_rest : forall (pre post post' : list instr) (lib f : str) (ip : nat) (s0 s : vm) (e : error),
  run_pre ffi ip pre s0 = Some s -> error_of lib f (ffi lib f (stack s)) = Some e ->
  run_from ffi ip (pre ++ CallLib lib f :: post) s0 = run_from ffi ip (pre ++ CallLib lib f :: post') s0.
Proof.
  intros pre post post' lib f ip s0 s e Hpre He. rewrite !(run_from_app pre _ ip s0 s Hpre).
  cbn [run_from exec_instr mark stack out steps calls].
  destruct (ffi lib f (stack s)); cbn in He; try discriminate; reflexivity.
Qed.

End WithFfi.
