(* Model of the foreign-call slice of the VM (C19).

   Code modelled:
     bytecode/src/instruction.rs  call_lib : arguments = clone of the local operand stack (a Vec, bottom first),
                                             JumpRequest{Library{lib, f}, arguments}, then clear_stack
     bytecode/src/interpreter.rs  process_library_jump_request : Library::new(lib) / lib.get(f) / lib_fn(args)
                                  errors get the contexts "Could not open FFI Library (lib)" /
                                  "Could not find symbol (f)" under "External error in foreign function interface"
     bytecode/src/function.rs     Function::run, JumpRequest arm : FFIError(m) => bail!("FFI: {m}") ;
                                  Value(p) => context.push(p) ; NoValue => nothing
     make_* (push a constant), printn "*" (print the whole operand stack on one line), void (clear the operand
     stack), ret_mod (fails unless the operand stack is empty).
   The foreign world - dynamic loader, symbol lookup, the function itself - is the Section variable `ffi`:
   every theorem holds for every foreign behaviour.  Outside the model: libloading / dlopen / the Rust ABI across
   the library boundary (observed by the correspondence with a probe library, not proved). *)
From Coq Require Import ZArith.
From MS Require Import Base.Str.

Inductive value :=
| VInt (z : Z)          (* i32 *)
| VBigInt (z : Z)       (* i128 *)
| VFloat (bits : N)     (* f64 by bit pattern *)
| VByte (n : N)
| VBool (b : bool)
| VStr (s : str).

Inductive ffi_outcome :=
| Value (v : value)     (* FFIReturnValue::Value *)
| NoValue               (* FFIReturnValue::NoValue *)
| Raised (msg : str)    (* FFIReturnValue::FFIError, i.e. raise_error! *)
| NoLibrary             (* Library::new fails *)
| NoSymbol.             (* lib.get fails *)

Inductive instr :=
| Push (v : value)
| CallLib (lib f : str)
| PrintN
| Void
| RetMod.

Inductive error :=
| EFfi (msg : str)                (* "FFI: <msg>" *)
| ENoLibrary (lib : str)          (* "Could not open FFI Library (<lib>)" *)
| ENoSymbol (lib f : str)         (* "Could not find symbol (<f>)" *)
| EDirtyRet.                      (* "ret_mod should have a clean operating stack" *)

Record vm := mkVm {
  stack : list value;                          (* local operand stack, bottom first *)
  out : list (list value);                     (* lines printed *)
  steps : list (nat * nat);                    (* executed instructions: (ip, operand stack length before) - hook H1 *)
  calls : list (str * str * list value) }.     (* foreign calls made: library, symbol, argument slice *)

Inductive step_result := Next (s : vm) | Return (s : vm) | Fail (e : error) (s : vm).

Inductive outcome := Finished (s : vm) | RuntimeErr (e : error) (s : vm).

Section FFI.
Variable ffi : str -> str -> list value -> ffi_outcome.

Definition exec_instr (i : instr) (s : vm) : step_result :=
  match i with
  | Push v => Next (mkVm (stack s ++ [v]) (out s) (steps s) (calls s))
  | PrintN => Next (mkVm (stack s) (out s ++ [stack s]) (steps s) (calls s))
  | Void => Next (mkVm [] (out s) (steps s) (calls s))
  | RetMod => match stack s with [] => Return s | _ => Fail EDirtyRet s end
  | CallLib lib f =>
      (* the request carries a copy of the stack; the stack is cleared; then the request is served *)
      let s' := fun st => mkVm st (out s) (steps s) (calls s ++ [(lib, f, stack s)]) in
      match ffi lib f (stack s) with
      | Value v => Next (s' [v])
      | NoValue => Next (s' [])
      | Raised m => Fail (EFfi m) (s' [])
      | NoLibrary => Fail (ENoLibrary lib) (mkVm [] (out s) (steps s) (calls s))
      | NoSymbol => Fail (ENoSymbol lib f) (mkVm [] (out s) (steps s) (calls s))
      end
  end.

Definition mark (ip : nat) (s : vm) : vm := mkVm (stack s) (out s) (steps s ++ [(ip, length (stack s))]) (calls s).

(* Function::run on straight-line code: the instruction at ip, then ip+1, ... ; falling off the end returns *)
Fixpoint run_from (ip : nat) (prog : list instr) (s : vm) : outcome :=
  match prog with
  | [] => Finished s
  | i :: rest =>
      match exec_instr i (mark ip s) with
      | Next s' => run_from (S ip) rest s'
      | Return s' => Finished s'
      | Fail e s' => RuntimeErr e s'
      end
  end.

(* a prefix that runs through without returning or failing *)
Fixpoint run_pre (ip : nat) (pre : list instr) (s : vm) : option vm :=
  match pre with
  | [] => Some s
  | i :: rest =>
      match exec_instr i (mark ip s) with
      | Next s' => run_pre (S ip) rest s'
      | _ => None
      end
  end.

Definition init : vm := mkVm [] [] [] [].
Definition run (prog : list instr) : outcome := run_from O prog init.

End FFI.

(* ---- a finite foreign world for the correspondence: known libraries, known symbols, a table of responses ---- *)

Definition value_eqb (a b : value) : bool :=
  match a, b with
  | VInt x, VInt y => Z.eqb x y
  | VBigInt x, VBigInt y => Z.eqb x y
  | VFloat x, VFloat y => N.eqb x y
  | VByte x, VByte y => N.eqb x y
  | VBool x, VBool y => Bool.eqb x y
  | VStr x, VStr y => str_eqb x y
  | _, _ => false
  end.

Fixpoint values_eqb (a b : list value) : bool :=
  match a, b with
  | [], [] => true
  | x :: a', y :: b' => value_eqb x y && values_eqb a' b'
  | _, _ => false
  end.

Definition unexpected : str := [117; 110; 101; 120; 112; 101; 99; 116; 101; 100].   (* "unexpected" *)

(* libs : the libraries that can be opened, each with the symbols it exports;
   tbl  : responses keyed by (library, symbol, argument slice) *)
Definition table_ffi (libs : list (str * list str)) (tbl : list (str * str * list value * ffi_outcome))
  : str -> str -> list value -> ffi_outcome :=
  fun lib f args =>
    match find (fun l => str_eqb (fst l) lib) libs with
    | None => NoLibrary
    | Some l =>
        if negb (existsb (str_eqb f) (snd l)) then NoSymbol
        else match find (fun e => str_eqb (fst (fst (fst e))) lib && str_eqb (snd (fst (fst e))) f
                                  && values_eqb (snd (fst e)) args) tbl with
             | Some e => snd e
             | None => Raised unexpected
             end
    end.

(* summary for the driver: status (0 finished, 1 FFI error, 2 no library, 3 no symbol, 4 dirty ret), lines printed,
   executed (ip, operand length), number of foreign calls, error message *)
Definition summary (o : outcome) : N * list (list value) * list (nat * nat) * list (str * str * list value) * str :=
  match o with
  | Finished s => (0, out s, steps s, calls s, [])
  | RuntimeErr (EFfi m) s => (1, out s, steps s, calls s, m)
  | RuntimeErr (ENoLibrary l) s => (2, out s, steps s, calls s, l)
  | RuntimeErr (ENoSymbol l f) s => (3, out s, steps s, calls s, f)
  | RuntimeErr EDirtyRet s => (4, out s, steps s, calls s, [])
  end.

(* flat encoding for the correspondence driver's parser: (kind, number, string) *)
Definition enc (v : value) : N * Z * str :=
  match v with
  | VInt z => (0, z, [])
  | VBigInt z => (1, z, [])
  | VFloat b => (2, Z.of_N b, [])
  | VByte n => (3, Z.of_N n, [])
  | VBool b => (4, if b then 1%Z else 0%Z, [])
  | VStr s => (5, 0%Z, s)
  end.

Definition summary_enc (o : outcome) :=
  match summary o with
  | (st, lines, stp, cls, msg) =>
      (st, map (map enc) lines, stp, map (fun c => (fst (fst c), snd (fst c), map enc (snd c))) cls, msg)
  end.
