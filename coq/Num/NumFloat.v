(* Real-number meaning of the two float primitives that are definitions of this development (the four
   arithmetic operations are Flocq's Bplus/Bminus/Bmult/Bdiv, whose real-number meaning is Flocq's
   Bplus_correct etc.):
     F_of_Z  (`x as f64`)   = the integer rounded to nearest, ties to even, always finite for an i128
     F_rem   (`x % y`, fmod) = x - trunc(x / y) * y, exactly (no rounding), for finite x and finite non-zero y *)
From Coq Require Import ZArith Reals Lia Lra.
From Flocq Require Import Core.Core IEEE754.BinarySingleNaN.
From MS Require Import Num.NumDefs.
Open Scope Z_scope.

Lemma bounded_facts : forall m e, SpecFloat.bounded 53 1024 m e = true -> Zpos m < 2 ^ 53 /\ -1074 <= e.
Proof.
  intros m e H. unfold SpecFloat.bounded in H. apply andb_prop in H. destruct H as [H _].
  unfold SpecFloat.canonical_mantissa in H. apply Zeq_bool_eq in H.
  rewrite Zpos_digits2_pos in H. unfold SpecFloat.fexp, SpecFloat.emin in H.
  pose proof (Zdigits_correct radix2 (Zpos m)) as D. cbn [Z.abs] in D.
  assert (Hd : Zdigits radix2 (Zpos m) <= 53) by lia.
  split; [|lia].
  destruct D as [_ D]. eapply Z.lt_le_trans; [exact D|].
  change (2 ^ 53) with (Zpower radix2 53). apply Zpower_le. exact Hd.
Qed.

Lemma Ztrunc_div_pos : forall a b, 0 <= a -> 0 < b -> Ztrunc (IZR a / IZR b) = a / b.
Proof.
  intros a b Ha Hb. rewrite Ztrunc_floor.
  - apply Zfloor_div. lia.
  - apply Rmult_le_pos; [apply IZR_le; lia|]. apply Rlt_le, Rinv_0_lt_compat, IZR_lt. lia.
Qed.

Lemma scale_mantissa : forall (m : Z) ex e, e <= ex ->
  (IZR m * bpow radix2 ex = IZR (m * 2 ^ (ex - e)) * bpow radix2 e)%R.
Proof.
  intros m ex e H. rewrite mult_IZR.
  change (2 ^ (ex - e)) with (Zpower radix2 (ex - e)). rewrite IZR_Zpower by lia.
  replace ex with ((ex - e) + e) at 1 by lia. rewrite bpow_plus. ring.
Qed.

Lemma sgn_mul : forall s (p : Z), IZR (cond_Zopp s p) = ((if s then -1 else 1) * IZR p)%R.
Proof. intros [|] p; cbn [cond_Zopp]; [rewrite opp_IZR|]; ring. Qed.

Theorem F_rem_correct : forall x y : float,
  is_finite x = true -> is_finite y = true -> B2R y <> 0%R ->
  is_finite (F_rem x y) = true /\
  B2R (F_rem x y) = (B2R x - IZR (Ztrunc (B2R x / B2R y)) * B2R y)%R.
Proof.
  intros x y Fx Fy Hy0.
  destruct x as [sx|sx| |sx mx ex Bx]; try discriminate;
  destruct y as [sy|sy| |sy my ey By]; try discriminate; try (exfalso; apply Hy0; reflexivity).
  - (* x = +-0 *)
    split; [reflexivity|]. cbn [F_rem B2R]. unfold Rdiv. rewrite Rmult_0_l.
    change 0%R with (IZR 0) at 2. rewrite Ztrunc_IZR. simpl. ring.
  - (* both finite, y nonzero *)
    destruct (bounded_facts _ _ Bx) as [Mx Ex]. destruct (bounded_facts _ _ By) as [My Ey].
    cbn [F_rem].
    set (e := Z.min ex ey).
    set (X := Zpos mx * 2 ^ (ex - e)). set (Y := Zpos my * 2 ^ (ey - e)).
    assert (He1 : e <= ex) by (unfold e; lia). assert (He2 : e <= ey) by (unfold e; lia).
    assert (He3 : -1074 <= e) by (unfold e; lia).
    assert (Px : 0 < 2 ^ (ex - e)) by (apply Z.pow_pos_nonneg; lia).
    assert (Py : 0 < 2 ^ (ey - e)) by (apply Z.pow_pos_nonneg; lia).
    assert (HX : 0 < X) by (unfold X; nia). assert (HY : 0 < Y) by (unfold Y; nia).
    set (r := Z.rem X Y).
    assert (Hr : 0 <= r < Y) by (apply Z.rem_bound_pos; lia).
    assert (Hq : X = Y * (X / Y) + r).
    { unfold r. rewrite Z.rem_mod_nonneg by lia. apply Z.div_mod. lia. }
    assert (HrX : r <= X).
    { unfold r. rewrite Z.rem_mod_nonneg by lia. apply Z.mod_le; lia. }
    assert (Hr53 : r < 2 ^ 53).
    { destruct (Z.min_spec ex ey) as [[_ E]|[_ E]]; fold e in E.
      - (* e = ex *) assert (X = Zpos mx) by (unfold X; rewrite E, Z.sub_diag; cbn; lia). lia.
      - (* e = ey *) assert (Y = Zpos my) by (unfold Y; rewrite E, Z.sub_diag; cbn; lia). lia. }
    (* the real values *)
    assert (Vx : B2R (B754_finite sx mx ex Bx) = ((if sx then -1 else 1) * IZR X * bpow radix2 e)%R).
    { cbn [B2R]. unfold F2R. cbn [Fnum Fexp]. rewrite sgn_mul, Rmult_assoc, (scale_mantissa (Zpos mx) ex e He1).
      fold X. ring. }
    assert (Vy : B2R (B754_finite sy my ey By) = ((if sy then -1 else 1) * IZR Y * bpow radix2 e)%R).
    { cbn [B2R]. unfold F2R. cbn [Fnum Fexp]. rewrite sgn_mul, Rmult_assoc, (scale_mantissa (Zpos my) ey e He2).
      fold Y. ring. }
    (* the result is exactly representable *)
    set (m' := if sx then - r else r).
    pose proof (binary_normalize_correct 53 1024 p53 p1024 mode_NE m' e sx) as N. cbv zeta in N.
    fold (F_norm m' e sx) in N.
    set (x' := F2R (Float radix2 m' e)) in *.
    assert (Vx' : x' = ((if sx then -1 else 1) * IZR r * bpow radix2 e)%R).
    { unfold x', F2R, m'. cbn [Fnum Fexp]. destruct sx; [rewrite opp_IZR|]; ring. }
    assert (G : generic_format radix2 (SpecFloat.fexp 53 1024) x').
    { apply generic_format_F2R. intros Hm. unfold cexp. rewrite mag_F2R_Zdigits by exact Hm.
      assert (Zdigits radix2 m' <= 53).
      { apply Zdigits_le_Zpower. change (Zpower radix2 53) with (2 ^ 53). unfold m'. destruct sx; lia. }
      unfold SpecFloat.fexp, SpecFloat.emin. lia. }
    assert (Hv : Valid_exp (SpecFloat.fexp 53 1024)) by (apply fexp_correct; exact p53).
    rewrite (round_generic radix2 _ (round_mode mode_NE) x' G) in N.
    assert (Hlt : (Rabs x' < bpow radix2 1024)%R).
    { eapply Rle_lt_trans; [|apply (abs_B2R_lt_emax 53 1024 (B754_finite sx mx ex Bx))].
      rewrite Vx, Vx'. rewrite !Rabs_mult. rewrite (Rabs_pos_eq (bpow radix2 e)) by apply bpow_ge_0.
      assert (Rabs (if sx then -1 else 1) = 1)%R as -> by (destruct sx; unfold Rabs; destruct (Rcase_abs _); lra).
      rewrite !Rabs_pos_eq by (apply IZR_le; lia).
      apply Rmult_le_compat_r; [apply bpow_ge_0|]. rewrite !Rmult_1_l. apply IZR_le. exact HrX. }
    rewrite (Rlt_bool_true _ _ Hlt) in N. destruct N as (NR & NF & _).
    split; [exact NF|]. rewrite NR, Vx', Vx, Vy.
    (* the quotient *)
    assert (Hb : bpow radix2 e <> 0%R) by (apply Rgt_not_eq, bpow_gt_0).
    assert (HYr : IZR Y <> 0%R) by (apply not_0_IZR; lia).
    assert (Q : ((if sx then -1 else 1) * IZR X * bpow radix2 e / ((if sy then -1 else 1) * IZR Y * bpow radix2 e)
                 = (if sx then -1 else 1) * (if sy then -1 else 1) * (IZR X / IZR Y))%R).
    { destruct sx, sy; field; split; assumption. }
    rewrite Q.
    assert (T : Ztrunc ((if sx then -1 else 1) * (if sy then -1 else 1) * (IZR X / IZR Y))
                = (if sx then -1 else 1) * (if sy then -1 else 1) * (X / Y)).
    { destruct sx, sy;
      [ replace (-1 * -1 * (IZR X / IZR Y))%R with (IZR X / IZR Y)%R by ring
      | replace (-1 * 1 * (IZR X / IZR Y))%R with (- (IZR X / IZR Y))%R by ring; rewrite Ztrunc_opp
      | replace (1 * -1 * (IZR X / IZR Y))%R with (- (IZR X / IZR Y))%R by ring; rewrite Ztrunc_opp
      | replace (1 * 1 * (IZR X / IZR Y))%R with (IZR X / IZR Y)%R by ring ];
      rewrite Ztrunc_div_pos by lia; lia. }
    rewrite T.
    assert (HqR : IZR X = (IZR Y * IZR (X / Y) + IZR r)%R) by (rewrite <- mult_IZR, <- plus_IZR; f_equal; exact Hq).
    destruct sx, sy; rewrite !mult_IZR; simpl IZR; rewrite HqR; ring.
Qed.

Theorem F_of_Z_correct : forall z, Z.abs z <= 2 ^ 127 ->
  is_finite (F_of_Z z) = true /\
  B2R (F_of_Z z) = round radix2 (SpecFloat.fexp 53 1024) ZnearestE (IZR z).
Proof.
  intros z Hz. unfold F_of_Z, F_norm.
  pose proof (fexp_correct 53 1024 p53) as Hv.
  pose proof (valid_rnd_round_mode mode_NE) as Hr.
  pose proof (binary_normalize_correct 53 1024 p53 p1024 mode_NE z 0 false) as H. cbv zeta in H.
  assert (Hx : F2R (Float radix2 z 0) = IZR z) by (unfold F2R; simpl; lra).
  rewrite Hx in H.
  assert (G : generic_format radix2 (SpecFloat.fexp 53 1024) (bpow radix2 127)).
  { apply generic_format_bpow. vm_compute. discriminate. }
  assert (B : (Rabs (round radix2 (SpecFloat.fexp 53 1024) (round_mode mode_NE) (IZR z)) <= bpow radix2 127)%R).
  { apply abs_round_le_generic; auto.
    rewrite <- abs_IZR. change (bpow radix2 127) with (IZR (Zpower radix2 127)) || rewrite <- IZR_Zpower by lia.
    apply IZR_le. exact Hz. }
  rewrite Rlt_bool_true in H.
  - destruct H as (HR & HF & _). split; [exact HF | exact HR].
  - eapply Rle_lt_trans; [exact B|]. apply bpow_lt. lia.
Qed.
