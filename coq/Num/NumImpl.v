(* Executable model of mscript's run-time numeric operators, written to mirror the Rust code arm by
   arm (same case split, same casts, same order of checks, same failure class).

     bytecode/src/variables/ops.rs            apply_math_bin_op_if_applicable!, apply_bool_bin_op_if_applicable!
     bytecode/src/variables/ops/{add,sub,mul,div,rem}.rs   operator impls, zero guards of div.rs / rem.rs
     bytecode/src/variables/ops/bitops.rs     generic_bitop! (& | ^) and generic_bitop!(@checked ..) (<< >>)
     bytecode/src/variables/ops/ord.rs        lt le gt ge
     bytecode/src/variables/primitive.rs      equals, negate
     bytecode/src/instruction.rs              bin_op, equ, neq, neg, not

   The model has a [version] parameter:
     [Orig m]  the code before the fixes: plain `x + y`, `x - y`, `x * y`, `-x` on i32/i128/u8, whose
               behaviour on overflow depends on the build: m = Trap (debug build, overflow checks on:
               panic), m = Wrap (release build: wrap around); zero guard of `/` and `%` without Byte(0);
               plain `%` (MIN % -1 panics).
     [Fixed]   the code with fixes/num-overflow-panics-in-every-build.diff (checked_add/sub/mul/neg
               + expect: a panic in EVERY build), fixes/num-byte-zero-divisor.diff (zero guard extended
               to Byte(0)), fixes/num-rem-min-by-minus-one.diff (wrapping_rem: MIN % -1 = 0) and
               fixes/num-shl-lost-bits.diff (`<<` through ExactShl::exact_shl: a left shift that loses a
               bit is an error; the original checked_shl only looked at the shift amount).
   The correspondence check (vlib/c05.py) runs [Fixed] against the real code in debug AND release. *)
From MS Require Export Num.NumDefs.

Inductive ovf_mode := Trap | Wrap.
Inductive version := Orig (m : ovf_mode) | Fixed.

(* ---------------------------------------------------------------- casts *)
(* `x as T` between integer types keeps the low bits *)
Definition as_ (t : ity) (z : Z) : Z := wrap t z.
(* `*y as u32` from u8 *)
Definition as_u32 (z : Z) : Z := z mod 4294967296.
(* `y.try_into()?` to u32 from i32 / i128 *)
Definition try_u32 (z : Z) : option Z :=
  if (0 <=? z) && (z <=? 4294967295) then Some z else None.

(* ---------------------------------------------------------------- integer arithmetic, original code *)
(* plain `x + y` / `x - y` / `x * y` / `-x` on a Rust integer type *)
Definition plain (m : ovf_mode) (t : ity) (exact : Z) : res Z :=
  if in_range t exact then Ok exact
  else match m with Trap => Panic | Wrap => Ok (wrap t exact) end.

(* x == T::MIN && y == -1 on a signed type *)
Definition min_by_m1 (t : ity) (x y : Z) : bool := signed t && (x =? imin t) && (y =? -1).

(* plain `x / y`, `x % y`: division by zero and MIN / -1, MIN % -1 panic in every build *)
Definition rust_div (t : ity) (x y : Z) : res Z :=
  if y =? 0 then Panic else if min_by_m1 t x y then Panic else Ok (Z.quot x y).
Definition rust_rem (t : ity) (x y : Z) : res Z :=
  if y =? 0 then Panic else if min_by_m1 t x y then Panic else Ok (Z.rem x y).

Definition orig_int (m : ovf_mode) (t : ity) (o : aop) (x y : Z) : res Z :=
  match o with
  | Add => plain m t (x + y)
  | Sub => plain m t (x - y)
  | Mul => plain m t (x * y)
  | Div => rust_div t x y
  | Rem => rust_rem t x y
  end.

(* ---------------------------------------------------------------- integer arithmetic, fixed code *)
(* T::checked_add / checked_sub / checked_mul / checked_neg *)
Definition checked (t : ity) (exact : Z) : option Z := if in_range t exact then Some exact else None.
(* .expect("integer overflow in ..") : a panic in every build *)
Definition expect (o : option Z) : res Z := match o with Some z => Ok z | None => Panic end.
(* T::wrapping_rem: division by zero panics, MIN % -1 = 0 *)
Definition wrapping_rem (t : ity) (x y : Z) : res Z := if y =? 0 then Panic else Ok (Z.rem x y).

Definition fixed_int (t : ity) (o : aop) (x y : Z) : res Z :=
  match o with
  | Add => expect (checked t (x + y))
  | Sub => expect (checked t (x - y))
  | Mul => expect (checked t (x * y))
  | Div => rust_div t x y                 (* still the plain `/` *)
  | Rem => wrapping_rem t x y
  end.

Definition int_op (v : version) (t : ity) (o : aop) (x y : Z) : res Z :=
  match v with Orig m => orig_int m t o x y | Fixed => fixed_int t o x y end.

(* ---------------------------------------------------------------- the macro of ops.rs *)
(* apply_math_bin_op_if_applicable!(@no_f64 ..): nine integer arms; [f t x y] is `x $symbol y` at type t.
   None = no arm applies. *)
Definition math_no_f64 (f : ity -> Z -> Z -> res Z) (a b : value) : option (res value) :=
  match a, b with
  | Int x, Int y => Some (lift Int (f I32 x y))
  | Int x, Big y => Some (lift Big (f I128 (as_ I128 x) y))
  | Int x, Byte y => Some (lift Int (f I32 x (as_ I32 y)))
  | Big x, Big y => Some (lift Big (f I128 x y))
  | Big x, Int y => Some (lift Big (f I128 x (as_ I128 y)))
  | Big x, Byte y => Some (lift Big (f I128 x (as_ I128 y)))
  | Byte x, Byte y => Some (lift Byte (f U8 x y))
  | Byte x, Int y => Some (lift Int (f I32 (as_ I32 x) y))
  | Byte x, Big y => Some (lift Big (f I128 (as_ I128 x) y))
  | _, _ => None
  end.

(* the seven float arms: `*x as f64 $symbol y` ... *)
Definition math_f64 (o : aop) (a b : value) : option value :=
  match a, b with
  | Int x, Flt y => Some (Flt (flt_op o (F_of_Z x) y))
  | Flt x, Flt y => Some (Flt (flt_op o x y))
  | Flt x, Int y => Some (Flt (flt_op o x (F_of_Z y)))
  | Flt x, Big y => Some (Flt (flt_op o x (F_of_Z y)))
  | Flt x, Byte y => Some (Flt (flt_op o x (F_of_Z y)))
  | Big x, Flt y => Some (Flt (flt_op o (F_of_Z x) y))
  | Byte x, Flt y => Some (Flt (flt_op o (F_of_Z x) y))
  | _, _ => None
  end.

Definition apply_math (v : version) (o : aop) (a b : value) : option (res value) :=
  match math_no_f64 (fun t => int_op v t o) a b with
  | Some r => Some r
  | None => option_map Ok (math_f64 o a b)
  end.

(* div.rs / rem.rs: `match rhs { Int(0) | BigInt(0) [| Byte(0)] => bail!, Float(f) if f == &0.0 => bail!, _ => () }` *)
Definition zero_guard (v : version) (b : value) : bool :=
  match b with
  | Int z => z =? 0
  | Big z => z =? 0
  | Byte z => match v with Fixed => z =? 0 | Orig _ => false end
  | Flt f => F_is_zero f
  | Bool _ => false
  end.

(* Add/Sub/Mul/Div/Rem for Primitive (numeric operands: the str/vector arms of add.rs/mul.rs do not apply) *)
Definition arith (v : version) (o : aop) (a b : value) : res value :=
  if is_divlike o && zero_guard v b then Err
  else match apply_math v o a b with Some r => r | None => Err end.

(* generic_bitop!: apply_math_bin_op_if_applicable!(@no_f64 t1 $symbol t2).with_context(..) *)
Definition bit (o : bop) (a b : value) : res value :=
  match math_no_f64 (fun _ x y => Ok (bit_op o x y)) a b with Some r => r | None => Err end.

(* ---------------------------------------------------------------- checked shifts *)
(* T::checked_shl / checked_shr (x, n : u32): None when n >= T::BITS; shl keeps the low bits *)
Definition checked_sh (t : ity) (o : sop) (x n : Z) : option Z :=
  if n <? width t then Some match o with Shl => wrap t (x * 2 ^ n) | Shr => Z.shiftr x n end
  else None.

(* fixed code, bitops.rs ExactShl::exact_shl (x, n : u32):
     let shifted = self.checked_shl(amount)?; (shifted >> amount == self).then_some(shifted)
   (`>>` stays checked_shr) *)
Definition exact_sh (t : ity) (o : sop) (x n : Z) : option Z :=
  match o with
  | Shl => match checked_sh t Shl x n with
           | Some r => if Z.shiftr r n =? x then Some r else None
           | None => None
           end
  | Shr => checked_sh t Shr x n
  end.

(* the function named by `safe=` in generic_bitop!(@checked ..) *)
Definition sh_fn (v : version) : ity -> sop -> Z -> Z -> option Z :=
  match v with Orig _ => checked_sh | Fixed => exact_sh end.

Definition shift_arm (f : ity -> sop -> Z -> Z -> option Z)
                     (t : ity) (inj : Z -> value) (o : sop) (x : Z) (amount : option Z) : res value :=
  match amount with
  | None => Err                                              (* try_into()? *)
  | Some n => match f t o x n with
              | Some z => Ok (inj z)
              | None => Err                                  (* .context("operation overflow/underflow")? *)
              end
  end.

Definition shift_op (v : version) (o : sop) (a b : value) : res value :=
  let arm := shift_arm (sh_fn v) in
  match a, b with
  | Int x, Int y => arm I32 Int o x (try_u32 y)
  | Int x, Big y => arm I128 Big o (as_ I128 x) (try_u32 y)
  | Int x, Byte y => arm I32 Int o x (Some (as_u32 y))
  | Big x, Big y => arm I128 Big o x (try_u32 y)
  | Big x, Int y => arm I128 Big o x (try_u32 y)
  | Big x, Byte y => arm I128 Big o x (Some (as_u32 y))
  | Byte x, Byte y => arm U8 Byte o x (Some (as_u32 y))
  | Byte x, Int y => arm I32 Int o (as_ I32 x) (try_u32 y)
  | Byte x, Big y => arm I128 Big o (as_ I128 x) (try_u32 y)
  | _, _ => Err
  end.

(* ---------------------------------------------------------------- ordering: apply_bool_bin_op_if_applicable! *)
Definition ord_op (o : cop) (a b : value) : res value :=
  match a, b with
  | Int x, Int y => Ok (Bool (cmp_Z o x y))
  | Int x, Flt y => Ok (Bool (cmp_F o (F_of_Z x) y))
  | Int x, Big y => Ok (Bool (cmp_Z o (as_ I128 x) y))
  | Int x, Byte y => Ok (Bool (cmp_Z o x (as_ I32 y)))
  | Flt x, Flt y => Ok (Bool (cmp_F o x y))
  | Flt x, Int y => Ok (Bool (cmp_F o x (F_of_Z y)))
  | Flt x, Big y => Ok (Bool (cmp_F o x (F_of_Z y)))
  | Flt x, Byte y => Ok (Bool (cmp_F o x (F_of_Z y)))
  | Big x, Big y => Ok (Bool (cmp_Z o x y))
  | Big x, Int y => Ok (Bool (cmp_Z o x (as_ I128 y)))
  | Big x, Flt y => Ok (Bool (cmp_F o (F_of_Z x) y))
  | Big x, Byte y => Ok (Bool (cmp_Z o x (as_ I128 y)))
  | Byte x, Byte y => Ok (Bool (cmp_Z o x y))
  | Byte x, Int y => Ok (Bool (cmp_Z o (as_ I32 x) y))
  | Byte x, Big y => Ok (Bool (cmp_Z o (as_ I128 x) y))
  | Byte x, Flt y => Ok (Bool (cmp_F o (F_of_Z x) y))
  | _, _ => Panic                                            (* panic!("boolean comparison on a non-boolean") *)
  end.

(* ---------------------------------------------------------------- Primitive::equals (impl_eq!) *)
Definition equals (a b : value) : res bool :=
  match a with
  | Int x => match b with
             | Int y => Ok (x =? y)
             | Flt y => Ok (F_eqb (F_of_Z x) y)
             | Big y => Ok (as_ I128 x =? as_ I128 y)
             | Byte y => Ok (as_ I32 x =? as_ I32 y)
             | _ => Err end
  | Flt x => match b with
             | Flt y => Ok (F_eqb x y)
             | Int y => Ok (F_eqb x (F_of_Z y))
             | Big y => Ok (F_eqb x (F_of_Z y))
             | Byte y => Ok (F_eqb x (F_of_Z y))
             | _ => Err end
  | Big x => match b with
             | Big y => Ok (x =? y)
             | Flt y => Ok (F_eqb (F_of_Z x) y)
             | Int y => Ok (as_ I128 x =? as_ I128 y)
             | Byte y => Ok (as_ I128 x =? as_ I128 y)
             | _ => Err end
  | Byte x => match b with
              | Byte y => Ok (x =? y)
              | Flt y => Ok (F_eqb (F_of_Z x) y)
              | Big y => Ok (as_ I128 x =? as_ I128 y)
              | Int y => Ok (as_ I32 x =? as_ I32 y)
              | _ => Err end
  | Bool x => match b with Bool y => Ok (Bool.eqb x y) | _ => Err end
  end.

(* ---------------------------------------------------------------- unary operators *)
Definition neg_int (v : version) (t : ity) (x : Z) : res Z :=
  match v with
  | Orig m => plain m t (- x)             (* x = -x *)
  | Fixed => expect (checked t (- x))     (* checked_neg().expect(..) *)
  end.

(* Primitive::negate *)
Definition negate (v : version) (a : value) : res value :=
  match a with
  | Big x => lift Big (neg_int v I128 x)
  | Int x => lift Int (neg_int v I32 x)
  | Flt x => Ok (Flt (F_neg x))
  | _ => Err                              (* bail!("cannot negate {ty}") *)
  end.

(* instruction.rs `not` *)
Definition not_ (a : value) : res value :=
  match a with Bool b => Ok (Bool (negb b)) | _ => Err end.

(* ---------------------------------------------------------------- instruction.rs bin_op / equ / neq *)
Definition binop_eval (v : version) (op : binop) (a b : value) : res value :=
  match op with
  | Arith o => arith v o a b
  | Bit o => bit o a b
  | Shift o => shift_op v o a b
  | Cmp o => ord_op o a b
  | Equ Eq_ => lift Bool (equals a b)
  | Equ Ne_ => lift (fun r => Bool (negb r)) (equals a b)
  end.
