(* Shared vocabulary of the numeric tower (C05/C06): the four numeric kinds of mscript, run-time
   values, fixed-width integer ranges, IEEE-754 binary64 primitives (Flocq) and outcomes.
   Code: bytecode/src/variables/primitive.rs  Primitive::{Int(i32), BigInt(i128), Float(f64), Byte(u8), Bool}. *)
From Coq Require Export ZArith Bool Lia.
From Flocq Require Export IEEE754.BinarySingleNaN.
Open Scope Z_scope.

(* ---------------------------------------------------------------- kinds and values *)
Inductive kind := KInt | KBig | KByte | KFloat.

Definition float := binary_float 53 1024.

Inductive value :=
| Int (z : Z)      (* Primitive::Int(i32) *)
| Big (z : Z)      (* Primitive::BigInt(i128) *)
| Byte (z : Z)     (* Primitive::Byte(u8) *)
| Flt (f : float)  (* Primitive::Float(f64) *)
| Bool (b : bool). (* Primitive::Bool *)

Definition kind_of (v : value) : option kind :=
  match v with Int _ => Some KInt | Big _ => Some KBig | Byte _ => Some KByte
             | Flt _ => Some KFloat | Bool _ => None end.

(* ---------------------------------------------------------------- Rust integer types *)
Inductive ity := I32 | I128 | U8.

Definition imin (t : ity) : Z :=
  match t with I32 => -2147483648 | I128 => -170141183460469231731687303715884105728 | U8 => 0 end.
Definition imax (t : ity) : Z :=
  match t with I32 => 2147483647 | I128 => 170141183460469231731687303715884105727 | U8 => 255 end.
Definition width (t : ity) : Z := match t with I32 => 32 | I128 => 128 | U8 => 8 end.
Definition signed (t : ity) : bool := match t with U8 => false | _ => true end.

Definition in_range (t : ity) (z : Z) : bool := (imin t <=? z) && (z <=? imax t).

(* the value of the fixed-width two's-complement bit pattern of z: what `as`, wrapping_* and
   overflowing shifts produce *)
Definition wrap (t : ity) (z : Z) : Z :=
  match t with
  | U8 => z mod 256
  | I32 => (z + 2147483648) mod 4294967296 - 2147483648
  | I128 => (z + 170141183460469231731687303715884105728)
              mod 340282366920938463463374607431768211456
            - 170141183460469231731687303715884105728
  end.

Definition ity_of (k : kind) : ity := match k with KInt => I32 | KBig => I128 | _ => U8 end.
Definition mk (k : kind) (z : Z) : value :=
  match k with KInt => Int z | KBig => Big z | _ => Byte z end.

(* a value that can exist at run time: the payload fits its Rust type *)
Definition wf (v : value) : Prop :=
  match v with
  | Int z => in_range I32 z = true
  | Big z => in_range I128 z = true
  | Byte z => in_range U8 z = true
  | Flt _ | Bool _ => True
  end.

Definition is_num (v : value) : Prop := kind_of v <> None.

(* ---------------------------------------------------------------- binary64 *)
Definition p53 : FLX.Prec_gt_0 53 := eq_refl.
Definition p1024 : Prec_lt_emax 53 1024 := eq_refl.

Definition F_add : float -> float -> float := @Bplus 53 1024 p53 p1024 mode_NE.
Definition F_sub : float -> float -> float := @Bminus 53 1024 p53 p1024 mode_NE.
Definition F_mul : float -> float -> float := @Bmult 53 1024 p53 p1024 mode_NE.
Definition F_div : float -> float -> float := @Bdiv 53 1024 p53 p1024 mode_NE.
Definition F_neg : float -> float := Bopp.
Definition F_cmp : float -> float -> option comparison := Bcompare.
Definition F_norm (m e : Z) (szero : bool) : float :=
  binary_normalize 53 1024 p53 p1024 mode_NE m e szero.

(* integer -> double: `x as f64`, round to nearest, ties to even *)
Definition F_of_Z (z : Z) : float := F_norm z 0 false.

Definition F_zero : float := B754_zero false.
Definition F_nan : float := B754_nan.

(* C `fmod` (Rust `%` on f64): x - trunc(x/y)*y computed exactly on (mantissa, exponent) pairs;
   the result has the sign of x and is always representable *)
Definition F_rem (x y : float) : float :=
  match x, y with
  | B754_nan, _ => F_nan
  | _, B754_nan => F_nan
  | B754_infinity _, _ => F_nan
  | _, B754_zero _ => F_nan
  | B754_zero _, _ => x
  | B754_finite _ _ _ _, B754_infinity _ => x
  | B754_finite sx mx ex _, B754_finite _ my ey _ =>
      let e := Z.min ex ey in
      let r := Z.rem (Zpos mx * 2 ^ (ex - e)) (Zpos my * 2 ^ (ey - e)) in
      F_norm (if sx then - r else r) e sx
  end.

(* f == 0.0 (true for +0 and -0, false for NaN) *)
Definition F_is_zero (f : float) : bool :=
  match F_cmp f F_zero with Some Eq => true | _ => false end.
Definition F_eqb (x y : float) : bool :=
  match F_cmp x y with Some Eq => true | _ => false end.

(* ---------------------------------------------------------------- operators *)
Inductive aop := Add | Sub | Mul | Div | Rem.   (* + - * / %   ops/{add,sub,mul,div,rem}.rs *)
Inductive bop := And | Or | Xor.                (* & | xor     ops/bitops.rs generic_bitop!      *)
Inductive sop := Shl | Shr.                     (* << >>       ops/bitops.rs generic_bitop!(@checked) *)
Inductive cop := CLt | CLe | CGt | CGe.            (* < <= > >=   ops/ord.rs                         *)
Inductive eop := Eq_ | Ne_.                     (* == !=       primitive.rs equals, instruction equ/neq *)
Inductive binop := Arith (o : aop) | Bit (o : bop) | Shift (o : sop) | Cmp (o : cop) | Equ (o : eop).

Definition is_divlike (o : aop) : bool := match o with Div | Rem => true | _ => false end.

(* IEEE-754 result of an arithmetic operator on two doubles *)
Definition flt_op (o : aop) (x y : float) : float :=
  match o with Add => F_add x y | Sub => F_sub x y | Mul => F_mul x y
             | Div => F_div x y | Rem => F_rem x y end.

Definition bit_op (o : bop) (x y : Z) : Z :=
  match o with And => Z.land x y | Or => Z.lor x y | Xor => Z.lxor x y end.

Definition cmp_Z (o : cop) (x y : Z) : bool :=
  match o with CLt => x <? y | CLe => x <=? y | CGt => y <? x | CGe => y <=? x end.
Definition cmp_F (o : cop) (x y : float) : bool :=
  match F_cmp x y with
  | Some Lt => match o with CLt | CLe => true | _ => false end
  | Some Eq => match o with CLe | CGe => true | _ => false end
  | Some Gt => match o with CGt | CGe => true | _ => false end
  | None => false
  end.

(* ---------------------------------------------------------------- outcomes of the Rust code *)
Inductive res (A : Type) :=
| Ok (a : A)
| Err      (* anyhow error returned (bail!, `?`, context on None) *)
| Panic.   (* Rust panic: arithmetic overflow check, division by zero, panic!() *)
Arguments Ok {A}. Arguments Err {A}. Arguments Panic {A}.

Definition is_failure {A} (r : res A) : Prop := match r with Ok _ => False | _ => True end.
Definition lift {A B} (f : A -> B) (r : res A) : res B :=
  match r with Ok a => Ok (f a) | Err => Err | Panic => Panic end.
