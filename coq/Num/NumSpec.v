(* The specification of property C05, written out: what every numeric operator must yield.

   * the result kind is given by the promotion table;
   * integer kinds: the mathematically exact value in Z (truncating division Z.quot, remainder Z.rem with
     the sign of the dividend); when it is not representable in the result kind, or the divisor is zero:
     Undefined (the implementation must stop with a failure);
   * float kind: the IEEE-754 binary64 result (Flocq, round to nearest even; inf and NaN where IEEE
     produces them), an integer operand being converted to double; zero divisor of any kind: Undefined;
   * bitwise operators: two's-complement bit operations (Z.land/lor/lxor on Z); not defined on float;
   * shifts: `x << n` is the exact value x * 2^n, Undefined when it is not representable in the result
     kind (a bit would be lost: "a wrapped, truncated or otherwise wrong value is never produced");
     `x >> n` is floor (x / 2^n) (arithmetic shift, always representable); a shift amount outside
     [0, width): Undefined;
   * comparison and equality: by numeric value; when either side is float both are compared as doubles
     (NaN compares false, != true). *)
From MS Require Export Num.NumDefs.

(* same kinds keep their kind, byte yields to the other operand, int yields to bigint,
   anything with float is float *)
Definition promote (a b : kind) : kind :=
  match a, b with
  | KFloat, _ | _, KFloat => KFloat
  | KBig, _ | _, KBig => KBig
  | KInt, _ | _, KInt => KInt
  | KByte, KByte => KByte
  end.

Inductive sres := Exact (v : value) | Undefined.

(* mathematical value of an integer operand / an operand as a double *)
Definition Zval (v : value) : Z := match v with Int z | Big z | Byte z => z | _ => 0 end.
Definition Fval (v : value) : float :=
  match v with Flt f => f | Int z | Big z | Byte z => F_of_Z z | Bool _ => F_nan end.

Definition is_zero (v : value) : bool :=
  match v with Int z | Big z | Byte z => z =? 0 | Flt f => F_is_zero f | Bool _ => false end.

(* the exact integer result must be representable in kind k *)
Definition repr (k : kind) (z : Z) : sres :=
  if in_range (ity_of k) z then Exact (mk k z) else Undefined.

Definition exact_Z (o : aop) (x y : Z) : Z :=
  match o with Add => x + y | Sub => x - y | Mul => x * y | Div => Z.quot x y | Rem => Z.rem x y end.

Definition spec_arith (o : aop) (a b : value) : sres :=
  match kind_of a, kind_of b with
  | Some ka, Some kb =>
      if is_divlike o && is_zero b then Undefined
      else match promote ka kb with
           | KFloat => Exact (Flt (flt_op o (Fval a) (Fval b)))
           | k => repr k (exact_Z o (Zval a) (Zval b))
           end
  | _, _ => Undefined
  end.

Definition spec_bit (o : bop) (a b : value) : sres :=
  match kind_of a, kind_of b with
  | Some ka, Some kb =>
      match promote ka kb with
      | KFloat => Undefined
      | k => repr k (bit_op o (Zval a) (Zval b))
      end
  | _, _ => Undefined
  end.

Definition spec_shift (o : sop) (a b : value) : sres :=
  match kind_of a, kind_of b with
  | Some ka, Some kb =>
      match promote ka kb with
      | KFloat => Undefined
      | k => let n := Zval b in
             if (0 <=? n) && (n <? width (ity_of k))
             then match o with
                  | Shl => repr k (Zval a * 2 ^ n)
                  | Shr => Exact (mk k (Z.shiftr (Zval a) n))
                  end
             else Undefined
      end
  | _, _ => Undefined
  end.

Definition has_float (ka kb : kind) : bool :=
  match ka, kb with KFloat, _ | _, KFloat => true | _, _ => false end.

Definition spec_cmp (o : cop) (a b : value) : sres :=
  match kind_of a, kind_of b with
  | Some ka, Some kb =>
      Exact (Bool (if has_float ka kb then cmp_F o (Fval a) (Fval b) else cmp_Z o (Zval a) (Zval b)))
  | _, _ => Undefined
  end.

Definition spec_eq (a b : value) : option bool :=
  match kind_of a, kind_of b with
  | Some ka, Some kb =>
      Some (if has_float ka kb then F_eqb (Fval a) (Fval b) else Zval a =? Zval b)
  | _, _ => None
  end.

Definition spec_binop (op : binop) (a b : value) : sres :=
  match op with
  | Arith o => spec_arith o a b
  | Bit o => spec_bit o a b
  | Shift o => spec_shift o a b
  | Cmp o => spec_cmp o a b
  | Equ Eq_ => match spec_eq a b with Some r => Exact (Bool r) | None => Undefined end
  | Equ Ne_ => match spec_eq a b with Some r => Exact (Bool (negb r)) | None => Undefined end
  end.

(* unary minus is defined by the language on int, bigint and float (the compiler rejects `-b` for a
   byte b: TypeLayout::supports_negate) *)
Definition spec_neg (a : value) : sres :=
  match a with
  | Int x => repr KInt (- x)
  | Big x => repr KBig (- x)
  | Flt f => Exact (Flt (F_neg f))
  | _ => Undefined
  end.

Definition spec_not (a : value) : sres :=
  match a with Bool b => Exact (Bool (negb b)) | _ => Undefined end.

(* the kind (or Bool) the promotion table assigns to a result *)
Inductive rkind := RNum (k : kind) | RBool.
Definition rkind_of (v : value) : rkind :=
  match v with Int _ => RNum KInt | Big _ => RNum KBig | Byte _ => RNum KByte
             | Flt _ => RNum KFloat | Bool _ => RBool end.
Definition result_kind (op : binop) (ka kb : kind) : rkind :=
  match op with Cmp _ | Equ _ => RBool | _ => RNum (promote ka kb) end.

(* "impl outcome r meets spec outcome s": the exact value, or a failure - never another value *)
Definition meets (s : sres) (r : res value) : Prop :=
  match s with Exact v => r = Ok v | Undefined => is_failure r end.
