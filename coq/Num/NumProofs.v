From MS Require Import Num.NumImpl Num.NumSpec.
